(* C03 - proofs of the executable statements of Spec/NegSpec.v over Model/NegModel.v.
   Frame infrastructure: Proofs/NegFrame_C03.v. *)
Require Import LV.Common.Bytes LV.Gen.Gen_neg LV.Model.NegState LV.Model.NegModel LV.Spec.NegSpec LV.Spec.NegSkeleton
               LV.Proofs.NegFrame_C03.
Local Open Scope Z_scope.

(* ================================================================== outputs along an iteration *)
Definition is_conn (o : out) : bool := match o with OConnect | ORawConnect => true | _ => false end.
Definition is_wire (o : out) : bool := match o with OWire _ _ => true | _ => false end.
Definition is_tls (o : out) : bool := match o with OTlsStart true => true | _ => false end.
Definition quiet (o : out) : bool :=
  match o with
  | OWire _ _ | OConnect | ORawConnect | OTlsStart true | OUserHandler | OUserTimed => false
  | _ => true
  end.
Definition has_conn (o : list out) : bool := existsb is_conn o.
Definition tls_out (o : list out) : bool := existsb is_tls o.

(* the conclusion of ok_restart as a state predicate *)
Definition Rst (s : state) : Prop :=
  st s = Connected ->
  is_raw s = true \/ f_legacy_ssl s = true \/ (reset_parser s = true /\ has_header (sendq s) = true).

Lemma has_header_app : forall a b, has_header (a ++ b) = has_header a || has_header b.
Proof. intros; unfold has_header; apply existsb_app. Qed.

Lemma Rst_Fr : forall s s', Rst s -> Fr s s' -> Rst s'.
Proof.
  intros s s' R F C. destruct F.
  assert (C0 : st s = Connected) by (destruct fr_st as [E|E]; congruence).
  destruct (R C0) as [H|[H|[H1 H2]]]; [left; congruence | right; left; congruence | right; right].
  split; auto. destruct fr_sendq as [l E]. rewrite E, has_header_app, H2. reflexivity.
Qed.

Lemma scan_user_app : forall o1 b o2,
  scan_user b (o1 ++ o2) = scan_user b o1 && scan_user (b || has_conn o1) o2.
Proof.
  induction o1 as [|x o1 IH]; intros b o2.
  - cbn. rewrite orb_false_r. reflexivity.
  - destruct x as [t w| | | | | | | | | | | | |]; try destruct w; cbn [app scan_user has_conn existsb is_conn orb];
      rewrite ?IH; cbn [orb]; rewrite ?orb_true_r, ?andb_assoc; try reflexivity.
Qed.

Lemma scan_user_quiet : forall o b, forallb quiet o = true -> scan_user b o = true /\ has_conn o = false /\ tls_out o = false /\ existsb is_wire o = false.
Proof.
  induction o as [|x o IH]; intros b H; cbn in *; auto.
  apply andb_prop in H; destruct H as [H1 H2]. destruct (IH b H2) as (A & B & C & D).
  destruct x as [t w| | | | ok | | | | | | | | |]; try destruct ok; cbn in *; try discriminate; auto.
Qed.

(* Tr s0 s o: starting an iteration phase in s0, the model is now in s and has emitted o *)
Record Tr (s0 s : state) (o : list out) : Prop := mkTr {
  tr_fr : Fr s0 s;
  tr_nd : neg_done s = true -> neg_done s0 = true \/ has_conn o = true;
  tr_nowire : existsb is_wire o = false;
  tr_user : forall b, (neg_done s0 = true -> b = true) -> scan_user b o = true;
  tr_restart : tls_out o = true -> Rst s
}.

Lemma Tr_refl : forall s, Tr s s [].
Proof. intros; constructor; cbn; auto using Fr_refl; discriminate. Qed.
Lemma Tr_state : forall s0 s o s', Tr s0 s o -> Fr s s' -> (neg_done s' = true -> neg_done s = true) -> Tr s0 s' o.
Proof. intros s0 s o s' [] F N; constructor; eauto using Fr_trans, Rst_Fr. Qed.
Lemma Tr_nil : forall s0 s o, Tr s0 s o -> Tr s0 s (o ++ []).
Proof. intros; rewrite app_nil_r; auto. Qed.
Lemma Tr_assoc : forall s0 s o o1 o2, Tr s0 s ((o ++ o1) ++ o2) -> Tr s0 s (o ++ (o1 ++ o2)).
Proof. intros; rewrite app_assoc; auto. Qed.
Lemma Tr_quiet : forall s0 s o o', Tr s0 s o -> forallb quiet o' = true -> Tr s0 s (o ++ o').
Proof.
  intros s0 s o o' [] Q. constructor; auto.
  - intros N. destruct (tr_nd0 N); auto. right. unfold has_conn in *. rewrite existsb_app, H. reflexivity.
  - destruct (scan_user_quiet o' false Q) as (_ & _ & _ & D). rewrite existsb_app, tr_nowire0, D. reflexivity.
  - intros b Hb. rewrite scan_user_app, (tr_user0 b Hb). apply (scan_user_quiet o' _ Q).
  - intros T. apply tr_restart0. unfold tls_out in *. rewrite existsb_app in T.
    destruct (scan_user_quiet o' false Q) as (_ & _ & C & _). unfold tls_out in C. rewrite C, orb_false_r in T. exact T.
Qed.
Lemma Tr_conn : forall c s0 s o, is_conn c = true -> Tr s0 s o -> Tr s0 (set_neg_done true s) (o ++ [c]).
Proof.
  intros c s0 s o C []. constructor.
  - apply (Fr_trans _ _ _ tr_fr0). destruct s; Fr_prim.
  - intros _. right. unfold has_conn. rewrite existsb_app. cbn. rewrite C. apply orb_true_r.
  - rewrite existsb_app, tr_nowire0. destruct c; cbn in *; try discriminate; reflexivity.
  - intros b Hb. rewrite scan_user_app, (tr_user0 b Hb). destruct c; cbn in *; try discriminate; reflexivity.
  - intros T. unfold tls_out in *. rewrite existsb_app in T. destruct c; cbn in *; try discriminate;
      rewrite orb_false_r in T; apply (Rst_Fr s); auto; destruct s; Fr_prim.
Qed.
Lemma Tr_user_out : forall u s0 s o, (u = OUserHandler \/ u = OUserTimed) -> neg_done s = true -> Tr s0 s o -> Tr s0 s (o ++ [u]).
Proof.
  intros u s0 s o U N []. constructor; auto.
  - intros _. destruct (tr_nd0 N); auto. right. unfold has_conn in *. rewrite existsb_app, H. reflexivity.
  - rewrite existsb_app, tr_nowire0. destruct U; subst; reflexivity.
  - intros b Hb. rewrite scan_user_app, (tr_user0 b Hb).
    assert (b || has_conn o = true) as ->.
    { destruct (tr_nd0 N) as [H|H]; [rewrite (Hb H) | rewrite H, orb_true_r]; reflexivity. }
    destruct U; subst; reflexivity.
  - intros T. apply tr_restart0. unfold tls_out in *. rewrite existsb_app in T.
    destruct U; subst; cbn in T; rewrite orb_false_r in T; exact T.
Qed.
Lemma Tr_tls : forall s0 s o, Rst s -> Tr s0 s o -> Tr s0 s (o ++ [OTlsStart true]).
Proof.
  intros s0 s o R []. constructor; auto.
  - intros N. destruct (tr_nd0 N); auto. right. unfold has_conn in *. rewrite existsb_app, H. reflexivity.
  - rewrite existsb_app, tr_nowire0. reflexivity.
  - intros b Hb. rewrite scan_user_app, (tr_user0 b Hb). reflexivity.
Qed.
#[export] Hint Resolve Tr_nil Tr_assoc : trdb.
#[export] Hint Extern 3 (Tr _ _ (_ ++ _)) => (apply Tr_quiet; [ | reflexivity]) : trdb.

Lemma Tr_set_tls_verdicts : forall v s0 s o, Tr s0 s o -> Tr s0 (set_tls_verdicts v s) o.
Proof. intros v s0 s o H; eapply Tr_state; [eassumption | apply Fr_set_tls_verdicts; apply Fr_refl | destruct s; exact (fun h => h)]. Qed.
#[export] Hint Resolve Tr_set_tls_verdicts : trdb.
Lemma Tr_set_next_cands : forall v s0 s o, Tr s0 s o -> Tr s0 (set_next_cands v s) o.
Proof. intros v s0 s o H; eapply Tr_state; [eassumption | apply Fr_set_next_cands; apply Fr_refl | destruct s; exact (fun h => h)]. Qed.
#[export] Hint Resolve Tr_set_next_cands : trdb.
Lemma Tr_set_cands : forall v s0 s o, Tr s0 s o -> Tr s0 (set_cands v s) o.
Proof. intros v s0 s o H; eapply Tr_state; [eassumption | apply Fr_set_cands; apply Fr_refl | destruct s; exact (fun h => h)]. Qed.
#[export] Hint Resolve Tr_set_cands : trdb.
Lemma Tr_set_cur_ep : forall v s0 s o, Tr s0 s o -> Tr s0 (set_cur_ep v s) o.
Proof. intros v s0 s o H; eapply Tr_state; [eassumption | apply Fr_set_cur_ep; apply Fr_refl | destruct s; exact (fun h => h)]. Qed.
#[export] Hint Resolve Tr_set_cur_ep : trdb.
Lemma Tr_set_stamp : forall v s0 s o, Tr s0 s o -> Tr s0 (set_stamp v s) o.
Proof. intros v s0 s o H; eapply Tr_state; [eassumption | apply Fr_set_stamp; apply Fr_refl | destruct s; exact (fun h => h)]. Qed.
#[export] Hint Resolve Tr_set_stamp : trdb.
Lemma Tr_set_err : forall v s0 s o, Tr s0 s o -> Tr s0 (set_err v s) o.
Proof. intros v s0 s o H; eapply Tr_state; [eassumption | apply Fr_set_err; apply Fr_refl | destruct s; exact (fun h => h)]. Qed.
#[export] Hint Resolve Tr_set_err : trdb.
Lemma Tr_set_stream_error : forall v s0 s o, Tr s0 s o -> Tr s0 (set_stream_error v s) o.
Proof. intros v s0 s o H; eapply Tr_state; [eassumption | apply Fr_set_stream_error; apply Fr_refl | destruct s; exact (fun h => h)]. Qed.
#[export] Hint Resolve Tr_set_stream_error : trdb.
Lemma Tr_set_tls_present : forall v s0 s o, Tr s0 s o -> Tr s0 (set_tls_present v s) o.
Proof. intros v s0 s o H; eapply Tr_state; [eassumption | apply Fr_set_tls_present; apply Fr_refl | destruct s; exact (fun h => h)]. Qed.
#[export] Hint Resolve Tr_set_tls_present : trdb.
Lemma Tr_set_tls_failed : forall v s0 s o, Tr s0 s o -> Tr s0 (set_tls_failed v s) o.
Proof. intros v s0 s o H; eapply Tr_state; [eassumption | apply Fr_set_tls_failed; apply Fr_refl | destruct s; exact (fun h => h)]. Qed.
#[export] Hint Resolve Tr_set_tls_failed : trdb.
Lemma Tr_set_tls_support : forall v s0 s o, Tr s0 s o -> Tr s0 (set_tls_support v s) o.
Proof. intros v s0 s o H; eapply Tr_state; [eassumption | apply Fr_set_tls_support; apply Fr_refl | destruct s; exact (fun h => h)]. Qed.
#[export] Hint Resolve Tr_set_tls_support : trdb.
Lemma Tr_set_sasl : forall v s0 s o, Tr s0 s o -> Tr s0 (set_sasl v s) o.
Proof. intros v s0 s o H; eapply Tr_state; [eassumption | apply Fr_set_sasl; apply Fr_refl | destruct s; exact (fun h => h)]. Qed.
#[export] Hint Resolve Tr_set_sasl : trdb.
Lemma Tr_set_bind_required : forall v s0 s o, Tr s0 s o -> Tr s0 (set_bind_required v s) o.
Proof. intros v s0 s o H; eapply Tr_state; [eassumption | apply Fr_set_bind_required; apply Fr_refl | destruct s; exact (fun h => h)]. Qed.
#[export] Hint Resolve Tr_set_bind_required : trdb.
Lemma Tr_set_session_required : forall v s0 s o, Tr s0 s o -> Tr s0 (set_session_required v s) o.
Proof. intros v s0 s o H; eapply Tr_state; [eassumption | apply Fr_set_session_required; apply Fr_refl | destruct s; exact (fun h => h)]. Qed.
#[export] Hint Resolve Tr_set_session_required : trdb.
Lemma Tr_set_comp_supported : forall v s0 s o, Tr s0 s o -> Tr s0 (set_comp_supported v s) o.
Proof. intros v s0 s o H; eapply Tr_state; [eassumption | apply Fr_set_comp_supported; apply Fr_refl | destruct s; exact (fun h => h)]. Qed.
#[export] Hint Resolve Tr_set_comp_supported : trdb.
Lemma Tr_set_comp_active : forall v s0 s o, Tr s0 s o -> Tr s0 (set_comp_active v s) o.
Proof. intros v s0 s o H; eapply Tr_state; [eassumption | apply Fr_set_comp_active; apply Fr_refl | destruct s; exact (fun h => h)]. Qed.
#[export] Hint Resolve Tr_set_comp_active : trdb.
Lemma Tr_set_sm_support : forall v s0 s o, Tr s0 s o -> Tr s0 (set_sm_support v s) o.
Proof. intros v s0 s o H; eapply Tr_state; [eassumption | apply Fr_set_sm_support; apply Fr_refl | destruct s; exact (fun h => h)]. Qed.
#[export] Hint Resolve Tr_set_sm_support : trdb.
Lemma Tr_set_sm_enabled : forall v s0 s o, Tr s0 s o -> Tr s0 (set_sm_enabled v s) o.
Proof. intros v s0 s o H; eapply Tr_state; [eassumption | apply Fr_set_sm_enabled; apply Fr_refl | destruct s; exact (fun h => h)]. Qed.
#[export] Hint Resolve Tr_set_sm_enabled : trdb.
Lemma Tr_set_sm_can_resume : forall v s0 s o, Tr s0 s o -> Tr s0 (set_sm_can_resume v s) o.
Proof. intros v s0 s o H; eapply Tr_state; [eassumption | apply Fr_set_sm_can_resume; apply Fr_refl | destruct s; exact (fun h => h)]. Qed.
#[export] Hint Resolve Tr_set_sm_can_resume : trdb.
Lemma Tr_set_sm_resume : forall v s0 s o, Tr s0 s o -> Tr s0 (set_sm_resume v s) o.
Proof. intros v s0 s o H; eapply Tr_state; [eassumption | apply Fr_set_sm_resume; apply Fr_refl | destruct s; exact (fun h => h)]. Qed.
#[export] Hint Resolve Tr_set_sm_resume : trdb.
Lemma Tr_set_sm_dont_request : forall v s0 s o, Tr s0 s o -> Tr s0 (set_sm_dont_request v s) o.
Proof. intros v s0 s o H; eapply Tr_state; [eassumption | apply Fr_set_sm_dont_request; apply Fr_refl | destruct s; exact (fun h => h)]. Qed.
#[export] Hint Resolve Tr_set_sm_dont_request : trdb.
Lemma Tr_set_sm_has_previd : forall v s0 s o, Tr s0 s o -> Tr s0 (set_sm_has_previd v s) o.
Proof. intros v s0 s o H; eapply Tr_state; [eassumption | apply Fr_set_sm_has_previd; apply Fr_refl | destruct s; exact (fun h => h)]. Qed.
#[export] Hint Resolve Tr_set_sm_has_previd : trdb.
Lemma Tr_set_sm_has_id : forall v s0 s o, Tr s0 s o -> Tr s0 (set_sm_has_id v s) o.
Proof. intros v s0 s o H; eapply Tr_state; [eassumption | apply Fr_set_sm_has_id; apply Fr_refl | destruct s; exact (fun h => h)]. Qed.
#[export] Hint Resolve Tr_set_sm_has_id : trdb.
Lemma Tr_set_sm_parked : forall v s0 s o, Tr s0 s o -> Tr s0 (set_sm_parked v s) o.
Proof. intros v s0 s o H; eapply Tr_state; [eassumption | apply Fr_set_sm_parked; apply Fr_refl | destruct s; exact (fun h => h)]. Qed.
#[export] Hint Resolve Tr_set_sm_parked : trdb.
Lemma Tr_set_sm_r_sent : forall v s0 s o, Tr s0 s o -> Tr s0 (set_sm_r_sent v s) o.
Proof. intros v s0 s o H; eapply Tr_state; [eassumption | apply Fr_set_sm_r_sent; apply Fr_refl | destruct s; exact (fun h => h)]. Qed.
#[export] Hint Resolve Tr_set_sm_r_sent : trdb.
Lemma Tr_set_sm_bind_saved : forall v s0 s o, Tr s0 s o -> Tr s0 (set_sm_bind_saved v s) o.
Proof. intros v s0 s o H; eapply Tr_state; [eassumption | apply Fr_set_sm_bind_saved; apply Fr_refl | destruct s; exact (fun h => h)]. Qed.
#[export] Hint Resolve Tr_set_sm_bind_saved : trdb.
Lemma Tr_set_bound_jid : forall v s0 s o, Tr s0 s o -> Tr s0 (set_bound_jid v s) o.
Proof. intros v s0 s o H; eapply Tr_state; [eassumption | apply Fr_set_bound_jid; apply Fr_refl | destruct s; exact (fun h => h)]. Qed.
#[export] Hint Resolve Tr_set_bound_jid : trdb.
Lemma Tr_set_stream_id : forall v s0 s o, Tr s0 s o -> Tr s0 (set_stream_id v s) o.
Proof. intros v s0 s o H; eapply Tr_state; [eassumption | apply Fr_set_stream_id; apply Fr_refl | destruct s; exact (fun h => h)]. Qed.
#[export] Hint Resolve Tr_set_stream_id : trdb.
Lemma Tr_set_oh : forall v s0 s o, Tr s0 s o -> Tr s0 (set_oh v s) o.
Proof. intros v s0 s o H; eapply Tr_state; [eassumption | apply Fr_set_oh; apply Fr_refl | destruct s; exact (fun h => h)]. Qed.
#[export] Hint Resolve Tr_set_oh : trdb.
Lemma Tr_set_ps : forall v s0 s o, Tr s0 s o -> Tr s0 (set_ps v s) o.
Proof. intros v s0 s o H; eapply Tr_state; [eassumption | apply Fr_set_ps; apply Fr_refl | destruct s; exact (fun h => h)]. Qed.
#[export] Hint Resolve Tr_set_ps : trdb.
Lemma Tr_set_handlers : forall v s0 s o, Tr s0 s o -> Tr s0 (set_handlers v s) o.
Proof. intros v s0 s o H; eapply Tr_state; [eassumption | apply Fr_set_handlers; apply Fr_refl | destruct s; exact (fun h => h)]. Qed.
#[export] Hint Resolve Tr_set_handlers : trdb.
Lemma Tr_set_idhandlers : forall v s0 s o, Tr s0 s o -> Tr s0 (set_idhandlers v s) o.
Proof. intros v s0 s o H; eapply Tr_state; [eassumption | apply Fr_set_idhandlers; apply Fr_refl | destruct s; exact (fun h => h)]. Qed.
#[export] Hint Resolve Tr_set_idhandlers : trdb.
Lemma Tr_set_timed : forall v s0 s o, Tr s0 s o -> Tr s0 (set_timed v s) o.
Proof. intros v s0 s o H; eapply Tr_state; [eassumption | apply Fr_set_timed; apply Fr_refl | destruct s; exact (fun h => h)]. Qed.
#[export] Hint Resolve Tr_set_timed : trdb.
Lemma Tr_set_rxq : forall v s0 s o, Tr s0 s o -> Tr s0 (set_rxq v s) o.
Proof. intros v s0 s o H; eapply Tr_state; [eassumption | apply Fr_set_rxq; apply Fr_refl | destruct s; exact (fun h => h)]. Qed.
#[export] Hint Resolve Tr_set_rxq : trdb.
Lemma Tr_set_smq : forall v s0 s o, Tr s0 s o -> Tr s0 (set_smq v s) o.
Proof. intros v s0 s o H; eapply Tr_state; [eassumption | apply Fr_set_smq; apply Fr_refl | destruct s; exact (fun h => h)]. Qed.
#[export] Hint Resolve Tr_set_smq : trdb.
Lemma Tr_set_sm_sent : forall v s0 s o, Tr s0 s o -> Tr s0 (set_sm_sent v s) o.
Proof. intros v s0 s o H; eapply Tr_state; [eassumption | apply Fr_set_sm_sent; apply Fr_refl | destruct s; exact (fun h => h)]. Qed.
#[export] Hint Resolve Tr_set_sm_sent : trdb.
Lemma Tr_set_scram_serial : forall v s0 s o, Tr s0 s o -> Tr s0 (set_scram_serial v s) o.
Proof. intros v s0 s o H; eapply Tr_state; [eassumption | apply Fr_set_scram_serial; apply Fr_refl | destruct s; exact (fun h => h)]. Qed.
#[export] Hint Resolve Tr_set_scram_serial : trdb.
Lemma Tr_set_crashed : forall v s0 s o, Tr s0 s o -> Tr s0 (set_crashed v s) o.
Proof. intros v s0 s o H; eapply Tr_state; [eassumption | apply Fr_set_crashed; apply Fr_refl | destruct s; exact (fun h => h)]. Qed.
#[export] Hint Resolve Tr_set_crashed : trdb.

(* non-benign setters *)
Lemma Tr_set_sendq_app : forall l s0 s o, Tr s0 s o -> Tr s0 (set_sendq (sendq s ++ l) s) o.
Proof. intros; eapply Tr_state; [eassumption | apply Fr_set_sendq_app; apply Fr_refl | destruct s; exact (fun h => h)]. Qed.
Lemma Tr_set_st_disc : forall s0 s o, Tr s0 s o -> Tr s0 (set_st Disconnected s) o.
Proof. intros; eapply Tr_state; [eassumption | apply Fr_set_st_disc; apply Fr_refl | destruct s; exact (fun h => h)]. Qed.
Lemma Tr_set_reset_true : forall s0 s o, Tr s0 s o -> Tr s0 (set_reset_parser true s) o.
Proof. intros; eapply Tr_state; [eassumption | apply Fr_set_reset_true; apply Fr_refl | destruct s; exact (fun h => h)]. Qed.
Lemma Tr_set_secured_true : forall s0 s o, Tr s0 s o -> Tr s0 (set_secured true s) o.
Proof. intros; eapply Tr_state; [eassumption | apply Fr_set_secured_true; apply Fr_refl | destruct s; exact (fun h => h)]. Qed.
Lemma Tr_upg : forall f s0 s o, GFr (gh s) (f (gh s)) -> Tr s0 s o -> Tr s0 (upg f s) o.
Proof. intros; eapply Tr_state; [eassumption | apply Fr_upg; [assumption | apply Fr_refl] | destruct s; exact (fun h => h)]. Qed.
Lemma Tr_set_neg_done_false : forall s0 s o, Tr s0 s o -> Tr s0 (set_neg_done false s) o.
Proof. intros; eapply Tr_state; [eassumption | destruct s; Fr_prim | destruct s; cbn; discriminate]. Qed.
#[export] Hint Resolve Tr_set_sendq_app Tr_set_st_disc Tr_set_reset_true Tr_set_secured_true Tr_upg Tr_set_neg_done_false : trdb.
#[export] Hint Resolve GFr_refl GFr_set_g_se_bad GFr_set_true_conn_unjust GFr_stream_start_upd : trdb.
#[export] Hint Extern 2 (Tr _ (set_neg_done true _) (_ ++ [_])) => (apply Tr_conn; [reflexivity | ]) : trdb.
Lemma nd_q_append : forall w u sm s, neg_done (q_append w u sm s) = neg_done s.
Proof. intros; unfold q_append; cases; reflexivity. Qed.
Lemma Tr_q_append : forall w u sm s0 s o, Tr s0 s o -> Tr s0 (q_append w u sm s) o.
Proof. intros; eapply Tr_state; [eassumption | apply Fr_q_append; apply Fr_refl | rewrite nd_q_append; auto]. Qed.
#[export] Hint Resolve Tr_q_append : trdb.
Lemma Tr_send_gated : forall w u sm s0 s o, Tr s0 s o -> Tr s0 (send_gated w u sm s) o.
Proof. intros; unfold send_gated, ret; cases; leaf; eauto 30 with trdb. Qed.
#[export] Hint Resolve Tr_send_gated : trdb.
Lemma Tr_send_raw_m : forall w u sm s0 s o, Tr s0 s o -> Tr s0 (send_raw_m w u sm s) o.
Proof. intros; unfold send_raw_m, ret; cases; leaf; eauto 30 with trdb. Qed.
#[export] Hint Resolve Tr_send_raw_m : trdb.
Lemma Tr_timed_add : forall k n s0 s o, Tr s0 s o -> Tr s0 (timed_add k n s) o.
Proof. intros; unfold timed_add, ret; cases; leaf; eauto 30 with trdb. Qed.
#[export] Hint Resolve Tr_timed_add : trdb.
Lemma Tr_timed_del : forall k s0 s o, Tr s0 s o -> Tr s0 (timed_del k s) o.
Proof. intros; unfold timed_del, ret; cases; leaf; eauto 30 with trdb. Qed.
#[export] Hint Resolve Tr_timed_del : trdb.
Lemma Tr_timed_reset_all : forall n s0 s o, Tr s0 s o -> Tr s0 (timed_reset_all n s) o.
Proof. intros; unfold timed_reset_all, ret; cases; leaf; eauto 30 with trdb. Qed.
#[export] Hint Resolve Tr_timed_reset_all : trdb.
Lemma Tr_timed_set_stamp : forall k n s0 s o, Tr s0 s o -> Tr s0 (timed_set_stamp k n s) o.
Proof. intros; unfold timed_set_stamp, ret; cases; leaf; eauto 30 with trdb. Qed.
#[export] Hint Resolve Tr_timed_set_stamp : trdb.
Lemma Tr_h_add : forall k s0 s o, Tr s0 s o -> Tr s0 (h_add k s) o.
Proof. intros; unfold h_add, ret; cases; leaf; eauto 30 with trdb. Qed.
#[export] Hint Resolve Tr_h_add : trdb.
Lemma Tr_h_del : forall k s0 s o, Tr s0 s o -> Tr s0 (h_del k s) o.
Proof. intros; unfold h_del, ret; cases; leaf; eauto 30 with trdb. Qed.
#[export] Hint Resolve Tr_h_del : trdb.
Lemma Tr_id_add : forall k s0 s o, Tr s0 s o -> Tr s0 (id_add k s) o.
Proof. intros; unfold id_add, ret; cases; leaf; eauto 30 with trdb. Qed.
#[export] Hint Resolve Tr_id_add : trdb.
Lemma Tr_id_del : forall k s0 s o, Tr s0 s o -> Tr s0 (id_del k s) o.
Proof. intros; unfold id_del, ret; cases; leaf; eauto 30 with trdb. Qed.
#[export] Hint Resolve Tr_id_del : trdb.
Lemma Tr_reset_sm_for_reconnect : forall s0 s o, Tr s0 s o -> Tr s0 (reset_sm_for_reconnect s) o.
Proof. intros; unfold reset_sm_for_reconnect, ret; cases; leaf; eauto 30 with trdb. Qed.
#[export] Hint Resolve Tr_reset_sm_for_reconnect : trdb.
Lemma Tr_sm_queue_cleanup : forall h s0 s o, Tr s0 s o -> Tr s0 (sm_queue_cleanup h s) o.
Proof. intros; unfold sm_queue_cleanup, ret; cases; leaf; eauto 30 with trdb. Qed.
#[export] Hint Resolve Tr_sm_queue_cleanup : trdb.
Lemma Tr_sm_queue_resend : forall s0 s o, Tr s0 s o -> Tr s0 (sm_queue_resend s) o.
Proof. intros; unfold sm_queue_resend. apply fold_left_inv; eauto with trdb. Qed.
#[export] Hint Resolve Tr_sm_queue_resend : trdb.
Lemma Tr_conn_disconnect : forall s0 s o, Tr s0 s o -> Tr s0 (fst (conn_disconnect s)) (o ++ (snd (conn_disconnect s))).
Proof. intros; name_result; unfold conn_disconnect, ret; cases; leaf; eauto 30 with trdb. Qed.
#[export] Hint Resolve Tr_conn_disconnect : trdb.
Lemma Tr_xmpp_disconnect : forall n s0 s o, Tr s0 s o -> Tr s0 (xmpp_disconnect n s) o.
Proof. intros; unfold xmpp_disconnect, ret; cases; leaf; eauto 30 with trdb. Qed.
#[export] Hint Resolve Tr_xmpp_disconnect : trdb.
Lemma Tr_prepare_reset : forall h s0 s o, Tr s0 s o -> Tr s0 (prepare_reset h s) o.
Proof. intros; unfold prepare_reset, ret; cases; leaf; eauto 30 with trdb. Qed.
#[export] Hint Resolve Tr_prepare_reset : trdb.
Lemma Tr_conn_open_stream : forall s0 s o, Tr s0 s o -> Tr s0 (conn_open_stream s) o.
Proof. intros; unfold conn_open_stream, ret; cases; leaf; eauto 30 with trdb. Qed.
#[export] Hint Resolve Tr_conn_open_stream : trdb.
Lemma Rst_open_reset : forall h s, Rst (conn_open_stream (prepare_reset h s)).
Proof.
  intros h s C. right; right. revert C.
  unfold conn_open_stream, send_gated, is_connected_owner, prepare_reset, q_append. sproj.
  destruct (st s) eqn:E; try (intros C; exfalso; revert C; sproj; congruence).
  cbn [negb orb]. cases; sproj; intros _; rewrite ?has_header_app; cbn; rewrite ?orb_true_r; auto.
Qed.
(* conn_tls_start: no general lemma (the restart obligation is discharged at its two call sites) *)
Lemma Tr_conn_tls_start_fail : forall s0 s o, Tr s0 s o -> snd (conn_tls_start s) = false ->
  Tr s0 (fst (fst (conn_tls_start s))) (o ++ snd (fst (conn_tls_start s))).
Proof. intros s0 s o H. name_result. unfold conn_tls_start. cases; leaf; try discriminate; eauto 30 with trdb. Qed.
Lemma Tr_conn_tls_start_ok : forall s0 s o, Tr s0 s o -> snd (conn_tls_start s) = true ->
  Tr s0 (fst (fst (conn_tls_start s))) o /\ snd (fst (conn_tls_start s)) = [OTlsStart true].
Proof. intros s0 s o H. name_result. unfold conn_tls_start. cases; leaf; try discriminate; split; eauto 30 with trdb. Qed.
Lemma Tr_stream_negotiation_success : forall s0 s o, Tr s0 s o -> Tr s0 (fst (stream_negotiation_success s)) (o ++ (snd (stream_negotiation_success s))).
Proof. intros; name_result; unfold stream_negotiation_success, ret; cases; leaf; eauto 30 with trdb. Qed.
#[export] Hint Resolve Tr_stream_negotiation_success : trdb.
Lemma Tr_do_bind : forall n b s0 s o, Tr s0 s o -> Tr s0 (fst (do_bind n b s)) (o ++ (snd (do_bind n b s))).
Proof. intros; name_result; unfold do_bind, ret; cases; leaf; eauto 30 with trdb. Qed.
#[export] Hint Resolve Tr_do_bind : trdb.
Lemma Tr_session_start : forall n s0 s o, Tr s0 s o -> Tr s0 (session_start n s) o.
Proof. intros; unfold session_start, ret; cases; leaf; eauto 30 with trdb. Qed.
#[export] Hint Resolve Tr_session_start : trdb.
Lemma Tr_sm_enable : forall s0 s o, Tr s0 s o -> Tr s0 (sm_enable s) o.
Proof. intros; unfold sm_enable, ret; cases; leaf; eauto 30 with trdb. Qed.
#[export] Hint Resolve Tr_sm_enable : trdb.
Lemma Tr_auth_legacy : forall n s0 s o, Tr s0 s o -> Tr s0 (auth_legacy n s) o.
Proof. intros; unfold auth_legacy, ret; cases; leaf; eauto 30 with trdb. Qed.
#[export] Hint Resolve Tr_auth_legacy : trdb.
Lemma Tr_auth : forall fuel n s0 s o, Tr s0 s o -> Tr s0 (fst (auth fuel n s)) (o ++ snd (auth fuel n s)).
Proof. induction fuel; intros; name_result; cbn [auth]; unfold ret; cases; leaf; eauto 30 with trdb. Qed.
#[export] Hint Resolve Tr_auth : trdb.
Lemma Tr_sasl_result : forall n e s0 s o, Tr s0 s o -> Tr s0 (fst (sasl_result n e s)) (o ++ (snd (sasl_result n e s))).
Proof. intros; name_result; unfold sasl_result, ret; cases; leaf; eauto 30 with trdb. Qed.
#[export] Hint Resolve Tr_sasl_result : trdb.
Lemma Tr_features_sasl : forall n e s0 s o, Tr s0 s o -> Tr s0 (fst (features_sasl n e s)) (o ++ (snd (features_sasl n e s))).
Proof. intros; name_result; unfold features_sasl, ret; cases; leaf; eauto 30 with trdb. Qed.
#[export] Hint Resolve Tr_features_sasl : trdb.
Lemma Tr_call_handler : forall k n e s0 s o, hkind_eqb k HUser && negb (neg_done s) = false ->
  Tr s0 s o -> Tr s0 (fst (fst (call_handler k n e s))) (o ++ snd (fst (call_handler k n e s))).
Proof.
  intros k; destruct k; intros n0 e s0 s o G H.
  1: { cbn in G. apply negb_false_iff in G. cbn. apply Tr_user_out; auto. }
  3: { (* HProceedTls *)
       name_result. unfold call_handler. cases; leaf; eauto 30 with trdb.
       - match goal with Hs : snd (conn_tls_start s) = true |- _ =>
           destruct (Tr_conn_tls_start_ok _ _ _ H Hs) as [T ->] end.
         apply Tr_tls; [apply Rst_open_reset | eauto 30 with trdb].
       - match goal with Hs : snd (conn_tls_start s) = false |- _ =>
           pose proof (Tr_conn_tls_start_fail _ _ _ H Hs) end. eauto 30 with trdb. }
  all: name_result; unfold call_handler, ret; cases; leaf; eauto 30 with trdb.
Qed.
#[export] Hint Resolve Tr_call_handler : trdb.
Lemma Tr_call_id_handler : forall k n e s0 s o, is_user_id k && negb (neg_done s) = false ->
  Tr s0 s o -> Tr s0 (fst (call_id_handler k n e s)) (o ++ (snd (call_id_handler k n e s))).
Proof.
  intros k; destruct k; intros n0 e s0 s o G H.
  4: { (* the user's id handler runs only once the connection is up *)
       cbn in G. apply negb_false_iff in G. cbn. apply Tr_user_out; auto. }
  all: name_result; unfold call_id_handler, ret; cases; leaf; eauto 30 with trdb.
Qed.
#[export] Hint Resolve Tr_call_id_handler : trdb.
Lemma Tr_note_rx : forall e s0 s o, Tr s0 s o -> Tr s0 (note_rx e s) o.
Proof. intros; eapply Tr_state; [eassumption | apply Fr_note_rx; apply Fr_refl | unfold note_rx; exact (fun h => h)]. Qed.
#[export] Hint Resolve Tr_note_rx : trdb.
Lemma Tr_visit : forall n e s0 p r k, Tr s0 (fst r) (p ++ snd r) -> Tr s0 (fst (visit n e r k)) (p ++ snd (visit n e r k)).
Proof.
  intros n e s0 p [s o] k H. cbn [fst snd] in H. name_result. unfold visit. cases; leaf; eauto 30 with trdb.
Qed.
Lemma Tr_fold_visit : forall n e l s0 p r, Tr s0 (fst r) (p ++ snd r) ->
  Tr s0 (fst (fold_left (visit n e) l r)) (p ++ snd (fold_left (visit n e) l r)).
Proof. intros n e l s0 p. apply (fold_left_inv (fun r => Tr s0 (fst r) (p ++ snd r))). intros; apply Tr_visit; auto. Qed.
Lemma Tr_fold_visit_pair : forall n e l s0 p s o, Tr s0 s (p ++ o) ->
  Tr s0 (fst (fold_left (visit n e) l (s, o))) (p ++ snd (fold_left (visit n e) l (s, o))).
Proof. intros; apply Tr_fold_visit; assumption. Qed.
#[export] Hint Resolve Tr_fold_visit_pair : trdb.
Lemma Tr_sm_handle : forall e s0 s o, Tr s0 s o -> Tr s0 (sm_handle e s) o.
Proof. intros; unfold sm_handle, ret; cases; leaf; eauto 30 with trdb. Qed.
#[export] Hint Resolve Tr_sm_handle : trdb.
Lemma Tr_dispatch : forall n e s0 s o, Tr s0 s o -> Tr s0 (fst (dispatch n e s)) (o ++ (snd (dispatch n e s))).
Proof.
  intros n e s0 s o H. unfold dispatch. cbv zeta.
  pose proof (Tr_note_rx e s0 s o H) as H1. generalize dependent (note_rx e s). intros sa H1.
  destruct (negb (sm_alloc sa)); [cbn [fst snd]; eauto with trdb|].
  match goal with |- context [id_has _ ?x] => set (sE := x) end.
  assert (HE : Tr s0 sE o) by (unfold sE; eauto with trdb). clearbody sE.
  match goal with |- context [let '(s1, o1) := ?r in _] => assert (R1 : Tr s0 (fst r) (o ++ snd r)) end.
  { destruct (idk_of (e_id e)) as [k|]; [|cbn; rewrite app_nil_r; exact HE]. destruct (id_has k sE); [|cbn; rewrite app_nil_r; exact HE].
    (* the user's id handler is skipped until the connection is up *)
    destruct (is_user_id k && negb (neg_done sE)) eqn:G; [cbn; rewrite app_nil_r; exact HE|].
    pose proof (Tr_call_id_handler k n e s0 sE o G HE) as T. destruct (call_id_handler k n e sE) as [s1 o1]. cbn [fst snd] in *.
    destruct (is_user_id k); eauto with trdb. }
  match goal with |- context [let '(s1, o1) := ?r in _] => destruct r as [s1 o1] end. cbn [fst snd] in R1.
  match goal with |- context [let '(s3, o3) := ?X in _] =>
    assert (R3 : Tr s0 (fst X) (o ++ snd X)) by (apply Tr_fold_visit_pair; exact R1); revert R3; destruct X as [s3 o3]; intro R3 end.
  cbn [fst snd] in *.
  destruct (crashed s3); [exact R3|]. destruct (sm_enabled s3); cbn [fst snd]; eauto with trdb.
Qed.
#[export] Hint Resolve Tr_dispatch : trdb.
Lemma Tr_open_handler : forall n s0 s o, Tr s0 s o -> Tr s0 (fst (open_handler n s)) (o ++ (snd (open_handler n s))).
Proof. intros; name_result; unfold open_handler, ret; cases; leaf; eauto 30 with trdb. Qed.
#[export] Hint Resolve Tr_open_handler : trdb.
Lemma Tr_stream_start : forall n a b s0 s o, Tr s0 s o -> Tr s0 (fst (stream_start n a b s)) (o ++ (snd (stream_start n a b s))).
Proof. intros; name_result; unfold stream_start, ret; cases; leaf; eauto 30 with trdb. Qed.
#[export] Hint Resolve Tr_stream_start : trdb.
Lemma Tr_stream_end : forall s0 s o, Tr s0 s o -> Tr s0 (fst (stream_end s)) (o ++ (snd (stream_end s))).
Proof. intros; name_result; unfold stream_end, ret; cases; leaf; eauto 30 with trdb. Qed.
#[export] Hint Resolve Tr_stream_end : trdb.
Lemma Tr_feed_item : forall n it s0 s o, Tr s0 s o -> Tr s0 (fst (fst (feed_item n it s))) (o ++ (snd (fst (feed_item n it s)))).
Proof. intros; name_result; unfold feed_item, ret; cases; leaf; eauto 30 with trdb. Qed.
#[export] Hint Resolve Tr_feed_item : trdb.
Lemma Tr_feed_items : forall n its s0 s o, Tr s0 s o -> Tr s0 (fst (fst (feed_items n its s))) (o ++ snd (fst (feed_items n its s))).
Proof. induction its; intros; name_result; cbn [feed_items]; cases; leaf; eauto 30 with trdb. Qed.
#[export] Hint Resolve Tr_feed_items : trdb.
Lemma Tr_call_timed : forall k n s0 s o, tkind_eqb k TUser && negb (neg_done s) = false ->
  Tr s0 s o -> Tr s0 (fst (fst (call_timed k n s))) (o ++ snd (fst (call_timed k n s))).
Proof.
  intros k; destruct k; intros n0 s0 s o G H.
  1: { cbn in G. apply negb_false_iff in G. cbn. apply Tr_user_out; auto. }
  all: name_result; unfold call_timed, ret; cases; leaf; eauto 30 with trdb.
Qed.
#[export] Hint Resolve Tr_call_timed : trdb.
Lemma Tr_visit_timed : forall n s0 p r k, Tr s0 (fst r) (p ++ snd r) -> Tr s0 (fst (visit_timed n r k)) (p ++ snd (visit_timed n r k)).
Proof.
  intros n s0 p [s o] k H. cbn [fst snd] in H. name_result. unfold visit_timed. cases; leaf; eauto 30 with trdb.
Qed.
Lemma Tr_fold_visit_timed : forall n l s0 p r, Tr s0 (fst r) (p ++ snd r) ->
  Tr s0 (fst (fold_left (visit_timed n) l r)) (p ++ snd (fold_left (visit_timed n) l r)).
Proof. intros n l s0 p. apply (fold_left_inv (fun r => Tr s0 (fst r) (p ++ snd r))). intros; apply Tr_visit_timed; auto. Qed.
Lemma Tr_fold_visit_timed_pair : forall n l s0 p s o, Tr s0 s (p ++ o) ->
  Tr s0 (fst (fold_left (visit_timed n) l (s, o))) (p ++ snd (fold_left (visit_timed n) l (s, o))).
Proof. intros; apply Tr_fold_visit_timed; assumption. Qed.
#[export] Hint Resolve Tr_fold_visit_timed_pair : trdb.
Lemma Tr_fire_timed : forall n s0 s o, Tr s0 s o -> Tr s0 (fst (fire_timed n s)) (o ++ (snd (fire_timed n s))).
Proof. intros; name_result; unfold fire_timed, ret; cases; leaf; eauto 30 with trdb. Qed.
#[export] Hint Resolve Tr_fire_timed : trdb.
Lemma quiet_sock_connect : forall c, forallb quiet (fst (sock_connect c)) = true.
Proof.
  induction c as [|k c IH]; [reflexivity|]. destruct k; cbn [sock_connect]; try reflexivity.
  destruct (sock_connect c); cbn in *; auto.
Qed.
Lemma Tr_connect_next : forall n s0 s o, Tr s0 s o -> Tr s0 (fst (fst (connect_next n s))) (o ++ snd (fst (connect_next n s))).
Proof.
  intros. name_result. unfold connect_next. pose proof (quiet_sock_connect (cands s)) as Q.
  destruct (sock_connect (cands s)) as [oo [[k r]|]]; cbn [fst] in Q; leaf;
    (apply Tr_quiet; [eauto 30 with trdb | cbn; exact Q]).
Qed.
#[export] Hint Resolve Tr_connect_next : trdb.
Lemma Rst_legacy : forall s, f_legacy_ssl s = true -> Rst s.
Proof. intros s H _. right; left; exact H. Qed.
Lemma Tr_legacy : forall s0 s o s', Tr s0 s o -> Tr s0 s' o -> f_legacy_ssl s = true -> f_legacy_ssl s' = true.
Proof. intros s0 s o s' [] [] H. destruct tr_fr0, tr_fr1. congruence. Qed.
Lemma Tr_conn_established : forall n s0 s o, Tr s0 s o -> Tr s0 (fst (conn_established n s)) (o ++ snd (conn_established n s)).
Proof.
  intros n s0 s o H. name_result. unfold conn_established.
  destruct (f_legacy_ssl s && negb (is_raw s)) eqn:L.
  - apply andb_prop in L. destruct L as [L _].
    destruct (snd (conn_tls_start s)) eqn:OK.
    + destruct (Tr_conn_tls_start_ok _ _ _ H OK) as [T E].
      destruct (conn_tls_start s) as [[sa oa] ok]. cbn [fst snd] in *. subst ok oa. cbn [negb].
      cases; leaf.
      * apply Tr_assoc. apply Tr_conn; [reflexivity|].
        assert (T' : Tr s0 (timed_reset_all n sa) o) by eauto with trdb.
        apply Tr_tls; auto. apply Rst_legacy. exact (Tr_legacy _ _ _ _ H T' L).
      * assert (T' : Tr s0 (conn_open_stream sa) o) by eauto with trdb.
        apply Tr_tls; auto. apply Rst_legacy. exact (Tr_legacy _ _ _ _ H T' L).
    + pose proof (Tr_conn_tls_start_fail _ _ _ H OK) as T.
      destruct (conn_tls_start s) as [[sa oa] ok]. cbn [fst snd] in *. subst ok. cbn [negb].
      cases; leaf. eauto 30 with trdb.
  - cbn [negb]. cases; leaf; eauto 30 with trdb.
Qed.
#[export] Hint Resolve Tr_conn_established : trdb.

(* ================================================================== U2: nothing is queued while connecting *)
Definition U2 (s : state) : Prop := st s = Connecting -> sendq s = [].

Lemma U2_set_f_tls_disabled : forall v s, U2 s -> U2 (set_f_tls_disabled v s).
Proof. intros v []; exact (fun h => h). Qed.
#[export] Hint Resolve U2_set_f_tls_disabled : u2db.
Lemma U2_set_f_tls_mandatory : forall v s, U2 s -> U2 (set_f_tls_mandatory v s).
Proof. intros v []; exact (fun h => h). Qed.
#[export] Hint Resolve U2_set_f_tls_mandatory : u2db.
Lemma U2_set_f_legacy_ssl : forall v s, U2 s -> U2 (set_f_legacy_ssl v s).
Proof. intros v []; exact (fun h => h). Qed.
#[export] Hint Resolve U2_set_f_legacy_ssl : u2db.
Lemma U2_set_f_tls_trust : forall v s, U2 s -> U2 (set_f_tls_trust v s).
Proof. intros v []; exact (fun h => h). Qed.
#[export] Hint Resolve U2_set_f_tls_trust : u2db.
Lemma U2_set_f_legacy_auth : forall v s, U2 s -> U2 (set_f_legacy_auth v s).
Proof. intros v []; exact (fun h => h). Qed.
#[export] Hint Resolve U2_set_f_legacy_auth : u2db.
Lemma U2_set_f_sm_disable : forall v s, U2 s -> U2 (set_f_sm_disable v s).
Proof. intros v []; exact (fun h => h). Qed.
#[export] Hint Resolve U2_set_f_sm_disable : u2db.
Lemma U2_set_f_comp_allowed : forall v s, U2 s -> U2 (set_f_comp_allowed v s).
Proof. intros v []; exact (fun h => h). Qed.
#[export] Hint Resolve U2_set_f_comp_allowed : u2db.
Lemma U2_set_f_comp_dont_reset : forall v s, U2 s -> U2 (set_f_comp_dont_reset v s).
Proof. intros v []; exact (fun h => h). Qed.
#[export] Hint Resolve U2_set_f_comp_dont_reset : u2db.
Lemma U2_set_jid_set : forall v s, U2 s -> U2 (set_jid_set v s).
Proof. intros v []; exact (fun h => h). Qed.
#[export] Hint Resolve U2_set_jid_set : u2db.
Lemma U2_set_jid_node : forall v s, U2 s -> U2 (set_jid_node v s).
Proof. intros v []; exact (fun h => h). Qed.
#[export] Hint Resolve U2_set_jid_node : u2db.
Lemma U2_set_jid_res : forall v s, U2 s -> U2 (set_jid_res v s).
Proof. intros v []; exact (fun h => h). Qed.
#[export] Hint Resolve U2_set_jid_res : u2db.
Lemma U2_set_pass_set : forall v s, U2 s -> U2 (set_pass_set v s).
Proof. intros v []; exact (fun h => h). Qed.
#[export] Hint Resolve U2_set_pass_set : u2db.
Lemma U2_set_cert_set : forall v s, U2 s -> U2 (set_cert_set v s).
Proof. intros v []; exact (fun h => h). Qed.
#[export] Hint Resolve U2_set_cert_set : u2db.
Lemma U2_set_is_raw : forall v s, U2 s -> U2 (set_is_raw v s).
Proof. intros v []; exact (fun h => h). Qed.
#[export] Hint Resolve U2_set_is_raw : u2db.
Lemma U2_set_typ : forall v s, U2 s -> U2 (set_typ v s).
Proof. intros v []; exact (fun h => h). Qed.
#[export] Hint Resolve U2_set_typ : u2db.
Lemma U2_set_user_handler : forall v s, U2 s -> U2 (set_user_handler v s).
Proof. intros v []; exact (fun h => h). Qed.
#[export] Hint Resolve U2_set_user_handler : u2db.
Lemma U2_set_user_timed : forall v s, U2 s -> U2 (set_user_timed v s).
Proof. intros v []; exact (fun h => h). Qed.
#[export] Hint Resolve U2_set_user_timed : u2db.
Lemma U2_set_tlsnew_ok : forall v s, U2 s -> U2 (set_tlsnew_ok v s).
Proof. intros v []; exact (fun h => h). Qed.
#[export] Hint Resolve U2_set_tlsnew_ok : u2db.
Lemma U2_set_cb_avail : forall v s, U2 s -> U2 (set_cb_avail v s).
Proof. intros v []; exact (fun h => h). Qed.
#[export] Hint Resolve U2_set_cb_avail : u2db.
Lemma U2_set_tls_verdicts : forall v s, U2 s -> U2 (set_tls_verdicts v s).
Proof. intros v []; exact (fun h => h). Qed.
#[export] Hint Resolve U2_set_tls_verdicts : u2db.
Lemma U2_set_next_cands : forall v s, U2 s -> U2 (set_next_cands v s).
Proof. intros v []; exact (fun h => h). Qed.
#[export] Hint Resolve U2_set_next_cands : u2db.
Lemma U2_set_cands : forall v s, U2 s -> U2 (set_cands v s).
Proof. intros v []; exact (fun h => h). Qed.
#[export] Hint Resolve U2_set_cands : u2db.
Lemma U2_set_cur_ep : forall v s, U2 s -> U2 (set_cur_ep v s).
Proof. intros v []; exact (fun h => h). Qed.
#[export] Hint Resolve U2_set_cur_ep : u2db.
Lemma U2_set_stamp : forall v s, U2 s -> U2 (set_stamp v s).
Proof. intros v []; exact (fun h => h). Qed.
#[export] Hint Resolve U2_set_stamp : u2db.
Lemma U2_set_err : forall v s, U2 s -> U2 (set_err v s).
Proof. intros v []; exact (fun h => h). Qed.
#[export] Hint Resolve U2_set_err : u2db.
Lemma U2_set_stream_error : forall v s, U2 s -> U2 (set_stream_error v s).
Proof. intros v []; exact (fun h => h). Qed.
#[export] Hint Resolve U2_set_stream_error : u2db.
Lemma U2_set_secured : forall v s, U2 s -> U2 (set_secured v s).
Proof. intros v []; exact (fun h => h). Qed.
#[export] Hint Resolve U2_set_secured : u2db.
Lemma U2_set_tls_present : forall v s, U2 s -> U2 (set_tls_present v s).
Proof. intros v []; exact (fun h => h). Qed.
#[export] Hint Resolve U2_set_tls_present : u2db.
Lemma U2_set_tls_failed : forall v s, U2 s -> U2 (set_tls_failed v s).
Proof. intros v []; exact (fun h => h). Qed.
#[export] Hint Resolve U2_set_tls_failed : u2db.
Lemma U2_set_tls_support : forall v s, U2 s -> U2 (set_tls_support v s).
Proof. intros v []; exact (fun h => h). Qed.
#[export] Hint Resolve U2_set_tls_support : u2db.
Lemma U2_set_sasl : forall v s, U2 s -> U2 (set_sasl v s).
Proof. intros v []; exact (fun h => h). Qed.
#[export] Hint Resolve U2_set_sasl : u2db.
Lemma U2_set_bind_required : forall v s, U2 s -> U2 (set_bind_required v s).
Proof. intros v []; exact (fun h => h). Qed.
#[export] Hint Resolve U2_set_bind_required : u2db.
Lemma U2_set_session_required : forall v s, U2 s -> U2 (set_session_required v s).
Proof. intros v []; exact (fun h => h). Qed.
#[export] Hint Resolve U2_set_session_required : u2db.
Lemma U2_set_comp_supported : forall v s, U2 s -> U2 (set_comp_supported v s).
Proof. intros v []; exact (fun h => h). Qed.
#[export] Hint Resolve U2_set_comp_supported : u2db.
Lemma U2_set_comp_active : forall v s, U2 s -> U2 (set_comp_active v s).
Proof. intros v []; exact (fun h => h). Qed.
#[export] Hint Resolve U2_set_comp_active : u2db.
Lemma U2_set_sm_alloc : forall v s, U2 s -> U2 (set_sm_alloc v s).
Proof. intros v []; exact (fun h => h). Qed.
#[export] Hint Resolve U2_set_sm_alloc : u2db.
Lemma U2_set_sm_support : forall v s, U2 s -> U2 (set_sm_support v s).
Proof. intros v []; exact (fun h => h). Qed.
#[export] Hint Resolve U2_set_sm_support : u2db.
Lemma U2_set_sm_enabled : forall v s, U2 s -> U2 (set_sm_enabled v s).
Proof. intros v []; exact (fun h => h). Qed.
#[export] Hint Resolve U2_set_sm_enabled : u2db.
Lemma U2_set_sm_can_resume : forall v s, U2 s -> U2 (set_sm_can_resume v s).
Proof. intros v []; exact (fun h => h). Qed.
#[export] Hint Resolve U2_set_sm_can_resume : u2db.
Lemma U2_set_sm_resume : forall v s, U2 s -> U2 (set_sm_resume v s).
Proof. intros v []; exact (fun h => h). Qed.
#[export] Hint Resolve U2_set_sm_resume : u2db.
Lemma U2_set_sm_dont_request : forall v s, U2 s -> U2 (set_sm_dont_request v s).
Proof. intros v []; exact (fun h => h). Qed.
#[export] Hint Resolve U2_set_sm_dont_request : u2db.
Lemma U2_set_sm_has_previd : forall v s, U2 s -> U2 (set_sm_has_previd v s).
Proof. intros v []; exact (fun h => h). Qed.
#[export] Hint Resolve U2_set_sm_has_previd : u2db.
Lemma U2_set_sm_has_id : forall v s, U2 s -> U2 (set_sm_has_id v s).
Proof. intros v []; exact (fun h => h). Qed.
#[export] Hint Resolve U2_set_sm_has_id : u2db.
Lemma U2_set_sm_parked : forall v s, U2 s -> U2 (set_sm_parked v s).
Proof. intros v []; exact (fun h => h). Qed.
#[export] Hint Resolve U2_set_sm_parked : u2db.
Lemma U2_set_sm_r_sent : forall v s, U2 s -> U2 (set_sm_r_sent v s).
Proof. intros v []; exact (fun h => h). Qed.
#[export] Hint Resolve U2_set_sm_r_sent : u2db.
Lemma U2_set_sm_bind_saved : forall v s, U2 s -> U2 (set_sm_bind_saved v s).
Proof. intros v []; exact (fun h => h). Qed.
#[export] Hint Resolve U2_set_sm_bind_saved : u2db.
Lemma U2_set_bound_jid : forall v s, U2 s -> U2 (set_bound_jid v s).
Proof. intros v []; exact (fun h => h). Qed.
#[export] Hint Resolve U2_set_bound_jid : u2db.
Lemma U2_set_stream_id : forall v s, U2 s -> U2 (set_stream_id v s).
Proof. intros v []; exact (fun h => h). Qed.
#[export] Hint Resolve U2_set_stream_id : u2db.
Lemma U2_set_neg_done : forall v s, U2 s -> U2 (set_neg_done v s).
Proof. intros v []; exact (fun h => h). Qed.
#[export] Hint Resolve U2_set_neg_done : u2db.
Lemma U2_set_reset_parser : forall v s, U2 s -> U2 (set_reset_parser v s).
Proof. intros v []; exact (fun h => h). Qed.
#[export] Hint Resolve U2_set_reset_parser : u2db.
Lemma U2_set_oh : forall v s, U2 s -> U2 (set_oh v s).
Proof. intros v []; exact (fun h => h). Qed.
#[export] Hint Resolve U2_set_oh : u2db.
Lemma U2_set_ps : forall v s, U2 s -> U2 (set_ps v s).
Proof. intros v []; exact (fun h => h). Qed.
#[export] Hint Resolve U2_set_ps : u2db.
Lemma U2_set_handlers : forall v s, U2 s -> U2 (set_handlers v s).
Proof. intros v []; exact (fun h => h). Qed.
#[export] Hint Resolve U2_set_handlers : u2db.
Lemma U2_set_idhandlers : forall v s, U2 s -> U2 (set_idhandlers v s).
Proof. intros v []; exact (fun h => h). Qed.
#[export] Hint Resolve U2_set_idhandlers : u2db.
Lemma U2_set_timed : forall v s, U2 s -> U2 (set_timed v s).
Proof. intros v []; exact (fun h => h). Qed.
#[export] Hint Resolve U2_set_timed : u2db.
Lemma U2_set_rxq : forall v s, U2 s -> U2 (set_rxq v s).
Proof. intros v []; exact (fun h => h). Qed.
#[export] Hint Resolve U2_set_rxq : u2db.
Lemma U2_set_smq : forall v s, U2 s -> U2 (set_smq v s).
Proof. intros v []; exact (fun h => h). Qed.
#[export] Hint Resolve U2_set_smq : u2db.
Lemma U2_set_sm_sent : forall v s, U2 s -> U2 (set_sm_sent v s).
Proof. intros v []; exact (fun h => h). Qed.
#[export] Hint Resolve U2_set_sm_sent : u2db.
Lemma U2_set_scram_serial : forall v s, U2 s -> U2 (set_scram_serial v s).
Proof. intros v []; exact (fun h => h). Qed.
#[export] Hint Resolve U2_set_scram_serial : u2db.
Lemma U2_set_crashed : forall v s, U2 s -> U2 (set_crashed v s).
Proof. intros v []; exact (fun h => h). Qed.
#[export] Hint Resolve U2_set_crashed : u2db.
Lemma U2_set_gh : forall v s, U2 s -> U2 (set_gh v s).
Proof. intros v []; exact (fun h => h). Qed.
#[export] Hint Resolve U2_set_gh : u2db.
Lemma U2_set_st_disc : forall s, U2 (set_st Disconnected s).
Proof. intros [] C; cbn in C; discriminate. Qed.
Lemma U2_upg : forall f s, U2 s -> U2 (upg f s).
Proof. intros f []; exact (fun h => h). Qed.
#[export] Hint Resolve U2_set_st_disc U2_upg : u2db.
Lemma U2_q_append : forall w u sm s, st s <> Connecting -> U2 (q_append w u sm s).
Proof. intros w u sm s H C. exfalso; apply H. revert C. unfold q_append; cases; sproj; auto. Qed.
Lemma U2_send_gated : forall w u sm s, U2 s -> U2 (send_gated w u sm s).
Proof.
  intros w u sm s H. unfold send_gated, is_connected_owner. destruct (st s) eqn:E; auto.
  cases; auto. apply U2_q_append. congruence.
Qed.
#[export] Hint Resolve U2_send_gated : u2db.
Lemma U2_send_raw_m : forall w u sm s, U2 s -> U2 (send_raw_m w u sm s).
Proof. intros w u sm s H. unfold send_raw_m. destruct (st s) eqn:E; auto. apply U2_q_append. congruence. Qed.
#[export] Hint Resolve U2_send_raw_m : u2db.
Lemma U2_timed_add : forall k n s, U2 s -> U2 (timed_add k n s).
Proof. intros; unfold timed_add, ret; cases; leaf; eauto 30 with u2db. Qed.
#[export] Hint Resolve U2_timed_add : u2db.
Lemma U2_timed_del : forall k s, U2 s -> U2 (timed_del k s).
Proof. intros; unfold timed_del, ret; cases; leaf; eauto 30 with u2db. Qed.
#[export] Hint Resolve U2_timed_del : u2db.
Lemma U2_timed_reset_all : forall n s, U2 s -> U2 (timed_reset_all n s).
Proof. intros; unfold timed_reset_all, ret; cases; leaf; eauto 30 with u2db. Qed.
#[export] Hint Resolve U2_timed_reset_all : u2db.
Lemma U2_timed_set_stamp : forall k n s, U2 s -> U2 (timed_set_stamp k n s).
Proof. intros; unfold timed_set_stamp, ret; cases; leaf; eauto 30 with u2db. Qed.
#[export] Hint Resolve U2_timed_set_stamp : u2db.
Lemma U2_h_add : forall k s, U2 s -> U2 (h_add k s).
Proof. intros; unfold h_add, ret; cases; leaf; eauto 30 with u2db. Qed.
#[export] Hint Resolve U2_h_add : u2db.
Lemma U2_h_del : forall k s, U2 s -> U2 (h_del k s).
Proof. intros; unfold h_del, ret; cases; leaf; eauto 30 with u2db. Qed.
#[export] Hint Resolve U2_h_del : u2db.
Lemma U2_id_add : forall k s, U2 s -> U2 (id_add k s).
Proof. intros; unfold id_add, ret; cases; leaf; eauto 30 with u2db. Qed.
#[export] Hint Resolve U2_id_add : u2db.
Lemma U2_id_del : forall k s, U2 s -> U2 (id_del k s).
Proof. intros; unfold id_del, ret; cases; leaf; eauto 30 with u2db. Qed.
#[export] Hint Resolve U2_id_del : u2db.
Lemma U2_reset_sm_for_reconnect : forall s, U2 s -> U2 (reset_sm_for_reconnect s).
Proof. intros; unfold reset_sm_for_reconnect, ret; cases; leaf; eauto 30 with u2db. Qed.
#[export] Hint Resolve U2_reset_sm_for_reconnect : u2db.
Lemma U2_sm_queue_cleanup : forall h s, U2 s -> U2 (sm_queue_cleanup h s).
Proof. intros; unfold sm_queue_cleanup, ret; cases; leaf; eauto 30 with u2db. Qed.
#[export] Hint Resolve U2_sm_queue_cleanup : u2db.
Lemma U2_sm_queue_resend : forall s, U2 s -> U2 (sm_queue_resend s).
Proof. intros; unfold sm_queue_resend. apply fold_left_inv; eauto with u2db. Qed.
#[export] Hint Resolve U2_sm_queue_resend : u2db.
Lemma U2_conn_disconnect : forall s, U2 s -> U2 (fst (conn_disconnect s)).
Proof. intros; name_result; unfold conn_disconnect, ret; cases; leaf; eauto 30 with u2db. Qed.
#[export] Hint Resolve U2_conn_disconnect : u2db.
Lemma U2_xmpp_disconnect : forall n s, U2 s -> U2 (xmpp_disconnect n s).
Proof. intros; unfold xmpp_disconnect, ret; cases; leaf; eauto 30 with u2db. Qed.
#[export] Hint Resolve U2_xmpp_disconnect : u2db.
Lemma U2_prepare_reset : forall h s, U2 s -> U2 (prepare_reset h s).
Proof. intros; unfold prepare_reset, ret; cases; leaf; eauto 30 with u2db. Qed.
#[export] Hint Resolve U2_prepare_reset : u2db.
Lemma U2_conn_open_stream : forall s, U2 s -> U2 (conn_open_stream s).
Proof. intros; unfold conn_open_stream, ret; cases; leaf; eauto 30 with u2db. Qed.
#[export] Hint Resolve U2_conn_open_stream : u2db.
Lemma U2_conn_tls_start : forall s, U2 s -> U2 (fst (fst (conn_tls_start s))).
Proof. intros; name_result; unfold conn_tls_start, ret; cases; leaf; eauto 30 with u2db. Qed.
#[export] Hint Resolve U2_conn_tls_start : u2db.
Lemma U2_stream_negotiation_success : forall s, U2 s -> U2 (fst (stream_negotiation_success s)).
Proof. intros; name_result; unfold stream_negotiation_success, ret; cases; leaf; eauto 30 with u2db. Qed.
#[export] Hint Resolve U2_stream_negotiation_success : u2db.
Lemma U2_do_bind : forall n b s, U2 s -> U2 (fst (do_bind n b s)).
Proof. intros; name_result; unfold do_bind, ret; cases; leaf; eauto 30 with u2db. Qed.
#[export] Hint Resolve U2_do_bind : u2db.
Lemma U2_session_start : forall n s, U2 s -> U2 (session_start n s).
Proof. intros; unfold session_start, ret; cases; leaf; eauto 30 with u2db. Qed.
#[export] Hint Resolve U2_session_start : u2db.
Lemma U2_sm_enable : forall s, U2 s -> U2 (sm_enable s).
Proof. intros; unfold sm_enable, ret; cases; leaf; eauto 30 with u2db. Qed.
#[export] Hint Resolve U2_sm_enable : u2db.
Lemma U2_auth_legacy : forall n s, U2 s -> U2 (auth_legacy n s).
Proof. intros; unfold auth_legacy, ret; cases; leaf; eauto 30 with u2db. Qed.
#[export] Hint Resolve U2_auth_legacy : u2db.
Lemma U2_auth : forall fuel n s, U2 s -> U2 (fst (auth fuel n s)).
Proof. induction fuel; intros; name_result; cbn [auth]; unfold ret; cases; leaf; eauto 30 with u2db. Qed.
#[export] Hint Resolve U2_auth : u2db.
Lemma U2_sasl_result : forall n e s, U2 s -> U2 (fst (sasl_result n e s)).
Proof. intros; name_result; unfold sasl_result, ret; cases; leaf; eauto 30 with u2db. Qed.
#[export] Hint Resolve U2_sasl_result : u2db.
Lemma U2_features_sasl : forall n e s, U2 s -> U2 (fst (features_sasl n e s)).
Proof. intros; name_result; unfold features_sasl, ret; cases; leaf; eauto 30 with u2db. Qed.
#[export] Hint Resolve U2_features_sasl : u2db.
Lemma U2_call_handler : forall k n e s, U2 s -> U2 (fst (fst (call_handler k n e s))).
Proof. intros k; destruct k; intros; name_result; unfold call_handler, ret; cases; leaf; eauto 30 with u2db. Qed.
#[export] Hint Resolve U2_call_handler : u2db.
Lemma U2_call_id_handler : forall k n e s, U2 s -> U2 (fst (call_id_handler k n e s)).
Proof. intros k; destruct k; intros; name_result; unfold call_id_handler, ret; cases; leaf; eauto 30 with u2db. Qed.
#[export] Hint Resolve U2_call_id_handler : u2db.
Lemma U2_note_rx : forall e s, U2 s -> U2 (note_rx e s).
Proof. intros; unfold note_rx; cbv zeta; eauto with u2db. Qed.
#[export] Hint Resolve U2_note_rx : u2db.
Lemma U2_visit : forall n e r k, U2 (fst r) -> U2 (fst (visit n e r k)).
Proof. intros n e [s o] k H. cbn [fst] in H. name_result. unfold visit. cases; leaf; eauto 30 with u2db. Qed.
Lemma U2_fold_visit : forall n e l s o, U2 s -> U2 (fst (fold_left (visit n e) l (s, o))).
Proof. intros n e l s o H. apply (fold_left_inv (fun r => U2 (fst r))); auto. intros; apply U2_visit; auto. Qed.
#[export] Hint Resolve U2_fold_visit : u2db.
Lemma U2_sm_handle : forall e s, U2 s -> U2 (sm_handle e s).
Proof. intros; unfold sm_handle, ret; cases; leaf; eauto 30 with u2db. Qed.
#[export] Hint Resolve U2_sm_handle : u2db.
Lemma U2_dispatch : forall n e s, U2 s -> U2 (fst (dispatch n e s)).
Proof. intros; name_result; unfold dispatch, ret; cases; leaf; eauto 30 with u2db. Qed.
#[export] Hint Resolve U2_dispatch : u2db.
Lemma U2_open_handler : forall n s, U2 s -> U2 (fst (open_handler n s)).
Proof. intros; name_result; unfold open_handler, ret; cases; leaf; eauto 30 with u2db. Qed.
#[export] Hint Resolve U2_open_handler : u2db.
Lemma U2_stream_start : forall n a b s, U2 s -> U2 (fst (stream_start n a b s)).
Proof. intros; name_result; unfold stream_start, ret; cases; leaf; eauto 30 with u2db. Qed.
#[export] Hint Resolve U2_stream_start : u2db.
Lemma U2_stream_end : forall s, U2 s -> U2 (fst (stream_end s)).
Proof. intros; name_result; unfold stream_end, ret; cases; leaf; eauto 30 with u2db. Qed.
#[export] Hint Resolve U2_stream_end : u2db.
Lemma U2_feed_item : forall n it s, U2 s -> U2 (fst (fst (feed_item n it s))).
Proof. intros; name_result; unfold feed_item, ret; cases; leaf; eauto 30 with u2db. Qed.
#[export] Hint Resolve U2_feed_item : u2db.
Lemma U2_feed_items : forall n its s, U2 s -> U2 (fst (fst (feed_items n its s))).
Proof. induction its; intros; name_result; cbn [feed_items]; cases; leaf; eauto 30 with u2db. Qed.
#[export] Hint Resolve U2_feed_items : u2db.
Lemma U2_call_timed : forall k n s, U2 s -> U2 (fst (fst (call_timed k n s))).
Proof. intros k; destruct k; intros; name_result; unfold call_timed, ret; cases; leaf; eauto 30 with u2db. Qed.
#[export] Hint Resolve U2_call_timed : u2db.
Lemma U2_visit_timed : forall n r k, U2 (fst r) -> U2 (fst (visit_timed n r k)).
Proof. intros n [s o] k H. cbn [fst] in H. name_result. unfold visit_timed. cases; leaf; eauto 30 with u2db. Qed.
Lemma U2_fold_visit_timed : forall n l s o, U2 s -> U2 (fst (fold_left (visit_timed n) l (s, o))).
Proof. intros n l s o H. apply (fold_left_inv (fun r => U2 (fst r))); auto. intros; apply U2_visit_timed; auto. Qed.
#[export] Hint Resolve U2_fold_visit_timed : u2db.
Lemma U2_fire_timed : forall n s, U2 s -> U2 (fst (fire_timed n s)).
Proof. intros; name_result; unfold fire_timed, ret; cases; leaf; eauto 30 with u2db. Qed.
#[export] Hint Resolve U2_fire_timed : u2db.
Lemma U2_connect_next : forall n s, U2 s -> U2 (fst (fst (connect_next n s))).
Proof. intros; name_result; unfold connect_next, ret; cases; leaf; eauto 30 with u2db. Qed.
#[export] Hint Resolve U2_connect_next : u2db.
Lemma U2_conn_established : forall n s, U2 s -> U2 (fst (conn_established n s)).
Proof. intros; name_result; unfold conn_established, ret; cases; leaf; eauto 30 with u2db. Qed.
#[export] Hint Resolve U2_conn_established : u2db.

(* ================================================================== U1: a queued user stanza implies "connected" was reported *)
Definition is_wuser (w : welem) : bool := match w with WUser => true | _ => false end.
Definition has_user (q : list (welem * bool * bool)) : bool := existsb (fun x => is_wuser (fst (fst x))) q.
Definition U1 (s : state) : Prop := st s = Connected -> neg_done s = false -> has_user (sendq s) = false.

Lemma U1_set_f_tls_disabled : forall v s, U1 s -> U1 (set_f_tls_disabled v s).
Proof. intros v []; exact (fun h => h). Qed.
#[export] Hint Resolve U1_set_f_tls_disabled : u1db.
Lemma U1_set_f_tls_mandatory : forall v s, U1 s -> U1 (set_f_tls_mandatory v s).
Proof. intros v []; exact (fun h => h). Qed.
#[export] Hint Resolve U1_set_f_tls_mandatory : u1db.
Lemma U1_set_f_legacy_ssl : forall v s, U1 s -> U1 (set_f_legacy_ssl v s).
Proof. intros v []; exact (fun h => h). Qed.
#[export] Hint Resolve U1_set_f_legacy_ssl : u1db.
Lemma U1_set_f_tls_trust : forall v s, U1 s -> U1 (set_f_tls_trust v s).
Proof. intros v []; exact (fun h => h). Qed.
#[export] Hint Resolve U1_set_f_tls_trust : u1db.
Lemma U1_set_f_legacy_auth : forall v s, U1 s -> U1 (set_f_legacy_auth v s).
Proof. intros v []; exact (fun h => h). Qed.
#[export] Hint Resolve U1_set_f_legacy_auth : u1db.
Lemma U1_set_f_sm_disable : forall v s, U1 s -> U1 (set_f_sm_disable v s).
Proof. intros v []; exact (fun h => h). Qed.
#[export] Hint Resolve U1_set_f_sm_disable : u1db.
Lemma U1_set_f_comp_allowed : forall v s, U1 s -> U1 (set_f_comp_allowed v s).
Proof. intros v []; exact (fun h => h). Qed.
#[export] Hint Resolve U1_set_f_comp_allowed : u1db.
Lemma U1_set_f_comp_dont_reset : forall v s, U1 s -> U1 (set_f_comp_dont_reset v s).
Proof. intros v []; exact (fun h => h). Qed.
#[export] Hint Resolve U1_set_f_comp_dont_reset : u1db.
Lemma U1_set_jid_set : forall v s, U1 s -> U1 (set_jid_set v s).
Proof. intros v []; exact (fun h => h). Qed.
#[export] Hint Resolve U1_set_jid_set : u1db.
Lemma U1_set_jid_node : forall v s, U1 s -> U1 (set_jid_node v s).
Proof. intros v []; exact (fun h => h). Qed.
#[export] Hint Resolve U1_set_jid_node : u1db.
Lemma U1_set_jid_res : forall v s, U1 s -> U1 (set_jid_res v s).
Proof. intros v []; exact (fun h => h). Qed.
#[export] Hint Resolve U1_set_jid_res : u1db.
Lemma U1_set_pass_set : forall v s, U1 s -> U1 (set_pass_set v s).
Proof. intros v []; exact (fun h => h). Qed.
#[export] Hint Resolve U1_set_pass_set : u1db.
Lemma U1_set_cert_set : forall v s, U1 s -> U1 (set_cert_set v s).
Proof. intros v []; exact (fun h => h). Qed.
#[export] Hint Resolve U1_set_cert_set : u1db.
Lemma U1_set_is_raw : forall v s, U1 s -> U1 (set_is_raw v s).
Proof. intros v []; exact (fun h => h). Qed.
#[export] Hint Resolve U1_set_is_raw : u1db.
Lemma U1_set_typ : forall v s, U1 s -> U1 (set_typ v s).
Proof. intros v []; exact (fun h => h). Qed.
#[export] Hint Resolve U1_set_typ : u1db.
Lemma U1_set_user_handler : forall v s, U1 s -> U1 (set_user_handler v s).
Proof. intros v []; exact (fun h => h). Qed.
#[export] Hint Resolve U1_set_user_handler : u1db.
Lemma U1_set_user_timed : forall v s, U1 s -> U1 (set_user_timed v s).
Proof. intros v []; exact (fun h => h). Qed.
#[export] Hint Resolve U1_set_user_timed : u1db.
Lemma U1_set_tlsnew_ok : forall v s, U1 s -> U1 (set_tlsnew_ok v s).
Proof. intros v []; exact (fun h => h). Qed.
#[export] Hint Resolve U1_set_tlsnew_ok : u1db.
Lemma U1_set_cb_avail : forall v s, U1 s -> U1 (set_cb_avail v s).
Proof. intros v []; exact (fun h => h). Qed.
#[export] Hint Resolve U1_set_cb_avail : u1db.
Lemma U1_set_tls_verdicts : forall v s, U1 s -> U1 (set_tls_verdicts v s).
Proof. intros v []; exact (fun h => h). Qed.
#[export] Hint Resolve U1_set_tls_verdicts : u1db.
Lemma U1_set_next_cands : forall v s, U1 s -> U1 (set_next_cands v s).
Proof. intros v []; exact (fun h => h). Qed.
#[export] Hint Resolve U1_set_next_cands : u1db.
Lemma U1_set_cands : forall v s, U1 s -> U1 (set_cands v s).
Proof. intros v []; exact (fun h => h). Qed.
#[export] Hint Resolve U1_set_cands : u1db.
Lemma U1_set_cur_ep : forall v s, U1 s -> U1 (set_cur_ep v s).
Proof. intros v []; exact (fun h => h). Qed.
#[export] Hint Resolve U1_set_cur_ep : u1db.
Lemma U1_set_stamp : forall v s, U1 s -> U1 (set_stamp v s).
Proof. intros v []; exact (fun h => h). Qed.
#[export] Hint Resolve U1_set_stamp : u1db.
Lemma U1_set_err : forall v s, U1 s -> U1 (set_err v s).
Proof. intros v []; exact (fun h => h). Qed.
#[export] Hint Resolve U1_set_err : u1db.
Lemma U1_set_stream_error : forall v s, U1 s -> U1 (set_stream_error v s).
Proof. intros v []; exact (fun h => h). Qed.
#[export] Hint Resolve U1_set_stream_error : u1db.
Lemma U1_set_secured : forall v s, U1 s -> U1 (set_secured v s).
Proof. intros v []; exact (fun h => h). Qed.
#[export] Hint Resolve U1_set_secured : u1db.
Lemma U1_set_tls_present : forall v s, U1 s -> U1 (set_tls_present v s).
Proof. intros v []; exact (fun h => h). Qed.
#[export] Hint Resolve U1_set_tls_present : u1db.
Lemma U1_set_tls_failed : forall v s, U1 s -> U1 (set_tls_failed v s).
Proof. intros v []; exact (fun h => h). Qed.
#[export] Hint Resolve U1_set_tls_failed : u1db.
Lemma U1_set_tls_support : forall v s, U1 s -> U1 (set_tls_support v s).
Proof. intros v []; exact (fun h => h). Qed.
#[export] Hint Resolve U1_set_tls_support : u1db.
Lemma U1_set_sasl : forall v s, U1 s -> U1 (set_sasl v s).
Proof. intros v []; exact (fun h => h). Qed.
#[export] Hint Resolve U1_set_sasl : u1db.
Lemma U1_set_bind_required : forall v s, U1 s -> U1 (set_bind_required v s).
Proof. intros v []; exact (fun h => h). Qed.
#[export] Hint Resolve U1_set_bind_required : u1db.
Lemma U1_set_session_required : forall v s, U1 s -> U1 (set_session_required v s).
Proof. intros v []; exact (fun h => h). Qed.
#[export] Hint Resolve U1_set_session_required : u1db.
Lemma U1_set_comp_supported : forall v s, U1 s -> U1 (set_comp_supported v s).
Proof. intros v []; exact (fun h => h). Qed.
#[export] Hint Resolve U1_set_comp_supported : u1db.
Lemma U1_set_comp_active : forall v s, U1 s -> U1 (set_comp_active v s).
Proof. intros v []; exact (fun h => h). Qed.
#[export] Hint Resolve U1_set_comp_active : u1db.
Lemma U1_set_sm_alloc : forall v s, U1 s -> U1 (set_sm_alloc v s).
Proof. intros v []; exact (fun h => h). Qed.
#[export] Hint Resolve U1_set_sm_alloc : u1db.
Lemma U1_set_sm_support : forall v s, U1 s -> U1 (set_sm_support v s).
Proof. intros v []; exact (fun h => h). Qed.
#[export] Hint Resolve U1_set_sm_support : u1db.
Lemma U1_set_sm_enabled : forall v s, U1 s -> U1 (set_sm_enabled v s).
Proof. intros v []; exact (fun h => h). Qed.
#[export] Hint Resolve U1_set_sm_enabled : u1db.
Lemma U1_set_sm_can_resume : forall v s, U1 s -> U1 (set_sm_can_resume v s).
Proof. intros v []; exact (fun h => h). Qed.
#[export] Hint Resolve U1_set_sm_can_resume : u1db.
Lemma U1_set_sm_resume : forall v s, U1 s -> U1 (set_sm_resume v s).
Proof. intros v []; exact (fun h => h). Qed.
#[export] Hint Resolve U1_set_sm_resume : u1db.
Lemma U1_set_sm_dont_request : forall v s, U1 s -> U1 (set_sm_dont_request v s).
Proof. intros v []; exact (fun h => h). Qed.
#[export] Hint Resolve U1_set_sm_dont_request : u1db.
Lemma U1_set_sm_has_previd : forall v s, U1 s -> U1 (set_sm_has_previd v s).
Proof. intros v []; exact (fun h => h). Qed.
#[export] Hint Resolve U1_set_sm_has_previd : u1db.
Lemma U1_set_sm_has_id : forall v s, U1 s -> U1 (set_sm_has_id v s).
Proof. intros v []; exact (fun h => h). Qed.
#[export] Hint Resolve U1_set_sm_has_id : u1db.
Lemma U1_set_sm_parked : forall v s, U1 s -> U1 (set_sm_parked v s).
Proof. intros v []; exact (fun h => h). Qed.
#[export] Hint Resolve U1_set_sm_parked : u1db.
Lemma U1_set_sm_r_sent : forall v s, U1 s -> U1 (set_sm_r_sent v s).
Proof. intros v []; exact (fun h => h). Qed.
#[export] Hint Resolve U1_set_sm_r_sent : u1db.
Lemma U1_set_sm_bind_saved : forall v s, U1 s -> U1 (set_sm_bind_saved v s).
Proof. intros v []; exact (fun h => h). Qed.
#[export] Hint Resolve U1_set_sm_bind_saved : u1db.
Lemma U1_set_bound_jid : forall v s, U1 s -> U1 (set_bound_jid v s).
Proof. intros v []; exact (fun h => h). Qed.
#[export] Hint Resolve U1_set_bound_jid : u1db.
Lemma U1_set_stream_id : forall v s, U1 s -> U1 (set_stream_id v s).
Proof. intros v []; exact (fun h => h). Qed.
#[export] Hint Resolve U1_set_stream_id : u1db.
Lemma U1_set_reset_parser : forall v s, U1 s -> U1 (set_reset_parser v s).
Proof. intros v []; exact (fun h => h). Qed.
#[export] Hint Resolve U1_set_reset_parser : u1db.
Lemma U1_set_oh : forall v s, U1 s -> U1 (set_oh v s).
Proof. intros v []; exact (fun h => h). Qed.
#[export] Hint Resolve U1_set_oh : u1db.
Lemma U1_set_ps : forall v s, U1 s -> U1 (set_ps v s).
Proof. intros v []; exact (fun h => h). Qed.
#[export] Hint Resolve U1_set_ps : u1db.
Lemma U1_set_handlers : forall v s, U1 s -> U1 (set_handlers v s).
Proof. intros v []; exact (fun h => h). Qed.
#[export] Hint Resolve U1_set_handlers : u1db.
Lemma U1_set_idhandlers : forall v s, U1 s -> U1 (set_idhandlers v s).
Proof. intros v []; exact (fun h => h). Qed.
#[export] Hint Resolve U1_set_idhandlers : u1db.
Lemma U1_set_timed : forall v s, U1 s -> U1 (set_timed v s).
Proof. intros v []; exact (fun h => h). Qed.
#[export] Hint Resolve U1_set_timed : u1db.
Lemma U1_set_rxq : forall v s, U1 s -> U1 (set_rxq v s).
Proof. intros v []; exact (fun h => h). Qed.
#[export] Hint Resolve U1_set_rxq : u1db.
Lemma U1_set_smq : forall v s, U1 s -> U1 (set_smq v s).
Proof. intros v []; exact (fun h => h). Qed.
#[export] Hint Resolve U1_set_smq : u1db.
Lemma U1_set_sm_sent : forall v s, U1 s -> U1 (set_sm_sent v s).
Proof. intros v []; exact (fun h => h). Qed.
#[export] Hint Resolve U1_set_sm_sent : u1db.
Lemma U1_set_scram_serial : forall v s, U1 s -> U1 (set_scram_serial v s).
Proof. intros v []; exact (fun h => h). Qed.
#[export] Hint Resolve U1_set_scram_serial : u1db.
Lemma U1_set_crashed : forall v s, U1 s -> U1 (set_crashed v s).
Proof. intros v []; exact (fun h => h). Qed.
#[export] Hint Resolve U1_set_crashed : u1db.
Lemma U1_set_gh : forall v s, U1 s -> U1 (set_gh v s).
Proof. intros v []; exact (fun h => h). Qed.
#[export] Hint Resolve U1_set_gh : u1db.
Lemma U1_set_st_disc : forall s, U1 (set_st Disconnected s).
Proof. intros [] C; cbn in C; discriminate. Qed.
Lemma U1_set_neg_done_disc : forall s, U1 (set_neg_done false (set_st Disconnected s)).
Proof. intros [] C; cbn in C; discriminate. Qed.
Lemma U1_set_neg_done_true : forall s, U1 (set_neg_done true s).
Proof. intros [] C N; cbn in N; discriminate. Qed.
Lemma U1_upg : forall f s, U1 s -> U1 (upg f s).
Proof. intros f []; exact (fun h => h). Qed.
#[export] Hint Resolve U1_set_st_disc U1_set_neg_done_disc U1_set_neg_done_true U1_upg : u1db.
Lemma has_user_app : forall a b, has_user (a ++ b) = has_user a || has_user b.
Proof. intros; unfold has_user; apply existsb_app. Qed.
Lemma U1_q_append : forall w u sm s, (is_wuser w = true -> neg_done s = true) -> U1 s -> U1 (q_append w u sm s).
Proof.
  intros w u sm s Hw H. unfold q_append, U1 in *. cases; sproj; intros C N; rewrite ?has_user_app, (H C N); cbn;
    destruct (is_wuser w) eqn:W; auto; rewrite Hw in N; auto; discriminate.
Qed.
Lemma U1_send_gated : forall w u sm s, is_wuser w = false \/ u = true -> U1 s -> U1 (send_gated w u sm s).
Proof.
  intros w u sm s Hw H. unfold send_gated. destruct (is_connected_owner s u) eqn:E; auto.
  apply U1_q_append; auto. intros W. destruct Hw as [Hw|Hw]; [congruence|]. subst u.
  unfold is_connected_owner in E. destruct (st s); try discriminate. exact E.
Qed.
#[export] Hint Extern 1 (U1 (send_gated _ _ _ _)) => (apply U1_send_gated; [first [left; reflexivity | right; reflexivity] | ]) : u1db.
Lemma U1_send_raw_m : forall w u sm s, is_wuser w = false -> U1 s -> U1 (send_raw_m w u sm s).
Proof. intros w u sm s Hw H. unfold send_raw_m. destruct (st s); auto. apply U1_q_append; auto. congruence. Qed.
#[export] Hint Extern 1 (U1 (send_raw_m _ _ _ _)) => (apply U1_send_raw_m; [reflexivity | ]) : u1db.
Lemma U1_timed_add : forall k n s, U1 s -> U1 (timed_add k n s).
Proof. intros; unfold timed_add, ret; cases; leaf; eauto 30 with u1db. Qed.
#[export] Hint Resolve U1_timed_add : u1db.
Lemma U1_timed_del : forall k s, U1 s -> U1 (timed_del k s).
Proof. intros; unfold timed_del, ret; cases; leaf; eauto 30 with u1db. Qed.
#[export] Hint Resolve U1_timed_del : u1db.
Lemma U1_timed_reset_all : forall n s, U1 s -> U1 (timed_reset_all n s).
Proof. intros; unfold timed_reset_all, ret; cases; leaf; eauto 30 with u1db. Qed.
#[export] Hint Resolve U1_timed_reset_all : u1db.
Lemma U1_timed_set_stamp : forall k n s, U1 s -> U1 (timed_set_stamp k n s).
Proof. intros; unfold timed_set_stamp, ret; cases; leaf; eauto 30 with u1db. Qed.
#[export] Hint Resolve U1_timed_set_stamp : u1db.
Lemma U1_h_add : forall k s, U1 s -> U1 (h_add k s).
Proof. intros; unfold h_add, ret; cases; leaf; eauto 30 with u1db. Qed.
#[export] Hint Resolve U1_h_add : u1db.
Lemma U1_h_del : forall k s, U1 s -> U1 (h_del k s).
Proof. intros; unfold h_del, ret; cases; leaf; eauto 30 with u1db. Qed.
#[export] Hint Resolve U1_h_del : u1db.
Lemma U1_id_add : forall k s, U1 s -> U1 (id_add k s).
Proof. intros; unfold id_add, ret; cases; leaf; eauto 30 with u1db. Qed.
#[export] Hint Resolve U1_id_add : u1db.
Lemma U1_id_del : forall k s, U1 s -> U1 (id_del k s).
Proof. intros; unfold id_del, ret; cases; leaf; eauto 30 with u1db. Qed.
#[export] Hint Resolve U1_id_del : u1db.
Lemma U1_reset_sm_for_reconnect : forall s, U1 s -> U1 (reset_sm_for_reconnect s).
Proof. intros; unfold reset_sm_for_reconnect, ret; cases; leaf; eauto 30 with u1db. Qed.
#[export] Hint Resolve U1_reset_sm_for_reconnect : u1db.
Lemma U1_sm_queue_cleanup : forall h s, U1 s -> U1 (sm_queue_cleanup h s).
Proof. intros; unfold sm_queue_cleanup, ret; cases; leaf; eauto 30 with u1db. Qed.
#[export] Hint Resolve U1_sm_queue_cleanup : u1db.
(* sm_queue_resend re-queues retained user stanzas: U1 is re-established by the
   stream_negotiation_success that always follows it (U1_stream_negotiation_success is unconditional) *)
Lemma U1_conn_disconnect : forall s, U1 s -> U1 (fst (conn_disconnect s)).
Proof. intros; name_result; unfold conn_disconnect, ret; cases; leaf; eauto 30 with u1db. Qed.
#[export] Hint Resolve U1_conn_disconnect : u1db.
Lemma U1_xmpp_disconnect : forall n s, U1 s -> U1 (xmpp_disconnect n s).
Proof. intros; unfold xmpp_disconnect, ret; cases; leaf; eauto 30 with u1db. Qed.
#[export] Hint Resolve U1_xmpp_disconnect : u1db.
Lemma U1_prepare_reset : forall h s, U1 s -> U1 (prepare_reset h s).
Proof. intros; unfold prepare_reset, ret; cases; leaf; eauto 30 with u1db. Qed.
#[export] Hint Resolve U1_prepare_reset : u1db.
Lemma U1_conn_open_stream : forall s, U1 s -> U1 (conn_open_stream s).
Proof. intros; unfold conn_open_stream, ret; cases; leaf; eauto 30 with u1db. Qed.
#[export] Hint Resolve U1_conn_open_stream : u1db.
Lemma U1_conn_tls_start : forall s, U1 s -> U1 (fst (fst (conn_tls_start s))).
Proof. intros; name_result; unfold conn_tls_start, ret; cases; leaf; eauto 30 with u1db. Qed.
#[export] Hint Resolve U1_conn_tls_start : u1db.
Lemma U1_stream_negotiation_success : forall s, U1 (fst (stream_negotiation_success s)).
Proof.
  intros s. unfold stream_negotiation_success, ret. destruct (negb (is_raw s) && neg_done s) eqn:E; cbn [fst].
  - apply andb_prop in E. destruct E as [_ E]. intros _ N. congruence.
  - cases; intros C N; revert N; sproj; discriminate.
Qed.
#[export] Hint Resolve U1_stream_negotiation_success : u1db.
Lemma U1_do_bind : forall n b s, U1 s -> U1 (fst (do_bind n b s)).
Proof. intros; name_result; unfold do_bind, ret; cases; leaf; eauto 30 with u1db. Qed.
#[export] Hint Resolve U1_do_bind : u1db.
Lemma U1_session_start : forall n s, U1 s -> U1 (session_start n s).
Proof. intros; unfold session_start, ret; cases; leaf; eauto 30 with u1db. Qed.
#[export] Hint Resolve U1_session_start : u1db.
Lemma U1_sm_enable : forall s, U1 s -> U1 (sm_enable s).
Proof. intros; unfold sm_enable, ret; cases; leaf; eauto 30 with u1db. Qed.
#[export] Hint Resolve U1_sm_enable : u1db.
Lemma U1_auth_legacy : forall n s, U1 s -> U1 (auth_legacy n s).
Proof. intros; unfold auth_legacy, ret; cases; leaf; eauto 30 with u1db. Qed.
#[export] Hint Resolve U1_auth_legacy : u1db.
Lemma U1_auth : forall fuel n s, U1 s -> U1 (fst (auth fuel n s)).
Proof. induction fuel; intros; name_result; cbn [auth]; unfold ret; cases; leaf; eauto 30 with u1db. Qed.
#[export] Hint Resolve U1_auth : u1db.
Lemma U1_sasl_result : forall n e s, U1 s -> U1 (fst (sasl_result n e s)).
Proof. intros; name_result; unfold sasl_result, ret; cases; leaf; eauto 30 with u1db. Qed.
#[export] Hint Resolve U1_sasl_result : u1db.
Lemma U1_features_sasl : forall n e s, U1 s -> U1 (fst (features_sasl n e s)).
Proof. intros; name_result; unfold features_sasl, ret; cases; leaf; eauto 30 with u1db. Qed.
#[export] Hint Resolve U1_features_sasl : u1db.
Lemma U1_call_handler : forall k n e s, U1 s -> U1 (fst (fst (call_handler k n e s))).
Proof. intros k; destruct k; intros; name_result; unfold call_handler, ret; cases; leaf; eauto 30 with u1db. Qed.
#[export] Hint Resolve U1_call_handler : u1db.
Lemma U1_call_id_handler : forall k n e s, U1 s -> U1 (fst (call_id_handler k n e s)).
Proof. intros k; destruct k; intros; name_result; unfold call_id_handler, ret; cases; leaf; eauto 30 with u1db. Qed.
#[export] Hint Resolve U1_call_id_handler : u1db.
Lemma U1_note_rx : forall e s, U1 s -> U1 (note_rx e s).
Proof. intros; unfold note_rx; cbv zeta; eauto with u1db. Qed.
#[export] Hint Resolve U1_note_rx : u1db.
Lemma U1_visit : forall n e r k, U1 (fst r) -> U1 (fst (visit n e r k)).
Proof. intros n e [s o] k H. cbn [fst] in H. name_result. unfold visit. cases; leaf; eauto 30 with u1db. Qed.
Lemma U1_fold_visit : forall n e l s o, U1 s -> U1 (fst (fold_left (visit n e) l (s, o))).
Proof. intros n e l s o H. apply (fold_left_inv (fun r => U1 (fst r))); auto. intros; apply U1_visit; auto. Qed.
#[export] Hint Resolve U1_fold_visit : u1db.
Lemma U1_sm_handle : forall e s, U1 s -> U1 (sm_handle e s).
Proof. intros; unfold sm_handle, ret; cases; leaf; eauto 30 with u1db. Qed.
#[export] Hint Resolve U1_sm_handle : u1db.
Lemma U1_dispatch : forall n e s, U1 s -> U1 (fst (dispatch n e s)).
Proof. intros; name_result; unfold dispatch, ret; cases; leaf; eauto 30 with u1db. Qed.
#[export] Hint Resolve U1_dispatch : u1db.
Lemma U1_open_handler : forall n s, U1 s -> U1 (fst (open_handler n s)).
Proof. intros; name_result; unfold open_handler, ret; cases; leaf; eauto 30 with u1db. Qed.
#[export] Hint Resolve U1_open_handler : u1db.
Lemma U1_stream_start : forall n a b s, U1 s -> U1 (fst (stream_start n a b s)).
Proof. intros; name_result; unfold stream_start, ret; cases; leaf; eauto 30 with u1db. Qed.
#[export] Hint Resolve U1_stream_start : u1db.
Lemma U1_stream_end : forall s, U1 s -> U1 (fst (stream_end s)).
Proof. intros; name_result; unfold stream_end, ret; cases; leaf; eauto 30 with u1db. Qed.
#[export] Hint Resolve U1_stream_end : u1db.
Lemma U1_feed_item : forall n it s, U1 s -> U1 (fst (fst (feed_item n it s))).
Proof. intros; name_result; unfold feed_item, ret; cases; leaf; eauto 30 with u1db. Qed.
#[export] Hint Resolve U1_feed_item : u1db.
Lemma U1_feed_items : forall n its s, U1 s -> U1 (fst (fst (feed_items n its s))).
Proof. induction its; intros; name_result; cbn [feed_items]; cases; leaf; eauto 30 with u1db. Qed.
#[export] Hint Resolve U1_feed_items : u1db.
Lemma U1_call_timed : forall k n s, U1 s -> U1 (fst (fst (call_timed k n s))).
Proof. intros k; destruct k; intros; name_result; unfold call_timed, ret; cases; leaf; eauto 30 with u1db. Qed.
#[export] Hint Resolve U1_call_timed : u1db.
Lemma U1_visit_timed : forall n r k, U1 (fst r) -> U1 (fst (visit_timed n r k)).
Proof. intros n [s o] k H. cbn [fst] in H. name_result. unfold visit_timed. cases; leaf; eauto 30 with u1db. Qed.
Lemma U1_fold_visit_timed : forall n l s o, U1 s -> U1 (fst (fold_left (visit_timed n) l (s, o))).
Proof. intros n l s o H. apply (fold_left_inv (fun r => U1 (fst r))); auto. intros; apply U1_visit_timed; auto. Qed.
#[export] Hint Resolve U1_fold_visit_timed : u1db.
Lemma U1_fire_timed : forall n s, U1 s -> U1 (fst (fire_timed n s)).
Proof. intros; name_result; unfold fire_timed, ret; cases; leaf; eauto 30 with u1db. Qed.
#[export] Hint Resolve U1_fire_timed : u1db.
Lemma U1_connect_next : forall n s, U1 s -> U1 (fst (fst (connect_next n s))).
Proof. intros; name_result; unfold connect_next, ret; cases; leaf; eauto 30 with u1db. Qed.
#[export] Hint Resolve U1_connect_next : u1db.
Lemma U1_conn_established : forall n s, U1 s -> U1 (fst (conn_established n s)).
Proof. intros; name_result; unfold conn_established, ret; cases; leaf; eauto 30 with u1db. Qed.
#[export] Hint Resolve U1_conn_established : u1db.

Lemma Tr_ph_watch : forall n s0 s o, Tr s0 s o -> Tr s0 (fst (ph_watch n s)) (o ++ snd (ph_watch n s)).
Proof. intros; name_result; unfold ph_watch, ret; cases; leaf; eauto 30 with trdb. Qed.
(* the read/connect phase: Tr from its start state, or - when the TCP connect completes - from that
   state marked Connected *)
Lemma Tr_ph_io : forall n s0 s o, Tr s0 s o ->
  (st s = Connecting /\ cur_ep s = EpAccept /\ ph_io n s = conn_established n (set_st Connected s)) \/
  Tr s0 (fst (ph_io n s)) (o ++ snd (ph_io n s)).
Proof.
  intros n s0 s o H. unfold ph_io. destruct (st s) eqn:E.
  - right. cbn. eauto with trdb.
  - destruct (cur_ep s) eqn:E2; [left; auto | right; cbn; eauto with trdb | right | right; cbn; eauto with trdb].
    name_result; cases; leaf; eauto 30 with trdb.
  - right. name_result; unfold ret; cases; leaf; eauto 30 with trdb.
Qed.

(* ================================================================== C03: ok_restart *)
(* phases before the read phase never start TLS *)
Definition nt (o : out) : bool := negb (is_tls o).
Lemma nt_tls_out : forall o, forallb nt o = true -> tls_out o = false.
Proof.
  induction o as [|x o IH]; [reflexivity|]. cbn [forallb]. intros H. apply andb_prop in H. destruct H as [A B].
  unfold tls_out; cbn [existsb]. unfold nt in A. apply negb_true_iff in A. rewrite A. exact (IH B).
Qed.
Ltac nt_fin := cbn [fst snd]; rewrite ?forallb_app; repeat match goal with H : forallb nt _ = true |- _ => rewrite H end; try reflexivity.
Lemma nt_conn_disconnect : forall s, forallb nt (snd (conn_disconnect s)) = true.
Proof. intros; name_result; unfold conn_disconnect, ret; cases; leaf; reflexivity. Qed.
Lemma nt_auth : forall fuel n s, forallb nt (snd (auth fuel n s)) = true.
Proof.
  induction fuel; intros; name_result; cbn [auth]; unfold ret; cases; leaf; try reflexivity;
    auto using nt_conn_disconnect.
Qed.
Lemma nt_call_timed : forall k n s, forallb nt (snd (fst (call_timed k n s))) = true.
Proof.
  intros k; destruct k; intros; name_result; unfold call_timed; cases; leaf; try reflexivity;
    auto using nt_conn_disconnect, nt_auth.
Qed.
Lemma nt_visit_timed : forall n r k, forallb nt (snd r) = true -> forallb nt (snd (visit_timed n r k)) = true.
Proof.
  intros n [s o] k H. cbn [snd] in H. name_result. unfold visit_timed. cases; leaf; auto.
  all: rewrite forallb_app, H, nt_call_timed; reflexivity.
Qed.
Lemma nt_fire_timed : forall n s, forallb nt (snd (fire_timed n s)) = true.
Proof.
  intros; name_result; unfold fire_timed, ret; cases; leaf; try reflexivity.
  apply (fold_left_inv (fun r => forallb nt (snd r) = true)); [intros; apply nt_visit_timed; auto | reflexivity].
Qed.
Lemma nt_quiet : forall o, forallb quiet o = true -> forallb nt o = true.
Proof.
  induction o as [|x o IH]; cbn; auto. intros H. apply andb_prop in H. destruct H as [A B].
  rewrite IH; auto. destruct x as [| | | |[|]| | | | | | | | |]; cbn in *; auto; discriminate.
Qed.
Lemma nt_connect_next : forall n s, forallb nt (snd (fst (connect_next n s))) = true.
Proof.
  intros. name_result. unfold connect_next. pose proof (quiet_sock_connect (cands s)) as Q.
  destruct (sock_connect (cands s)) as [oo [[k r]|]]; cbn [fst] in Q; leaf; cbn; apply nt_quiet; exact Q.
Qed.
Lemma nt_ph_watch : forall n s, forallb nt (snd (ph_watch n s)) = true.
Proof.
  intros; name_result; unfold ph_watch, ret; cases; leaf; try reflexivity; auto using nt_connect_next.
  rewrite forallb_app, nt_connect_next. reflexivity.
Qed.
Lemma nt_send_phase : forall s, forallb nt (snd (send_phase s)) = true.
Proof.
  intros; name_result; unfold send_phase, ret; cases; leaf; try reflexivity;
    rewrite ?forallb_app, ?nt_conn_disconnect, ?andb_true_r;
    apply forallb_forall; intros x Hx; apply in_map_iff in Hx; destruct Hx as (y & <- & _); reflexivity.
Qed.

Lemma tls_out_app : forall a b, tls_out (a ++ b) = tls_out a || tls_out b.
Proof. intros; unfold tls_out; apply existsb_app. Qed.

Lemma restart_run_once : forall n rd s,
  tls_out (snd (run_once n rd s)) = true -> Rst (fst (run_once n rd s)).
Proof.
  intros n rd s.
  apply (run_once_ind
           (fun _ o => tls_out o = false) (fun _ o => tls_out o = false) (fun _ o => tls_out o = false)
           (fun _ o => tls_out o = false)
           (fun s o => tls_out o = true -> Rst s) (fun s o => tls_out o = true -> Rst s)
           (fun s o => tls_out o = true -> Rst s)).
  - intros _ H; discriminate.
  - intros _. apply nt_tls_out, nt_send_phase.
  - intros s1 o H H'; congruence.
  - auto.
  - intros s1 o H. rewrite tls_out_app, H, (nt_tls_out _ (nt_fire_timed _ _)). reflexivity.
  - intros s1 o H H'; congruence.
  - intros s1 o H. rewrite tls_out_app, H, (nt_tls_out _ (nt_ph_watch _ _)). reflexivity.
  - intros s1 o H H'. rewrite tls_out_app, H in H'. discriminate.
  - intros s1 o H H'. rewrite tls_out_app, H in H'. cbn [orb] in H'.
    destruct (Tr_ph_io n s1 s1 [] (Tr_refl s1)) as [(C & E & Eq)|T].
    + rewrite Eq in *. pose proof (Tr_conn_established n _ _ _ (Tr_refl (set_st Connected s1))) as T.
      cbn [app] in T. apply (tr_restart _ _ _ T). exact H'.
    + cbn [app] in T. apply (tr_restart _ _ _ T). exact H'.
  - auto.
  - intros s1 o H H'. pose proof (Tr_fire_timed n _ _ _ (Tr_refl s1)) as T. cbn [app] in T.
    rewrite tls_out_app in H'. destruct (tls_out o) eqn:E.
    + apply (Rst_Fr s1); [auto | apply (tr_fr _ _ _ T)].
    + apply (tr_restart _ _ _ T). exact H'.
  - intros s1 o H H'. apply H. rewrite tls_out_app in H'. cbn in H'. rewrite orb_false_r in H'. exact H'.
Qed.


Lemma nt_conn_connect : forall n t s, forallb nt (snd (fst (conn_connect n t s))) = true.
Proof.
  intros. name_result. unfold conn_connect.
  destruct (st s); cbv zeta; [ | leaf; reflexivity ..].
  match goal with |- context [sock_connect ?c] => pose proof (quiet_sock_connect c) as Q; destruct (sock_connect c) as [oo [[k r]|]] end;
    cbn [fst] in Q; leaf; apply nt_quiet; exact Q.
Qed.
Lemma nt_connect_client : forall n s, forallb nt (snd (fst (connect_client n s))) = true.
Proof. intros; name_result; unfold connect_client; cases; leaf; try reflexivity; apply nt_conn_connect. Qed.
Lemma nt_connect_component : forall n s, forallb nt (snd (fst (connect_component n s))) = true.
Proof. intros; name_result; unfold connect_component; cases; leaf; try reflexivity; apply nt_conn_connect. Qed.

Lemma restart_step0 : forall s op, tls_out (snd (step0 s op)) = true -> Rst (fst (step0 s op)).
Proof.
  intros s op. unfold step0. destruct (crashed s); [intros; discriminate|].
  destruct op; try apply restart_run_once;
    intros H; exfalso; revert H; name_result; unfold ret; cases; leaf; try discriminate;
    match goal with H : tls_out _ = true |- _ =>
      rewrite ?tls_out_app, ?(nt_tls_out _ (nt_connect_client _ _)), ?(nt_tls_out _ (nt_connect_component _ _)),
        ?(nt_tls_out _ (nt_conn_disconnect _)) in H; discriminate end.
Qed.

Theorem restart_ok : forall ops, check_run ok_restart init_state ops = true.
Proof.
  intros ops. apply (check_run_inv ok_restart (fun _ => True)); auto.
  intros s o _. rewrite step_eq. cbn [fst snd]. unfold ok_restart.
  pose proof (restart_step0 s o) as R. fold is_tls. fold (tls_out (snd (step0 s o))).
  destruct (tls_out (snd (step0 s o))); [|reflexivity]. specialize (R eq_refl). cbn [negb orb].
  unfold note_outs. sproj. destruct (st (fst (step0 s o))) eqn:E; auto.
  destruct (R E) as [H|[H|[H1 H2]]]; rewrite ?H, ?H1, ?H2, ?orb_true_r; reflexivity.
Qed.

(* ================================================================== C03: ok_user *)
Definition up (g : ghost) : bool := Nat.ltb 0 (g_connects g) || g_rawc g.
Lemma up_note_outs : forall outs g, up (fold_left note_out outs g) = up g || has_conn outs.
Proof.
  induction outs as [|x outs IH]; intros g; cbn [fold_left has_conn existsb].
  - rewrite orb_false_r; reflexivity.
  - unfold has_conn in IH. rewrite IH.
    assert (E : up (note_out g x) = up g || is_conn x).
    { destruct g; destruct x as [| | | |[|]| | | | | | | | |]; unfold up; cbn; rewrite ?orb_false_r, ?orb_true_r; auto.
      all: try (destruct g_connects; reflexivity). }
    rewrite E, orb_assoc. reflexivity.
Qed.
Lemma has_conn_app : forall a b, has_conn (a ++ b) = has_conn a || has_conn b.
Proof. intros; unfold has_conn; apply existsb_app. Qed.

(* what holds of the current state s and the outputs o so far, b being "connected was reported before this step" *)
Record UQ (b : bool) (g0 : ghost) (s : state) (o : list out) : Prop := mkUQ {
  uq_scan : scan_user b o = true;
  uq_nd : neg_done s = true -> b || has_conn o = true;
  uq_u1 : U1 s;
  uq_u2 : U2 s;
  uq_gc : g_connects (gh s) = g_connects g0;
  uq_gr : g_rawc (gh s) = g_rawc g0
}.
Lemma UQ_Tr : forall b g0 s o s' o', UQ b g0 s o -> Tr s s' o' -> U1 s' -> U2 s' -> UQ b g0 s' (o ++ o').
Proof.
  intros b g0 s o s' o' [] [] A B. constructor; auto.
  - rewrite scan_user_app, uq_scan0. apply tr_user0. exact uq_nd0.
  - intros N. rewrite has_conn_app, orb_assoc. destruct (tr_nd0 N) as [H|H]; [rewrite (uq_nd0 H)| rewrite H, orb_true_r]; reflexivity.
  - destruct tr_fr0, fr_gh. congruence.
  - destruct tr_fr0, fr_gh. congruence.
Qed.

Lemma scan_wires : forall b t q, (has_user q = true -> b = true) ->
  scan_user b (map (fun x : welem * bool * bool => OWire t (fst (fst x))) q) = true /\
  has_conn (map (fun x : welem * bool * bool => OWire t (fst (fst x))) q) = false.
Proof.
  induction q as [|x q IH]; intros H; [split; reflexivity|].
  cbn [map]. unfold has_user in *. cbn [existsb] in H.
  destruct IH as [A B]. { intros K. apply H. rewrite K. apply orb_true_r. }
  split; [|exact B].
  destruct (fst (fst x)) eqn:E; cbn [scan_user]; auto. cbn in H. specialize (H eq_refl). subst b. exact A.
Qed.

Lemma user_send_phase : forall b s, (neg_done s = true -> b = true) -> U1 s -> U2 s ->
  UQ b (gh s) (fst (send_phase s)) (snd (send_phase s)).
Proof.
  intros b s Hb H1 H2. unfold send_phase, ret.
  assert (Triv : UQ b (gh s) s []).
  { constructor; auto. intros N; rewrite Hb; auto. }
  destruct (st s) eqn:C; [exact Triv | exact Triv | ].
  cbv zeta.
  match goal with |- context [negb (err ?x =? 0)] => remember x as sa eqn:Ea end.
  assert (F1 : neg_done sa = neg_done s) by (subst sa; reflexivity).
  assert (F2 : gh sa = gh s) by (subst sa; reflexivity).
  assert (F3 : sendq sa = []) by (subst sa; reflexivity).
  assert (F4 : st sa = st s) by (subst sa; reflexivity).
  clear Ea.
  destruct (scan_wires b (tls_present s) (sendq s)) as [W1 W2].
  { intros K. apply Hb. destruct (neg_done s) eqn:N; auto. rewrite (H1 C N) in K. discriminate. }
  assert (Q0 : UQ b (gh s) sa (map (fun x : welem * bool * bool => OWire (tls_present s) (fst (fst x))) (sendq s))).
  { constructor; auto.
    - intros N. rewrite Hb; [reflexivity | congruence].
    - intros _ _. rewrite F3. reflexivity.
    - intros _. exact F3.
    - congruence.
    - congruence. }
  destruct (negb (err sa =? 0)); [|exact Q0].
  assert (Q1 : UQ b (gh s) (set_err ECONNABORTED sa) (map (fun x : welem * bool * bool => OWire (tls_present s) (fst (fst x))) (sendq s))).
  { destruct Q0. constructor; auto with u1db u2db. }
  pose proof (Tr_conn_disconnect _ _ _ (Tr_refl (set_err ECONNABORTED sa))) as T. cbn [app] in T.
  pose proof (UQ_Tr _ _ _ _ _ _ Q1 T) as Q2.
  destruct (conn_disconnect (set_err ECONNABORTED sa)) as [s2 o2] eqn:E. cbn [fst snd] in *.
  apply Q2.
  - replace s2 with (fst (conn_disconnect (set_err ECONNABORTED sa))) by (rewrite E; reflexivity).
    destruct Q1; auto with u1db.
  - replace s2 with (fst (conn_disconnect (set_err ECONNABORTED sa))) by (rewrite E; reflexivity).
    destruct Q1; auto with u2db.
Qed.

Lemma U1_ph_watch : forall n s, U1 s -> U1 (fst (ph_watch n s)).
Proof. intros; name_result; unfold ph_watch, ret; cases; leaf; eauto 30 with u1db. Qed.
Lemma U2_ph_watch : forall n s, U2 s -> U2 (fst (ph_watch n s)).
Proof. intros; name_result; unfold ph_watch, ret; cases; leaf; eauto 30 with u2db. Qed.
Lemma U1_connecting_connected : forall s, U2 s -> st s = Connecting -> U1 (set_st Connected s).
Proof.
  intros s H C _ _. assert (E : sendq (set_st Connected s) = sendq s) by (destruct s; reflexivity).
  rewrite E, (H C). reflexivity.
Qed.
Lemma U2_set_st_connected : forall s, U2 (set_st Connected s).
Proof. intros [] C; cbn in C; discriminate. Qed.
Lemma U1_ph_io : forall n s, U1 s -> U2 s -> U1 (fst (ph_io n s)).
Proof.
  intros n s H1 H2. name_result. unfold ph_io, ret.
  destruct (st s) eqn:C; [leaf; auto | | cases; leaf; eauto 30 with u1db].
  destruct (cur_ep s); cases; leaf; eauto 30 with u1db.
  apply U1_conn_established. apply U1_connecting_connected; auto.
Qed.
Lemma U2_ph_io : forall n s, U2 s -> U2 (fst (ph_io n s)).
Proof.
  intros n s H2. name_result. unfold ph_io, ret.
  destruct (st s) eqn:C; [leaf; auto | | cases; leaf; eauto 30 with u2db].
  destruct (cur_ep s); cases; leaf; eauto 30 with u2db.
  apply U2_conn_established. apply U2_set_st_connected.
Qed.

Lemma user_run_once : forall b n rd s, (neg_done s = true -> b = true) -> U1 s -> U2 s ->
  UQ b (gh s) (fst (run_once n rd s)) (snd (run_once n rd s)).
Proof.
  intros b n rd s Hb H1 H2.
  apply (run_once_ind (UQ b (gh s)) (UQ b (gh s)) (UQ b (gh s)) (UQ b (gh s)) (UQ b (gh s)) (UQ b (gh s)) (UQ b (gh s))); auto.
  - intros _. constructor; cbn; auto. intros N; rewrite Hb; auto.
  - intros _.
    assert (E : gh s = gh (ph_pre rd s)) by (unfold ph_pre; cases; reflexivity). rewrite E.
    apply user_send_phase; unfold ph_pre; cases; auto with u1db u2db.
  - intros s1 o Q. unfold ph_reset. cases; auto. destruct Q; constructor; auto with u1db u2db.
  - intros s1 o Q. pose proof (Tr_fire_timed n _ _ _ (Tr_refl s1)) as T. cbn [app] in T.
    apply (UQ_Tr _ _ _ _ _ _ Q T); destruct Q; auto with u1db u2db.
  - intros s1 o Q. pose proof (Tr_ph_watch n _ _ _ (Tr_refl s1)) as T. cbn [app] in T.
    apply (UQ_Tr _ _ _ _ _ _ Q T); destruct Q; auto using U1_ph_watch, U2_ph_watch.
  - intros s1 o Q. apply (UQ_Tr _ _ _ _ _ _ Q (Tr_quiet _ _ _ [OIter] (Tr_refl s1) eq_refl)); destruct Q; auto.
  - intros s1 o Q. destruct (Tr_ph_io n s1 s1 [] (Tr_refl s1)) as [(C & E & Eq)|T].
    + rewrite Eq.
      assert (Q' : UQ b (gh s) (set_st Connected s1) o).
      { destruct Q; constructor; auto using U1_connecting_connected, U2_set_st_connected. }
      pose proof (Tr_conn_established n _ _ _ (Tr_refl (set_st Connected s1))) as T. cbn [app] in T.
      apply (UQ_Tr _ _ _ _ _ _ Q' T); destruct Q'; auto with u1db u2db.
    + cbn [app] in T. apply (UQ_Tr _ _ _ _ _ _ Q T); destruct Q; auto using U1_ph_io, U2_ph_io.
  - intros s1 o Q. pose proof (Tr_fire_timed n _ _ _ (Tr_refl s1)) as T. cbn [app] in T.
    apply (UQ_Tr _ _ _ _ _ _ Q T); destruct Q; auto with u1db u2db.
  - intros s1 o Q. apply (UQ_Tr _ _ _ _ _ _ Q (Tr_quiet _ _ _ [OIter] (Tr_refl s1) eq_refl)); destruct Q; auto.
Qed.

(* what _conn_connect leaves behind when it runs (object disconnected) *)
Record Fresh (s s1 : state) : Prop := mkFresh {
  fre_nd : neg_done s1 = false;
  fre_sendq : sendq s1 = [];
  fre_st : st s1 = Connecting \/ st s1 = Disconnected;
  fre_gh : st s1 = Connecting -> gh s1 = set_g_attempt true ghost0;
  fre_gh' : st s1 = Disconnected -> gh s1 = gh s
}.
Lemma conn_connect_cases : forall n t s,
  (st s <> Disconnected /\ conn_connect n t s = (s, [], XMPP_EINVOP)) \/
  (st s = Disconnected /\ Fresh s (fst (fst (conn_connect n t s))) /\
   forallb quiet (snd (fst (conn_connect n t s))) = true).
Proof.
  intros n t s. unfold conn_connect. destruct (st s) eqn:C; [right | left; split; [discriminate|reflexivity] ..].
  split; [reflexivity|]. cbv zeta.
  match goal with |- context [sock_connect ?c] => pose proof (quiet_sock_connect c) as Q; destruct (sock_connect c) as [oo [[k r]|]] end;
    cbn [fst snd] in *; (split; [|exact Q]); unfold conn_reset, prepare_reset; rewrite C; cbv zeta;
    constructor; sproj; auto; try discriminate; try reflexivity; try (intros; congruence).
Qed.

(* configuration-only changes (user setters, refused connects) *)
Record Cfg (s s1 : state) : Prop := mkCfg {
  cfg_st : st s1 = st s;
  cfg_sendq : sendq s1 = sendq s;
  cfg_nd : neg_done s1 = neg_done s;
  cfg_gh : gh s1 = gh s;
  cfg_handlers : handlers s1 = handlers s;
  cfg_idhandlers : idhandlers s1 = idhandlers s;
  cfg_timed : timed s1 = timed s;
  cfg_sasl : sasl s1 = sasl s;
  cfg_tls_support : tls_support s1 = tls_support s;
  cfg_secured : secured s1 = secured s;
  cfg_tls_present : tls_present s1 = tls_present s;
  cfg_bind_required : bind_required s1 = bind_required s;
  cfg_session_required : session_required s1 = session_required s;
  cfg_comp_supported : comp_supported s1 = comp_supported s;
  cfg_sm_support : sm_support s1 = sm_support s;
  cfg_sm_bind_saved : sm_bind_saved s1 = sm_bind_saved s;
  cfg_sm_enabled : sm_enabled s1 = sm_enabled s;
  cfg_oh : oh s1 = oh s;
  cfg_smq : smq s1 = smq s;
  cfg_reset_parser : reset_parser s1 = reset_parser s
}.
Lemma Cfg_refl : forall s, Cfg s s.
Proof. intros; constructor; auto. Qed.
Lemma Cfg_set_flags : forall w s, Cfg s (fst (set_flags w s)).
Proof. intros; name_result; unfold set_flags; cases; leaf; constructor; auto. Qed.

Lemma Fresh_Cfg : forall s s' s1, Cfg s s' -> Fresh s' s1 -> Fresh s s1.
Proof. intros s s' s1 [] []. constructor; auto. intros D. rewrite fre_gh'0; auto. Qed.

Lemma Cfg_trans : forall a b c, Cfg a b -> Cfg b c -> Cfg a c.
Proof. intros a b c [] []. constructor; congruence. Qed.
Lemma conn_connect_cases' : forall n t s s',
  Cfg s s' ->
  (Cfg s (fst (fst (conn_connect n t s'))) /\ snd (fst (conn_connect n t s')) = []) \/
  (Fresh s (fst (fst (conn_connect n t s'))) /\ forallb quiet (snd (fst (conn_connect n t s'))) = true).
Proof.
  intros n t s s' C. destruct (conn_connect_cases n t s') as [(A & ->)|(A & F & Q)]; [left | right].
  - split; [exact C | reflexivity].
  - split; [exact (Fresh_Cfg _ _ _ C F) | exact Q].
Qed.
Lemma connect_client_cases : forall n s,
  (Cfg s (fst (fst (connect_client n s))) /\ snd (fst (connect_client n s)) = []) \/
  (Fresh s (fst (fst (connect_client n s))) /\ forallb quiet (snd (fst (connect_client n s))) = true).
Proof.
  intros n s. unfold connect_client. cbv zeta.
  destruct (negb (jid_set s) && cert_set s);
    match goal with |- context [if ?c then _ else _] => destruct c end;
    try (left; split; [constructor; reflexivity | reflexivity]);
    apply conn_connect_cases'; constructor; reflexivity.
Qed.
Lemma connect_component_cases : forall n s,
  (Cfg s (fst (fst (connect_component n s))) /\ snd (fst (connect_component n s)) = []) \/
  (Fresh s (fst (fst (connect_component n s))) /\ forallb quiet (snd (fst (connect_component n s))) = true).
Proof.
  intros n s. unfold connect_component.
  destruct (negb (jid_set s && pass_set s)); [left; split; [apply Cfg_refl | reflexivity]|].
  cbv zeta.
  match goal with |- context [set_flags ?w s] => pose proof (Cfg_set_flags w s) as C; destruct (set_flags w s) as [s1 rc] end.
  cbn [fst] in C.
  destruct (negb (f_tls_disabled s1)); [left; split; [exact C | reflexivity]|].
  apply conn_connect_cases'. apply (Cfg_trans _ _ _ C). constructor; reflexivity.
Qed.
Definition IU (s : state) : Prop := (neg_done s = true -> up (gh s) = true) /\ U1 s /\ U2 s.

Lemma UQ_start : forall s, IU s -> UQ (up (gh s)) (gh s) s [].
Proof. intros s (A & B & C). constructor; auto. intros N. rewrite (A N). reflexivity. Qed.
Lemma UQ_same : forall b g s o s', UQ b g s o -> neg_done s' = neg_done s -> gh s' = gh s -> U1 s' -> U2 s' -> UQ b g s' o.
Proof.
  intros b g s o s' [] A B C D. constructor; auto; try congruence.
  intros N. apply uq_nd0. congruence.
Qed.
Lemma UQ_quiet : forall b g s o o', UQ b g s o -> forallb quiet o' = true -> UQ b g s (o ++ o').
Proof.
  intros b g s o o' Q H. apply (UQ_Tr _ _ _ _ _ _ Q (Tr_quiet _ _ _ o' (Tr_refl s) H)); destruct Q; auto.
Qed.
Lemma UQ_end : forall s s1 outs, UQ (up (gh s)) (gh s) s1 outs -> IU (note_outs outs s1).
Proof.
  intros s s1 outs []. unfold IU, note_outs. split; [|split].
  - sproj. intros N. rewrite up_note_outs.
    assert (E : up (gh s1) = up (gh s)) by (unfold up; congruence). rewrite E. auto.
  - destruct s1; exact uq_u3.
  - destruct s1; exact uq_u4.
Qed.

Lemma nd_h_add : forall k s, neg_done (h_add k s) = neg_done s. Proof. intros; unfold h_add; cases; reflexivity. Qed.
Lemma nd_timed_add : forall k n s, neg_done (timed_add k n s) = neg_done s. Proof. intros; unfold timed_add; cases; reflexivity. Qed.
Lemma gh_h_add : forall k s, gh (h_add k s) = gh s. Proof. intros; unfold h_add; cases; reflexivity. Qed.
Lemma gh_timed_add : forall k n s, gh (timed_add k n s) = gh s. Proof. intros; unfold timed_add; cases; reflexivity. Qed.
Lemma nd_id_add : forall k s, neg_done (id_add k s) = neg_done s. Proof. intros; unfold id_add; cases; reflexivity. Qed.
Lemma gh_id_add : forall k s, gh (id_add k s) = gh s. Proof. intros; unfold id_add; cases; reflexivity. Qed.

Lemma user_connect : forall s s1 o (rc : Z), IU s ->
  (Cfg s s1 /\ o = [] \/ Fresh s s1 /\ forallb quiet o = true) ->
  scan_user (up (gh s)) (o ++ [ORet rc]) = true /\ IU (note_outs (o ++ [ORet rc]) s1).
Proof.
  intros s s1 o rc I [(C & ->)|(F & Q)].
  - split; [reflexivity|]. apply (UQ_end s). apply UQ_quiet; [|reflexivity].
    pose proof (UQ_start s I) as Q0. destruct I as (I0 & I1 & I2). destruct C.
    eapply UQ_same; [exact Q0 | auto | auto | | ].
    + intros A B. rewrite cfg_sendq0. apply I1; congruence.
    + intros A. rewrite cfg_sendq0. apply I2; congruence.
  - assert (Q' : forallb quiet (o ++ [ORet rc]) = true) by (rewrite forallb_app, Q; reflexivity).
    destruct (scan_user_quiet _ (up (gh s)) Q') as (A & B & _). split; [exact A|].
    destruct F. unfold IU, note_outs. split; [|split].
    + sproj. congruence.
    + intros C1 _. revert C1. sproj. intros C1. destruct fre_st0; congruence.
    + intros _. sproj. exact fre_sendq0.
Qed.

Lemma user_step0 : forall s op, IU s ->
  scan_user (up (gh s)) (snd (step0 s op)) = true /\ IU (note_outs (snd (step0 s op)) (fst (step0 s op))).
Proof.
  intros s op I. pose proof (UQ_start s I) as Q0. destruct I as (I0 & I1 & I2).
  assert (Fin : forall s1 outs, UQ (up (gh s)) (gh s) s1 outs ->
                scan_user (up (gh s)) outs = true /\ IU (note_outs outs s1)).
  { intros s1 outs Q. split; [apply Q | apply (UQ_end s); exact Q]. }
  unfold step0. destruct (crashed s); [apply Fin; exact Q0|].
  destruct op.
  - (* OpSetFlags *) name_result. unfold set_flags. cases; leaf; apply Fin;
      (apply (UQ_quiet _ _ _ [] [_]); [|reflexivity]); auto;
      (eapply UQ_same; [exact Q0 | reflexivity | reflexivity | eauto 20 with u1db | eauto 20 with u2db]).
  - cases; unfold ret; cbn [fst snd]; apply Fin; auto; (eapply UQ_same; [exact Q0 | reflexivity | reflexivity | eauto 20 with u1db | eauto 20 with u2db]).
  - cases; unfold ret; cbn [fst snd]; apply Fin; auto; (eapply UQ_same; [exact Q0 | reflexivity | reflexivity | eauto 20 with u1db | eauto 20 with u2db]).
  - cases; unfold ret; cbn [fst snd]; apply Fin; auto; (eapply UQ_same; [exact Q0 | reflexivity | reflexivity | eauto 20 with u1db | eauto 20 with u2db]).
  - (* OpUserHandlers *)
    cases; unfold ret; cbn [fst snd]; apply Fin; auto;
      (eapply UQ_same; [exact Q0 | sproj; rewrite ?nd_timed_add, ?nd_id_add, ?nd_h_add; reflexivity
                        | sproj; rewrite ?gh_timed_add, ?gh_id_add, ?gh_h_add; reflexivity | eauto 20 with u1db | eauto 20 with u2db]).
  - cases; unfold ret; cbn [fst snd]; apply Fin; auto; (eapply UQ_same; [exact Q0 | reflexivity | reflexivity | eauto 20 with u1db | eauto 20 with u2db]).
  - unfold ret; cbn [fst snd]; apply Fin; (eapply UQ_same; [exact Q0 | reflexivity | reflexivity | eauto 20 with u1db | eauto 20 with u2db]).
  - (* OpConnectClient *)
    pose proof (connect_client_cases now s) as K. destruct (connect_client now s) as [[s1 o] rc]. cbn [fst snd] in *.
    apply user_connect; [repeat split; auto | exact K].
  - (* OpConnectRaw *)
    destruct (st s) eqn:C.
    + pose proof (connect_client_cases now (set_is_raw true s)) as K.
      destruct (connect_client now (set_is_raw true s)) as [[s1 o] rc]. cbn [fst snd] in *.
      apply user_connect; [repeat split; auto | ].
      assert (C0 : Cfg s (set_is_raw true s)) by (constructor; reflexivity).
      destruct K as [(K1 & K2)|(K1 & K2)]; [left; split; [exact (Cfg_trans _ _ _ C0 K1) | exact K2]
                                           | right; split; [exact (Fresh_Cfg _ _ _ C0 K1) | exact K2]].
    + cbn [fst snd]. apply Fin. apply (UQ_quiet _ _ _ [] [_]); auto.
    + cbn [fst snd]. apply Fin. apply (UQ_quiet _ _ _ [] [_]); auto.
  - (* OpConnectComponent *)
    pose proof (connect_component_cases now s) as K. destruct (connect_component now s) as [[s1 o] rc]. cbn [fst snd] in *.
    apply user_connect; [repeat split; auto | exact K].
  - (* OpRun *) apply Fin. apply user_run_once; auto.
  - (* OpDisconnect *) unfold ret; cbn [fst snd]. apply Fin.
    apply (UQ_Tr _ _ _ [] _ [] Q0); eauto with trdb u1db u2db. apply Tr_xmpp_disconnect, Tr_refl.
  - (* OpSend *) unfold ret; cbn [fst snd]. apply Fin.
    apply (UQ_Tr _ _ _ [] _ [] Q0); eauto with trdb u1db u2db. apply Tr_send_gated, Tr_refl.
  - (* OpSendRaw *) unfold ret; cbn [fst snd]. apply Fin.
    apply (UQ_Tr _ _ _ [] _ [] Q0); eauto with trdb u1db u2db. apply Tr_send_raw_m, Tr_refl.
  - (* OpIs *) cbn [fst snd]. apply Fin. apply (UQ_quiet _ _ _ [] [_]); auto.
  - (* OpOpenStream *) cases; unfold ret; cbn [fst snd]; apply Fin; auto.
    apply (UQ_Tr _ _ _ [] _ [] Q0); eauto 10 with trdb u1db u2db. apply Tr_conn_open_stream, Tr_prepare_reset, Tr_refl.
  - (* OpRelease *) cases; unfold ret; cbn [fst snd]; try (apply Fin; exact Q0).
    all: apply Fin; apply (UQ_Tr _ _ _ [] _ _ Q0 (Tr_conn_disconnect _ _ _ (Tr_refl s))); auto with u1db u2db.
Qed.

Theorem user_ok : forall ops, check_run ok_user init_state ops = true.
Proof.
  intros ops. apply (check_run_inv ok_user IU).
  - intros s o I. rewrite step_eq. cbn [fst]. apply (user_step0 s o I).
  - intros s o I. rewrite step_eq. cbn [fst snd]. unfold ok_user. apply (user_step0 s o I).
  - unfold IU, U1, U2. cbn. repeat split; intros; discriminate.
Qed.

(* ================================================================== XO: requests answer offers; header / bind contents *)
Definition needs_offer (w : welem) : bool :=
  match w with WStartTls | WAuth _ | WCompress | WBind _ | WSession | WEnable _ | WResume => true | _ => false end.
Definition plain_w (w : welem) : bool :=
  match w with WHeader _ | WStartTls | WAuth _ | WCompress | WBind _ | WSession | WEnable _ | WResume => false | _ => true end.
Definition jg (g : ghost) (w : welem) : bool :=
  match w with
  | WStartTls => g_offer_tls g | WAuth m => mem_mech m (g_offered g) | WCompress => g_offer_zlib g
  | WBind _ => g_offer_bind g | WSession => g_offer_session g | WEnable _ | WResume => g_offer_sm g
  | _ => true
  end.
Definition hdr_w (tp : bool) (w : welem) : bool := match w with WHeader true => tp | _ => true end.
Definition bnd_w (r0 : bool) (w : welem) : bool := match w with WBind r => Bool.eqb r r0 | _ => true end.
Definition qall (f : welem -> bool) (q : list (welem * bool * bool)) : bool := forallb (fun x => f (fst (fst x))) q.
Definition qown (q : list (welem * bool * bool)) : bool := forallb (fun x => snd x || plain_w (fst (fst x))) q.
Definition smq_plain (q : list (welem * bool * bool * Z)) : bool := forallb (fun x => plain_w (fst (fst (fst x)))) q.
Definition XO (g : ghost) (s : state) : Prop :=
  (forall m, mem_mech m (sasl s) = true -> mem_mech m (g_offered g) = true) /\
  (tls_support s = true -> g_offer_tls g = true) /\
  (comp_supported s = true -> g_offer_zlib g = true) /\
  (bind_required s = true -> g_offer_bind g = true) /\
  (sm_bind_saved s = true -> g_offer_bind g = true) /\
  (session_required s = true -> g_offer_session g = true) /\
  (sm_support s = true -> g_offer_sm g = true) /\
  qall (jg g) (sendq s) = true /\ qown (sendq s) = true /\ smq_plain (smq s) = true /\
  (st s = Connected -> qall (hdr_w (tls_present s)) (sendq s) = true) /\
  (st s <> Disconnected -> qall (bnd_w (jid_res s)) (sendq s) = true) /\
  (st s <> Disconnected -> jid_set s = true).
Ltac xo_split := refine (conj _ (conj _ (conj _ (conj _ (conj _ (conj _ (conj _ (conj _ (conj _ (conj _ (conj _ (conj _ _)))))))))))).
Ltac xo_dest H := destruct H as (X1 & X2 & X3 & X4 & X5 & X6 & X7 & X8 & X9 & X10 & X11 & X12 & X13).

Lemma jg_mono : forall g g' w, GFr g g' -> jg g w = true -> jg g' w = true.
Proof. intros g g' w F. destruct w; cbn; auto; apply F. Qed.
Lemma qall_mono : forall (f f' : welem -> bool) q, (forall w, f w = true -> f' w = true) -> qall f q = true -> qall f' q = true.
Proof.
  intros f f' q H. unfold qall. induction q as [|x q IH]; cbn; auto. intros A. apply andb_prop in A. destruct A as [A B].
  rewrite (H _ A), (IH B). reflexivity.
Qed.
Lemma XO_mono : forall g g' s, GFr g g' -> XO g s -> XO g' s.
Proof.
  intros g g' s F H. xo_dest H. xo_split; auto; try (intros; apply F; auto).
  eapply qall_mono; [|exact X8]. intros w. apply jg_mono. exact F.
Qed.
Lemma qall_app : forall f a b, qall f (a ++ b) = qall f a && qall f b.
Proof. intros; unfold qall; apply forallb_app. Qed.
Lemma XO_set_f_tls_disabled : forall g v s, XO g s -> XO g (set_f_tls_disabled v s).
Proof. intros g v []; exact (fun h => h). Qed.
#[export] Hint Resolve XO_set_f_tls_disabled : xodb.
Lemma XO_set_f_tls_mandatory : forall g v s, XO g s -> XO g (set_f_tls_mandatory v s).
Proof. intros g v []; exact (fun h => h). Qed.
#[export] Hint Resolve XO_set_f_tls_mandatory : xodb.
Lemma XO_set_f_legacy_ssl : forall g v s, XO g s -> XO g (set_f_legacy_ssl v s).
Proof. intros g v []; exact (fun h => h). Qed.
#[export] Hint Resolve XO_set_f_legacy_ssl : xodb.
Lemma XO_set_f_tls_trust : forall g v s, XO g s -> XO g (set_f_tls_trust v s).
Proof. intros g v []; exact (fun h => h). Qed.
#[export] Hint Resolve XO_set_f_tls_trust : xodb.
Lemma XO_set_f_legacy_auth : forall g v s, XO g s -> XO g (set_f_legacy_auth v s).
Proof. intros g v []; exact (fun h => h). Qed.
#[export] Hint Resolve XO_set_f_legacy_auth : xodb.
Lemma XO_set_f_sm_disable : forall g v s, XO g s -> XO g (set_f_sm_disable v s).
Proof. intros g v []; exact (fun h => h). Qed.
#[export] Hint Resolve XO_set_f_sm_disable : xodb.
Lemma XO_set_f_comp_allowed : forall g v s, XO g s -> XO g (set_f_comp_allowed v s).
Proof. intros g v []; exact (fun h => h). Qed.
#[export] Hint Resolve XO_set_f_comp_allowed : xodb.
Lemma XO_set_f_comp_dont_reset : forall g v s, XO g s -> XO g (set_f_comp_dont_reset v s).
Proof. intros g v []; exact (fun h => h). Qed.
#[export] Hint Resolve XO_set_f_comp_dont_reset : xodb.
Lemma XO_set_jid_node : forall g v s, XO g s -> XO g (set_jid_node v s).
Proof. intros g v []; exact (fun h => h). Qed.
#[export] Hint Resolve XO_set_jid_node : xodb.
Lemma XO_set_pass_set : forall g v s, XO g s -> XO g (set_pass_set v s).
Proof. intros g v []; exact (fun h => h). Qed.
#[export] Hint Resolve XO_set_pass_set : xodb.
Lemma XO_set_cert_set : forall g v s, XO g s -> XO g (set_cert_set v s).
Proof. intros g v []; exact (fun h => h). Qed.
#[export] Hint Resolve XO_set_cert_set : xodb.
Lemma XO_set_is_raw : forall g v s, XO g s -> XO g (set_is_raw v s).
Proof. intros g v []; exact (fun h => h). Qed.
#[export] Hint Resolve XO_set_is_raw : xodb.
Lemma XO_set_typ : forall g v s, XO g s -> XO g (set_typ v s).
Proof. intros g v []; exact (fun h => h). Qed.
#[export] Hint Resolve XO_set_typ : xodb.
Lemma XO_set_user_handler : forall g v s, XO g s -> XO g (set_user_handler v s).
Proof. intros g v []; exact (fun h => h). Qed.
#[export] Hint Resolve XO_set_user_handler : xodb.
Lemma XO_set_user_timed : forall g v s, XO g s -> XO g (set_user_timed v s).
Proof. intros g v []; exact (fun h => h). Qed.
#[export] Hint Resolve XO_set_user_timed : xodb.
Lemma XO_set_tlsnew_ok : forall g v s, XO g s -> XO g (set_tlsnew_ok v s).
Proof. intros g v []; exact (fun h => h). Qed.
#[export] Hint Resolve XO_set_tlsnew_ok : xodb.
Lemma XO_set_cb_avail : forall g v s, XO g s -> XO g (set_cb_avail v s).
Proof. intros g v []; exact (fun h => h). Qed.
#[export] Hint Resolve XO_set_cb_avail : xodb.
Lemma XO_set_tls_verdicts : forall g v s, XO g s -> XO g (set_tls_verdicts v s).
Proof. intros g v []; exact (fun h => h). Qed.
#[export] Hint Resolve XO_set_tls_verdicts : xodb.
Lemma XO_set_next_cands : forall g v s, XO g s -> XO g (set_next_cands v s).
Proof. intros g v []; exact (fun h => h). Qed.
#[export] Hint Resolve XO_set_next_cands : xodb.
Lemma XO_set_cands : forall g v s, XO g s -> XO g (set_cands v s).
Proof. intros g v []; exact (fun h => h). Qed.
#[export] Hint Resolve XO_set_cands : xodb.
Lemma XO_set_cur_ep : forall g v s, XO g s -> XO g (set_cur_ep v s).
Proof. intros g v []; exact (fun h => h). Qed.
#[export] Hint Resolve XO_set_cur_ep : xodb.
Lemma XO_set_stamp : forall g v s, XO g s -> XO g (set_stamp v s).
Proof. intros g v []; exact (fun h => h). Qed.
#[export] Hint Resolve XO_set_stamp : xodb.
Lemma XO_set_err : forall g v s, XO g s -> XO g (set_err v s).
Proof. intros g v []; exact (fun h => h). Qed.
#[export] Hint Resolve XO_set_err : xodb.
Lemma XO_set_stream_error : forall g v s, XO g s -> XO g (set_stream_error v s).
Proof. intros g v []; exact (fun h => h). Qed.
#[export] Hint Resolve XO_set_stream_error : xodb.
Lemma XO_set_secured : forall g v s, XO g s -> XO g (set_secured v s).
Proof. intros g v []; exact (fun h => h). Qed.
#[export] Hint Resolve XO_set_secured : xodb.
Lemma XO_set_tls_failed : forall g v s, XO g s -> XO g (set_tls_failed v s).
Proof. intros g v []; exact (fun h => h). Qed.
#[export] Hint Resolve XO_set_tls_failed : xodb.
Lemma XO_set_comp_active : forall g v s, XO g s -> XO g (set_comp_active v s).
Proof. intros g v []; exact (fun h => h). Qed.
#[export] Hint Resolve XO_set_comp_active : xodb.
Lemma XO_set_sm_alloc : forall g v s, XO g s -> XO g (set_sm_alloc v s).
Proof. intros g v []; exact (fun h => h). Qed.
#[export] Hint Resolve XO_set_sm_alloc : xodb.
Lemma XO_set_sm_enabled : forall g v s, XO g s -> XO g (set_sm_enabled v s).
Proof. intros g v []; exact (fun h => h). Qed.
#[export] Hint Resolve XO_set_sm_enabled : xodb.
Lemma XO_set_sm_can_resume : forall g v s, XO g s -> XO g (set_sm_can_resume v s).
Proof. intros g v []; exact (fun h => h). Qed.
#[export] Hint Resolve XO_set_sm_can_resume : xodb.
Lemma XO_set_sm_resume : forall g v s, XO g s -> XO g (set_sm_resume v s).
Proof. intros g v []; exact (fun h => h). Qed.
#[export] Hint Resolve XO_set_sm_resume : xodb.
Lemma XO_set_sm_dont_request : forall g v s, XO g s -> XO g (set_sm_dont_request v s).
Proof. intros g v []; exact (fun h => h). Qed.
#[export] Hint Resolve XO_set_sm_dont_request : xodb.
Lemma XO_set_sm_has_previd : forall g v s, XO g s -> XO g (set_sm_has_previd v s).
Proof. intros g v []; exact (fun h => h). Qed.
#[export] Hint Resolve XO_set_sm_has_previd : xodb.
Lemma XO_set_sm_has_id : forall g v s, XO g s -> XO g (set_sm_has_id v s).
Proof. intros g v []; exact (fun h => h). Qed.
#[export] Hint Resolve XO_set_sm_has_id : xodb.
Lemma XO_set_sm_parked : forall g v s, XO g s -> XO g (set_sm_parked v s).
Proof. intros g v []; exact (fun h => h). Qed.
#[export] Hint Resolve XO_set_sm_parked : xodb.
Lemma XO_set_sm_r_sent : forall g v s, XO g s -> XO g (set_sm_r_sent v s).
Proof. intros g v []; exact (fun h => h). Qed.
#[export] Hint Resolve XO_set_sm_r_sent : xodb.
Lemma XO_set_bound_jid : forall g v s, XO g s -> XO g (set_bound_jid v s).
Proof. intros g v []; exact (fun h => h). Qed.
#[export] Hint Resolve XO_set_bound_jid : xodb.
Lemma XO_set_stream_id : forall g v s, XO g s -> XO g (set_stream_id v s).
Proof. intros g v []; exact (fun h => h). Qed.
#[export] Hint Resolve XO_set_stream_id : xodb.
Lemma XO_set_neg_done : forall g v s, XO g s -> XO g (set_neg_done v s).
Proof. intros g v []; exact (fun h => h). Qed.
#[export] Hint Resolve XO_set_neg_done : xodb.
Lemma XO_set_reset_parser : forall g v s, XO g s -> XO g (set_reset_parser v s).
Proof. intros g v []; exact (fun h => h). Qed.
#[export] Hint Resolve XO_set_reset_parser : xodb.
Lemma XO_set_oh : forall g v s, XO g s -> XO g (set_oh v s).
Proof. intros g v []; exact (fun h => h). Qed.
#[export] Hint Resolve XO_set_oh : xodb.
Lemma XO_set_ps : forall g v s, XO g s -> XO g (set_ps v s).
Proof. intros g v []; exact (fun h => h). Qed.
#[export] Hint Resolve XO_set_ps : xodb.
Lemma XO_set_handlers : forall g v s, XO g s -> XO g (set_handlers v s).
Proof. intros g v []; exact (fun h => h). Qed.
#[export] Hint Resolve XO_set_handlers : xodb.
Lemma XO_set_idhandlers : forall g v s, XO g s -> XO g (set_idhandlers v s).
Proof. intros g v []; exact (fun h => h). Qed.
#[export] Hint Resolve XO_set_idhandlers : xodb.
Lemma XO_set_timed : forall g v s, XO g s -> XO g (set_timed v s).
Proof. intros g v []; exact (fun h => h). Qed.
#[export] Hint Resolve XO_set_timed : xodb.
Lemma XO_set_rxq : forall g v s, XO g s -> XO g (set_rxq v s).
Proof. intros g v []; exact (fun h => h). Qed.
#[export] Hint Resolve XO_set_rxq : xodb.
Lemma XO_set_sm_sent : forall g v s, XO g s -> XO g (set_sm_sent v s).
Proof. intros g v []; exact (fun h => h). Qed.
#[export] Hint Resolve XO_set_sm_sent : xodb.
Lemma XO_set_scram_serial : forall g v s, XO g s -> XO g (set_scram_serial v s).
Proof. intros g v []; exact (fun h => h). Qed.
#[export] Hint Resolve XO_set_scram_serial : xodb.
Lemma XO_set_crashed : forall g v s, XO g s -> XO g (set_crashed v s).
Proof. intros g v []; exact (fun h => h). Qed.
#[export] Hint Resolve XO_set_crashed : xodb.
Lemma XO_set_gh : forall g v s, XO g s -> XO g (set_gh v s).
Proof. intros g v []; exact (fun h => h). Qed.
#[export] Hint Resolve XO_set_gh : xodb.
Lemma XO_upg : forall g f s, XO g s -> XO g (upg f s).
Proof. intros g f []; exact (fun h => h). Qed.
#[export] Hint Resolve XO_upg : xodb.

(* what may be appended to the send queue *)
Definition okw (g : ghost) (s : state) (w : welem) (u sm : bool) : Prop :=
  jg g w = true /\ (sm = true \/ plain_w w = true \/ (u = false /\ sm_enabled s = false)) /\
  hdr_w (tls_present s) w = true /\ bnd_w (jid_res s) w = true.
Lemma XO_q_append : forall g w u sm s, okw g s w u sm -> XO g s -> XO g (q_append w u sm s).
Proof.
  intros g w u sm s (J & O & Hd & Bd) H. xo_dest H.
  assert (Own : (sm || negb u && negb (sm_enabled s)) || plain_w w = true).
  { destruct O as [O|[O|[O1 O2]]]; [rewrite O; reflexivity | rewrite O; apply orb_true_r | rewrite O1, O2; cbn [negb andb]; rewrite orb_true_r; reflexivity]. }
  unfold q_append. cbv zeta.
  match goal with |- context [if ?c then _ else _] => destruct c end; xo_split; sproj; auto;
    rewrite ?qall_app; unfold qown; rewrite ?forallb_app; fold (qown (sendq s));
    cbn [qall forallb fst snd plain_w jg hdr_w bnd_w orb andb];
    try (intros C; rewrite ?(X11 C), ?(X12 C)); rewrite ?X8, ?X9, ?J, ?Own, ?Hd, ?Bd; reflexivity.
Qed.
Lemma XO_send_gated : forall g w u sm s, okw g s w u sm -> XO g s -> XO g (send_gated w u sm s).
Proof. intros; unfold send_gated; cases; auto using XO_q_append. Qed.
Lemma XO_send_raw_m : forall g w u sm s, okw g s w u sm -> XO g s -> XO g (send_raw_m w u sm s).
Proof. intros; unfold send_raw_m; cases; auto using XO_q_append. Qed.
(* elements that need neither an offer nor special content, owned by stream management or plain *)
Lemma okw_free : forall g s w u sm, needs_offer w = false -> (sm = true \/ plain_w w = true) ->
  hdr_w (tls_present s) w = true -> bnd_w (jid_res s) w = true -> okw g s w u sm.
Proof.
  intros g s w u sm N O Hd Bd. refine (conj _ (conj _ (conj Hd Bd))).
  - destruct w; try discriminate; reflexivity.
  - destruct O; auto.
Qed.
#[export] Hint Extern 1 (XO _ (send_gated _ _ _ _)) =>
  (apply XO_send_gated; [apply okw_free; [reflexivity | first [left; reflexivity | right; reflexivity] | reflexivity | reflexivity] | ]) : xodb.
#[export] Hint Extern 1 (XO _ (send_raw_m _ _ _ _)) =>
  (apply XO_send_raw_m; [apply okw_free; [reflexivity | first [left; reflexivity | right; reflexivity] | reflexivity | reflexivity] | ]) : xodb.

Lemma XO_set_sasl : forall g l s, (forall m, mem_mech m l = true -> mem_mech m (g_offered g) = true) -> XO g s -> XO g (set_sasl l s).
Proof. intros g l s L H. xo_dest H. xo_split; auto. Qed.
Lemma mem_mech_del : forall m m' l, mem_mech m (del_mech m' l) = true -> mem_mech m l = true.
Proof.
  intros m m' l. unfold mem_mech, del_mech. induction l as [|x l IH]; cbn; auto.
  destruct (negb (mech_eqb m' x)); cbn; intros H; [apply orb_prop in H; destruct H as [H|H]; [rewrite H; reflexivity | rewrite (IH H); apply orb_true_r] | rewrite (IH H); apply orb_true_r].
Qed.
Lemma XO_set_tls_support_false : forall g s, XO g s -> XO g (set_tls_support false s).
Proof. intros g s H. xo_dest H. xo_split; auto. intros; discriminate. Qed.
Lemma XO_set_sm_support_false : forall g s, XO g s -> XO g (set_sm_support false s).
Proof. intros g s H. xo_dest H. xo_split; auto. intros; discriminate. Qed.
Lemma XO_set_sm_bind_saved_false : forall g s, XO g s -> XO g (set_sm_bind_saved false s).
Proof. intros g s H. xo_dest H. xo_split; auto. intros; discriminate. Qed.
Lemma XO_set_sendq_nil : forall g s, XO g s -> XO g (set_sendq [] s).
Proof. intros g s H. xo_dest H. xo_split; auto. Qed.
Lemma XO_set_st_disc : forall g s, XO g s -> XO g (set_st Disconnected s).
Proof. intros g s H. xo_dest H. xo_split; auto; sproj; intros; congruence. Qed.
Lemma XO_set_tls_present_true : forall g s, XO g s -> XO g (set_tls_present true s).
Proof.
  intros g s H. xo_dest H. xo_split; auto. intros _. sproj. unfold qall. apply forallb_forall. intros x _. destruct (fst (fst x)); try reflexivity. destruct from; reflexivity.
Qed.
Lemma XO_set_tls_present_false : forall g s, st s <> Connected \/ tls_present s = false -> XO g s -> XO g (set_tls_present false s).
Proof.
  intros g s C H. xo_dest H. xo_split; auto. intros D. destruct C as [C|C]; [exfalso; apply C; exact D|]. sproj. rewrite <- C. exact (X11 D).
Qed.
#[export] Hint Resolve XO_set_tls_support_false XO_set_sm_support_false XO_set_sm_bind_saved_false XO_set_sendq_nil XO_set_st_disc XO_set_tls_present_true : xodb.
Lemma smq_plain_drop : forall h q, smq_plain q = true -> smq_plain (drop_below h q) = true.
Proof. intros h q. induction q as [|x q IH]; cbn; auto. intros A. destruct (snd x <? h); auto. apply andb_prop in A. apply IH, A. Qed.
Lemma XO_sm_queue_cleanup : forall g h s, XO g s -> XO g (sm_queue_cleanup h s).
Proof. intros g h s H. xo_dest H. unfold sm_queue_cleanup. xo_split; auto. sproj. apply smq_plain_drop, X10. Qed.
Lemma XO_sm_queue_resend : forall g s, XO g s -> XO g (sm_queue_resend s).
Proof.
  intros g s H. unfold sm_queue_resend.
  assert (P : smq_plain (smq s) = true) by (xo_dest H; exact X10).
  assert (H0 : XO g (set_smq [] s)) by (xo_dest H; xo_split; auto).
  revert H0. generalize (set_smq [] s). induction (smq s) as [|x q IH]; intros a Ha; cbn [fold_left]; auto.
  cbn [smq_plain forallb] in P. apply andb_prop in P. destruct P as [P1 P2]. apply IH; auto.
  apply XO_send_raw_m; auto. destruct (fst (fst (fst x))); try discriminate; (refine (conj _ (conj _ (conj _ _))); [reflexivity | right; left; reflexivity | reflexivity | reflexivity]).
Qed.
#[export] Hint Resolve XO_sm_queue_cleanup XO_sm_queue_resend : xodb.
Lemma XO_reset_sm_for_reconnect : forall g s, XO g s -> XO g (reset_sm_for_reconnect s).
Proof. intros g s H. unfold reset_sm_for_reconnect. cases; eauto 20 with xodb. Qed.
#[export] Hint Resolve XO_reset_sm_for_reconnect : xodb.
Lemma XO_conn_disconnect : forall g s, XO g s -> XO g (fst (conn_disconnect s)).
Proof.
  intros g s H. name_result. unfold conn_disconnect, ret. cases; leaf; eauto 20 with xodb;
    repeat first [apply XO_upg | apply XO_reset_sm_for_reconnect]; (apply XO_set_tls_present_false; [left; sproj; discriminate | eauto 10 with xodb]).
Qed.
#[export] Hint Resolve XO_conn_disconnect : xodb.
Lemma XO_timed_add : forall g k n s, XO g s -> XO g (timed_add k n s).
Proof. intros; unfold timed_add, ret; cases; leaf; eauto 30 with xodb. Qed.
#[export] Hint Resolve XO_timed_add : xodb.
Lemma XO_timed_del : forall g k s, XO g s -> XO g (timed_del k s).
Proof. intros; unfold timed_del, ret; cases; leaf; eauto 30 with xodb. Qed.
#[export] Hint Resolve XO_timed_del : xodb.
Lemma XO_timed_reset_all : forall g n s, XO g s -> XO g (timed_reset_all n s).
Proof. intros; unfold timed_reset_all, ret; cases; leaf; eauto 30 with xodb. Qed.
#[export] Hint Resolve XO_timed_reset_all : xodb.
Lemma XO_timed_set_stamp : forall g k n s, XO g s -> XO g (timed_set_stamp k n s).
Proof. intros; unfold timed_set_stamp, ret; cases; leaf; eauto 30 with xodb. Qed.
#[export] Hint Resolve XO_timed_set_stamp : xodb.
Lemma XO_h_add : forall g k s, XO g s -> XO g (h_add k s).
Proof. intros; unfold h_add, ret; cases; leaf; eauto 30 with xodb. Qed.
#[export] Hint Resolve XO_h_add : xodb.
Lemma XO_h_del : forall g k s, XO g s -> XO g (h_del k s).
Proof. intros; unfold h_del, ret; cases; leaf; eauto 30 with xodb. Qed.
#[export] Hint Resolve XO_h_del : xodb.
Lemma XO_id_add : forall g k s, XO g s -> XO g (id_add k s).
Proof. intros; unfold id_add, ret; cases; leaf; eauto 30 with xodb. Qed.
#[export] Hint Resolve XO_id_add : xodb.
Lemma XO_id_del : forall g k s, XO g s -> XO g (id_del k s).
Proof. intros; unfold id_del, ret; cases; leaf; eauto 30 with xodb. Qed.
#[export] Hint Resolve XO_id_del : xodb.
Lemma XO_xmpp_disconnect : forall g n s, XO g s -> XO g (xmpp_disconnect n s).
Proof. intros; unfold xmpp_disconnect, ret; cases; leaf; eauto 30 with xodb. Qed.
#[export] Hint Resolve XO_xmpp_disconnect : xodb.
Lemma XO_prepare_reset : forall g h s, XO g s -> XO g (prepare_reset h s).
Proof. intros; unfold prepare_reset, ret; cases; leaf; eauto 30 with xodb. Qed.
#[export] Hint Resolve XO_prepare_reset : xodb.
Lemma XO_stream_negotiation_success : forall g s, XO g s -> XO g (fst (stream_negotiation_success s)).
Proof. intros; name_result; unfold stream_negotiation_success, ret; cases; leaf; eauto 30 with xodb. Qed.
#[export] Hint Resolve XO_stream_negotiation_success : xodb.
Lemma XO_auth_legacy : forall g n s, XO g s -> XO g (auth_legacy n s).
Proof. intros; unfold auth_legacy, ret; cases; leaf; eauto 30 with xodb. Qed.
#[export] Hint Resolve XO_auth_legacy : xodb.
Lemma XO_note_rx : forall g e s, XO g s -> XO g (note_rx e s).
Proof. intros; unfold note_rx; cbv zeta; eauto with xodb. Qed.
#[export] Hint Resolve XO_note_rx : xodb.
Lemma XO_sm_handle : forall g e s, XO g s -> XO g (sm_handle e s).
Proof. intros; unfold sm_handle, ret; cases; leaf; eauto 30 with xodb. Qed.
#[export] Hint Resolve XO_sm_handle : xodb.
Lemma XO_connect_next : forall g n s, XO g s -> XO g (fst (fst (connect_next n s))).
Proof. intros; name_result; unfold connect_next; destruct (sock_connect (cands s)) as [oo [[k r]|]]; leaf; eauto 20 with xodb. Qed.
#[export] Hint Resolve XO_connect_next : xodb.
Ltac smoff :=
  match goal with
  | H : sm_enabled ?s = false |- sm_enabled ?x = false =>
      let E := fresh in assert (E : Sn s x) by eauto 20 with sndb;
      let Q := fresh in destruct (sm_enabled x) eqn:Q; auto; rewrite (E Q) in H; discriminate
  end.
Lemma XO_conn_open_stream : forall g s, XO g s -> XO g (conn_open_stream s).
Proof.
  intros g s H. unfold conn_open_stream. apply XO_send_gated; auto.
  refine (conj _ (conj _ (conj _ _))); [reflexivity | left; reflexivity | | reflexivity].
  destruct (tls_present s), (jid_node s); reflexivity.
Qed.
#[export] Hint Resolve XO_conn_open_stream : xodb.
Lemma XO_conn_tls_start : forall g s, st s <> Connected \/ tls_present s = false -> XO g s -> XO g (fst (fst (conn_tls_start s))).
Proof.
  intros g s C H. name_result. unfold conn_tls_start. cases; leaf; eauto 20 with xodb.
  apply XO_set_tls_present_false; [exact C | eauto 20 with xodb].
Qed.
Lemma XO_do_bind : forall g n b s, g_offer_bind g = true -> sm_enabled s = false -> XO g s -> XO g (fst (do_bind n b s)).
Proof.
  intros g n b s O S H. name_result. unfold do_bind, ret. cases; leaf; eauto 20 with xodb.
  apply XO_send_gated; [ | eauto 20 with xodb].
  refine (conj O (conj _ (conj eq_refl _))); [right; right; split; [reflexivity | smoff] | apply eqb_reflx].
Qed.
Lemma XO_session_start : forall g n s, g_offer_session g = true -> sm_enabled s = false -> XO g s -> XO g (session_start n s).
Proof.
  intros g n s O S H. unfold session_start. apply XO_send_gated; [ | eauto 20 with xodb].
  refine (conj O (conj _ (conj eq_refl eq_refl))). right; right; split; [reflexivity | smoff].
Qed.
Lemma XO_sm_enable : forall g s, g_offer_sm g = true -> XO g s -> XO g (sm_enable s).
Proof.
  intros g s O H. unfold sm_enable. cbv zeta. apply XO_set_sm_enabled, XO_set_sm_sent. apply XO_send_gated; [ | eauto 20 with xodb].
  refine (conj O (conj _ (conj eq_refl eq_refl))). left; reflexivity.
Qed.
Lemma first_scram_mem : forall k i l n, first_scram i k l = Some n -> mem_mech (MScram n) l = true.
Proof. induction k; intros i l n; cbn; [discriminate|]. destruct (mem_mech (MScram i) l) eqn:E; [intros Q; inversion Q; subst; exact E | apply IHk]. Qed.
Lemma XO_auth : forall g fuel n s, sm_enabled s = false -> XO g s -> XO g (fst (auth fuel n s)).
Proof.
  intros g. induction fuel; intros n s S H; name_result; cbn [auth]; unfold ret; cases; leaf; eauto 20 with xodb.
  all: try (apply IHfuel; [exact S | eauto 20 with xodb]).
  all: pose proof H as H'; xo_dest H'.
  all: try (apply XO_set_tls_support_false).
  all: try (apply XO_set_scram_serial).
  all: try (apply XO_set_sasl; [intros m' Hm'; apply X1; eapply mem_mech_del; exact Hm' | ]).
  all: apply XO_send_gated; [ | eauto 20 with xodb];
    (refine (conj _ (conj _ (conj eq_refl eq_refl))); [cbn [jg]; auto | right; right; split; [reflexivity | smoff]]).
  all: apply X1; first [ assumption | eapply first_scram_mem; eassumption
                       | match goal with Hq : _ && _ = true |- _ => apply andb_prop in Hq; apply Hq end ].
Qed.

(* what a dispatched <stream:features/> told the observer *)
Definition Rxg (e : elem) (g : ghost) : Prop :=
  (e_starttls e = true -> g_offer_tls g = true) /\
  (forall m, mem_mech m (e_mechs e) = true -> mem_mech m (g_offered g) = true) /\
  (e_zlib e = true -> g_offer_zlib g = true) /\ (e_bind e = true -> g_offer_bind g = true) /\
  (e_session e = true -> g_offer_session g = true) /\ (e_sm e = true -> g_offer_sm g = true).
Definition is_feat (k : hkind) : bool := match k with HFeatures | HFeaturesSasl | HFeaturesCompress => true | _ => false end.
Lemma Rxg_mono : forall e g g', GFr g g' -> Rxg e g -> Rxg e g'.
Proof. intros e g g' F (A & B & C & D & E & G). repeat split; intros; apply F; auto. Qed.
Lemma Rxg_offers : forall e g, Rxg e (set_g_offer_tls (g_offer_tls g || e_starttls e) (set_g_offered (g_offered g ++ e_mechs e)
        (set_g_offer_zlib (g_offer_zlib g || e_zlib e) (set_g_offer_bind (g_offer_bind g || e_bind e)
        (set_g_offer_session (g_offer_session g || e_session e) (set_g_offer_sm (g_offer_sm g || e_sm e) g)))))).
Proof.
  intros e g. destruct g. refine (conj _ (conj _ (conj _ (conj _ (conj _ _))))); cbn; try (intros H; rewrite H; apply orb_true_r).
  intros m Hm. unfold mem_mech in *. rewrite existsb_app, Hm. apply orb_true_r.
Qed.
Lemma note_rx_records : forall e s, e_ns e = NsStreams -> e_name e = NmFeatures -> Rxg e (gh (note_rx e s)).
Proof.
  intros e s N M. pose proof (Rxg_offers e (gh s)) as B.
  unfold note_rx. cbv zeta. sproj. rewrite N, M. cbn [ns_eqb ename_eqb andb].
  revert B. match goal with |- Rxg e ?y -> _ => generalize y end. intros g0 B.
  eapply Rxg_mono; [|exact B].
  cases; eauto 10 with frdb.
Qed.
Lemma filter_feat : forall k e, is_feat k = true -> filter_match k e = true -> e_ns e = NsStreams /\ e_name e = NmFeatures.
Proof.
  intros k e K. destruct k; try discriminate; unfold filter_match;
    match goal with |- context [hfilter ?k] => let v := eval vm_compute in (hfilter k) in change (hfilter k) with v end;
    intros H; apply andb_prop in H; destruct H as [A B];
    (split; [destruct (e_ns e); try discriminate; reflexivity | destruct (e_name e); try discriminate; reflexivity]).
Qed.

Lemma XO_sasl_result : forall g n e s, sm_enabled s = false -> XO g s -> XO g (fst (sasl_result n e s)).
Proof.
  intros g n e s S H. name_result. unfold sasl_result, ret. cases; leaf; eauto 20 with xodb. apply XO_auth; assumption.
Qed.
Lemma XO_set_bind_required : forall g b s, (b = true -> g_offer_bind g = true) -> XO g s -> XO g (set_bind_required b s).
Proof. intros g b s B H. xo_dest H. xo_split; auto. Qed.
Lemma XO_set_session_required : forall g b s, (b = true -> g_offer_session g = true) -> XO g s -> XO g (set_session_required b s).
Proof. intros g b s B H. xo_dest H. xo_split; auto. Qed.
Lemma XO_set_sm_support : forall g b s, (b = true -> g_offer_sm g = true) -> XO g s -> XO g (set_sm_support b s).
Proof. intros g b s B H. xo_dest H. xo_split; auto. Qed.
Lemma XO_set_sm_bind_saved : forall g b s, (b = true -> g_offer_bind g = true) -> XO g s -> XO g (set_sm_bind_saved b s).
Proof. intros g b s B H. xo_dest H. xo_split; auto. Qed.
Lemma XO_set_comp_supported : forall g b s, (b = true -> g_offer_zlib g = true) -> XO g s -> XO g (set_comp_supported b s).
Proof. intros g b s B H. xo_dest H. xo_split; auto. Qed.
Lemma XO_set_tls_support : forall g b s, (b = true -> g_offer_tls g = true) -> XO g s -> XO g (set_tls_support b s).
Proof. intros g b s B H. xo_dest H. xo_split; auto. Qed.

#[export] Hint Extern 1 (XO _ (set_bind_required _ _)) => (apply XO_set_bind_required; [intros; auto | ]) : xodb.
#[export] Hint Extern 1 (XO _ (set_session_required _ _)) => (apply XO_set_session_required; [intros; auto | ]) : xodb.
#[export] Hint Extern 1 (XO _ (set_sm_support _ _)) => (apply XO_set_sm_support; [intros; auto | ]) : xodb.
#[export] Hint Extern 1 (XO _ (set_sm_bind_saved _ _)) => (apply XO_set_sm_bind_saved; [intros; auto | ]) : xodb.
#[export] Hint Extern 1 (XO _ (set_comp_supported _ _)) => (apply XO_set_comp_supported; [intros; auto | ]) : xodb.
#[export] Hint Extern 1 (XO _ (set_tls_support _ _)) => (apply XO_set_tls_support; [intros; auto | ]) : xodb.
Lemma XO_features_sasl : forall g n e s, Rxg e g -> sm_enabled s = false -> XO g s -> XO g (fst (features_sasl n e s)).
Proof.
  intros g n e s (R1 & R2 & R3 & R4 & R5 & R6) S H. name_result. unfold features_sasl. cbv zeta.
  match goal with |- context [negb (f_sm_disable ?x)] => set (s3 := x) end.
  assert (H3 : XO g s3).
  { unfold s3. cases; eauto 10 with xodb. }
  assert (S3 : sm_enabled s3 = false) by (unfold s3; cases; smoff).
  clearbody s3. unfold ret. pose proof H3 as H3'. xo_dest H3'.
  cases; leaf.
  - apply XO_h_add. apply XO_send_gated.
    + refine (conj _ (conj _ (conj eq_refl eq_refl))); [cbn [jg]; apply X7 | left; reflexivity].
      match goal with Hq : _ && _ = true |- _ => destruct (sm_support s3); auto; rewrite andb_false_r in Hq; cbn in Hq; discriminate end.
    + eauto 10 with xodb.
  - apply XO_do_bind; auto.
  - apply XO_xmpp_disconnect; exact H3.
Qed.

Lemma mem_add_mech : forall m x l, mem_mech m (add_mech x l) = true -> mem_mech m l = true \/ mech_eqb m x = true.
Proof.
  intros m x l. unfold add_mech. destruct (mem_mech x l); auto. rewrite mem_mech_app. intros H. apply orb_prop in H.
  destruct H as [H|H]; auto. right. cbn in H. rewrite orb_false_r in H. exact H.
Qed.
Lemma mem_fold_add : forall m l acc, mem_mech m (fold_left (fun a x => add_mech x a) l acc) = true ->
  mem_mech m acc = true \/ mem_mech m l = true.
Proof.
  intros m l. induction l as [|x l IH]; intros acc H; cbn in *; auto.
  destruct (IH _ H) as [A|A]; [destruct (mem_add_mech _ _ _ A) as [B|B]; [left; exact B | right; unfold mem_mech; cbn; rewrite B; reflexivity]
                               | right; unfold mem_mech in *; cbn; rewrite A; apply orb_true_r].
Qed.
Lemma mem_filter : forall m f l, mem_mech m (filter f l) = true -> mem_mech m l = true.
Proof.
  intros m f l. unfold mem_mech. induction l as [|x l IH]; cbn; auto. destruct (f x); cbn; intros H;
    [apply orb_prop in H; destruct H as [H|H]; [rewrite H; reflexivity | rewrite (IH H); apply orb_true_r] | rewrite (IH H); apply orb_true_r].
Qed.
Lemma SE_q_off : forall k s, PH s -> is_q k = true -> h_has k s = true -> sm_enabled s = false.
Proof.
  intros k s P Q Hk. destruct (sm_enabled s) eqn:E; auto. destruct (ph_se _ P E) as (A & _). pose proof (qmarks_pos k s Q Hk). lia.
Qed.

Lemma XO_call_handler : forall g k n e s, PH s -> h_has k s = true -> (is_feat k = true -> Rxg e g) -> XO g s ->
  XO g (fst (fst (call_handler k n e s))).
Proof.
  intros g k n e s P Hk Rx H.
  assert (S : is_q k = true -> sm_enabled s = false) by (intros Q; exact (SE_q_off k s P Q Hk)).
  destruct k; cbn [is_q is_feat] in *.
  - cbn. exact H.
  - cbn. eauto with xodb.
  - (* _handle_features *)
    specialize (S eq_refl). destruct (Rx eq_refl) as (R1 & R2 & R3 & R4 & R5 & R6).
    name_result. unfold call_handler. cbv zeta.
    match goal with |- context [auth 1 n ?x] => assert (Hx : XO g x /\ sm_enabled x = false) end.
    { split; [|unfold timed_del; cases; smoff].
      pose proof H as H'. xo_dest H'.
      cases; repeat first [ apply XO_set_sasl; [intros m Hm; try (apply mem_mech_del in Hm);
                              destruct (mem_fold_add _ _ _ Hm) as [Hm1|Hm1]; [apply X1; revert Hm1; unfold timed_del; sproj; auto | apply R2; eapply mem_filter; exact Hm1] | ] ];
        eauto 10 with xodb. }
    destruct Hx as [Hx Sx]. pose proof (XO_auth g 1 n _ Sx Hx) as Q.
    match goal with |- context [auth 1 n ?x] => destruct (auth 1 n x) as [s4 o4] end. leaf. exact Q.
  - (* _handle_proceedtls_default *)
    specialize (S eq_refl).
    assert (T0 : tls_present s = false).
    { destruct (ph_ti _ P) as (_ & I6 & I1). destruct (tls_present s) eqn:E; auto. rewrite (I1 (I6 eq_refl)) in Hk. discriminate. }
    name_result. unfold call_handler. destruct (e_name e); leaf; auto.
    pose proof (XO_conn_tls_start g s (or_intror T0) H) as Q.
    destruct (conn_tls_start s) as [[s1 o1] ok]. cbn [fst] in Q. destruct ok; leaf; cbn [fst]; eauto 10 with xodb.
  - specialize (S eq_refl). name_result. unfold call_handler. pose proof (XO_sasl_result g n e s S H) as Q.
    destruct (sasl_result n e s). leaf. exact Q.
  - specialize (S eq_refl). name_result. unfold call_handler. pose proof (XO_sasl_result g n e s S H) as Q.
    destruct (e_name e); try (destruct (sasl_result n e s); leaf; exact Q). cases; leaf; eauto 10 with xodb.
  - specialize (S eq_refl). name_result. unfold call_handler. pose proof (XO_sasl_result g n e s S H) as Q.
    destruct (e_name e); try (destruct (sasl_result n e s); leaf; exact Q). leaf; eauto 10 with xodb.
  - specialize (S eq_refl). name_result. unfold call_handler. pose proof (XO_sasl_result g n e s S H) as Q.
    destruct (e_name e); try (destruct (sasl_result n e s); leaf; exact Q). cases; leaf; eauto 10 with xodb.
  - specialize (S eq_refl). name_result. unfold call_handler. pose proof (XO_features_sasl g n e s (Rx eq_refl) S H) as Q.
    destruct (features_sasl n e s). leaf. exact Q.
  - (* _handle_features_compress *)
    specialize (S eq_refl). destruct (Rx eq_refl) as (R1 & R2 & R3 & R4 & R5 & R6).
    name_result. unfold call_handler. cbv zeta.
    match goal with |- context [comp_supported ?x] => set (s1 := x) end.
    assert (H1 : XO g s1).
    { unfold s1. match goal with |- context [if ?c then _ else _] => destruct c eqn:Cq end; [|apply XO_timed_del; exact H].
      apply andb_prop in Cq. destruct Cq as [_ Cq]. apply XO_set_comp_supported; [intros _; exact (R3 Cq) | apply XO_timed_del; exact H]. }
    assert (S1 : sm_enabled s1 = false) by (unfold s1; cases; smoff).
    clearbody s1. pose proof H1 as H1'. xo_dest H1'. destruct (comp_supported s1) eqn:C.
    + leaf. apply XO_h_add. apply XO_send_raw_m; auto.
      refine (conj _ (conj _ (conj eq_refl eq_refl))); [cbn [jg]; auto | right; right; split; [reflexivity | exact S1]].
    + pose proof (XO_features_sasl g n e s1 (Rx eq_refl) S1 H1) as Q. destruct (features_sasl n e s1). leaf. exact Q.
  - name_result. unfold call_handler. cases; leaf; eauto 10 with xodb.
  - (* _handle_sm *)
    name_result. unfold call_handler, ret. pose proof H as H'. xo_dest H'.
    cases; leaf; eauto 20 with xodb.
    all: try (apply XO_set_sm_enabled).
    all: apply XO_do_bind; [ apply X5; match goal with Hq : sm_bind_saved _ = true |- _ => revert Hq; unfold sm_queue_cleanup; sproj; auto end
                           | unfold sm_queue_cleanup; sproj; reflexivity | eauto 20 with xodb ].
  - name_result. unfold call_handler, ret. cases; leaf; eauto 10 with xodb.
Qed.

Lemma SE_id_off : forall s, PH s -> id_has IKBind s = true -> sm_enabled s = false.
Proof. intros s P H. destruct (sm_enabled s) eqn:E; auto. destruct (ph_se _ P E) as (_ & B & _). congruence. Qed.
Lemma XO_call_id_handler : forall g k n e s, PH s -> id_has k s = true -> XO g s -> XO g (fst (call_id_handler k n e s)).
Proof.
  intros g k n e s P Hk H. destruct k.
  - (* _handle_bind *)
    pose proof (SE_id_off s P Hk) as S.
    name_result. unfold call_id_handler, ret. cbv zeta. destruct (e_type e); try (leaf; eauto 10 with xodb; fail).
    match goal with |- context [session_required ?x] => set (s1 := x) end.
    assert (H1 : XO g s1) by (unfold s1; cases; eauto 10 with xodb).
    assert (S1 : sm_enabled s1 = false) by (unfold s1; cases; smoff).
    clearbody s1. pose proof H1 as H1'. xo_dest H1'. cases; leaf.
    + apply XO_session_start; auto.
    + apply XO_sm_enable; auto. apply X7. match goal with Hq : _ && _ = true |- _ => apply andb_prop in Hq; apply Hq end.
    + eauto 10 with xodb.
  - name_result. unfold call_id_handler, ret. cbv zeta. pose proof H as H'. xo_dest H'.
    cases; leaf; eauto 10 with xodb.
    apply XO_sm_enable; [ | eauto 10 with xodb]. apply X7.
    match goal with Hq : _ && _ = true |- _ => apply andb_prop in Hq; destruct Hq as [Hq _]; revert Hq; unfold timed_del; sproj; auto end.
  - name_result. unfold call_id_handler, ret. cases; leaf; eauto 10 with xodb.
  - (* the user's id handler *) cbn [call_id_handler fst]. exact H.
Qed.

(* ------------------------------------------------------------------ lifting XO along an iteration *)
Definition XOs (s : state) : Prop := XO (gh s) s.
Lemma XOs_of : forall s s', XO (gh s) s' -> Fr s s' -> XOs s'.
Proof. intros s s' H F. unfold XOs. eapply XO_mono; [apply (fr_gh _ _ F) | exact H]. Qed.
Lemma Fr_dispatch_from : forall n e s0 s, Fr s0 (note_rx e s) -> Fr s0 (fst (dispatch n e s)).
Proof. intros. name_result. unfold dispatch, ret. cases; leaf; eauto 30 with frdb. Qed.

Lemma XO_h_del' : forall g k s, XO g s -> XO g (h_del k s). Proof. intros; apply XO_h_del; auto. Qed.
Section XOVisit.
Variables (g : ghost) (n : Z) (e : elem).
Hypothesis HR : e_ns e = NsStreams -> e_name e = NmFeatures -> Rxg e g.
Lemma XO_visit : forall r k, PH (fst r) /\ DL (fst r) /\ XO g (fst r) ->
  PH (fst (visit n e r k)) /\ DL (fst (visit n e r k)) /\ XO g (fst (visit n e r k)).
Proof.
  intros [s o] k (P & L & H). pose proof (PH_visit n e (s, o) k (conj P L)) as [P1 L1]. refine (conj P1 (conj L1 _)).
  cbn [fst] in *. unfold visit.
  destruct (crashed s); auto. destruct (negb (h_has k s)) eqn:E; auto. apply negb_false_iff in E.
  destruct (hkind_eqb k HUser && negb (neg_done s)); auto. destruct (negb (filter_match k e)) eqn:Fm; auto. apply negb_false_iff in Fm.
  assert (Rx : is_feat k = true -> Rxg e g) by (intros K; destruct (filter_feat k e K Fm); auto).
  pose proof (XO_call_handler g k n e s P E Rx H) as Q.
  destruct (call_handler k n e s) as [[s1 o1] keep]. cbn [fst] in *. destruct keep; auto using XO_h_del'.
Qed.
Lemma XO_fold_visit : forall l s o, PH s -> DL s -> XO g s ->
  PH (fst (fold_left (visit n e) l (s, o))) /\ DL (fst (fold_left (visit n e) l (s, o))) /\ XO g (fst (fold_left (visit n e) l (s, o))).
Proof.
  intros l s o P L H. apply (fold_left_inv (fun r => PH (fst r) /\ DL (fst r) /\ XO g (fst r))); auto. intros; apply XO_visit; auto.
Qed.
End XOVisit.

Lemma XOs_dispatch : forall n e s, PH s -> DL s -> XOs s -> XOs (fst (dispatch n e s)).
Proof.
  intros n e s0 P0 L0 H0.
  pose proof (Fr_dispatch_from n e (note_rx e s0) s0 (Fr_refl _)) as F.
  apply (XOs_of (note_rx e s0)); [|exact F]. clear F.
  assert (H1 : XO (gh (note_rx e s0)) (note_rx e s0)).
  { apply XO_note_rx. eapply XO_mono; [apply GFr_note_rx | exact H0]. }
  assert (HR : e_ns e = NsStreams -> e_name e = NmFeatures -> Rxg e (gh (note_rx e s0))) by (intros; apply note_rx_records; auto).
  unfold dispatch.
  pose proof (PH_note_rx e s0 P0) as P1. pose proof (DL_note_rx e s0 L0) as L1.
  revert HR H1. generalize (gh (note_rx e s0)). intros g HR H1.
  generalize dependent (note_rx e s0). clear s0 P0 L0 H0. intros s P1 L1 H1.
  destruct (negb (sm_alloc s)); [cbn [fst]; eauto with xodb|].
  pose proof (PH_enable_all s P1) as P2. pose proof (DL_enable_all s L1) as L2.
  assert (H2 : XO g (set_handlers (map (fun x : hkind * bool => (fst x, true)) (handlers s)) s)) by eauto with xodb.
  generalize dependent (set_handlers (map (fun x : hkind * bool => (fst x, true)) (handlers s)) s). clear s P1 L1 H1. intros s P2 L2 H2.
  cbv zeta.
  match goal with |- context [let '(s1, o1) := ?r in _] => assert (R : PH (fst r) /\ DL (fst r) /\ XO g (fst r)) end.
  { destruct (idk_of (e_id e)) as [k|]; [|cbn; auto]. destruct (id_has k s) eqn:Hk; [|cbn; auto].
    destruct (is_user_id k) eqn:Uk; cbn [andb].
    { destruct k; try discriminate Uk. destruct (negb (neg_done s)); cbn; auto. }
    pose proof (PH_id_step k n e s Uk P2 L2 Hk) as [T1 T2]. pose proof (XO_call_id_handler g k n e s P2 Hk H2) as T3.
    destruct (call_id_handler k n e s) as [s1 o1]. cbn [fst] in *. refine (conj T1 (conj T2 _)). unfold id_del. eauto with xodb. }
  match goal with |- context [let '(s1, o1) := ?r in _] => destruct r as [s1 o1] end. cbn [fst] in R. destruct R as (P3 & L3 & H3).
  pose proof (XO_fold_visit g n e HR (map fst (filter (fun x => snd x) (handlers s1))) s1 o1 P3 L3 H3) as (P4 & L4 & H4).
  destruct (fold_left (visit n e) (map fst (filter (fun x => snd x) (handlers s1))) (s1, o1)) as [s3 o3]. cbn [fst] in *.
  destruct (crashed s3); [cbn; auto|]. destruct (sm_enabled s3); cbn [fst]; eauto with xodb.
Qed.

Lemma XO_open_handler : forall g n s, XO g s -> XO g (fst (open_handler n s)).
Proof. intros g n s H. name_result. unfold open_handler, ret. cases; leaf; eauto 20 with xodb. Qed.
Lemma XO_stream_start : forall g n a b s, XO g s -> XO g (fst (stream_start n a b s)).
Proof. intros g n a b s H. name_result. unfold stream_start. cases; leaf; [apply XO_open_handler|]; eauto 20 with xodb. Qed.
Lemma XO_stream_end : forall g s, XO g s -> XO g (fst (stream_end s)).
Proof. intros g s H. name_result. unfold stream_end. cases; leaf; eauto 20 with xodb. Qed.

Lemma XOs_feed_item : forall n it s, FI s -> XOs s -> XOs (fst (fst (feed_item n it s))).
Proof.
  intros n it s (P & L & F) H.
  assert (Gen : forall s', XO (gh s) s' -> Fr s s' -> XOs s') by (intros; eapply XOs_of; eauto).
  pose proof (Fr_feed_item n it s s (Fr_refl s)) as Ff.
  unfold feed_item in *.
  destruct (ps s) eqn:Ps; cbn [ps_live] in L;
    destruct it as [h|e| |]; try (cases; cbn [fst] in *; apply Gen; eauto 20 with xodb; fail).
  - (* header at depth 0 *)
    pose proof (XO_stream_start (gh s) n true h _ (XO_set_ps _ POpen s H)) as Q.
    destruct (stream_start n true h (set_ps POpen s)) as [s1 o1]. cbn [fst] in *. apply Gen; auto.
  - (* element at depth 0 *)
    destruct (ns_eqb (e_ns e) NsStreams); [cbn [fst] in *; apply Gen; eauto with xodb|].
    pose proof (XO_stream_start (gh s) n (ename_eqb (e_name e) NmStream) false _ (XO_set_ps _ PClosed s H)) as Q.
    destruct (stream_start n (ename_eqb (e_name e) NmStream) false (set_ps PClosed s)) as [s1 o1]. cbn [fst] in *.
    destruct (crashed s1); [cbn [fst] in *; apply Gen; auto|].
    pose proof (XO_stream_end (gh s) s1 Q) as Q2. destruct (stream_end s1) as [s2 o2]. cbn [fst] in *. apply Gen; auto.
  - (* element on an open stream *)
    pose proof (XOs_dispatch n e s P (L eq_refl) H) as Q. destruct (dispatch n e s) as [s1 o1]. exact Q.
  - (* </stream:stream> *)
    pose proof (XO_stream_end (gh s) _ (XO_set_ps _ PClosed s H)) as Q.
    destruct (stream_end (set_ps PClosed s)) as [s1 o1]. cbn [fst] in *. apply Gen; auto.
  - (* end of a swallowed nested stream element *)
    destruct n0 as [|[|m]]; try (cbn [fst] in *; apply Gen; eauto with xodb; fail).
    assert (H1 : XOs (set_ps POpen s)) by (unfold XOs; apply XO_set_ps; exact H).
    pose proof (XOs_dispatch n (nested_stream_elem cns) _ (PH_set_ps POpen s eq_refl P) (DL_set_ps POpen s (L eq_refl)) H1) as Q.
    destruct (dispatch n (nested_stream_elem cns) (set_ps POpen s)) as [s1 o1]. exact Q.
Qed.
Lemma XOs_feed_items : forall n its s, FI s -> XOs s -> XOs (fst (fst (feed_items n its s))).
Proof.
  induction its as [|it r IH]; intros s F H; cbn [feed_items]; [exact H|].
  destruct (crashed s); [exact H|].
  pose proof (FI_feed_item n it s F) as F1. pose proof (XOs_feed_item n it s F H) as H1.
  destruct (feed_item n it s) as [[s1 o1] bad]. cbn [fst] in *.
  destruct bad; [exact H1|]. specialize (IH s1 F1 H1). destruct (feed_items n r s1) as [[s2 o2] bad2]. exact IH.
Qed.

(* timed handlers *)
Lemma XO_call_timed : forall g k n s, PH s -> timed_has k s = true -> XO g s -> XO g (fst (fst (call_timed k n s))).
Proof.
  intros g k n s P T H. destruct k; unfold call_timed; cbn [fst]; eauto 10 with xodb.
  - destruct (proj2 (ph_t01 _ P) T) as [_ F0].
    pose proof (XO_auth g 1 n s (SE_q_off HFeatures s P eq_refl F0) H) as Q. destruct (auth 1 n s). exact Q.
  - pose proof (XO_conn_disconnect g s H) as Q. destruct (conn_disconnect s). exact Q.
Qed.
Lemma XO_visit_timed : forall g n r k, PH (fst r) /\ XO g (fst r) -> PH (fst (visit_timed n r k)) /\ XO g (fst (visit_timed n r k)).
Proof.
  intros g n [s o] k [P H]. split; [apply PH_visit_timed; exact P|]. cbn [fst] in *. unfold visit_timed.
  destruct (crashed s); auto. destruct (timed_lookup k s) as [[en stp]|] eqn:E; auto.
  destruct (negb en); auto. destruct (tkind_eqb k TUser && negb (neg_done s)); auto.
  destruct (n - stp >=? tperiod s k); auto.
  assert (T : timed_has k (timed_set_stamp k n s) = true) by (rewrite timed_has_timed_set_stamp; eapply timed_lookup_has; eauto).
  pose proof (XO_call_timed g k n _ (PH_timed_set_stamp k n s P) T (XO_timed_set_stamp g k n s H)) as Q.
  destruct (call_timed k n (timed_set_stamp k n s)) as [[s2 o2] keep]. cbn [fst] in *. destruct keep; eauto with xodb.
Qed.
Lemma XO_fire_timed : forall g n s, PH s -> XO g s -> XO g (fst (fire_timed n s)).
Proof.
  intros g n s P H. unfold fire_timed, ret. destruct (st s); auto.
  apply (fold_left_inv (fun r => PH (fst r) /\ XO g (fst r))); [intros; apply XO_visit_timed; auto|]. cbn [fst]. split; [|eauto with xodb].
  pose proof (PH_fire_timed n s P) as Q. clear Q.
  apply (PH_neutral s); [apply HFr_set_timed, HFr_refl | apply TI_set_timed, P | apply T01_enable_timed, P
    | apply (MT_of (set_timed _)); [apply CS_set_timed | apply PL_set_timed | apply P]
    | apply SmOff_set_timed, P | apply Sn_set_timed, Sn_refl | apply T25_set_timed, P | exact P].
Qed.
Lemma XOs_fire_timed : forall n s, PH s -> XOs s -> XOs (fst (fire_timed n s)).
Proof. intros n s P H. apply (XOs_of s); [apply XO_fire_timed; auto | eauto with frdb]. Qed.

(* the send phase: the queue is flushed; countable elements are retained for retransmission *)
Lemma smq_plain_app : forall a b, smq_plain (a ++ b) = smq_plain a && smq_plain b.
Proof. intros; unfold smq_plain; apply forallb_app. Qed.
Lemma stamped_plain : forall (q : list (welem * bool * bool)) z acc,
  qown q = true -> smq_plain acc = true ->
  smq_plain (snd (fold_left (fun a x => (fst a + 1, snd a ++ [(fst (fst x), snd (fst x), snd x, fst a)]))
                            (filter (fun x => negb (snd x)) q) (z, acc))) = true.
Proof.
  induction q as [|x q IH]; intros z acc Q A; cbn [filter fold_left snd]; auto.
  cbn [qown forallb] in Q. apply andb_prop in Q. destruct Q as [Q1 Q2].
  destruct (snd x) eqn:S; cbn [negb]; [apply IH; auto|]. cbn [fold_left]. apply IH; auto.
  cbn [fst snd]. rewrite smq_plain_app, A. cbn. cbn [orb] in Q1. rewrite Q1. reflexivity.
Qed.
Lemma XO_send_phase : forall g s, XO g s -> XO g (fst (send_phase s)).
Proof.
  intros g s H. unfold send_phase, ret. destruct (st s) eqn:C; auto. cbv zeta.
  match goal with |- context [negb (err ?z =? 0)] => set (y := z) end. assert (Hy : XO g y).
  { unfold y. pose proof H as H'. xo_dest H'. apply XO_set_sm_sent. xo_split; auto; sproj; try reflexivity.
    rewrite smq_plain_app, X10. cbn [andb]. destruct (sm_enabled s); [apply stamped_plain; auto | reflexivity]. }
  clearbody y.
  destruct (negb (err y =? 0)); [|exact Hy].
  pose proof (XO_conn_disconnect g _ (XO_set_err g ECONNABORTED y Hy)) as Q.
  destruct (conn_disconnect (set_err ECONNABORTED y)). exact Q.
Qed.

(* ------------------------------------------------------------------ phases *)
Lemma XO_same_offers : forall g g' s, g_offer_tls g' = g_offer_tls g -> g_offered g' = g_offered g -> g_offer_zlib g' = g_offer_zlib g ->
  g_offer_bind g' = g_offer_bind g -> g_offer_session g' = g_offer_session g -> g_offer_sm g' = g_offer_sm g -> XO g s -> XO g' s.
Proof.
  intros g g' s E1 E2 E3 E4 E5 E6 H. xo_dest H. xo_split; rewrite ?E1, ?E2, ?E3, ?E4, ?E5, ?E6; auto.
  eapply qall_mono; [|exact X8]. intros w. destruct w; cbn; rewrite ?E1, ?E2, ?E3, ?E4, ?E5, ?E6; auto.
Qed.
Lemma XOs_note_outs : forall outs s, XOs s -> XOs (note_outs outs s).
Proof.
  intros outs s H. unfold XOs, note_outs. sproj. apply XO_set_gh.
  assert (E : forall g, g_offer_tls (fold_left note_out outs g) = g_offer_tls g /\ g_offered (fold_left note_out outs g) = g_offered g /\
    g_offer_zlib (fold_left note_out outs g) = g_offer_zlib g /\ g_offer_bind (fold_left note_out outs g) = g_offer_bind g /\
    g_offer_session (fold_left note_out outs g) = g_offer_session g /\ g_offer_sm (fold_left note_out outs g) = g_offer_sm g).
  { induction outs as [|o outs IH]; intros g; cbn [fold_left]; [repeat split; reflexivity|].
    destruct (IH (note_out g o)) as (A & B & C & D & E & F). rewrite A, B, C, D, E, F.
    destruct g; destruct o as [| | | |[|]| | | | | | | | |]; cbn; repeat split; reflexivity. }
  destruct (E (gh s)) as (A & B & C & D & E' & F). eapply XO_same_offers; eauto.
Qed.

Definition XS (s : state) : Prop := PHS s /\ XOs s /\ U2 s.
Lemma XOs_same_gh : forall s s', gh s' = gh s -> XO (gh s) s' -> XOs s'.
Proof. intros s s' E H. unfold XOs. rewrite E. exact H. Qed.

Lemma GFr_send_phase : forall s, GFr (gh s) (gh (fst (send_phase s))).
Proof.
  intros s. unfold send_phase, ret. destruct (st s); try apply GFr_refl. cbv zeta.
  match goal with |- context [negb (err ?z =? 0)] => set (y := z) end.
  assert (E : gh y = gh s) by reflexivity. clearbody y.
  destruct (negb (err y =? 0)); [|cbn [fst]; rewrite E; apply GFr_refl].
  pose proof (Fr_conn_disconnect (set_err ECONNABORTED y) _ (Fr_refl _)) as F.
  destruct (conn_disconnect (set_err ECONNABORTED y)) as [s2 o2]. cbn [fst] in *. rewrite <- E. exact (fr_gh _ _ F).
Qed.
Lemma U2_send_phase : forall s, U2 s -> U2 (fst (send_phase s)).
Proof.
  intros s H. unfold send_phase, ret. destruct (st s) eqn:C; auto. cbv zeta.
  match goal with |- context [negb (err ?z =? 0)] => set (y := z) end.
  assert (Hy : U2 y) by (intros X; exfalso; revert X; unfold y; sproj; congruence). clearbody y.
  destruct (negb (err y =? 0)); [|exact Hy].
  pose proof (U2_conn_disconnect _ (U2_set_err ECONNABORTED y Hy)) as Q. destruct (conn_disconnect (set_err ECONNABORTED y)). exact Q.
Qed.
Lemma XS_ph_pre : forall rd s, XS s -> XS (ph_pre rd s).
Proof.
  intros rd s (A & B & C). refine (conj (PHS_ph_pre rd s A) (conj _ _)); unfold ph_pre, XOs in *; cases; auto.
  all: first [apply U2_set_rxq; exact C | sproj; apply XO_set_rxq; exact B].
Qed.
Lemma XS_send_phase : forall s, XS s -> XS (fst (send_phase s)).
Proof.
  intros s (A & B & C). refine (conj (PHS_send_phase s A) (conj _ (U2_send_phase s C))).
  unfold XOs. eapply XO_mono; [apply GFr_send_phase | apply XO_send_phase; exact B].
Qed.
Lemma XS_ph_reset : forall s, XS s -> XS (ph_reset s) /\ reset_parser (ph_reset s) = false.
Proof.
  intros s (A & B & C). destruct (PHS_ph_reset s A) as [A1 R1]. split; [|exact R1].
  refine (conj A1 (conj _ _)); unfold ph_reset, XOs in *; cases; auto.
  all: first [apply U2_set_ps, U2_set_reset_parser; exact C | sproj; apply XO_set_ps, XO_set_reset_parser; exact B].
Qed.
Lemma XS_fire_timed : forall n s, XS s -> XS (fst (fire_timed n s)).
Proof.
  intros n s (A & B & C). refine (conj (PHS_fire_timed n s A) (conj (XOs_fire_timed n s (proj1 A) B) (U2_fire_timed n s C))).
Qed.
Lemma XO_timeout : forall g e s, XO g s -> XO g (reset_sm_for_reconnect (set_neg_done false (set_st Disconnected (set_err e s)))).
Proof. intros; eauto 10 with xodb. Qed.
Lemma XS_ph_watch : forall n s, XS s -> reset_parser s = false -> XS (fst (ph_watch n s)) /\ reset_parser (fst (ph_watch n s)) = false.
Proof.
  intros n s (A & B & C) R. destruct (PHS_ph_watch n s A R) as [A1 R1]. split; [|exact R1].
  refine (conj A1 (conj _ (U2_ph_watch n s C))).
  pose proof (Tr_ph_watch n s s [] (Tr_refl s)) as T. apply (XOs_of s); [|apply (tr_fr _ _ _ T)].
  unfold ph_watch, ret. cases; cbn [fst]; auto; try apply XO_connect_next; auto.
  all: apply XO_timeout, XO_connect_next; exact B.
Qed.
Lemma XO_set_st_connected : forall g s, sendq s = [] -> st s = Connecting -> XO g s -> XO g (set_st Connected s).
Proof.
  intros g s Q C H. xo_dest H. xo_split; auto; sproj; intros; rewrite ?Q; try reflexivity.
  all: first [apply X13; congruence | apply X12; congruence].
Qed.
Lemma XO_conn_established : forall g n s, tls_present s = false -> XO g s -> XO g (fst (conn_established n s)).
Proof.
  intros g n s T H. name_result. unfold conn_established.
  destruct (f_legacy_ssl s && negb (is_raw s)).
  - pose proof (XO_conn_tls_start g s (or_intror T) H) as Q. destruct (conn_tls_start s) as [[sa oa] ok]. cbn [fst] in Q.
    cases; leaf; eauto 20 with xodb.
  - cases; leaf; eauto 20 with xodb.
Qed.
Lemma XS_ph_io : forall n s, XS s -> reset_parser s = false -> XS (fst (ph_io n s)).
Proof.
  intros n s (A & B & C) R. refine (conj (PHS_ph_io n s A R) (conj _ (U2_ph_io n s C))).
  unfold ph_io, ret. destruct (st s) eqn:St; auto.
  - (* Connecting *)
    destruct (proj1 (proj2 A) St) as (C1 & C2 & C3 & C4).
    destruct (cur_ep s) eqn:E; auto.
    + set (x := set_st Connected s).
      assert (Hx : XO (gh s) x) by (apply XO_set_st_connected; auto).
      pose proof (XO_conn_established (gh s) n x C4 Hx) as Q. pose proof (Fr_conn_established n x x (Fr_refl x)) as F.
      unfold XOs. eapply XO_mono; [exact (fr_gh _ _ F) | exact Q].
    + pose proof (Tr_connect_next n s s [] (Tr_refl s)) as T. pose proof (XO_connect_next (gh s) n s B) as Q.
      destruct (connect_next n s) as [[s1 o1] ok]. cbn [fst] in *. destruct ok; cbn [fst].
      * apply (XOs_of s); [exact Q | apply (tr_fr _ _ _ T)].
      * apply (XOs_of s); [apply XO_timeout; exact Q | ]. apply (Fr_trans _ _ _ (tr_fr _ _ _ T)). eauto 10 with frdb.
  - (* Connected *)
    cbv zeta. set (x := set_rxq (tl (rxq s)) s).
    assert (Hx : XOs x) by (unfold XOs, x; sproj; apply XO_set_rxq; exact B).
    assert (Px : PHS x).
    { destruct A as (P & Cg & F24'). refine (conj _ (conj _ F24')); [ | intros X; exfalso; change (st x) with (st s) in X; congruence].
      apply (PH_step_neutral (set_rxq _)); try ph_setter; exact P. }
    destruct (match rxq s with [] => RdNone | r :: _ => r end); cbn [fst]; auto.
    + assert (FIx : FI x).
      { refine (conj (proj1 Px) (conj _ _)); [intros _ D; change (st x) with (st s) in D; congruence | intros _; split; [exact St | exact R]]. }
      pose proof (XOs_feed_items n its x FIx Hx) as Q. pose proof (Fr_feed_items n its x x (Fr_refl x)) as F.
      destruct (feed_items n its x) as [[s1 o1] bad]. cbn [fst] in *. destruct bad; cbn [fst]; auto.
      apply (XOs_of s1); [eauto with xodb | eauto with frdb].
    + destruct (tls_present x); (apply (XOs_of x); [apply XO_conn_disconnect, XO_set_err; exact Hx | eauto with frdb]).
    + apply (XOs_of x); [apply XO_conn_disconnect, XO_set_err; exact Hx | eauto with frdb].
Qed.
Lemma XS_run_once : forall n rd s, XS s -> XS (fst (run_once n rd s)).
Proof.
  intros n rd s H.
  apply (run_once_ind (fun s _ => XS s) (fun s _ => XS s /\ reset_parser s = false) (fun s _ => XS s /\ reset_parser s = false)
           (fun s _ => XS s /\ reset_parser s = false) (fun s _ => XS s) (fun s _ => XS s) (fun s _ => XS s)); auto.
  - intros _. apply XS_send_phase, XS_ph_pre, H.
  - intros s1 _ H1. apply XS_ph_reset, H1.
  - intros s1 _ [H1 R1]. split; [apply XS_fire_timed, H1|].
    pose proof (RPF_fire_timed n s1 s1 (RPF_refl s1)) as F. rewrite (rpf_rp _ _ F). exact R1.
  - intros s1 _ [H1 R1]. exact H1.
  - intros s1 _ [H1 R1]. apply XS_ph_watch; assumption.
  - intros s1 _ [H1 R1]. exact H1.
  - intros s1 _ [H1 R1]. apply XS_ph_io; assumption.
  - intros s1 _ H1. apply XS_fire_timed, H1.
Qed.

(* ------------------------------------------------------------------ user operations *)
Lemma XO_conn_connect : forall g' n t s, PHS s -> jid_set s = true -> XOs s -> XO g' (fst (fst (conn_connect n t s))) \/ st s <> Disconnected.
Proof.
  intros g' n t s A J H. destruct (st s) eqn:C; [left | right; discriminate | right; discriminate].
  destruct (ph_smoff _ (proj1 A) C) as (S1 & S2 & S3). unfold XOs in H. xo_dest H.
  unfold conn_connect. rewrite C. cbv zeta.
  match goal with |- context [sock_connect ?c] => destruct (sock_connect c) as [oo [[k r]|]] end; cbn [fst];
    unfold conn_reset, prepare_reset; rewrite C; cbv zeta; xo_split; sproj; auto; intros; try discriminate; try congruence.
Qed.
Lemma XOs_conn_connect : forall n t s, PHS s -> (st s = Disconnected -> jid_set s = true) -> XOs s -> XOs (fst (fst (conn_connect n t s))).
Proof.
  intros n t s A J H. destruct (st s) eqn:C.
  - destruct (XO_conn_connect (gh (fst (fst (conn_connect n t s)))) n t s A (J eq_refl) H) as [Q|Q]; [exact Q | congruence].
  - unfold conn_connect. rewrite C. exact H.
  - unfold conn_connect. rewrite C. exact H.
Qed.
Lemma XO_disc_cfg : forall g s s', st s = Disconnected -> st s' = Disconnected ->
  sasl s' = sasl s -> tls_support s' = tls_support s -> comp_supported s' = comp_supported s -> bind_required s' = bind_required s ->
  sm_bind_saved s' = sm_bind_saved s -> session_required s' = session_required s -> sm_support s' = sm_support s ->
  sendq s' = sendq s -> smq s' = smq s -> XO g s -> XO g s'.
Proof.
  intros g s s' D D' E1 E2 E3 E4 E5 E6 E7 E8 E9 H. xo_dest H.
  xo_split; rewrite ?E1, ?E2, ?E3, ?E4, ?E5, ?E6, ?E7, ?E8, ?E9; auto; intros; congruence.
Qed.
Lemma XS_connect_client : forall n s, XS s -> XS (fst (fst (connect_client n s))).
Proof.
  intros n s (A & B & C). refine (conj (PHS_connect_client n s A) (conj _ _)).
  - unfold connect_client. cbv zeta.
    assert (Cfgx : forall x, XOs x -> PHS x -> jid_set x = true -> XOs (fst (fst (conn_connect n TClient (set_cands (next_cands x) x))))).
    { intros x Hx Px Jx. apply XOs_conn_connect; [phs_chain Px | intros _; exact Jx | unfold XOs in *; sproj; apply XO_set_cands; exact Hx]. }
    destruct (negb (jid_set s) && cert_set s) eqn:E.
    + cbn [negb jid_set set_jid_res set_jid_node set_jid_set]. apply Cfgx; [ | phs_chain A | reflexivity].
      destruct (st s) eqn:St.
      * unfold XOs in *. sproj. apply (XO_disc_cfg _ s); auto.
      * exfalso. unfold XOs in B. xo_dest B. rewrite X13 in E; [discriminate | congruence].
      * exfalso. unfold XOs in B. xo_dest B. rewrite X13 in E; [discriminate | congruence].
    + destruct (negb (jid_set s)) eqn:J; [exact B|]. apply negb_false_iff in J. apply Cfgx; auto.
  - destruct (connect_client_cases n s) as [(K & _)|(K & _)].
    + intros X. rewrite (cfg_sendq _ _ K). apply C. rewrite <- (cfg_st _ _ K). exact X.
    + intros _. exact (fre_sendq _ _ K).
Qed.
Lemma XS_connect_component : forall n s, XS s -> XS (fst (fst (connect_component n s))).
Proof.
  intros n s (A & B & C). refine (conj (PHS_connect_component n s A) (conj _ _)).
  - unfold connect_component. destruct (negb (jid_set s && pass_set s)) eqn:J; [exact B|]. apply negb_false_iff in J.
    apply andb_prop in J. destruct J as [J _]. cbv zeta.
    match goal with |- context [set_flags ?w s] =>
      pose proof (PHS_set_flags w s A) as Ax; pose proof (Cfg_set_flags w s) as Cx;
      assert (Bx : XOs (fst (set_flags w s)) /\ jid_set (fst (set_flags w s)) = true);
      [ | destruct (set_flags w s) as [s1 rc]; cbn [fst] in * ] end.
    { unfold set_flags. destruct (st s) eqn:St; [|split; assumption|split; assumption].
      match goal with |- context [if ?c then _ else _] => destruct c end; cbn [fst]; [split; assumption|].
      split; [|exact J]. unfold XOs in *. sproj. apply (XO_disc_cfg _ s); auto. }
    destruct Bx as [Bx Jx]. destruct (negb (f_tls_disabled s1)); [exact Bx|].
    apply XOs_conn_connect; [phs_chain Ax | intros _; exact Jx | unfold XOs in *; sproj; apply XO_set_cands; exact Bx].
  - destruct (connect_component_cases n s) as [(K & _)|(K & _)].
    + intros X. rewrite (cfg_sendq _ _ K). apply C. rewrite <- (cfg_st _ _ K). exact X.
    + intros _. exact (fre_sendq _ _ K).
Qed.

Lemma XOs_step0 : forall s op, XS s -> XOs (fst (step0 s op)).
Proof.
  intros s op H. destruct H as (A & B & C).
  unfold step0; destruct (crashed s); auto; destruct op; try (cbn [fst ret]; auto; fail).
  all: try (destruct (st s) eqn:St; cbn [fst ret]; auto; unfold XOs in *; sproj; apply (XO_disc_cfg _ s); auto; fail).
  - (* OpSetFlags *)
    assert (Q : XOs (fst (set_flags w s))); [|destruct (set_flags w s); exact Q].
    unfold set_flags. destruct (st s) eqn:St; auto. match goal with |- context [if ?c then _ else _] => destruct c end; cbn [fst]; auto.
  - (* OpUserHandlers *)
    destruct (st s) eqn:St; cbn [fst ret]; auto.
    apply (XOs_same_gh s); [unfold h_add, id_add, timed_add; cases; reflexivity | unfold XOs in B; cases; eauto 10 with xodb].
  - pose proof (XS_connect_client now s (conj A (conj B C))) as (_ & Q & _). destruct (connect_client now s) as [[s1 o] rc]. exact Q.
  - destruct (st s) eqn:St; cbn [fst]; auto.
    assert (Hx : XS (set_is_raw true s)).
    { refine (conj _ (conj _ _)); [phs_chain A | unfold XOs in *; sproj; apply XO_set_is_raw; exact B | apply U2_set_is_raw; exact C]. }
    pose proof (XS_connect_client now _ Hx) as (_ & Q & _). destruct (connect_client now (set_is_raw true s)) as [[s1 o] rc]. exact Q.
  - pose proof (XS_connect_component now s (conj A (conj B C))) as (_ & Q & _). destruct (connect_component now s) as [[s1 o] rc]. exact Q.
  - apply XS_run_once. exact (conj A (conj B C)).
  - cbn [fst ret]. apply (XOs_of s); [unfold XOs in B; eauto with xodb | eauto with frdb].
  - cbn [fst ret]. apply (XOs_of s); [unfold XOs in B; eauto with xodb | eauto with frdb].
  - cbn [fst ret]. apply (XOs_of s); [unfold XOs in B; eauto with xodb | eauto with frdb].
  - destruct (is_raw s); cbn [fst ret]; auto. apply (XOs_of s); [unfold XOs in B; eauto with xodb | eauto with frdb].
  - destruct (st s); cbn [fst ret]; auto; (apply (XOs_of s); [unfold XOs in B; eauto with xodb | eauto with frdb]).
Qed.

(* the step-level invariant for offers / header / bind *)
Definition XI (s : state) : Prop := PHS s /\ XOs s /\ IU s.
Lemma XI_XS : forall s, XI s -> XS s.
Proof. intros s (A & B & C). exact (conj A (conj B (proj2 (proj2 C)))). Qed.
Lemma XI_step : forall s op, XI s -> XI (fst (step s op)).
Proof.
  intros s op H. pose proof (XI_XS s H) as Hs. destruct H as (A & B & C).
  refine (conj (PHS_step s op A) (conj _ _)); rewrite step_eq; cbn [fst].
  - apply XOs_note_outs, XOs_step0, Hs.
  - apply (user_step0 s op C).
Qed.
Lemma XI_init : XI init_state.
Proof.
  refine (conj PHS_init (conj _ _)).
  - unfold XOs. xo_split; cbn; auto; intros; discriminate.
  - unfold IU, U1, U2. cbn. repeat split; intros; discriminate.
Qed.

(* ------------------------------------------------------------------ what reaches the wire *)
Definition wire_ok (f : bool -> welem -> bool) (o : list out) : bool :=
  forallb (fun x => match x with OWire t w => f t w | _ => true end) o.
Lemma wire_ok_app : forall f a b, wire_ok f (a ++ b) = wire_ok f a && wire_ok f b.
Proof. intros; unfold wire_ok; apply forallb_app. Qed.
Lemma wire_ok_nowire : forall f o, existsb is_wire o = false -> wire_ok f o = true.
Proof.
  intros f o. unfold wire_ok. induction o as [|x o IH]; cbn [forallb existsb]; auto. intros H. apply orb_false_iff in H. destruct H as [A B].
  rewrite (IH B). destruct x; cbn in *; auto; discriminate.
Qed.
Lemma wire_ok_quiet : forall f o, forallb quiet o = true -> wire_ok f o = true.
Proof. intros f o Q. apply wire_ok_nowire. apply (scan_user_quiet o false Q). Qed.
Lemma wire_ok_Tr : forall f s0 s o, Tr s0 s o -> wire_ok f o = true.
Proof. intros f s0 s o T. apply wire_ok_nowire, (tr_nowire _ _ _ T). Qed.

Lemma wire_ok_send_phase : forall f s,
  (st s = Connected -> forallb (fun x : welem * bool * bool => f (tls_present s) (fst (fst x))) (sendq s) = true) ->
  wire_ok f (snd (send_phase s)) = true.
Proof.
  intros f s H. unfold send_phase, ret. destruct (st s) eqn:C; try reflexivity. specialize (H eq_refl). cbv zeta.
  assert (W : wire_ok f (map (fun x : welem * bool * bool => OWire (tls_present s) (fst (fst x))) (sendq s)) = true).
  { unfold wire_ok. rewrite forallb_forall in *. intros x Hx. apply in_map_iff in Hx. destruct Hx as (y & <- & Hy). apply H; exact Hy. }
  match goal with |- context [negb (err ?z =? 0)] => generalize z; intros y end.
  destruct (negb (err y =? 0)); [|exact W].
  pose proof (Tr_conn_disconnect _ _ _ (Tr_refl (set_err ECONNABORTED y))) as T. cbn [app] in T.
  destruct (conn_disconnect (set_err ECONNABORTED y)) as [s2 o2]. cbn [fst snd] in *. rewrite wire_ok_app, W. apply (wire_ok_Tr f _ _ _ T).
Qed.
Lemma wire_ok_run_once : forall f n rd s,
  (st s = Connected -> forallb (fun x : welem * bool * bool => f (tls_present s) (fst (fst x))) (sendq s) = true) ->
  wire_ok f (snd (run_once n rd s)) = true.
Proof.
  intros f n rd s H.
  apply (run_once_ind (fun _ o => wire_ok f o = true) (fun _ o => wire_ok f o = true) (fun _ o => wire_ok f o = true)
           (fun _ o => wire_ok f o = true) (fun _ o => wire_ok f o = true) (fun _ o => wire_ok f o = true) (fun _ o => wire_ok f o = true)); auto.
  - intros _. apply wire_ok_send_phase.
    assert (E : st (ph_pre rd s) = st s /\ tls_present (ph_pre rd s) = tls_present s /\ sendq (ph_pre rd s) = sendq s) by (clear H; unfold ph_pre; cases; repeat split; first [reflexivity | assumption]).
    destruct E as (E1 & E2 & E3). rewrite E1, E2, E3. exact H.
  - intros s1 o W. rewrite wire_ok_app, W. apply (wire_ok_Tr f _ _ _ (Tr_fire_timed n s1 s1 [] (Tr_refl s1))).
  - intros s1 o W. rewrite wire_ok_app, W. apply (wire_ok_Tr f _ _ _ (Tr_ph_watch n s1 s1 [] (Tr_refl s1))).
  - intros s1 o W. rewrite wire_ok_app, W. reflexivity.
  - intros s1 o W. rewrite wire_ok_app, W. destruct (Tr_ph_io n s1 s1 [] (Tr_refl s1)) as [(_ & _ & Eq)|T].
    + rewrite Eq. apply (wire_ok_Tr f _ _ _ (Tr_conn_established n _ _ [] (Tr_refl (set_st Connected s1)))).
    + apply (wire_ok_Tr f _ _ _ T).
  - intros s1 o W. rewrite wire_ok_app, W. apply (wire_ok_Tr f _ _ _ (Tr_fire_timed n s1 s1 [] (Tr_refl s1))).
  - intros s1 o W. rewrite wire_ok_app, W. reflexivity.
Qed.
Lemma wire_ok_step0 : forall f s op,
  (st s = Connected -> forallb (fun x : welem * bool * bool => f (tls_present s) (fst (fst x))) (sendq s) = true) ->
  wire_ok f (snd (step0 s op)) = true.
Proof.
  intros f s op H. unfold step0. destruct (crashed s); [reflexivity|]. destruct op; try (cases; reflexivity).
  - destruct (connect_client_cases now s) as [(_ & E)|(_ & Q)]; destruct (connect_client now s) as [[s1 o] rc]; cbn [fst snd] in *;
      rewrite wire_ok_app; [rewrite E; reflexivity | rewrite (wire_ok_quiet f o Q); reflexivity].
  - destruct (st s); try reflexivity.
    destruct (connect_client_cases now (set_is_raw true s)) as [(_ & E)|(_ & Q)]; destruct (connect_client now (set_is_raw true s)) as [[s1 o] rc]; cbn [fst snd] in *;
      rewrite wire_ok_app; [rewrite E; reflexivity | rewrite (wire_ok_quiet f o Q); reflexivity].
  - destruct (connect_component_cases now s) as [(_ & E)|(_ & Q)]; destruct (connect_component now s) as [[s1 o] rc]; cbn [fst snd] in *;
      rewrite wire_ok_app; [rewrite E; reflexivity | rewrite (wire_ok_quiet f o Q); reflexivity].
  - apply wire_ok_run_once. exact H.
  - destruct (st s); try reflexivity; apply (wire_ok_Tr f _ _ _ (Tr_conn_disconnect s s [] (Tr_refl s))).
Qed.

Theorem offers_ok : forall ops, check_run ok_offers init_state ops = true.
Proof.
  intros ops. apply (check_run_inv ok_offers XI); [exact XI_step | | exact XI_init].
  intros s op (A & B & C). rewrite step_eq. cbn [fst snd]. unfold ok_offers.
  change (wire_ok (fun _ w => justified s w) (snd (step0 s op)) = true). apply wire_ok_step0. intros _.
  unfold XOs in B. xo_dest B. exact X8.
Qed.
Theorem header_bind_ok : forall ops, check_run ok_header_bind init_state ops = true.
Proof.
  intros ops. apply (check_run_inv ok_header_bind XI); [exact XI_step | | exact XI_init].
  intros s op (A & B & C). rewrite step_eq. cbn [fst snd]. unfold ok_header_bind.
  assert (E : forall o, forallb (fun o0 : out => match o0 with
       | OWire tls (WHeader from) => negb from || tls | OWire _ (WBind r) => Bool.eqb r (jid_res s) | _ => true end) o =
     wire_ok (fun t w => hdr_w t w && bnd_w (jid_res s) w) o).
  { induction o as [|x o IH]; [reflexivity|]. cbn [forallb wire_ok]. fold (wire_ok (fun t w => hdr_w t w && bnd_w (jid_res s) w) o).
    rewrite IH. f_equal. destruct x as [t w| | | | | | | | | | | | |]; try reflexivity.
    destruct w; cbn; try reflexivity; try (rewrite andb_true_r; reflexivity). destruct from, t; reflexivity. }
  rewrite E. apply wire_ok_step0. intros Cn. unfold XOs in B. xo_dest B.
  specialize (X11 Cn). assert (X12' := X12 ltac:(congruence)). clear - X11 X12'.
  unfold qall in *. induction (sendq s) as [|x q IH]; [reflexivity|]. cbn [forallb] in *.
  apply andb_prop in X11. apply andb_prop in X12'. destruct X11 as [A1 A2], X12' as [B1 B2]. rewrite A1, B1, (IH A2 B2). reflexivity.
Qed.

(* ================================================================== C03: ok_connect *)
(* CR b g ty rw s: what the registrations say about what was received (g: a lower bound of the ghost;
   ty, rw: the connection's type and raw flag, constant while the attempt lasts) *)
Definition is_pa (k : hkind) : bool := match k with HFeaturesSasl | HFeaturesCompress | HCompressResult | HSm => true | _ => false end.
Definition pa_oh (h : openh) : bool := match h with OpenSasl | OpenCompress => true | _ => false end.
Definition postauth (s : state) : bool :=
  existsb (fun x => is_pa (fst x)) (handlers s) || id_has IKBind s || id_has IKSession s || pa_oh (oh s).
Definition clientreg (s : state) : bool :=
  negb (Nat.eqb (hmarks s) 0) || negb (Nat.eqb (imarks s) 0) || id_has IKLegacy s || client_oh (oh s).
Definition live (s : state) : bool := match st s with Disconnected => false | _ => true end.
Definition isclient (ty : ctype) (rw : bool) : Prop := ty = TClient /\ rw = false.
Definition iscomp (ty : ctype) (rw : bool) : Prop := ty = TComponent /\ rw = false.
Definition CR (b : bool) (g : ghost) (ty : ctype) (rw : bool) (s : state) : Prop :=
  (postauth s = true -> g_auth_ok g = true) /\
  (id_has IKSession s = true -> g_bound g = true) /\
  (b = true -> live s = true -> h_has HSm s = true -> sm_resume s = false -> g_bound g = true) /\
  (sm_enabled s = true -> g_bound g = true \/ g_resumed g = true) /\
  (live s = true -> clientreg s = true -> isclient ty rw) /\
  (live s = true -> (h_has HComponentHs s = true \/ oh s = OpenComponent) -> iscomp ty rw) /\
  (oh s = OpenRaw -> rw = true).
Ltac cr_split := refine (conj _ (conj _ (conj _ (conj _ (conj _ (conj _ _)))))).
Ltac cr_dest H := destruct H as (R1 & R2 & R3 & R4 & R5 & R6 & R7).
Lemma CR_mono : forall b g g' ty rw s, GFr g g' -> CR b g ty rw s -> CR b g' ty rw s.
Proof.
  intros b g g' ty rw s F H. cr_dest H. cr_split; auto; try (intros; apply F; auto).
  intros E. destruct (R4 E) as [A|A]; [left | right]; apply F; exact A.
Qed.
Lemma CR_set_f_tls_disabled : forall b g ty rw v s, CR b g ty rw s -> CR b g ty rw (set_f_tls_disabled v s).
Proof. intros b g ty rw v []; exact (fun h => h). Qed.
#[export] Hint Resolve CR_set_f_tls_disabled : crdb.
Lemma CR_set_f_tls_mandatory : forall b g ty rw v s, CR b g ty rw s -> CR b g ty rw (set_f_tls_mandatory v s).
Proof. intros b g ty rw v []; exact (fun h => h). Qed.
#[export] Hint Resolve CR_set_f_tls_mandatory : crdb.
Lemma CR_set_f_legacy_ssl : forall b g ty rw v s, CR b g ty rw s -> CR b g ty rw (set_f_legacy_ssl v s).
Proof. intros b g ty rw v []; exact (fun h => h). Qed.
#[export] Hint Resolve CR_set_f_legacy_ssl : crdb.
Lemma CR_set_f_tls_trust : forall b g ty rw v s, CR b g ty rw s -> CR b g ty rw (set_f_tls_trust v s).
Proof. intros b g ty rw v []; exact (fun h => h). Qed.
#[export] Hint Resolve CR_set_f_tls_trust : crdb.
Lemma CR_set_f_legacy_auth : forall b g ty rw v s, CR b g ty rw s -> CR b g ty rw (set_f_legacy_auth v s).
Proof. intros b g ty rw v []; exact (fun h => h). Qed.
#[export] Hint Resolve CR_set_f_legacy_auth : crdb.
Lemma CR_set_f_sm_disable : forall b g ty rw v s, CR b g ty rw s -> CR b g ty rw (set_f_sm_disable v s).
Proof. intros b g ty rw v []; exact (fun h => h). Qed.
#[export] Hint Resolve CR_set_f_sm_disable : crdb.
Lemma CR_set_f_comp_allowed : forall b g ty rw v s, CR b g ty rw s -> CR b g ty rw (set_f_comp_allowed v s).
Proof. intros b g ty rw v []; exact (fun h => h). Qed.
#[export] Hint Resolve CR_set_f_comp_allowed : crdb.
Lemma CR_set_f_comp_dont_reset : forall b g ty rw v s, CR b g ty rw s -> CR b g ty rw (set_f_comp_dont_reset v s).
Proof. intros b g ty rw v []; exact (fun h => h). Qed.
#[export] Hint Resolve CR_set_f_comp_dont_reset : crdb.
Lemma CR_set_jid_set : forall b g ty rw v s, CR b g ty rw s -> CR b g ty rw (set_jid_set v s).
Proof. intros b g ty rw v []; exact (fun h => h). Qed.
#[export] Hint Resolve CR_set_jid_set : crdb.
Lemma CR_set_jid_node : forall b g ty rw v s, CR b g ty rw s -> CR b g ty rw (set_jid_node v s).
Proof. intros b g ty rw v []; exact (fun h => h). Qed.
#[export] Hint Resolve CR_set_jid_node : crdb.
Lemma CR_set_jid_res : forall b g ty rw v s, CR b g ty rw s -> CR b g ty rw (set_jid_res v s).
Proof. intros b g ty rw v []; exact (fun h => h). Qed.
#[export] Hint Resolve CR_set_jid_res : crdb.
Lemma CR_set_pass_set : forall b g ty rw v s, CR b g ty rw s -> CR b g ty rw (set_pass_set v s).
Proof. intros b g ty rw v []; exact (fun h => h). Qed.
#[export] Hint Resolve CR_set_pass_set : crdb.
Lemma CR_set_cert_set : forall b g ty rw v s, CR b g ty rw s -> CR b g ty rw (set_cert_set v s).
Proof. intros b g ty rw v []; exact (fun h => h). Qed.
#[export] Hint Resolve CR_set_cert_set : crdb.
Lemma CR_set_is_raw : forall b g ty rw v s, CR b g ty rw s -> CR b g ty rw (set_is_raw v s).
Proof. intros b g ty rw v []; exact (fun h => h). Qed.
#[export] Hint Resolve CR_set_is_raw : crdb.
Lemma CR_set_typ : forall b g ty rw v s, CR b g ty rw s -> CR b g ty rw (set_typ v s).
Proof. intros b g ty rw v []; exact (fun h => h). Qed.
#[export] Hint Resolve CR_set_typ : crdb.
Lemma CR_set_user_handler : forall b g ty rw v s, CR b g ty rw s -> CR b g ty rw (set_user_handler v s).
Proof. intros b g ty rw v []; exact (fun h => h). Qed.
#[export] Hint Resolve CR_set_user_handler : crdb.
Lemma CR_set_user_timed : forall b g ty rw v s, CR b g ty rw s -> CR b g ty rw (set_user_timed v s).
Proof. intros b g ty rw v []; exact (fun h => h). Qed.
#[export] Hint Resolve CR_set_user_timed : crdb.
Lemma CR_set_tlsnew_ok : forall b g ty rw v s, CR b g ty rw s -> CR b g ty rw (set_tlsnew_ok v s).
Proof. intros b g ty rw v []; exact (fun h => h). Qed.
#[export] Hint Resolve CR_set_tlsnew_ok : crdb.
Lemma CR_set_cb_avail : forall b g ty rw v s, CR b g ty rw s -> CR b g ty rw (set_cb_avail v s).
Proof. intros b g ty rw v []; exact (fun h => h). Qed.
#[export] Hint Resolve CR_set_cb_avail : crdb.
Lemma CR_set_tls_verdicts : forall b g ty rw v s, CR b g ty rw s -> CR b g ty rw (set_tls_verdicts v s).
Proof. intros b g ty rw v []; exact (fun h => h). Qed.
#[export] Hint Resolve CR_set_tls_verdicts : crdb.
Lemma CR_set_next_cands : forall b g ty rw v s, CR b g ty rw s -> CR b g ty rw (set_next_cands v s).
Proof. intros b g ty rw v []; exact (fun h => h). Qed.
#[export] Hint Resolve CR_set_next_cands : crdb.
Lemma CR_set_cands : forall b g ty rw v s, CR b g ty rw s -> CR b g ty rw (set_cands v s).
Proof. intros b g ty rw v []; exact (fun h => h). Qed.
#[export] Hint Resolve CR_set_cands : crdb.
Lemma CR_set_cur_ep : forall b g ty rw v s, CR b g ty rw s -> CR b g ty rw (set_cur_ep v s).
Proof. intros b g ty rw v []; exact (fun h => h). Qed.
#[export] Hint Resolve CR_set_cur_ep : crdb.
Lemma CR_set_stamp : forall b g ty rw v s, CR b g ty rw s -> CR b g ty rw (set_stamp v s).
Proof. intros b g ty rw v []; exact (fun h => h). Qed.
#[export] Hint Resolve CR_set_stamp : crdb.
Lemma CR_set_err : forall b g ty rw v s, CR b g ty rw s -> CR b g ty rw (set_err v s).
Proof. intros b g ty rw v []; exact (fun h => h). Qed.
#[export] Hint Resolve CR_set_err : crdb.
Lemma CR_set_stream_error : forall b g ty rw v s, CR b g ty rw s -> CR b g ty rw (set_stream_error v s).
Proof. intros b g ty rw v []; exact (fun h => h). Qed.
#[export] Hint Resolve CR_set_stream_error : crdb.
Lemma CR_set_secured : forall b g ty rw v s, CR b g ty rw s -> CR b g ty rw (set_secured v s).
Proof. intros b g ty rw v []; exact (fun h => h). Qed.
#[export] Hint Resolve CR_set_secured : crdb.
Lemma CR_set_tls_present : forall b g ty rw v s, CR b g ty rw s -> CR b g ty rw (set_tls_present v s).
Proof. intros b g ty rw v []; exact (fun h => h). Qed.
#[export] Hint Resolve CR_set_tls_present : crdb.
Lemma CR_set_tls_failed : forall b g ty rw v s, CR b g ty rw s -> CR b g ty rw (set_tls_failed v s).
Proof. intros b g ty rw v []; exact (fun h => h). Qed.
#[export] Hint Resolve CR_set_tls_failed : crdb.
Lemma CR_set_tls_support : forall b g ty rw v s, CR b g ty rw s -> CR b g ty rw (set_tls_support v s).
Proof. intros b g ty rw v []; exact (fun h => h). Qed.
#[export] Hint Resolve CR_set_tls_support : crdb.
Lemma CR_set_sasl : forall b g ty rw v s, CR b g ty rw s -> CR b g ty rw (set_sasl v s).
Proof. intros b g ty rw v []; exact (fun h => h). Qed.
#[export] Hint Resolve CR_set_sasl : crdb.
Lemma CR_set_bind_required : forall b g ty rw v s, CR b g ty rw s -> CR b g ty rw (set_bind_required v s).
Proof. intros b g ty rw v []; exact (fun h => h). Qed.
#[export] Hint Resolve CR_set_bind_required : crdb.
Lemma CR_set_session_required : forall b g ty rw v s, CR b g ty rw s -> CR b g ty rw (set_session_required v s).
Proof. intros b g ty rw v []; exact (fun h => h). Qed.
#[export] Hint Resolve CR_set_session_required : crdb.
Lemma CR_set_comp_supported : forall b g ty rw v s, CR b g ty rw s -> CR b g ty rw (set_comp_supported v s).
Proof. intros b g ty rw v []; exact (fun h => h). Qed.
#[export] Hint Resolve CR_set_comp_supported : crdb.
Lemma CR_set_comp_active : forall b g ty rw v s, CR b g ty rw s -> CR b g ty rw (set_comp_active v s).
Proof. intros b g ty rw v []; exact (fun h => h). Qed.
#[export] Hint Resolve CR_set_comp_active : crdb.
Lemma CR_set_sm_alloc : forall b g ty rw v s, CR b g ty rw s -> CR b g ty rw (set_sm_alloc v s).
Proof. intros b g ty rw v []; exact (fun h => h). Qed.
#[export] Hint Resolve CR_set_sm_alloc : crdb.
Lemma CR_set_sm_support : forall b g ty rw v s, CR b g ty rw s -> CR b g ty rw (set_sm_support v s).
Proof. intros b g ty rw v []; exact (fun h => h). Qed.
#[export] Hint Resolve CR_set_sm_support : crdb.
Lemma CR_set_sm_can_resume : forall b g ty rw v s, CR b g ty rw s -> CR b g ty rw (set_sm_can_resume v s).
Proof. intros b g ty rw v []; exact (fun h => h). Qed.
#[export] Hint Resolve CR_set_sm_can_resume : crdb.
Lemma CR_set_sm_dont_request : forall b g ty rw v s, CR b g ty rw s -> CR b g ty rw (set_sm_dont_request v s).
Proof. intros b g ty rw v []; exact (fun h => h). Qed.
#[export] Hint Resolve CR_set_sm_dont_request : crdb.
Lemma CR_set_sm_has_previd : forall b g ty rw v s, CR b g ty rw s -> CR b g ty rw (set_sm_has_previd v s).
Proof. intros b g ty rw v []; exact (fun h => h). Qed.
#[export] Hint Resolve CR_set_sm_has_previd : crdb.
Lemma CR_set_sm_has_id : forall b g ty rw v s, CR b g ty rw s -> CR b g ty rw (set_sm_has_id v s).
Proof. intros b g ty rw v []; exact (fun h => h). Qed.
#[export] Hint Resolve CR_set_sm_has_id : crdb.
Lemma CR_set_sm_parked : forall b g ty rw v s, CR b g ty rw s -> CR b g ty rw (set_sm_parked v s).
Proof. intros b g ty rw v []; exact (fun h => h). Qed.
#[export] Hint Resolve CR_set_sm_parked : crdb.
Lemma CR_set_sm_r_sent : forall b g ty rw v s, CR b g ty rw s -> CR b g ty rw (set_sm_r_sent v s).
Proof. intros b g ty rw v []; exact (fun h => h). Qed.
#[export] Hint Resolve CR_set_sm_r_sent : crdb.
Lemma CR_set_sm_bind_saved : forall b g ty rw v s, CR b g ty rw s -> CR b g ty rw (set_sm_bind_saved v s).
Proof. intros b g ty rw v []; exact (fun h => h). Qed.
#[export] Hint Resolve CR_set_sm_bind_saved : crdb.
Lemma CR_set_bound_jid : forall b g ty rw v s, CR b g ty rw s -> CR b g ty rw (set_bound_jid v s).
Proof. intros b g ty rw v []; exact (fun h => h). Qed.
#[export] Hint Resolve CR_set_bound_jid : crdb.
Lemma CR_set_stream_id : forall b g ty rw v s, CR b g ty rw s -> CR b g ty rw (set_stream_id v s).
Proof. intros b g ty rw v []; exact (fun h => h). Qed.
#[export] Hint Resolve CR_set_stream_id : crdb.
Lemma CR_set_neg_done : forall b g ty rw v s, CR b g ty rw s -> CR b g ty rw (set_neg_done v s).
Proof. intros b g ty rw v []; exact (fun h => h). Qed.
#[export] Hint Resolve CR_set_neg_done : crdb.
Lemma CR_set_reset_parser : forall b g ty rw v s, CR b g ty rw s -> CR b g ty rw (set_reset_parser v s).
Proof. intros b g ty rw v []; exact (fun h => h). Qed.
#[export] Hint Resolve CR_set_reset_parser : crdb.
Lemma CR_set_ps : forall b g ty rw v s, CR b g ty rw s -> CR b g ty rw (set_ps v s).
Proof. intros b g ty rw v []; exact (fun h => h). Qed.
#[export] Hint Resolve CR_set_ps : crdb.
Lemma CR_set_timed : forall b g ty rw v s, CR b g ty rw s -> CR b g ty rw (set_timed v s).
Proof. intros b g ty rw v []; exact (fun h => h). Qed.
#[export] Hint Resolve CR_set_timed : crdb.
Lemma CR_set_sendq : forall b g ty rw v s, CR b g ty rw s -> CR b g ty rw (set_sendq v s).
Proof. intros b g ty rw v []; exact (fun h => h). Qed.
#[export] Hint Resolve CR_set_sendq : crdb.
Lemma CR_set_rxq : forall b g ty rw v s, CR b g ty rw s -> CR b g ty rw (set_rxq v s).
Proof. intros b g ty rw v []; exact (fun h => h). Qed.
#[export] Hint Resolve CR_set_rxq : crdb.
Lemma CR_set_smq : forall b g ty rw v s, CR b g ty rw s -> CR b g ty rw (set_smq v s).
Proof. intros b g ty rw v []; exact (fun h => h). Qed.
#[export] Hint Resolve CR_set_smq : crdb.
Lemma CR_set_sm_sent : forall b g ty rw v s, CR b g ty rw s -> CR b g ty rw (set_sm_sent v s).
Proof. intros b g ty rw v []; exact (fun h => h). Qed.
#[export] Hint Resolve CR_set_sm_sent : crdb.
Lemma CR_set_scram_serial : forall b g ty rw v s, CR b g ty rw s -> CR b g ty rw (set_scram_serial v s).
Proof. intros b g ty rw v []; exact (fun h => h). Qed.
#[export] Hint Resolve CR_set_scram_serial : crdb.
Lemma CR_set_crashed : forall b g ty rw v s, CR b g ty rw s -> CR b g ty rw (set_crashed v s).
Proof. intros b g ty rw v []; exact (fun h => h). Qed.
#[export] Hint Resolve CR_set_crashed : crdb.
Lemma CR_set_gh : forall b g ty rw v s, CR b g ty rw s -> CR b g ty rw (set_gh v s).
Proof. intros b g ty rw v []; exact (fun h => h). Qed.
#[export] Hint Resolve CR_set_gh : crdb.
Lemma CR_upg : forall b g ty rw f s, CR b g ty rw s -> CR b g ty rw (upg f s).
Proof. intros b g ty rw f []; exact (fun h => h). Qed.
#[export] Hint Resolve CR_upg : crdb.

Lemma existsb_pa_app : forall (a b : list (hkind * bool)),
  existsb (fun x => is_pa (fst x)) (a ++ b) = existsb (fun x => is_pa (fst x)) a || existsb (fun x => is_pa (fst x)) b.
Proof. intros; apply existsb_app. Qed.
Definition okh (g : ghost) (ty : ctype) (rw : bool) (s : state) (k : hkind) : Prop :=
  (is_pa k = true -> g_auth_ok g = true) /\
  (hkind_eqb HSm k = true -> sm_resume s = false -> g_bound g = true) /\
  (is_main k = true -> isclient ty rw) /\
  (hkind_eqb HComponentHs k = true -> iscomp ty rw).
Lemma hmarks_h_add_nm : forall k s, is_main k = false -> hmarks (h_add k s) = hmarks s.
Proof.
  intros k s M. unfold h_add. destruct (h_has k s); auto. unfold hmarks. sproj. rewrite filter_length_app. cbn. rewrite M. cbn. lia.
Qed.
Lemma CR_h_add : forall b g ty rw k s, okh g ty rw s k -> CR b g ty rw s -> CR b g ty rw (h_add k s).
Proof.
  intros b g ty rw k s (O1 & O2 & O3 & O4) H. cr_dest H.
  assert (Eid : forall j, id_has j (h_add k s) = id_has j s) by (intros; unfold h_add; cases; reflexivity).
  assert (Eoh : oh (h_add k s) = oh s) by (unfold h_add; cases; reflexivity).
  assert (Elv : live (h_add k s) = live s) by (unfold h_add; cases; reflexivity).
  assert (Esr : sm_resume (h_add k s) = sm_resume s) by (unfold h_add; cases; reflexivity).
  assert (Ese : sm_enabled (h_add k s) = sm_enabled s) by (unfold h_add; cases; reflexivity).
  assert (Eim : imarks (h_add k s) = imarks s) by (unfold h_add; cases; reflexivity).
  cr_split; rewrite ?Eid, ?Eoh, ?Elv, ?Esr, ?Ese; auto.
  - unfold postauth. rewrite !Eid, Eoh. intros P. destruct (is_pa k) eqn:K; auto. apply R1. unfold postauth.
    revert P. unfold h_add. destruct (h_has k s); auto. sproj. rewrite existsb_pa_app. cbn. rewrite K. rewrite orb_false_r. auto.
  - rewrite h_has_h_add. intros Bt L Hh Sr. destruct (hkind_eqb HSm k) eqn:K; auto. rewrite orb_false_r in Hh. auto.
  - intros L C. destruct (is_main k) eqn:K; auto. apply R5; auto. revert C. unfold clientreg. rewrite !Eid, Eoh, Eim, (hmarks_h_add_nm k s K). auto.
  - rewrite h_has_h_add. intros L [C|C]; auto. destruct (hkind_eqb HComponentHs k) eqn:K; auto. rewrite orb_false_r in C. auto.
Qed.
Lemma existsb_filter_le : forall {A} (p f : A -> bool) l, existsb p (filter f l) = true -> existsb p l = true.
Proof.
  intros A p f l. induction l as [|x l IH]; cbn; auto. destruct (f x); cbn; intros P.
  - apply orb_prop in P. destruct P as [P|P]; [rewrite P; reflexivity | rewrite (IH P); apply orb_true_r].
  - rewrite (IH P). apply orb_true_r.
Qed.
Lemma postauth_h_del : forall k s, postauth (h_del k s) = true -> postauth s = true.
Proof.
  intros k s. unfold postauth, h_del, id_has. sproj. intros P.
  destruct (existsb (fun x => is_pa (fst x)) (filter (fun x => negb (hkind_eqb k (fst x))) (handlers s))) eqn:E.
  - rewrite (existsb_filter_le _ _ _ E). reflexivity.
  - cbn [orb] in P. rewrite <- !orb_assoc. rewrite <- !orb_assoc in P. rewrite P. apply orb_true_r.
Qed.
Lemma clientreg_h_del : forall k s, clientreg (h_del k s) = true -> clientreg s = true.
Proof.
  intros k s. unfold clientreg. pose proof (hmarks_h_del_le k s).
  assert (imarks (h_del k s) = imarks s) as -> by reflexivity. assert (id_has IKLegacy (h_del k s) = id_has IKLegacy s) as -> by reflexivity.
  assert (oh (h_del k s) = oh s) as -> by reflexivity.
  destruct (Nat.eqb (hmarks (h_del k s)) 0) eqn:E1; cbn [negb orb].
  - intros C. destruct (negb (Nat.eqb (hmarks s) 0)); [reflexivity | exact C].
  - intros _. destruct (Nat.eqb (hmarks s) 0) eqn:E2; auto. apply Nat.eqb_eq in E2. apply Nat.eqb_neq in E1. lia.
Qed.
Lemma CR_h_del : forall b g ty rw k s, CR b g ty rw s -> CR b g ty rw (h_del k s).
Proof.
  intros b g ty rw k s H. cr_dest H.
  assert (Hh : forall j, h_has j (h_del k s) = true -> h_has j s = true) by (intros j; rewrite h_has_h_del; intros E; apply andb_prop in E; apply E).
  cr_split; auto.
  - intros P. apply R1, (postauth_h_del k s P).
  - intros L C. apply R5; auto. exact (clientreg_h_del k s C).
  - intros L [C|C]; apply R6; auto.
Qed.
#[export] Hint Resolve CR_h_del : crdb.
Definition oki (g : ghost) (ty : ctype) (rw : bool) (k : idk) : Prop :=
  (is_main_id k = true -> g_auth_ok g = true) /\ (idk_eqb IKSession k = true -> g_bound g = true) /\ isclient ty rw.
Lemma imarks_id_add_ge : forall k s, (imarks s <= imarks (id_add k s))%nat.
Proof. intros. unfold id_add. destruct (id_has k s); auto. unfold imarks. sproj. rewrite filter_length_app. lia. Qed.
Lemma CR_id_add : forall b g ty rw k s, oki g ty rw k -> CR b g ty rw s -> CR b g ty rw (id_add k s).
Proof.
  intros b g ty rw k s (O1 & O2 & O3) H. cr_dest H.
  assert (Eh : handlers (id_add k s) = handlers s) by (unfold id_add; cases; reflexivity).
  assert (Eoh : oh (id_add k s) = oh s) by (unfold id_add; cases; reflexivity).
  assert (Elv : live (id_add k s) = live s) by (unfold id_add; cases; reflexivity).
  assert (Esr : sm_resume (id_add k s) = sm_resume s) by (unfold id_add; cases; reflexivity).
  assert (Ese : sm_enabled (id_add k s) = sm_enabled s) by (unfold id_add; cases; reflexivity).
  cr_split; unfold h_has; rewrite ?Eh, ?Eoh, ?Elv, ?Esr, ?Ese; auto.
  - unfold postauth. rewrite Eh, Eoh, !id_has_id_add. intros P. destruct (is_main_id k) eqn:K; auto. apply R1. unfold postauth.
    destruct k; try discriminate; cbn [idk_eqb] in P; rewrite !orb_false_r in P; exact P.
  - rewrite id_has_id_add. intros P. destruct (idk_eqb IKSession k) eqn:K; auto. rewrite orb_false_r in P. auto.
Qed.
(* the user's id handler is no registration of the negotiation *)
Lemma CR_id_add_user : forall b g ty rw s, CR b g ty rw s -> CR b g ty rw (id_add IKUser s).
Proof.
  intros b g ty rw s H. cr_dest H.
  assert (Eh : handlers (id_add IKUser s) = handlers s) by (unfold id_add; cases; reflexivity).
  assert (Eoh : oh (id_add IKUser s) = oh s) by (unfold id_add; cases; reflexivity).
  assert (Elv : live (id_add IKUser s) = live s) by (unfold id_add; cases; reflexivity).
  assert (Esr : sm_resume (id_add IKUser s) = sm_resume s) by (unfold id_add; cases; reflexivity).
  assert (Ese : sm_enabled (id_add IKUser s) = sm_enabled s) by (unfold id_add; cases; reflexivity).
  assert (Ei : forall j, idk_eqb j IKUser = false -> id_has j (id_add IKUser s) = id_has j s)
    by (intros j J; rewrite id_has_id_add, J, orb_false_r; reflexivity).
  assert (Em : imarks (id_add IKUser s) = imarks s) by apply imarks_id_add_user.
  assert (Ehm : hmarks (id_add IKUser s) = hmarks s) by (unfold hmarks; rewrite Eh; reflexivity).
  cr_split; unfold h_has, postauth, clientreg;
    rewrite ?Eh, ?Eoh, ?Elv, ?Esr, ?Ese, ?Em, ?Ehm, ?(Ei IKBind eq_refl), ?(Ei IKSession eq_refl), ?(Ei IKLegacy eq_refl); auto.
Qed.
Lemma postauth_id_del : forall k s, postauth (id_del k s) = true -> postauth s = true.
Proof.
  intros k s. unfold postauth. rewrite !id_has_id_del. assert (handlers (id_del k s) = handlers s) as -> by reflexivity.
  assert (oh (id_del k s) = oh s) as -> by reflexivity. intros P.
  repeat (apply orb_prop in P; destruct P as [P|P]); rewrite ?P, ?orb_true_r; auto; apply andb_prop in P; destruct P as [P _]; rewrite P, ?orb_true_r; reflexivity.
Qed.
Lemma clientreg_id_del : forall k s, clientreg (id_del k s) = true -> clientreg s = true.
Proof.
  intros k s. unfold clientreg. pose proof (imarks_id_del k s). rewrite id_has_id_del.
  assert (hmarks (id_del k s) = hmarks s) as -> by reflexivity. assert (oh (id_del k s) = oh s) as -> by reflexivity.
  destruct (negb (Nat.eqb (hmarks s) 0)); [reflexivity|]. cbn [orb].
  destruct (Nat.eqb (imarks (id_del k s)) 0) eqn:E1; cbn [negb orb].
  - intros C. destruct (negb (Nat.eqb (imarks s) 0)); [reflexivity|]. cbn [orb]. apply orb_prop in C. destruct C as [C|C]; [apply andb_prop in C; destruct C as [C _]; rewrite C; reflexivity | rewrite C; apply orb_true_r].
  - intros _. destruct (Nat.eqb (imarks s) 0) eqn:E2; auto. apply Nat.eqb_eq in E2. apply Nat.eqb_neq in E1. lia.
Qed.
Lemma CR_id_del : forall b g ty rw k s, CR b g ty rw s -> CR b g ty rw (id_del k s).
Proof.
  intros b g ty rw k s H. cr_dest H. cr_split; auto.
  - intros P. apply R1, (postauth_id_del k s P).
  - rewrite id_has_id_del. intros P. apply andb_prop in P. apply R2, P.
  - intros L C. apply R5; auto. exact (clientreg_id_del k s C).
Qed.
#[export] Hint Resolve CR_id_del : crdb.
Lemma CR_enable_all : forall b g ty rw s, CR b g ty rw s -> CR b g ty rw (set_handlers (map (fun x => (fst x, true)) (handlers s)) s).
Proof.
  intros b g ty rw s H. cr_dest H.
  assert (E : existsb (fun x => is_pa (fst x)) (map (fun x : hkind * bool => (fst x, true)) (handlers s)) = existsb (fun x => is_pa (fst x)) (handlers s)).
  { induction (handlers s) as [|x l IH]; cbn; [reflexivity|]. rewrite IH. reflexivity. }
  cr_split; auto.
  - unfold postauth, id_has. sproj. rewrite E. exact R1.
  - rewrite h_has_enable_all. exact R3.
  - unfold clientreg. rewrite hmarks_enable_all. exact R5.
  - rewrite h_has_enable_all. exact R6.
Qed.
#[export] Hint Resolve CR_enable_all : crdb.
Definition okr (g : ghost) (ty : ctype) (rw : bool) (h : openh) : Prop :=
  (pa_oh h = true -> g_auth_ok g = true) /\ (client_oh h = true -> isclient ty rw) /\ h <> OpenComponent /\ (h = OpenRaw -> rw = true).
Lemma CR_prepare_reset : forall b g ty rw h s, okr g ty rw h -> CR b g ty rw s -> CR b g ty rw (prepare_reset h s).
Proof.
  intros b g ty rw h s (O1 & O2 & O3 & O4) H. cr_dest H. unfold prepare_reset. cr_split; auto.
  - unfold postauth, id_has. sproj. intros P. destruct (pa_oh h) eqn:K; auto. apply R1. unfold postauth, id_has. rewrite orb_false_r in P. rewrite P. reflexivity.
  - unfold clientreg, id_has, hmarks, imarks. sproj. intros L C. destruct (client_oh h) eqn:K; auto. apply R5; auto.
    unfold clientreg, id_has, hmarks, imarks. rewrite orb_false_r in C. rewrite C. reflexivity.
  - unfold h_has. sproj. intros L [C|C]; [apply R6; auto | congruence].
Qed.
Lemma CR_set_sm_resume_true : forall b g ty rw s, CR b g ty rw s -> CR b g ty rw (set_sm_resume true s).
Proof. intros b g ty rw s H. cr_dest H. cr_split; auto. unfold h_has. sproj. intros; discriminate. Qed.
Lemma CR_set_sm_enabled_false : forall b g ty rw s, CR b g ty rw s -> CR b g ty rw (set_sm_enabled false s).
Proof. intros b g ty rw s H. cr_dest H. cr_split; auto. sproj. intros; discriminate. Qed.
Lemma CR_set_sm_enabled_true : forall b g ty rw s, (g_bound g = true \/ g_resumed g = true) -> CR b g ty rw s -> CR b g ty rw (set_sm_enabled true s).
Proof. intros b g ty rw s B H. cr_dest H. cr_split; auto. Qed.
Lemma CR_set_st_disc : forall b g ty rw s, CR b g ty rw s -> CR b g ty rw (set_st Disconnected s).
Proof. intros b g ty rw s H. cr_dest H. cr_split; auto; unfold live; sproj; intros; discriminate. Qed.
Lemma CR_dead_sm : forall b g ty rw s, live s = false -> CR b g ty rw s -> CR b g ty rw (reset_sm_for_reconnect s).
Proof.
  intros b g ty rw s L H. cr_dest H.
  assert (E1 : handlers (reset_sm_for_reconnect s) = handlers s) by (unfold reset_sm_for_reconnect; cases; reflexivity).
  assert (E2 : idhandlers (reset_sm_for_reconnect s) = idhandlers s) by (unfold reset_sm_for_reconnect; cases; reflexivity).
  assert (E3 : oh (reset_sm_for_reconnect s) = oh s) by (unfold reset_sm_for_reconnect; cases; reflexivity).
  assert (E4 : live (reset_sm_for_reconnect s) = live s) by (unfold reset_sm_for_reconnect; cases; reflexivity).
  assert (E5 : sm_enabled (reset_sm_for_reconnect s) = false) by (unfold reset_sm_for_reconnect; cases; reflexivity).
  cr_split; unfold postauth, clientreg, h_has, id_has, hmarks, imarks in *; rewrite ?E1, ?E2, ?E3, ?E4, ?E5, ?L; auto; intros; discriminate.
Qed.
#[export] Hint Resolve CR_set_sm_resume_true CR_set_sm_enabled_false CR_set_st_disc : crdb.
Lemma CR_conn_disconnect : forall b g ty rw s, CR b g ty rw s -> CR b g ty rw (fst (conn_disconnect s)).
Proof.
  intros b g ty rw s H. name_result. unfold conn_disconnect, ret. cases; leaf; eauto 10 with crdb;
    repeat apply CR_upg; (apply CR_dead_sm; [reflexivity | eauto 10 with crdb]).
Qed.
#[export] Hint Resolve CR_conn_disconnect : crdb.
Lemma CR_q_append : forall b g ty rw w u sm s, CR b g ty rw s -> CR b g ty rw (q_append w u sm s).
Proof. intros; unfold q_append; cases; eauto 10 with crdb. Qed.
#[export] Hint Resolve CR_q_append : crdb.
Lemma CR_send_gated : forall b g ty rw w u sm s, CR b g ty rw s -> CR b g ty rw (send_gated w u sm s).
Proof. intros; unfold send_gated, ret; cases; leaf; eauto 30 with crdb. Qed.
#[export] Hint Resolve CR_send_gated : crdb.
Lemma CR_send_raw_m : forall b g ty rw w u sm s, CR b g ty rw s -> CR b g ty rw (send_raw_m w u sm s).
Proof. intros; unfold send_raw_m, ret; cases; leaf; eauto 30 with crdb. Qed.
#[export] Hint Resolve CR_send_raw_m : crdb.
Lemma CR_timed_add : forall b g ty rw k n s, CR b g ty rw s -> CR b g ty rw (timed_add k n s).
Proof. intros; unfold timed_add, ret; cases; leaf; eauto 30 with crdb. Qed.
#[export] Hint Resolve CR_timed_add : crdb.
Lemma CR_timed_del : forall b g ty rw k s, CR b g ty rw s -> CR b g ty rw (timed_del k s).
Proof. intros; unfold timed_del, ret; cases; leaf; eauto 30 with crdb. Qed.
#[export] Hint Resolve CR_timed_del : crdb.
Lemma CR_timed_reset_all : forall b g ty rw n s, CR b g ty rw s -> CR b g ty rw (timed_reset_all n s).
Proof. intros; unfold timed_reset_all, ret; cases; leaf; eauto 30 with crdb. Qed.
#[export] Hint Resolve CR_timed_reset_all : crdb.
Lemma CR_timed_set_stamp : forall b g ty rw k n s, CR b g ty rw s -> CR b g ty rw (timed_set_stamp k n s).
Proof. intros; unfold timed_set_stamp, ret; cases; leaf; eauto 30 with crdb. Qed.
#[export] Hint Resolve CR_timed_set_stamp : crdb.
Lemma CR_sm_queue_cleanup : forall b g ty rw h s, CR b g ty rw s -> CR b g ty rw (sm_queue_cleanup h s).
Proof. intros; unfold sm_queue_cleanup, ret; cases; leaf; eauto 30 with crdb. Qed.
#[export] Hint Resolve CR_sm_queue_cleanup : crdb.
Lemma CR_xmpp_disconnect : forall b g ty rw n s, CR b g ty rw s -> CR b g ty rw (xmpp_disconnect n s).
Proof. intros; unfold xmpp_disconnect, ret; cases; leaf; eauto 30 with crdb. Qed.
#[export] Hint Resolve CR_xmpp_disconnect : crdb.
Lemma CR_conn_open_stream : forall b g ty rw s, CR b g ty rw s -> CR b g ty rw (conn_open_stream s).
Proof. intros; unfold conn_open_stream, ret; cases; leaf; eauto 30 with crdb. Qed.
#[export] Hint Resolve CR_conn_open_stream : crdb.
Lemma CR_conn_tls_start : forall b g ty rw s, CR b g ty rw s -> CR b g ty rw (fst (fst (conn_tls_start s))).
Proof. intros; name_result; unfold conn_tls_start, ret; cases; leaf; eauto 30 with crdb. Qed.
#[export] Hint Resolve CR_conn_tls_start : crdb.
Lemma CR_stream_negotiation_success : forall b g ty rw s, CR b g ty rw s -> CR b g ty rw (fst (stream_negotiation_success s)).
Proof. intros; name_result; unfold stream_negotiation_success, ret; cases; leaf; eauto 30 with crdb. Qed.
#[export] Hint Resolve CR_stream_negotiation_success : crdb.
Lemma CR_note_rx : forall b g ty rw e s, CR b g ty rw s -> CR b g ty rw (note_rx e s).
Proof. intros; unfold note_rx; cbv zeta; eauto with crdb. Qed.
#[export] Hint Resolve CR_note_rx : crdb.
Lemma CR_sm_handle : forall b g ty rw e s, CR b g ty rw s -> CR b g ty rw (sm_handle e s).
Proof. intros; unfold sm_handle, ret; cases; leaf; eauto 30 with crdb. Qed.
#[export] Hint Resolve CR_sm_handle : crdb.
Lemma CR_stream_end : forall b g ty rw s, CR b g ty rw s -> CR b g ty rw (fst (stream_end s)).
Proof. intros; name_result; unfold stream_end, ret; cases; leaf; eauto 30 with crdb. Qed.
#[export] Hint Resolve CR_stream_end : crdb.
Lemma CR_connect_next : forall b g ty rw n s, CR b g ty rw s -> CR b g ty rw (fst (fst (connect_next n s))).
Proof. intros; name_result; unfold connect_next; destruct (sock_connect (cands s)) as [oo [[k r]|]]; leaf; eauto 20 with crdb. Qed.
#[export] Hint Resolve CR_connect_next : crdb.
Lemma CR_sm_queue_resend : forall b g ty rw s, CR b g ty rw s -> CR b g ty rw (sm_queue_resend s).
Proof. intros; unfold sm_queue_resend; apply fold_left_inv; eauto with crdb. Qed.
#[export] Hint Resolve CR_sm_queue_resend : crdb.
Ltac okh_tac := refine (conj _ (conj _ (conj _ _))); intros; first [discriminate | assumption | auto].
Ltac oki_tac := refine (conj _ (conj _ _)); intros; first [discriminate | assumption | auto].
Ltac okr_tac := refine (conj _ (conj _ (conj _ _))); intros; first [discriminate | assumption | auto].
#[export] Hint Extern 1 (CR _ _ _ _ (h_add _ _)) => (apply CR_h_add; [okh_tac | ]) : crdb.
#[export] Hint Extern 1 (CR _ _ _ _ (id_add _ _)) => (apply CR_id_add; [oki_tac | ]) : crdb.
#[export] Hint Extern 1 (CR _ _ _ _ (prepare_reset _ _)) => (apply CR_prepare_reset; [okr_tac | ]) : crdb.

Section CRclient.
Variables (b : bool) (g : ghost) (ty : ctype) (rw : bool).
Hypothesis TC : isclient ty rw.
Lemma CR_auth_legacy : forall n s, CR b g ty rw s -> CR b g ty rw (auth_legacy n s).
Proof. intros; unfold auth_legacy; cases; eauto 10 with crdb. Qed.
Lemma CR_auth : forall fuel n s, CR b g ty rw s -> CR b g ty rw (fst (auth fuel n s)).
Proof. induction fuel; intros; name_result; cbn [auth]; unfold ret; cases; leaf; eauto 20 using CR_auth_legacy with crdb. Qed.
Lemma CR_sasl_result : forall n e s, (e_name e = NmSuccess -> g_auth_ok g = true) -> CR b g ty rw s -> CR b g ty rw (fst (sasl_result n e s)).
Proof.
  intros n e s A H. name_result. unfold sasl_result, ret. destruct (e_name e) eqn:E; leaf; eauto 10 using CR_auth with crdb.
  specialize (A eq_refl). cases; eauto 10 with crdb.
Qed.
Section CRauth.
Hypothesis A : g_auth_ok g = true.
Lemma CR_do_bind : forall n hb s, CR b g ty rw s -> CR b g ty rw (fst (do_bind n hb s)).
Proof. intros; name_result; unfold do_bind, ret; cases; leaf; eauto 10 with crdb. Qed.
Lemma CR_features_sasl : forall n e s, CR b g ty rw s -> CR b g ty rw (fst (features_sasl n e s)).
Proof.
  intros n e s H. name_result. unfold features_sasl, ret. cases; leaf.
  all: match goal with
       | |- CR _ _ _ _ (h_add HSm _) =>
           apply CR_h_add; [refine (conj _ (conj _ (conj _ _))); intros; auto; try discriminate;
                            exfalso; match goal with X : sm_resume _ = false |- _ => revert X; unfold send_gated, q_append; cases; sproj; discriminate end
                           | eauto 10 with crdb]
       | |- CR _ _ _ _ (fst (do_bind _ _ _)) => apply CR_do_bind; eauto 10 with crdb
       | _ => eauto 10 with crdb
       end.
Qed.
Section CRbound.
Hypothesis Bd' : g_bound g = true.
Lemma CR_session_start : forall n s, CR b g ty rw s -> CR b g ty rw (session_start n s).
Proof. intros; unfold session_start; eauto 10 with crdb. Qed.
Lemma CR_sm_enable : forall s, CR b g ty rw s -> CR b g ty rw (sm_enable s).
Proof. intros; unfold sm_enable; cbv zeta. apply CR_set_sm_enabled_true; [left; exact Bd' | eauto 10 with crdb]. Qed.
End CRbound.
End CRauth.
End CRclient.

Lemma CR_weaken : forall b g ty rw s, CR b g ty rw s -> CR false g ty rw s.
Proof. intros b g ty rw s H. cr_dest H. cr_split; auto. intros; discriminate. Qed.
Lemma CR_strengthen : forall g ty rw s, h_has HSm s = false -> CR false g ty rw s -> CR true g ty rw s.
Proof. intros g ty rw s N H. cr_dest H. cr_split; auto. intros _ _ X. congruence. Qed.
Lemma CR_set_sm_resume_false : forall g ty rw v s, CR false g ty rw s -> CR false g ty rw (set_sm_resume v s).
Proof. intros g ty rw v s H. cr_dest H. cr_split; auto. intros; discriminate. Qed.

(* what the dispatched element told the observer *)
Definition Nx (e : elem) (g : ghost) : Prop :=
  (e_ns e = NsSasl -> e_name e = NmSuccess -> g_auth_ok g = true) /\
  (e_id e = IdBind -> e_type e = TyResult -> g_bound g = true) /\
  (e_id e = IdAuth -> e_type e = TyResult -> e_name e = NmIq -> g_legacy_ok g = true) /\
  (e_ns e = NsSm -> e_name e = NmResumed -> g_resumed g = true) /\
  (e_name e = NmHandshake -> g_hs_ok g = true).
Lemma Nx_mono : forall e g g', GFr g g' -> Nx e g -> Nx e g'.
Proof. intros e g g' F (A & B & C & D & E). repeat split; intros; apply F; auto. Qed.
Lemma note_rx_noted : forall e s, Nx e (gh (note_rx e s)).
Proof.
  intros e s. unfold note_rx. cbv zeta. sproj.
  refine (conj _ (conj _ (conj _ (conj _ _)))).
  - intros N M. rewrite N, M. cbn [ns_eqb ename_eqb andb]. cases; sproj; reflexivity.
  - intros N M. rewrite N, M. cases; sproj; reflexivity.
  - intros N M K. rewrite N, M, K. cbn [ename_eqb]. cases; sproj; reflexivity.
  - intros N M. rewrite N, M. cbn [ns_eqb ename_eqb andb]. cases; sproj; reflexivity.
  - intros M. rewrite M. cbn [ename_eqb]. cases; sproj; reflexivity.
Qed.

Definition is_saslh (k : hkind) : bool :=
  match k with HSaslResult _ | HDigestChallenge | HDigestRspauth | HScramChallenge _ _ => true | _ => false end.
Lemma filter_sasl : forall k e, is_saslh k = true -> filter_match k e = true -> e_ns e = NsSasl.
Proof.
  intros k e K. destruct k; try discriminate; unfold filter_match;
    match goal with |- context [hfilter ?k] => let v := eval vm_compute in (hfilter k) in change (hfilter k) with v end;
    intros H; apply andb_prop in H; destruct H as [A _]; destruct (e_ns e); try discriminate; reflexivity.
Qed.
Lemma filter_sm : forall e, filter_match HSm e = true -> e_ns e = NsSm.
Proof.
  intros e. unfold filter_match.
  match goal with |- context [hfilter ?k] => let v := eval vm_compute in (hfilter k) in change (hfilter k) with v end.
  intros H; apply andb_prop in H; destruct H as [A _]; destruct (e_ns e); try discriminate; reflexivity.
Qed.
Lemma clientreg_main : forall k s, is_main k = true -> h_has k s = true -> clientreg s = true.
Proof.
  intros k s M H. pose proof (hmarks_pos k s M H). unfold clientreg. destruct (Nat.eqb (hmarks s) 0) eqn:E; [apply Nat.eqb_eq in E; lia | reflexivity].
Qed.
Lemma postauth_pa : forall k s, is_pa k = true -> h_has k s = true -> postauth s = true.
Proof.
  intros k s M. unfold postauth, h_has. intros H.
  assert (existsb (fun x => is_pa (fst x)) (handlers s) = true) as ->; [|reflexivity].
  induction (handlers s) as [|x l IH]; cbn in *; [discriminate|]. destruct (hkind_eqb k (fst x)) eqn:E.
  - apply hkind_eqb_eq in E. rewrite <- E, M. reflexivity.
  - rewrite (IH H). apply orb_true_r.
Qed.

(* the body of a stanza handler on a live connection (every handler but _handle_sm) *)
Lemma CR_call_handler : forall b g ty rw k n e s, hkind_eqb k HSm = false ->
  live s = true -> h_has k s = true -> filter_match k e = true -> Nx e g -> CR b g ty rw s ->
  CR b g ty rw (fst (fst (call_handler k n e s))).
Proof.
  intros b g ty rw k n e s NS L Hk Fm (N1 & N2 & N3 & N4 & N5) H. pose proof H as H'. cr_dest H'.
  assert (TC : is_main k = true -> isclient ty rw) by (intros M; apply R5; [exact L | exact (clientreg_main k s M Hk)]).
  assert (A : is_pa k = true -> g_auth_ok g = true) by (intros M; apply R1; exact (postauth_pa k s M Hk)).
  assert (SA : is_saslh k = true -> e_name e = NmSuccess -> g_auth_ok g = true) by (intros M; apply N1; exact (filter_sasl k e M Fm)).
  destruct k; try discriminate; cbn [is_main is_pa is_saslh] in *; try specialize (TC eq_refl); try specialize (A eq_refl); try specialize (SA eq_refl).
  - cbn. exact H.
  - cbn. eauto with crdb.
  - name_result. unfold call_handler. cbv zeta.
    match goal with |- context [auth 1 n ?x] => pose proof (CR_auth b g ty rw TC 1 n x) as Q; destruct (auth 1 n x) end.
    leaf. apply Q. unfold timed_del. cases; eauto 10 with crdb.
  - name_result. unfold call_handler. destruct (e_name e); leaf; auto.
    pose proof (CR_conn_tls_start b g ty rw s H) as Q. destruct (conn_tls_start s) as [[s1 o1] ok]. cbn [fst] in Q.
    destruct ok; leaf; cbn [fst]; eauto 10 with crdb.
  - name_result. unfold call_handler. pose proof (CR_sasl_result b g ty rw TC n e s SA H) as Q. destruct (sasl_result n e s). leaf. exact Q.
  - name_result. unfold call_handler. pose proof (CR_sasl_result b g ty rw TC n e s SA H) as Q.
    destruct (e_name e); try (destruct (sasl_result n e s); leaf; exact Q). cases; leaf; eauto 10 with crdb.
  - name_result. unfold call_handler. pose proof (CR_sasl_result b g ty rw TC n e s SA H) as Q.
    destruct (e_name e); try (destruct (sasl_result n e s); leaf; exact Q). leaf; eauto 10 with crdb.
  - name_result. unfold call_handler. pose proof (CR_sasl_result b g ty rw TC n e s SA H) as Q.
    destruct (e_name e); try (destruct (sasl_result n e s); leaf; exact Q). cases; leaf; eauto 10 with crdb.
  - name_result. unfold call_handler. pose proof (CR_features_sasl b g ty rw TC A n e s H) as Q. destruct (features_sasl n e s). leaf. exact Q.
  - name_result. unfold call_handler. cbv zeta.
    match goal with |- context [comp_supported ?x] => set (s1 := x) end.
    assert (H1 : CR b g ty rw s1) by (unfold s1, timed_del; cases; eauto 10 with crdb). clearbody s1.
    destruct (comp_supported s1); leaf; [eauto 10 with crdb|].
    pose proof (CR_features_sasl b g ty rw TC A n e s1 H1) as Q. destruct (features_sasl n e s1). leaf. exact Q.
  - name_result. unfold call_handler. cases; leaf; eauto 10 with crdb.
  - name_result. unfold call_handler, ret. cases; leaf; eauto 10 with crdb.
Qed.

Lemma CR_HSm : forall g ty rw n e s, live s = true -> h_has HSm s = true -> filter_match HSm e = true -> Nx e g -> CR true g ty rw s ->
  CR true g ty rw (if snd (call_handler HSm n e s) then fst (fst (call_handler HSm n e s)) else h_del HSm (fst (fst (call_handler HSm n e s)))).
Proof.
  intros g ty rw n e s L Hk Fm (N1 & N2 & N3 & N4 & N5) H. pose proof H as H'. cr_dest H'.
  assert (TC : isclient ty rw) by (apply R5; [exact L | exact (clientreg_main HSm s eq_refl Hk)]).
  assert (A : g_auth_ok g = true) by (apply R1; exact (postauth_pa HSm s eq_refl Hk)).
  pose proof (filter_sm e Fm) as Ns. apply CR_weaken in H.
  pose proof (CR_do_bind false g ty rw TC A) as Hdb.
  assert (Hen : forall x, e_name e = NmResumed -> CR false g ty rw x -> CR false g ty rw (set_sm_enabled true x))
    by (intros; apply CR_set_sm_enabled_true; [right; apply N4; auto | auto]).
  pose proof (CR_set_sm_resume_false g ty rw) as Hsr.
  assert (Q : CR false g ty rw (fst (fst (call_handler HSm n e s))) /\ snd (call_handler HSm n e s) = false).
  { name_result. unfold call_handler, ret. cases; leaf; (split; [|reflexivity]); eauto 25 with crdb. }
  destruct Q as [Q K].
  destruct (call_handler HSm n e s) as [[s1 o1] keep]. cbn [fst snd] in *.
  subst keep.
  apply CR_strengthen; [rewrite h_has_h_del, hkind_eqb_refl; apply andb_false_r | apply CR_h_del; exact Q].
Qed.

(* ------------------------------------------------------------------ id handlers, open handlers *)
Lemma postauth_id : forall k s, is_main_id k = true -> id_has k s = true -> postauth s = true.
Proof. intros k s M H. unfold postauth. destruct k; try discriminate; rewrite H, ?orb_true_r; reflexivity. Qed.
Lemma clientreg_id : forall k s, is_user_id k = false -> id_has k s = true -> clientreg s = true.
Proof.
  intros k s U H. unfold clientreg. destruct (is_main_id k) eqn:M.
  - pose proof (imarks_pos k s M H). destruct (Nat.eqb (imarks s) 0) eqn:E; [apply Nat.eqb_eq in E; lia | cbn; rewrite orb_true_r; reflexivity].
  - destruct k; try discriminate. rewrite H, ?orb_true_r. reflexivity.
Qed.
Lemma CR_call_id_handler : forall g ty rw k n e s, live s = true -> id_has k s = true -> idk_of (e_id e) = Some k -> Nx e g ->
  CR true g ty rw s -> CR true g ty rw (fst (call_id_handler k n e s)).
Proof.
  intros g ty rw k n e s L Hk Ik (N1 & N2 & N3 & N4 & N5) H.
  destruct (is_user_id k) eqn:Uk; [destruct k; try discriminate Uk; exact H|].
  pose proof H as H'. cr_dest H'.
  assert (TC : isclient ty rw) by (apply R5; [exact L | exact (clientreg_id k s Uk Hk)]).
  destruct k; [ | | |discriminate Uk].
  - assert (A : g_auth_ok g = true) by (apply R1; exact (postauth_id IKBind s eq_refl Hk)).
    assert (Ib : e_id e = IdBind) by (destruct (e_id e); try discriminate; reflexivity).
    name_result. unfold call_id_handler, ret. destruct (e_type e) eqn:Ty; leaf; eauto 10 with crdb.
    specialize (N2 Ib eq_refl).
    pose proof (CR_session_start true g ty rw TC A N2 n) as Hss. pose proof (CR_sm_enable true g ty rw TC A N2) as Hse.
    cases; eauto 10 with crdb.
  - assert (A : g_auth_ok g = true) by (apply R1; exact (postauth_id IKSession s eq_refl Hk)).
    specialize (R2 Hk). pose proof (CR_sm_enable true g ty rw TC A R2) as Hse.
    name_result. unfold call_id_handler, ret. cases; leaf; eauto 10 with crdb.
  - name_result. unfold call_id_handler, ret. cases; leaf; eauto 10 with crdb.
Qed.
Lemma CR_open_handler : forall g ty rw n s, live s = true -> CR true g ty rw s -> CR true g ty rw (fst (open_handler n s)).
Proof.
  intros g ty rw n s L H. pose proof H as H'. cr_dest H'.
  unfold open_handler, ret. destruct (oh s) eqn:O.
  all: try (assert (TC : isclient ty rw) by (apply R5; [exact L | unfold clientreg; rewrite O; cbn; rewrite orb_true_r; reflexivity])).
  all: try (assert (A : g_auth_ok g = true) by (apply R1; unfold postauth; rewrite O; cbn; rewrite orb_true_r; reflexivity)).
  all: try (assert (IC : iscomp ty rw) by (apply R6; auto)).
  all: name_result; cases; leaf; eauto 10 with crdb.
Qed.
Lemma CR_stream_start : forall g ty rw n a b s, live s = true -> CR true g ty rw s -> CR true g ty rw (fst (stream_start n a b s)).
Proof.
  intros g ty rw n a b s L H. name_result. unfold stream_start. cases; leaf; [apply CR_open_handler; [exact L|] | ]; eauto 10 with crdb.
Qed.

(* ================================================================== NK: "connected" is justified and reported once *)
Definition is_oc (x : out) : bool := match x with OConnect => true | _ => false end.
Definition count_oc (o : list out) : nat := List.length (filter is_oc o).
Definition cjt (g : ghost) (ty : ctype) (rw : bool) : bool :=
  if rw then g_raw_open g
  else match ty with
       | TClient => (g_auth_ok g && (g_bound g || g_resumed g)) || g_legacy_ok g
       | TComponent => g_hs_ok g
       end.
Lemma cjt_mono : forall g g' ty rw, GFr g g' -> cjt g ty rw = true -> cjt g' ty rw = true.
Proof.
  intros g g' ty rw F. unfold cjt. destruct rw; [apply F|]. destruct ty; [|apply F].
  intros H. apply orb_prop in H. destruct H as [H|H]; [|rewrite (gfr_legacy_ok _ _ F H); apply orb_true_r].
  apply andb_prop in H. destruct H as [A B]. rewrite (gfr_auth_ok _ _ F A). apply orb_prop in B.
  destruct B as [B|B]; [rewrite (gfr_bound _ _ F B) | rewrite (gfr_resumed _ _ F B), orb_true_r]; reflexivity.
Qed.
Lemma count_oc_app : forall a b, count_oc (a ++ b) = (count_oc a + count_oc b)%nat.
Proof. intros; unfold count_oc. rewrite filter_app, app_length. reflexivity. Qed.

Record NK (g : ghost) (ty : ctype) (rw : bool) (c0 : nat) (s : state) (o : list out) : Prop := mkNK {
  nk_nu : g_conn_unjust (gh s) = false;
  nk_gfr : GFr g (gh s);
  nk_typ : typ s = ty;
  nk_raw : is_raw s = rw;
  nk_c0 : g_connects (gh s) = c0;
  nk_cnt : rw = false -> (c0 + count_oc o <= 1)%nat /\ ((c0 + count_oc o = 1)%nat -> neg_done s = true \/ st s = Disconnected)
}.
Lemma NK_state : forall g ty rw c0 s o s', NK g ty rw c0 s o -> Fr s s' -> g_conn_unjust (gh s') = false ->
  (neg_done s = true -> neg_done s' = true \/ st s' = Disconnected) -> NK g ty rw c0 s' o.
Proof.
  intros g ty rw c0 s o s' H F U N. constructor; auto.
  - exact (GFr_trans _ _ _ (nk_gfr _ _ _ _ _ _ H) (fr_gh _ _ F)).
  - rewrite (fr_typ _ _ F). apply (nk_typ _ _ _ _ _ _ H).
  - rewrite (fr_is_raw _ _ F). apply (nk_raw _ _ _ _ _ _ H).
  - rewrite (gfr_connects _ _ (fr_gh _ _ F)). apply (nk_c0 _ _ _ _ _ _ H).
  - intros R. destruct (nk_cnt _ _ _ _ _ _ H R) as [A B]. split; auto. intros C. destruct (B C) as [D|D]; auto.
    right. destruct (fr_st _ _ F) as [E|E]; congruence.
Qed.
Lemma NK_nil : forall g ty rw c0 s o, NK g ty rw c0 s o -> NK g ty rw c0 s (o ++ []).
Proof. intros; rewrite app_nil_r; auto. Qed.
Lemma NK_assoc : forall g ty rw c0 s o o1 o2, NK g ty rw c0 s ((o ++ o1) ++ o2) -> NK g ty rw c0 s (o ++ (o1 ++ o2)).
Proof. intros; rewrite app_assoc; auto. Qed.
Lemma NK_noc : forall g ty rw c0 s o o', NK g ty rw c0 s o -> count_oc o' = 0%nat -> NK g ty rw c0 s (o ++ o').
Proof.
  intros g ty rw c0 s o o' H Z. destruct H. constructor; auto. rewrite count_oc_app, Z, Nat.add_0_r. exact nk_cnt0.
Qed.
#[export] Hint Resolve NK_nil NK_assoc : nkdb.
#[export] Hint Extern 3 (NK _ _ _ _ _ (_ ++ _)) => (apply NK_noc; [ | reflexivity]) : nkdb.
Lemma NK_set_tls_verdicts : forall v g ty rw c0 s o, NK g ty rw c0 s o -> NK g ty rw c0 (set_tls_verdicts v s) o.
Proof. intros v g ty rw c0 s o H; eapply NK_state; [eassumption | apply Fr_set_tls_verdicts; apply Fr_refl | destruct s; exact (nk_nu _ _ _ _ _ _ H) | destruct s; cbn; auto]. Qed.
#[export] Hint Resolve NK_set_tls_verdicts : nkdb.
Lemma NK_set_next_cands : forall v g ty rw c0 s o, NK g ty rw c0 s o -> NK g ty rw c0 (set_next_cands v s) o.
Proof. intros v g ty rw c0 s o H; eapply NK_state; [eassumption | apply Fr_set_next_cands; apply Fr_refl | destruct s; exact (nk_nu _ _ _ _ _ _ H) | destruct s; cbn; auto]. Qed.
#[export] Hint Resolve NK_set_next_cands : nkdb.
Lemma NK_set_cands : forall v g ty rw c0 s o, NK g ty rw c0 s o -> NK g ty rw c0 (set_cands v s) o.
Proof. intros v g ty rw c0 s o H; eapply NK_state; [eassumption | apply Fr_set_cands; apply Fr_refl | destruct s; exact (nk_nu _ _ _ _ _ _ H) | destruct s; cbn; auto]. Qed.
#[export] Hint Resolve NK_set_cands : nkdb.
Lemma NK_set_cur_ep : forall v g ty rw c0 s o, NK g ty rw c0 s o -> NK g ty rw c0 (set_cur_ep v s) o.
Proof. intros v g ty rw c0 s o H; eapply NK_state; [eassumption | apply Fr_set_cur_ep; apply Fr_refl | destruct s; exact (nk_nu _ _ _ _ _ _ H) | destruct s; cbn; auto]. Qed.
#[export] Hint Resolve NK_set_cur_ep : nkdb.
Lemma NK_set_stamp : forall v g ty rw c0 s o, NK g ty rw c0 s o -> NK g ty rw c0 (set_stamp v s) o.
Proof. intros v g ty rw c0 s o H; eapply NK_state; [eassumption | apply Fr_set_stamp; apply Fr_refl | destruct s; exact (nk_nu _ _ _ _ _ _ H) | destruct s; cbn; auto]. Qed.
#[export] Hint Resolve NK_set_stamp : nkdb.
Lemma NK_set_err : forall v g ty rw c0 s o, NK g ty rw c0 s o -> NK g ty rw c0 (set_err v s) o.
Proof. intros v g ty rw c0 s o H; eapply NK_state; [eassumption | apply Fr_set_err; apply Fr_refl | destruct s; exact (nk_nu _ _ _ _ _ _ H) | destruct s; cbn; auto]. Qed.
#[export] Hint Resolve NK_set_err : nkdb.
Lemma NK_set_stream_error : forall v g ty rw c0 s o, NK g ty rw c0 s o -> NK g ty rw c0 (set_stream_error v s) o.
Proof. intros v g ty rw c0 s o H; eapply NK_state; [eassumption | apply Fr_set_stream_error; apply Fr_refl | destruct s; exact (nk_nu _ _ _ _ _ _ H) | destruct s; cbn; auto]. Qed.
#[export] Hint Resolve NK_set_stream_error : nkdb.
Lemma NK_set_tls_present : forall v g ty rw c0 s o, NK g ty rw c0 s o -> NK g ty rw c0 (set_tls_present v s) o.
Proof. intros v g ty rw c0 s o H; eapply NK_state; [eassumption | apply Fr_set_tls_present; apply Fr_refl | destruct s; exact (nk_nu _ _ _ _ _ _ H) | destruct s; cbn; auto]. Qed.
#[export] Hint Resolve NK_set_tls_present : nkdb.
Lemma NK_set_tls_failed : forall v g ty rw c0 s o, NK g ty rw c0 s o -> NK g ty rw c0 (set_tls_failed v s) o.
Proof. intros v g ty rw c0 s o H; eapply NK_state; [eassumption | apply Fr_set_tls_failed; apply Fr_refl | destruct s; exact (nk_nu _ _ _ _ _ _ H) | destruct s; cbn; auto]. Qed.
#[export] Hint Resolve NK_set_tls_failed : nkdb.
Lemma NK_set_tls_support : forall v g ty rw c0 s o, NK g ty rw c0 s o -> NK g ty rw c0 (set_tls_support v s) o.
Proof. intros v g ty rw c0 s o H; eapply NK_state; [eassumption | apply Fr_set_tls_support; apply Fr_refl | destruct s; exact (nk_nu _ _ _ _ _ _ H) | destruct s; cbn; auto]. Qed.
#[export] Hint Resolve NK_set_tls_support : nkdb.
Lemma NK_set_sasl : forall v g ty rw c0 s o, NK g ty rw c0 s o -> NK g ty rw c0 (set_sasl v s) o.
Proof. intros v g ty rw c0 s o H; eapply NK_state; [eassumption | apply Fr_set_sasl; apply Fr_refl | destruct s; exact (nk_nu _ _ _ _ _ _ H) | destruct s; cbn; auto]. Qed.
#[export] Hint Resolve NK_set_sasl : nkdb.
Lemma NK_set_bind_required : forall v g ty rw c0 s o, NK g ty rw c0 s o -> NK g ty rw c0 (set_bind_required v s) o.
Proof. intros v g ty rw c0 s o H; eapply NK_state; [eassumption | apply Fr_set_bind_required; apply Fr_refl | destruct s; exact (nk_nu _ _ _ _ _ _ H) | destruct s; cbn; auto]. Qed.
#[export] Hint Resolve NK_set_bind_required : nkdb.
Lemma NK_set_session_required : forall v g ty rw c0 s o, NK g ty rw c0 s o -> NK g ty rw c0 (set_session_required v s) o.
Proof. intros v g ty rw c0 s o H; eapply NK_state; [eassumption | apply Fr_set_session_required; apply Fr_refl | destruct s; exact (nk_nu _ _ _ _ _ _ H) | destruct s; cbn; auto]. Qed.
#[export] Hint Resolve NK_set_session_required : nkdb.
Lemma NK_set_comp_supported : forall v g ty rw c0 s o, NK g ty rw c0 s o -> NK g ty rw c0 (set_comp_supported v s) o.
Proof. intros v g ty rw c0 s o H; eapply NK_state; [eassumption | apply Fr_set_comp_supported; apply Fr_refl | destruct s; exact (nk_nu _ _ _ _ _ _ H) | destruct s; cbn; auto]. Qed.
#[export] Hint Resolve NK_set_comp_supported : nkdb.
Lemma NK_set_comp_active : forall v g ty rw c0 s o, NK g ty rw c0 s o -> NK g ty rw c0 (set_comp_active v s) o.
Proof. intros v g ty rw c0 s o H; eapply NK_state; [eassumption | apply Fr_set_comp_active; apply Fr_refl | destruct s; exact (nk_nu _ _ _ _ _ _ H) | destruct s; cbn; auto]. Qed.
#[export] Hint Resolve NK_set_comp_active : nkdb.
Lemma NK_set_sm_support : forall v g ty rw c0 s o, NK g ty rw c0 s o -> NK g ty rw c0 (set_sm_support v s) o.
Proof. intros v g ty rw c0 s o H; eapply NK_state; [eassumption | apply Fr_set_sm_support; apply Fr_refl | destruct s; exact (nk_nu _ _ _ _ _ _ H) | destruct s; cbn; auto]. Qed.
#[export] Hint Resolve NK_set_sm_support : nkdb.
Lemma NK_set_sm_enabled : forall v g ty rw c0 s o, NK g ty rw c0 s o -> NK g ty rw c0 (set_sm_enabled v s) o.
Proof. intros v g ty rw c0 s o H; eapply NK_state; [eassumption | apply Fr_set_sm_enabled; apply Fr_refl | destruct s; exact (nk_nu _ _ _ _ _ _ H) | destruct s; cbn; auto]. Qed.
#[export] Hint Resolve NK_set_sm_enabled : nkdb.
Lemma NK_set_sm_can_resume : forall v g ty rw c0 s o, NK g ty rw c0 s o -> NK g ty rw c0 (set_sm_can_resume v s) o.
Proof. intros v g ty rw c0 s o H; eapply NK_state; [eassumption | apply Fr_set_sm_can_resume; apply Fr_refl | destruct s; exact (nk_nu _ _ _ _ _ _ H) | destruct s; cbn; auto]. Qed.
#[export] Hint Resolve NK_set_sm_can_resume : nkdb.
Lemma NK_set_sm_resume : forall v g ty rw c0 s o, NK g ty rw c0 s o -> NK g ty rw c0 (set_sm_resume v s) o.
Proof. intros v g ty rw c0 s o H; eapply NK_state; [eassumption | apply Fr_set_sm_resume; apply Fr_refl | destruct s; exact (nk_nu _ _ _ _ _ _ H) | destruct s; cbn; auto]. Qed.
#[export] Hint Resolve NK_set_sm_resume : nkdb.
Lemma NK_set_sm_dont_request : forall v g ty rw c0 s o, NK g ty rw c0 s o -> NK g ty rw c0 (set_sm_dont_request v s) o.
Proof. intros v g ty rw c0 s o H; eapply NK_state; [eassumption | apply Fr_set_sm_dont_request; apply Fr_refl | destruct s; exact (nk_nu _ _ _ _ _ _ H) | destruct s; cbn; auto]. Qed.
#[export] Hint Resolve NK_set_sm_dont_request : nkdb.
Lemma NK_set_sm_has_previd : forall v g ty rw c0 s o, NK g ty rw c0 s o -> NK g ty rw c0 (set_sm_has_previd v s) o.
Proof. intros v g ty rw c0 s o H; eapply NK_state; [eassumption | apply Fr_set_sm_has_previd; apply Fr_refl | destruct s; exact (nk_nu _ _ _ _ _ _ H) | destruct s; cbn; auto]. Qed.
#[export] Hint Resolve NK_set_sm_has_previd : nkdb.
Lemma NK_set_sm_has_id : forall v g ty rw c0 s o, NK g ty rw c0 s o -> NK g ty rw c0 (set_sm_has_id v s) o.
Proof. intros v g ty rw c0 s o H; eapply NK_state; [eassumption | apply Fr_set_sm_has_id; apply Fr_refl | destruct s; exact (nk_nu _ _ _ _ _ _ H) | destruct s; cbn; auto]. Qed.
#[export] Hint Resolve NK_set_sm_has_id : nkdb.
Lemma NK_set_sm_parked : forall v g ty rw c0 s o, NK g ty rw c0 s o -> NK g ty rw c0 (set_sm_parked v s) o.
Proof. intros v g ty rw c0 s o H; eapply NK_state; [eassumption | apply Fr_set_sm_parked; apply Fr_refl | destruct s; exact (nk_nu _ _ _ _ _ _ H) | destruct s; cbn; auto]. Qed.
#[export] Hint Resolve NK_set_sm_parked : nkdb.
Lemma NK_set_sm_r_sent : forall v g ty rw c0 s o, NK g ty rw c0 s o -> NK g ty rw c0 (set_sm_r_sent v s) o.
Proof. intros v g ty rw c0 s o H; eapply NK_state; [eassumption | apply Fr_set_sm_r_sent; apply Fr_refl | destruct s; exact (nk_nu _ _ _ _ _ _ H) | destruct s; cbn; auto]. Qed.
#[export] Hint Resolve NK_set_sm_r_sent : nkdb.
Lemma NK_set_sm_bind_saved : forall v g ty rw c0 s o, NK g ty rw c0 s o -> NK g ty rw c0 (set_sm_bind_saved v s) o.
Proof. intros v g ty rw c0 s o H; eapply NK_state; [eassumption | apply Fr_set_sm_bind_saved; apply Fr_refl | destruct s; exact (nk_nu _ _ _ _ _ _ H) | destruct s; cbn; auto]. Qed.
#[export] Hint Resolve NK_set_sm_bind_saved : nkdb.
Lemma NK_set_bound_jid : forall v g ty rw c0 s o, NK g ty rw c0 s o -> NK g ty rw c0 (set_bound_jid v s) o.
Proof. intros v g ty rw c0 s o H; eapply NK_state; [eassumption | apply Fr_set_bound_jid; apply Fr_refl | destruct s; exact (nk_nu _ _ _ _ _ _ H) | destruct s; cbn; auto]. Qed.
#[export] Hint Resolve NK_set_bound_jid : nkdb.
Lemma NK_set_stream_id : forall v g ty rw c0 s o, NK g ty rw c0 s o -> NK g ty rw c0 (set_stream_id v s) o.
Proof. intros v g ty rw c0 s o H; eapply NK_state; [eassumption | apply Fr_set_stream_id; apply Fr_refl | destruct s; exact (nk_nu _ _ _ _ _ _ H) | destruct s; cbn; auto]. Qed.
#[export] Hint Resolve NK_set_stream_id : nkdb.
Lemma NK_set_oh : forall v g ty rw c0 s o, NK g ty rw c0 s o -> NK g ty rw c0 (set_oh v s) o.
Proof. intros v g ty rw c0 s o H; eapply NK_state; [eassumption | apply Fr_set_oh; apply Fr_refl | destruct s; exact (nk_nu _ _ _ _ _ _ H) | destruct s; cbn; auto]. Qed.
#[export] Hint Resolve NK_set_oh : nkdb.
Lemma NK_set_ps : forall v g ty rw c0 s o, NK g ty rw c0 s o -> NK g ty rw c0 (set_ps v s) o.
Proof. intros v g ty rw c0 s o H; eapply NK_state; [eassumption | apply Fr_set_ps; apply Fr_refl | destruct s; exact (nk_nu _ _ _ _ _ _ H) | destruct s; cbn; auto]. Qed.
#[export] Hint Resolve NK_set_ps : nkdb.
Lemma NK_set_handlers : forall v g ty rw c0 s o, NK g ty rw c0 s o -> NK g ty rw c0 (set_handlers v s) o.
Proof. intros v g ty rw c0 s o H; eapply NK_state; [eassumption | apply Fr_set_handlers; apply Fr_refl | destruct s; exact (nk_nu _ _ _ _ _ _ H) | destruct s; cbn; auto]. Qed.
#[export] Hint Resolve NK_set_handlers : nkdb.
Lemma NK_set_idhandlers : forall v g ty rw c0 s o, NK g ty rw c0 s o -> NK g ty rw c0 (set_idhandlers v s) o.
Proof. intros v g ty rw c0 s o H; eapply NK_state; [eassumption | apply Fr_set_idhandlers; apply Fr_refl | destruct s; exact (nk_nu _ _ _ _ _ _ H) | destruct s; cbn; auto]. Qed.
#[export] Hint Resolve NK_set_idhandlers : nkdb.
Lemma NK_set_timed : forall v g ty rw c0 s o, NK g ty rw c0 s o -> NK g ty rw c0 (set_timed v s) o.
Proof. intros v g ty rw c0 s o H; eapply NK_state; [eassumption | apply Fr_set_timed; apply Fr_refl | destruct s; exact (nk_nu _ _ _ _ _ _ H) | destruct s; cbn; auto]. Qed.
#[export] Hint Resolve NK_set_timed : nkdb.
Lemma NK_set_rxq : forall v g ty rw c0 s o, NK g ty rw c0 s o -> NK g ty rw c0 (set_rxq v s) o.
Proof. intros v g ty rw c0 s o H; eapply NK_state; [eassumption | apply Fr_set_rxq; apply Fr_refl | destruct s; exact (nk_nu _ _ _ _ _ _ H) | destruct s; cbn; auto]. Qed.
#[export] Hint Resolve NK_set_rxq : nkdb.
Lemma NK_set_smq : forall v g ty rw c0 s o, NK g ty rw c0 s o -> NK g ty rw c0 (set_smq v s) o.
Proof. intros v g ty rw c0 s o H; eapply NK_state; [eassumption | apply Fr_set_smq; apply Fr_refl | destruct s; exact (nk_nu _ _ _ _ _ _ H) | destruct s; cbn; auto]. Qed.
#[export] Hint Resolve NK_set_smq : nkdb.
Lemma NK_set_sm_sent : forall v g ty rw c0 s o, NK g ty rw c0 s o -> NK g ty rw c0 (set_sm_sent v s) o.
Proof. intros v g ty rw c0 s o H; eapply NK_state; [eassumption | apply Fr_set_sm_sent; apply Fr_refl | destruct s; exact (nk_nu _ _ _ _ _ _ H) | destruct s; cbn; auto]. Qed.
#[export] Hint Resolve NK_set_sm_sent : nkdb.
Lemma NK_set_scram_serial : forall v g ty rw c0 s o, NK g ty rw c0 s o -> NK g ty rw c0 (set_scram_serial v s) o.
Proof. intros v g ty rw c0 s o H; eapply NK_state; [eassumption | apply Fr_set_scram_serial; apply Fr_refl | destruct s; exact (nk_nu _ _ _ _ _ _ H) | destruct s; cbn; auto]. Qed.
#[export] Hint Resolve NK_set_scram_serial : nkdb.
Lemma NK_set_crashed : forall v g ty rw c0 s o, NK g ty rw c0 s o -> NK g ty rw c0 (set_crashed v s) o.
Proof. intros v g ty rw c0 s o H; eapply NK_state; [eassumption | apply Fr_set_crashed; apply Fr_refl | destruct s; exact (nk_nu _ _ _ _ _ _ H) | destruct s; cbn; auto]. Qed.
#[export] Hint Resolve NK_set_crashed : nkdb.
Lemma NK_set_sendq_app : forall l g ty rw c0 s o, NK g ty rw c0 s o -> NK g ty rw c0 (set_sendq (sendq s ++ l) s) o.
Proof. intros l g ty rw c0 s o H; eapply NK_state; [eassumption | apply Fr_set_sendq_app; apply Fr_refl | destruct s; exact (nk_nu _ _ _ _ _ _ H) | destruct s; cbn; auto]. Qed.
Lemma NK_set_st_disc : forall g ty rw c0 s o, NK g ty rw c0 s o -> NK g ty rw c0 (set_st Disconnected s) o.
Proof. intros g ty rw c0 s o H; eapply NK_state; [eassumption | apply Fr_set_st_disc; apply Fr_refl | destruct s; exact (nk_nu _ _ _ _ _ _ H) | destruct s; cbn; auto]. Qed.
Lemma NK_set_reset_true : forall g ty rw c0 s o, NK g ty rw c0 s o -> NK g ty rw c0 (set_reset_parser true s) o.
Proof. intros g ty rw c0 s o H; eapply NK_state; [eassumption | apply Fr_set_reset_true; apply Fr_refl | destruct s; exact (nk_nu _ _ _ _ _ _ H) | destruct s; cbn; auto]. Qed.
Lemma NK_set_secured_true : forall g ty rw c0 s o, NK g ty rw c0 s o -> NK g ty rw c0 (set_secured true s) o.
Proof. intros g ty rw c0 s o H; eapply NK_state; [eassumption | apply Fr_set_secured_true; apply Fr_refl | destruct s; exact (nk_nu _ _ _ _ _ _ H) | destruct s; cbn; auto]. Qed.
Lemma NK_set_neg_done_false_disc : forall g ty rw c0 s o, NK g ty rw c0 s o -> NK g ty rw c0 (set_neg_done false (set_st Disconnected s)) o.
Proof.
  intros g ty rw c0 s o H; eapply NK_state; [eassumption | destruct s; Fr_prim | destruct s; exact (nk_nu _ _ _ _ _ _ H) | destruct s; cbn; auto].
Qed.
Lemma NK_upg : forall f g ty rw c0 s o, GFr (gh s) (f (gh s)) -> g_conn_unjust (f (gh s)) = g_conn_unjust (gh s) ->
  NK g ty rw c0 s o -> NK g ty rw c0 (upg f s) o.
Proof.
  intros f g ty rw c0 s o G U H; eapply NK_state; [eassumption | apply Fr_upg; [assumption | apply Fr_refl] | | destruct s; cbn; auto].
  unfold upg. sproj. rewrite U. exact (nk_nu _ _ _ _ _ _ H).
Qed.
#[export] Hint Resolve NK_set_sendq_app NK_set_st_disc NK_set_reset_true NK_set_secured_true NK_set_neg_done_false_disc : nkdb.
Lemma cu_se_bad : forall v g, g_conn_unjust (set_g_se_bad v g) = g_conn_unjust g.
Proof. intros v []; reflexivity. Qed.
Lemma cu_stream_start : forall b g, g_conn_unjust ((fun g : ghost => set_g_raw_open (b || g_raw_open g) (set_g_feat_seen false g)) g) = g_conn_unjust g.
Proof. intros b []; reflexivity. Qed.
#[export] Hint Extern 1 (NK _ _ _ _ (upg _ _) _) => (apply NK_upg; [eauto with frdb trdb | first [apply cu_se_bad | apply cu_stream_start] | ]) : nkdb.
Lemma NK_note_rx : forall e g ty rw c0 s o, NK g ty rw c0 s o -> NK g ty rw c0 (note_rx e s) o.
Proof.
  intros e g ty rw c0 s o H; eapply NK_state; [eassumption | apply Fr_note_rx; apply Fr_refl | | unfold note_rx; exact (fun h => or_introl h)].
  pose proof (nk_nu _ _ _ _ _ _ H) as U. unfold note_rx. cbv zeta. sproj. rewrite <- U. cases; reflexivity.
Qed.
#[export] Hint Resolve NK_note_rx : nkdb.

(* _stream_negotiation_success: justified, and - unless raw - only on a live connection that has not reported yet *)
Lemma NK_sns : forall g ty rw c0 s o, cjt g ty rw = true -> (rw = false -> st s <> Disconnected) ->
  NK g ty rw c0 s o -> NK g ty rw c0 (fst (stream_negotiation_success s)) (o ++ snd (stream_negotiation_success s)).
Proof.
  intros g ty rw c0 s o J L H. unfold stream_negotiation_success, ret.
  destruct (negb (is_raw s) && neg_done s) eqn:G; cbn [fst snd]; [apply NK_nil; exact H|].
  assert (CJ : connect_justified s = true).
  { pose proof (cjt_mono _ _ ty rw (nk_gfr _ _ _ _ _ _ H) J) as J'. unfold connect_justified, cjt in *.
    rewrite (nk_raw _ _ _ _ _ _ H), (nk_typ _ _ _ _ _ _ H). exact J'. }
  rewrite CJ. destruct H. constructor; auto.
  intros R. destruct (nk_cnt0 R) as [A B]. rewrite count_oc_app. cbn [count_oc filter is_oc List.length].
  rewrite nk_raw0, R in G. cbn [negb andb] in G.
  assert (Z : (c0 + count_oc o = 0)%nat).
  { destruct (Nat.eq_dec (c0 + count_oc o) 1) as [E|E]; [|lia]. destruct (B E) as [D|D]; [congruence | exfalso; exact (L R D)]. }
  split; [lia|]. intros _. left. reflexivity.
Qed.
Lemma NK_q_append : forall w u sm g ty rw c0 s o, NK g ty rw c0 s o -> NK g ty rw c0 (q_append w u sm s) o.
Proof.
  intros w u sm g ty rw c0 s o H; eapply NK_state; [eassumption | apply Fr_q_append; apply Fr_refl | | rewrite nd_q_append; auto].
  pose proof (nk_nu _ _ _ _ _ _ H) as U. unfold q_append; cases; exact U.
Qed.
#[export] Hint Resolve NK_q_append : nkdb.
Lemma NK_send_gated : forall w u sm g ty rw c0 s o, NK g ty rw c0 s o -> NK g ty rw c0 (send_gated w u sm s) o.
Proof. intros; unfold send_gated, ret; cases; leaf; eauto 30 with nkdb. Qed.
#[export] Hint Resolve NK_send_gated : nkdb.
Lemma NK_send_raw_m : forall w u sm g ty rw c0 s o, NK g ty rw c0 s o -> NK g ty rw c0 (send_raw_m w u sm s) o.
Proof. intros; unfold send_raw_m, ret; cases; leaf; eauto 30 with nkdb. Qed.
#[export] Hint Resolve NK_send_raw_m : nkdb.
Lemma NK_timed_add : forall k n g ty rw c0 s o, NK g ty rw c0 s o -> NK g ty rw c0 (timed_add k n s) o.
Proof. intros; unfold timed_add, ret; cases; leaf; eauto 30 with nkdb. Qed.
#[export] Hint Resolve NK_timed_add : nkdb.
Lemma NK_timed_del : forall k g ty rw c0 s o, NK g ty rw c0 s o -> NK g ty rw c0 (timed_del k s) o.
Proof. intros; unfold timed_del, ret; cases; leaf; eauto 30 with nkdb. Qed.
#[export] Hint Resolve NK_timed_del : nkdb.
Lemma NK_timed_reset_all : forall n g ty rw c0 s o, NK g ty rw c0 s o -> NK g ty rw c0 (timed_reset_all n s) o.
Proof. intros; unfold timed_reset_all, ret; cases; leaf; eauto 30 with nkdb. Qed.
#[export] Hint Resolve NK_timed_reset_all : nkdb.
Lemma NK_timed_set_stamp : forall k n g ty rw c0 s o, NK g ty rw c0 s o -> NK g ty rw c0 (timed_set_stamp k n s) o.
Proof. intros; unfold timed_set_stamp, ret; cases; leaf; eauto 30 with nkdb. Qed.
#[export] Hint Resolve NK_timed_set_stamp : nkdb.
Lemma NK_h_add : forall k g ty rw c0 s o, NK g ty rw c0 s o -> NK g ty rw c0 (h_add k s) o.
Proof. intros; unfold h_add, ret; cases; leaf; eauto 30 with nkdb. Qed.
#[export] Hint Resolve NK_h_add : nkdb.
Lemma NK_h_del : forall k g ty rw c0 s o, NK g ty rw c0 s o -> NK g ty rw c0 (h_del k s) o.
Proof. intros; unfold h_del, ret; cases; leaf; eauto 30 with nkdb. Qed.
#[export] Hint Resolve NK_h_del : nkdb.
Lemma NK_id_add : forall k g ty rw c0 s o, NK g ty rw c0 s o -> NK g ty rw c0 (id_add k s) o.
Proof. intros; unfold id_add, ret; cases; leaf; eauto 30 with nkdb. Qed.
#[export] Hint Resolve NK_id_add : nkdb.
Lemma NK_id_del : forall k g ty rw c0 s o, NK g ty rw c0 s o -> NK g ty rw c0 (id_del k s) o.
Proof. intros; unfold id_del, ret; cases; leaf; eauto 30 with nkdb. Qed.
#[export] Hint Resolve NK_id_del : nkdb.
Lemma NK_reset_sm_for_reconnect : forall g ty rw c0 s o, NK g ty rw c0 s o -> NK g ty rw c0 (reset_sm_for_reconnect s) o.
Proof. intros; unfold reset_sm_for_reconnect, ret; cases; leaf; eauto 30 with nkdb. Qed.
#[export] Hint Resolve NK_reset_sm_for_reconnect : nkdb.
Lemma NK_sm_queue_cleanup : forall h g ty rw c0 s o, NK g ty rw c0 s o -> NK g ty rw c0 (sm_queue_cleanup h s) o.
Proof. intros; unfold sm_queue_cleanup, ret; cases; leaf; eauto 30 with nkdb. Qed.
#[export] Hint Resolve NK_sm_queue_cleanup : nkdb.
Lemma NK_sm_queue_resend : forall g ty rw c0 s o, NK g ty rw c0 s o -> NK g ty rw c0 (sm_queue_resend s) o.
Proof. intros; unfold sm_queue_resend. apply fold_left_inv; eauto with nkdb. Qed.
#[export] Hint Resolve NK_sm_queue_resend : nkdb.
Lemma NK_conn_disconnect : forall g ty rw c0 s o, NK g ty rw c0 s o -> NK g ty rw c0 (fst (conn_disconnect s)) (o ++ snd (conn_disconnect s)).
Proof. intros; name_result; unfold conn_disconnect, ret; cases; leaf; eauto 30 with nkdb. Qed.
#[export] Hint Resolve NK_conn_disconnect : nkdb.
Lemma NK_xmpp_disconnect : forall n g ty rw c0 s o, NK g ty rw c0 s o -> NK g ty rw c0 (xmpp_disconnect n s) o.
Proof. intros; unfold xmpp_disconnect, ret; cases; leaf; eauto 30 with nkdb. Qed.
#[export] Hint Resolve NK_xmpp_disconnect : nkdb.
Lemma NK_prepare_reset : forall h g ty rw c0 s o, NK g ty rw c0 s o -> NK g ty rw c0 (prepare_reset h s) o.
Proof. intros; unfold prepare_reset, ret; cases; leaf; eauto 30 with nkdb. Qed.
#[export] Hint Resolve NK_prepare_reset : nkdb.
Lemma NK_conn_open_stream : forall g ty rw c0 s o, NK g ty rw c0 s o -> NK g ty rw c0 (conn_open_stream s) o.
Proof. intros; unfold conn_open_stream, ret; cases; leaf; eauto 30 with nkdb. Qed.
#[export] Hint Resolve NK_conn_open_stream : nkdb.
Lemma NK_conn_tls_start : forall g ty rw c0 s o, NK g ty rw c0 s o -> NK g ty rw c0 (fst (fst (conn_tls_start s))) (o ++ snd (fst (conn_tls_start s))).
Proof. intros; name_result; unfold conn_tls_start, ret; cases; leaf; eauto 30 with nkdb. Qed.
#[export] Hint Resolve NK_conn_tls_start : nkdb.
Lemma NK_do_bind : forall n b g ty rw c0 s o, NK g ty rw c0 s o -> NK g ty rw c0 (fst (do_bind n b s)) (o ++ snd (do_bind n b s)).
Proof. intros; name_result; unfold do_bind, ret; cases; leaf; eauto 30 with nkdb. Qed.
#[export] Hint Resolve NK_do_bind : nkdb.
Lemma NK_session_start : forall n g ty rw c0 s o, NK g ty rw c0 s o -> NK g ty rw c0 (session_start n s) o.
Proof. intros; unfold session_start, ret; cases; leaf; eauto 30 with nkdb. Qed.
#[export] Hint Resolve NK_session_start : nkdb.
Lemma NK_sm_enable : forall g ty rw c0 s o, NK g ty rw c0 s o -> NK g ty rw c0 (sm_enable s) o.
Proof. intros; unfold sm_enable, ret; cases; leaf; eauto 30 with nkdb. Qed.
#[export] Hint Resolve NK_sm_enable : nkdb.
Lemma NK_auth_legacy : forall n g ty rw c0 s o, NK g ty rw c0 s o -> NK g ty rw c0 (auth_legacy n s) o.
Proof. intros; unfold auth_legacy, ret; cases; leaf; eauto 30 with nkdb. Qed.
#[export] Hint Resolve NK_auth_legacy : nkdb.
Lemma NK_auth : forall fuel n g ty rw c0 s o, NK g ty rw c0 s o -> NK g ty rw c0 (fst (auth fuel n s)) (o ++ snd (auth fuel n s)).
Proof. induction fuel; intros; name_result; cbn [auth]; unfold ret; cases; leaf; eauto 30 with nkdb. Qed.
#[export] Hint Resolve NK_auth : nkdb.
Lemma NK_sasl_result : forall n e g ty rw c0 s o, NK g ty rw c0 s o -> NK g ty rw c0 (fst (sasl_result n e s)) (o ++ snd (sasl_result n e s)).
Proof. intros; name_result; unfold sasl_result, ret; cases; leaf; eauto 30 with nkdb. Qed.
#[export] Hint Resolve NK_sasl_result : nkdb.
Lemma NK_features_sasl : forall n e g ty rw c0 s o, NK g ty rw c0 s o -> NK g ty rw c0 (fst (features_sasl n e s)) (o ++ snd (features_sasl n e s)).
Proof. intros; name_result; unfold features_sasl, ret; cases; leaf; eauto 30 with nkdb. Qed.
#[export] Hint Resolve NK_features_sasl : nkdb.
Lemma NK_sm_handle : forall e g ty rw c0 s o, NK g ty rw c0 s o -> NK g ty rw c0 (sm_handle e s) o.
Proof. intros; unfold sm_handle, ret; cases; leaf; eauto 30 with nkdb. Qed.
#[export] Hint Resolve NK_sm_handle : nkdb.
Lemma NK_stream_end : forall g ty rw c0 s o, NK g ty rw c0 s o -> NK g ty rw c0 (fst (stream_end s)) (o ++ snd (stream_end s)).
Proof. intros; name_result; unfold stream_end, ret; cases; leaf; eauto 30 with nkdb. Qed.
#[export] Hint Resolve NK_stream_end : nkdb.

(* bodies that may report "connected" *)
Ltac live_tac :=
  match goal with
  | L0 : ?rw = false -> st ?s <> Disconnected |- ?rw = false -> st ?x <> Disconnected =>
      let R := fresh in let E := fresh in
      intros R; specialize (L0 R); assert (E : StEq s x) by eauto 20 with steqdb; unfold StEq in E; congruence
  end.
#[export] Hint Extern 1 (NK _ _ _ _ (fst (stream_negotiation_success _)) _) =>
  (apply NK_sns; [auto | live_tac | ]) : nkdb.

Lemma NK_call_handler_plain : forall k n e g ty rw c0 s o, hkind_eqb k HSm = false -> hkind_eqb k HComponentHs = false ->
  NK g ty rw c0 s o -> NK g ty rw c0 (fst (fst (call_handler k n e s))) (o ++ snd (fst (call_handler k n e s))).
Proof.
  intros k; destruct k; intros n0 e g ty rw c0 s o K1 K2 H; try discriminate;
    name_result; unfold call_handler, ret; cases; leaf; eauto 30 with nkdb.
Qed.
Lemma NK_HComponentHs : forall n e g ty rw c0 s o, (e_name e = NmHandshake -> cjt g ty rw = true) -> (rw = false -> st s <> Disconnected) ->
  NK g ty rw c0 s o -> NK g ty rw c0 (fst (fst (call_handler HComponentHs n e s))) (o ++ snd (fst (call_handler HComponentHs n e s))).
Proof.
  intros n e g ty rw c0 s o J L H. name_result. unfold call_handler, ret. cases; leaf; eauto 30 with nkdb.
Qed.
Lemma NK_HSm : forall n e g ty rw c0 s o,
  (negb (sm_enabled s) = false -> e_name e = NmEnabled -> cjt g ty rw = true) ->
  (e_name e = NmResumed -> cjt g ty rw = true) ->
  (sm_resume s = false -> e_name e = NmFailed -> cjt g ty rw = true) ->
  (rw = false -> st s <> Disconnected) ->
  NK g ty rw c0 s o -> NK g ty rw c0 (fst (fst (call_handler HSm n e s))) (o ++ snd (fst (call_handler HSm n e s))).
Proof.
  intros n e g ty rw c0 s o J1 J2 J3 L H. name_result. unfold call_handler, ret. cases; leaf; eauto 30 with nkdb.
Qed.
Lemma NK_call_id_handler : forall k n e g ty rw c0 s o,
  (e_type e = TyResult -> (k = IKLegacy -> e_name e = NmIq) -> cjt g ty rw = true) -> (rw = false -> st s <> Disconnected) ->
  NK g ty rw c0 s o -> NK g ty rw c0 (fst (call_id_handler k n e s)) (o ++ snd (call_id_handler k n e s)).
Proof.
  intros k n e g ty rw c0 s o J L H. destruct k; name_result; unfold call_id_handler, ret; cases; leaf;
    try (assert (J' : cjt g ty rw = true) by (apply J; [reflexivity | let X := fresh in intros X; first [discriminate X | assumption | reflexivity]]));
    clear J;
    try (match goal with |- NK _ _ _ _ (fst (stream_negotiation_success _)) _ => apply NK_sns; [assumption | live_tac | eauto 10 with nkdb] end);
    eauto 30 with nkdb.
Qed.
Lemma NK_open_handler : forall n g ty rw c0 s o, (oh s = OpenRaw -> cjt g ty rw = true) -> (rw = false -> st s <> Disconnected) ->
  NK g ty rw c0 s o -> NK g ty rw c0 (fst (open_handler n s)) (o ++ snd (open_handler n s)).
Proof.
  intros n g ty rw c0 s o J L H. name_result. unfold open_handler, ret. destruct (oh s) eqn:O; try specialize (J eq_refl); cases; leaf; eauto 30 with nkdb.
Qed.

(* ------------------------------------------------------------------ lifting: one dispatched element *)
Lemma NK_regh : forall g ty rw c0 s o, NK g ty rw c0 s o -> NK (gh s) ty rw c0 s o.
Proof. intros g ty rw c0 s o []. constructor; auto using GFr_refl. Qed.
Lemma NK_mono : forall g g' ty rw c0 s o, GFr g' g -> NK g ty rw c0 s o -> NK g' ty rw c0 s o.
Proof. intros g g' ty rw c0 s o F []. constructor; auto. eapply GFr_trans; eauto. Qed.
Lemma cjt_client : forall g, g_auth_ok g = true -> (g_bound g = true \/ g_resumed g = true) -> cjt g TClient false = true.
Proof. intros g A [B|B]; unfold cjt; rewrite A, B; cbn; rewrite ?orb_true_r; reflexivity. Qed.
Lemma live_st : forall s, live s = true -> st s <> Disconnected.
Proof. intros s L D. unfold live in L. rewrite D in L. discriminate. Qed.
Lemma not_live : forall s, live s = false -> st s = Disconnected.
Proof. intros s. unfold live. destruct (st s); auto; discriminate. Qed.

Section CKVisit.
Variables (g : ghost) (ty : ctype) (rw : bool) (c0 : nat) (n : Z) (e : elem) (p : list out).
Hypothesis NX : Nx e g.
Definition K2 (r : R) : Prop :=
  PH (fst r) /\ DL (fst r) /\ CR true g ty rw (fst r) /\ NK g ty rw c0 (fst r) (p ++ snd r).
Lemma CK_visit : forall r k, K2 r -> K2 (visit n e r k).
Proof.
  intros [s o] k (P & L & C & K). pose proof (PH_visit n e (s, o) k (conj P L)) as [P1 L1]. refine (conj P1 (conj L1 _)).
  cbn [fst snd] in *. unfold visit.
  destruct (crashed s); [split; assumption|]. destruct (negb (h_has k s)) eqn:E; [split; assumption|]. apply negb_false_iff in E.
  destruct (hkind_eqb k HUser && negb (neg_done s)); [split; assumption|].
  destruct (negb (filter_match k e)) eqn:Fm; [split; assumption|]. apply negb_false_iff in Fm.
  destruct NX as (N1 & N2 & N3 & N4 & N5). pose proof C as C'. cr_dest C'.
  assert (Lv0 : live s = true \/ live s = false) by (destruct (live s); auto). destruct Lv0 as [Lv|Lv].
  - (* live connection *)
    pose proof (live_st s Lv) as Ls.
    destruct (hkind_eqb k HSm) eqn:Ksm; [apply hkind_eqb_eq in Ksm; subst k|].
    + (* _handle_sm *)
      assert (TC : isclient ty rw) by (apply R5; [exact Lv | exact (clientreg_main HSm s eq_refl E)]).
      assert (A : g_auth_ok g = true) by (apply R1; exact (postauth_pa HSm s eq_refl E)).
      destruct TC as [Ety Erw].
      pose proof (CR_HSm g ty rw n e s Lv E Fm NX C) as Q1.
      pose proof (NK_HSm n e g ty rw c0 s (p ++ o)) as Q2.
      destruct (call_handler HSm n e s) as [[s1 o1] keep]. cbn [fst snd] in *.
      split; [exact Q1|]. rewrite app_assoc.
      assert (Q3 : NK g ty rw c0 s1 ((p ++ o) ++ o1)).
      { apply Q2; auto; rewrite Ety, Erw.
        - intros En _. apply negb_false_iff in En. apply cjt_client; auto.
        - intros Nm. apply cjt_client; auto. right. apply N4; [exact (filter_sm e Fm) | exact Nm].
        - intros Sr _. apply cjt_client; auto. }
      destruct keep; [exact Q3 | apply NK_h_del; exact Q3].
    + destruct (hkind_eqb k HComponentHs) eqn:Kc; [apply hkind_eqb_eq in Kc; subst k|].
      * (* component handshake *)
        assert (IC : iscomp ty rw) by (apply R6; auto). destruct IC as [Ety Erw].
        pose proof (CR_call_handler true g ty rw HComponentHs n e s eq_refl Lv E Fm NX C) as Q1.
        pose proof (NK_HComponentHs n e g ty rw c0 s (p ++ o)) as Q2.
        destruct (call_handler HComponentHs n e s) as [[s1 o1] keep]. cbn [fst snd] in *.
        assert (Q3 : NK g ty rw c0 s1 ((p ++ o) ++ o1)) by (apply Q2; auto; rewrite Ety, Erw; exact N5).
        rewrite app_assoc. destruct keep; [split; assumption | split; [apply CR_h_del; exact Q1 | apply NK_h_del; exact Q3]].
      * pose proof (CR_call_handler true g ty rw k n e s Ksm Lv E Fm NX C) as Q1.
        pose proof (NK_call_handler_plain k n e g ty rw c0 s (p ++ o) Ksm Kc K) as Q3.
        destruct (call_handler k n e s) as [[s1 o1] keep]. cbn [fst snd] in *.
        rewrite app_assoc. destruct keep; [split; assumption | split; [apply CR_h_del; exact Q1 | apply NK_h_del; exact Q3]].
  - (* dead connection: only the user handler / _handle_error can be registered *)
    destruct (Dead_handler k s (L (not_live s Lv)) E) as [A B].
    assert (Ksm : hkind_eqb k HSm = false) by (destruct k; try discriminate; reflexivity).
    pose proof (NK_call_handler_plain k n e g ty rw c0 s (p ++ o) Ksm B K) as Q3.
    assert (Q1 : CR true g ty rw (fst (fst (call_handler k n e s)))).
    { destruct k; try discriminate; cbn [call_handler fst]; eauto with crdb. }
    destruct (call_handler k n e s) as [[s1 o1] keep]. cbn [fst snd] in *.
    rewrite app_assoc. destruct keep; [split; assumption | split; [apply CR_h_del; exact Q1 | apply NK_h_del; exact Q3]].
Qed.
Lemma CK_fold_visit : forall l r, K2 r -> K2 (fold_left (visit n e) l r).
Proof. intros l. apply fold_left_inv. intros; apply CK_visit; auto. Qed.
End CKVisit.

Definition CKs (ty : ctype) (rw : bool) (c0 : nat) (s : state) (o : list out) : Prop :=
  CR true (gh s) ty rw s /\ NK (gh s) ty rw c0 s o.
Lemma CKs_of : forall g ty rw c0 s o, CR true g ty rw s -> NK g ty rw c0 s o -> CKs ty rw c0 s o.
Proof. intros g ty rw c0 s o C K. split; [eapply CR_mono; [apply (nk_gfr _ _ _ _ _ _ K) | exact C] | eapply NK_regh; exact K]. Qed.
Lemma cjt_legacy : forall g, g_legacy_ok g = true -> cjt g TClient false = true.
Proof. intros g A. unfold cjt. rewrite A. apply orb_true_r. Qed.

Lemma CK_dispatch : forall ty rw c0 n e p s, PH s -> DL s -> CKs ty rw c0 s p ->
  CKs ty rw c0 (fst (dispatch n e s)) (p ++ snd (dispatch n e s)).
Proof.
  intros ty rw c0 n e p s0 P0 L0 [C0 K0].
  pose proof (PH_note_rx e s0 P0) as P1. pose proof (DL_note_rx e s0 L0) as L1.
  assert (C1 : CR true (gh (note_rx e s0)) ty rw (note_rx e s0)) by (apply CR_note_rx; eapply CR_mono; [apply GFr_note_rx | exact C0]).
  assert (K1 : NK (gh (note_rx e s0)) ty rw c0 (note_rx e s0) p) by (eapply NK_regh; apply NK_note_rx; exact K0).
  pose proof (note_rx_noted e s0) as NX.
  unfold dispatch. revert NX C1 K1. generalize (gh (note_rx e s0)). intros g NX C1 K1.
  generalize dependent (note_rx e s0). clear s0 P0 L0 C0 K0. intros s P1 L1 C1 K1.
  destruct (negb (sm_alloc s)); [cbn [fst snd]; apply (CKs_of g); eauto with crdb nkdb|].
  pose proof (PH_enable_all s P1) as P2. pose proof (DL_enable_all s L1) as L2.
  assert (C2 : CR true g ty rw (set_handlers (map (fun x : hkind * bool => (fst x, true)) (handlers s)) s)) by eauto with crdb.
  assert (K2' : NK g ty rw c0 (set_handlers (map (fun x : hkind * bool => (fst x, true)) (handlers s)) s) p) by eauto with nkdb.
  generalize dependent (set_handlers (map (fun x : hkind * bool => (fst x, true)) (handlers s)) s). clear s P1 L1 C1 K1. intros s P2 L2 C2 K2'.
  cbv zeta.
  match goal with |- context [let '(s1, o1) := ?r in _] => assert (Rr : K2 g ty rw c0 p r) end.
  { unfold K2. destruct (idk_of (e_id e)) as [k|] eqn:Ik; [|cbn [fst snd ret]; rewrite app_nil_r; auto].
    destruct (id_has k s) eqn:Hk; [|cbn [fst snd ret]; rewrite app_nil_r; auto].
    destruct (is_user_id k) eqn:Uk; cbn [andb].
    { (* the user's id handler: no state change, no "connected" report *)
      destruct k; try discriminate Uk. destruct (negb (neg_done s)); cbn [fst snd ret call_id_handler is_user_id];
        [rewrite app_nil_r; auto|].
      refine (conj P2 (conj L2 (conj C2 _))). apply NK_noc; [exact K2'|reflexivity]. }
    pose proof (PH_id_step k n e s Uk P2 L2 Hk) as [T1 T2].
    assert (Lv : live s = true).
    { destruct (live s) eqn:Lv; auto. rewrite (Dead_no_id k s Uk (L2 (not_live s Lv))) in Hk. discriminate. }
    pose proof (CR_call_id_handler g ty rw k n e s Lv Hk Ik NX C2) as T3.
    pose proof (NK_call_id_handler k n e g ty rw c0 s p) as T4.
    destruct (call_id_handler k n e s) as [s1 o1]. cbn [fst snd] in *. refine (conj T1 (conj T2 (conj (CR_id_del _ _ _ _ k s1 T3) _))).
    apply NK_id_del. apply T4; auto; [|intros _; apply live_st; exact Lv].
    intros Ty Nm. destruct NX as (N1 & N2 & N3 & N4 & N5). pose proof C2 as C2'. cr_dest C2'.
    assert (TC : isclient ty rw) by (apply R5; [exact Lv | exact (clientreg_id k s Uk Hk)]). destruct TC as [Ety Erw]. rewrite Ety, Erw.
    destruct k; [ | | |discriminate Uk].
    - apply cjt_client; [apply R1; exact (postauth_id IKBind s eq_refl Hk) | left; apply N2; auto; destruct (e_id e); try discriminate; reflexivity].
    - apply cjt_client; [apply R1; exact (postauth_id IKSession s eq_refl Hk) | left; apply R2; exact Hk].
    - apply cjt_legacy. apply N3; auto. destruct (e_id e); try discriminate; reflexivity. }
  match goal with |- context [let '(s1, o1) := ?r in _] => destruct r as [s1 o1] end.
  pose proof (CK_fold_visit g ty rw c0 n e p NX (map fst (filter (fun x => snd x) (handlers s1))) (s1, o1) Rr) as (P4 & L4 & C4 & K4).
  destruct (fold_left (visit n e) (map fst (filter (fun x => snd x) (handlers s1))) (s1, o1)) as [s3 o3]. cbn [fst snd] in *.
  destruct (crashed s3); [cbn [fst snd]; apply (CKs_of g); auto|]. destruct (sm_enabled s3); cbn [fst snd]; apply (CKs_of g); eauto with crdb nkdb.
Qed.

(* ------------------------------------------------------------------ lifting: parser layer *)
Lemma NK_stream_start : forall n a b ty rw c0 s o, (rw = false -> st s <> Disconnected) -> (oh s = OpenRaw -> rw = true) ->
  NK (gh s) ty rw c0 s o ->
  NK (gh (fst (stream_start n a b s))) ty rw c0 (fst (stream_start n a b s)) (o ++ snd (stream_start n a b s)).
Proof.
  intros n a b ty rw c0 s o L R7 H. unfold stream_start.
  set (x := set_stream_id false (upg (fun g : ghost => set_g_raw_open (a || g_raw_open g) (set_g_feat_seen false g)) s)).
  assert (Hx : NK (gh x) ty rw c0 x o) by (eapply NK_regh; unfold x; eauto 10 with nkdb).
  assert (Gx : a = true -> g_raw_open (gh x) = true) by (intros ->; unfold x; sproj; destruct (gh s); reflexivity).
  assert (Lx : rw = false -> st x <> Disconnected) by exact L.
  assert (Ox : oh x = oh s) by reflexivity.
  clearbody x. destruct a.
  - pose proof (NK_open_handler n (gh x) ty rw c0 (set_stream_id b x) o) as Q.
    eapply NK_regh. apply Q; auto; [ | eauto with nkdb].
    intros O. change (oh (set_stream_id b x)) with (oh x) in O. rewrite Ox in O. rewrite (R7 O). unfold cjt. auto.
  - eapply NK_regh. apply NK_conn_disconnect. exact Hx.
Qed.

Lemma CK_feed_item : forall ty rw c0 n it p s, FI s -> CKs ty rw c0 s p ->
  CKs ty rw c0 (fst (fst (feed_item n it s))) (p ++ snd (fst (feed_item n it s))).
Proof.
  intros ty rw c0 n it p s (P & L & F) [C K].
  assert (Gen : forall s' o', CR true (gh s) ty rw s' -> NK (gh s) ty rw c0 s' (p ++ o') -> CKs ty rw c0 s' (p ++ o')) by (intros; eapply CKs_of; eauto).
  assert (R7 : oh s = OpenRaw -> rw = true) by apply C.
  unfold feed_item.
  destruct (ps s) eqn:Ps; cbn [ps_live is_depth0] in *;
    destruct it as [h|e| |]; try (cases; cbn [fst snd]; apply Gen; eauto 10 with crdb nkdb; fail).
  - (* header at depth 0 *)
    destruct (F eq_refl) as [Fc Fr].
    assert (Lv : live (set_ps POpen s) = true) by (unfold live; sproj; rewrite Fc; reflexivity).
    pose proof (CR_stream_start (gh s) ty rw n true h _ Lv (CR_set_ps _ _ _ _ POpen s C)) as Q1.
    pose proof (NK_stream_start n true h ty rw c0 (set_ps POpen s) p) as Q2.
    pose proof (Fr_stream_start n true h _ _ (Fr_refl (set_ps POpen s))) as Ff.
    destruct (stream_start n true h (set_ps POpen s)) as [s1 o1]. cbn [fst snd] in *.
    assert (Q3 : NK (gh s1) ty rw c0 s1 (p ++ o1)) by (apply Q2; [intros _; sproj; congruence | exact R7 | apply NK_set_ps; exact K]).
    apply (CKs_of (gh s1)); [|exact Q3]. eapply CR_mono; [exact (fr_gh _ _ Ff)|exact Q1].
  - (* element at depth 0 *)
    destruct (F eq_refl) as [Fc Fr].
    destruct (ns_eqb (e_ns e) NsStreams); [cbn [fst snd]; apply Gen; eauto 10 with crdb nkdb|].
    assert (Lv : live (set_ps PClosed s) = true) by (unfold live; sproj; rewrite Fc; reflexivity).
    pose proof (CR_stream_start (gh s) ty rw n (ename_eqb (e_name e) NmStream) false _ Lv (CR_set_ps _ _ _ _ PClosed s C)) as Q1.
    pose proof (NK_stream_start n (ename_eqb (e_name e) NmStream) false ty rw c0 (set_ps PClosed s) p) as Q2.
    pose proof (Fr_stream_start n (ename_eqb (e_name e) NmStream) false _ _ (Fr_refl (set_ps PClosed s))) as Ff.
    destruct (stream_start n (ename_eqb (e_name e) NmStream) false (set_ps PClosed s)) as [s1 o1]. cbn [fst snd] in *.
    assert (Q3 : NK (gh s1) ty rw c0 s1 (p ++ o1)) by (apply Q2; [intros _; sproj; congruence | exact R7 | apply NK_set_ps; exact K]).
    assert (Q4 : CR true (gh s1) ty rw s1) by (eapply CR_mono; [exact (fr_gh _ _ Ff)|exact Q1]).
    destruct (crashed s1); [cbn [fst snd]; split; assumption|].
    pose proof (CR_stream_end true (gh s1) ty rw s1 Q4) as Q5. pose proof (NK_stream_end (gh s1) ty rw c0 s1 (p ++ o1) Q3) as Q6.
    destruct (stream_end s1) as [s2 o2]. cbn [fst snd] in *. rewrite app_assoc. apply (CKs_of (gh s1)); assumption.
  - (* element on an open stream *)
    pose proof (CK_dispatch ty rw c0 n e p s P (L eq_refl) (conj C K)) as Q. destruct (dispatch n e s) as [s1 o1]. exact Q.
  - (* end of a swallowed nested stream element *)
    destruct n0 as [|[|m]]; try (cbn [fst snd]; apply Gen; eauto 10 with crdb nkdb; fail).
    pose proof (CK_dispatch ty rw c0 n (nested_stream_elem cns) p _ (PH_set_ps POpen s eq_refl P) (DL_set_ps POpen s (L eq_refl))) as Q.
    destruct (dispatch n (nested_stream_elem cns) (set_ps POpen s)) as [s1 o1]. apply Q.
    split; [apply CR_set_ps; exact C | apply NK_set_ps; exact K].
Qed.
Lemma CK_feed_items : forall ty rw c0 n its p s, FI s -> CKs ty rw c0 s p ->
  CKs ty rw c0 (fst (fst (feed_items n its s))) (p ++ snd (fst (feed_items n its s))).
Proof.
  intros ty rw c0 n. induction its as [|it r IH]; intros p s F H; cbn [feed_items]; [cbn [fst snd]; rewrite app_nil_r; exact H|].
  destruct (crashed s); [cbn [fst snd]; rewrite app_nil_r; exact H|].
  pose proof (FI_feed_item n it s F) as F1. pose proof (CK_feed_item ty rw c0 n it p s F H) as H1.
  destruct (feed_item n it s) as [[s1 o1] bad]. cbn [fst snd] in *.
  destruct bad; [exact H1|]. specialize (IH (p ++ o1) s1 F1 H1). destruct (feed_items n r s1) as [[s2 o2] bad2]. cbn [fst snd] in *.
  rewrite app_assoc. exact IH.
Qed.

(* CRD: the part of CR that does not depend on the connection being live (a disconnected object's timed handlers
   may still run once within the same iteration) *)
Definition CRD (g : ghost) (rw : bool) (s : state) : Prop :=
  (postauth s = true -> g_auth_ok g = true) /\ (id_has IKSession s = true -> g_bound g = true) /\
  (sm_enabled s = true -> g_bound g = true \/ g_resumed g = true) /\ (oh s = OpenRaw -> rw = true).
Lemma CRD_set_f_tls_disabled : forall g rw v s, CRD g rw s -> CRD g rw (set_f_tls_disabled v s).
Proof. intros g rw v []; exact (fun h => h). Qed.
#[export] Hint Resolve CRD_set_f_tls_disabled : crddb.
Lemma CRD_set_f_tls_mandatory : forall g rw v s, CRD g rw s -> CRD g rw (set_f_tls_mandatory v s).
Proof. intros g rw v []; exact (fun h => h). Qed.
#[export] Hint Resolve CRD_set_f_tls_mandatory : crddb.
Lemma CRD_set_f_legacy_ssl : forall g rw v s, CRD g rw s -> CRD g rw (set_f_legacy_ssl v s).
Proof. intros g rw v []; exact (fun h => h). Qed.
#[export] Hint Resolve CRD_set_f_legacy_ssl : crddb.
Lemma CRD_set_f_tls_trust : forall g rw v s, CRD g rw s -> CRD g rw (set_f_tls_trust v s).
Proof. intros g rw v []; exact (fun h => h). Qed.
#[export] Hint Resolve CRD_set_f_tls_trust : crddb.
Lemma CRD_set_f_legacy_auth : forall g rw v s, CRD g rw s -> CRD g rw (set_f_legacy_auth v s).
Proof. intros g rw v []; exact (fun h => h). Qed.
#[export] Hint Resolve CRD_set_f_legacy_auth : crddb.
Lemma CRD_set_f_sm_disable : forall g rw v s, CRD g rw s -> CRD g rw (set_f_sm_disable v s).
Proof. intros g rw v []; exact (fun h => h). Qed.
#[export] Hint Resolve CRD_set_f_sm_disable : crddb.
Lemma CRD_set_f_comp_allowed : forall g rw v s, CRD g rw s -> CRD g rw (set_f_comp_allowed v s).
Proof. intros g rw v []; exact (fun h => h). Qed.
#[export] Hint Resolve CRD_set_f_comp_allowed : crddb.
Lemma CRD_set_f_comp_dont_reset : forall g rw v s, CRD g rw s -> CRD g rw (set_f_comp_dont_reset v s).
Proof. intros g rw v []; exact (fun h => h). Qed.
#[export] Hint Resolve CRD_set_f_comp_dont_reset : crddb.
Lemma CRD_set_jid_set : forall g rw v s, CRD g rw s -> CRD g rw (set_jid_set v s).
Proof. intros g rw v []; exact (fun h => h). Qed.
#[export] Hint Resolve CRD_set_jid_set : crddb.
Lemma CRD_set_jid_node : forall g rw v s, CRD g rw s -> CRD g rw (set_jid_node v s).
Proof. intros g rw v []; exact (fun h => h). Qed.
#[export] Hint Resolve CRD_set_jid_node : crddb.
Lemma CRD_set_jid_res : forall g rw v s, CRD g rw s -> CRD g rw (set_jid_res v s).
Proof. intros g rw v []; exact (fun h => h). Qed.
#[export] Hint Resolve CRD_set_jid_res : crddb.
Lemma CRD_set_pass_set : forall g rw v s, CRD g rw s -> CRD g rw (set_pass_set v s).
Proof. intros g rw v []; exact (fun h => h). Qed.
#[export] Hint Resolve CRD_set_pass_set : crddb.
Lemma CRD_set_cert_set : forall g rw v s, CRD g rw s -> CRD g rw (set_cert_set v s).
Proof. intros g rw v []; exact (fun h => h). Qed.
#[export] Hint Resolve CRD_set_cert_set : crddb.
Lemma CRD_set_is_raw : forall g rw v s, CRD g rw s -> CRD g rw (set_is_raw v s).
Proof. intros g rw v []; exact (fun h => h). Qed.
#[export] Hint Resolve CRD_set_is_raw : crddb.
Lemma CRD_set_typ : forall g rw v s, CRD g rw s -> CRD g rw (set_typ v s).
Proof. intros g rw v []; exact (fun h => h). Qed.
#[export] Hint Resolve CRD_set_typ : crddb.
Lemma CRD_set_user_handler : forall g rw v s, CRD g rw s -> CRD g rw (set_user_handler v s).
Proof. intros g rw v []; exact (fun h => h). Qed.
#[export] Hint Resolve CRD_set_user_handler : crddb.
Lemma CRD_set_user_timed : forall g rw v s, CRD g rw s -> CRD g rw (set_user_timed v s).
Proof. intros g rw v []; exact (fun h => h). Qed.
#[export] Hint Resolve CRD_set_user_timed : crddb.
Lemma CRD_set_tlsnew_ok : forall g rw v s, CRD g rw s -> CRD g rw (set_tlsnew_ok v s).
Proof. intros g rw v []; exact (fun h => h). Qed.
#[export] Hint Resolve CRD_set_tlsnew_ok : crddb.
Lemma CRD_set_cb_avail : forall g rw v s, CRD g rw s -> CRD g rw (set_cb_avail v s).
Proof. intros g rw v []; exact (fun h => h). Qed.
#[export] Hint Resolve CRD_set_cb_avail : crddb.
Lemma CRD_set_tls_verdicts : forall g rw v s, CRD g rw s -> CRD g rw (set_tls_verdicts v s).
Proof. intros g rw v []; exact (fun h => h). Qed.
#[export] Hint Resolve CRD_set_tls_verdicts : crddb.
Lemma CRD_set_next_cands : forall g rw v s, CRD g rw s -> CRD g rw (set_next_cands v s).
Proof. intros g rw v []; exact (fun h => h). Qed.
#[export] Hint Resolve CRD_set_next_cands : crddb.
Lemma CRD_set_cands : forall g rw v s, CRD g rw s -> CRD g rw (set_cands v s).
Proof. intros g rw v []; exact (fun h => h). Qed.
#[export] Hint Resolve CRD_set_cands : crddb.
Lemma CRD_set_cur_ep : forall g rw v s, CRD g rw s -> CRD g rw (set_cur_ep v s).
Proof. intros g rw v []; exact (fun h => h). Qed.
#[export] Hint Resolve CRD_set_cur_ep : crddb.
Lemma CRD_set_st : forall g rw v s, CRD g rw s -> CRD g rw (set_st v s).
Proof. intros g rw v []; exact (fun h => h). Qed.
#[export] Hint Resolve CRD_set_st : crddb.
Lemma CRD_set_stamp : forall g rw v s, CRD g rw s -> CRD g rw (set_stamp v s).
Proof. intros g rw v []; exact (fun h => h). Qed.
#[export] Hint Resolve CRD_set_stamp : crddb.
Lemma CRD_set_err : forall g rw v s, CRD g rw s -> CRD g rw (set_err v s).
Proof. intros g rw v []; exact (fun h => h). Qed.
#[export] Hint Resolve CRD_set_err : crddb.
Lemma CRD_set_stream_error : forall g rw v s, CRD g rw s -> CRD g rw (set_stream_error v s).
Proof. intros g rw v []; exact (fun h => h). Qed.
#[export] Hint Resolve CRD_set_stream_error : crddb.
Lemma CRD_set_secured : forall g rw v s, CRD g rw s -> CRD g rw (set_secured v s).
Proof. intros g rw v []; exact (fun h => h). Qed.
#[export] Hint Resolve CRD_set_secured : crddb.
Lemma CRD_set_tls_present : forall g rw v s, CRD g rw s -> CRD g rw (set_tls_present v s).
Proof. intros g rw v []; exact (fun h => h). Qed.
#[export] Hint Resolve CRD_set_tls_present : crddb.
Lemma CRD_set_tls_failed : forall g rw v s, CRD g rw s -> CRD g rw (set_tls_failed v s).
Proof. intros g rw v []; exact (fun h => h). Qed.
#[export] Hint Resolve CRD_set_tls_failed : crddb.
Lemma CRD_set_tls_support : forall g rw v s, CRD g rw s -> CRD g rw (set_tls_support v s).
Proof. intros g rw v []; exact (fun h => h). Qed.
#[export] Hint Resolve CRD_set_tls_support : crddb.
Lemma CRD_set_sasl : forall g rw v s, CRD g rw s -> CRD g rw (set_sasl v s).
Proof. intros g rw v []; exact (fun h => h). Qed.
#[export] Hint Resolve CRD_set_sasl : crddb.
Lemma CRD_set_bind_required : forall g rw v s, CRD g rw s -> CRD g rw (set_bind_required v s).
Proof. intros g rw v []; exact (fun h => h). Qed.
#[export] Hint Resolve CRD_set_bind_required : crddb.
Lemma CRD_set_session_required : forall g rw v s, CRD g rw s -> CRD g rw (set_session_required v s).
Proof. intros g rw v []; exact (fun h => h). Qed.
#[export] Hint Resolve CRD_set_session_required : crddb.
Lemma CRD_set_comp_supported : forall g rw v s, CRD g rw s -> CRD g rw (set_comp_supported v s).
Proof. intros g rw v []; exact (fun h => h). Qed.
#[export] Hint Resolve CRD_set_comp_supported : crddb.
Lemma CRD_set_comp_active : forall g rw v s, CRD g rw s -> CRD g rw (set_comp_active v s).
Proof. intros g rw v []; exact (fun h => h). Qed.
#[export] Hint Resolve CRD_set_comp_active : crddb.
Lemma CRD_set_sm_alloc : forall g rw v s, CRD g rw s -> CRD g rw (set_sm_alloc v s).
Proof. intros g rw v []; exact (fun h => h). Qed.
#[export] Hint Resolve CRD_set_sm_alloc : crddb.
Lemma CRD_set_sm_support : forall g rw v s, CRD g rw s -> CRD g rw (set_sm_support v s).
Proof. intros g rw v []; exact (fun h => h). Qed.
#[export] Hint Resolve CRD_set_sm_support : crddb.
Lemma CRD_set_sm_can_resume : forall g rw v s, CRD g rw s -> CRD g rw (set_sm_can_resume v s).
Proof. intros g rw v []; exact (fun h => h). Qed.
#[export] Hint Resolve CRD_set_sm_can_resume : crddb.
Lemma CRD_set_sm_resume : forall g rw v s, CRD g rw s -> CRD g rw (set_sm_resume v s).
Proof. intros g rw v []; exact (fun h => h). Qed.
#[export] Hint Resolve CRD_set_sm_resume : crddb.
Lemma CRD_set_sm_dont_request : forall g rw v s, CRD g rw s -> CRD g rw (set_sm_dont_request v s).
Proof. intros g rw v []; exact (fun h => h). Qed.
#[export] Hint Resolve CRD_set_sm_dont_request : crddb.
Lemma CRD_set_sm_has_previd : forall g rw v s, CRD g rw s -> CRD g rw (set_sm_has_previd v s).
Proof. intros g rw v []; exact (fun h => h). Qed.
#[export] Hint Resolve CRD_set_sm_has_previd : crddb.
Lemma CRD_set_sm_has_id : forall g rw v s, CRD g rw s -> CRD g rw (set_sm_has_id v s).
Proof. intros g rw v []; exact (fun h => h). Qed.
#[export] Hint Resolve CRD_set_sm_has_id : crddb.
Lemma CRD_set_sm_parked : forall g rw v s, CRD g rw s -> CRD g rw (set_sm_parked v s).
Proof. intros g rw v []; exact (fun h => h). Qed.
#[export] Hint Resolve CRD_set_sm_parked : crddb.
Lemma CRD_set_sm_r_sent : forall g rw v s, CRD g rw s -> CRD g rw (set_sm_r_sent v s).
Proof. intros g rw v []; exact (fun h => h). Qed.
#[export] Hint Resolve CRD_set_sm_r_sent : crddb.
Lemma CRD_set_sm_bind_saved : forall g rw v s, CRD g rw s -> CRD g rw (set_sm_bind_saved v s).
Proof. intros g rw v []; exact (fun h => h). Qed.
#[export] Hint Resolve CRD_set_sm_bind_saved : crddb.
Lemma CRD_set_bound_jid : forall g rw v s, CRD g rw s -> CRD g rw (set_bound_jid v s).
Proof. intros g rw v []; exact (fun h => h). Qed.
#[export] Hint Resolve CRD_set_bound_jid : crddb.
Lemma CRD_set_stream_id : forall g rw v s, CRD g rw s -> CRD g rw (set_stream_id v s).
Proof. intros g rw v []; exact (fun h => h). Qed.
#[export] Hint Resolve CRD_set_stream_id : crddb.
Lemma CRD_set_neg_done : forall g rw v s, CRD g rw s -> CRD g rw (set_neg_done v s).
Proof. intros g rw v []; exact (fun h => h). Qed.
#[export] Hint Resolve CRD_set_neg_done : crddb.
Lemma CRD_set_reset_parser : forall g rw v s, CRD g rw s -> CRD g rw (set_reset_parser v s).
Proof. intros g rw v []; exact (fun h => h). Qed.
#[export] Hint Resolve CRD_set_reset_parser : crddb.
Lemma CRD_set_ps : forall g rw v s, CRD g rw s -> CRD g rw (set_ps v s).
Proof. intros g rw v []; exact (fun h => h). Qed.
#[export] Hint Resolve CRD_set_ps : crddb.
Lemma CRD_set_timed : forall g rw v s, CRD g rw s -> CRD g rw (set_timed v s).
Proof. intros g rw v []; exact (fun h => h). Qed.
#[export] Hint Resolve CRD_set_timed : crddb.
Lemma CRD_set_sendq : forall g rw v s, CRD g rw s -> CRD g rw (set_sendq v s).
Proof. intros g rw v []; exact (fun h => h). Qed.
#[export] Hint Resolve CRD_set_sendq : crddb.
Lemma CRD_set_rxq : forall g rw v s, CRD g rw s -> CRD g rw (set_rxq v s).
Proof. intros g rw v []; exact (fun h => h). Qed.
#[export] Hint Resolve CRD_set_rxq : crddb.
Lemma CRD_set_smq : forall g rw v s, CRD g rw s -> CRD g rw (set_smq v s).
Proof. intros g rw v []; exact (fun h => h). Qed.
#[export] Hint Resolve CRD_set_smq : crddb.
Lemma CRD_set_sm_sent : forall g rw v s, CRD g rw s -> CRD g rw (set_sm_sent v s).
Proof. intros g rw v []; exact (fun h => h). Qed.
#[export] Hint Resolve CRD_set_sm_sent : crddb.
Lemma CRD_set_scram_serial : forall g rw v s, CRD g rw s -> CRD g rw (set_scram_serial v s).
Proof. intros g rw v []; exact (fun h => h). Qed.
#[export] Hint Resolve CRD_set_scram_serial : crddb.
Lemma CRD_set_crashed : forall g rw v s, CRD g rw s -> CRD g rw (set_crashed v s).
Proof. intros g rw v []; exact (fun h => h). Qed.
#[export] Hint Resolve CRD_set_crashed : crddb.
Lemma CRD_set_gh : forall g rw v s, CRD g rw s -> CRD g rw (set_gh v s).
Proof. intros g rw v []; exact (fun h => h). Qed.
#[export] Hint Resolve CRD_set_gh : crddb.
Lemma CRD_upg : forall g rw f s, CRD g rw s -> CRD g rw (upg f s).
Proof. intros g rw f []; exact (fun h => h). Qed.
Lemma CRD_h_add : forall g rw k s, is_pa k = false -> CRD g rw s -> CRD g rw (h_add k s).
Proof.
  intros g rw k s K (A & B & C & D).
  assert (E : CR false g TClient false (h_add k s) -> True) by auto.
  refine (conj _ (conj _ (conj _ _))).
  - unfold postauth. intros P. apply A. unfold postauth. revert P. unfold h_add, id_has. destruct (h_has k s); auto. sproj. rewrite existsb_pa_app. cbn. rewrite K, orb_false_r. auto.
  - intros P. apply B. revert P. unfold h_add, id_has; cases; auto.
  - intros P. apply C. revert P. unfold h_add; cases; auto.
  - intros P. apply D. revert P. unfold h_add; cases; auto.
Qed.
Lemma CRD_id_add_legacy : forall g rw s, CRD g rw s -> CRD g rw (id_add IKLegacy s).
Proof.
  intros g rw s (A & B & C & D). refine (conj _ (conj _ (conj _ _))).
  - unfold postauth. rewrite !id_has_id_add. cbn [idk_eqb]. rewrite !orb_false_r.
    assert (handlers (id_add IKLegacy s) = handlers s) as -> by (unfold id_add; cases; reflexivity).
    assert (oh (id_add IKLegacy s) = oh s) as -> by (unfold id_add; cases; reflexivity). exact A.
  - rewrite id_has_id_add. cbn [idk_eqb]. rewrite orb_false_r. exact B.
  - intros P. apply C. revert P. unfold id_add; cases; auto.
  - intros P. apply D. revert P. unfold id_add; cases; auto.
Qed.
#[export] Hint Resolve CRD_upg CRD_id_add_legacy : crddb.
#[export] Hint Extern 1 (CRD _ _ (h_add _ _)) => (apply CRD_h_add; [reflexivity | ]) : crddb.
Lemma CRD_q_append : forall g rw w u sm s, CRD g rw s -> CRD g rw (q_append w u sm s).
Proof. intros; unfold q_append; cases; eauto 10 with crddb. Qed.
#[export] Hint Resolve CRD_q_append : crddb.
Lemma CRD_send_gated : forall g rw w u sm s, CRD g rw s -> CRD g rw (send_gated w u sm s).
Proof. intros; unfold send_gated; cases; eauto 10 with crddb. Qed.
Lemma CRD_timed_add : forall g rw k n s, CRD g rw s -> CRD g rw (timed_add k n s).
Proof. intros; unfold timed_add; cases; eauto 10 with crddb. Qed.
Lemma CRD_timed_del : forall g rw k s, CRD g rw s -> CRD g rw (timed_del k s).
Proof. intros; unfold timed_del; eauto 10 with crddb. Qed.
Lemma CRD_timed_set_stamp : forall g rw k n s, CRD g rw s -> CRD g rw (timed_set_stamp k n s).
Proof. intros; unfold timed_set_stamp; eauto 10 with crddb. Qed.
#[export] Hint Resolve CRD_send_gated CRD_timed_add CRD_timed_del CRD_timed_set_stamp : crddb.
Lemma CRD_xmpp_disconnect : forall g rw n s, CRD g rw s -> CRD g rw (xmpp_disconnect n s).
Proof. intros; unfold xmpp_disconnect; cases; eauto 10 with crddb. Qed.
Lemma CRD_reset_sm : forall g rw s, CRD g rw s -> CRD g rw (reset_sm_for_reconnect s).
Proof.
  intros g rw s (A & B & C & D).
  assert (E1 : handlers (reset_sm_for_reconnect s) = handlers s) by (unfold reset_sm_for_reconnect; cases; reflexivity).
  assert (E2 : idhandlers (reset_sm_for_reconnect s) = idhandlers s) by (unfold reset_sm_for_reconnect; cases; reflexivity).
  assert (E3 : oh (reset_sm_for_reconnect s) = oh s) by (unfold reset_sm_for_reconnect; cases; reflexivity).
  assert (E5 : sm_enabled (reset_sm_for_reconnect s) = false) by (unfold reset_sm_for_reconnect; cases; reflexivity).
  unfold CRD, postauth, id_has in *. rewrite E1, E2, E3, E5. repeat split; auto. intros; discriminate.
Qed.
#[export] Hint Resolve CRD_xmpp_disconnect CRD_reset_sm : crddb.
Lemma CRD_conn_disconnect : forall g rw s, CRD g rw s -> CRD g rw (fst (conn_disconnect s)).
Proof. intros g rw s H. name_result. unfold conn_disconnect, ret. cases; leaf; eauto 10 with crddb. Qed.
Lemma CRD_auth_legacy : forall g rw n s, CRD g rw s -> CRD g rw (auth_legacy n s).
Proof. intros; unfold auth_legacy; cases; eauto 10 with crddb. Qed.
#[export] Hint Resolve CRD_conn_disconnect CRD_auth_legacy : crddb.
Lemma CRD_auth : forall g rw fuel n s, CRD g rw s -> CRD g rw (fst (auth fuel n s)).
Proof. intros g rw. induction fuel; intros; name_result; cbn [auth]; unfold ret; cases; leaf; eauto 20 with crddb. Qed.
Lemma CRD_call_timed : forall g rw k n s, CRD g rw s -> CRD g rw (fst (fst (call_timed k n s))).
Proof.
  intros g rw k n s H. destruct k; unfold call_timed; cbn [fst]; eauto 10 with crddb.
  - pose proof (CRD_auth g rw 1 n s H) as Q. destruct (auth 1 n s). exact Q.
  - pose proof (CRD_conn_disconnect g rw s H) as Q. destruct (conn_disconnect s). exact Q.
Qed.
Lemma CR_CRD : forall b g ty rw s, CR b g ty rw s -> CRD g rw s.
Proof. intros b g ty rw s H. cr_dest H. exact (conj R1 (conj R2 (conj R4 R7))). Qed.
Lemma CRD_CR : forall g ty rw s, live s = false -> CRD g rw s -> CR true g ty rw s.
Proof. intros g ty rw s L (A & B & C & D). cr_split; auto; intros; congruence. Qed.

(* ------------------------------------------------------------------ lifting: timed handlers *)
Lemma NK_call_timed : forall k n g ty rw c0 s o, NK g ty rw c0 s o ->
  NK g ty rw c0 (fst (fst (call_timed k n s))) (o ++ snd (fst (call_timed k n s))).
Proof. intros k; destruct k; intros; name_result; unfold call_timed, ret; cases; leaf; eauto 20 with nkdb. Qed.
Lemma CR_call_timed : forall g ty rw k n s, PH s -> live s = true -> timed_has k s = true -> CR true g ty rw s ->
  CR true g ty rw (fst (fst (call_timed k n s))).
Proof.
  intros g ty rw k n s P L T H. destruct k; unfold call_timed; cbn [fst]; eauto 10 with crdb.
  - destruct (proj2 (ph_t01 _ P) T) as [_ F0]. pose proof H as H'. cr_dest H'.
    assert (TC : isclient ty rw) by (apply R5; [exact L | exact (clientreg_main HFeatures s eq_refl F0)]).
    pose proof (CR_auth true g ty rw TC 1 n s H) as Q. destruct (auth 1 n s). exact Q.
  - pose proof (CR_conn_disconnect true g ty rw s H) as Q. destruct (conn_disconnect s). exact Q.
Qed.
Section CKTimed.
Variables (g : ghost) (ty : ctype) (rw : bool) (c0 : nat) (n : Z) (p : list out).
Definition K3 (r : R) : Prop := PH (fst r) /\ CR true g ty rw (fst r) /\ NK g ty rw c0 (fst r) (p ++ snd r).
Lemma CK_visit_timed : forall r k, K3 r -> K3 (visit_timed n r k).
Proof.
  intros [s o] k (P & C & K). refine (conj (PH_visit_timed n (s, o) k P) _). cbn [fst snd] in *. unfold visit_timed.
  destruct (crashed s); [split; assumption|]. destruct (timed_lookup k s) as [[en stp]|] eqn:E; [|split; assumption].
  destruct (negb en); [split; assumption|]. destruct (tkind_eqb k TUser && negb (neg_done s)); [split; assumption|].
  destruct (n - stp >=? tperiod s k); [|split; assumption].
  assert (T : timed_has k (timed_set_stamp k n s) = true) by (rewrite timed_has_timed_set_stamp; eapply timed_lookup_has; eauto).
  assert (Lv0 : live s = true \/ live s = false) by (destruct (live s); auto). destruct Lv0 as [Lv|Lv].
  - pose proof (CR_call_timed g ty rw k n _ (PH_timed_set_stamp k n s P) Lv T (CR_timed_set_stamp true g ty rw k n s C)) as Q1.
    pose proof (NK_call_timed k n g ty rw c0 _ (p ++ o) (NK_timed_set_stamp k n g ty rw c0 s (p ++ o) K)) as Q2.
    destruct (call_timed k n (timed_set_stamp k n s)) as [[s2 o2] keep]. cbn [fst snd] in *. rewrite app_assoc.
    destruct keep; [split; assumption | split; [apply CR_timed_del; exact Q1 | apply NK_timed_del; exact Q2]].
  - (* timed handlers of a disconnected object do not run (fire_timed checks), but visit_timed itself does not care *)
    pose proof (NK_call_timed k n g ty rw c0 _ (p ++ o) (NK_timed_set_stamp k n g ty rw c0 s (p ++ o) K)) as Q2.
    assert (Q1 : CR true g ty rw (fst (fst (call_timed k n (timed_set_stamp k n s))))).
    { apply CRD_CR.
      - pose proof (Fr_call_timed k n _ _ (Fr_refl (timed_set_stamp k n s))) as Ff. destruct (fr_st _ _ Ff) as [E1|E1]; unfold live; rewrite E1; [|reflexivity].
        change (st (timed_set_stamp k n s)) with (st s). rewrite (not_live s Lv). reflexivity.
      - apply CRD_call_timed, CRD_timed_set_stamp. exact (CR_CRD _ _ _ _ _ C). }
    destruct (call_timed k n (timed_set_stamp k n s)) as [[s2 o2] keep]. cbn [fst snd] in *. rewrite app_assoc.
    destruct keep; [split; assumption | split; [apply CR_timed_del; exact Q1 | apply NK_timed_del; exact Q2]].
Qed.
End CKTimed.

(* ------------------------------------------------------------------ lifting: phases of an iteration *)
Lemma NK_same : forall g ty rw c0 s o s', gh s' = gh s -> typ s' = typ s -> is_raw s' = is_raw s -> neg_done s' = neg_done s -> st s' = st s ->
  NK g ty rw c0 s o -> NK g ty rw c0 s' o.
Proof. intros g ty rw c0 s o s' E1 E2 E3 E4 E5 []. constructor; rewrite ?E1, ?E2, ?E3, ?E4, ?E5; auto. Qed.
Lemma CK_fire_timed : forall ty rw c0 n p s, PH s -> CKs ty rw c0 s p ->
  CKs ty rw c0 (fst (fire_timed n s)) (p ++ snd (fire_timed n s)).
Proof.
  intros ty rw c0 n p s P [C K]. unfold fire_timed, ret. destruct (st s) eqn:St; try (cbn [fst snd]; rewrite app_nil_r; split; assumption).
  assert (I : K3 (gh s) ty rw c0 p (set_timed (map (fun x => (fst (fst x), true, snd x)) (timed s)) s, [])).
  { refine (conj _ (conj _ _)); cbn [fst snd]; [ | eauto with crdb | rewrite app_nil_r; eauto with nkdb].
    apply (PH_neutral s); [apply HFr_set_timed, HFr_refl | apply TI_set_timed, P | apply T01_enable_timed, P
      | apply (MT_of (set_timed _)); [apply CS_set_timed | apply PL_set_timed | apply P]
      | apply SmOff_set_timed, P | apply Sn_set_timed, Sn_refl | apply T25_set_timed, P | exact P]. }
  pose proof (fold_left_inv (K3 (gh s) ty rw c0 p) (visit_timed n) (fun a b Ha => CK_visit_timed (gh s) ty rw c0 n p a b Ha)
               (map (fun x => fst (fst x)) (timed (set_timed (map (fun x => (fst (fst x), true, snd x)) (timed s)) s))) _ I) as (_ & C1 & K1).
  eapply CKs_of; eauto.
Qed.
Lemma NK_connect_next : forall n g ty rw c0 s o, NK g ty rw c0 s o -> NK g ty rw c0 (fst (fst (connect_next n s))) (o ++ snd (fst (connect_next n s))).
Proof.
  intros. name_result. unfold connect_next. pose proof (quiet_sock_connect (cands s)) as Q.
  destruct (sock_connect (cands s)) as [oo [[k r]|]]; cbn [fst] in Q; leaf;
    (apply NK_noc; [eauto 10 with nkdb | ]).
  all: destruct (scan_user_quiet (OSockClose :: oo) false) as (_ & B & _); [cbn; exact Q|];
    clear - B; unfold has_conn, count_oc in *; induction (OSockClose :: oo) as [|x l IH]; cbn in *; auto;
    apply orb_false_iff in B; destruct B as [B1 B2]; destruct x; cbn in *; try discriminate; auto.
Qed.
Lemma count_oc_wires : forall t (q : list (welem * bool * bool)), count_oc (map (fun x => OWire t (fst (fst x))) q) = 0%nat.
Proof. intros t q. induction q as [|x q IH]; cbn; auto. Qed.
Lemma CK_send_phase : forall ty rw c0 p s, CKs ty rw c0 s p -> CKs ty rw c0 (fst (send_phase s)) (p ++ snd (send_phase s)).
Proof.
  intros ty rw c0 p s [C K]. unfold send_phase, ret. destruct (st s) eqn:St; try (cbn [fst snd]; rewrite app_nil_r; split; assumption).
  cbv zeta. match goal with |- context [negb (err ?z =? 0)] => set (y := z) end.
  assert (Cy : CR true (gh s) ty rw y) by (unfold y; eauto 10 with crdb).
  assert (Ky : NK (gh s) ty rw c0 y (p ++ map (fun x : welem * bool * bool => OWire (tls_present s) (fst (fst x))) (sendq s))).
  { apply NK_noc; [|apply count_oc_wires]. eapply NK_same; [ | | | | | exact K]; reflexivity. }
  clearbody y. destruct (negb (err y =? 0)); [|cbn [fst snd]; eapply CKs_of; eauto].
  pose proof (CR_conn_disconnect true (gh s) ty rw _ (CR_set_err true _ _ _ ECONNABORTED y Cy)) as Q1.
  pose proof (NK_conn_disconnect (gh s) ty rw c0 _ _ (NK_set_err ECONNABORTED _ _ _ _ y _ Ky)) as Q2.
  destruct (conn_disconnect (set_err ECONNABORTED y)) as [s2 o2]. cbn [fst snd] in *. rewrite app_assoc. eapply CKs_of; eauto.
Qed.
Lemma CK_ph_pre : forall ty rw c0 rd p s, CKs ty rw c0 s p -> CKs ty rw c0 (ph_pre rd s) p.
Proof.
  intros ty rw c0 rd p s [C K]. unfold ph_pre. cases; try (split; assumption);
    (apply (CKs_of (gh s)); [apply CR_set_rxq; exact C | apply NK_set_rxq; exact K]).
Qed.
Lemma CK_ph_reset : forall ty rw c0 p s, CKs ty rw c0 s p -> CKs ty rw c0 (ph_reset s) p.
Proof.
  intros ty rw c0 p s [C K]. unfold ph_reset. cases; [|split; assumption].
  apply (CKs_of (gh s)); [apply CR_set_ps, CR_set_reset_parser; exact C | eapply NK_same; [ | | | | | exact K]; reflexivity].
Qed.
Lemma CK_timeout : forall ty rw c0 p e s, CKs ty rw c0 s p ->
  CKs ty rw c0 (reset_sm_for_reconnect (set_neg_done false (set_st Disconnected (set_err e s)))) (p ++ [ODisconnect e (stream_error (set_neg_done false (set_st Disconnected (set_err e s))))]).
Proof.
  intros ty rw c0 p e s [C K]. apply (CKs_of (gh s)).
  - apply CR_dead_sm; [reflexivity | eauto 10 with crdb].
  - apply NK_noc; [|reflexivity]. eauto 10 with nkdb.
Qed.
Lemma CK_ph_watch : forall ty rw c0 n p s, CKs ty rw c0 s p -> CKs ty rw c0 (fst (ph_watch n s)) (p ++ snd (ph_watch n s)).
Proof.
  intros ty rw c0 n p s H. unfold ph_watch, ret. destruct (st s); try (cbn [fst snd]; rewrite app_nil_r; exact H).
  destruct (n - stamp s <=? CONNECT_TIMEOUT); [cbn [fst snd]; rewrite app_nil_r; exact H|].
  destruct H as [C K].
  pose proof (CR_connect_next true (gh s) ty rw n s C) as Q1. pose proof (NK_connect_next n (gh s) ty rw c0 s p K) as Q2.
  destruct (connect_next n s) as [[s1 o1] ok]. cbn [fst snd] in *.
  assert (H1 : CKs ty rw c0 s1 (p ++ o1)) by (eapply CKs_of; eauto).
  destruct ok; cbn [fst snd]; [exact H1|]. rewrite app_assoc. apply CK_timeout. exact H1.
Qed.
Lemma CR_set_st_connected : forall g ty rw s, st s = Connecting -> CR true g ty rw s -> CR true g ty rw (set_st Connected s).
Proof.
  intros g ty rw s St H. cr_dest H.
  assert (L : live s = true) by (unfold live; rewrite St; reflexivity).
  cr_split; auto.
Qed.
Lemma NK_set_st_connected : forall g ty rw c0 s o, st s = Connecting -> NK g ty rw c0 s o -> NK g ty rw c0 (set_st Connected s) o.
Proof.
  intros g ty rw c0 s o St []. constructor; auto. intros R. destruct (nk_cnt0 R) as [A B]. split; auto.
  intros E. destruct (B E) as [D|D]; [left; exact D | congruence].
Qed.
Lemma CR_conn_established : forall g ty rw n s, CR true g ty rw s -> CR true g ty rw (fst (conn_established n s)).
Proof.
  intros g ty rw n s H. name_result. unfold conn_established.
  destruct (f_legacy_ssl s && negb (is_raw s)).
  - pose proof (CR_conn_tls_start true g ty rw s H) as Q. destruct (conn_tls_start s) as [[sa oa] ok]. cbn [fst] in Q.
    cases; leaf; eauto 20 with crdb.
  - cases; leaf; eauto 20 with crdb.
Qed.
Lemma NK_set_neg_done_true_raw : forall g ty c0 s o, NK g ty true c0 s o -> NK g ty true c0 (set_neg_done true s) o.
Proof. intros g ty c0 s o []. constructor; auto. intros; discriminate. Qed.
Lemma NK_conn_established : forall n g ty rw c0 s o, NK g ty rw c0 s o ->
  NK g ty rw c0 (fst (conn_established n s)) (o ++ snd (conn_established n s)).
Proof.
  intros n g ty rw c0 s o H. name_result. unfold conn_established.
  destruct (f_legacy_ssl s && negb (is_raw s)).
  - pose proof (NK_conn_tls_start g ty rw c0 s o H) as Q. destruct (conn_tls_start s) as [[sa oa] ok]. cbn [fst snd] in Q.
    cases; leaf; eauto 20 with nkdb.
    apply NK_assoc. apply NK_noc; [|reflexivity]. pose proof (nk_raw _ _ _ _ _ _ Q) as Rw.
    match goal with Hq : is_raw sa = true |- _ => rewrite Hq in Rw end. subst rw. apply NK_set_neg_done_true_raw. eauto 10 with nkdb.
  - cases; leaf; eauto 20 with nkdb.
    apply NK_assoc. apply NK_noc; [|reflexivity]. pose proof (nk_raw _ _ _ _ _ _ H) as Rw.
    match goal with Hq : is_raw s = true |- _ => rewrite Hq in Rw end. subst rw. apply NK_nil. apply NK_set_neg_done_true_raw. eauto 10 with nkdb.
Qed.
Lemma CK_ph_io : forall ty rw c0 n p s, PHS s -> reset_parser s = false -> CKs ty rw c0 s p ->
  CKs ty rw c0 (fst (ph_io n s)) (p ++ snd (ph_io n s)).
Proof.
  intros ty rw c0 n p s A R H. unfold ph_io, ret. destruct (st s) eqn:St; try (cbn [fst snd]; rewrite app_nil_r; exact H).
  - (* Connecting *)
    destruct (cur_ep s) eqn:E; try (cbn [fst snd]; rewrite app_nil_r; exact H).
    + destruct H as [C K]. set (x := set_st Connected s).
      pose proof (CR_conn_established (gh s) ty rw n x (CR_set_st_connected _ _ _ s St C)) as Q1.
      pose proof (NK_conn_established n (gh s) ty rw c0 x p (NK_set_st_connected _ _ _ _ s p St K)) as Q2.
      destruct (conn_established n x) as [s1 o1]. cbn [fst snd] in *. eapply CKs_of; eauto.
    + destruct H as [C K].
      pose proof (CR_connect_next true (gh s) ty rw n s C) as Q1. pose proof (NK_connect_next n (gh s) ty rw c0 s p K) as Q2.
      destruct (connect_next n s) as [[s1 o1] ok]. cbn [fst snd] in *.
      assert (H1 : CKs ty rw c0 s1 (p ++ o1)) by (eapply CKs_of; eauto).
      destruct ok; cbn [fst snd]; [exact H1|]. rewrite app_assoc. apply CK_timeout. exact H1.
  - (* Connected *)
    cbv zeta. set (x := set_rxq (tl (rxq s)) s).
    assert (Hx : CKs ty rw c0 x p) by (destruct H as [C K]; apply (CKs_of (gh s)); [apply CR_set_rxq; exact C | apply NK_set_rxq; exact K]).
    assert (Px : PH x) by (apply (PH_step_neutral (set_rxq _)); try ph_setter; apply A).
    destruct (match rxq s with [] => RdNone | r :: _ => r end); try (cbn [fst snd]; rewrite app_nil_r; exact Hx).
    + assert (FIx : FI x).
      { refine (conj Px (conj _ _)); [intros _ D; change (st x) with (st s) in D; congruence | intros _; split; [exact St | exact R]]. }
      pose proof (CK_feed_items ty rw c0 n its p x FIx Hx) as [Q1 Q2].
      destruct (feed_items n its x) as [[s1 o1] bad]. cbn [fst snd] in *. destruct bad; cbn [fst snd]; [|split; assumption].
      apply (CKs_of (gh s1)); eauto with crdb nkdb.
    + destruct Hx as [Cx Kx].
      assert (Q : CKs ty rw c0 (fst (conn_disconnect (set_err ECONNRESET x))) (p ++ snd (conn_disconnect (set_err ECONNRESET x)))).
      { apply (CKs_of (gh x)); [apply CR_conn_disconnect, CR_set_err; exact Cx | apply NK_conn_disconnect, NK_set_err; exact Kx]. }
      destruct (tls_present x); exact Q.
    + destruct Hx as [Cx Kx]. apply (CKs_of (gh x)); [apply CR_conn_disconnect, CR_set_err; exact Cx | apply NK_conn_disconnect, NK_set_err; exact Kx].
Qed.
Lemma CK_run_once : forall ty rw c0 n rd s, PHS s -> CKs ty rw c0 s [] ->
  CKs ty rw c0 (fst (run_once n rd s)) (snd (run_once n rd s)).
Proof.
  intros ty rw c0 n rd s A H.
  apply (run_once_ind (fun s o => PHS s /\ CKs ty rw c0 s o) (fun s o => (PHS s /\ reset_parser s = false) /\ CKs ty rw c0 s o)
           (fun s o => (PHS s /\ reset_parser s = false) /\ CKs ty rw c0 s o) (fun s o => (PHS s /\ reset_parser s = false) /\ CKs ty rw c0 s o)
           (fun s o => PHS s /\ CKs ty rw c0 s o) (fun s o => PHS s /\ CKs ty rw c0 s o) (fun s o => CKs ty rw c0 s o)); auto.
  - intros _. split; [apply PHS_send_phase, PHS_ph_pre, A|].
    pose proof (CK_send_phase ty rw c0 [] (ph_pre rd s) (CK_ph_pre ty rw c0 rd [] s H)) as Q. exact Q.
  - intros s1 o [A1 H1]. exact H1.
  - intros s1 o [A1 H1]. split; [apply PHS_ph_reset, A1 | apply CK_ph_reset, H1].
  - intros s1 o [[A1 R1] H1]. split; [split; [apply PHS_fire_timed, A1|] | apply CK_fire_timed; [apply A1 | exact H1]].
    pose proof (RPF_fire_timed n s1 s1 (RPF_refl s1)) as F. rewrite (rpf_rp _ _ F). exact R1.
  - intros s1 o [_ H1]. exact H1.
  - intros s1 o [[A1 R1] H1]. split; [apply PHS_ph_watch; assumption | apply CK_ph_watch, H1].
  - intros s1 o [_ H1]. destruct H1 as [C K]. apply (CKs_of (gh s1)); [exact C | apply NK_noc; [exact K | reflexivity]].
  - intros s1 o [[A1 R1] H1]. split; [apply PHS_ph_io; assumption | apply CK_ph_io; assumption].
  - intros s1 o [_ H1]. exact H1.
  - intros s1 o [A1 H1]. split; [apply PHS_fire_timed, A1 | apply CK_fire_timed; [apply A1 | exact H1]].
  - intros s1 o [_ H1]. destruct H1 as [C K]. apply (CKs_of (gh s1)); [exact C | apply NK_noc; [exact K | reflexivity]].
Qed.

(* ------------------------------------------------------------------ step level *)
Definition CKI (s : state) : Prop := CKs (typ s) (is_raw s) (g_connects (gh s)) s [].
Lemma CR_same_g : forall b g g' ty rw s, g_auth_ok g' = g_auth_ok g -> g_bound g' = g_bound g -> g_resumed g' = g_resumed g ->
  CR b g ty rw s -> CR b g' ty rw s.
Proof. intros b g g' ty rw s E1 E2 E3 H. cr_dest H. cr_split; rewrite ?E1, ?E2, ?E3; auto. Qed.
Lemma note_outs_fields : forall outs g,
  g_auth_ok (fold_left note_out outs g) = g_auth_ok g /\ g_bound (fold_left note_out outs g) = g_bound g /\
  g_resumed (fold_left note_out outs g) = g_resumed g /\ g_conn_unjust (fold_left note_out outs g) = g_conn_unjust g /\
  g_connects (fold_left note_out outs g) = (g_connects g + count_oc outs)%nat.
Proof.
  induction outs as [|o outs IH]; intros g; cbn [fold_left]; [repeat split; cbn; auto; lia|].
  destruct (IH (note_out g o)) as (A & B & C & D & E). rewrite A, B, C, D, E.
  destruct g; destruct o as [| | | |[|]| | | | | | | | |]; cbn; unfold count_oc; repeat split; try reflexivity; lia.
Qed.
Lemma CKI_note_outs : forall s s1 outs, CKs (typ s) (is_raw s) (g_connects (gh s)) s1 outs -> typ s1 = typ s -> is_raw s1 = is_raw s ->
  CKI (note_outs outs s1).
Proof.
  intros s s1 outs [C K] Et Er. destruct (note_outs_fields outs (gh s1)) as (A & B & Cc & D & E).
  unfold CKI, CKs, note_outs. sproj. rewrite Et, Er. split.
  - apply CR_set_gh. eapply CR_same_g; eauto.
  - destruct K. constructor; sproj; auto using GFr_refl; try congruence.
    intros R. destruct (nk_cnt0 R) as [X Y]. rewrite E, nk_c1, Nat.add_0_r. cbn [count_oc filter List.length]. split; auto.
Qed.
Lemma CKI_inner : forall s s1 outs, CKI s -> (forall ty rw c0, CKs ty rw c0 s [] -> CKs ty rw c0 s1 outs) -> Fr s s1 -> CKI (note_outs outs s1).
Proof.
  intros s s1 outs H F Ff. apply (CKI_note_outs s); [apply F; exact H | apply (fr_typ _ _ Ff) | apply (fr_is_raw _ _ Ff)].
Qed.
Lemma CKI_of : forall s s1 outs, CKs (typ s) (is_raw s) (g_connects (gh s)) s1 outs -> CKI (note_outs outs s1).
Proof. intros s s1 outs H. apply (CKI_note_outs s); [exact H | apply (nk_typ _ _ _ _ _ _ (proj2 H)) | apply (nk_raw _ _ _ _ _ _ (proj2 H))]. Qed.
Lemma CKI_fn : forall s s1 outs, CR true (gh s) (typ s) (is_raw s) s1 -> NK (gh s) (typ s) (is_raw s) (g_connects (gh s)) s1 outs ->
  CKI (note_outs outs s1).
Proof. intros s s1 outs C K. apply (CKI_of s). eapply CKs_of; eauto. Qed.
Lemma CR_fields : forall b g ty rw s s', handlers s' = handlers s -> idhandlers s' = idhandlers s -> oh s' = oh s ->
  sm_resume s' = sm_resume s -> sm_enabled s' = sm_enabled s -> st s' = st s -> CR b g ty rw s -> CR b g ty rw s'.
Proof.
  intros b g ty rw s s' E1 E2 E3 E4 E5 E6 H. cr_dest H.
  unfold CR, postauth, clientreg, live, h_has, id_has, hmarks, imarks in *. rewrite E1, E2, E3, E4, E5, E6. cr_split; auto.
Qed.
(* the fields the connect invariant reads *)
Definition SameF (s s' : state) : Prop :=
  handlers s' = handlers s /\ idhandlers s' = idhandlers s /\ oh s' = oh s /\ sm_resume s' = sm_resume s /\ sm_enabled s' = sm_enabled s /\
  st s' = st s /\ gh s' = gh s /\ typ s' = typ s /\ is_raw s' = is_raw s /\ neg_done s' = neg_done s.
Ltac samef := unfold SameF; sproj; repeat split; reflexivity.
Lemma SameF_refl : forall s, SameF s s.
Proof. intros; repeat split; reflexivity. Qed.
Lemma CKs_fields : forall ty rw c0 s s' o, SameF s s' -> CKs ty rw c0 s o -> CKs ty rw c0 s' o.
Proof.
  intros ty rw c0 s s' o (E1 & E2 & E3 & E4 & E5 & E6 & E7 & E8 & E9 & E10) [C K]. unfold CKs. rewrite E7. split.
  - eapply CR_fields; eauto.
  - eapply NK_same; [ | | | | | exact K]; auto.
Qed.
Lemma CKI_fields : forall s s', SameF s s' -> CKI s -> CKI s'.
Proof.
  intros s s' F H. pose proof F as (E1 & E2 & E3 & E4 & E5 & E6 & E7 & E8 & E9 & E10). unfold CKI. rewrite E7, E8, E9.
  eapply CKs_fields; eauto.
Qed.
Lemma CKs_out0 : forall ty rw c0 s o o', CKs ty rw c0 s o -> count_oc o' = 0%nat -> CKs ty rw c0 s (o ++ o').
Proof. intros ty rw c0 s o o' [C K] Z. split; [exact C | apply NK_noc; assumption]. Qed.
Lemma CKI_eqf : forall s s' outs, SameF s s' -> CKI s -> count_oc outs = 0%nat -> CKI (note_outs outs s').
Proof.
  intros s s' outs F H Z. apply (CKI_of s'). apply (CKs_out0 _ _ _ s' [] outs); [|exact Z]. exact (CKI_fields s s' F H).
Qed.
Lemma set_flags_SameF : forall w s, SameF s (fst (set_flags w s)).
Proof. intros w s. unfold set_flags. cases; cbn [fst]; try apply SameF_refl; samef. Qed.

(* a new attempt *)
Lemma pa_user_only : forall (l : list (hkind * bool)), existsb (fun x => is_pa (fst x)) (filter (fun x => hkind_eqb (fst x) HUser) l) = false.
Proof.
  induction l as [|x l IH]; [reflexivity|]. cbn [filter]. destruct (hkind_eqb (fst x) HUser) eqn:E; auto.
  apply hkind_eqb_eq in E. cbn [existsb]. rewrite E. exact IH.
Qed.
Lemma count_oc_quiet : forall oo, has_conn oo = false -> count_oc oo = 0%nat.
Proof.
  intros oo B. unfold has_conn, count_oc in *. induction oo as [|x l IH]; cbn in *; auto. apply orb_false_iff in B. destruct B as [B1 B2].
  destruct x; cbn in *; try discriminate; auto.
Qed.
Definition DOff (s : state) : Prop := st s = Disconnected -> sm_enabled s = false.
Lemma CKI_conn_connect : forall n t s, DOff s -> CKI s -> forall outs', count_oc outs' = 0%nat ->
  CKI (note_outs (snd (fst (conn_connect n t s)) ++ outs') (fst (fst (conn_connect n t s)))).
Proof.
  intros n t s A H outs' Z. unfold conn_connect. destruct (st s) eqn:C.
  2,3: cbn [fst snd app]; apply (CKI_of s); apply (CKs_out0 _ _ _ _ [] outs'); [exact H | exact Z].
  pose proof (A C) as S1. destruct H as [Cr Kr]. pose proof Cr as Cr'. cr_dest Cr'.
  cbv zeta.
  match goal with |- context [sock_connect ?c] => pose proof (quiet_sock_connect c) as Q; destruct (sock_connect c) as [oo [[k r]|]] end; cbn [fst snd] in *.
  - (* the attempt starts: fresh registrations, fresh ghost *)
    match goal with |- CKI (note_outs ?o ?x) => assert (Hx : CKs (typ x) (is_raw x) (g_connects (gh x)) x o); [|exact (CKI_of x x o Hx)] end.
    unfold conn_reset, prepare_reset. rewrite C. cbv zeta. split.
    + sproj. cr_split; unfold postauth, clientreg, live, h_has, id_has, hmarks, imarks; sproj;
        rewrite ?pa_user_only, ?hmarks_user_only, ?h_has_user_only, ?imarks_user_only, ?(id_has_user_only IKBind _ eq_refl), ?(id_has_user_only IKSession _ eq_refl), ?(id_has_user_only IKLegacy _ eq_refl); cbn [existsb filter List.length Nat.eqb negb orb]; auto; try (intros; discriminate); try congruence.
      * destruct (is_raw s); cbn; [intros; discriminate|]. destruct t; cbn; intros; discriminate.
      * intros _. destruct (is_raw s); cbn; [intros; discriminate|]. destruct t; cbn; intros; try discriminate. split; reflexivity.
      * intros _ [X|X]; [discriminate|]. destruct (is_raw s); [discriminate|]. destruct t; [discriminate|]. split; reflexivity.
      * destruct (is_raw s); [discriminate|]. destruct t; discriminate.
    + constructor; sproj; auto using GFr_refl.
      intros R. assert (Z' : count_oc (oo ++ outs') = 0%nat).
      { rewrite count_oc_app, Z, Nat.add_0_r. apply count_oc_quiet. destruct (scan_user_quiet oo false Q) as (_ & B & _). exact B. }
      rewrite Z'. cbn. split; [lia | intros; discriminate].
  - (* no candidate answered: still disconnected, registrations already dropped *)
    match goal with |- CKI (note_outs ?o ?x) => assert (Hx : CKs (typ x) (is_raw x) (g_connects (gh x)) x o); [|exact (CKI_of x x o Hx)] end.
    unfold conn_reset. rewrite C. cbv zeta. split.
    + sproj. cr_split; unfold postauth, clientreg, live, h_has, id_has, hmarks, imarks; sproj; rewrite ?C;
        rewrite ?pa_user_only, ?hmarks_user_only, ?h_has_user_only, ?imarks_user_only, ?(id_has_user_only IKBind _ eq_refl), ?(id_has_user_only IKSession _ eq_refl), ?(id_has_user_only IKLegacy _ eq_refl); cbn [existsb filter List.length Nat.eqb negb orb]; auto; try (intros; discriminate); try congruence.
      all: try (intros P; apply R1; unfold postauth; rewrite P; rewrite ?orb_true_r; reflexivity).
    + destruct Kr. constructor; sproj; auto using GFr_refl.
      intros R. assert (Z' : count_oc (oo ++ outs') = 0%nat).
      { rewrite count_oc_app, Z, Nat.add_0_r. apply count_oc_quiet. destruct (scan_user_quiet oo false Q) as (_ & B & _). exact B. }
      rewrite Z'. rewrite Nat.add_0_r. split; [|right; exact C].
      destruct (nk_cnt0 R) as [X _]. unfold count_oc in X. cbn in X. lia.
Qed.

Lemma DOff_fields : forall s s', SameF s s' -> DOff s -> DOff s'.
Proof. intros s s' (E1 & E2 & E3 & E4 & E5 & E6 & E7) D. unfold DOff. rewrite E5, E6. exact D. Qed.
Lemma CKI_connect_client : forall n s, DOff s -> CKI s -> forall outs', count_oc outs' = 0%nat ->
  CKI (note_outs (snd (fst (connect_client n s)) ++ outs') (fst (fst (connect_client n s)))).
Proof.
  intros n s D H outs' Z. unfold connect_client.
  match goal with |- context [negb (jid_set ?x)] => assert (F : SameF s x) by (cases; [samef | apply SameF_refl]); generalize dependent x end.
  intros x F. pose proof (CKI_fields _ _ F H) as Hx. pose proof (DOff_fields _ _ F D) as Dx. clear F H D.
  destruct (negb (jid_set x)).
  - cbn [fst snd app]. apply (CKI_eqf x x); auto using SameF_refl.
  - assert (F : SameF x (set_cands (next_cands x) x)) by samef.
    apply CKI_conn_connect; [eapply DOff_fields; eauto | eapply CKI_fields; eauto | exact Z].
Qed.
Lemma CKI_connect_component : forall n s, DOff s -> CKI s -> forall outs', count_oc outs' = 0%nat ->
  CKI (note_outs (snd (fst (connect_component n s)) ++ outs') (fst (fst (connect_component n s)))).
Proof.
  intros n s D H outs' Z. unfold connect_component.
  destruct (negb (jid_set s && pass_set s)).
  - cbn [fst snd app]. apply (CKI_eqf s s); auto using SameF_refl.
  - cbv zeta. match goal with |- context [set_flags ?w s] => pose proof (set_flags_SameF w s) as F; destruct (set_flags w s) as [x rc] end.
    cbn [fst] in F. pose proof (CKI_fields _ _ F H) as Hx. pose proof (DOff_fields _ _ F D) as Dx.
    destruct (negb (f_tls_disabled x)).
    + cbn [fst snd app]. apply (CKI_eqf x x); auto using SameF_refl.
    + assert (F' : SameF x (set_cands (next_cands x) x)) by samef.
      apply CKI_conn_connect; [eapply DOff_fields; eauto | eapply CKI_fields; eauto | exact Z].
Qed.
Lemma CKI_set_is_raw : forall s, st s = Disconnected -> CKI s -> CKI (set_is_raw true s).
Proof.
  intros s C [Cr Kr]. cr_dest Cr. destruct Kr. unfold CKI, CKs. sproj. split.
  - unfold CR, postauth, clientreg, live, h_has, id_has, hmarks, imarks in *. sproj. rewrite C in *.
    cr_split; auto; try (intros; discriminate).
  - constructor; sproj; auto using GFr_refl. intros; discriminate.
Qed.
Lemma DOff_set_is_raw : forall v s, DOff s -> DOff (set_is_raw v s).
Proof. intros v s D. unfold DOff. sproj. exact D. Qed.
Lemma okh_user : forall g ty rw s, okh g ty rw s HUser.
Proof. intros. repeat split; intros; discriminate. Qed.
Lemma okr_raw : forall g ty, okr g ty true OpenRaw.
Proof. intros. repeat split; intros; try discriminate; auto. Qed.

Lemma CKI_step0 : forall s o, PHS s -> CKI s -> CKI (note_outs (snd (step0 s o)) (fst (step0 s o))).
Proof.
  intros s o A H. assert (D : DOff s) by (intros C; apply (ph_smoff _ (proj1 A) C)).
  unfold step0, ret. destruct (crashed s); [cbn [fst snd]; apply (CKI_eqf s s); auto using SameF_refl|].
  destruct o.
  - (* OpSetFlags *) pose proof (set_flags_SameF w s) as F. destruct (set_flags w s) as [x rc]. cbn [fst snd] in *.
    apply (CKI_eqf s x); auto.
  - destruct (st s) eqn:C; cbn [fst snd]; apply (CKI_eqf s); auto using SameF_refl; samef.
  - destruct (st s) eqn:C; cbn [fst snd]; apply (CKI_eqf s); auto using SameF_refl; samef.
  - destruct (st s) eqn:C; cbn [fst snd]; apply (CKI_eqf s); auto using SameF_refl; samef.
  - (* OpUserHandlers *)
    destruct (st s) eqn:C; cbn [fst snd]. 2,3: apply (CKI_eqf s s); auto using SameF_refl.
    destruct H as [Cr Kr]. apply (CKI_fn s).
    + apply CR_set_user_timed, CR_set_user_handler.
      assert (C1 : CR true (gh s) (typ s) (is_raw s) (if stanza then id_add IKUser (h_add HUser s) else s))
        by (destruct stanza; [apply CR_id_add_user, CR_h_add; [apply okh_user | exact Cr] | exact Cr]).
      destruct timed; [apply CR_timed_add|]; exact C1.
    + assert (K1 : NK (gh s) (typ s) (is_raw s) (g_connects (gh s)) (if stanza then id_add IKUser (h_add HUser s) else s) [])
        by (destruct stanza; [apply NK_id_add, NK_h_add|]; exact Kr).
      match goal with |- NK _ _ _ _ (set_user_timed _ (set_user_handler _ ?x)) _ => set (X := x) end.
      assert (KX : NK (gh s) (typ s) (is_raw s) (g_connects (gh s)) X []) by (unfold X; destruct timed; [apply NK_timed_add|]; exact K1).
      clearbody X. eapply NK_same; [ | | | | | exact KX]; sproj; reflexivity.
  - destruct (st s) eqn:C; cbn [fst snd]; apply (CKI_eqf s); auto using SameF_refl; samef.
  - cbn [fst snd]; apply (CKI_eqf s); auto; samef.
  - (* OpConnectClient *)
    pose proof (CKI_connect_client now s D H) as Q. destruct (connect_client now s) as [[x oo] rc]. cbn [fst snd] in *. apply Q. reflexivity.
  - (* OpConnectRaw *)
    destruct (st s) eqn:C. 2,3: cbn [fst snd]; apply (CKI_eqf s s); auto using SameF_refl.
    pose proof (CKI_connect_client now _ (DOff_set_is_raw true s D) (CKI_set_is_raw s C H)) as Q.
    destruct (connect_client now (set_is_raw true s)) as [[x oo] rc]. cbn [fst snd] in *. apply Q. reflexivity.
  - (* OpConnectComponent *)
    pose proof (CKI_connect_component now s D H) as Q. destruct (connect_component now s) as [[x oo] rc]. cbn [fst snd] in *. apply Q. reflexivity.
  - (* OpRun *) apply (CKI_of s). apply CK_run_once; assumption.
  - (* OpDisconnect *) destruct H as [Cr Kr]. cbn [fst snd]. apply (CKI_fn s); [apply CR_xmpp_disconnect | apply NK_xmpp_disconnect]; assumption.
  - destruct H as [Cr Kr]. cbn [fst snd]. apply (CKI_fn s); [apply CR_send_gated | apply NK_send_gated]; assumption.
  - destruct H as [Cr Kr]. cbn [fst snd]. apply (CKI_fn s); [apply CR_send_raw_m | apply NK_send_raw_m]; assumption.
  - cbn [fst snd]. apply (CKI_eqf s s); auto using SameF_refl.
  - (* OpOpenStream *)
    destruct (is_raw s) eqn:Rw; cbn [fst snd]; [|apply (CKI_eqf s s); auto using SameF_refl].
    destruct H as [Cr Kr]. apply (CKI_fn s); rewrite Rw in *.
    + apply CR_conn_open_stream, CR_prepare_reset; [apply okr_raw | exact Cr].
    + apply NK_conn_open_stream, NK_prepare_reset. exact Kr.
  - (* OpRelease *)
    destruct (st s) eqn:C. 1: cbn [fst snd]; apply (CKI_eqf s s); auto using SameF_refl.
    all: destruct H as [Cr Kr]; (apply (CKI_fn s); [apply CR_conn_disconnect; exact Cr | apply (NK_conn_disconnect _ _ _ _ s [] Kr)]).
Qed.
Lemma CKI_step : forall s o, PHS s -> CKI s -> CKI (fst (step s o)).
Proof. intros s o A H. rewrite step_eq. cbn [fst]. apply CKI_step0; assumption. Qed.
Lemma CKI_init : CKI init_state.
Proof.
  split.
  - cr_split; cbn; intros; try discriminate; try (destruct H0; discriminate).
  - constructor; try reflexivity; auto using GFr_refl; try (cbn; intros _; split; [lia | intros; discriminate]).
Qed.

Theorem connect_ok : forall ops, check_run ok_connect init_state ops = true.
Proof.
  intros ops. apply (check_run_inv ok_connect (fun s => PHS s /\ CKI s)).
  3: split; [apply PHS_init | apply CKI_init].
  - intros s o [A H]. split; [apply PHS_step; exact A | apply CKI_step; assumption].
  - intros s o [A H]. pose proof (CKI_step s o A H) as [_ K]. destruct K.
    unfold ok_connect. rewrite nk_nu0. cbn [negb]. rewrite andb_true_r.
    destruct (is_raw (fst (step s o))) eqn:Rw; [reflexivity|]. cbn [orb]. apply Nat.leb_le.
    destruct (nk_cnt0 eq_refl) as [X _]. unfold count_oc in X. cbn in X. lia.
Qed.

(* ================================================================== registration skeleton *)
Lemma Gen_skeleton_ok : skeleton_ok skeleton = true.
Proof. vm_compute. reflexivity. Qed.
