(* C03 - proofs of the executable statements of Spec/NegSpec.v over Model/NegModel.v.
   Frame infrastructure: Proofs/NegFrame_C03.v. *)
Require Import LV.Common.Bytes LV.Gen.Gen_neg LV.Model.NegState LV.Model.NegModel LV.Spec.NegSpec LV.Spec.NegSkeleton
               LV.Proofs.NegFrame_C03.
Local Open Scope Z_scope.

Lemma Gen_skeleton_ok : skeleton_ok skeleton = true.
Proof. vm_compute. reflexivity. Qed.

(* ================================================================== outputs along an iteration *)
Definition is_conn (o : out) : bool := match o with OConnect | ORawConnect => true | _ => false end.
Definition is_wire (o : out) : bool := match o with OWire _ _ => true | _ => false end.
Definition is_tls (o : out) : bool := match o with OTlsStart true => true | _ => false end.
Definition quiet (o : out) : bool :=
  match o with
  | OWire _ _ | OConnect | ORawConnect | OTlsStart true | OUserHandler | OUserTimed => false
  | _ => true
  end.
Definition has_conn (o : list out) : bool := existsb is_conn o.
Definition tls_out (o : list out) : bool := existsb is_tls o.

(* the conclusion of ok_restart as a state predicate *)
Definition Rst (s : state) : Prop :=
  st s = Connected ->
  is_raw s = true \/ f_legacy_ssl s = true \/ (reset_parser s = true /\ has_header (sendq s) = true).

Lemma has_header_app : forall a b, has_header (a ++ b) = has_header a || has_header b.
Proof. intros; unfold has_header; apply existsb_app. Qed.

Lemma Rst_Fr : forall s s', Rst s -> Fr s s' -> Rst s'.
Proof.
  intros s s' R F C. destruct F.
  assert (C0 : st s = Connected) by (destruct fr_st as [E|E]; congruence).
  destruct (R C0) as [H|[H|[H1 H2]]]; [left; congruence | right; left; congruence | right; right].
  split; auto. destruct fr_sendq as [l E]. rewrite E, has_header_app, H2. reflexivity.
Qed.

Lemma scan_user_app : forall o1 b o2,
  scan_user b (o1 ++ o2) = scan_user b o1 && scan_user (b || has_conn o1) o2.
Proof.
  induction o1 as [|x o1 IH]; intros b o2.
  - cbn. rewrite orb_false_r. reflexivity.
  - destruct x as [t w| | | | | | | | | | | | |]; try destruct w; cbn [app scan_user has_conn existsb is_conn orb];
      rewrite ?IH; cbn [orb]; rewrite ?orb_true_r, ?andb_assoc; try reflexivity.
Qed.

Lemma scan_user_quiet : forall o b, forallb quiet o = true -> scan_user b o = true /\ has_conn o = false /\ tls_out o = false /\ existsb is_wire o = false.
Proof.
  induction o as [|x o IH]; intros b H; cbn in *; auto.
  apply andb_prop in H; destruct H as [H1 H2]. destruct (IH b H2) as (A & B & C & D).
  destruct x as [t w| | | | ok | | | | | | | | |]; try destruct ok; cbn in *; try discriminate; auto.
Qed.

(* Tr s0 s o: starting an iteration phase in s0, the model is now in s and has emitted o *)
Record Tr (s0 s : state) (o : list out) : Prop := mkTr {
  tr_fr : Fr s0 s;
  tr_nd : neg_done s = true -> neg_done s0 = true \/ has_conn o = true;
  tr_nowire : existsb is_wire o = false;
  tr_user : forall b, (neg_done s0 = true -> b = true) -> scan_user b o = true;
  tr_restart : tls_out o = true -> Rst s
}.

Lemma Tr_refl : forall s, Tr s s [].
Proof. intros; constructor; cbn; auto using Fr_refl; discriminate. Qed.
Lemma Tr_state : forall s0 s o s', Tr s0 s o -> Fr s s' -> (neg_done s' = true -> neg_done s = true) -> Tr s0 s' o.
Proof. intros s0 s o s' [] F N; constructor; eauto using Fr_trans, Rst_Fr. Qed.
Lemma Tr_nil : forall s0 s o, Tr s0 s o -> Tr s0 s (o ++ []).
Proof. intros; rewrite app_nil_r; auto. Qed.
Lemma Tr_assoc : forall s0 s o o1 o2, Tr s0 s ((o ++ o1) ++ o2) -> Tr s0 s (o ++ (o1 ++ o2)).
Proof. intros; rewrite app_assoc; auto. Qed.
Lemma Tr_quiet : forall s0 s o o', Tr s0 s o -> forallb quiet o' = true -> Tr s0 s (o ++ o').
Proof.
  intros s0 s o o' [] Q. constructor; auto.
  - intros N. destruct (tr_nd0 N); auto. right. unfold has_conn in *. rewrite existsb_app, H. reflexivity.
  - destruct (scan_user_quiet o' false Q) as (_ & _ & _ & D). rewrite existsb_app, tr_nowire0, D. reflexivity.
  - intros b Hb. rewrite scan_user_app, (tr_user0 b Hb). apply (scan_user_quiet o' _ Q).
  - intros T. apply tr_restart0. unfold tls_out in *. rewrite existsb_app in T.
    destruct (scan_user_quiet o' false Q) as (_ & _ & C & _). unfold tls_out in C. rewrite C, orb_false_r in T. exact T.
Qed.
Lemma Tr_conn : forall c s0 s o, is_conn c = true -> Tr s0 s o -> Tr s0 (set_neg_done true s) (o ++ [c]).
Proof.
  intros c s0 s o C []. constructor.
  - apply (Fr_trans _ _ _ tr_fr0). destruct s; Fr_prim.
  - intros _. right. unfold has_conn. rewrite existsb_app. cbn. rewrite C. apply orb_true_r.
  - rewrite existsb_app, tr_nowire0. destruct c; cbn in *; try discriminate; reflexivity.
  - intros b Hb. rewrite scan_user_app, (tr_user0 b Hb). destruct c; cbn in *; try discriminate; reflexivity.
  - intros T. unfold tls_out in *. rewrite existsb_app in T. destruct c; cbn in *; try discriminate;
      rewrite orb_false_r in T; apply (Rst_Fr s); auto; destruct s; Fr_prim.
Qed.
Lemma Tr_user_out : forall u s0 s o, (u = OUserHandler \/ u = OUserTimed) -> neg_done s = true -> Tr s0 s o -> Tr s0 s (o ++ [u]).
Proof.
  intros u s0 s o U N []. constructor; auto.
  - intros _. destruct (tr_nd0 N); auto. right. unfold has_conn in *. rewrite existsb_app, H. reflexivity.
  - rewrite existsb_app, tr_nowire0. destruct U; subst; reflexivity.
  - intros b Hb. rewrite scan_user_app, (tr_user0 b Hb).
    assert (b || has_conn o = true) as ->.
    { destruct (tr_nd0 N) as [H|H]; [rewrite (Hb H) | rewrite H, orb_true_r]; reflexivity. }
    destruct U; subst; reflexivity.
  - intros T. apply tr_restart0. unfold tls_out in *. rewrite existsb_app in T.
    destruct U; subst; cbn in T; rewrite orb_false_r in T; exact T.
Qed.
Lemma Tr_tls : forall s0 s o, Rst s -> Tr s0 s o -> Tr s0 s (o ++ [OTlsStart true]).
Proof.
  intros s0 s o R []. constructor; auto.
  - intros N. destruct (tr_nd0 N); auto. right. unfold has_conn in *. rewrite existsb_app, H. reflexivity.
  - rewrite existsb_app, tr_nowire0. reflexivity.
  - intros b Hb. rewrite scan_user_app, (tr_user0 b Hb). reflexivity.
Qed.
#[export] Hint Resolve Tr_nil Tr_assoc : trdb.
#[export] Hint Extern 3 (Tr _ _ (_ ++ _)) => (apply Tr_quiet; [ | reflexivity]) : trdb.

Lemma Tr_set_tls_verdicts : forall v s0 s o, Tr s0 s o -> Tr s0 (set_tls_verdicts v s) o.
Proof. intros v s0 s o H; eapply Tr_state; [eassumption | apply Fr_set_tls_verdicts; apply Fr_refl | destruct s; exact (fun h => h)]. Qed.
#[export] Hint Resolve Tr_set_tls_verdicts : trdb.
Lemma Tr_set_next_cands : forall v s0 s o, Tr s0 s o -> Tr s0 (set_next_cands v s) o.
Proof. intros v s0 s o H; eapply Tr_state; [eassumption | apply Fr_set_next_cands; apply Fr_refl | destruct s; exact (fun h => h)]. Qed.
#[export] Hint Resolve Tr_set_next_cands : trdb.
Lemma Tr_set_cands : forall v s0 s o, Tr s0 s o -> Tr s0 (set_cands v s) o.
Proof. intros v s0 s o H; eapply Tr_state; [eassumption | apply Fr_set_cands; apply Fr_refl | destruct s; exact (fun h => h)]. Qed.
#[export] Hint Resolve Tr_set_cands : trdb.
Lemma Tr_set_cur_ep : forall v s0 s o, Tr s0 s o -> Tr s0 (set_cur_ep v s) o.
Proof. intros v s0 s o H; eapply Tr_state; [eassumption | apply Fr_set_cur_ep; apply Fr_refl | destruct s; exact (fun h => h)]. Qed.
#[export] Hint Resolve Tr_set_cur_ep : trdb.
Lemma Tr_set_stamp : forall v s0 s o, Tr s0 s o -> Tr s0 (set_stamp v s) o.
Proof. intros v s0 s o H; eapply Tr_state; [eassumption | apply Fr_set_stamp; apply Fr_refl | destruct s; exact (fun h => h)]. Qed.
#[export] Hint Resolve Tr_set_stamp : trdb.
Lemma Tr_set_err : forall v s0 s o, Tr s0 s o -> Tr s0 (set_err v s) o.
Proof. intros v s0 s o H; eapply Tr_state; [eassumption | apply Fr_set_err; apply Fr_refl | destruct s; exact (fun h => h)]. Qed.
#[export] Hint Resolve Tr_set_err : trdb.
Lemma Tr_set_stream_error : forall v s0 s o, Tr s0 s o -> Tr s0 (set_stream_error v s) o.
Proof. intros v s0 s o H; eapply Tr_state; [eassumption | apply Fr_set_stream_error; apply Fr_refl | destruct s; exact (fun h => h)]. Qed.
#[export] Hint Resolve Tr_set_stream_error : trdb.
Lemma Tr_set_tls_present : forall v s0 s o, Tr s0 s o -> Tr s0 (set_tls_present v s) o.
Proof. intros v s0 s o H; eapply Tr_state; [eassumption | apply Fr_set_tls_present; apply Fr_refl | destruct s; exact (fun h => h)]. Qed.
#[export] Hint Resolve Tr_set_tls_present : trdb.
Lemma Tr_set_tls_failed : forall v s0 s o, Tr s0 s o -> Tr s0 (set_tls_failed v s) o.
Proof. intros v s0 s o H; eapply Tr_state; [eassumption | apply Fr_set_tls_failed; apply Fr_refl | destruct s; exact (fun h => h)]. Qed.
#[export] Hint Resolve Tr_set_tls_failed : trdb.
Lemma Tr_set_tls_support : forall v s0 s o, Tr s0 s o -> Tr s0 (set_tls_support v s) o.
Proof. intros v s0 s o H; eapply Tr_state; [eassumption | apply Fr_set_tls_support; apply Fr_refl | destruct s; exact (fun h => h)]. Qed.
#[export] Hint Resolve Tr_set_tls_support : trdb.
Lemma Tr_set_sasl : forall v s0 s o, Tr s0 s o -> Tr s0 (set_sasl v s) o.
Proof. intros v s0 s o H; eapply Tr_state; [eassumption | apply Fr_set_sasl; apply Fr_refl | destruct s; exact (fun h => h)]. Qed.
#[export] Hint Resolve Tr_set_sasl : trdb.
Lemma Tr_set_bind_required : forall v s0 s o, Tr s0 s o -> Tr s0 (set_bind_required v s) o.
Proof. intros v s0 s o H; eapply Tr_state; [eassumption | apply Fr_set_bind_required; apply Fr_refl | destruct s; exact (fun h => h)]. Qed.
#[export] Hint Resolve Tr_set_bind_required : trdb.
Lemma Tr_set_session_required : forall v s0 s o, Tr s0 s o -> Tr s0 (set_session_required v s) o.
Proof. intros v s0 s o H; eapply Tr_state; [eassumption | apply Fr_set_session_required; apply Fr_refl | destruct s; exact (fun h => h)]. Qed.
#[export] Hint Resolve Tr_set_session_required : trdb.
Lemma Tr_set_comp_supported : forall v s0 s o, Tr s0 s o -> Tr s0 (set_comp_supported v s) o.
Proof. intros v s0 s o H; eapply Tr_state; [eassumption | apply Fr_set_comp_supported; apply Fr_refl | destruct s; exact (fun h => h)]. Qed.
#[export] Hint Resolve Tr_set_comp_supported : trdb.
Lemma Tr_set_comp_active : forall v s0 s o, Tr s0 s o -> Tr s0 (set_comp_active v s) o.
Proof. intros v s0 s o H; eapply Tr_state; [eassumption | apply Fr_set_comp_active; apply Fr_refl | destruct s; exact (fun h => h)]. Qed.
#[export] Hint Resolve Tr_set_comp_active : trdb.
Lemma Tr_set_sm_support : forall v s0 s o, Tr s0 s o -> Tr s0 (set_sm_support v s) o.
Proof. intros v s0 s o H; eapply Tr_state; [eassumption | apply Fr_set_sm_support; apply Fr_refl | destruct s; exact (fun h => h)]. Qed.
#[export] Hint Resolve Tr_set_sm_support : trdb.
Lemma Tr_set_sm_enabled : forall v s0 s o, Tr s0 s o -> Tr s0 (set_sm_enabled v s) o.
Proof. intros v s0 s o H; eapply Tr_state; [eassumption | apply Fr_set_sm_enabled; apply Fr_refl | destruct s; exact (fun h => h)]. Qed.
#[export] Hint Resolve Tr_set_sm_enabled : trdb.
Lemma Tr_set_sm_can_resume : forall v s0 s o, Tr s0 s o -> Tr s0 (set_sm_can_resume v s) o.
Proof. intros v s0 s o H; eapply Tr_state; [eassumption | apply Fr_set_sm_can_resume; apply Fr_refl | destruct s; exact (fun h => h)]. Qed.
#[export] Hint Resolve Tr_set_sm_can_resume : trdb.
Lemma Tr_set_sm_resume : forall v s0 s o, Tr s0 s o -> Tr s0 (set_sm_resume v s) o.
Proof. intros v s0 s o H; eapply Tr_state; [eassumption | apply Fr_set_sm_resume; apply Fr_refl | destruct s; exact (fun h => h)]. Qed.
#[export] Hint Resolve Tr_set_sm_resume : trdb.
Lemma Tr_set_sm_dont_request : forall v s0 s o, Tr s0 s o -> Tr s0 (set_sm_dont_request v s) o.
Proof. intros v s0 s o H; eapply Tr_state; [eassumption | apply Fr_set_sm_dont_request; apply Fr_refl | destruct s; exact (fun h => h)]. Qed.
#[export] Hint Resolve Tr_set_sm_dont_request : trdb.
Lemma Tr_set_sm_has_previd : forall v s0 s o, Tr s0 s o -> Tr s0 (set_sm_has_previd v s) o.
Proof. intros v s0 s o H; eapply Tr_state; [eassumption | apply Fr_set_sm_has_previd; apply Fr_refl | destruct s; exact (fun h => h)]. Qed.
#[export] Hint Resolve Tr_set_sm_has_previd : trdb.
Lemma Tr_set_sm_has_id : forall v s0 s o, Tr s0 s o -> Tr s0 (set_sm_has_id v s) o.
Proof. intros v s0 s o H; eapply Tr_state; [eassumption | apply Fr_set_sm_has_id; apply Fr_refl | destruct s; exact (fun h => h)]. Qed.
#[export] Hint Resolve Tr_set_sm_has_id : trdb.
Lemma Tr_set_sm_parked : forall v s0 s o, Tr s0 s o -> Tr s0 (set_sm_parked v s) o.
Proof. intros v s0 s o H; eapply Tr_state; [eassumption | apply Fr_set_sm_parked; apply Fr_refl | destruct s; exact (fun h => h)]. Qed.
#[export] Hint Resolve Tr_set_sm_parked : trdb.
Lemma Tr_set_sm_r_sent : forall v s0 s o, Tr s0 s o -> Tr s0 (set_sm_r_sent v s) o.
Proof. intros v s0 s o H; eapply Tr_state; [eassumption | apply Fr_set_sm_r_sent; apply Fr_refl | destruct s; exact (fun h => h)]. Qed.
#[export] Hint Resolve Tr_set_sm_r_sent : trdb.
Lemma Tr_set_sm_bind_saved : forall v s0 s o, Tr s0 s o -> Tr s0 (set_sm_bind_saved v s) o.
Proof. intros v s0 s o H; eapply Tr_state; [eassumption | apply Fr_set_sm_bind_saved; apply Fr_refl | destruct s; exact (fun h => h)]. Qed.
#[export] Hint Resolve Tr_set_sm_bind_saved : trdb.
Lemma Tr_set_bound_jid : forall v s0 s o, Tr s0 s o -> Tr s0 (set_bound_jid v s) o.
Proof. intros v s0 s o H; eapply Tr_state; [eassumption | apply Fr_set_bound_jid; apply Fr_refl | destruct s; exact (fun h => h)]. Qed.
#[export] Hint Resolve Tr_set_bound_jid : trdb.
Lemma Tr_set_stream_id : forall v s0 s o, Tr s0 s o -> Tr s0 (set_stream_id v s) o.
Proof. intros v s0 s o H; eapply Tr_state; [eassumption | apply Fr_set_stream_id; apply Fr_refl | destruct s; exact (fun h => h)]. Qed.
#[export] Hint Resolve Tr_set_stream_id : trdb.
Lemma Tr_set_oh : forall v s0 s o, Tr s0 s o -> Tr s0 (set_oh v s) o.
Proof. intros v s0 s o H; eapply Tr_state; [eassumption | apply Fr_set_oh; apply Fr_refl | destruct s; exact (fun h => h)]. Qed.
#[export] Hint Resolve Tr_set_oh : trdb.
Lemma Tr_set_ps : forall v s0 s o, Tr s0 s o -> Tr s0 (set_ps v s) o.
Proof. intros v s0 s o H; eapply Tr_state; [eassumption | apply Fr_set_ps; apply Fr_refl | destruct s; exact (fun h => h)]. Qed.
#[export] Hint Resolve Tr_set_ps : trdb.
Lemma Tr_set_handlers : forall v s0 s o, Tr s0 s o -> Tr s0 (set_handlers v s) o.
Proof. intros v s0 s o H; eapply Tr_state; [eassumption | apply Fr_set_handlers; apply Fr_refl | destruct s; exact (fun h => h)]. Qed.
#[export] Hint Resolve Tr_set_handlers : trdb.
Lemma Tr_set_idhandlers : forall v s0 s o, Tr s0 s o -> Tr s0 (set_idhandlers v s) o.
Proof. intros v s0 s o H; eapply Tr_state; [eassumption | apply Fr_set_idhandlers; apply Fr_refl | destruct s; exact (fun h => h)]. Qed.
#[export] Hint Resolve Tr_set_idhandlers : trdb.
Lemma Tr_set_timed : forall v s0 s o, Tr s0 s o -> Tr s0 (set_timed v s) o.
Proof. intros v s0 s o H; eapply Tr_state; [eassumption | apply Fr_set_timed; apply Fr_refl | destruct s; exact (fun h => h)]. Qed.
#[export] Hint Resolve Tr_set_timed : trdb.
Lemma Tr_set_rxq : forall v s0 s o, Tr s0 s o -> Tr s0 (set_rxq v s) o.
Proof. intros v s0 s o H; eapply Tr_state; [eassumption | apply Fr_set_rxq; apply Fr_refl | destruct s; exact (fun h => h)]. Qed.
#[export] Hint Resolve Tr_set_rxq : trdb.
Lemma Tr_set_smq : forall v s0 s o, Tr s0 s o -> Tr s0 (set_smq v s) o.
Proof. intros v s0 s o H; eapply Tr_state; [eassumption | apply Fr_set_smq; apply Fr_refl | destruct s; exact (fun h => h)]. Qed.
#[export] Hint Resolve Tr_set_smq : trdb.
Lemma Tr_set_sm_sent : forall v s0 s o, Tr s0 s o -> Tr s0 (set_sm_sent v s) o.
Proof. intros v s0 s o H; eapply Tr_state; [eassumption | apply Fr_set_sm_sent; apply Fr_refl | destruct s; exact (fun h => h)]. Qed.
#[export] Hint Resolve Tr_set_sm_sent : trdb.
Lemma Tr_set_scram_serial : forall v s0 s o, Tr s0 s o -> Tr s0 (set_scram_serial v s) o.
Proof. intros v s0 s o H; eapply Tr_state; [eassumption | apply Fr_set_scram_serial; apply Fr_refl | destruct s; exact (fun h => h)]. Qed.
#[export] Hint Resolve Tr_set_scram_serial : trdb.
Lemma Tr_set_crashed : forall v s0 s o, Tr s0 s o -> Tr s0 (set_crashed v s) o.
Proof. intros v s0 s o H; eapply Tr_state; [eassumption | apply Fr_set_crashed; apply Fr_refl | destruct s; exact (fun h => h)]. Qed.
#[export] Hint Resolve Tr_set_crashed : trdb.

(* non-benign setters *)
Lemma Tr_set_sendq_app : forall l s0 s o, Tr s0 s o -> Tr s0 (set_sendq (sendq s ++ l) s) o.
Proof. intros; eapply Tr_state; [eassumption | apply Fr_set_sendq_app; apply Fr_refl | destruct s; exact (fun h => h)]. Qed.
Lemma Tr_set_st_disc : forall s0 s o, Tr s0 s o -> Tr s0 (set_st Disconnected s) o.
Proof. intros; eapply Tr_state; [eassumption | apply Fr_set_st_disc; apply Fr_refl | destruct s; exact (fun h => h)]. Qed.
Lemma Tr_set_reset_true : forall s0 s o, Tr s0 s o -> Tr s0 (set_reset_parser true s) o.
Proof. intros; eapply Tr_state; [eassumption | apply Fr_set_reset_true; apply Fr_refl | destruct s; exact (fun h => h)]. Qed.
Lemma Tr_set_secured_true : forall s0 s o, Tr s0 s o -> Tr s0 (set_secured true s) o.
Proof. intros; eapply Tr_state; [eassumption | apply Fr_set_secured_true; apply Fr_refl | destruct s; exact (fun h => h)]. Qed.
Lemma Tr_upg : forall f s0 s o, GFr (gh s) (f (gh s)) -> Tr s0 s o -> Tr s0 (upg f s) o.
Proof. intros; eapply Tr_state; [eassumption | apply Fr_upg; [assumption | apply Fr_refl] | destruct s; exact (fun h => h)]. Qed.
Lemma Tr_set_neg_done_false : forall s0 s o, Tr s0 s o -> Tr s0 (set_neg_done false s) o.
Proof. intros; eapply Tr_state; [eassumption | destruct s; Fr_prim | destruct s; cbn; discriminate]. Qed.
#[export] Hint Resolve Tr_set_sendq_app Tr_set_st_disc Tr_set_reset_true Tr_set_secured_true Tr_upg Tr_set_neg_done_false : trdb.
#[export] Hint Resolve GFr_refl GFr_set_g_se_bad GFr_set_true_conn_unjust GFr_stream_start_upd : trdb.
#[export] Hint Extern 2 (Tr _ (set_neg_done true _) (_ ++ [_])) => (apply Tr_conn; [reflexivity | ]) : trdb.
Lemma nd_q_append : forall w u sm s, neg_done (q_append w u sm s) = neg_done s.
Proof. intros; unfold q_append; cases; reflexivity. Qed.
Lemma Tr_q_append : forall w u sm s0 s o, Tr s0 s o -> Tr s0 (q_append w u sm s) o.
Proof. intros; eapply Tr_state; [eassumption | apply Fr_q_append; apply Fr_refl | rewrite nd_q_append; auto]. Qed.
#[export] Hint Resolve Tr_q_append : trdb.
Lemma Tr_send_gated : forall w u sm s0 s o, Tr s0 s o -> Tr s0 (send_gated w u sm s) o.
Proof. intros; unfold send_gated, ret; cases; leaf; eauto 30 with trdb. Qed.
#[export] Hint Resolve Tr_send_gated : trdb.
Lemma Tr_send_raw_m : forall w u sm s0 s o, Tr s0 s o -> Tr s0 (send_raw_m w u sm s) o.
Proof. intros; unfold send_raw_m, ret; cases; leaf; eauto 30 with trdb. Qed.
#[export] Hint Resolve Tr_send_raw_m : trdb.
Lemma Tr_timed_add : forall k n s0 s o, Tr s0 s o -> Tr s0 (timed_add k n s) o.
Proof. intros; unfold timed_add, ret; cases; leaf; eauto 30 with trdb. Qed.
#[export] Hint Resolve Tr_timed_add : trdb.
Lemma Tr_timed_del : forall k s0 s o, Tr s0 s o -> Tr s0 (timed_del k s) o.
Proof. intros; unfold timed_del, ret; cases; leaf; eauto 30 with trdb. Qed.
#[export] Hint Resolve Tr_timed_del : trdb.
Lemma Tr_timed_reset_all : forall n s0 s o, Tr s0 s o -> Tr s0 (timed_reset_all n s) o.
Proof. intros; unfold timed_reset_all, ret; cases; leaf; eauto 30 with trdb. Qed.
#[export] Hint Resolve Tr_timed_reset_all : trdb.
Lemma Tr_timed_set_stamp : forall k n s0 s o, Tr s0 s o -> Tr s0 (timed_set_stamp k n s) o.
Proof. intros; unfold timed_set_stamp, ret; cases; leaf; eauto 30 with trdb. Qed.
#[export] Hint Resolve Tr_timed_set_stamp : trdb.
Lemma Tr_h_add : forall k s0 s o, Tr s0 s o -> Tr s0 (h_add k s) o.
Proof. intros; unfold h_add, ret; cases; leaf; eauto 30 with trdb. Qed.
#[export] Hint Resolve Tr_h_add : trdb.
Lemma Tr_h_del : forall k s0 s o, Tr s0 s o -> Tr s0 (h_del k s) o.
Proof. intros; unfold h_del, ret; cases; leaf; eauto 30 with trdb. Qed.
#[export] Hint Resolve Tr_h_del : trdb.
Lemma Tr_id_add : forall k s0 s o, Tr s0 s o -> Tr s0 (id_add k s) o.
Proof. intros; unfold id_add, ret; cases; leaf; eauto 30 with trdb. Qed.
#[export] Hint Resolve Tr_id_add : trdb.
Lemma Tr_id_del : forall k s0 s o, Tr s0 s o -> Tr s0 (id_del k s) o.
Proof. intros; unfold id_del, ret; cases; leaf; eauto 30 with trdb. Qed.
#[export] Hint Resolve Tr_id_del : trdb.
Lemma Tr_reset_sm_for_reconnect : forall s0 s o, Tr s0 s o -> Tr s0 (reset_sm_for_reconnect s) o.
Proof. intros; unfold reset_sm_for_reconnect, ret; cases; leaf; eauto 30 with trdb. Qed.
#[export] Hint Resolve Tr_reset_sm_for_reconnect : trdb.
Lemma Tr_sm_queue_cleanup : forall h s0 s o, Tr s0 s o -> Tr s0 (sm_queue_cleanup h s) o.
Proof. intros; unfold sm_queue_cleanup, ret; cases; leaf; eauto 30 with trdb. Qed.
#[export] Hint Resolve Tr_sm_queue_cleanup : trdb.
Lemma Tr_sm_queue_resend : forall s0 s o, Tr s0 s o -> Tr s0 (sm_queue_resend s) o.
Proof. intros; unfold sm_queue_resend. apply fold_left_inv; eauto with trdb. Qed.
#[export] Hint Resolve Tr_sm_queue_resend : trdb.
Lemma Tr_conn_disconnect : forall s0 s o, Tr s0 s o -> Tr s0 (fst (conn_disconnect s)) (o ++ (snd (conn_disconnect s))).
Proof. intros; name_result; unfold conn_disconnect, ret; cases; leaf; eauto 30 with trdb. Qed.
#[export] Hint Resolve Tr_conn_disconnect : trdb.
Lemma Tr_xmpp_disconnect : forall n s0 s o, Tr s0 s o -> Tr s0 (xmpp_disconnect n s) o.
Proof. intros; unfold xmpp_disconnect, ret; cases; leaf; eauto 30 with trdb. Qed.
#[export] Hint Resolve Tr_xmpp_disconnect : trdb.
Lemma Tr_prepare_reset : forall h s0 s o, Tr s0 s o -> Tr s0 (prepare_reset h s) o.
Proof. intros; unfold prepare_reset, ret; cases; leaf; eauto 30 with trdb. Qed.
#[export] Hint Resolve Tr_prepare_reset : trdb.
Lemma Tr_conn_open_stream : forall s0 s o, Tr s0 s o -> Tr s0 (conn_open_stream s) o.
Proof. intros; unfold conn_open_stream, ret; cases; leaf; eauto 30 with trdb. Qed.
#[export] Hint Resolve Tr_conn_open_stream : trdb.
Lemma Rst_open_reset : forall h s, Rst (conn_open_stream (prepare_reset h s)).
Proof.
  intros h s C. right; right. revert C.
  unfold conn_open_stream, send_gated, is_connected_owner, prepare_reset, q_append. sproj.
  destruct (st s) eqn:E; try (intros C; exfalso; revert C; sproj; congruence).
  cbn [negb orb]. cases; sproj; intros _; rewrite ?has_header_app; cbn; rewrite ?orb_true_r; auto.
Qed.
(* conn_tls_start: no general lemma (the restart obligation is discharged at its two call sites) *)
Lemma Tr_conn_tls_start_fail : forall s0 s o, Tr s0 s o -> snd (conn_tls_start s) = false ->
  Tr s0 (fst (fst (conn_tls_start s))) (o ++ snd (fst (conn_tls_start s))).
Proof. intros s0 s o H. name_result. unfold conn_tls_start. cases; leaf; try discriminate; eauto 30 with trdb. Qed.
Lemma Tr_conn_tls_start_ok : forall s0 s o, Tr s0 s o -> snd (conn_tls_start s) = true ->
  Tr s0 (fst (fst (conn_tls_start s))) o /\ snd (fst (conn_tls_start s)) = [OTlsStart true].
Proof. intros s0 s o H. name_result. unfold conn_tls_start. cases; leaf; try discriminate; split; eauto 30 with trdb. Qed.
Lemma Tr_stream_negotiation_success : forall s0 s o, Tr s0 s o -> Tr s0 (fst (stream_negotiation_success s)) (o ++ (snd (stream_negotiation_success s))).
Proof. intros; name_result; unfold stream_negotiation_success, ret; cases; leaf; eauto 30 with trdb. Qed.
#[export] Hint Resolve Tr_stream_negotiation_success : trdb.
Lemma Tr_do_bind : forall n b s0 s o, Tr s0 s o -> Tr s0 (fst (do_bind n b s)) (o ++ (snd (do_bind n b s))).
Proof. intros; name_result; unfold do_bind, ret; cases; leaf; eauto 30 with trdb. Qed.
#[export] Hint Resolve Tr_do_bind : trdb.
Lemma Tr_session_start : forall n s0 s o, Tr s0 s o -> Tr s0 (session_start n s) o.
Proof. intros; unfold session_start, ret; cases; leaf; eauto 30 with trdb. Qed.
#[export] Hint Resolve Tr_session_start : trdb.
Lemma Tr_sm_enable : forall s0 s o, Tr s0 s o -> Tr s0 (sm_enable s) o.
Proof. intros; unfold sm_enable, ret; cases; leaf; eauto 30 with trdb. Qed.
#[export] Hint Resolve Tr_sm_enable : trdb.
Lemma Tr_auth_legacy : forall n s0 s o, Tr s0 s o -> Tr s0 (auth_legacy n s) o.
Proof. intros; unfold auth_legacy, ret; cases; leaf; eauto 30 with trdb. Qed.
#[export] Hint Resolve Tr_auth_legacy : trdb.
Lemma Tr_auth : forall fuel n s0 s o, Tr s0 s o -> Tr s0 (fst (auth fuel n s)) (o ++ snd (auth fuel n s)).
Proof. induction fuel; intros; name_result; cbn [auth]; unfold ret; cases; leaf; eauto 30 with trdb. Qed.
#[export] Hint Resolve Tr_auth : trdb.
Lemma Tr_sasl_result : forall n e s0 s o, Tr s0 s o -> Tr s0 (fst (sasl_result n e s)) (o ++ (snd (sasl_result n e s))).
Proof. intros; name_result; unfold sasl_result, ret; cases; leaf; eauto 30 with trdb. Qed.
#[export] Hint Resolve Tr_sasl_result : trdb.
Lemma Tr_features_sasl : forall n e s0 s o, Tr s0 s o -> Tr s0 (fst (features_sasl n e s)) (o ++ (snd (features_sasl n e s))).
Proof. intros; name_result; unfold features_sasl, ret; cases; leaf; eauto 30 with trdb. Qed.
#[export] Hint Resolve Tr_features_sasl : trdb.
Lemma Tr_call_handler : forall k n e s0 s o, hkind_eqb k HUser && negb (neg_done s) = false ->
  Tr s0 s o -> Tr s0 (fst (fst (call_handler k n e s))) (o ++ snd (fst (call_handler k n e s))).
Proof.
  intros k; destruct k; intros n0 e s0 s o G H.
  1: { cbn in G. apply negb_false_iff in G. cbn. apply Tr_user_out; auto. }
  3: { (* HProceedTls *)
       name_result. unfold call_handler. cases; leaf; eauto 30 with trdb.
       - destruct (Tr_conn_tls_start_ok _ _ _ H Heqb) as [T ->].
         apply Tr_tls; [apply Rst_open_reset | eauto 30 with trdb].
       - pose proof (Tr_conn_tls_start_fail _ _ _ H Heqb). eauto 30 with trdb. }
  all: name_result; unfold call_handler, ret; cases; leaf; eauto 30 with trdb.
Qed.
#[export] Hint Resolve Tr_call_handler : trdb.
Lemma Tr_call_id_handler : forall k n e s0 s o, Tr s0 s o -> Tr s0 (fst (call_id_handler k n e s)) (o ++ (snd (call_id_handler k n e s))).
Proof. intros k; destruct k; intros; name_result; unfold call_id_handler, ret; cases; leaf; eauto 30 with trdb. Qed.
#[export] Hint Resolve Tr_call_id_handler : trdb.
Lemma Tr_note_rx : forall e s0 s o, Tr s0 s o -> Tr s0 (note_rx e s) o.
Proof. intros; eapply Tr_state; [eassumption | apply Fr_note_rx; apply Fr_refl | unfold note_rx; exact (fun h => h)]. Qed.
#[export] Hint Resolve Tr_note_rx : trdb.
Lemma Tr_visit : forall n e s0 r k, Tr s0 (fst r) (snd r) -> Tr s0 (fst (visit n e r k)) (snd (visit n e r k)).
Proof.
  intros n e s0 [s o] k H. cbn [fst snd] in H. name_result. unfold visit. cases; leaf; eauto 30 with trdb.
Qed.
Lemma Tr_fold_visit : forall n e l s0 r, Tr s0 (fst r) (snd r) ->
  Tr s0 (fst (fold_left (visit n e) l r)) (snd (fold_left (visit n e) l r)).
Proof. intros n e l s0. apply (fold_left_inv (fun r => Tr s0 (fst r) (snd r))). intros; apply Tr_visit; auto. Qed.
Lemma Tr_sm_handle : forall e s0 s o, Tr s0 s o -> Tr s0 (sm_handle e s) o.
Proof. intros; unfold sm_handle, ret; cases; leaf; eauto 30 with trdb. Qed.
#[export] Hint Resolve Tr_sm_handle : trdb.
Lemma Tr_dispatch : forall n e s0 s o, Tr s0 s o -> Tr s0 (fst (dispatch n e s)) (o ++ (snd (dispatch n e s))).
Proof. intros; name_result; unfold dispatch, ret; cases; leaf; eauto 30 with trdb. Qed.
#[export] Hint Resolve Tr_dispatch : trdb.
Lemma Tr_open_handler : forall n s0 s o, Tr s0 s o -> Tr s0 (fst (open_handler n s)) (o ++ (snd (open_handler n s))).
Proof. intros; name_result; unfold open_handler, ret; cases; leaf; eauto 30 with trdb. Qed.
#[export] Hint Resolve Tr_open_handler : trdb.
Lemma Tr_stream_start : forall n a b s0 s o, Tr s0 s o -> Tr s0 (fst (stream_start n a b s)) (o ++ (snd (stream_start n a b s))).
Proof. intros; name_result; unfold stream_start, ret; cases; leaf; eauto 30 with trdb. Qed.
#[export] Hint Resolve Tr_stream_start : trdb.
Lemma Tr_stream_end : forall s0 s o, Tr s0 s o -> Tr s0 (fst (stream_end s)) (o ++ (snd (stream_end s))).
Proof. intros; name_result; unfold stream_end, ret; cases; leaf; eauto 30 with trdb. Qed.
#[export] Hint Resolve Tr_stream_end : trdb.
Lemma Tr_feed_item : forall n it s0 s o, Tr s0 s o -> Tr s0 (fst (fst (feed_item n it s))) (o ++ (snd (fst (feed_item n it s)))).
Proof. intros; name_result; unfold feed_item, ret; cases; leaf; eauto 30 with trdb. Qed.
#[export] Hint Resolve Tr_feed_item : trdb.
Lemma Tr_feed_items : forall n its s0 s o, Tr s0 s o -> Tr s0 (fst (fst (feed_items n its s))) (o ++ snd (fst (feed_items n its s))).
Proof. induction its; intros; name_result; cbn [feed_items]; cases; leaf; eauto 30 with trdb. Qed.
#[export] Hint Resolve Tr_feed_items : trdb.
Lemma Tr_call_timed : forall k n s0 s o, tkind_eqb k TUser && negb (neg_done s) = false ->
  Tr s0 s o -> Tr s0 (fst (fst (call_timed k n s))) (o ++ snd (fst (call_timed k n s))).
Proof.
  intros k; destruct k; intros n0 s0 s o G H.
  1: { cbn in G. apply negb_false_iff in G. cbn. apply Tr_user_out; auto. }
  all: name_result; unfold call_timed, ret; cases; leaf; eauto 30 with trdb.
Qed.
#[export] Hint Resolve Tr_call_timed : trdb.
Lemma Tr_visit_timed : forall n s0 r k, Tr s0 (fst r) (snd r) -> Tr s0 (fst (visit_timed n r k)) (snd (visit_timed n r k)).
Proof.
  intros n s0 [s o] k H. cbn [fst snd] in H. name_result. unfold visit_timed. cases; leaf; eauto 30 with trdb.
Qed.
Lemma Tr_fold_visit_timed : forall n l s0 r, Tr s0 (fst r) (snd r) ->
  Tr s0 (fst (fold_left (visit_timed n) l r)) (snd (fold_left (visit_timed n) l r)).
Proof. intros n l s0. apply (fold_left_inv (fun r => Tr s0 (fst r) (snd r))). intros; apply Tr_visit_timed; auto. Qed.
Lemma Tr_fire_timed : forall n s0 s o, Tr s0 s o -> Tr s0 (fst (fire_timed n s)) (o ++ (snd (fire_timed n s))).
Proof. intros; name_result; unfold fire_timed, ret; cases; leaf; eauto 30 with trdb. Qed.
#[export] Hint Resolve Tr_fire_timed : trdb.
Lemma Tr_connect_next : forall n s0 s o, Tr s0 s o -> Tr s0 (fst (fst (connect_next n s))) (o ++ (snd (fst (connect_next n s)))).
Proof. intros; name_result; unfold connect_next, ret; cases; leaf; eauto 30 with trdb. Qed.
#[export] Hint Resolve Tr_connect_next : trdb.
Lemma Tr_conn_established : forall n s0 s o, Tr s0 s o -> Tr s0 (fst (conn_established n s)) (o ++ (snd (conn_established n s))).
Proof. intros; name_result; unfold conn_established, ret; cases; leaf; eauto 30 with trdb. Qed.
#[export] Hint Resolve Tr_conn_established : trdb.
