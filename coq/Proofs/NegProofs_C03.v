(* C03 - proofs of the executable statements of Spec/NegSpec.v over Model/NegModel.v.
   Frame infrastructure: Proofs/NegFrame_C03.v. *)
Require Import LV.Common.Bytes LV.Gen.Gen_neg LV.Model.NegState LV.Model.NegModel LV.Spec.NegSpec LV.Spec.NegSkeleton
               LV.Proofs.NegFrame_C03.
Local Open Scope Z_scope.

(* ================================================================== outputs along an iteration *)
Definition is_conn (o : out) : bool := match o with OConnect | ORawConnect => true | _ => false end.
Definition is_wire (o : out) : bool := match o with OWire _ _ => true | _ => false end.
Definition is_tls (o : out) : bool := match o with OTlsStart true => true | _ => false end.
Definition quiet (o : out) : bool :=
  match o with
  | OWire _ _ | OConnect | ORawConnect | OTlsStart true | OUserHandler | OUserTimed => false
  | _ => true
  end.
Definition has_conn (o : list out) : bool := existsb is_conn o.
Definition tls_out (o : list out) : bool := existsb is_tls o.

(* the conclusion of ok_restart as a state predicate *)
Definition Rst (s : state) : Prop :=
  st s = Connected ->
  is_raw s = true \/ f_legacy_ssl s = true \/ (reset_parser s = true /\ has_header (sendq s) = true).

Lemma has_header_app : forall a b, has_header (a ++ b) = has_header a || has_header b.
Proof. intros; unfold has_header; apply existsb_app. Qed.

Lemma Rst_Fr : forall s s', Rst s -> Fr s s' -> Rst s'.
Proof.
  intros s s' R F C. destruct F.
  assert (C0 : st s = Connected) by (destruct fr_st as [E|E]; congruence).
  destruct (R C0) as [H|[H|[H1 H2]]]; [left; congruence | right; left; congruence | right; right].
  split; auto. destruct fr_sendq as [l E]. rewrite E, has_header_app, H2. reflexivity.
Qed.

Lemma scan_user_app : forall o1 b o2,
  scan_user b (o1 ++ o2) = scan_user b o1 && scan_user (b || has_conn o1) o2.
Proof.
  induction o1 as [|x o1 IH]; intros b o2.
  - cbn. rewrite orb_false_r. reflexivity.
  - destruct x as [t w| | | | | | | | | | | | |]; try destruct w; cbn [app scan_user has_conn existsb is_conn orb];
      rewrite ?IH; cbn [orb]; rewrite ?orb_true_r, ?andb_assoc; try reflexivity.
Qed.

Lemma scan_user_quiet : forall o b, forallb quiet o = true -> scan_user b o = true /\ has_conn o = false /\ tls_out o = false /\ existsb is_wire o = false.
Proof.
  induction o as [|x o IH]; intros b H; cbn in *; auto.
  apply andb_prop in H; destruct H as [H1 H2]. destruct (IH b H2) as (A & B & C & D).
  destruct x as [t w| | | | ok | | | | | | | | |]; try destruct ok; cbn in *; try discriminate; auto.
Qed.

(* Tr s0 s o: starting an iteration phase in s0, the model is now in s and has emitted o *)
Record Tr (s0 s : state) (o : list out) : Prop := mkTr {
  tr_fr : Fr s0 s;
  tr_nd : neg_done s = true -> neg_done s0 = true \/ has_conn o = true;
  tr_nowire : existsb is_wire o = false;
  tr_user : forall b, (neg_done s0 = true -> b = true) -> scan_user b o = true;
  tr_restart : tls_out o = true -> Rst s
}.

Lemma Tr_refl : forall s, Tr s s [].
Proof. intros; constructor; cbn; auto using Fr_refl; discriminate. Qed.
Lemma Tr_state : forall s0 s o s', Tr s0 s o -> Fr s s' -> (neg_done s' = true -> neg_done s = true) -> Tr s0 s' o.
Proof. intros s0 s o s' [] F N; constructor; eauto using Fr_trans, Rst_Fr. Qed.
Lemma Tr_nil : forall s0 s o, Tr s0 s o -> Tr s0 s (o ++ []).
Proof. intros; rewrite app_nil_r; auto. Qed.
Lemma Tr_assoc : forall s0 s o o1 o2, Tr s0 s ((o ++ o1) ++ o2) -> Tr s0 s (o ++ (o1 ++ o2)).
Proof. intros; rewrite app_assoc; auto. Qed.
Lemma Tr_quiet : forall s0 s o o', Tr s0 s o -> forallb quiet o' = true -> Tr s0 s (o ++ o').
Proof.
  intros s0 s o o' [] Q. constructor; auto.
  - intros N. destruct (tr_nd0 N); auto. right. unfold has_conn in *. rewrite existsb_app, H. reflexivity.
  - destruct (scan_user_quiet o' false Q) as (_ & _ & _ & D). rewrite existsb_app, tr_nowire0, D. reflexivity.
  - intros b Hb. rewrite scan_user_app, (tr_user0 b Hb). apply (scan_user_quiet o' _ Q).
  - intros T. apply tr_restart0. unfold tls_out in *. rewrite existsb_app in T.
    destruct (scan_user_quiet o' false Q) as (_ & _ & C & _). unfold tls_out in C. rewrite C, orb_false_r in T. exact T.
Qed.
Lemma Tr_conn : forall c s0 s o, is_conn c = true -> Tr s0 s o -> Tr s0 (set_neg_done true s) (o ++ [c]).
Proof.
  intros c s0 s o C []. constructor.
  - apply (Fr_trans _ _ _ tr_fr0). destruct s; Fr_prim.
  - intros _. right. unfold has_conn. rewrite existsb_app. cbn. rewrite C. apply orb_true_r.
  - rewrite existsb_app, tr_nowire0. destruct c; cbn in *; try discriminate; reflexivity.
  - intros b Hb. rewrite scan_user_app, (tr_user0 b Hb). destruct c; cbn in *; try discriminate; reflexivity.
  - intros T. unfold tls_out in *. rewrite existsb_app in T. destruct c; cbn in *; try discriminate;
      rewrite orb_false_r in T; apply (Rst_Fr s); auto; destruct s; Fr_prim.
Qed.
Lemma Tr_user_out : forall u s0 s o, (u = OUserHandler \/ u = OUserTimed) -> neg_done s = true -> Tr s0 s o -> Tr s0 s (o ++ [u]).
Proof.
  intros u s0 s o U N []. constructor; auto.
  - intros _. destruct (tr_nd0 N); auto. right. unfold has_conn in *. rewrite existsb_app, H. reflexivity.
  - rewrite existsb_app, tr_nowire0. destruct U; subst; reflexivity.
  - intros b Hb. rewrite scan_user_app, (tr_user0 b Hb).
    assert (b || has_conn o = true) as ->.
    { destruct (tr_nd0 N) as [H|H]; [rewrite (Hb H) | rewrite H, orb_true_r]; reflexivity. }
    destruct U; subst; reflexivity.
  - intros T. apply tr_restart0. unfold tls_out in *. rewrite existsb_app in T.
    destruct U; subst; cbn in T; rewrite orb_false_r in T; exact T.
Qed.
Lemma Tr_tls : forall s0 s o, Rst s -> Tr s0 s o -> Tr s0 s (o ++ [OTlsStart true]).
Proof.
  intros s0 s o R []. constructor; auto.
  - intros N. destruct (tr_nd0 N); auto. right. unfold has_conn in *. rewrite existsb_app, H. reflexivity.
  - rewrite existsb_app, tr_nowire0. reflexivity.
  - intros b Hb. rewrite scan_user_app, (tr_user0 b Hb). reflexivity.
Qed.
#[export] Hint Resolve Tr_nil Tr_assoc : trdb.
#[export] Hint Extern 3 (Tr _ _ (_ ++ _)) => (apply Tr_quiet; [ | reflexivity]) : trdb.

Lemma Tr_set_tls_verdicts : forall v s0 s o, Tr s0 s o -> Tr s0 (set_tls_verdicts v s) o.
Proof. intros v s0 s o H; eapply Tr_state; [eassumption | apply Fr_set_tls_verdicts; apply Fr_refl | destruct s; exact (fun h => h)]. Qed.
#[export] Hint Resolve Tr_set_tls_verdicts : trdb.
Lemma Tr_set_next_cands : forall v s0 s o, Tr s0 s o -> Tr s0 (set_next_cands v s) o.
Proof. intros v s0 s o H; eapply Tr_state; [eassumption | apply Fr_set_next_cands; apply Fr_refl | destruct s; exact (fun h => h)]. Qed.
#[export] Hint Resolve Tr_set_next_cands : trdb.
Lemma Tr_set_cands : forall v s0 s o, Tr s0 s o -> Tr s0 (set_cands v s) o.
Proof. intros v s0 s o H; eapply Tr_state; [eassumption | apply Fr_set_cands; apply Fr_refl | destruct s; exact (fun h => h)]. Qed.
#[export] Hint Resolve Tr_set_cands : trdb.
Lemma Tr_set_cur_ep : forall v s0 s o, Tr s0 s o -> Tr s0 (set_cur_ep v s) o.
Proof. intros v s0 s o H; eapply Tr_state; [eassumption | apply Fr_set_cur_ep; apply Fr_refl | destruct s; exact (fun h => h)]. Qed.
#[export] Hint Resolve Tr_set_cur_ep : trdb.
Lemma Tr_set_stamp : forall v s0 s o, Tr s0 s o -> Tr s0 (set_stamp v s) o.
Proof. intros v s0 s o H; eapply Tr_state; [eassumption | apply Fr_set_stamp; apply Fr_refl | destruct s; exact (fun h => h)]. Qed.
#[export] Hint Resolve Tr_set_stamp : trdb.
Lemma Tr_set_err : forall v s0 s o, Tr s0 s o -> Tr s0 (set_err v s) o.
Proof. intros v s0 s o H; eapply Tr_state; [eassumption | apply Fr_set_err; apply Fr_refl | destruct s; exact (fun h => h)]. Qed.
#[export] Hint Resolve Tr_set_err : trdb.
Lemma Tr_set_stream_error : forall v s0 s o, Tr s0 s o -> Tr s0 (set_stream_error v s) o.
Proof. intros v s0 s o H; eapply Tr_state; [eassumption | apply Fr_set_stream_error; apply Fr_refl | destruct s; exact (fun h => h)]. Qed.
#[export] Hint Resolve Tr_set_stream_error : trdb.
Lemma Tr_set_tls_present : forall v s0 s o, Tr s0 s o -> Tr s0 (set_tls_present v s) o.
Proof. intros v s0 s o H; eapply Tr_state; [eassumption | apply Fr_set_tls_present; apply Fr_refl | destruct s; exact (fun h => h)]. Qed.
#[export] Hint Resolve Tr_set_tls_present : trdb.
Lemma Tr_set_tls_failed : forall v s0 s o, Tr s0 s o -> Tr s0 (set_tls_failed v s) o.
Proof. intros v s0 s o H; eapply Tr_state; [eassumption | apply Fr_set_tls_failed; apply Fr_refl | destruct s; exact (fun h => h)]. Qed.
#[export] Hint Resolve Tr_set_tls_failed : trdb.
Lemma Tr_set_tls_support : forall v s0 s o, Tr s0 s o -> Tr s0 (set_tls_support v s) o.
Proof. intros v s0 s o H; eapply Tr_state; [eassumption | apply Fr_set_tls_support; apply Fr_refl | destruct s; exact (fun h => h)]. Qed.
#[export] Hint Resolve Tr_set_tls_support : trdb.
Lemma Tr_set_sasl : forall v s0 s o, Tr s0 s o -> Tr s0 (set_sasl v s) o.
Proof. intros v s0 s o H; eapply Tr_state; [eassumption | apply Fr_set_sasl; apply Fr_refl | destruct s; exact (fun h => h)]. Qed.
#[export] Hint Resolve Tr_set_sasl : trdb.
Lemma Tr_set_bind_required : forall v s0 s o, Tr s0 s o -> Tr s0 (set_bind_required v s) o.
Proof. intros v s0 s o H; eapply Tr_state; [eassumption | apply Fr_set_bind_required; apply Fr_refl | destruct s; exact (fun h => h)]. Qed.
#[export] Hint Resolve Tr_set_bind_required : trdb.
Lemma Tr_set_session_required : forall v s0 s o, Tr s0 s o -> Tr s0 (set_session_required v s) o.
Proof. intros v s0 s o H; eapply Tr_state; [eassumption | apply Fr_set_session_required; apply Fr_refl | destruct s; exact (fun h => h)]. Qed.
#[export] Hint Resolve Tr_set_session_required : trdb.
Lemma Tr_set_comp_supported : forall v s0 s o, Tr s0 s o -> Tr s0 (set_comp_supported v s) o.
Proof. intros v s0 s o H; eapply Tr_state; [eassumption | apply Fr_set_comp_supported; apply Fr_refl | destruct s; exact (fun h => h)]. Qed.
#[export] Hint Resolve Tr_set_comp_supported : trdb.
Lemma Tr_set_comp_active : forall v s0 s o, Tr s0 s o -> Tr s0 (set_comp_active v s) o.
Proof. intros v s0 s o H; eapply Tr_state; [eassumption | apply Fr_set_comp_active; apply Fr_refl | destruct s; exact (fun h => h)]. Qed.
#[export] Hint Resolve Tr_set_comp_active : trdb.
Lemma Tr_set_sm_support : forall v s0 s o, Tr s0 s o -> Tr s0 (set_sm_support v s) o.
Proof. intros v s0 s o H; eapply Tr_state; [eassumption | apply Fr_set_sm_support; apply Fr_refl | destruct s; exact (fun h => h)]. Qed.
#[export] Hint Resolve Tr_set_sm_support : trdb.
Lemma Tr_set_sm_enabled : forall v s0 s o, Tr s0 s o -> Tr s0 (set_sm_enabled v s) o.
Proof. intros v s0 s o H; eapply Tr_state; [eassumption | apply Fr_set_sm_enabled; apply Fr_refl | destruct s; exact (fun h => h)]. Qed.
#[export] Hint Resolve Tr_set_sm_enabled : trdb.
Lemma Tr_set_sm_can_resume : forall v s0 s o, Tr s0 s o -> Tr s0 (set_sm_can_resume v s) o.
Proof. intros v s0 s o H; eapply Tr_state; [eassumption | apply Fr_set_sm_can_resume; apply Fr_refl | destruct s; exact (fun h => h)]. Qed.
#[export] Hint Resolve Tr_set_sm_can_resume : trdb.
Lemma Tr_set_sm_resume : forall v s0 s o, Tr s0 s o -> Tr s0 (set_sm_resume v s) o.
Proof. intros v s0 s o H; eapply Tr_state; [eassumption | apply Fr_set_sm_resume; apply Fr_refl | destruct s; exact (fun h => h)]. Qed.
#[export] Hint Resolve Tr_set_sm_resume : trdb.
Lemma Tr_set_sm_dont_request : forall v s0 s o, Tr s0 s o -> Tr s0 (set_sm_dont_request v s) o.
Proof. intros v s0 s o H; eapply Tr_state; [eassumption | apply Fr_set_sm_dont_request; apply Fr_refl | destruct s; exact (fun h => h)]. Qed.
#[export] Hint Resolve Tr_set_sm_dont_request : trdb.
Lemma Tr_set_sm_has_previd : forall v s0 s o, Tr s0 s o -> Tr s0 (set_sm_has_previd v s) o.
Proof. intros v s0 s o H; eapply Tr_state; [eassumption | apply Fr_set_sm_has_previd; apply Fr_refl | destruct s; exact (fun h => h)]. Qed.
#[export] Hint Resolve Tr_set_sm_has_previd : trdb.
Lemma Tr_set_sm_has_id : forall v s0 s o, Tr s0 s o -> Tr s0 (set_sm_has_id v s) o.
Proof. intros v s0 s o H; eapply Tr_state; [eassumption | apply Fr_set_sm_has_id; apply Fr_refl | destruct s; exact (fun h => h)]. Qed.
#[export] Hint Resolve Tr_set_sm_has_id : trdb.
Lemma Tr_set_sm_parked : forall v s0 s o, Tr s0 s o -> Tr s0 (set_sm_parked v s) o.
Proof. intros v s0 s o H; eapply Tr_state; [eassumption | apply Fr_set_sm_parked; apply Fr_refl | destruct s; exact (fun h => h)]. Qed.
#[export] Hint Resolve Tr_set_sm_parked : trdb.
Lemma Tr_set_sm_r_sent : forall v s0 s o, Tr s0 s o -> Tr s0 (set_sm_r_sent v s) o.
Proof. intros v s0 s o H; eapply Tr_state; [eassumption | apply Fr_set_sm_r_sent; apply Fr_refl | destruct s; exact (fun h => h)]. Qed.
#[export] Hint Resolve Tr_set_sm_r_sent : trdb.
Lemma Tr_set_sm_bind_saved : forall v s0 s o, Tr s0 s o -> Tr s0 (set_sm_bind_saved v s) o.
Proof. intros v s0 s o H; eapply Tr_state; [eassumption | apply Fr_set_sm_bind_saved; apply Fr_refl | destruct s; exact (fun h => h)]. Qed.
#[export] Hint Resolve Tr_set_sm_bind_saved : trdb.
Lemma Tr_set_bound_jid : forall v s0 s o, Tr s0 s o -> Tr s0 (set_bound_jid v s) o.
Proof. intros v s0 s o H; eapply Tr_state; [eassumption | apply Fr_set_bound_jid; apply Fr_refl | destruct s; exact (fun h => h)]. Qed.
#[export] Hint Resolve Tr_set_bound_jid : trdb.
Lemma Tr_set_stream_id : forall v s0 s o, Tr s0 s o -> Tr s0 (set_stream_id v s) o.
Proof. intros v s0 s o H; eapply Tr_state; [eassumption | apply Fr_set_stream_id; apply Fr_refl | destruct s; exact (fun h => h)]. Qed.
#[export] Hint Resolve Tr_set_stream_id : trdb.
Lemma Tr_set_oh : forall v s0 s o, Tr s0 s o -> Tr s0 (set_oh v s) o.
Proof. intros v s0 s o H; eapply Tr_state; [eassumption | apply Fr_set_oh; apply Fr_refl | destruct s; exact (fun h => h)]. Qed.
#[export] Hint Resolve Tr_set_oh : trdb.
Lemma Tr_set_ps : forall v s0 s o, Tr s0 s o -> Tr s0 (set_ps v s) o.
Proof. intros v s0 s o H; eapply Tr_state; [eassumption | apply Fr_set_ps; apply Fr_refl | destruct s; exact (fun h => h)]. Qed.
#[export] Hint Resolve Tr_set_ps : trdb.
Lemma Tr_set_handlers : forall v s0 s o, Tr s0 s o -> Tr s0 (set_handlers v s) o.
Proof. intros v s0 s o H; eapply Tr_state; [eassumption | apply Fr_set_handlers; apply Fr_refl | destruct s; exact (fun h => h)]. Qed.
#[export] Hint Resolve Tr_set_handlers : trdb.
Lemma Tr_set_idhandlers : forall v s0 s o, Tr s0 s o -> Tr s0 (set_idhandlers v s) o.
Proof. intros v s0 s o H; eapply Tr_state; [eassumption | apply Fr_set_idhandlers; apply Fr_refl | destruct s; exact (fun h => h)]. Qed.
#[export] Hint Resolve Tr_set_idhandlers : trdb.
Lemma Tr_set_timed : forall v s0 s o, Tr s0 s o -> Tr s0 (set_timed v s) o.
Proof. intros v s0 s o H; eapply Tr_state; [eassumption | apply Fr_set_timed; apply Fr_refl | destruct s; exact (fun h => h)]. Qed.
#[export] Hint Resolve Tr_set_timed : trdb.
Lemma Tr_set_rxq : forall v s0 s o, Tr s0 s o -> Tr s0 (set_rxq v s) o.
Proof. intros v s0 s o H; eapply Tr_state; [eassumption | apply Fr_set_rxq; apply Fr_refl | destruct s; exact (fun h => h)]. Qed.
#[export] Hint Resolve Tr_set_rxq : trdb.
Lemma Tr_set_smq : forall v s0 s o, Tr s0 s o -> Tr s0 (set_smq v s) o.
Proof. intros v s0 s o H; eapply Tr_state; [eassumption | apply Fr_set_smq; apply Fr_refl | destruct s; exact (fun h => h)]. Qed.
#[export] Hint Resolve Tr_set_smq : trdb.
Lemma Tr_set_sm_sent : forall v s0 s o, Tr s0 s o -> Tr s0 (set_sm_sent v s) o.
Proof. intros v s0 s o H; eapply Tr_state; [eassumption | apply Fr_set_sm_sent; apply Fr_refl | destruct s; exact (fun h => h)]. Qed.
#[export] Hint Resolve Tr_set_sm_sent : trdb.
Lemma Tr_set_scram_serial : forall v s0 s o, Tr s0 s o -> Tr s0 (set_scram_serial v s) o.
Proof. intros v s0 s o H; eapply Tr_state; [eassumption | apply Fr_set_scram_serial; apply Fr_refl | destruct s; exact (fun h => h)]. Qed.
#[export] Hint Resolve Tr_set_scram_serial : trdb.
Lemma Tr_set_crashed : forall v s0 s o, Tr s0 s o -> Tr s0 (set_crashed v s) o.
Proof. intros v s0 s o H; eapply Tr_state; [eassumption | apply Fr_set_crashed; apply Fr_refl | destruct s; exact (fun h => h)]. Qed.
#[export] Hint Resolve Tr_set_crashed : trdb.

(* non-benign setters *)
Lemma Tr_set_sendq_app : forall l s0 s o, Tr s0 s o -> Tr s0 (set_sendq (sendq s ++ l) s) o.
Proof. intros; eapply Tr_state; [eassumption | apply Fr_set_sendq_app; apply Fr_refl | destruct s; exact (fun h => h)]. Qed.
Lemma Tr_set_st_disc : forall s0 s o, Tr s0 s o -> Tr s0 (set_st Disconnected s) o.
Proof. intros; eapply Tr_state; [eassumption | apply Fr_set_st_disc; apply Fr_refl | destruct s; exact (fun h => h)]. Qed.
Lemma Tr_set_reset_true : forall s0 s o, Tr s0 s o -> Tr s0 (set_reset_parser true s) o.
Proof. intros; eapply Tr_state; [eassumption | apply Fr_set_reset_true; apply Fr_refl | destruct s; exact (fun h => h)]. Qed.
Lemma Tr_set_secured_true : forall s0 s o, Tr s0 s o -> Tr s0 (set_secured true s) o.
Proof. intros; eapply Tr_state; [eassumption | apply Fr_set_secured_true; apply Fr_refl | destruct s; exact (fun h => h)]. Qed.
Lemma Tr_upg : forall f s0 s o, GFr (gh s) (f (gh s)) -> Tr s0 s o -> Tr s0 (upg f s) o.
Proof. intros; eapply Tr_state; [eassumption | apply Fr_upg; [assumption | apply Fr_refl] | destruct s; exact (fun h => h)]. Qed.
Lemma Tr_set_neg_done_false : forall s0 s o, Tr s0 s o -> Tr s0 (set_neg_done false s) o.
Proof. intros; eapply Tr_state; [eassumption | destruct s; Fr_prim | destruct s; cbn; discriminate]. Qed.
#[export] Hint Resolve Tr_set_sendq_app Tr_set_st_disc Tr_set_reset_true Tr_set_secured_true Tr_upg Tr_set_neg_done_false : trdb.
#[export] Hint Resolve GFr_refl GFr_set_g_se_bad GFr_set_true_conn_unjust GFr_stream_start_upd : trdb.
#[export] Hint Extern 2 (Tr _ (set_neg_done true _) (_ ++ [_])) => (apply Tr_conn; [reflexivity | ]) : trdb.
Lemma nd_q_append : forall w u sm s, neg_done (q_append w u sm s) = neg_done s.
Proof. intros; unfold q_append; cases; reflexivity. Qed.
Lemma Tr_q_append : forall w u sm s0 s o, Tr s0 s o -> Tr s0 (q_append w u sm s) o.
Proof. intros; eapply Tr_state; [eassumption | apply Fr_q_append; apply Fr_refl | rewrite nd_q_append; auto]. Qed.
#[export] Hint Resolve Tr_q_append : trdb.
Lemma Tr_send_gated : forall w u sm s0 s o, Tr s0 s o -> Tr s0 (send_gated w u sm s) o.
Proof. intros; unfold send_gated, ret; cases; leaf; eauto 30 with trdb. Qed.
#[export] Hint Resolve Tr_send_gated : trdb.
Lemma Tr_send_raw_m : forall w u sm s0 s o, Tr s0 s o -> Tr s0 (send_raw_m w u sm s) o.
Proof. intros; unfold send_raw_m, ret; cases; leaf; eauto 30 with trdb. Qed.
#[export] Hint Resolve Tr_send_raw_m : trdb.
Lemma Tr_timed_add : forall k n s0 s o, Tr s0 s o -> Tr s0 (timed_add k n s) o.
Proof. intros; unfold timed_add, ret; cases; leaf; eauto 30 with trdb. Qed.
#[export] Hint Resolve Tr_timed_add : trdb.
Lemma Tr_timed_del : forall k s0 s o, Tr s0 s o -> Tr s0 (timed_del k s) o.
Proof. intros; unfold timed_del, ret; cases; leaf; eauto 30 with trdb. Qed.
#[export] Hint Resolve Tr_timed_del : trdb.
Lemma Tr_timed_reset_all : forall n s0 s o, Tr s0 s o -> Tr s0 (timed_reset_all n s) o.
Proof. intros; unfold timed_reset_all, ret; cases; leaf; eauto 30 with trdb. Qed.
#[export] Hint Resolve Tr_timed_reset_all : trdb.
Lemma Tr_timed_set_stamp : forall k n s0 s o, Tr s0 s o -> Tr s0 (timed_set_stamp k n s) o.
Proof. intros; unfold timed_set_stamp, ret; cases; leaf; eauto 30 with trdb. Qed.
#[export] Hint Resolve Tr_timed_set_stamp : trdb.
Lemma Tr_h_add : forall k s0 s o, Tr s0 s o -> Tr s0 (h_add k s) o.
Proof. intros; unfold h_add, ret; cases; leaf; eauto 30 with trdb. Qed.
#[export] Hint Resolve Tr_h_add : trdb.
Lemma Tr_h_del : forall k s0 s o, Tr s0 s o -> Tr s0 (h_del k s) o.
Proof. intros; unfold h_del, ret; cases; leaf; eauto 30 with trdb. Qed.
#[export] Hint Resolve Tr_h_del : trdb.
Lemma Tr_id_add : forall k s0 s o, Tr s0 s o -> Tr s0 (id_add k s) o.
Proof. intros; unfold id_add, ret; cases; leaf; eauto 30 with trdb. Qed.
#[export] Hint Resolve Tr_id_add : trdb.
Lemma Tr_id_del : forall k s0 s o, Tr s0 s o -> Tr s0 (id_del k s) o.
Proof. intros; unfold id_del, ret; cases; leaf; eauto 30 with trdb. Qed.
#[export] Hint Resolve Tr_id_del : trdb.
Lemma Tr_reset_sm_for_reconnect : forall s0 s o, Tr s0 s o -> Tr s0 (reset_sm_for_reconnect s) o.
Proof. intros; unfold reset_sm_for_reconnect, ret; cases; leaf; eauto 30 with trdb. Qed.
#[export] Hint Resolve Tr_reset_sm_for_reconnect : trdb.
Lemma Tr_sm_queue_cleanup : forall h s0 s o, Tr s0 s o -> Tr s0 (sm_queue_cleanup h s) o.
Proof. intros; unfold sm_queue_cleanup, ret; cases; leaf; eauto 30 with trdb. Qed.
#[export] Hint Resolve Tr_sm_queue_cleanup : trdb.
Lemma Tr_sm_queue_resend : forall s0 s o, Tr s0 s o -> Tr s0 (sm_queue_resend s) o.
Proof. intros; unfold sm_queue_resend. apply fold_left_inv; eauto with trdb. Qed.
#[export] Hint Resolve Tr_sm_queue_resend : trdb.
Lemma Tr_conn_disconnect : forall s0 s o, Tr s0 s o -> Tr s0 (fst (conn_disconnect s)) (o ++ (snd (conn_disconnect s))).
Proof. intros; name_result; unfold conn_disconnect, ret; cases; leaf; eauto 30 with trdb. Qed.
#[export] Hint Resolve Tr_conn_disconnect : trdb.
Lemma Tr_xmpp_disconnect : forall n s0 s o, Tr s0 s o -> Tr s0 (xmpp_disconnect n s) o.
Proof. intros; unfold xmpp_disconnect, ret; cases; leaf; eauto 30 with trdb. Qed.
#[export] Hint Resolve Tr_xmpp_disconnect : trdb.
Lemma Tr_prepare_reset : forall h s0 s o, Tr s0 s o -> Tr s0 (prepare_reset h s) o.
Proof. intros; unfold prepare_reset, ret; cases; leaf; eauto 30 with trdb. Qed.
#[export] Hint Resolve Tr_prepare_reset : trdb.
Lemma Tr_conn_open_stream : forall s0 s o, Tr s0 s o -> Tr s0 (conn_open_stream s) o.
Proof. intros; unfold conn_open_stream, ret; cases; leaf; eauto 30 with trdb. Qed.
#[export] Hint Resolve Tr_conn_open_stream : trdb.
Lemma Rst_open_reset : forall h s, Rst (conn_open_stream (prepare_reset h s)).
Proof.
  intros h s C. right; right. revert C.
  unfold conn_open_stream, send_gated, is_connected_owner, prepare_reset, q_append. sproj.
  destruct (st s) eqn:E; try (intros C; exfalso; revert C; sproj; congruence).
  cbn [negb orb]. cases; sproj; intros _; rewrite ?has_header_app; cbn; rewrite ?orb_true_r; auto.
Qed.
(* conn_tls_start: no general lemma (the restart obligation is discharged at its two call sites) *)
Lemma Tr_conn_tls_start_fail : forall s0 s o, Tr s0 s o -> snd (conn_tls_start s) = false ->
  Tr s0 (fst (fst (conn_tls_start s))) (o ++ snd (fst (conn_tls_start s))).
Proof. intros s0 s o H. name_result. unfold conn_tls_start. cases; leaf; try discriminate; eauto 30 with trdb. Qed.
Lemma Tr_conn_tls_start_ok : forall s0 s o, Tr s0 s o -> snd (conn_tls_start s) = true ->
  Tr s0 (fst (fst (conn_tls_start s))) o /\ snd (fst (conn_tls_start s)) = [OTlsStart true].
Proof. intros s0 s o H. name_result. unfold conn_tls_start. cases; leaf; try discriminate; split; eauto 30 with trdb. Qed.
Lemma Tr_stream_negotiation_success : forall s0 s o, Tr s0 s o -> Tr s0 (fst (stream_negotiation_success s)) (o ++ (snd (stream_negotiation_success s))).
Proof. intros; name_result; unfold stream_negotiation_success, ret; cases; leaf; eauto 30 with trdb. Qed.
#[export] Hint Resolve Tr_stream_negotiation_success : trdb.
Lemma Tr_do_bind : forall n b s0 s o, Tr s0 s o -> Tr s0 (fst (do_bind n b s)) (o ++ (snd (do_bind n b s))).
Proof. intros; name_result; unfold do_bind, ret; cases; leaf; eauto 30 with trdb. Qed.
#[export] Hint Resolve Tr_do_bind : trdb.
Lemma Tr_session_start : forall n s0 s o, Tr s0 s o -> Tr s0 (session_start n s) o.
Proof. intros; unfold session_start, ret; cases; leaf; eauto 30 with trdb. Qed.
#[export] Hint Resolve Tr_session_start : trdb.
Lemma Tr_sm_enable : forall s0 s o, Tr s0 s o -> Tr s0 (sm_enable s) o.
Proof. intros; unfold sm_enable, ret; cases; leaf; eauto 30 with trdb. Qed.
#[export] Hint Resolve Tr_sm_enable : trdb.
Lemma Tr_auth_legacy : forall n s0 s o, Tr s0 s o -> Tr s0 (auth_legacy n s) o.
Proof. intros; unfold auth_legacy, ret; cases; leaf; eauto 30 with trdb. Qed.
#[export] Hint Resolve Tr_auth_legacy : trdb.
Lemma Tr_auth : forall fuel n s0 s o, Tr s0 s o -> Tr s0 (fst (auth fuel n s)) (o ++ snd (auth fuel n s)).
Proof. induction fuel; intros; name_result; cbn [auth]; unfold ret; cases; leaf; eauto 30 with trdb. Qed.
#[export] Hint Resolve Tr_auth : trdb.
Lemma Tr_sasl_result : forall n e s0 s o, Tr s0 s o -> Tr s0 (fst (sasl_result n e s)) (o ++ (snd (sasl_result n e s))).
Proof. intros; name_result; unfold sasl_result, ret; cases; leaf; eauto 30 with trdb. Qed.
#[export] Hint Resolve Tr_sasl_result : trdb.
Lemma Tr_features_sasl : forall n e s0 s o, Tr s0 s o -> Tr s0 (fst (features_sasl n e s)) (o ++ (snd (features_sasl n e s))).
Proof. intros; name_result; unfold features_sasl, ret; cases; leaf; eauto 30 with trdb. Qed.
#[export] Hint Resolve Tr_features_sasl : trdb.
Lemma Tr_call_handler : forall k n e s0 s o, hkind_eqb k HUser && negb (neg_done s) = false ->
  Tr s0 s o -> Tr s0 (fst (fst (call_handler k n e s))) (o ++ snd (fst (call_handler k n e s))).
Proof.
  intros k; destruct k; intros n0 e s0 s o G H.
  1: { cbn in G. apply negb_false_iff in G. cbn. apply Tr_user_out; auto. }
  3: { (* HProceedTls *)
       name_result. unfold call_handler. cases; leaf; eauto 30 with trdb.
       - match goal with Hs : snd (conn_tls_start s) = true |- _ =>
           destruct (Tr_conn_tls_start_ok _ _ _ H Hs) as [T ->] end.
         apply Tr_tls; [apply Rst_open_reset | eauto 30 with trdb].
       - match goal with Hs : snd (conn_tls_start s) = false |- _ =>
           pose proof (Tr_conn_tls_start_fail _ _ _ H Hs) end. eauto 30 with trdb. }
  all: name_result; unfold call_handler, ret; cases; leaf; eauto 30 with trdb.
Qed.
#[export] Hint Resolve Tr_call_handler : trdb.
Lemma Tr_call_id_handler : forall k n e s0 s o, Tr s0 s o -> Tr s0 (fst (call_id_handler k n e s)) (o ++ (snd (call_id_handler k n e s))).
Proof. intros k; destruct k; intros; name_result; unfold call_id_handler, ret; cases; leaf; eauto 30 with trdb. Qed.
#[export] Hint Resolve Tr_call_id_handler : trdb.
Lemma Tr_note_rx : forall e s0 s o, Tr s0 s o -> Tr s0 (note_rx e s) o.
Proof. intros; eapply Tr_state; [eassumption | apply Fr_note_rx; apply Fr_refl | unfold note_rx; exact (fun h => h)]. Qed.
#[export] Hint Resolve Tr_note_rx : trdb.
Lemma Tr_visit : forall n e s0 p r k, Tr s0 (fst r) (p ++ snd r) -> Tr s0 (fst (visit n e r k)) (p ++ snd (visit n e r k)).
Proof.
  intros n e s0 p [s o] k H. cbn [fst snd] in H. name_result. unfold visit. cases; leaf; eauto 30 with trdb.
Qed.
Lemma Tr_fold_visit : forall n e l s0 p r, Tr s0 (fst r) (p ++ snd r) ->
  Tr s0 (fst (fold_left (visit n e) l r)) (p ++ snd (fold_left (visit n e) l r)).
Proof. intros n e l s0 p. apply (fold_left_inv (fun r => Tr s0 (fst r) (p ++ snd r))). intros; apply Tr_visit; auto. Qed.
Lemma Tr_fold_visit_pair : forall n e l s0 p s o, Tr s0 s (p ++ o) ->
  Tr s0 (fst (fold_left (visit n e) l (s, o))) (p ++ snd (fold_left (visit n e) l (s, o))).
Proof. intros; apply Tr_fold_visit; assumption. Qed.
#[export] Hint Resolve Tr_fold_visit_pair : trdb.
Lemma Tr_sm_handle : forall e s0 s o, Tr s0 s o -> Tr s0 (sm_handle e s) o.
Proof. intros; unfold sm_handle, ret; cases; leaf; eauto 30 with trdb. Qed.
#[export] Hint Resolve Tr_sm_handle : trdb.
Lemma Tr_dispatch : forall n e s0 s o, Tr s0 s o -> Tr s0 (fst (dispatch n e s)) (o ++ (snd (dispatch n e s))).
Proof. intros; name_result; unfold dispatch, ret; cases; leaf; eauto 30 with trdb. Qed.
#[export] Hint Resolve Tr_dispatch : trdb.
Lemma Tr_open_handler : forall n s0 s o, Tr s0 s o -> Tr s0 (fst (open_handler n s)) (o ++ (snd (open_handler n s))).
Proof. intros; name_result; unfold open_handler, ret; cases; leaf; eauto 30 with trdb. Qed.
#[export] Hint Resolve Tr_open_handler : trdb.
Lemma Tr_stream_start : forall n a b s0 s o, Tr s0 s o -> Tr s0 (fst (stream_start n a b s)) (o ++ (snd (stream_start n a b s))).
Proof. intros; name_result; unfold stream_start, ret; cases; leaf; eauto 30 with trdb. Qed.
#[export] Hint Resolve Tr_stream_start : trdb.
Lemma Tr_stream_end : forall s0 s o, Tr s0 s o -> Tr s0 (fst (stream_end s)) (o ++ (snd (stream_end s))).
Proof. intros; name_result; unfold stream_end, ret; cases; leaf; eauto 30 with trdb. Qed.
#[export] Hint Resolve Tr_stream_end : trdb.
Lemma Tr_feed_item : forall n it s0 s o, Tr s0 s o -> Tr s0 (fst (fst (feed_item n it s))) (o ++ (snd (fst (feed_item n it s)))).
Proof. intros; name_result; unfold feed_item, ret; cases; leaf; eauto 30 with trdb. Qed.
#[export] Hint Resolve Tr_feed_item : trdb.
Lemma Tr_feed_items : forall n its s0 s o, Tr s0 s o -> Tr s0 (fst (fst (feed_items n its s))) (o ++ snd (fst (feed_items n its s))).
Proof. induction its; intros; name_result; cbn [feed_items]; cases; leaf; eauto 30 with trdb. Qed.
#[export] Hint Resolve Tr_feed_items : trdb.
Lemma Tr_call_timed : forall k n s0 s o, tkind_eqb k TUser && negb (neg_done s) = false ->
  Tr s0 s o -> Tr s0 (fst (fst (call_timed k n s))) (o ++ snd (fst (call_timed k n s))).
Proof.
  intros k; destruct k; intros n0 s0 s o G H.
  1: { cbn in G. apply negb_false_iff in G. cbn. apply Tr_user_out; auto. }
  all: name_result; unfold call_timed, ret; cases; leaf; eauto 30 with trdb.
Qed.
#[export] Hint Resolve Tr_call_timed : trdb.
Lemma Tr_visit_timed : forall n s0 p r k, Tr s0 (fst r) (p ++ snd r) -> Tr s0 (fst (visit_timed n r k)) (p ++ snd (visit_timed n r k)).
Proof.
  intros n s0 p [s o] k H. cbn [fst snd] in H. name_result. unfold visit_timed. cases; leaf; eauto 30 with trdb.
Qed.
Lemma Tr_fold_visit_timed : forall n l s0 p r, Tr s0 (fst r) (p ++ snd r) ->
  Tr s0 (fst (fold_left (visit_timed n) l r)) (p ++ snd (fold_left (visit_timed n) l r)).
Proof. intros n l s0 p. apply (fold_left_inv (fun r => Tr s0 (fst r) (p ++ snd r))). intros; apply Tr_visit_timed; auto. Qed.
Lemma Tr_fold_visit_timed_pair : forall n l s0 p s o, Tr s0 s (p ++ o) ->
  Tr s0 (fst (fold_left (visit_timed n) l (s, o))) (p ++ snd (fold_left (visit_timed n) l (s, o))).
Proof. intros; apply Tr_fold_visit_timed; assumption. Qed.
#[export] Hint Resolve Tr_fold_visit_timed_pair : trdb.
Lemma Tr_fire_timed : forall n s0 s o, Tr s0 s o -> Tr s0 (fst (fire_timed n s)) (o ++ (snd (fire_timed n s))).
Proof. intros; name_result; unfold fire_timed, ret; cases; leaf; eauto 30 with trdb. Qed.
#[export] Hint Resolve Tr_fire_timed : trdb.
Lemma quiet_sock_connect : forall c, forallb quiet (fst (sock_connect c)) = true.
Proof.
  induction c as [|k c IH]; [reflexivity|]. destruct k; cbn [sock_connect]; try reflexivity.
  destruct (sock_connect c); cbn in *; auto.
Qed.
Lemma Tr_connect_next : forall n s0 s o, Tr s0 s o -> Tr s0 (fst (fst (connect_next n s))) (o ++ snd (fst (connect_next n s))).
Proof.
  intros. name_result. unfold connect_next. pose proof (quiet_sock_connect (cands s)) as Q.
  destruct (sock_connect (cands s)) as [oo [[k r]|]]; cbn [fst] in Q; leaf;
    (apply Tr_quiet; [eauto 30 with trdb | cbn; exact Q]).
Qed.
#[export] Hint Resolve Tr_connect_next : trdb.
Lemma Rst_legacy : forall s, f_legacy_ssl s = true -> Rst s.
Proof. intros s H _. right; left; exact H. Qed.
Lemma Tr_legacy : forall s0 s o s', Tr s0 s o -> Tr s0 s' o -> f_legacy_ssl s = true -> f_legacy_ssl s' = true.
Proof. intros s0 s o s' [] [] H. destruct tr_fr0, tr_fr1. congruence. Qed.
Lemma Tr_conn_established : forall n s0 s o, Tr s0 s o -> Tr s0 (fst (conn_established n s)) (o ++ snd (conn_established n s)).
Proof.
  intros n s0 s o H. name_result. unfold conn_established.
  destruct (f_legacy_ssl s && negb (is_raw s)) eqn:L.
  - apply andb_prop in L. destruct L as [L _].
    destruct (snd (conn_tls_start s)) eqn:OK.
    + destruct (Tr_conn_tls_start_ok _ _ _ H OK) as [T E].
      destruct (conn_tls_start s) as [[sa oa] ok]. cbn [fst snd] in *. subst ok oa. cbn [negb].
      cases; leaf.
      * apply Tr_assoc. apply Tr_conn; [reflexivity|].
        assert (T' : Tr s0 (timed_reset_all n sa) o) by eauto with trdb.
        apply Tr_tls; auto. apply Rst_legacy. exact (Tr_legacy _ _ _ _ H T' L).
      * assert (T' : Tr s0 (conn_open_stream sa) o) by eauto with trdb.
        apply Tr_tls; auto. apply Rst_legacy. exact (Tr_legacy _ _ _ _ H T' L).
    + pose proof (Tr_conn_tls_start_fail _ _ _ H OK) as T.
      destruct (conn_tls_start s) as [[sa oa] ok]. cbn [fst snd] in *. subst ok. cbn [negb].
      cases; leaf. eauto 30 with trdb.
  - cbn [negb]. cases; leaf; eauto 30 with trdb.
Qed.
#[export] Hint Resolve Tr_conn_established : trdb.

(* ================================================================== U2: nothing is queued while connecting *)
Definition U2 (s : state) : Prop := st s = Connecting -> sendq s = [].

Lemma U2_set_f_tls_disabled : forall v s, U2 s -> U2 (set_f_tls_disabled v s).
Proof. intros v []; exact (fun h => h). Qed.
#[export] Hint Resolve U2_set_f_tls_disabled : u2db.
Lemma U2_set_f_tls_mandatory : forall v s, U2 s -> U2 (set_f_tls_mandatory v s).
Proof. intros v []; exact (fun h => h). Qed.
#[export] Hint Resolve U2_set_f_tls_mandatory : u2db.
Lemma U2_set_f_legacy_ssl : forall v s, U2 s -> U2 (set_f_legacy_ssl v s).
Proof. intros v []; exact (fun h => h). Qed.
#[export] Hint Resolve U2_set_f_legacy_ssl : u2db.
Lemma U2_set_f_tls_trust : forall v s, U2 s -> U2 (set_f_tls_trust v s).
Proof. intros v []; exact (fun h => h). Qed.
#[export] Hint Resolve U2_set_f_tls_trust : u2db.
Lemma U2_set_f_legacy_auth : forall v s, U2 s -> U2 (set_f_legacy_auth v s).
Proof. intros v []; exact (fun h => h). Qed.
#[export] Hint Resolve U2_set_f_legacy_auth : u2db.
Lemma U2_set_f_sm_disable : forall v s, U2 s -> U2 (set_f_sm_disable v s).
Proof. intros v []; exact (fun h => h). Qed.
#[export] Hint Resolve U2_set_f_sm_disable : u2db.
Lemma U2_set_f_comp_allowed : forall v s, U2 s -> U2 (set_f_comp_allowed v s).
Proof. intros v []; exact (fun h => h). Qed.
#[export] Hint Resolve U2_set_f_comp_allowed : u2db.
Lemma U2_set_f_comp_dont_reset : forall v s, U2 s -> U2 (set_f_comp_dont_reset v s).
Proof. intros v []; exact (fun h => h). Qed.
#[export] Hint Resolve U2_set_f_comp_dont_reset : u2db.
Lemma U2_set_jid_set : forall v s, U2 s -> U2 (set_jid_set v s).
Proof. intros v []; exact (fun h => h). Qed.
#[export] Hint Resolve U2_set_jid_set : u2db.
Lemma U2_set_jid_node : forall v s, U2 s -> U2 (set_jid_node v s).
Proof. intros v []; exact (fun h => h). Qed.
#[export] Hint Resolve U2_set_jid_node : u2db.
Lemma U2_set_jid_res : forall v s, U2 s -> U2 (set_jid_res v s).
Proof. intros v []; exact (fun h => h). Qed.
#[export] Hint Resolve U2_set_jid_res : u2db.
Lemma U2_set_pass_set : forall v s, U2 s -> U2 (set_pass_set v s).
Proof. intros v []; exact (fun h => h). Qed.
#[export] Hint Resolve U2_set_pass_set : u2db.
Lemma U2_set_cert_set : forall v s, U2 s -> U2 (set_cert_set v s).
Proof. intros v []; exact (fun h => h). Qed.
#[export] Hint Resolve U2_set_cert_set : u2db.
Lemma U2_set_is_raw : forall v s, U2 s -> U2 (set_is_raw v s).
Proof. intros v []; exact (fun h => h). Qed.
#[export] Hint Resolve U2_set_is_raw : u2db.
Lemma U2_set_typ : forall v s, U2 s -> U2 (set_typ v s).
Proof. intros v []; exact (fun h => h). Qed.
#[export] Hint Resolve U2_set_typ : u2db.
Lemma U2_set_user_handler : forall v s, U2 s -> U2 (set_user_handler v s).
Proof. intros v []; exact (fun h => h). Qed.
#[export] Hint Resolve U2_set_user_handler : u2db.
Lemma U2_set_user_timed : forall v s, U2 s -> U2 (set_user_timed v s).
Proof. intros v []; exact (fun h => h). Qed.
#[export] Hint Resolve U2_set_user_timed : u2db.
Lemma U2_set_tlsnew_ok : forall v s, U2 s -> U2 (set_tlsnew_ok v s).
Proof. intros v []; exact (fun h => h). Qed.
#[export] Hint Resolve U2_set_tlsnew_ok : u2db.
Lemma U2_set_cb_avail : forall v s, U2 s -> U2 (set_cb_avail v s).
Proof. intros v []; exact (fun h => h). Qed.
#[export] Hint Resolve U2_set_cb_avail : u2db.
Lemma U2_set_tls_verdicts : forall v s, U2 s -> U2 (set_tls_verdicts v s).
Proof. intros v []; exact (fun h => h). Qed.
#[export] Hint Resolve U2_set_tls_verdicts : u2db.
Lemma U2_set_next_cands : forall v s, U2 s -> U2 (set_next_cands v s).
Proof. intros v []; exact (fun h => h). Qed.
#[export] Hint Resolve U2_set_next_cands : u2db.
Lemma U2_set_cands : forall v s, U2 s -> U2 (set_cands v s).
Proof. intros v []; exact (fun h => h). Qed.
#[export] Hint Resolve U2_set_cands : u2db.
Lemma U2_set_cur_ep : forall v s, U2 s -> U2 (set_cur_ep v s).
Proof. intros v []; exact (fun h => h). Qed.
#[export] Hint Resolve U2_set_cur_ep : u2db.
Lemma U2_set_stamp : forall v s, U2 s -> U2 (set_stamp v s).
Proof. intros v []; exact (fun h => h). Qed.
#[export] Hint Resolve U2_set_stamp : u2db.
Lemma U2_set_err : forall v s, U2 s -> U2 (set_err v s).
Proof. intros v []; exact (fun h => h). Qed.
#[export] Hint Resolve U2_set_err : u2db.
Lemma U2_set_stream_error : forall v s, U2 s -> U2 (set_stream_error v s).
Proof. intros v []; exact (fun h => h). Qed.
#[export] Hint Resolve U2_set_stream_error : u2db.
Lemma U2_set_secured : forall v s, U2 s -> U2 (set_secured v s).
Proof. intros v []; exact (fun h => h). Qed.
#[export] Hint Resolve U2_set_secured : u2db.
Lemma U2_set_tls_present : forall v s, U2 s -> U2 (set_tls_present v s).
Proof. intros v []; exact (fun h => h). Qed.
#[export] Hint Resolve U2_set_tls_present : u2db.
Lemma U2_set_tls_failed : forall v s, U2 s -> U2 (set_tls_failed v s).
Proof. intros v []; exact (fun h => h). Qed.
#[export] Hint Resolve U2_set_tls_failed : u2db.
Lemma U2_set_tls_support : forall v s, U2 s -> U2 (set_tls_support v s).
Proof. intros v []; exact (fun h => h). Qed.
#[export] Hint Resolve U2_set_tls_support : u2db.
Lemma U2_set_sasl : forall v s, U2 s -> U2 (set_sasl v s).
Proof. intros v []; exact (fun h => h). Qed.
#[export] Hint Resolve U2_set_sasl : u2db.
Lemma U2_set_bind_required : forall v s, U2 s -> U2 (set_bind_required v s).
Proof. intros v []; exact (fun h => h). Qed.
#[export] Hint Resolve U2_set_bind_required : u2db.
Lemma U2_set_session_required : forall v s, U2 s -> U2 (set_session_required v s).
Proof. intros v []; exact (fun h => h). Qed.
#[export] Hint Resolve U2_set_session_required : u2db.
Lemma U2_set_comp_supported : forall v s, U2 s -> U2 (set_comp_supported v s).
Proof. intros v []; exact (fun h => h). Qed.
#[export] Hint Resolve U2_set_comp_supported : u2db.
Lemma U2_set_comp_active : forall v s, U2 s -> U2 (set_comp_active v s).
Proof. intros v []; exact (fun h => h). Qed.
#[export] Hint Resolve U2_set_comp_active : u2db.
Lemma U2_set_sm_alloc : forall v s, U2 s -> U2 (set_sm_alloc v s).
Proof. intros v []; exact (fun h => h). Qed.
#[export] Hint Resolve U2_set_sm_alloc : u2db.
Lemma U2_set_sm_support : forall v s, U2 s -> U2 (set_sm_support v s).
Proof. intros v []; exact (fun h => h). Qed.
#[export] Hint Resolve U2_set_sm_support : u2db.
Lemma U2_set_sm_enabled : forall v s, U2 s -> U2 (set_sm_enabled v s).
Proof. intros v []; exact (fun h => h). Qed.
#[export] Hint Resolve U2_set_sm_enabled : u2db.
Lemma U2_set_sm_can_resume : forall v s, U2 s -> U2 (set_sm_can_resume v s).
Proof. intros v []; exact (fun h => h). Qed.
#[export] Hint Resolve U2_set_sm_can_resume : u2db.
Lemma U2_set_sm_resume : forall v s, U2 s -> U2 (set_sm_resume v s).
Proof. intros v []; exact (fun h => h). Qed.
#[export] Hint Resolve U2_set_sm_resume : u2db.
Lemma U2_set_sm_dont_request : forall v s, U2 s -> U2 (set_sm_dont_request v s).
Proof. intros v []; exact (fun h => h). Qed.
#[export] Hint Resolve U2_set_sm_dont_request : u2db.
Lemma U2_set_sm_has_previd : forall v s, U2 s -> U2 (set_sm_has_previd v s).
Proof. intros v []; exact (fun h => h). Qed.
#[export] Hint Resolve U2_set_sm_has_previd : u2db.
Lemma U2_set_sm_has_id : forall v s, U2 s -> U2 (set_sm_has_id v s).
Proof. intros v []; exact (fun h => h). Qed.
#[export] Hint Resolve U2_set_sm_has_id : u2db.
Lemma U2_set_sm_parked : forall v s, U2 s -> U2 (set_sm_parked v s).
Proof. intros v []; exact (fun h => h). Qed.
#[export] Hint Resolve U2_set_sm_parked : u2db.
Lemma U2_set_sm_r_sent : forall v s, U2 s -> U2 (set_sm_r_sent v s).
Proof. intros v []; exact (fun h => h). Qed.
#[export] Hint Resolve U2_set_sm_r_sent : u2db.
Lemma U2_set_sm_bind_saved : forall v s, U2 s -> U2 (set_sm_bind_saved v s).
Proof. intros v []; exact (fun h => h). Qed.
#[export] Hint Resolve U2_set_sm_bind_saved : u2db.
Lemma U2_set_bound_jid : forall v s, U2 s -> U2 (set_bound_jid v s).
Proof. intros v []; exact (fun h => h). Qed.
#[export] Hint Resolve U2_set_bound_jid : u2db.
Lemma U2_set_stream_id : forall v s, U2 s -> U2 (set_stream_id v s).
Proof. intros v []; exact (fun h => h). Qed.
#[export] Hint Resolve U2_set_stream_id : u2db.
Lemma U2_set_neg_done : forall v s, U2 s -> U2 (set_neg_done v s).
Proof. intros v []; exact (fun h => h). Qed.
#[export] Hint Resolve U2_set_neg_done : u2db.
Lemma U2_set_reset_parser : forall v s, U2 s -> U2 (set_reset_parser v s).
Proof. intros v []; exact (fun h => h). Qed.
#[export] Hint Resolve U2_set_reset_parser : u2db.
Lemma U2_set_oh : forall v s, U2 s -> U2 (set_oh v s).
Proof. intros v []; exact (fun h => h). Qed.
#[export] Hint Resolve U2_set_oh : u2db.
Lemma U2_set_ps : forall v s, U2 s -> U2 (set_ps v s).
Proof. intros v []; exact (fun h => h). Qed.
#[export] Hint Resolve U2_set_ps : u2db.
Lemma U2_set_handlers : forall v s, U2 s -> U2 (set_handlers v s).
Proof. intros v []; exact (fun h => h). Qed.
#[export] Hint Resolve U2_set_handlers : u2db.
Lemma U2_set_idhandlers : forall v s, U2 s -> U2 (set_idhandlers v s).
Proof. intros v []; exact (fun h => h). Qed.
#[export] Hint Resolve U2_set_idhandlers : u2db.
Lemma U2_set_timed : forall v s, U2 s -> U2 (set_timed v s).
Proof. intros v []; exact (fun h => h). Qed.
#[export] Hint Resolve U2_set_timed : u2db.
Lemma U2_set_rxq : forall v s, U2 s -> U2 (set_rxq v s).
Proof. intros v []; exact (fun h => h). Qed.
#[export] Hint Resolve U2_set_rxq : u2db.
Lemma U2_set_smq : forall v s, U2 s -> U2 (set_smq v s).
Proof. intros v []; exact (fun h => h). Qed.
#[export] Hint Resolve U2_set_smq : u2db.
Lemma U2_set_sm_sent : forall v s, U2 s -> U2 (set_sm_sent v s).
Proof. intros v []; exact (fun h => h). Qed.
#[export] Hint Resolve U2_set_sm_sent : u2db.
Lemma U2_set_scram_serial : forall v s, U2 s -> U2 (set_scram_serial v s).
Proof. intros v []; exact (fun h => h). Qed.
#[export] Hint Resolve U2_set_scram_serial : u2db.
Lemma U2_set_crashed : forall v s, U2 s -> U2 (set_crashed v s).
Proof. intros v []; exact (fun h => h). Qed.
#[export] Hint Resolve U2_set_crashed : u2db.
Lemma U2_set_gh : forall v s, U2 s -> U2 (set_gh v s).
Proof. intros v []; exact (fun h => h). Qed.
#[export] Hint Resolve U2_set_gh : u2db.
Lemma U2_set_st_disc : forall s, U2 (set_st Disconnected s).
Proof. intros [] C; cbn in C; discriminate. Qed.
Lemma U2_upg : forall f s, U2 s -> U2 (upg f s).
Proof. intros f []; exact (fun h => h). Qed.
#[export] Hint Resolve U2_set_st_disc U2_upg : u2db.
Lemma U2_q_append : forall w u sm s, st s <> Connecting -> U2 (q_append w u sm s).
Proof. intros w u sm s H C. exfalso; apply H. revert C. unfold q_append; cases; sproj; auto. Qed.
Lemma U2_send_gated : forall w u sm s, U2 s -> U2 (send_gated w u sm s).
Proof.
  intros w u sm s H. unfold send_gated, is_connected_owner. destruct (st s) eqn:E; auto.
  cases; auto. apply U2_q_append. congruence.
Qed.
#[export] Hint Resolve U2_send_gated : u2db.
Lemma U2_send_raw_m : forall w u sm s, U2 s -> U2 (send_raw_m w u sm s).
Proof. intros w u sm s H. unfold send_raw_m. destruct (st s) eqn:E; auto. apply U2_q_append. congruence. Qed.
#[export] Hint Resolve U2_send_raw_m : u2db.
Lemma U2_timed_add : forall k n s, U2 s -> U2 (timed_add k n s).
Proof. intros; unfold timed_add, ret; cases; leaf; eauto 30 with u2db. Qed.
#[export] Hint Resolve U2_timed_add : u2db.
Lemma U2_timed_del : forall k s, U2 s -> U2 (timed_del k s).
Proof. intros; unfold timed_del, ret; cases; leaf; eauto 30 with u2db. Qed.
#[export] Hint Resolve U2_timed_del : u2db.
Lemma U2_timed_reset_all : forall n s, U2 s -> U2 (timed_reset_all n s).
Proof. intros; unfold timed_reset_all, ret; cases; leaf; eauto 30 with u2db. Qed.
#[export] Hint Resolve U2_timed_reset_all : u2db.
Lemma U2_timed_set_stamp : forall k n s, U2 s -> U2 (timed_set_stamp k n s).
Proof. intros; unfold timed_set_stamp, ret; cases; leaf; eauto 30 with u2db. Qed.
#[export] Hint Resolve U2_timed_set_stamp : u2db.
Lemma U2_h_add : forall k s, U2 s -> U2 (h_add k s).
Proof. intros; unfold h_add, ret; cases; leaf; eauto 30 with u2db. Qed.
#[export] Hint Resolve U2_h_add : u2db.
Lemma U2_h_del : forall k s, U2 s -> U2 (h_del k s).
Proof. intros; unfold h_del, ret; cases; leaf; eauto 30 with u2db. Qed.
#[export] Hint Resolve U2_h_del : u2db.
Lemma U2_id_add : forall k s, U2 s -> U2 (id_add k s).
Proof. intros; unfold id_add, ret; cases; leaf; eauto 30 with u2db. Qed.
#[export] Hint Resolve U2_id_add : u2db.
Lemma U2_id_del : forall k s, U2 s -> U2 (id_del k s).
Proof. intros; unfold id_del, ret; cases; leaf; eauto 30 with u2db. Qed.
#[export] Hint Resolve U2_id_del : u2db.
Lemma U2_reset_sm_for_reconnect : forall s, U2 s -> U2 (reset_sm_for_reconnect s).
Proof. intros; unfold reset_sm_for_reconnect, ret; cases; leaf; eauto 30 with u2db. Qed.
#[export] Hint Resolve U2_reset_sm_for_reconnect : u2db.
Lemma U2_sm_queue_cleanup : forall h s, U2 s -> U2 (sm_queue_cleanup h s).
Proof. intros; unfold sm_queue_cleanup, ret; cases; leaf; eauto 30 with u2db. Qed.
#[export] Hint Resolve U2_sm_queue_cleanup : u2db.
Lemma U2_sm_queue_resend : forall s, U2 s -> U2 (sm_queue_resend s).
Proof. intros; unfold sm_queue_resend. apply fold_left_inv; eauto with u2db. Qed.
#[export] Hint Resolve U2_sm_queue_resend : u2db.
Lemma U2_conn_disconnect : forall s, U2 s -> U2 (fst (conn_disconnect s)).
Proof. intros; name_result; unfold conn_disconnect, ret; cases; leaf; eauto 30 with u2db. Qed.
#[export] Hint Resolve U2_conn_disconnect : u2db.
Lemma U2_xmpp_disconnect : forall n s, U2 s -> U2 (xmpp_disconnect n s).
Proof. intros; unfold xmpp_disconnect, ret; cases; leaf; eauto 30 with u2db. Qed.
#[export] Hint Resolve U2_xmpp_disconnect : u2db.
Lemma U2_prepare_reset : forall h s, U2 s -> U2 (prepare_reset h s).
Proof. intros; unfold prepare_reset, ret; cases; leaf; eauto 30 with u2db. Qed.
#[export] Hint Resolve U2_prepare_reset : u2db.
Lemma U2_conn_open_stream : forall s, U2 s -> U2 (conn_open_stream s).
Proof. intros; unfold conn_open_stream, ret; cases; leaf; eauto 30 with u2db. Qed.
#[export] Hint Resolve U2_conn_open_stream : u2db.
Lemma U2_conn_tls_start : forall s, U2 s -> U2 (fst (fst (conn_tls_start s))).
Proof. intros; name_result; unfold conn_tls_start, ret; cases; leaf; eauto 30 with u2db. Qed.
#[export] Hint Resolve U2_conn_tls_start : u2db.
Lemma U2_stream_negotiation_success : forall s, U2 s -> U2 (fst (stream_negotiation_success s)).
Proof. intros; name_result; unfold stream_negotiation_success, ret; cases; leaf; eauto 30 with u2db. Qed.
#[export] Hint Resolve U2_stream_negotiation_success : u2db.
Lemma U2_do_bind : forall n b s, U2 s -> U2 (fst (do_bind n b s)).
Proof. intros; name_result; unfold do_bind, ret; cases; leaf; eauto 30 with u2db. Qed.
#[export] Hint Resolve U2_do_bind : u2db.
Lemma U2_session_start : forall n s, U2 s -> U2 (session_start n s).
Proof. intros; unfold session_start, ret; cases; leaf; eauto 30 with u2db. Qed.
#[export] Hint Resolve U2_session_start : u2db.
Lemma U2_sm_enable : forall s, U2 s -> U2 (sm_enable s).
Proof. intros; unfold sm_enable, ret; cases; leaf; eauto 30 with u2db. Qed.
#[export] Hint Resolve U2_sm_enable : u2db.
Lemma U2_auth_legacy : forall n s, U2 s -> U2 (auth_legacy n s).
Proof. intros; unfold auth_legacy, ret; cases; leaf; eauto 30 with u2db. Qed.
#[export] Hint Resolve U2_auth_legacy : u2db.
Lemma U2_auth : forall fuel n s, U2 s -> U2 (fst (auth fuel n s)).
Proof. induction fuel; intros; name_result; cbn [auth]; unfold ret; cases; leaf; eauto 30 with u2db. Qed.
#[export] Hint Resolve U2_auth : u2db.
Lemma U2_sasl_result : forall n e s, U2 s -> U2 (fst (sasl_result n e s)).
Proof. intros; name_result; unfold sasl_result, ret; cases; leaf; eauto 30 with u2db. Qed.
#[export] Hint Resolve U2_sasl_result : u2db.
Lemma U2_features_sasl : forall n e s, U2 s -> U2 (fst (features_sasl n e s)).
Proof. intros; name_result; unfold features_sasl, ret; cases; leaf; eauto 30 with u2db. Qed.
#[export] Hint Resolve U2_features_sasl : u2db.
Lemma U2_call_handler : forall k n e s, U2 s -> U2 (fst (fst (call_handler k n e s))).
Proof. intros k; destruct k; intros; name_result; unfold call_handler, ret; cases; leaf; eauto 30 with u2db. Qed.
#[export] Hint Resolve U2_call_handler : u2db.
Lemma U2_call_id_handler : forall k n e s, U2 s -> U2 (fst (call_id_handler k n e s)).
Proof. intros k; destruct k; intros; name_result; unfold call_id_handler, ret; cases; leaf; eauto 30 with u2db. Qed.
#[export] Hint Resolve U2_call_id_handler : u2db.
Lemma U2_note_rx : forall e s, U2 s -> U2 (note_rx e s).
Proof. intros; unfold note_rx; cbv zeta; eauto with u2db. Qed.
#[export] Hint Resolve U2_note_rx : u2db.
Lemma U2_visit : forall n e r k, U2 (fst r) -> U2 (fst (visit n e r k)).
Proof. intros n e [s o] k H. cbn [fst] in H. name_result. unfold visit. cases; leaf; eauto 30 with u2db. Qed.
Lemma U2_fold_visit : forall n e l s o, U2 s -> U2 (fst (fold_left (visit n e) l (s, o))).
Proof. intros n e l s o H. apply (fold_left_inv (fun r => U2 (fst r))); auto. intros; apply U2_visit; auto. Qed.
#[export] Hint Resolve U2_fold_visit : u2db.
Lemma U2_sm_handle : forall e s, U2 s -> U2 (sm_handle e s).
Proof. intros; unfold sm_handle, ret; cases; leaf; eauto 30 with u2db. Qed.
#[export] Hint Resolve U2_sm_handle : u2db.
Lemma U2_dispatch : forall n e s, U2 s -> U2 (fst (dispatch n e s)).
Proof. intros; name_result; unfold dispatch, ret; cases; leaf; eauto 30 with u2db. Qed.
#[export] Hint Resolve U2_dispatch : u2db.
Lemma U2_open_handler : forall n s, U2 s -> U2 (fst (open_handler n s)).
Proof. intros; name_result; unfold open_handler, ret; cases; leaf; eauto 30 with u2db. Qed.
#[export] Hint Resolve U2_open_handler : u2db.
Lemma U2_stream_start : forall n a b s, U2 s -> U2 (fst (stream_start n a b s)).
Proof. intros; name_result; unfold stream_start, ret; cases; leaf; eauto 30 with u2db. Qed.
#[export] Hint Resolve U2_stream_start : u2db.
Lemma U2_stream_end : forall s, U2 s -> U2 (fst (stream_end s)).
Proof. intros; name_result; unfold stream_end, ret; cases; leaf; eauto 30 with u2db. Qed.
#[export] Hint Resolve U2_stream_end : u2db.
Lemma U2_feed_item : forall n it s, U2 s -> U2 (fst (fst (feed_item n it s))).
Proof. intros; name_result; unfold feed_item, ret; cases; leaf; eauto 30 with u2db. Qed.
#[export] Hint Resolve U2_feed_item : u2db.
Lemma U2_feed_items : forall n its s, U2 s -> U2 (fst (fst (feed_items n its s))).
Proof. induction its; intros; name_result; cbn [feed_items]; cases; leaf; eauto 30 with u2db. Qed.
#[export] Hint Resolve U2_feed_items : u2db.
Lemma U2_call_timed : forall k n s, U2 s -> U2 (fst (fst (call_timed k n s))).
Proof. intros k; destruct k; intros; name_result; unfold call_timed, ret; cases; leaf; eauto 30 with u2db. Qed.
#[export] Hint Resolve U2_call_timed : u2db.
Lemma U2_visit_timed : forall n r k, U2 (fst r) -> U2 (fst (visit_timed n r k)).
Proof. intros n [s o] k H. cbn [fst] in H. name_result. unfold visit_timed. cases; leaf; eauto 30 with u2db. Qed.
Lemma U2_fold_visit_timed : forall n l s o, U2 s -> U2 (fst (fold_left (visit_timed n) l (s, o))).
Proof. intros n l s o H. apply (fold_left_inv (fun r => U2 (fst r))); auto. intros; apply U2_visit_timed; auto. Qed.
#[export] Hint Resolve U2_fold_visit_timed : u2db.
Lemma U2_fire_timed : forall n s, U2 s -> U2 (fst (fire_timed n s)).
Proof. intros; name_result; unfold fire_timed, ret; cases; leaf; eauto 30 with u2db. Qed.
#[export] Hint Resolve U2_fire_timed : u2db.
Lemma U2_connect_next : forall n s, U2 s -> U2 (fst (fst (connect_next n s))).
Proof. intros; name_result; unfold connect_next, ret; cases; leaf; eauto 30 with u2db. Qed.
#[export] Hint Resolve U2_connect_next : u2db.
Lemma U2_conn_established : forall n s, U2 s -> U2 (fst (conn_established n s)).
Proof. intros; name_result; unfold conn_established, ret; cases; leaf; eauto 30 with u2db. Qed.
#[export] Hint Resolve U2_conn_established : u2db.

(* ================================================================== U1: a queued user stanza implies "connected" was reported *)
Definition is_wuser (w : welem) : bool := match w with WUser => true | _ => false end.
Definition has_user (q : list (welem * bool * bool)) : bool := existsb (fun x => is_wuser (fst (fst x))) q.
Definition U1 (s : state) : Prop := st s = Connected -> neg_done s = false -> has_user (sendq s) = false.

Lemma U1_set_f_tls_disabled : forall v s, U1 s -> U1 (set_f_tls_disabled v s).
Proof. intros v []; exact (fun h => h). Qed.
#[export] Hint Resolve U1_set_f_tls_disabled : u1db.
Lemma U1_set_f_tls_mandatory : forall v s, U1 s -> U1 (set_f_tls_mandatory v s).
Proof. intros v []; exact (fun h => h). Qed.
#[export] Hint Resolve U1_set_f_tls_mandatory : u1db.
Lemma U1_set_f_legacy_ssl : forall v s, U1 s -> U1 (set_f_legacy_ssl v s).
Proof. intros v []; exact (fun h => h). Qed.
#[export] Hint Resolve U1_set_f_legacy_ssl : u1db.
Lemma U1_set_f_tls_trust : forall v s, U1 s -> U1 (set_f_tls_trust v s).
Proof. intros v []; exact (fun h => h). Qed.
#[export] Hint Resolve U1_set_f_tls_trust : u1db.
Lemma U1_set_f_legacy_auth : forall v s, U1 s -> U1 (set_f_legacy_auth v s).
Proof. intros v []; exact (fun h => h). Qed.
#[export] Hint Resolve U1_set_f_legacy_auth : u1db.
Lemma U1_set_f_sm_disable : forall v s, U1 s -> U1 (set_f_sm_disable v s).
Proof. intros v []; exact (fun h => h). Qed.
#[export] Hint Resolve U1_set_f_sm_disable : u1db.
Lemma U1_set_f_comp_allowed : forall v s, U1 s -> U1 (set_f_comp_allowed v s).
Proof. intros v []; exact (fun h => h). Qed.
#[export] Hint Resolve U1_set_f_comp_allowed : u1db.
Lemma U1_set_f_comp_dont_reset : forall v s, U1 s -> U1 (set_f_comp_dont_reset v s).
Proof. intros v []; exact (fun h => h). Qed.
#[export] Hint Resolve U1_set_f_comp_dont_reset : u1db.
Lemma U1_set_jid_set : forall v s, U1 s -> U1 (set_jid_set v s).
Proof. intros v []; exact (fun h => h). Qed.
#[export] Hint Resolve U1_set_jid_set : u1db.
Lemma U1_set_jid_node : forall v s, U1 s -> U1 (set_jid_node v s).
Proof. intros v []; exact (fun h => h). Qed.
#[export] Hint Resolve U1_set_jid_node : u1db.
Lemma U1_set_jid_res : forall v s, U1 s -> U1 (set_jid_res v s).
Proof. intros v []; exact (fun h => h). Qed.
#[export] Hint Resolve U1_set_jid_res : u1db.
Lemma U1_set_pass_set : forall v s, U1 s -> U1 (set_pass_set v s).
Proof. intros v []; exact (fun h => h). Qed.
#[export] Hint Resolve U1_set_pass_set : u1db.
Lemma U1_set_cert_set : forall v s, U1 s -> U1 (set_cert_set v s).
Proof. intros v []; exact (fun h => h). Qed.
#[export] Hint Resolve U1_set_cert_set : u1db.
Lemma U1_set_is_raw : forall v s, U1 s -> U1 (set_is_raw v s).
Proof. intros v []; exact (fun h => h). Qed.
#[export] Hint Resolve U1_set_is_raw : u1db.
Lemma U1_set_typ : forall v s, U1 s -> U1 (set_typ v s).
Proof. intros v []; exact (fun h => h). Qed.
#[export] Hint Resolve U1_set_typ : u1db.
Lemma U1_set_user_handler : forall v s, U1 s -> U1 (set_user_handler v s).
Proof. intros v []; exact (fun h => h). Qed.
#[export] Hint Resolve U1_set_user_handler : u1db.
Lemma U1_set_user_timed : forall v s, U1 s -> U1 (set_user_timed v s).
Proof. intros v []; exact (fun h => h). Qed.
#[export] Hint Resolve U1_set_user_timed : u1db.
Lemma U1_set_tlsnew_ok : forall v s, U1 s -> U1 (set_tlsnew_ok v s).
Proof. intros v []; exact (fun h => h). Qed.
#[export] Hint Resolve U1_set_tlsnew_ok : u1db.
Lemma U1_set_cb_avail : forall v s, U1 s -> U1 (set_cb_avail v s).
Proof. intros v []; exact (fun h => h). Qed.
#[export] Hint Resolve U1_set_cb_avail : u1db.
Lemma U1_set_tls_verdicts : forall v s, U1 s -> U1 (set_tls_verdicts v s).
Proof. intros v []; exact (fun h => h). Qed.
#[export] Hint Resolve U1_set_tls_verdicts : u1db.
Lemma U1_set_next_cands : forall v s, U1 s -> U1 (set_next_cands v s).
Proof. intros v []; exact (fun h => h). Qed.
#[export] Hint Resolve U1_set_next_cands : u1db.
Lemma U1_set_cands : forall v s, U1 s -> U1 (set_cands v s).
Proof. intros v []; exact (fun h => h). Qed.
#[export] Hint Resolve U1_set_cands : u1db.
Lemma U1_set_cur_ep : forall v s, U1 s -> U1 (set_cur_ep v s).
Proof. intros v []; exact (fun h => h). Qed.
#[export] Hint Resolve U1_set_cur_ep : u1db.
Lemma U1_set_stamp : forall v s, U1 s -> U1 (set_stamp v s).
Proof. intros v []; exact (fun h => h). Qed.
#[export] Hint Resolve U1_set_stamp : u1db.
Lemma U1_set_err : forall v s, U1 s -> U1 (set_err v s).
Proof. intros v []; exact (fun h => h). Qed.
#[export] Hint Resolve U1_set_err : u1db.
Lemma U1_set_stream_error : forall v s, U1 s -> U1 (set_stream_error v s).
Proof. intros v []; exact (fun h => h). Qed.
#[export] Hint Resolve U1_set_stream_error : u1db.
Lemma U1_set_secured : forall v s, U1 s -> U1 (set_secured v s).
Proof. intros v []; exact (fun h => h). Qed.
#[export] Hint Resolve U1_set_secured : u1db.
Lemma U1_set_tls_present : forall v s, U1 s -> U1 (set_tls_present v s).
Proof. intros v []; exact (fun h => h). Qed.
#[export] Hint Resolve U1_set_tls_present : u1db.
Lemma U1_set_tls_failed : forall v s, U1 s -> U1 (set_tls_failed v s).
Proof. intros v []; exact (fun h => h). Qed.
#[export] Hint Resolve U1_set_tls_failed : u1db.
Lemma U1_set_tls_support : forall v s, U1 s -> U1 (set_tls_support v s).
Proof. intros v []; exact (fun h => h). Qed.
#[export] Hint Resolve U1_set_tls_support : u1db.
Lemma U1_set_sasl : forall v s, U1 s -> U1 (set_sasl v s).
Proof. intros v []; exact (fun h => h). Qed.
#[export] Hint Resolve U1_set_sasl : u1db.
Lemma U1_set_bind_required : forall v s, U1 s -> U1 (set_bind_required v s).
Proof. intros v []; exact (fun h => h). Qed.
#[export] Hint Resolve U1_set_bind_required : u1db.
Lemma U1_set_session_required : forall v s, U1 s -> U1 (set_session_required v s).
Proof. intros v []; exact (fun h => h). Qed.
#[export] Hint Resolve U1_set_session_required : u1db.
Lemma U1_set_comp_supported : forall v s, U1 s -> U1 (set_comp_supported v s).
Proof. intros v []; exact (fun h => h). Qed.
#[export] Hint Resolve U1_set_comp_supported : u1db.
Lemma U1_set_comp_active : forall v s, U1 s -> U1 (set_comp_active v s).
Proof. intros v []; exact (fun h => h). Qed.
#[export] Hint Resolve U1_set_comp_active : u1db.
Lemma U1_set_sm_alloc : forall v s, U1 s -> U1 (set_sm_alloc v s).
Proof. intros v []; exact (fun h => h). Qed.
#[export] Hint Resolve U1_set_sm_alloc : u1db.
Lemma U1_set_sm_support : forall v s, U1 s -> U1 (set_sm_support v s).
Proof. intros v []; exact (fun h => h). Qed.
#[export] Hint Resolve U1_set_sm_support : u1db.
Lemma U1_set_sm_enabled : forall v s, U1 s -> U1 (set_sm_enabled v s).
Proof. intros v []; exact (fun h => h). Qed.
#[export] Hint Resolve U1_set_sm_enabled : u1db.
Lemma U1_set_sm_can_resume : forall v s, U1 s -> U1 (set_sm_can_resume v s).
Proof. intros v []; exact (fun h => h). Qed.
#[export] Hint Resolve U1_set_sm_can_resume : u1db.
Lemma U1_set_sm_resume : forall v s, U1 s -> U1 (set_sm_resume v s).
Proof. intros v []; exact (fun h => h). Qed.
#[export] Hint Resolve U1_set_sm_resume : u1db.
Lemma U1_set_sm_dont_request : forall v s, U1 s -> U1 (set_sm_dont_request v s).
Proof. intros v []; exact (fun h => h). Qed.
#[export] Hint Resolve U1_set_sm_dont_request : u1db.
Lemma U1_set_sm_has_previd : forall v s, U1 s -> U1 (set_sm_has_previd v s).
Proof. intros v []; exact (fun h => h). Qed.
#[export] Hint Resolve U1_set_sm_has_previd : u1db.
Lemma U1_set_sm_has_id : forall v s, U1 s -> U1 (set_sm_has_id v s).
Proof. intros v []; exact (fun h => h). Qed.
#[export] Hint Resolve U1_set_sm_has_id : u1db.
Lemma U1_set_sm_parked : forall v s, U1 s -> U1 (set_sm_parked v s).
Proof. intros v []; exact (fun h => h). Qed.
#[export] Hint Resolve U1_set_sm_parked : u1db.
Lemma U1_set_sm_r_sent : forall v s, U1 s -> U1 (set_sm_r_sent v s).
Proof. intros v []; exact (fun h => h). Qed.
#[export] Hint Resolve U1_set_sm_r_sent : u1db.
Lemma U1_set_sm_bind_saved : forall v s, U1 s -> U1 (set_sm_bind_saved v s).
Proof. intros v []; exact (fun h => h). Qed.
#[export] Hint Resolve U1_set_sm_bind_saved : u1db.
Lemma U1_set_bound_jid : forall v s, U1 s -> U1 (set_bound_jid v s).
Proof. intros v []; exact (fun h => h). Qed.
#[export] Hint Resolve U1_set_bound_jid : u1db.
Lemma U1_set_stream_id : forall v s, U1 s -> U1 (set_stream_id v s).
Proof. intros v []; exact (fun h => h). Qed.
#[export] Hint Resolve U1_set_stream_id : u1db.
Lemma U1_set_reset_parser : forall v s, U1 s -> U1 (set_reset_parser v s).
Proof. intros v []; exact (fun h => h). Qed.
#[export] Hint Resolve U1_set_reset_parser : u1db.
Lemma U1_set_oh : forall v s, U1 s -> U1 (set_oh v s).
Proof. intros v []; exact (fun h => h). Qed.
#[export] Hint Resolve U1_set_oh : u1db.
Lemma U1_set_ps : forall v s, U1 s -> U1 (set_ps v s).
Proof. intros v []; exact (fun h => h). Qed.
#[export] Hint Resolve U1_set_ps : u1db.
Lemma U1_set_handlers : forall v s, U1 s -> U1 (set_handlers v s).
Proof. intros v []; exact (fun h => h). Qed.
#[export] Hint Resolve U1_set_handlers : u1db.
Lemma U1_set_idhandlers : forall v s, U1 s -> U1 (set_idhandlers v s).
Proof. intros v []; exact (fun h => h). Qed.
#[export] Hint Resolve U1_set_idhandlers : u1db.
Lemma U1_set_timed : forall v s, U1 s -> U1 (set_timed v s).
Proof. intros v []; exact (fun h => h). Qed.
#[export] Hint Resolve U1_set_timed : u1db.
Lemma U1_set_rxq : forall v s, U1 s -> U1 (set_rxq v s).
Proof. intros v []; exact (fun h => h). Qed.
#[export] Hint Resolve U1_set_rxq : u1db.
Lemma U1_set_smq : forall v s, U1 s -> U1 (set_smq v s).
Proof. intros v []; exact (fun h => h). Qed.
#[export] Hint Resolve U1_set_smq : u1db.
Lemma U1_set_sm_sent : forall v s, U1 s -> U1 (set_sm_sent v s).
Proof. intros v []; exact (fun h => h). Qed.
#[export] Hint Resolve U1_set_sm_sent : u1db.
Lemma U1_set_scram_serial : forall v s, U1 s -> U1 (set_scram_serial v s).
Proof. intros v []; exact (fun h => h). Qed.
#[export] Hint Resolve U1_set_scram_serial : u1db.
Lemma U1_set_crashed : forall v s, U1 s -> U1 (set_crashed v s).
Proof. intros v []; exact (fun h => h). Qed.
#[export] Hint Resolve U1_set_crashed : u1db.
Lemma U1_set_gh : forall v s, U1 s -> U1 (set_gh v s).
Proof. intros v []; exact (fun h => h). Qed.
#[export] Hint Resolve U1_set_gh : u1db.
Lemma U1_set_st_disc : forall s, U1 (set_st Disconnected s).
Proof. intros [] C; cbn in C; discriminate. Qed.
Lemma U1_set_neg_done_disc : forall s, U1 (set_neg_done false (set_st Disconnected s)).
Proof. intros [] C; cbn in C; discriminate. Qed.
Lemma U1_set_neg_done_true : forall s, U1 (set_neg_done true s).
Proof. intros [] C N; cbn in N; discriminate. Qed.
Lemma U1_upg : forall f s, U1 s -> U1 (upg f s).
Proof. intros f []; exact (fun h => h). Qed.
#[export] Hint Resolve U1_set_st_disc U1_set_neg_done_disc U1_set_neg_done_true U1_upg : u1db.
Lemma has_user_app : forall a b, has_user (a ++ b) = has_user a || has_user b.
Proof. intros; unfold has_user; apply existsb_app. Qed.
Lemma U1_q_append : forall w u sm s, (is_wuser w = true -> neg_done s = true) -> U1 s -> U1 (q_append w u sm s).
Proof.
  intros w u sm s Hw H. unfold q_append, U1 in *. cases; sproj; intros C N; rewrite ?has_user_app, (H C N); cbn;
    destruct (is_wuser w) eqn:W; auto; rewrite Hw in N; auto; discriminate.
Qed.
Lemma U1_send_gated : forall w u sm s, is_wuser w = false \/ u = true -> U1 s -> U1 (send_gated w u sm s).
Proof.
  intros w u sm s Hw H. unfold send_gated. destruct (is_connected_owner s u) eqn:E; auto.
  apply U1_q_append; auto. intros W. destruct Hw as [Hw|Hw]; [congruence|]. subst u.
  unfold is_connected_owner in E. destruct (st s); try discriminate. exact E.
Qed.
#[export] Hint Extern 1 (U1 (send_gated _ _ _ _)) => (apply U1_send_gated; [first [left; reflexivity | right; reflexivity] | ]) : u1db.
Lemma U1_send_raw_m : forall w u sm s, is_wuser w = false -> U1 s -> U1 (send_raw_m w u sm s).
Proof. intros w u sm s Hw H. unfold send_raw_m. destruct (st s); auto. apply U1_q_append; auto. congruence. Qed.
#[export] Hint Extern 1 (U1 (send_raw_m _ _ _ _)) => (apply U1_send_raw_m; [reflexivity | ]) : u1db.
Lemma U1_timed_add : forall k n s, U1 s -> U1 (timed_add k n s).
Proof. intros; unfold timed_add, ret; cases; leaf; eauto 30 with u1db. Qed.
#[export] Hint Resolve U1_timed_add : u1db.
Lemma U1_timed_del : forall k s, U1 s -> U1 (timed_del k s).
Proof. intros; unfold timed_del, ret; cases; leaf; eauto 30 with u1db. Qed.
#[export] Hint Resolve U1_timed_del : u1db.
Lemma U1_timed_reset_all : forall n s, U1 s -> U1 (timed_reset_all n s).
Proof. intros; unfold timed_reset_all, ret; cases; leaf; eauto 30 with u1db. Qed.
#[export] Hint Resolve U1_timed_reset_all : u1db.
Lemma U1_timed_set_stamp : forall k n s, U1 s -> U1 (timed_set_stamp k n s).
Proof. intros; unfold timed_set_stamp, ret; cases; leaf; eauto 30 with u1db. Qed.
#[export] Hint Resolve U1_timed_set_stamp : u1db.
Lemma U1_h_add : forall k s, U1 s -> U1 (h_add k s).
Proof. intros; unfold h_add, ret; cases; leaf; eauto 30 with u1db. Qed.
#[export] Hint Resolve U1_h_add : u1db.
Lemma U1_h_del : forall k s, U1 s -> U1 (h_del k s).
Proof. intros; unfold h_del, ret; cases; leaf; eauto 30 with u1db. Qed.
#[export] Hint Resolve U1_h_del : u1db.
Lemma U1_id_add : forall k s, U1 s -> U1 (id_add k s).
Proof. intros; unfold id_add, ret; cases; leaf; eauto 30 with u1db. Qed.
#[export] Hint Resolve U1_id_add : u1db.
Lemma U1_id_del : forall k s, U1 s -> U1 (id_del k s).
Proof. intros; unfold id_del, ret; cases; leaf; eauto 30 with u1db. Qed.
#[export] Hint Resolve U1_id_del : u1db.
Lemma U1_reset_sm_for_reconnect : forall s, U1 s -> U1 (reset_sm_for_reconnect s).
Proof. intros; unfold reset_sm_for_reconnect, ret; cases; leaf; eauto 30 with u1db. Qed.
#[export] Hint Resolve U1_reset_sm_for_reconnect : u1db.
Lemma U1_sm_queue_cleanup : forall h s, U1 s -> U1 (sm_queue_cleanup h s).
Proof. intros; unfold sm_queue_cleanup, ret; cases; leaf; eauto 30 with u1db. Qed.
#[export] Hint Resolve U1_sm_queue_cleanup : u1db.
(* sm_queue_resend re-queues retained user stanzas: U1 is re-established by the
   stream_negotiation_success that always follows it (U1_stream_negotiation_success is unconditional) *)
Lemma U1_conn_disconnect : forall s, U1 s -> U1 (fst (conn_disconnect s)).
Proof. intros; name_result; unfold conn_disconnect, ret; cases; leaf; eauto 30 with u1db. Qed.
#[export] Hint Resolve U1_conn_disconnect : u1db.
Lemma U1_xmpp_disconnect : forall n s, U1 s -> U1 (xmpp_disconnect n s).
Proof. intros; unfold xmpp_disconnect, ret; cases; leaf; eauto 30 with u1db. Qed.
#[export] Hint Resolve U1_xmpp_disconnect : u1db.
Lemma U1_prepare_reset : forall h s, U1 s -> U1 (prepare_reset h s).
Proof. intros; unfold prepare_reset, ret; cases; leaf; eauto 30 with u1db. Qed.
#[export] Hint Resolve U1_prepare_reset : u1db.
Lemma U1_conn_open_stream : forall s, U1 s -> U1 (conn_open_stream s).
Proof. intros; unfold conn_open_stream, ret; cases; leaf; eauto 30 with u1db. Qed.
#[export] Hint Resolve U1_conn_open_stream : u1db.
Lemma U1_conn_tls_start : forall s, U1 s -> U1 (fst (fst (conn_tls_start s))).
Proof. intros; name_result; unfold conn_tls_start, ret; cases; leaf; eauto 30 with u1db. Qed.
#[export] Hint Resolve U1_conn_tls_start : u1db.
Lemma U1_stream_negotiation_success : forall s, U1 (fst (stream_negotiation_success s)).
Proof.
  intros s. unfold stream_negotiation_success, ret. destruct (negb (is_raw s) && neg_done s) eqn:E; cbn [fst].
  - apply andb_prop in E. destruct E as [_ E]. intros _ N. congruence.
  - cases; intros C N; revert N; sproj; discriminate.
Qed.
#[export] Hint Resolve U1_stream_negotiation_success : u1db.
Lemma U1_do_bind : forall n b s, U1 s -> U1 (fst (do_bind n b s)).
Proof. intros; name_result; unfold do_bind, ret; cases; leaf; eauto 30 with u1db. Qed.
#[export] Hint Resolve U1_do_bind : u1db.
Lemma U1_session_start : forall n s, U1 s -> U1 (session_start n s).
Proof. intros; unfold session_start, ret; cases; leaf; eauto 30 with u1db. Qed.
#[export] Hint Resolve U1_session_start : u1db.
Lemma U1_sm_enable : forall s, U1 s -> U1 (sm_enable s).
Proof. intros; unfold sm_enable, ret; cases; leaf; eauto 30 with u1db. Qed.
#[export] Hint Resolve U1_sm_enable : u1db.
Lemma U1_auth_legacy : forall n s, U1 s -> U1 (auth_legacy n s).
Proof. intros; unfold auth_legacy, ret; cases; leaf; eauto 30 with u1db. Qed.
#[export] Hint Resolve U1_auth_legacy : u1db.
Lemma U1_auth : forall fuel n s, U1 s -> U1 (fst (auth fuel n s)).
Proof. induction fuel; intros; name_result; cbn [auth]; unfold ret; cases; leaf; eauto 30 with u1db. Qed.
#[export] Hint Resolve U1_auth : u1db.
Lemma U1_sasl_result : forall n e s, U1 s -> U1 (fst (sasl_result n e s)).
Proof. intros; name_result; unfold sasl_result, ret; cases; leaf; eauto 30 with u1db. Qed.
#[export] Hint Resolve U1_sasl_result : u1db.
Lemma U1_features_sasl : forall n e s, U1 s -> U1 (fst (features_sasl n e s)).
Proof. intros; name_result; unfold features_sasl, ret; cases; leaf; eauto 30 with u1db. Qed.
#[export] Hint Resolve U1_features_sasl : u1db.
Lemma U1_call_handler : forall k n e s, U1 s -> U1 (fst (fst (call_handler k n e s))).
Proof. intros k; destruct k; intros; name_result; unfold call_handler, ret; cases; leaf; eauto 30 with u1db. Qed.
#[export] Hint Resolve U1_call_handler : u1db.
Lemma U1_call_id_handler : forall k n e s, U1 s -> U1 (fst (call_id_handler k n e s)).
Proof. intros k; destruct k; intros; name_result; unfold call_id_handler, ret; cases; leaf; eauto 30 with u1db. Qed.
#[export] Hint Resolve U1_call_id_handler : u1db.
Lemma U1_note_rx : forall e s, U1 s -> U1 (note_rx e s).
Proof. intros; unfold note_rx; cbv zeta; eauto with u1db. Qed.
#[export] Hint Resolve U1_note_rx : u1db.
Lemma U1_visit : forall n e r k, U1 (fst r) -> U1 (fst (visit n e r k)).
Proof. intros n e [s o] k H. cbn [fst] in H. name_result. unfold visit. cases; leaf; eauto 30 with u1db. Qed.
Lemma U1_fold_visit : forall n e l s o, U1 s -> U1 (fst (fold_left (visit n e) l (s, o))).
Proof. intros n e l s o H. apply (fold_left_inv (fun r => U1 (fst r))); auto. intros; apply U1_visit; auto. Qed.
#[export] Hint Resolve U1_fold_visit : u1db.
Lemma U1_sm_handle : forall e s, U1 s -> U1 (sm_handle e s).
Proof. intros; unfold sm_handle, ret; cases; leaf; eauto 30 with u1db. Qed.
#[export] Hint Resolve U1_sm_handle : u1db.
Lemma U1_dispatch : forall n e s, U1 s -> U1 (fst (dispatch n e s)).
Proof. intros; name_result; unfold dispatch, ret; cases; leaf; eauto 30 with u1db. Qed.
#[export] Hint Resolve U1_dispatch : u1db.
Lemma U1_open_handler : forall n s, U1 s -> U1 (fst (open_handler n s)).
Proof. intros; name_result; unfold open_handler, ret; cases; leaf; eauto 30 with u1db. Qed.
#[export] Hint Resolve U1_open_handler : u1db.
Lemma U1_stream_start : forall n a b s, U1 s -> U1 (fst (stream_start n a b s)).
Proof. intros; name_result; unfold stream_start, ret; cases; leaf; eauto 30 with u1db. Qed.
#[export] Hint Resolve U1_stream_start : u1db.
Lemma U1_stream_end : forall s, U1 s -> U1 (fst (stream_end s)).
Proof. intros; name_result; unfold stream_end, ret; cases; leaf; eauto 30 with u1db. Qed.
#[export] Hint Resolve U1_stream_end : u1db.
Lemma U1_feed_item : forall n it s, U1 s -> U1 (fst (fst (feed_item n it s))).
Proof. intros; name_result; unfold feed_item, ret; cases; leaf; eauto 30 with u1db. Qed.
#[export] Hint Resolve U1_feed_item : u1db.
Lemma U1_feed_items : forall n its s, U1 s -> U1 (fst (fst (feed_items n its s))).
Proof. induction its; intros; name_result; cbn [feed_items]; cases; leaf; eauto 30 with u1db. Qed.
#[export] Hint Resolve U1_feed_items : u1db.
Lemma U1_call_timed : forall k n s, U1 s -> U1 (fst (fst (call_timed k n s))).
Proof. intros k; destruct k; intros; name_result; unfold call_timed, ret; cases; leaf; eauto 30 with u1db. Qed.
#[export] Hint Resolve U1_call_timed : u1db.
Lemma U1_visit_timed : forall n r k, U1 (fst r) -> U1 (fst (visit_timed n r k)).
Proof. intros n [s o] k H. cbn [fst] in H. name_result. unfold visit_timed. cases; leaf; eauto 30 with u1db. Qed.
Lemma U1_fold_visit_timed : forall n l s o, U1 s -> U1 (fst (fold_left (visit_timed n) l (s, o))).
Proof. intros n l s o H. apply (fold_left_inv (fun r => U1 (fst r))); auto. intros; apply U1_visit_timed; auto. Qed.
#[export] Hint Resolve U1_fold_visit_timed : u1db.
Lemma U1_fire_timed : forall n s, U1 s -> U1 (fst (fire_timed n s)).
Proof. intros; name_result; unfold fire_timed, ret; cases; leaf; eauto 30 with u1db. Qed.
#[export] Hint Resolve U1_fire_timed : u1db.
Lemma U1_connect_next : forall n s, U1 s -> U1 (fst (fst (connect_next n s))).
Proof. intros; name_result; unfold connect_next, ret; cases; leaf; eauto 30 with u1db. Qed.
#[export] Hint Resolve U1_connect_next : u1db.
Lemma U1_conn_established : forall n s, U1 s -> U1 (fst (conn_established n s)).
Proof. intros; name_result; unfold conn_established, ret; cases; leaf; eauto 30 with u1db. Qed.
#[export] Hint Resolve U1_conn_established : u1db.

Lemma Tr_ph_watch : forall n s0 s o, Tr s0 s o -> Tr s0 (fst (ph_watch n s)) (o ++ snd (ph_watch n s)).
Proof. intros; name_result; unfold ph_watch, ret; cases; leaf; eauto 30 with trdb. Qed.
(* the read/connect phase: Tr from its start state, or - when the TCP connect completes - from that
   state marked Connected *)
Lemma Tr_ph_io : forall n s0 s o, Tr s0 s o ->
  (st s = Connecting /\ cur_ep s = EpAccept /\ ph_io n s = conn_established n (set_st Connected s)) \/
  Tr s0 (fst (ph_io n s)) (o ++ snd (ph_io n s)).
Proof.
  intros n s0 s o H. unfold ph_io. destruct (st s) eqn:E.
  - right. cbn. eauto with trdb.
  - destruct (cur_ep s) eqn:E2; [left; auto | right; cbn; eauto with trdb | right | right; cbn; eauto with trdb].
    name_result; cases; leaf; eauto 30 with trdb.
  - right. name_result; unfold ret; cases; leaf; eauto 30 with trdb.
Qed.

(* ================================================================== C03: ok_restart *)
(* phases before the read phase never start TLS *)
Definition nt (o : out) : bool := negb (is_tls o).
Lemma nt_tls_out : forall o, forallb nt o = true -> tls_out o = false.
Proof.
  induction o as [|x o IH]; [reflexivity|]. cbn [forallb]. intros H. apply andb_prop in H. destruct H as [A B].
  unfold tls_out; cbn [existsb]. unfold nt in A. apply negb_true_iff in A. rewrite A. exact (IH B).
Qed.
Ltac nt_fin := cbn [fst snd]; rewrite ?forallb_app; repeat match goal with H : forallb nt _ = true |- _ => rewrite H end; try reflexivity.
Lemma nt_conn_disconnect : forall s, forallb nt (snd (conn_disconnect s)) = true.
Proof. intros; name_result; unfold conn_disconnect, ret; cases; leaf; reflexivity. Qed.
Lemma nt_auth : forall fuel n s, forallb nt (snd (auth fuel n s)) = true.
Proof.
  induction fuel; intros; name_result; cbn [auth]; unfold ret; cases; leaf; try reflexivity;
    auto using nt_conn_disconnect.
Qed.
Lemma nt_call_timed : forall k n s, forallb nt (snd (fst (call_timed k n s))) = true.
Proof.
  intros k; destruct k; intros; name_result; unfold call_timed; cases; leaf; try reflexivity;
    auto using nt_conn_disconnect, nt_auth.
Qed.
Lemma nt_visit_timed : forall n r k, forallb nt (snd r) = true -> forallb nt (snd (visit_timed n r k)) = true.
Proof.
  intros n [s o] k H. cbn [snd] in H. name_result. unfold visit_timed. cases; leaf; auto.
  all: rewrite forallb_app, H, nt_call_timed; reflexivity.
Qed.
Lemma nt_fire_timed : forall n s, forallb nt (snd (fire_timed n s)) = true.
Proof.
  intros; name_result; unfold fire_timed, ret; cases; leaf; try reflexivity.
  apply (fold_left_inv (fun r => forallb nt (snd r) = true)); [intros; apply nt_visit_timed; auto | reflexivity].
Qed.
Lemma nt_quiet : forall o, forallb quiet o = true -> forallb nt o = true.
Proof.
  induction o as [|x o IH]; cbn; auto. intros H. apply andb_prop in H. destruct H as [A B].
  rewrite IH; auto. destruct x as [| | | |[|]| | | | | | | | |]; cbn in *; auto; discriminate.
Qed.
Lemma nt_connect_next : forall n s, forallb nt (snd (fst (connect_next n s))) = true.
Proof.
  intros. name_result. unfold connect_next. pose proof (quiet_sock_connect (cands s)) as Q.
  destruct (sock_connect (cands s)) as [oo [[k r]|]]; cbn [fst] in Q; leaf; cbn; apply nt_quiet; exact Q.
Qed.
Lemma nt_ph_watch : forall n s, forallb nt (snd (ph_watch n s)) = true.
Proof.
  intros; name_result; unfold ph_watch, ret; cases; leaf; try reflexivity; auto using nt_connect_next.
  rewrite forallb_app, nt_connect_next. reflexivity.
Qed.
Lemma nt_send_phase : forall s, forallb nt (snd (send_phase s)) = true.
Proof.
  intros; name_result; unfold send_phase, ret; cases; leaf; try reflexivity;
    rewrite ?forallb_app, ?nt_conn_disconnect, ?andb_true_r;
    apply forallb_forall; intros x Hx; apply in_map_iff in Hx; destruct Hx as (y & <- & _); reflexivity.
Qed.

Lemma tls_out_app : forall a b, tls_out (a ++ b) = tls_out a || tls_out b.
Proof. intros; unfold tls_out; apply existsb_app. Qed.

Lemma restart_run_once : forall n rd s,
  tls_out (snd (run_once n rd s)) = true -> Rst (fst (run_once n rd s)).
Proof.
  intros n rd s.
  apply (run_once_ind
           (fun _ o => tls_out o = false) (fun _ o => tls_out o = false) (fun _ o => tls_out o = false)
           (fun _ o => tls_out o = false)
           (fun s o => tls_out o = true -> Rst s) (fun s o => tls_out o = true -> Rst s)
           (fun s o => tls_out o = true -> Rst s)).
  - intros _ H; discriminate.
  - intros _. apply nt_tls_out, nt_send_phase.
  - intros s1 o H H'; congruence.
  - auto.
  - intros s1 o H. rewrite tls_out_app, H, (nt_tls_out _ (nt_fire_timed _ _)). reflexivity.
  - intros s1 o H H'; congruence.
  - intros s1 o H. rewrite tls_out_app, H, (nt_tls_out _ (nt_ph_watch _ _)). reflexivity.
  - intros s1 o H H'. rewrite tls_out_app, H in H'. discriminate.
  - intros s1 o H H'. rewrite tls_out_app, H in H'. cbn [orb] in H'.
    destruct (Tr_ph_io n s1 s1 [] (Tr_refl s1)) as [(C & E & Eq)|T].
    + rewrite Eq in *. pose proof (Tr_conn_established n _ _ _ (Tr_refl (set_st Connected s1))) as T.
      cbn [app] in T. apply (tr_restart _ _ _ T). exact H'.
    + cbn [app] in T. apply (tr_restart _ _ _ T). exact H'.
  - auto.
  - intros s1 o H H'. pose proof (Tr_fire_timed n _ _ _ (Tr_refl s1)) as T. cbn [app] in T.
    rewrite tls_out_app in H'. destruct (tls_out o) eqn:E.
    + apply (Rst_Fr s1); [auto | apply (tr_fr _ _ _ T)].
    + apply (tr_restart _ _ _ T). exact H'.
  - intros s1 o H H'. apply H. rewrite tls_out_app in H'. cbn in H'. rewrite orb_false_r in H'. exact H'.
Qed.


Lemma nt_conn_connect : forall n t s, forallb nt (snd (fst (conn_connect n t s))) = true.
Proof.
  intros. name_result. unfold conn_connect.
  destruct (st s); cbv zeta; [ | leaf; reflexivity ..].
  match goal with |- context [sock_connect ?c] => pose proof (quiet_sock_connect c) as Q; destruct (sock_connect c) as [oo [[k r]|]] end;
    cbn [fst] in Q; leaf; apply nt_quiet; exact Q.
Qed.
Lemma nt_connect_client : forall n s, forallb nt (snd (fst (connect_client n s))) = true.
Proof. intros; name_result; unfold connect_client; cases; leaf; try reflexivity; apply nt_conn_connect. Qed.
Lemma nt_connect_component : forall n s, forallb nt (snd (fst (connect_component n s))) = true.
Proof. intros; name_result; unfold connect_component; cases; leaf; try reflexivity; apply nt_conn_connect. Qed.

Lemma restart_step0 : forall s op, tls_out (snd (step0 s op)) = true -> Rst (fst (step0 s op)).
Proof.
  intros s op. unfold step0. destruct (crashed s); [intros; discriminate|].
  destruct op; try apply restart_run_once;
    intros H; exfalso; revert H; name_result; unfold ret; cases; leaf; try discriminate;
    match goal with H : tls_out _ = true |- _ =>
      rewrite ?tls_out_app, ?(nt_tls_out _ (nt_connect_client _ _)), ?(nt_tls_out _ (nt_connect_component _ _)),
        ?(nt_tls_out _ (nt_conn_disconnect _)) in H; discriminate end.
Qed.

Theorem restart_ok : forall ops, check_run ok_restart init_state ops = true.
Proof.
  intros ops. apply (check_run_inv ok_restart (fun _ => True)); auto.
  intros s o _. rewrite step_eq. cbn [fst snd]. unfold ok_restart.
  pose proof (restart_step0 s o) as R. fold is_tls. fold (tls_out (snd (step0 s o))).
  destruct (tls_out (snd (step0 s o))); [|reflexivity]. specialize (R eq_refl). cbn [negb orb].
  unfold note_outs. sproj. destruct (st (fst (step0 s o))) eqn:E; auto.
  destruct (R E) as [H|[H|[H1 H2]]]; rewrite ?H, ?H1, ?H2, ?orb_true_r; reflexivity.
Qed.

(* ================================================================== C03: ok_user *)
Definition up (g : ghost) : bool := Nat.ltb 0 (g_connects g) || g_rawc g.
Lemma up_note_outs : forall outs g, up (fold_left note_out outs g) = up g || has_conn outs.
Proof.
  induction outs as [|x outs IH]; intros g; cbn [fold_left has_conn existsb].
  - rewrite orb_false_r; reflexivity.
  - unfold has_conn in IH. rewrite IH.
    assert (E : up (note_out g x) = up g || is_conn x).
    { destruct g; destruct x as [| | | |[|]| | | | | | | | |]; unfold up; cbn; rewrite ?orb_false_r, ?orb_true_r; auto.
      all: try (destruct g_connects; reflexivity). }
    rewrite E, orb_assoc. reflexivity.
Qed.
Lemma has_conn_app : forall a b, has_conn (a ++ b) = has_conn a || has_conn b.
Proof. intros; unfold has_conn; apply existsb_app. Qed.

(* what holds of the current state s and the outputs o so far, b being "connected was reported before this step" *)
Record UQ (b : bool) (g0 : ghost) (s : state) (o : list out) : Prop := mkUQ {
  uq_scan : scan_user b o = true;
  uq_nd : neg_done s = true -> b || has_conn o = true;
  uq_u1 : U1 s;
  uq_u2 : U2 s;
  uq_gc : g_connects (gh s) = g_connects g0;
  uq_gr : g_rawc (gh s) = g_rawc g0
}.
Lemma UQ_Tr : forall b g0 s o s' o', UQ b g0 s o -> Tr s s' o' -> U1 s' -> U2 s' -> UQ b g0 s' (o ++ o').
Proof.
  intros b g0 s o s' o' [] [] A B. constructor; auto.
  - rewrite scan_user_app, uq_scan0. apply tr_user0. exact uq_nd0.
  - intros N. rewrite has_conn_app, orb_assoc. destruct (tr_nd0 N) as [H|H]; [rewrite (uq_nd0 H)| rewrite H, orb_true_r]; reflexivity.
  - destruct tr_fr0, fr_gh. congruence.
  - destruct tr_fr0, fr_gh. congruence.
Qed.

Lemma scan_wires : forall b t q, (has_user q = true -> b = true) ->
  scan_user b (map (fun x : welem * bool * bool => OWire t (fst (fst x))) q) = true /\
  has_conn (map (fun x : welem * bool * bool => OWire t (fst (fst x))) q) = false.
Proof.
  induction q as [|x q IH]; intros H; [split; reflexivity|].
  cbn [map]. unfold has_user in *. cbn [existsb] in H.
  destruct IH as [A B]. { intros K. apply H. rewrite K. apply orb_true_r. }
  split; [|exact B].
  destruct (fst (fst x)) eqn:E; cbn [scan_user]; auto. cbn in H. specialize (H eq_refl). subst b. exact A.
Qed.

Lemma user_send_phase : forall b s, (neg_done s = true -> b = true) -> U1 s -> U2 s ->
  UQ b (gh s) (fst (send_phase s)) (snd (send_phase s)).
Proof.
  intros b s Hb H1 H2. unfold send_phase, ret.
  assert (Triv : UQ b (gh s) s []).
  { constructor; auto. intros N; rewrite Hb; auto. }
  destruct (st s) eqn:C; [exact Triv | exact Triv | ].
  cbv zeta.
  match goal with |- context [negb (err ?x =? 0)] => remember x as sa eqn:Ea end.
  assert (F1 : neg_done sa = neg_done s) by (subst sa; reflexivity).
  assert (F2 : gh sa = gh s) by (subst sa; reflexivity).
  assert (F3 : sendq sa = []) by (subst sa; reflexivity).
  assert (F4 : st sa = st s) by (subst sa; reflexivity).
  clear Ea.
  destruct (scan_wires b (tls_present s) (sendq s)) as [W1 W2].
  { intros K. apply Hb. destruct (neg_done s) eqn:N; auto. rewrite (H1 C N) in K. discriminate. }
  assert (Q0 : UQ b (gh s) sa (map (fun x : welem * bool * bool => OWire (tls_present s) (fst (fst x))) (sendq s))).
  { constructor; auto.
    - intros N. rewrite Hb; [reflexivity | congruence].
    - intros _ _. rewrite F3. reflexivity.
    - intros _. exact F3.
    - congruence.
    - congruence. }
  destruct (negb (err sa =? 0)); [|exact Q0].
  assert (Q1 : UQ b (gh s) (set_err ECONNABORTED sa) (map (fun x : welem * bool * bool => OWire (tls_present s) (fst (fst x))) (sendq s))).
  { destruct Q0. constructor; auto with u1db u2db. }
  pose proof (Tr_conn_disconnect _ _ _ (Tr_refl (set_err ECONNABORTED sa))) as T. cbn [app] in T.
  pose proof (UQ_Tr _ _ _ _ _ _ Q1 T) as Q2.
  destruct (conn_disconnect (set_err ECONNABORTED sa)) as [s2 o2] eqn:E. cbn [fst snd] in *.
  apply Q2.
  - replace s2 with (fst (conn_disconnect (set_err ECONNABORTED sa))) by (rewrite E; reflexivity).
    destruct Q1; auto with u1db.
  - replace s2 with (fst (conn_disconnect (set_err ECONNABORTED sa))) by (rewrite E; reflexivity).
    destruct Q1; auto with u2db.
Qed.

Lemma U1_ph_watch : forall n s, U1 s -> U1 (fst (ph_watch n s)).
Proof. intros; name_result; unfold ph_watch, ret; cases; leaf; eauto 30 with u1db. Qed.
Lemma U2_ph_watch : forall n s, U2 s -> U2 (fst (ph_watch n s)).
Proof. intros; name_result; unfold ph_watch, ret; cases; leaf; eauto 30 with u2db. Qed.
Lemma U1_connecting_connected : forall s, U2 s -> st s = Connecting -> U1 (set_st Connected s).
Proof.
  intros s H C _ _. assert (E : sendq (set_st Connected s) = sendq s) by (destruct s; reflexivity).
  rewrite E, (H C). reflexivity.
Qed.
Lemma U2_set_st_connected : forall s, U2 (set_st Connected s).
Proof. intros [] C; cbn in C; discriminate. Qed.
Lemma U1_ph_io : forall n s, U1 s -> U2 s -> U1 (fst (ph_io n s)).
Proof.
  intros n s H1 H2. name_result. unfold ph_io, ret.
  destruct (st s) eqn:C; [leaf; auto | | cases; leaf; eauto 30 with u1db].
  destruct (cur_ep s); cases; leaf; eauto 30 with u1db.
  apply U1_conn_established. apply U1_connecting_connected; auto.
Qed.
Lemma U2_ph_io : forall n s, U2 s -> U2 (fst (ph_io n s)).
Proof.
  intros n s H2. name_result. unfold ph_io, ret.
  destruct (st s) eqn:C; [leaf; auto | | cases; leaf; eauto 30 with u2db].
  destruct (cur_ep s); cases; leaf; eauto 30 with u2db.
  apply U2_conn_established. apply U2_set_st_connected.
Qed.

Lemma user_run_once : forall b n rd s, (neg_done s = true -> b = true) -> U1 s -> U2 s ->
  UQ b (gh s) (fst (run_once n rd s)) (snd (run_once n rd s)).
Proof.
  intros b n rd s Hb H1 H2.
  apply (run_once_ind (UQ b (gh s)) (UQ b (gh s)) (UQ b (gh s)) (UQ b (gh s)) (UQ b (gh s)) (UQ b (gh s)) (UQ b (gh s))); auto.
  - intros _. constructor; cbn; auto. intros N; rewrite Hb; auto.
  - intros _.
    assert (E : gh s = gh (ph_pre rd s)) by (unfold ph_pre; cases; reflexivity). rewrite E.
    apply user_send_phase; unfold ph_pre; cases; auto with u1db u2db.
  - intros s1 o Q. unfold ph_reset. cases; auto. destruct Q; constructor; auto with u1db u2db.
  - intros s1 o Q. pose proof (Tr_fire_timed n _ _ _ (Tr_refl s1)) as T. cbn [app] in T.
    apply (UQ_Tr _ _ _ _ _ _ Q T); destruct Q; auto with u1db u2db.
  - intros s1 o Q. pose proof (Tr_ph_watch n _ _ _ (Tr_refl s1)) as T. cbn [app] in T.
    apply (UQ_Tr _ _ _ _ _ _ Q T); destruct Q; auto using U1_ph_watch, U2_ph_watch.
  - intros s1 o Q. apply (UQ_Tr _ _ _ _ _ _ Q (Tr_quiet _ _ _ [OIter] (Tr_refl s1) eq_refl)); destruct Q; auto.
  - intros s1 o Q. destruct (Tr_ph_io n s1 s1 [] (Tr_refl s1)) as [(C & E & Eq)|T].
    + rewrite Eq.
      assert (Q' : UQ b (gh s) (set_st Connected s1) o).
      { destruct Q; constructor; auto using U1_connecting_connected, U2_set_st_connected. }
      pose proof (Tr_conn_established n _ _ _ (Tr_refl (set_st Connected s1))) as T. cbn [app] in T.
      apply (UQ_Tr _ _ _ _ _ _ Q' T); destruct Q'; auto with u1db u2db.
    + cbn [app] in T. apply (UQ_Tr _ _ _ _ _ _ Q T); destruct Q; auto using U1_ph_io, U2_ph_io.
  - intros s1 o Q. pose proof (Tr_fire_timed n _ _ _ (Tr_refl s1)) as T. cbn [app] in T.
    apply (UQ_Tr _ _ _ _ _ _ Q T); destruct Q; auto with u1db u2db.
  - intros s1 o Q. apply (UQ_Tr _ _ _ _ _ _ Q (Tr_quiet _ _ _ [OIter] (Tr_refl s1) eq_refl)); destruct Q; auto.
Qed.

(* what _conn_connect leaves behind when it runs (object disconnected) *)
Record Fresh (s s1 : state) : Prop := mkFresh {
  fre_nd : neg_done s1 = false;
  fre_sendq : sendq s1 = [];
  fre_st : st s1 = Connecting \/ st s1 = Disconnected;
  fre_gh : st s1 = Connecting -> gh s1 = set_g_attempt true ghost0;
  fre_gh' : st s1 = Disconnected -> gh s1 = gh s
}.
Lemma conn_connect_cases : forall n t s,
  (st s <> Disconnected /\ conn_connect n t s = (s, [], XMPP_EINVOP)) \/
  (st s = Disconnected /\ Fresh s (fst (fst (conn_connect n t s))) /\
   forallb quiet (snd (fst (conn_connect n t s))) = true).
Proof.
  intros n t s. unfold conn_connect. destruct (st s) eqn:C; [right | left; split; [discriminate|reflexivity] ..].
  split; [reflexivity|]. cbv zeta.
  match goal with |- context [sock_connect ?c] => pose proof (quiet_sock_connect c) as Q; destruct (sock_connect c) as [oo [[k r]|]] end;
    cbn [fst snd] in *; (split; [|exact Q]); unfold conn_reset, prepare_reset; rewrite C; cbv zeta;
    constructor; sproj; auto; try discriminate; try reflexivity; try (intros; congruence).
Qed.

(* configuration-only changes (user setters, refused connects) *)
Record Cfg (s s1 : state) : Prop := mkCfg {
  cfg_st : st s1 = st s;
  cfg_sendq : sendq s1 = sendq s;
  cfg_nd : neg_done s1 = neg_done s;
  cfg_gh : gh s1 = gh s;
  cfg_handlers : handlers s1 = handlers s;
  cfg_idhandlers : idhandlers s1 = idhandlers s;
  cfg_timed : timed s1 = timed s;
  cfg_sasl : sasl s1 = sasl s;
  cfg_tls_support : tls_support s1 = tls_support s;
  cfg_secured : secured s1 = secured s;
  cfg_tls_present : tls_present s1 = tls_present s;
  cfg_bind_required : bind_required s1 = bind_required s;
  cfg_session_required : session_required s1 = session_required s;
  cfg_comp_supported : comp_supported s1 = comp_supported s;
  cfg_sm_support : sm_support s1 = sm_support s;
  cfg_sm_bind_saved : sm_bind_saved s1 = sm_bind_saved s;
  cfg_sm_enabled : sm_enabled s1 = sm_enabled s;
  cfg_oh : oh s1 = oh s;
  cfg_smq : smq s1 = smq s;
  cfg_reset_parser : reset_parser s1 = reset_parser s
}.
Lemma Cfg_refl : forall s, Cfg s s.
Proof. intros; constructor; auto. Qed.
Lemma Cfg_set_flags : forall w s, Cfg s (fst (set_flags w s)).
Proof. intros; name_result; unfold set_flags; cases; leaf; constructor; auto. Qed.

Lemma Fresh_Cfg : forall s s' s1, Cfg s s' -> Fresh s' s1 -> Fresh s s1.
Proof. intros s s' s1 [] []. constructor; auto. intros D. rewrite fre_gh'0; auto. Qed.

Lemma Cfg_trans : forall a b c, Cfg a b -> Cfg b c -> Cfg a c.
Proof. intros a b c [] []. constructor; congruence. Qed.
Lemma conn_connect_cases' : forall n t s s',
  Cfg s s' ->
  (Cfg s (fst (fst (conn_connect n t s'))) /\ snd (fst (conn_connect n t s')) = []) \/
  (Fresh s (fst (fst (conn_connect n t s'))) /\ forallb quiet (snd (fst (conn_connect n t s'))) = true).
Proof.
  intros n t s s' C. destruct (conn_connect_cases n t s') as [(A & ->)|(A & F & Q)]; [left | right].
  - split; [exact C | reflexivity].
  - split; [exact (Fresh_Cfg _ _ _ C F) | exact Q].
Qed.
Lemma connect_client_cases : forall n s,
  (Cfg s (fst (fst (connect_client n s))) /\ snd (fst (connect_client n s)) = []) \/
  (Fresh s (fst (fst (connect_client n s))) /\ forallb quiet (snd (fst (connect_client n s))) = true).
Proof.
  intros n s. unfold connect_client. cbv zeta.
  destruct (negb (jid_set s) && cert_set s);
    match goal with |- context [if ?c then _ else _] => destruct c end;
    try (left; split; [constructor; reflexivity | reflexivity]);
    apply conn_connect_cases'; constructor; reflexivity.
Qed.
Lemma connect_component_cases : forall n s,
  (Cfg s (fst (fst (connect_component n s))) /\ snd (fst (connect_component n s)) = []) \/
  (Fresh s (fst (fst (connect_component n s))) /\ forallb quiet (snd (fst (connect_component n s))) = true).
Proof.
  intros n s. unfold connect_component.
  destruct (negb (jid_set s && pass_set s)); [left; split; [apply Cfg_refl | reflexivity]|].
  cbv zeta.
  match goal with |- context [set_flags ?w s] => pose proof (Cfg_set_flags w s) as C; destruct (set_flags w s) as [s1 rc] end.
  cbn [fst] in C.
  destruct (negb (f_tls_disabled s1)); [left; split; [exact C | reflexivity]|].
  apply conn_connect_cases'. apply (Cfg_trans _ _ _ C). constructor; reflexivity.
Qed.
Definition IU (s : state) : Prop := (neg_done s = true -> up (gh s) = true) /\ U1 s /\ U2 s.

Lemma UQ_start : forall s, IU s -> UQ (up (gh s)) (gh s) s [].
Proof. intros s (A & B & C). constructor; auto. intros N. rewrite (A N). reflexivity. Qed.
Lemma UQ_same : forall b g s o s', UQ b g s o -> neg_done s' = neg_done s -> gh s' = gh s -> U1 s' -> U2 s' -> UQ b g s' o.
Proof.
  intros b g s o s' [] A B C D. constructor; auto; try congruence.
  intros N. apply uq_nd0. congruence.
Qed.
Lemma UQ_quiet : forall b g s o o', UQ b g s o -> forallb quiet o' = true -> UQ b g s (o ++ o').
Proof.
  intros b g s o o' Q H. apply (UQ_Tr _ _ _ _ _ _ Q (Tr_quiet _ _ _ o' (Tr_refl s) H)); destruct Q; auto.
Qed.
Lemma UQ_end : forall s s1 outs, UQ (up (gh s)) (gh s) s1 outs -> IU (note_outs outs s1).
Proof.
  intros s s1 outs []. unfold IU, note_outs. split; [|split].
  - sproj. intros N. rewrite up_note_outs.
    assert (E : up (gh s1) = up (gh s)) by (unfold up; congruence). rewrite E. auto.
  - destruct s1; exact uq_u3.
  - destruct s1; exact uq_u4.
Qed.

Lemma nd_h_add : forall k s, neg_done (h_add k s) = neg_done s. Proof. intros; unfold h_add; cases; reflexivity. Qed.
Lemma nd_timed_add : forall k n s, neg_done (timed_add k n s) = neg_done s. Proof. intros; unfold timed_add; cases; reflexivity. Qed.
Lemma gh_h_add : forall k s, gh (h_add k s) = gh s. Proof. intros; unfold h_add; cases; reflexivity. Qed.
Lemma gh_timed_add : forall k n s, gh (timed_add k n s) = gh s. Proof. intros; unfold timed_add; cases; reflexivity. Qed.

Lemma user_connect : forall s s1 o (rc : Z), IU s ->
  (Cfg s s1 /\ o = [] \/ Fresh s s1 /\ forallb quiet o = true) ->
  scan_user (up (gh s)) (o ++ [ORet rc]) = true /\ IU (note_outs (o ++ [ORet rc]) s1).
Proof.
  intros s s1 o rc I [(C & ->)|(F & Q)].
  - split; [reflexivity|]. apply (UQ_end s). apply UQ_quiet; [|reflexivity].
    pose proof (UQ_start s I) as Q0. destruct I as (I0 & I1 & I2). destruct C.
    eapply UQ_same; [exact Q0 | auto | auto | | ].
    + intros A B. rewrite cfg_sendq0. apply I1; congruence.
    + intros A. rewrite cfg_sendq0. apply I2; congruence.
  - assert (Q' : forallb quiet (o ++ [ORet rc]) = true) by (rewrite forallb_app, Q; reflexivity).
    destruct (scan_user_quiet _ (up (gh s)) Q') as (A & B & _). split; [exact A|].
    destruct F. unfold IU, note_outs. split; [|split].
    + sproj. congruence.
    + intros C1 _. revert C1. sproj. intros C1. destruct fre_st0; congruence.
    + intros _. sproj. exact fre_sendq0.
Qed.

Lemma user_step0 : forall s op, IU s ->
  scan_user (up (gh s)) (snd (step0 s op)) = true /\ IU (note_outs (snd (step0 s op)) (fst (step0 s op))).
Proof.
  intros s op I. pose proof (UQ_start s I) as Q0. destruct I as (I0 & I1 & I2).
  assert (Fin : forall s1 outs, UQ (up (gh s)) (gh s) s1 outs ->
                scan_user (up (gh s)) outs = true /\ IU (note_outs outs s1)).
  { intros s1 outs Q. split; [apply Q | apply (UQ_end s); exact Q]. }
  unfold step0. destruct (crashed s); [apply Fin; exact Q0|].
  destruct op.
  - (* OpSetFlags *) name_result. unfold set_flags. cases; leaf; apply Fin;
      (apply (UQ_quiet _ _ _ [] [_]); [|reflexivity]); auto;
      (eapply UQ_same; [exact Q0 | reflexivity | reflexivity | eauto 20 with u1db | eauto 20 with u2db]).
  - cases; unfold ret; cbn [fst snd]; apply Fin; auto; (eapply UQ_same; [exact Q0 | reflexivity | reflexivity | eauto 20 with u1db | eauto 20 with u2db]).
  - cases; unfold ret; cbn [fst snd]; apply Fin; auto; (eapply UQ_same; [exact Q0 | reflexivity | reflexivity | eauto 20 with u1db | eauto 20 with u2db]).
  - cases; unfold ret; cbn [fst snd]; apply Fin; auto; (eapply UQ_same; [exact Q0 | reflexivity | reflexivity | eauto 20 with u1db | eauto 20 with u2db]).
  - (* OpUserHandlers *)
    cases; unfold ret; cbn [fst snd]; apply Fin; auto;
      (eapply UQ_same; [exact Q0 | sproj; rewrite ?nd_timed_add, ?nd_h_add; reflexivity
                        | sproj; rewrite ?gh_timed_add, ?gh_h_add; reflexivity | eauto 20 with u1db | eauto 20 with u2db]).
  - cases; unfold ret; cbn [fst snd]; apply Fin; auto; (eapply UQ_same; [exact Q0 | reflexivity | reflexivity | eauto 20 with u1db | eauto 20 with u2db]).
  - unfold ret; cbn [fst snd]; apply Fin; (eapply UQ_same; [exact Q0 | reflexivity | reflexivity | eauto 20 with u1db | eauto 20 with u2db]).
  - (* OpConnectClient *)
    pose proof (connect_client_cases now s) as K. destruct (connect_client now s) as [[s1 o] rc]. cbn [fst snd] in *.
    apply user_connect; [repeat split; auto | exact K].
  - (* OpConnectRaw *)
    destruct (st s) eqn:C.
    + pose proof (connect_client_cases now (set_is_raw true s)) as K.
      destruct (connect_client now (set_is_raw true s)) as [[s1 o] rc]. cbn [fst snd] in *.
      apply user_connect; [repeat split; auto | ].
      assert (C0 : Cfg s (set_is_raw true s)) by (constructor; reflexivity).
      destruct K as [(K1 & K2)|(K1 & K2)]; [left; split; [exact (Cfg_trans _ _ _ C0 K1) | exact K2]
                                           | right; split; [exact (Fresh_Cfg _ _ _ C0 K1) | exact K2]].
    + cbn [fst snd]. apply Fin. apply (UQ_quiet _ _ _ [] [_]); auto.
    + cbn [fst snd]. apply Fin. apply (UQ_quiet _ _ _ [] [_]); auto.
  - (* OpConnectComponent *)
    pose proof (connect_component_cases now s) as K. destruct (connect_component now s) as [[s1 o] rc]. cbn [fst snd] in *.
    apply user_connect; [repeat split; auto | exact K].
  - (* OpRun *) apply Fin. apply user_run_once; auto.
  - (* OpDisconnect *) unfold ret; cbn [fst snd]. apply Fin.
    apply (UQ_Tr _ _ _ [] _ [] Q0); eauto with trdb u1db u2db. apply Tr_xmpp_disconnect, Tr_refl.
  - (* OpSend *) unfold ret; cbn [fst snd]. apply Fin.
    apply (UQ_Tr _ _ _ [] _ [] Q0); eauto with trdb u1db u2db. apply Tr_send_gated, Tr_refl.
  - (* OpSendRaw *) unfold ret; cbn [fst snd]. apply Fin.
    apply (UQ_Tr _ _ _ [] _ [] Q0); eauto with trdb u1db u2db. apply Tr_send_raw_m, Tr_refl.
  - (* OpIs *) cbn [fst snd]. apply Fin. apply (UQ_quiet _ _ _ [] [_]); auto.
  - (* OpOpenStream *) cases; unfold ret; cbn [fst snd]; apply Fin; auto.
    apply (UQ_Tr _ _ _ [] _ [] Q0); eauto 10 with trdb u1db u2db. apply Tr_conn_open_stream, Tr_prepare_reset, Tr_refl.
  - (* OpRelease *) cases; unfold ret; cbn [fst snd]; try (apply Fin; exact Q0).
    all: apply Fin; apply (UQ_Tr _ _ _ [] _ _ Q0 (Tr_conn_disconnect _ _ _ (Tr_refl s))); auto with u1db u2db.
Qed.

Theorem user_ok : forall ops, check_run ok_user init_state ops = true.
Proof.
  intros ops. apply (check_run_inv ok_user IU).
  - intros s o I. rewrite step_eq. cbn [fst]. apply (user_step0 s o I).
  - intros s o I. rewrite step_eq. cbn [fst snd]. unfold ok_user. apply (user_step0 s o I).
  - unfold IU, U1, U2. cbn. repeat split; intros; discriminate.
Qed.

(* ================================================================== registration skeleton *)
Lemma Gen_skeleton_ok : skeleton_ok skeleton = true.
Proof. vm_compute. reflexivity. Qed.
