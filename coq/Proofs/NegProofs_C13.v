(* C13 - proofs of the connection-lifecycle theorems over NegModel (statements: Properties/Properties_C13.v).
   The invariants and the per-function preservation lemmas are in Proofs/NegFrame_C13.v. *)
Require Import LV.Common.Bytes LV.Gen.Gen_neg LV.Model.NegState LV.Model.NegModel LV.Spec.NegSpec LV.Proofs.NegFrame_C13.
From Coq Require Import Lia ZifyBool Bool.
Local Open Scope Z_scope.

(* ---------------- flags *)
Definition flags_conflict (w : Z) : bool := testbit w flag_conflict_a && existsb (testbit w) flag_conflict_b.
Definition flags_rc (w : Z) : Z :=
  if flags_conflict w then XMPP_EINVOP
  else if (w - fold_left (fun a f => a + (if testbit w f then f else 0)) flags_known 0 =? 0) && (0 <=? w) then XMPP_EOK else XMPP_EINVOP.
Definition flags_rb (w : Z) : Z :=
  (if testbit w FLAG_DISABLE_TLS then FLAG_DISABLE_TLS else 0) + (if testbit w FLAG_MANDATORY_TLS then FLAG_MANDATORY_TLS else 0) +
  (if testbit w FLAG_LEGACY_SSL then FLAG_LEGACY_SSL else 0) + (if testbit w FLAG_TRUST_TLS then FLAG_TRUST_TLS else 0) +
  (if testbit w FLAG_DISABLE_SM then FLAG_DISABLE_SM else 0) + (if testbit w FLAG_ENABLE_COMPRESSION then FLAG_ENABLE_COMPRESSION else 0) +
  (if testbit w FLAG_COMPRESSION_DONT_RESET then FLAG_COMPRESSION_DONT_RESET else 0) + (if testbit w FLAG_LEGACY_AUTH then FLAG_LEGACY_AUTH else 0).

Lemma set_flags_disc s w : st s = Disconnected ->
  snd (set_flags w s) = flags_rc w /\
  flags_readback (fst (set_flags w s)) = (if flags_conflict w then flags_readback s else flags_rb w) /\
  st (fst (set_flags w s)) = st s.
Proof.
  intros H. unfold set_flags, flags_rc. rewrite H. fold (flags_conflict w).
  destruct (flags_conflict w); cbn [fst snd]; repeat split; try assumption.
Qed.
Lemma set_flags_live s w : st s <> Disconnected -> set_flags w s = (s, XMPP_EINVOP).
Proof. intros H. unfold set_flags. destruct (st s); [congruence| |]; reflexivity. Qed.

Definition flag_words : list Z := map Z.of_nat (seq 0 256).
Lemma flag_words_in w : 0 <= w < 256 -> In w flag_words.
Proof. intros H. unfold flag_words. apply in_map_iff. exists (Z.to_nat w). split; [lia|]. apply in_seq. lia. Qed.
Definition flag_word_ok (w : Z) : bool :=
  Bool.eqb (flags_rc w =? XMPP_EOK)
           (negb (Z.odd w) || (negb (Z.odd (w / 2)) && negb (Z.odd (w / 4)) && negb (Z.odd (w / 8)))) &&
  (if flags_rc w =? XMPP_EOK then negb (flags_conflict w) && (flags_rb w =? w) else true).
Lemma flag_words_ok : forallb flag_word_ok flag_words = true.
Proof. vm_compute. reflexivity. Qed.

Lemma flags_all_words_proof :
  forall s w, st s = Disconnected -> 0 <= w < 256 ->
    (snd (set_flags w s) = XMPP_EOK <->
       (Z.odd w = false \/ (Z.odd (w / 2) = false /\ Z.odd (w / 4) = false /\ Z.odd (w / 8) = false))) /\
    (snd (set_flags w s) = XMPP_EOK -> flags_readback (fst (set_flags w s)) = w).
Proof.
  intros s w Hs Hw.
  destruct (set_flags_disc s w Hs) as (Hrc & Hrb & _). rewrite Hrc, Hrb.
  pose proof (proj1 (forallb_forall _ _) flag_words_ok w (flag_words_in w Hw)) as Hok.
  unfold flag_word_ok in Hok. apply andb_true_iff in Hok. destruct Hok as [H1 H2].
  apply eqb_prop in H1.
  split.
  - split.
    + intros E. rewrite E in H1. cbn in H1. symmetry in H1.
      apply orb_true_iff in H1. destruct H1 as [H1|H1].
      * left. now apply negb_true_iff.
      * right. apply andb_true_iff in H1. destruct H1 as [H1 H3]. apply andb_true_iff in H1. destruct H1 as [H1 H4].
        repeat split; now apply negb_true_iff.
    + intros E. destruct (flags_rc w =? XMPP_EOK) eqn:Q; [now apply Z.eqb_eq|].
      exfalso. symmetry in H1. apply orb_false_iff in H1. destruct H1 as [H1 H3].
      apply negb_false_iff in H1. destruct E as [E|(E1 & E2 & E3)]; [congruence|].
      rewrite E1, E2, E3 in H3. discriminate.
  - intros E. rewrite E in H2. cbn in H2. apply andb_true_iff in H2. destruct H2 as [H2 H3].
    apply negb_true_iff in H2. rewrite H2. now apply Z.eqb_eq.
Qed.

(* ---------------- deadlines *)
Lemma wait_deadlines_proof :
  CONNECT_TIMEOUT = 5000 /\ DISCONNECT_TIMEOUT = 2000 /\
  (forall s, tperiod s TMissingFeatures = 15000 /\ tperiod s TMissingFeaturesSasl = 15000 /\
             tperiod s TMissingBind = 15000 /\ tperiod s TMissingSession = 15000 /\
             tperiod s TMissingLegacy = 15000 /\ tperiod s TMissingHandshake = 15000 /\
             tperiod s TDisconnectCleanup = 2000).
Proof. split; [reflexivity|]. split; [reflexivity|]. intros s. unfold tperiod. repeat split; vm_compute; reflexivity. Qed.

Lemma timed_early_proof :
  forall now s o k en stp,
    timed_lookup k s = Some (en, stp) -> now - stp < tperiod s k ->
    visit_timed now (s, o) k = (s, o).
Proof.
  intros now s o k en stp HL Hlt. unfold visit_timed. rewrite HL.
  destruct (crashed s); [reflexivity|]. destruct (negb en); [reflexivity|].
  destruct (tkind_eqb k TUser && negb (neg_done s)); [reflexivity|].
  destruct (now - stp >=? tperiod s k) eqn:E; [lia|reflexivity].
Qed.

Lemma timed_due_proof :
  forall now s o k stp,
    crashed s = false -> timed_lookup k s = Some (true, stp) -> tperiod s k <= now - stp ->
    (k = TUser -> neg_done s = true) ->
    visit_timed now (s, o) k =
      (let '(s2, o2, keep) := call_timed k now (timed_set_stamp k now s) in
       ((if keep then s2 else timed_del k s2), o ++ o2)).
Proof.
  intros now s o k stp Hc HL Hle Hu. unfold visit_timed. rewrite Hc, HL. cbn [negb].
  assert (tkind_eqb k TUser && negb (neg_done s) = false) as ->.
  { destruct k; try reflexivity. rewrite Hu; reflexivity. }
  destruct (now - stp >=? tperiod s k) eqn:E; [reflexivity|lia].
Qed.

(* ---------------- the connect time-out *)
Lemma send_phase_not_connected s : st s <> Connected -> send_phase s = ret s.
Proof. unfold send_phase. destruct (st s); congruence. Qed.
Lemma fire_timed_not_connected now s : st s <> Connected -> fire_timed now s = ret s.
Proof. unfold fire_timed. destruct (st s); congruence. Qed.

Lemma connect_wait_proof :
  forall s now rd,
    crashed s = false -> st s = Connecting -> cur_ep s = EpHang ->
    let '(s', outs) := run_once now rd s in
    (now - stamp s <= CONNECT_TIMEOUT -> st s' = Connecting /\ cands s' = cands s /\ stamp s' = stamp s /\
                                        forallb (fun o => match o with ODisconnect _ _ => false | OSockClose => false | _ => true end) outs = true) /\
    (CONNECT_TIMEOUT < now - stamp s ->
       In OSockClose outs /\
       match snd (sock_connect (cands s)) with
       | None => st s' = Disconnected /\ In (ODisconnect ETIMEDOUT (stream_error s')) outs
       | Some (k, r) => k = EpHang -> st s' = Connecting /\ stamp s' = now /\ cands s' = r /\ cur_ep s' = EpHang
       end).
Proof.
  intros s now rd Hc Hst Hep. unfold run_once. rewrite Hc.
  set (sa := match rd with RdNone => s | _ => match st s with Disconnected => s | _ => set_rxq (rxq s ++ [rd]) s end end).
  assert (Ha : st sa = Connecting /\ cands sa = cands s /\ stamp sa = stamp s /\ cur_ep sa = EpHang /\ crashed sa = false).
  { subst sa. destruct rd; rewrite ?Hst; cbn; auto. }
  destruct Ha as (Ha1 & Ha2 & Ha3 & Ha4 & Ha5).
  rewrite send_phase_not_connected by congruence. unfold ret. rewrite Ha5.
  set (s2 := if reset_parser sa then set_ps PDepth0 (set_reset_parser false sa) else sa).
  assert (Hb : st s2 = Connecting /\ cands s2 = cands s /\ stamp s2 = stamp s /\ cur_ep s2 = EpHang /\ crashed s2 = false).
  { subst s2. destruct (reset_parser sa); cbn; auto. }
  destruct Hb as (Hb1 & Hb2 & Hb3 & Hb4 & Hb5).
  rewrite fire_timed_not_connected by congruence. unfold ret. rewrite Hb5, Hb1, Hb3.
  destruct (now - stamp s <=? CONNECT_TIMEOUT) eqn:E.
  - rewrite Hb1, Hb4. cbn. split; [intros _; auto | intros; lia].
  - unfold connect_next at 1. rewrite Hb2.
    destruct (sock_connect (cands s)) as [o [[k r]|]] eqn:Hsc; cbn [snd].
    + (* next candidate *)
      set (s3 := set_rxq [] (set_stamp now (set_cur_ep k (set_cands r s2)))).
      assert (Hd : st s3 = Connecting /\ cur_ep s3 = k /\ stamp s3 = now /\ cands s3 = r /\ crashed s3 = false)
        by (repeat split; [exact Hb1 | exact Hb5]).
      destruct Hd as (Hd1 & Hd2 & Hd3 & Hd4 & Hd5). clearbody s3.
      rewrite Hd1, Hd2.
      destruct k; cbn [negb].
      * (* accept *)
        destruct (conn_established now _) as [s5 o5]. destruct (crashed s5).
        -- split; [intros; lia|]. intros _. split; [cbn [app In]; auto | discriminate].
        -- destruct (fire_timed now s5) as [s6 o6]. split; [intros; lia|]. intros _. split; [cbn [app In]; auto | discriminate].
      * unfold ret. rewrite Hd5. destruct (fire_timed _ _). split; [intros; lia|]. intros _. split; [cbn [app In]; auto | discriminate].
      * destruct (connect_next now _) as [[s5 o5] ok5].
        destruct ok5.
        -- destruct (crashed s5); [|destruct (fire_timed _ _)]; (split; [intros; lia|]; intros _; split; [cbn [app In]; auto | discriminate]).
        -- match goal with |- context [crashed ?x] => destruct (crashed x) end;
             [|destruct (fire_timed _ _)]; (split; [intros; lia|]; intros _; split; [cbn [app In]; auto | discriminate]).
      * split; [intros; lia|]. intros _. split; [cbn [app In]; auto|]. intros _. auto.
    + pose proof (core_fields _ _ (reset_sm_core (set_neg_done false (set_st Disconnected (set_err ETIMEDOUT (set_cands [] s2)))))) as (F1 & _ & _ & _ & _ & F6 & _).
      set (s3 := set_neg_done false (set_st Disconnected (set_err ETIMEDOUT (set_cands [] s2)))) in *.
      set (s4 := reset_sm_for_reconnect s3) in *.
      change (st s3) with Disconnected in F1.
      rewrite F1. cbn [negb].
      split; [intros; lia|]. intros _.
      split; [cbn [app In]; auto|]. split; [assumption|].
      rewrite F6. cbn [app]. apply in_cons. apply in_or_app. left. apply in_or_app. right. left. reflexivity.
Qed.

Lemma no_OIs_ok (f : bool -> bool -> bool -> bool -> bool) outs : existsb is_crash outs = false ->
  forallb (fun o => match o with OIs a b c d => f a b c d | _ => true end) outs = true.
Proof.
  induction outs as [|x r IH]; intros K; [reflexivity|]. cbn [existsb] in K. apply orb_false_iff in K. destruct K as [K1 K2].
  cbn [forallb]. rewrite (IH K2). destruct x; try reflexivity; discriminate K1.
Qed.

Lemma ok_is_step s o : TopInv s -> ok_is s o (fst (step s o)) (snd (step s o)) = true.
Proof.
  intros H. unfold ok_is.
  assert (Hc : crashed s = false) by (destruct (K1 _ _ (IL _ _ _ _ _ H)) as [Q _]; exact Q).
  destruct (query_op o) eqn:Hq.
  - destruct o; try discriminate Hq; unfold step, step0; rewrite Hc.
    + destruct (set_flags w s) as [s1 rc]. reflexivity.
    + cbn [fst snd]. rewrite note_outs_silent by reflexivity. cbn [forallb]. rewrite andb_true_r. sproj.
      destruct (IL _ _ _ _ _ H) as [L1 L2 L3 L4 L5 L6 L7 L8 K1 K2]. unfold vC, vD, vR, vB in *.
      cbn [core c_st c_nd c_raw c_alloc c_crashed c_att c_nc c_ndisc c_rawc cnt existsb] in *. rewrite ?Nat.add_0_r, ?orb_false_r in *.
      unfold is_connected_owner.
      destruct (st s) eqn:S.
      * (* disconnected *)
        assert (A : g_attempt (gh s) && Nat.eqb (g_disconnects (gh s)) 0 = false).
        { destruct (g_attempt (gh s)) eqn:A; [|reflexivity]. rewrite (L2 eq_refl eq_refl). reflexivity. }
        rewrite A. reflexivity.
      * assert (N : Connecting <> Disconnected) by discriminate. destruct (L1 N) as [A D]. rewrite A, D. cbn [Nat.eqb andb negb Bool.eqb].
        destruct (neg_done s) eqn:Nd; [destruct (L4 eq_refl) as [Q _]; discriminate Q|].
        destruct (L5 N eq_refl) as [C R]. rewrite C, R. reflexivity.
      * assert (N : Connected <> Disconnected) by discriminate. destruct (L1 N) as [A D]. rewrite A, D. cbn [Nat.eqb andb negb Bool.eqb].
        destruct (neg_done s) eqn:Nd.
        -- destruct (L4 eq_refl) as [_ [Q|Q]].
           ++ assert (B : Nat.ltb 0 (g_connects (gh s)) = true) by (apply Nat.ltb_lt; exact Q). rewrite B. reflexivity.
           ++ rewrite Q. destruct (Nat.ltb 0 (g_connects (gh s))); reflexivity.
        -- destruct (L5 N eq_refl) as [C R]. rewrite C, R. reflexivity.
  - pose proof (step0_inv s o Hq H) as Q. unfold RInv in Q. unfold step. destruct (step0 s o) as [s1 outs]. cbn [fst snd app] in *.
    apply no_OIs_ok. apply (K1 _ _ (IL _ _ _ _ _ Q)).
Qed.

Lemma ok_flags_step s o : ok_flags s o (fst (step s o)) (snd (step s o)) = true.
Proof.
  unfold ok_flags. destruct o; try reflexivity. unfold step, step0.
  destruct (crashed s); [reflexivity|].
  destruct (st s) eqn:E.
  - destruct (set_flags_disc s w E) as (Hrc & Hrb & _). destruct (set_flags w s) as [s1 rc]. cbn [fst snd] in *. subst rc.
    cbn [forallb is_disc]. rewrite andb_true_r.
    destruct (flags_rc w =? XMPP_EOK) eqn:Q; [|reflexivity].
    rewrite Hrb. unfold flags_rc in Q. destruct (flags_conflict w); [discriminate Q|].
    destruct ((w - fold_left (fun a f => a + (if testbit w f then f else 0)) flags_known 0 =? 0) && (0 <=? w)) eqn:B; [|discriminate Q].
    apply andb_true_iff in B. destruct B as [B _]. apply Z.eqb_eq in B. apply Z.eqb_eq.
    unfold flags_rb. unfold flags_known in B. cbn [fold_left] in B. lia.
  - rewrite set_flags_live by congruence. cbn [fst snd forallb is_disc]. rewrite !Z.eqb_refl. reflexivity.
  - rewrite set_flags_live by congruence. cbn [fst snd forallb is_disc]. rewrite !Z.eqb_refl. reflexivity.
Qed.

(* ================================================================== the theorems used by Properties_C13.v *)
Theorem outcome_ok : forall ops, check_run ok_outcome init_state ops = true.
Proof. intros ops. apply (check_run_inv TopInv); [exact step_inv | exact ok_outcome_step | exact TopInv_init]. Qed.

Theorem is_ok : forall ops, check_run ok_is init_state ops = true.
Proof. intros ops. apply (check_run_inv TopInv); [exact step_inv | exact ok_is_step | exact TopInv_init]. Qed.

Theorem flags_ok : forall ops, check_run ok_flags init_state ops = true.
Proof. intros ops. apply (check_run_inv (fun _ => True)); [auto | intros s o _; apply ok_flags_step | exact I]. Qed.

Theorem stream_error_ok : forall ops, check_run ok_stream_error init_state ops = true.
Proof. intros ops. apply (check_run_inv TopInv); [exact step_inv | exact ok_stream_error_step | exact TopInv_init]. Qed.

(* the hypotheses of the auxiliary theorems are satisfiable *)
Example flags_all_words_hyps : st init_state = Disconnected /\ 0 <= 65 < 256.
Proof. split; [reflexivity|lia]. Qed.
Example timed_early_hyps : let s := timed_add TMissingBind 100 init_state in
  timed_lookup TMissingBind s = Some (false, 100) /\ 14000 - 100 < tperiod s TMissingBind.
Proof. vm_compute. split; reflexivity. Qed.
Example timed_due_hyps : let s := set_timed [(TMissingBind, true, 100)] init_state in
  crashed s = false /\ timed_lookup TMissingBind s = Some (true, 100) /\ tperiod s TMissingBind <= 15100 - 100.
Proof. vm_compute. repeat split; discriminate. Qed.
Example connect_wait_hyps : let s := set_st Connecting (set_cur_ep EpHang init_state) in
  crashed s = false /\ st s = Connecting /\ cur_ep s = EpHang.
Proof. cbv zeta. repeat split. Qed.
