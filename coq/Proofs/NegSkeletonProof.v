(* The translator tie of the connection automaton: the registrations, time-out macros, "may call" edges and
   reset assignments found in auth.c / conn.c on this run are the ones the model was written against. *)
Require Import LV.Gen.Gen_neg LV.Spec.NegSkeleton.
Lemma skeleton_matches : skeleton_ok skeleton = true.
Proof. vm_compute. reflexivity. Qed.
