(* C10 - proofs about the model of src/parser_expat.c (ParserLayerModel) against ParserSpec. *)
Require Import LV.Common.Bytes LV.Gen.Gen_parser LV.Spec.ParserSpec LV.Model.ParserLayerModel.
Require Import Lia ZifyBool.
Local Open Scope Z_scope.
Ltac Zify.zify_post_hook ::= Z.div_mod_to_equations.

(* ==================================================================================== *)
(* 0. the constants found in the source                                                  *)
(* ==================================================================================== *)
Lemma Gen_parser_ok :
  sep_not_xml_char namespace_sep = true /\ 0 <= inner_text_padding /\
  parser_new_depth = 0 /\ parser_new_inner_text_size = 0 /\ parser_new_inner_text_used = 0 /\
  chars_min_depth = 2.
Proof. vm_compute. repeat split; congruence. Qed.

Lemma padding_nonneg : 0 <= inner_text_padding.
Proof. apply Gen_parser_ok. Qed.
Lemma chars_min_depth_2 : chars_min_depth = 2.
Proof. apply Gen_parser_ok. Qed.

(* ==================================================================================== *)
(* 1. qualified names                                                                    *)
(* ==================================================================================== *)
Lemma split_sep_before : forall q,
  before_sep namespace_sep q = match split_sep q with Some (a, _) => Some a | None => None end.
Proof.
  induction q as [|c r IH]; cbn [before_sep split_sep]; [reflexivity|].
  destruct (c =? namespace_sep); [reflexivity|].
  rewrite IH. destruct (split_sep r) as [[a b]|]; reflexivity.
Qed.
Lemma split_sep_after : forall q,
  after_sep namespace_sep q = match split_sep q with Some (_, b) => Some b | None => None end.
Proof.
  induction q as [|c r IH]; cbn [after_sep split_sep]; [reflexivity|].
  destruct (c =? namespace_sep); [reflexivity|].
  rewrite IH. destruct (split_sep r) as [[a b]|]; reflexivity.
Qed.

Lemma xml_name_spec : forall q, xml_name q = spec_local namespace_sep q.
Proof.
  intro q. unfold xml_name, spec_local. rewrite split_sep_after.
  destruct (split_sep q) as [[a b]|]; reflexivity.
Qed.
Lemma xml_namespace_spec : forall q, xml_namespace q = spec_ns namespace_sep q.
Proof.
  intro q. unfold xml_namespace, spec_ns. rewrite split_sep_before.
  destruct (split_sep q) as [[a b]|]; reflexivity.
Qed.
Lemma has_sep_spec : forall k, has_sep k = qualified namespace_sep k.
Proof.
  intro k. unfold has_sep, qualified. rewrite split_sep_before.
  destruct (split_sep k) as [[a b]|]; reflexivity.
Qed.

(* ==================================================================================== *)
(* 2. attributes: replace-or-append = finite map (first position, last value)            *)
(* ==================================================================================== *)
Lemma str_eqb_refl : forall a, str_eqb a a = true.
Proof. intro a. unfold str_eqb. destruct (list_eq_dec Z.eq_dec a a); congruence. Qed.
Lemma str_eqb_eq : forall a b, str_eqb a b = true <-> a = b.
Proof. intros a b. unfold str_eqb. destruct (list_eq_dec Z.eq_dec a b); split; congruence. Qed.
Lemma str_eqb_neq : forall a b, str_eqb a b = false <-> a <> b.
Proof. intros a b. unfold str_eqb. destruct (list_eq_dec Z.eq_dec a b); split; congruence. Qed.
Lemma str_eqb_sym : forall a b, str_eqb a b = str_eqb b a.
Proof.
  intros a b. destruct (str_eqb a b) eqn:E.
  - apply str_eqb_eq in E. subst. symmetry. apply str_eqb_refl.
  - symmetry. apply str_eqb_neq. apply str_eqb_neq in E. congruence.
Qed.

(* value stored under k, d if absent *)
Fixpoint lookup (k : str) (l : alist) (d : str) : str :=
  match l with
  | [] => d
  | (k', v) :: r => if str_eqb k k' then v else lookup k r d
  end.
Definition keys (l : alist) : list str := map fst l.
Definition has_key (k : str) (l : alist) : bool := existsb (str_eqb k) (keys l).

Lemma attr_set_keys_in : forall k v l, has_key k l = true -> keys (attr_set k v l) = keys l.
Proof.
  induction l as [|[k' v'] r IH]; cbn; [discriminate|].
  intro H. destruct (str_eqb k k') eqn:E; cbn; [reflexivity|].
  cbn in H. f_equal. apply IH. exact H.
Qed.
Lemma attr_set_keys_out : forall k v l, has_key k l = false -> attr_set k v l = l ++ [(k, v)].
Proof.
  induction l as [|[k' v'] r IH]; cbn; [reflexivity|].
  intro H. apply orb_false_iff in H. destruct H as [H1 H2]. rewrite H1. f_equal. apply IH. exact H2.
Qed.
Lemma lookup_attr_set_in : forall k v l k' d, has_key k l = true -> NoDup (keys l) ->
  lookup k' (attr_set k v l) d = if str_eqb k' k then v else lookup k' l d.
Proof.
  induction l as [|[k0 v0] r IH]; cbn; [discriminate|].
  intros k' d H ND. inversion ND as [|? ? Hnin ND']; subst.
  destruct (str_eqb k k0) eqn:E.
  - apply str_eqb_eq in E. subst k0. cbn. destruct (str_eqb k' k); reflexivity.
  - cbn in H. cbn. destruct (str_eqb k' k0) eqn:E2.
    + apply str_eqb_eq in E2. subst k0.
      destruct (str_eqb k' k) eqn:E3; [|reflexivity].
      apply str_eqb_eq in E3. subst. rewrite str_eqb_refl in E. discriminate.
    + apply IH; assumption.
Qed.
Lemma lookup_app_out : forall k' l k v d,
  lookup k' (l ++ [(k, v)]) d = if has_key k' l then lookup k' l d else if str_eqb k' k then v else d.
Proof.
  induction l as [|[k0 v0] r IH]; intros; cbn; [reflexivity|].
  destruct (str_eqb k' k0); cbn; [reflexivity|]. apply IH.
Qed.

(* the fold performed by the C loops *)
Fixpoint set_all (l : alist) (acc : alist) : alist :=
  match l with [] => acc | (k, v) :: r => set_all r (attr_set k v acc) end.

Lemma first_keys_ext : forall l s1 s2,
  (forall x, existsb (str_eqb x) s1 = existsb (str_eqb x) s2) -> first_keys s1 l = first_keys s2 l.
Proof.
  induction l as [|[k v] r IH]; intros s1 s2 H; cbn; [reflexivity|].
  rewrite <- H. destruct (existsb (str_eqb k) s1); [apply IH; exact H|].
  f_equal. apply IH. intro x. cbn. rewrite H. reflexivity.
Qed.
Lemma existsb_app_single : forall x s k,
  existsb (str_eqb x) (s ++ [k]) = existsb (str_eqb x) (k :: s).
Proof.
  intros. rewrite existsb_app. cbn. rewrite orb_false_r. apply orb_comm.
Qed.

Lemma has_key_lookup_irrel : forall k l d d', has_key k l = true -> lookup k l d = lookup k l d'.
Proof.
  induction l as [|[k0 v0] r IH]; cbn; [discriminate|].
  intros d d' H. destruct (str_eqb k k0); [reflexivity|]. apply IH. exact H.
Qed.

Lemma lookup_absent : forall k l d, has_key k l = false -> lookup k l d = d.
Proof.
  induction l as [|[k0 v0] r IH]; cbn; [reflexivity|].
  intros d H. apply orb_false_iff in H. destruct H as [H1 H2]. rewrite H1. apply IH. exact H2.
Qed.

Lemma NoDup_snoc : forall (A : Type) (l : list A) x, NoDup l -> ~ In x l -> NoDup (l ++ [x]).
Proof.
  induction l as [|a l IH]; intros x ND Hnin; cbn.
  - constructor; [intros []|constructor].
  - inversion ND; subst. constructor.
    + intro Hin. apply in_app_or in Hin. destruct Hin as [Hin|[->|[]]]; [contradiction|].
      apply Hnin. left. reflexivity.
    + apply IH; [assumption|]. intro. apply Hnin. right. assumption.
Qed.

Lemma set_all_spec : forall l acc, NoDup (keys acc) ->
  set_all l acc =
  map (fun k => (k, last_value k l (lookup k acc []))) (keys acc ++ first_keys (keys acc) l).
Proof.
  induction l as [|[k v] r IH]; intros acc ND.
  - cbn. rewrite app_nil_r. unfold keys. rewrite map_map.
    induction acc as [|[k0 v0] acc IHa]; cbn; [reflexivity|].
    inversion ND as [|? ? Hnin ND']; subst. rewrite str_eqb_refl. f_equal.
    rewrite IHa at 1 by assumption. apply map_ext_in. intros [k1 v1] Hin. cbn.
    destruct (str_eqb k1 k0) eqn:E; [|reflexivity].
    apply str_eqb_eq in E. subst. exfalso. apply Hnin. apply in_map_iff. exists (k0, v1). auto.
  - cbn [set_all first_keys last_value].
    destruct (existsb (str_eqb k) (keys acc)) eqn:HK.
    + (* key present: value replaced in place *)
      rewrite IH by (rewrite attr_set_keys_in; assumption).
      rewrite attr_set_keys_in by assumption.
      apply map_ext. intro k'. f_equal. f_equal.
      apply lookup_attr_set_in; assumption.
    + (* new key appended *)
      rewrite attr_set_keys_out by assumption.
      assert (NDk : NoDup (keys (acc ++ [(k, v)]))).
      { unfold keys. rewrite map_app. cbn. apply NoDup_snoc; [assumption|].
        intro Hin. assert (existsb (str_eqb k) (keys acc) = true).
        { apply existsb_exists. exists k. split; [assumption|apply str_eqb_refl]. }
        congruence. }
      rewrite IH by assumption.
      assert (Hk : keys (acc ++ [(k, v)]) = keys acc ++ [k]) by (unfold keys; rewrite map_app; reflexivity).
      rewrite Hk. rewrite <- app_assoc. cbn [app].
      rewrite (first_keys_ext r (keys acc ++ [k]) (k :: keys acc)) by (intro; apply existsb_app_single).
      rewrite !map_app. cbn [map]. f_equal; [|f_equal].
      * apply map_ext_in. intros k' Hin. f_equal.
        rewrite lookup_app_out.
        assert (has_key k' acc = true) as ->.
        { apply existsb_exists. exists k'. split; [assumption|apply str_eqb_refl]. }
        destruct (str_eqb k' k) eqn:E.
        -- apply str_eqb_eq in E. subst k'.
           assert (existsb (str_eqb k) (keys acc) = true).
           { apply existsb_exists. exists k. split; [assumption|apply str_eqb_refl]. }
           congruence.
        -- reflexivity.
      * rewrite lookup_app_out. unfold has_key. rewrite HK. rewrite !str_eqb_refl. reflexivity.
      * apply map_ext_in. intros k' Hin. f_equal. rewrite lookup_app_out.
        (* k' was first seen after k: it is neither in acc nor k *)
        assert (Hnot : existsb (str_eqb k') (k :: keys acc) = false).
        { clear - Hin. revert Hin. generalize (k :: keys acc) as seen.
          induction r as [|[k1 v1] r IHr]; cbn; intros seen Hin; [contradiction|].
          destruct (existsb (str_eqb k1) seen) eqn:E1.
          - apply IHr. exact Hin.
          - destruct Hin as [->|Hin]; [exact E1|].
            specialize (IHr _ Hin). cbn in IHr. apply orb_false_iff in IHr. apply IHr. }
        cbn in Hnot. apply orb_false_iff in Hnot. destruct Hnot as [Hn1 Hn2].
        unfold has_key. rewrite Hn2, Hn1. rewrite (lookup_absent k' acc) by exact Hn2. reflexivity.
Qed.

Lemma set_all_app : forall l1 l2 acc, set_all (l1 ++ l2) acc = set_all l2 (set_all l1 acc).
Proof. induction l1 as [|[k v] r IH]; intros; cbn; [reflexivity|apply IH]. Qed.

Definition strip (l : alist) : alist :=
  map (fun kv : str * str => (spec_local namespace_sep (fst kv), snd kv)) l.

Lemma set_attributes_pass_spec : forall pass attrs acc,
  set_attributes_pass pass attrs acc =
  set_all (strip (filter (fun kv => Bool.eqb (negb (qualified namespace_sep (fst kv))) pass) attrs)) acc.
Proof.
  induction attrs as [|[k v] r IH]; intro acc; cbn [set_attributes_pass filter fst]; [reflexivity|].
  rewrite has_sep_spec.
  destruct (Bool.eqb (negb (qualified namespace_sep k)) pass); [|apply IH].
  cbn [strip map set_all fst snd]. rewrite xml_name_spec. apply IH.
Qed.

(* the attribute table _start_element builds for a new element *)
Definition model_attrs (q : str) (attrs : alist) : alist :=
  let a := set_attributes attrs [] in
  match xml_namespace q with Some n => attr_set xmlns_key n a | None => a end.

Lemma model_attrs_spec : forall q attrs, model_attrs q attrs = spec_attrs namespace_sep q attrs.
Proof.
  intros q attrs. unfold model_attrs, spec_attrs, set_attributes.
  rewrite !set_attributes_pass_spec. rewrite xml_namespace_spec.
  set (lq := strip (filter (fun kv => Bool.eqb (negb (qualified namespace_sep (fst kv))) false) attrs)).
  set (lu := strip (filter (fun kv => Bool.eqb (negb (qualified namespace_sep (fst kv))) true) attrs)).
  assert (Hq : lq = map (fun kv : str * str => (spec_local namespace_sep (fst kv), snd kv))
                        (filter (fun kv => qualified namespace_sep (fst kv)) attrs)).
  { unfold lq, strip. f_equal. apply filter_ext. intros [k v]. cbn.
    destruct (qualified namespace_sep k); reflexivity. }
  assert (Hu : lu = map (fun kv : str * str => (spec_local namespace_sep (fst kv), snd kv))
                        (filter (fun kv => negb (qualified namespace_sep (fst kv))) attrs)).
  { unfold lu, strip. f_equal. apply filter_ext. intros [k v]. cbn.
    destruct (qualified namespace_sep k); reflexivity. }
  rewrite <- Hq, <- Hu.
  assert (Hfin : forall l, set_all l [] = finmap_of l).
  { intro l. rewrite set_all_spec by constructor. reflexivity. }
  destruct (spec_ns namespace_sep q) as [n|].
  - change (attr_set xmlns_key n (set_all lu (set_all lq []))) with
      (set_all [(xmlns_key, n)] (set_all lu (set_all lq []))).
    rewrite <- Hfin. rewrite !set_all_app. reflexivity.
  - rewrite <- Hfin. rewrite !set_all_app. reflexivity.
Qed.

(* ==================================================================================== *)
(* 3. invariants of the state                                                            *)
(* ==================================================================================== *)
(* the buffer bookkeeping: NULL <-> both counters 0; otherwise strlen <= used < size *)
Definition inv_text (st : pstate) : Prop :=
  match inner_text st with
  | None => it_size st = 0 /\ it_used st = 0
  | Some c => zlen c <= it_used st < it_size st
  end.
(* depth and the chain of open stanza elements agree *)
Definition inv_shape (st : pstate) : Prop :=
  0 <= depth st /\ Z.of_nat (length (stanza st)) = Z.max 0 (depth st - 1).

Lemma zlen_app : forall (A : Type) (a b : list A), zlen (a ++ b) = zlen a + zlen b.
Proof. intros. unfold zlen. rewrite app_length. lia. Qed.
Lemma zlen_nonneg : forall (A : Type) (a : list A), 0 <= zlen a.
Proof. intros. unfold zlen. lia. Qed.
Lemma until_nul_len : forall s, zlen (until_nul s) <= zlen s.
Proof.
  induction s as [|c r IH]; cbn; [lia|]. destruct (c =? 0); unfold zlen in *; cbn [length]; lia.
Qed.
Lemma until_nul_nul_free : forall s, nul_free s -> until_nul s = s.
Proof.
  induction s as [|c r IH]; intro H; cbn; [reflexivity|].
  destruct (c =? 0) eqn:E.
  - exfalso. apply H. left. lia.
  - f_equal. apply IH. intro Hin. apply H. right. exact Hin.
Qed.
Lemma firstn_all_z : forall (c : str) n, zlen c <= n -> firstn (Z.to_nat n) c = c.
Proof. intros c n H. apply firstn_all2. unfold zlen in H. lia. Qed.

Lemma init_inv_text : inv_text init_state.
Proof. cbn. split; reflexivity. Qed.
Lemma init_inv_shape : inv_shape init_state.
Proof. cbn. split; reflexivity. Qed.

(* what _characters does to a state satisfying inv_text: never fails; appends s (up to a NUL) *)
Definition text_of (st : pstate) : str := match inner_text st with Some c => c | None => [] end.

Lemma characters_ok : forall st s, inv_text st ->
  if depth st <? chars_min_depth then characters st s = Ok st []
  else exists st', characters st s = Ok st' [] /\ depth st' = depth st /\ stanza st' = stanza st /\
                   inner_text st' = Some (text_of st ++ until_nul s) /\ inv_text st'.
Proof.
  intros st s Hi. unfold characters. destruct (depth st <? chars_min_depth); [reflexivity|].
  pose proof padding_nonneg as Hp. pose proof (until_nul_len s) as Hu. pose proof (zlen_nonneg _ s) as Hs.
  unfold inv_text in Hi. unfold text_of.
  destruct (it_size st <=? it_used st + zlen s) eqn:Hre.
  - destruct (inner_text st) as [c|] eqn:Hc.
    + destruct (it_used st + zlen s + 1 + inner_text_padding <? it_used st + 1) eqn:E1; [lia|].
      rewrite firstn_all_z by lia. unfold strncat_text.
      destruct (it_used st + zlen s + 1 + inner_text_padding <? zlen (c ++ until_nul s) + 1) eqn:E2.
      { rewrite zlen_app in E2. lia. }
      eexists. split; [reflexivity|]. cbn. repeat split; try reflexivity.
      * rewrite zlen_app. lia.
      * lia.
    + destruct Hi as [Hz Hu0]. rewrite Hu0. cbn [Z.eqb]. unfold strncat_text. cbn [app].
      destruct (0 + zlen s + 1 + inner_text_padding <? zlen (until_nul s) + 1) eqn:E2; [lia|].
      eexists. split; [reflexivity|]. cbn. repeat split; try reflexivity; lia.
  - destruct (inner_text st) as [c|] eqn:Hc; [|lia].
    unfold strncat_text.
    destruct (it_size st <? zlen (c ++ until_nul s) + 1) eqn:E2.
    { rewrite zlen_app in E2. lia. }
    eexists. split; [reflexivity|]. cbn. repeat split; try reflexivity.
    + rewrite zlen_app. lia.
    + lia.
Qed.

Lemma complete_inner_text_inv : forall st st1, inv_text st -> complete_inner_text st = Some st1 ->
  inv_text st1 /\ depth st1 = depth st /\ inner_text st1 = None /\
  length (stanza st1) = length (stanza st).
Proof.
  intros st st1 Hi H. unfold complete_inner_text in H.
  destruct (inner_text st) as [t|] eqn:Ht.
  - destruct (stanza st) as [|f p] eqn:Hs; [discriminate|]. inversion H; subst; clear H.
    cbn. unfold inv_text. cbn. repeat split; reflexivity.
  - inversion H; subst. repeat split; try assumption; reflexivity.
Qed.

(* every step keeps the buffer invariant, whatever the event *)
Lemma step_inv_text : forall st e st' o, inv_text st -> step st e = Ok st' o -> inv_text st'.
Proof.
  intros st e st' o Hi H. destruct e as [q a|q|s|]; cbn [step step_with] in H.
  - unfold start_element in H.
    destruct (depth st =? 0).
    { inversion H; subst. exact Hi. }
    destruct (stanza st) as [|f p] eqn:Hs.
    + destruct (negb (depth st =? 1)); inversion H; subst; exact Hi.
    + destruct (complete_inner_text st) as [st1|] eqn:Hc; [|discriminate].
      inversion H; subst. apply complete_inner_text_inv in Hc; [|exact Hi].
      destruct Hc as [Hi1 _]. exact Hi1.
  - unfold end_element in H.
    set (st0 := set_depth st (depth st - 1)) in *.
    assert (Hi0 : inv_text st0) by exact Hi.
    destruct (depth st0 =? 0).
    { inversion H; subst. exact Hi0. }
    destruct (complete_inner_text st0) as [st1|] eqn:Hc; [|discriminate].
    apply complete_inner_text_inv in Hc; [|exact Hi0]. destruct Hc as [Hi1 _].
    destruct (stanza st1) as [|f [|p rest]]; [discriminate| |]; inversion H; subst; exact Hi1.
  - pose proof (characters_ok st s Hi) as C.
    destruct (depth st <? chars_min_depth).
    + rewrite C in H. inversion H; subst. exact Hi.
    + destruct C as [st2 [C1 [_ [_ [_ C5]]]]]. rewrite C1 in H. inversion H; subst. exact C5.
  - inversion H; subst. cbn. split; reflexivity.
Qed.

(* run: composition *)
Lemma run_with_app : forall rst l1 l2 st,
  run_with rst st (l1 ++ l2) =
  match run_with rst st l1 with
  | Ok st1 o1 => match run_with rst st1 l2 with Ok st2 o2 => Ok st2 (o1 ++ o2) | f => f end
  | f => f
  end.
Proof.
  induction l1 as [|e r IH]; intros l2 st; cbn [run_with app].
  - destruct (run_with rst st l2); reflexivity.
  - destruct (step_with rst st e) as [st1 o1| | |]; try reflexivity.
    rewrite IH. destruct (run_with rst st1 r) as [st2 o2| | |]; try reflexivity.
    destruct (run_with rst st2 l2) as [st3 o3| | |]; try reflexivity.
    rewrite app_assoc. reflexivity.
Qed.

Lemma run_inv_text : forall evs st st' o, inv_text st -> run_from st evs = Ok st' o -> inv_text st'.
Proof.
  induction evs as [|e r IH]; intros st st' o Hi H; cbn in H.
  - inversion H; subst. exact Hi.
  - fold step in H. destruct (step st e) as [st1 o1| | |] eqn:Hs; try discriminate.
    fold run_from in H. destruct (run_from st1 r) as [st2 o2| | |] eqn:Hr; try discriminate.
    inversion H; subst. eapply IH; [|exact Hr]. eapply step_inv_text; eassumption.
Qed.

(* ==================================================================================== *)
(* 4. re-cutting of character data                                                       *)
(* ==================================================================================== *)
(* two states that can only differ in inner_text_size / inner_text_used *)
Definition steq (a b : pstate) : Prop :=
  depth a = depth b /\ stanza a = stanza b /\ inner_text a = inner_text b /\ inv_text a /\ inv_text b.
Definition req (r r' : result) : Prop :=
  match r, r' with
  | Ok a o, Ok b o' => steq a b /\ o = o'
  | Crash, Crash => True
  | Uninit, Uninit => True
  | OOB, OOB => True
  | _, _ => False
  end.

Lemma steq_refl : forall a, inv_text a -> steq a a.
Proof. intros a H. repeat split; assumption. Qed.
Lemma steq_sym : forall a b, steq a b -> steq b a.
Proof. intros a b [H1 [H2 [H3 [H4 H5]]]]. repeat split; auto. Qed.
Lemma steq_trans : forall a b c, steq a b -> steq b c -> steq a c.
Proof.
  intros a b c [H1 [H2 [H3 [H4 H5]]]] [G1 [G2 [G3 [G4 G5]]]]. repeat split; try congruence; assumption.
Qed.
Lemma req_trans : forall r1 r2 r3, req r1 r2 -> req r2 r3 -> req r1 r3.
Proof.
  intros [a o| | |] [b o'| | |] [c o''| | |]; cbn; try tauto.
  intros [H1 H2] [H3 H4]. split; [eapply steq_trans; eassumption|congruence].
Qed.
Lemma req_sym : forall r1 r2, req r1 r2 -> req r2 r1.
Proof.
  intros [a o| | |] [b o'| | |]; cbn; try tauto. intros [H1 H2]. split; [apply steq_sym; assumption|congruence].
Qed.
Lemma req_observe : forall r r', req r r' -> observe r = observe r'.
Proof.
  intros [a o| | |] [b o'| | |]; cbn; try tauto. intros [_ H]. congruence.
Qed.

Lemma complete_inner_text_steq : forall a b, steq a b ->
  match complete_inner_text a, complete_inner_text b with
  | Some a1, Some b1 => steq a1 b1
  | None, None => True
  | _, _ => False
  end.
Proof.
  intros a b [H1 [H2 [H3 [H4 H5]]]]. unfold complete_inner_text. rewrite <- H3, <- H2.
  destruct (inner_text a) as [t|] eqn:Ht.
  - destruct (stanza a) as [|f p]; [exact I|].
    rewrite H1. repeat split; cbn; reflexivity.
  - repeat split; try assumption. congruence.
Qed.

Lemma step_steq : forall e a b, steq a b -> req (step a e) (step b e).
Proof.
  intros e a b Hab. pose proof Hab as [H1 [H2 [H3 [H4 H5]]]].
  destruct e as [q at_|q|s|]; cbn [step step_with].
  - unfold start_element. rewrite <- H1, <- H2.
    destruct (depth a =? 0).
    { cbn. split; [|reflexivity]. repeat split; cbn; try assumption; congruence. }
    destruct (stanza a) as [|f p] eqn:Hs.
    + destruct (negb (depth a =? 1)); cbn; (split; [|reflexivity]); repeat split; cbn; try assumption; congruence.
    + pose proof (complete_inner_text_steq a b Hab) as C.
      destruct (complete_inner_text a) as [a1|], (complete_inner_text b) as [b1|]; try contradiction; [|exact I].
      destruct C as [C1 [C2 [C3 [C4 C5]]]].
      cbn. split; [|reflexivity]. repeat split; cbn; try assumption; congruence.
  - unfold end_element.
    set (a0 := set_depth a (depth a - 1)). set (b0 := set_depth b (depth b - 1)).
    assert (H0 : steq a0 b0).
    { repeat split; cbn; try assumption; congruence. }
    assert (Hd : depth a0 = depth b0) by (cbn; congruence). rewrite <- Hd.
    destruct (depth a0 =? 0). { cbn. split; [exact H0|reflexivity]. }
    pose proof (complete_inner_text_steq a0 b0 H0) as C.
    destruct (complete_inner_text a0) as [a1|], (complete_inner_text b0) as [b1|]; try contradiction; [|exact I].
    destruct C as [C1 [C2 [C3 [C4 C5]]]]. rewrite <- C2.
    destruct (stanza a1) as [|f [|p rest]]; [exact I| |]; cbn; (split; [|reflexivity]);
      repeat split; cbn; try assumption; congruence.
  - pose proof (characters_ok a s H4) as Ca. pose proof (characters_ok b s H5) as Cb.
    rewrite <- H1 in Cb. destruct (depth a <? chars_min_depth).
    + rewrite Ca, Cb. cbn. split; [exact Hab|reflexivity].
    + destruct Ca as [a' [A1 [A2 [A3 [A4 A5]]]]]. destruct Cb as [b' [B1 [B2 [B3 [B4 B5]]]]].
      rewrite A1, B1. cbn. split; [|reflexivity].
      unfold text_of in *. rewrite <- H3 in B4.
      repeat split; try assumption; congruence.
  - cbn. split; [|reflexivity]. repeat split; reflexivity.
Qed.

Lemma run_steq : forall evs a b, steq a b -> req (run_from a evs) (run_from b evs).
Proof.
  induction evs as [|e r IH]; intros a b Hab; cbn [run_from run_with].
  - cbn. split; [exact Hab|reflexivity].
  - fold step. fold run_from. pose proof (step_steq e a b Hab) as S.
    destruct (step a e) as [a1 o1| | |], (step b e) as [b1 o1'| | |]; cbn in S; try contradiction; try exact I.
    destruct S as [S1 S2]. subst o1'. pose proof (IH a1 b1 S1) as R.
    destruct (run_from a1 r) as [a2 o2| | |], (run_from b1 r) as [b2 o2'| | |]; cbn in R; try contradiction; try exact I.
    destruct R as [R1 R2]. cbn. split; [exact R1|congruence].
Qed.

(* two pieces in a row = the joined piece (the first piece must not contain a NUL) *)
Lemma chars_join : forall st s t, inv_text st -> nul_free s ->
  req (run_from st [SChars s; SChars t]) (step st (SChars (s ++ t))).
Proof.
  intros st s t Hi Hs. cbn [run_from run_with step step_with].
  pose proof (characters_ok st s Hi) as C1. pose proof (characters_ok st (s ++ t) Hi) as C2.
  destruct (depth st <? chars_min_depth) eqn:Hd.
  - rewrite C1. pose proof (characters_ok st t Hi) as C3. rewrite Hd in C3. rewrite C3, C2.
    cbn. split; [apply steq_refl; exact Hi|reflexivity].
  - destruct C1 as [st1 [A1 [A2 [A3 [A4 A5]]]]]. rewrite A1.
    pose proof (characters_ok st1 t A5) as C3. rewrite A2, Hd in C3.
    destruct C3 as [st2 [B1 [B2 [B3 [B4 B5]]]]]. rewrite B1.
    destruct C2 as [st3 [D1 [D2 [D3 [D4 D5]]]]]. rewrite D1.
    cbn. split; [|reflexivity]. repeat split; try assumption; try congruence.
    rewrite B4, D4. f_equal. unfold text_of at 1. rewrite A4.
    rewrite (until_nul_nul_free s Hs). rewrite <- app_assoc. f_equal.
    clear - Hs. induction s as [|c r IH]; cbn; [reflexivity|].
    destruct (c =? 0) eqn:E.
    + exfalso. apply Hs. left. lia.
    + f_equal. apply IH. intro H. apply Hs. right. exact H.
Qed.

Lemma merge_chars_nul_free : forall evs, Forall ev_nul_free evs -> Forall ev_nul_free (merge_chars evs).
Proof.
  induction evs as [|e r IH]; intro H; cbn [merge_chars]; [constructor|].
  inversion H as [|? ? He Hr]; subst. specialize (IH Hr).
  destruct e as [q a|q|s|]; try (constructor; assumption).
  destruct (merge_chars r) as [|[q a|q|t|] r'] eqn:Hm; try (constructor; assumption).
  inversion IH as [|? ? Ht Hr']; subst. constructor; [|assumption].
  cbn in *. unfold nul_free in *. intro Hin. apply in_app_or in Hin. tauto.
Qed.

Lemma run_from_cons : forall st e r,
  run_from st (e :: r) =
  match step st e with
  | Ok st1 o1 => match run_from st1 r with Ok st2 o2 => Ok st2 (o1 ++ o2) | f => f end
  | f => f
  end.
Proof. reflexivity. Qed.

(* the same first event on equivalent states, then equivalent continuations *)
Lemma req_cons : forall e a b r r', steq a b ->
  (forall a1 b1, steq a1 b1 -> req (run_from a1 r) (run_from b1 r')) ->
  req (run_from a (e :: r)) (run_from b (e :: r')).
Proof.
  intros e a b r r' Hab K. rewrite !run_from_cons.
  pose proof (step_steq e a b Hab) as S.
  destruct (step a e) as [a1 o1| | |], (step b e) as [b1 o1'| | |]; cbn in S; try contradiction; try exact I.
  destruct S as [S1 S2]. subst o1'. pose proof (K a1 b1 S1) as R.
  destruct (run_from a1 r) as [a2 o2| | |], (run_from b1 r') as [b2 o2'| | |]; cbn in R; try contradiction; try exact I.
  destruct R as [R1 R2]. cbn. split; [exact R1|congruence].
Qed.

Lemma merge_chars_nil : forall r, merge_chars r = [] -> r = [].
Proof.
  intros [|e3 r3] Hm; [reflexivity|]. cbn in Hm. destruct e3; try discriminate.
  destruct (merge_chars r3) as [|[]]; discriminate.
Qed.

Lemma run_merge : forall evs a b, steq a b -> Forall ev_nul_free evs ->
  req (run_from a evs) (run_from b (merge_chars evs)).
Proof.
  induction evs as [|e r IH]; intros a b Hab Hn.
  - cbn. split; [exact Hab|reflexivity].
  - inversion Hn as [|? ? He Hr]; subst.
    destruct e as [q at_|q|s|];
      try (cbn [merge_chars]; apply req_cons; [exact Hab|intros a1 b1 H1; apply IH; assumption]).
    cbn [merge_chars].
    remember (merge_chars r) as mr eqn:Hm.
    assert (IH' : forall a1 b1, steq a1 b1 -> req (run_from a1 r) (run_from b1 mr)).
    { intros a1 b1 H1. subst mr. apply IH; assumption. }
    destruct mr as [|e2 r'].
    { apply req_cons; assumption. }
    destruct e2 as [q2 at2|q2|t|]; try (apply req_cons; assumption).
    (* SChars s :: r   against   SChars (s ++ t) :: r' *)
    pose proof Hab as [H1 [H2 [H3 [H4 H5]]]].
    assert (Hstep : exists a1, step a (SChars s) = Ok a1 [] /\ inv_text a1).
    { cbn [step step_with]. pose proof (characters_ok a s H4) as C.
      destruct (depth a <? chars_min_depth).
      - exists a. split; assumption.
      - destruct C as [a1 [C1 [_ [_ [_ C5]]]]]. exists a1. split; assumption. }
    destruct Hstep as [a1 [Hs1 Hi1]].
    pose proof (IH' a1 a1 (steq_refl _ Hi1)) as R0.
    assert (Hns : nul_free s) by exact He.
    pose proof (chars_join a s t H4 Hns) as J.
    rewrite run_from_cons in J. rewrite Hs1 in J.
    rewrite (run_from_cons a1 (SChars t) []) in J.
    rewrite (run_from_cons a (SChars s) r). rewrite Hs1.
    rewrite (run_from_cons a1 (SChars t) r') in R0.
    rewrite (run_from_cons b (SChars (s ++ t)) r').
    pose proof (step_steq (SChars (s ++ t)) a b Hab) as S.
    destruct (step a1 (SChars t)) as [a2 o2| | |].
    + cbn [run_from run_with] in J.
      destruct (step a (SChars (s ++ t))) as [a3 o3| | |]; cbn in J; try contradiction.
      destruct (step b (SChars (s ++ t))) as [b3 o3'| | |]; cbn in S; try contradiction.
      destruct J as [J1 J2]. destruct S as [S1 S2]. subst.
      pose proof (run_steq r' a2 b3 (steq_trans _ _ _ J1 S1)) as R.
      destruct (run_from a1 r) as [x ox| | |]; destruct (run_from a2 r') as [y oy| | |]; cbn in R0; try contradiction;
        destruct (run_from b3 r') as [z oz| | |]; cbn in R; try contradiction; try exact I.
      destruct R0 as [R01 R02]. destruct R as [R1 R2]. cbn. rewrite !app_nil_r in *. cbn [app] in *.
      split; [eapply steq_trans; eassumption|congruence].
    + destruct (step a (SChars (s ++ t))) as [a3 o3| | |]; cbn in J; try contradiction.
      destruct (step b (SChars (s ++ t))) as [b3 o3'| | |]; cbn in S; try contradiction.
      destruct (run_from a1 r) as [x ox| | |]; cbn in R0; try contradiction. exact I.
    + destruct (step a (SChars (s ++ t))) as [a3 o3| | |]; cbn in J; try contradiction.
      destruct (step b (SChars (s ++ t))) as [b3 o3'| | |]; cbn in S; try contradiction.
      destruct (run_from a1 r) as [x ox| | |]; cbn in R0; try contradiction. exact I.
    + destruct (step a (SChars (s ++ t))) as [a3 o3| | |]; cbn in J; try contradiction.
      destruct (step b (SChars (s ++ t))) as [b3 o3'| | |]; cbn in S; try contradiction.
      destruct (run_from a1 r) as [x ox| | |]; cbn in R0; try contradiction. exact I.
Qed.

Lemma chars_split_invariant_proof : forall evs evs',
  Forall ev_nul_free evs -> Forall ev_nul_free evs' -> same_up_to_cutting evs evs' ->
  observe (run evs) = observe (run evs').
Proof.
  intros evs evs' H1 H2 Hm. unfold same_up_to_cutting in Hm. unfold run.
  pose proof (run_merge evs init_state init_state (steq_refl _ init_inv_text) H1) as R1.
  pose proof (run_merge evs' init_state init_state (steq_refl _ init_inv_text) H2) as R2.
  rewrite <- Hm in R2.
  apply req_observe. eapply req_trans; [exact R1|apply req_sym; exact R2].
Qed.

(* ==================================================================================== *)
(* 5. a restart is a clean slate                                                         *)
(* ==================================================================================== *)
Lemma reset_is_init : forall st, step st SReset = Ok init_state [].
Proof. reflexivity. Qed.

Lemma reset_is_clean_slate_proof : forall evs st outs evs',
  run evs = Ok st outs -> run_from st (SReset :: evs') = run evs'.
Proof.
  intros evs st outs evs' _. rewrite run_from_cons. rewrite reset_is_init. unfold run.
  destruct (run_from init_state evs'); reflexivity.
Qed.

(* the whole history before the restart only contributes its outputs *)
Lemma run_across_reset : forall evs evs',
  run (evs ++ SReset :: evs') =
  match run evs with
  | Ok _ o1 => match run evs' with Ok st2 o2 => Ok st2 (o1 ++ o2) | f => f end
  | f => f
  end.
Proof.
  intros evs evs'. unfold run, run_from. rewrite run_with_app.
  destruct (run_with reset_state init_state evs) as [st1 o1| | |]; try reflexivity.
  change (run_with reset_state st1 (SReset :: evs')) with (run_from st1 (SReset :: evs')).
  rewrite run_from_cons, reset_is_init. unfold run_from.
  destruct (run_with reset_state init_state evs'); reflexivity.
Qed.

(* parser_reset as it was before fix C10-1 is NOT a clean slate: text pending at the restart leaves
   inner_text_size/used behind and the next short piece of character data is strncat'ed into NULL *)
Definition ex_open : list sax := [SStart [115] []; SStart [97] []; SStart [98] []].   (* <s><a><b> *)
Lemma unfixed_reset_not_clean :
  exists evs st outs evs',
    run_unfixed evs = Ok st outs /\
    run_with reset_state_unfixed st (SReset :: evs') <> run_unfixed evs' /\
    run_with reset_state_unfixed st (SReset :: evs') = Crash.
Proof.
  exists (ex_open ++ [SChars [97; 98; 99]]). eexists. eexists. exists (ex_open ++ [SChars [120; 121]]).
  split; [vm_compute; reflexivity|]. split; vm_compute; congruence.
Qed.
Lemma unfixed_reset_leaks_uninit :
  exists evs st outs evs',
    run_unfixed evs = Ok st outs /\ run_with reset_state_unfixed st (SReset :: evs') = Uninit.
Proof.
  exists (ex_open ++ [SChars [97; 98; 99]]). eexists. eexists. exists (ex_open ++ [SChars [120; 121; 122; 119]]).
  split; vm_compute; reflexivity.
Qed.

(* ==================================================================================== *)
(* 6. no failure outcome on anything expat can deliver                                   *)
(* ==================================================================================== *)
Ltac sc := unfold inv_shape; cbn [depth stanza inner_text it_size it_used set_depth set_stanza length].
Lemma step_safe : forall st e, inv_text st -> inv_shape st ->
  (match e with SEnd _ => 1 <= depth st | _ => True end) ->
  exists st' o, step st e = Ok st' o /\ inv_shape st' /\
    depth st' = match e with SStart _ _ => depth st + 1 | SEnd _ => depth st - 1
                           | SChars _ => depth st | SReset => 0 end.
Proof.
  intros st e Hi [Hd Hl] He. destruct e as [q a|q|s|]; cbn [step step_with].
  - unfold start_element. destruct (depth st =? 0) eqn:E0.
    { eexists. eexists. split; [reflexivity|]. sc. split; [|reflexivity]. split; [lia|]. rewrite Hl. lia. }
    destruct (stanza st) as [|f p] eqn:Hs.
    + cbn [length] in Hl. destruct (negb (depth st =? 1)) eqn:E1.
      { exfalso. lia. }
      eexists. eexists. split; [reflexivity|]. sc. split; [|reflexivity]. split; lia.
    + destruct (complete_inner_text st) as [st1|] eqn:Hc.
      * apply complete_inner_text_inv in Hc; [|exact Hi]. destruct Hc as [_ [_ [_ Hlen]]].
        eexists. eexists. split; [reflexivity|]. sc. split; [|reflexivity]. split; [lia|].
        rewrite Hs in Hlen. cbn [length] in *. lia.
      * unfold complete_inner_text in Hc. rewrite Hs in Hc. destruct (inner_text st); discriminate.
  - unfold end_element. set (st0 := set_depth st (depth st - 1)).
    assert (D0 : depth st0 = depth st - 1) by reflexivity.
    assert (S0 : stanza st0 = stanza st) by reflexivity.
    destruct (depth st0 =? 0) eqn:E0.
    { eexists. eexists. split; [reflexivity|]. split; [|exact D0]. split; [lia|]. rewrite S0, Hl. lia. }
    destruct (complete_inner_text st0) as [st1|] eqn:Hc.
    + apply complete_inner_text_inv in Hc; [|exact Hi]. destruct Hc as [_ [Hd1 [_ Hlen]]].
      rewrite S0 in Hlen.
      destruct (stanza st1) as [|f [|p rest]] eqn:Hs1; cbn [length] in Hlen.
      * exfalso. lia.
      * eexists. eexists. split; [reflexivity|]. sc. split; [|lia]. split; lia.
      * eexists. eexists. split; [reflexivity|]. sc. split; [|lia]. split; [lia|]. cbn [length] in *. lia.
    + exfalso. unfold complete_inner_text in Hc. rewrite S0 in Hc.
      destruct (stanza st) as [|f p] eqn:Hs; [cbn [length] in Hl; lia|].
      destruct (inner_text st0); discriminate.
  - pose proof (characters_ok st s Hi) as C. destruct (depth st <? chars_min_depth).
    + rewrite C. eexists. eexists. split; [reflexivity|]. split; [split; assumption|reflexivity].
    + destruct C as [st' [C1 [C2 [C3 _]]]]. rewrite C1. eexists. eexists. split; [reflexivity|].
      split; [|exact C2]. split; [lia|]. rewrite C3, C2. exact Hl.
  - eexists. eexists. split; [reflexivity|]. sc. split; [|reflexivity]. split; reflexivity.
Qed.

Lemma run_safe : forall evs st, inv_text st -> inv_shape st -> ends_matched (depth st) evs = true ->
  exists st' o, run_from st evs = Ok st' o.
Proof.
  induction evs as [|e r IH]; intros st Hi Hsh Hm.
  - eexists. eexists. reflexivity.
  - rewrite run_from_cons.
    assert (He : match e with SEnd _ => 1 <= depth st | _ => True end).
    { destruct e; try exact I. cbn in Hm. lia. }
    destruct (step_safe st e Hi Hsh He) as [st1 [o1 [Hs [Hsh1 Hd1]]]]. rewrite Hs.
    assert (Hi1 : inv_text st1) by (eapply step_inv_text; eassumption).
    assert (Hm1 : ends_matched (depth st1) r = true).
    { rewrite Hd1. destruct e; cbn in Hm; try exact Hm. apply andb_true_iff in Hm. apply Hm. }
    destruct (IH st1 Hi1 Hsh1 Hm1) as [st2 [o2 Hr]]. rewrite Hr. eexists. eexists. reflexivity.
Qed.

Lemma layer_never_crashes_proof : forall evs, ends_matched 0 evs = true ->
  exists st outs, run evs = Ok st outs.
Proof.
  intros evs H. apply run_safe; [exact init_inv_text|exact init_inv_shape|exact H].
Qed.

(* the hypothesis is needed: an end tag that expat would never report dereferences NULL *)
Lemma unmatched_end_crashes : run [SStart [115] []; SEnd [115]; SEnd [115]] = Crash.
Proof. reflexivity. Qed.

(* ==================================================================================== *)
(* 7. the layer builds exactly the specified trees                                       *)
(* ==================================================================================== *)
Notation sep := namespace_sep.

(* nested induction over abstract documents *)
Section xnode_ind2.
  Variable P : xnode -> Prop.
  Hypothesis HT : forall p ps, P (XText p ps).
  Hypothesis HE : forall q a cs, Forall P cs -> P (XElem q a cs).
  Fixpoint xnode_ind2 (n : xnode) : P n :=
    match n with
    | XText p ps => HT p ps
    | XElem q a cs =>
        HE q a cs ((fix go (l : list xnode) : Forall P l :=
                      match l with
                      | [] => Forall_nil P
                      | x :: r => Forall_cons x (xnode_ind2 x) (go r)
                      end) cs)
    end.
End xnode_ind2.

Lemma spec_tree_elem : forall q a cs,
  spec_tree sep (XElem q a cs) = Elem (spec_local sep q) (spec_attrs sep q a) (spec_children sep cs).
Proof.
  intros. cbn [spec_tree]. f_equal.
  induction cs as [|c r IH]; [reflexivity|].
  cbn [spec_children]. destruct c; rewrite IH; reflexivity.
Qed.

Lemma xnode_nul_free_elem : forall q a cs, xnode_nul_free (XElem q a cs) <-> Forall xnode_nul_free cs.
Proof.
  intros. cbn [xnode_nul_free]. induction cs as [|c r IH].
  - split; [constructor|exact (fun _ => I)].
  - split.
    + intros [H1 H2]. constructor; [exact H1|apply IH; exact H2].
    + intro H. inversion H; subst. split; [assumption|apply IH; assumption].
Qed.

(* a description of a state up to inner_text_size/used *)
Definition at_state (st : pstate) (d : Z) (pth : list frame) (tp : option str) : Prop :=
  depth st = d /\ stanza st = pth /\ inner_text st = tp /\ inv_text st.

Definition add_kids (f : frame) (l : list node) : frame :=
  {| f_name := f_name f; f_attrs := f_attrs f; f_kids := f_kids f ++ l |}.
Definition flush (tp : option str) : list node := match tp with Some t => [Text t] | None => [] end.
Definition content (tp : option str) : str := match tp with Some t => t | None => [] end.

Lemma add_kids_nil : forall f, add_kids f [] = f.
Proof. intros [n a k]. unfold add_kids. cbn. rewrite app_nil_r. reflexivity. Qed.
Lemma add_kids_app : forall f l1 l2, add_kids (add_kids f l1) l2 = add_kids f (l1 ++ l2).
Proof. intros [n a k] l1 l2. unfold add_kids. cbn. rewrite app_assoc. reflexivity. Qed.
Lemma add_kid_kids : forall f n, add_kid f n = add_kids f [n].
Proof. reflexivity. Qed.

(* what the layer does with a child list, given the text pending in front of it:
   (children appended to the open element, text still pending afterwards) *)
Fixpoint absorb (tp : option str) (cs : list xnode) : list node * option str :=
  match cs with
  | [] => ([], tp)
  | XText p ps :: r => absorb (Some (content tp ++ concat (p :: ps))) r
  | c :: r => let (X, tp') := absorb None r in (flush tp ++ spec_tree sep c :: X, tp')
  end.

Definition prepend (tp : option str) (l : list node) : list node :=
  match tp with Some t => cons_text t l | None => l end.

Lemma absorb_spec : forall cs tp,
  fst (absorb tp cs) ++ flush (snd (absorb tp cs)) = prepend tp (spec_children sep cs).
Proof.
  induction cs as [|c r IH]; intro tp.
  - cbn. destruct tp; reflexivity.
  - destruct c as [q a cs'|p ps].
    + cbn [absorb spec_children]. specialize (IH None).
      destruct (absorb None r) as [X tp'] eqn:HA. cbn [fst snd] in *. cbn [prepend] in IH.
      rewrite <- app_assoc. cbn [app]. rewrite IH.
      rewrite spec_tree_elem. destruct tp; reflexivity.
    + cbn [absorb spec_children]. rewrite IH. cbn [prepend].
      destruct tp as [t|]; cbn [content prepend].
      * destruct (spec_children sep r) as [|[n a k|u] r']; cbn [cons_text]; try reflexivity.
        rewrite app_assoc. reflexivity.
      * reflexivity.
Qed.

(* one piece of character data inside a stanza *)
Lemma chars_step_at : forall st d pth tp s, at_state st d pth tp -> 2 <= d -> nul_free s ->
  exists st', step st (SChars s) = Ok st' [] /\ at_state st' d pth (Some (content tp ++ s)).
Proof.
  intros st d pth tp s [H1 [H2 [H3 H4]]] Hd Hs. cbn [step step_with].
  pose proof (characters_ok st s H4) as C. rewrite chars_min_depth_2 in C.
  destruct (depth st <? 2) eqn:E; [lia|].
  destruct C as [st' [C1 [C2 [C3 [C4 C5]]]]]. exists st'. split; [exact C1|].
  repeat split; try congruence; try assumption.
  rewrite C4. unfold text_of. rewrite H3. rewrite until_nul_nul_free by exact Hs. reflexivity.
Qed.

Lemma text_run_at : forall ps st d pth tp, at_state st d pth tp -> 2 <= d -> Forall nul_free ps ->
  exists st', run_from st (map SChars ps) = Ok st' [] /\
              at_state st' d pth (match ps with [] => tp | _ => Some (content tp ++ concat ps) end).
Proof.
  induction ps as [|s r IH]; intros st d pth tp Hat Hd Hn.
  - exists st. split; [reflexivity|exact Hat].
  - inversion Hn; subst. cbn [map]. rewrite run_from_cons.
    destruct (chars_step_at st d pth tp s Hat Hd) as [st1 [S1 A1]]; [assumption|]. rewrite S1.
    destruct (IH st1 d pth _ A1 Hd) as [st2 [S2 A2]]; [assumption|]. rewrite S2.
    exists st2. split; [reflexivity|].
    destruct r as [|s2 r2].
    + cbn [concat]. rewrite app_nil_r. exact A2.
    + cbn [content] in A2. cbn [concat] in *. rewrite <- app_assoc in A2. exact A2.
Qed.

(* character data directly inside the stream element is ignored *)
Lemma text_run_ignored : forall ps st, depth st = 1 -> inv_text st ->
  run_from st (map SChars ps) = Ok st [].
Proof.
  induction ps as [|s r IH]; intros st Hd Hi; [reflexivity|].
  cbn [map]. rewrite run_from_cons. cbn [step step_with].
  pose proof (characters_ok st s Hi) as C. rewrite chars_min_depth_2, Hd in C. cbn in C.
  rewrite C. rewrite IH by assumption. reflexivity.
Qed.

(* the statement proved by nested induction: an element is consumed whole *)
Definition elem_ok (n : xnode) : Prop :=
  match n with
  | XText _ _ => True
  | XElem _ _ _ =>
      forall st d pth tp, at_state st d pth tp -> 1 <= d ->
        match pth with
        | [] => d = 1 -> tp = None ->
                exists st', run_from st (events_of_node n) = Ok st' [Stanza (spec_tree sep n)] /\
                            at_state st' d [] None
        | f :: p => exists st', run_from st (events_of_node n) = Ok st' [] /\
                      at_state st' d (add_kids f (flush tp ++ [spec_tree sep n]) :: p) None
        end
  end.

Lemma children_run : forall cs, Forall elem_ok cs -> Forall xnode_nul_free cs ->
  forall st d f p tp, at_state st d (f :: p) tp -> 2 <= d ->
    exists st', run_from st (flat_map events_of_node cs) = Ok st' [] /\
                at_state st' d (add_kids f (fst (absorb tp cs)) :: p) (snd (absorb tp cs)).
Proof.
  induction cs as [|c r IH]; intros HP Hn st d f p tp Hat Hd.
  - exists st. split; [reflexivity|]. cbn. rewrite add_kids_nil. exact Hat.
  - inversion HP as [|? ? Pc Pr]; subst. inversion Hn as [|? ? Nc Nr]; subst.
    cbn [flat_map]. unfold run_from. rewrite run_with_app. fold run_from.
    destruct c as [q a cs'|s ps].
    + (* element child *)
      cbn [elem_ok] in Pc. specialize (Pc st d (f :: p) tp Hat). cbn beta iota in Pc.
      destruct Pc as [st1 [R1 A1]]; [lia|]. rewrite R1.
      destruct (IH Pr Nr st1 d _ p None A1 Hd) as [st2 [R2 A2]]. rewrite R2.
      exists st2. split; [reflexivity|].
      cbn [absorb]. destruct (absorb None r) as [X tp'] eqn:HA. cbn [fst snd] in *.
      rewrite add_kids_app in A2. rewrite <- app_assoc in A2. exact A2.
    + (* text child *)
      cbn [events_of_node]. cbn [xnode_nul_free] in Nc.
      destruct (text_run_at (s :: ps) st d (f :: p) tp Hat Hd Nc) as [st1 [R1 A1]]. rewrite R1.
      destruct (IH Pr Nr st1 d f p _ A1 Hd) as [st2 [R2 A2]]. rewrite R2.
      exists st2. split; [reflexivity|]. cbn [absorb]. exact A2.
Qed.

Lemma elem_ok_all : forall n, xnode_nul_free n -> elem_ok n.
Proof.
  induction n as [p ps|q a cs IHcs] using xnode_ind2; intro Hn; [exact I|].
  apply xnode_nul_free_elem in Hn.
  assert (HP : Forall elem_ok cs).
  { clear - IHcs Hn. induction cs as [|c r IH]; [constructor|].
    inversion IHcs; subst. inversion Hn; subst. constructor; [auto|apply IH; assumption]. }
  clear IHcs. cbn [elem_ok]. intros st d pth tp [H1 [H2 [H3 H4]]] Hd.
  cbn [events_of_node].
  (* the common part: after the start tag the new frame is on top with nothing pending; the children
     are absorbed; the end tag closes the frame *)
  set (c0 := {| f_name := xml_name q; f_attrs := model_attrs q a; f_kids := [] |}).
  assert (Hclose : forall X tp', X ++ flush tp' = spec_children sep cs ->
            close_frame (add_kids c0 (X ++ flush tp')) = spec_tree sep (XElem q a cs)).
  { intros X tp' HX. rewrite spec_tree_elem. unfold close_frame, add_kids, c0. cbn.
    rewrite HX, xml_name_spec, model_attrs_spec. reflexivity. }
  assert (Habs : fst (absorb None cs) ++ flush (snd (absorb None cs)) = spec_children sep cs).
  { rewrite absorb_spec. reflexivity. }
  (* the end tag on a state whose top frame is add_kids c0 X with tp' pending, depth d+1 *)
  assert (Hend : forall st2 rest X tp', at_state st2 (d + 1) (add_kids c0 X :: rest) tp' ->
            X ++ flush tp' = spec_children sep cs ->
            match rest with
            | [] => exists st3, step st2 (SEnd q) = Ok st3 [Stanza (spec_tree sep (XElem q a cs))] /\
                                at_state st3 d [] None
            | f :: p => exists st3, step st2 (SEnd q) = Ok st3 [] /\
                          at_state st3 d (add_kids f [spec_tree sep (XElem q a cs)] :: p) None
            end).
  { intros st2 rest X tp' [G1 [G2 [G3 G4]]] HX. cbn [step step_with]. unfold end_element.
    set (st0 := set_depth st2 (depth st2 - 1)).
    assert (D0 : depth st0 = d) by (cbn; lia).
    destruct (depth st0 =? 0) eqn:E0; [lia|].
    unfold complete_inner_text. cbn [inner_text stanza st0 set_depth]. rewrite G3, G2.
    destruct tp' as [t|]; cbn [flush] in HX.
    - cbn [stanza]. rewrite add_kid_kids, add_kids_app.
      pose proof (Hclose X (Some t) HX) as Hc. cbn [flush] in Hc.
      destruct rest as [|f p].
      + eexists. split; [rewrite Hc; reflexivity|].
        repeat split; cbn; try reflexivity; lia.
      + eexists. split; [reflexivity|]. rewrite Hc.
        repeat split; cbn; try reflexivity; lia.
    - rewrite app_nil_r in HX. cbn [stanza st0 set_depth]. rewrite G2.
      assert (Hc : close_frame (add_kids c0 X) = spec_tree sep (XElem q a cs)).
      { rewrite <- (Hclose X None); [|cbn [flush]; rewrite app_nil_r; exact HX].
        cbn [flush]. rewrite app_nil_r. reflexivity. }
      destruct rest as [|f p].
      + eexists. split; [rewrite Hc; reflexivity|].
        repeat split; cbn; try reflexivity; try lia; assumption.
      + eexists. split; [reflexivity|]. rewrite Hc.
        repeat split; cbn; try reflexivity; try lia; assumption. }
  destruct pth as [|f p].
  - (* top-level stanza *)
    intros Hd1 Htp. subst tp. rewrite run_from_cons. cbn [step step_with]. unfold start_element.
    rewrite H1, H2. replace (d =? 0) with false by lia. replace (negb (d =? 1)) with false by lia.
    fold (model_attrs q a). fold c0.
    set (st1 := set_depth (set_stanza st [c0]) (d + 1)).
    assert (A1 : at_state st1 (d + 1) [add_kids c0 []] None).
    { rewrite add_kids_nil. repeat split; try reflexivity; try assumption. }
    unfold run_from. rewrite run_with_app. fold run_from.
    destruct (children_run cs HP Hn st1 (d + 1) _ [] None A1) as [st2 [R2 A2]]; [lia|]. rewrite R2.
    rewrite add_kids_app in A2. cbn [app] in A2.
    destruct (Hend st2 [] _ _ A2 Habs) as [st3 [S3 A3]].
    rewrite run_from_cons, S3. cbn [run_from run_with]. exists st3. split; [reflexivity|exact A3].
  - (* child element *)
    rewrite run_from_cons. cbn [step step_with]. unfold start_element.
    rewrite H1, H2. replace (d =? 0) with false by lia.
    fold (model_attrs q a). fold c0.
    unfold complete_inner_text. rewrite H3, H2.
    assert (Hstart : exists st1, (match tp with
                        | Some t => Some {| depth := depth st; stanza := add_kid f (Text t) :: p;
                                            inner_text := None; it_size := 0; it_used := 0 |}
                        | None => Some st end) = Some st1 /\
                       at_state st1 d (add_kids f (flush tp) :: p) None).
    { destruct tp as [t|].
      - eexists. split; [reflexivity|]. repeat split; cbn; try reflexivity; assumption.
      - exists st. split; [reflexivity|]. cbn [flush]. rewrite add_kids_nil.
        repeat split; assumption. }
    destruct Hstart as [st1 [E1 [B1 [B2 [B3 B4]]]]]. rewrite E1.
    set (st1' := set_depth (set_stanza st1 (c0 :: stanza st1)) (d + 1)).
    assert (A1 : at_state st1' (d + 1) (add_kids c0 [] :: add_kids f (flush tp) :: p) None).
    { rewrite add_kids_nil. repeat split; cbn; try assumption; congruence. }
    unfold run_from. rewrite run_with_app. fold run_from.
    destruct (children_run cs HP Hn st1' (d + 1) _ _ None A1) as [st2 [R2 A2]]; [lia|]. rewrite R2.
    rewrite add_kids_app in A2. cbn [app] in A2.
    destruct (Hend st2 _ _ _ A2 Habs) as [st3 [S3 A3]].
    rewrite run_from_cons, S3. cbn [run_from run_with]. exists st3. split; [reflexivity|].
    rewrite add_kids_app in A3. exact A3.
Qed.

Lemma top_run : forall l, Forall xnode_nul_free l ->
  forall st, at_state st 1 [] None ->
    exists st', run_from st (flat_map events_of_node l) = Ok st' (spec_stanzas sep l) /\
                at_state st' 1 [] None.
Proof.
  induction l as [|c r IH]; intros Hn st Hat.
  - exists st. split; [reflexivity|exact Hat].
  - inversion Hn as [|? ? Nc Nr]; subst. cbn [flat_map]. unfold run_from. rewrite run_with_app. fold run_from.
    destruct c as [q a cs|s ps].
    + pose proof (elem_ok_all _ Nc) as Pc. cbn [elem_ok] in Pc.
      specialize (Pc st 1 [] None Hat ltac:(lia)). cbn beta iota in Pc.
      destruct (Pc eq_refl eq_refl) as [st1 [R1 A1]]. rewrite R1.
      destruct (IH Nr st1 A1) as [st2 [R2 A2]]. rewrite R2.
      exists st2. split; [reflexivity|exact A2].
    + cbn [events_of_node]. destruct Hat as [H1 [H2 [H3 H4]]].
      rewrite (text_run_ignored (s :: ps) st H1 H4).
      destruct (IH Nr st) as [st2 [R2 A2]]; [repeat split; assumption|]. rewrite R2.
      exists st2. split; [reflexivity|exact A2].
Qed.

Lemma layer_matches_tree_spec_proof : forall d, xdoc_nul_free d ->
  exists st, run (events_of_doc d) = Ok st (spec_outputs sep d) /\
             depth st = (if closed d then 0 else 1) /\ stanza st = [] /\ inner_text st = None.
Proof.
  intros d Hn. unfold run, events_of_doc, spec_outputs. rewrite run_from_cons.
  cbn [step step_with]. unfold start_element. cbn [depth init_state reset_state Z.eqb].
  rewrite xml_name_spec.
  set (st1 := set_depth init_state (0 + 1)).
  assert (A1 : at_state st1 1 [] None).
  { repeat split; try reflexivity. }
  unfold run_from. rewrite run_with_app. fold run_from.
  destruct (top_run (top d) Hn st1 A1) as [st2 [R2 [B1 [B2 [B3 B4]]]]]. rewrite R2.
  destruct (closed d).
  - rewrite run_from_cons. cbn [step step_with]. unfold end_element.
    cbn [depth set_depth]. rewrite B1. cbn [Z.sub Z.eqb Z.add Z.opp Z.pos_sub].
    cbn [run_from run_with]. eexists. split; [reflexivity|]. cbn. repeat split; assumption.
  - cbn [run_from run_with]. exists st2. rewrite !app_nil_r. split; [reflexivity|].
    repeat split; assumption.
Qed.

(* ==================================================================================== *)
(* 8. the hypotheses are satisfiable; the side conditions are needed                      *)
(* ==================================================================================== *)
Definition ex_ns : str := [117; 58; 120].                         (* "u:x" *)
Definition ex_q (l : str) : str := ex_ns ++ [namespace_sep] ++ l.
Definition ex_doc : xdoc :=
  {| root_q := ex_q [115]; root_attrs := [([105; 100], [49])];
     top := [XText [32] [];
             XElem (ex_q [109]) [([116; 111], [97]); (ex_q [116; 111], [98])]
               [XText [104] [[]; [105]]; XElem (ex_q [98]) [] [XText [60] []]; XText [33] []; XText [63] []];
             XElem [105; 113] [] []];
     closed := true |}.

Example ex_doc_nul_free : xdoc_nul_free ex_doc.
Proof.
  unfold xdoc_nul_free, ex_doc. cbn [top].
  repeat first [ apply Forall_nil | apply Forall_cons | exact I
               | (progress cbn [xnode_nul_free]) | split
               | (unfold nul_free; cbn; intuition lia) ].
Qed.
(* the unqualified to="a" survives although u:x|to="b" comes later; text joined in order *)
Example ex_doc_outputs :
  observe (run (events_of_doc ex_doc)) =
  Delivered [StreamStart [115] [([105; 100], [49])];
             Stanza (Elem [109] [([116; 111], [97]); (xmlns_key, ex_ns)]
                       [Text [104; 105]; Elem [98] [(xmlns_key, ex_ns)] [Text [60]]; Text [33; 63]]);
             Stanza (Elem [105; 113] [] []);
             StreamEnd (ex_q [115])].
Proof. vm_compute. reflexivity. Qed.

Definition ex_cut_a : list sax :=
  [SStart [115] []; SStart [109] []; SChars [104; 105]; SEnd [109]].
Definition ex_cut_b : list sax :=
  [SStart [115] []; SStart [109] []; SChars []; SChars [104]; SChars []; SChars [105]; SEnd [109]].
Example ex_cut_same : same_up_to_cutting ex_cut_a ex_cut_b /\
                      Forall ev_nul_free ex_cut_a /\ Forall ev_nul_free ex_cut_b.
Proof.
  split; [reflexivity|]. unfold ex_cut_a, ex_cut_b.
  split; repeat first [ apply Forall_nil | apply Forall_cons | exact I
                      | (unfold ev_nul_free, nul_free; cbn; intuition lia) ].
Qed.

(* a lone empty piece is not "no character data": the C code allocates the buffer and an empty text
   node is added (expat never delivers an empty piece) *)
Example lone_empty_piece_makes_a_text_node :
  observe (run [SStart [115] []; SStart [109] []; SChars []; SEnd [109]]) =
    Delivered [StreamStart [115] []; Stanza (Elem [109] [] [Text []])] /\
  observe (run [SStart [115] []; SStart [109] []; SEnd [109]]) =
    Delivered [StreamStart [115] []; Stanza (Elem [109] [] [])].
Proof. split; vm_compute; reflexivity. Qed.

(* a NUL inside a piece (which expat never delivers) would make the cutting visible: strncat stops at it *)
Example cutting_visible_with_nul :
  same_up_to_cutting [SStart [115] []; SStart [109] []; SChars [97; 0; 98]; SEnd [109]]
                     [SStart [115] []; SStart [109] []; SChars [97; 0]; SChars [98]; SEnd [109]] /\
  observe (run [SStart [115] []; SStart [109] []; SChars [97; 0; 98]; SEnd [109]]) <>
  observe (run [SStart [115] []; SStart [109] []; SChars [97; 0]; SChars [98]; SEnd [109]]).
Proof. split; [reflexivity|]. vm_compute. congruence. Qed.

(* a document cut off anywhere, several roots, a restart in the middle of text: all within the hypothesis *)
Example ex_ends_matched :
  ends_matched 0 [SStart [115] []; SStart [109] []; SChars [104]; SReset;
                  SStart [115] []; SEnd [115]; SStart [116] []; SStart [109] []; SChars [105]] = true.
Proof. reflexivity. Qed.

Example ex_restart_mid_text :
  observe (run ([SStart [115] []; SStart [109] []; SStart [98] []; SChars [97; 98; 99]; SReset] ++
                [SStart [115] []; SStart [109] []; SStart [98] []; SChars [120; 121]; SEnd [98]; SEnd [109]])) =
  Delivered [StreamStart [115] []; StreamStart [115] [];
             Stanza (Elem [109] [] [Elem [98] [] [Text [120; 121]]])].
Proof. vm_compute. reflexivity. Qed.
