(* Proofs for C15 (ResolverModel.v against DnsSpec.v). *)
Require Import LV.Common.Bytes LV.Gen.Gen_resolver LV.Model.ResolverModel LV.Spec.DnsSpec.
Require Import Lia ZifyBool.
From Coq Require Import Sorting.Permutation Sorting.Sorted.
Ltac Zify.zify_post_hook ::= Z.div_mod_to_equations.
Local Open Scope Z_scope.

(* ------------------------------------------------------------------------------------------ *)
(* the regenerated constants are the ones of RFC 1035 / RFC 2782 / the property statement      *)
(* ------------------------------------------------------------------------------------------ *)
Lemma Gen_resolver_ok :
  MESSAGE_HEADER_LEN = HEADER_LEN /\ MESSAGE_RESPONSE = QR_RESPONSE /\
  MESSAGE_T_SRV = TYPE_SRV /\ MESSAGE_C_IN = CLASS_IN /\ MAX_DOMAIN_LEN = 256 /\
  XMPP_DOMAIN_NOT_FOUND = 0 /\ XMPP_DOMAIN_FOUND = 1 /\
  hdr_octet2_off = HDR_FLAGS_HI_OFF /\ hdr_octet3_off = HDR_FLAGS_LO_OFF /\
  hdr_qdcount_off = HDR_QDCOUNT_OFF /\ hdr_ancount_off = HDR_ANCOUNT_OFF /\
  qr_shift = 7 /\ qr_mask = 1 /\ rcode_mask = 15 /\ q_tail = QUESTION_FIXED /\
  rr_type_off = RR_TYPE_OFF /\ rr_class_off = RR_CLASS_OFF /\ rr_rdlength_off = RR_RDLENGTH_OFF /\
  rr_fixed_len = RR_FIXED /\
  srv_prio_off = SRV_PRIORITY_OFF /\ srv_weight_off = SRV_WEIGHT_OFF /\ srv_port_off = SRV_PORT_OFF /\
  srv_target_off = SRV_TARGET_OFF /\
  label_mask = 192 /\ label_tag = 0 /\ pointer_tag = POINTER_TAG /\ pointer_mask = 63 /\ pointer_shift = 8 /\
  (* every fixed field is inside the message before it is read: the RR header needs its last
     octet (index 9), the SRV RDATA its first 7 octets (index 6) *)
  ovf_check_offsets = [0; 0; RR_FIXED - 1; SRV_TARGET_OFF].
Proof. vm_compute. repeat split; reflexivity. Qed.

Lemma ovf_check_spec p l : ovf_check p l = (l <=? p).
Proof. unfold ovf_check. lia. Qed.
Lemma pointer_guard_spec p o : pointer_guard p o = (o <=? p).
Proof. unfold pointer_guard. lia. Qed.
Lemma srv_swap_spec cp cw np nw :
  srv_swap cp cw np nw = ((np <? cp) || ((cp =? np) && (cw <? nw))).
Proof. unfold srv_swap. lia. Qed.

(* the remaining guards of message_name_get / message_name_append_safe, as the proofs below use them *)
Lemma idx_guard_spec i l : idx_guard i l = (l <=? i).
Proof. unfold idx_guard. lia. Qed.
Lemma label_end_guard_spec e l : label_end_guard e l = (l <=? e) /\ label_end_adjust = 1.
Proof. unfold label_end_guard. split; [lia|reflexivity]. Qed.
(* "We have filled the name buffer. Don't pass it recursively": exactly when no cell is left *)
Lemma name_full_spec nlen nmax : name_full nlen nmax = ((nmax <=? nlen) && (0 <? nmax)).
Proof. unfold name_full. lia. Qed.
Lemma room_left_spec nmax nlen : room_left nmax nlen = Z.max 0 (nmax - nlen).
Proof. unfold room_left. destruct (nmax >? nlen) eqn:E; lia. Qed.
Lemma copy_guard_spec c : copy_guard c = (0 <? c).
Proof. unfold copy_guard. lia. Qed.
Lemma term_guard_spec m : term_guard m = (0 <? m).
Proof. unfold term_guard. lia. Qed.
Lemma fixup_guard_spec n : fixup_guard n = (0 <? n).
Proof. unfold fixup_guard. lia. Qed.

(* all regenerated guard comparisons at once (second half of the Gen_resolver re-check) *)
Lemma Gen_resolver_guards_ok :
  (forall p l, ovf_check p l = (l <=? p)) /\
  (forall p o, pointer_guard p o = (o <=? p)) /\
  (forall cp cw np nw, srv_swap cp cw np nw = ((np <? cp) || ((cp =? np) && (cw <? nw)))) /\
  (forall i l, idx_guard i l = (l <=? i)) /\
  (forall e l, label_end_guard e l = (l <=? e)) /\ label_end_adjust = 1 /\
  (forall nlen nmax, name_full nlen nmax = ((nmax <=? nlen) && (0 <? nmax))) /\
  (forall nmax nlen, room_left nmax nlen = Z.max 0 (nmax - nlen)) /\
  (forall c, copy_guard c = (0 <? c)) /\
  (forall m, term_guard m = (0 <? m)) /\
  (forall n, fixup_guard n = (0 <? n)).
Proof.
  repeat split; intros.
  - apply ovf_check_spec.
  - apply pointer_guard_spec.
  - apply srv_swap_spec.
  - apply idx_guard_spec.
  - apply label_end_guard_spec.
  - apply name_full_spec.
  - apply room_left_spec.
  - apply copy_guard_spec.
  - apply term_guard_spec.
  - apply fixup_guard_spec.
Qed.

(* ------------------------------------------------------------------------------------------ *)
(* resolver_srv_list_sort                                                                      *)
(* ------------------------------------------------------------------------------------------ *)
(* the order the list is to be in: priority ascending, then weight descending *)
Definition srv_le (a b : srv_rr) : Prop :=
  rr_priority a < rr_priority b \/ (rr_priority a = rr_priority b /\ rr_weight b <= rr_weight a).

Lemma srv_gt_false a b : srv_gt a b = false <-> srv_le a b.
Proof. unfold srv_gt, srv_le. rewrite srv_swap_spec. lia. Qed.
Lemma srv_gt_true a b : srv_gt a b = true -> srv_le b a.
Proof. unfold srv_gt, srv_le. rewrite srv_swap_spec. lia. Qed.
Lemma srv_le_refl a : srv_le a a.
Proof. unfold srv_le. lia. Qed.
Lemma srv_le_trans a b c : srv_le a b -> srv_le b c -> srv_le a c.
Proof. unfold srv_le. lia. Qed.

Lemma bubble_pass_perm : forall rest cur r s,
  bubble_pass cur rest = (r, s) -> Permutation (cur :: rest) r.
Proof.
  induction rest as [|nx rest IH]; intros cur r s H; cbn [bubble_pass] in H.
  - inversion H; subst. apply Permutation_refl.
  - destruct (srv_gt cur nx) eqn:G.
    + destruct (bubble_pass cur rest) as [r0 s0] eqn:E. inversion H; subst.
      apply IH in E. eapply perm_trans; [apply perm_swap|]. apply perm_skip. exact E.
    + destruct (bubble_pass nx rest) as [r0 s0] eqn:E. inversion H; subst.
      apply IH in E. apply perm_skip. exact E.
Qed.

(* a pass without a swap leaves the list as it is, and the list is sorted *)
Lemma bubble_pass_noswap : forall rest cur r,
  bubble_pass cur rest = (r, false) -> r = cur :: rest /\ Sorted srv_le (cur :: rest).
Proof.
  induction rest as [|nx rest IH]; intros cur r H; cbn [bubble_pass] in H.
  - inversion H; subst. split; [reflexivity|]. constructor; constructor.
  - destruct (srv_gt cur nx) eqn:G.
    + destruct (bubble_pass cur rest) as [r0 s0]. inversion H.
    + destruct (bubble_pass nx rest) as [r0 s0] eqn:E. inversion H; subst.
      apply IH in E. destruct E as [-> S]. split; [reflexivity|].
      constructor; [exact S|]. constructor. apply srv_gt_false. exact G.
Qed.

(* a pass carries a maximal element to the end *)
Lemma bubble_pass_max : forall rest cur r s,
  bubble_pass cur rest = (r, s) ->
  exists r' m, r = r' ++ [m] /\ srv_le cur m /\ (forall x, In x rest -> srv_le x m) /\
               (forall x, In x r' -> srv_le x m).
Proof.
  induction rest as [|nx rest IH]; intros cur r s H; cbn [bubble_pass] in H.
  - inversion H; subst. exists [], cur. cbn. repeat split; try apply srv_le_refl; intros x [].
  - destruct (srv_gt cur nx) eqn:G.
    + destruct (bubble_pass cur rest) as [r0 s0] eqn:E. inversion H; subst.
      destruct (IH _ _ _ E) as (r' & m & -> & Hc & Hr & Hr').
      exists (nx :: r'), m. repeat split; [exact Hc| |].
      * intros x [<-|Hx]; [eapply srv_le_trans; [apply srv_gt_true; exact G|exact Hc]|auto].
      * intros x [<-|Hx]; [eapply srv_le_trans; [apply srv_gt_true; exact G|exact Hc]|auto].
    + destruct (bubble_pass nx rest) as [r0 s0] eqn:E. inversion H; subst.
      destruct (IH _ _ _ E) as (r' & m & -> & Hc & Hr & Hr').
      assert (Hcm : srv_le cur m) by (eapply srv_le_trans; [apply srv_gt_false; exact G|exact Hc]).
      exists (cur :: r'), m. repeat split; [exact Hcm| |].
      * intros x [<-|Hx]; auto.
      * intros x [<-|Hx]; auto.
Qed.

(* no swap happens inside an already settled suffix *)
Lemma bubble_pass_settled : forall s x,
  (forall y, In y s -> srv_le x y) -> StronglySorted srv_le s ->
  bubble_pass x s = (x :: s, false).
Proof.
  induction s as [|y s IH]; intros x Hx Hs; cbn [bubble_pass]; [reflexivity|].
  assert (G : srv_gt x y = false) by (apply srv_gt_false; apply Hx; left; reflexivity).
  rewrite G. inversion Hs; subst. rewrite IH; [reflexivity| |assumption].
  intros z Hz. eapply Forall_forall in H2; eauto.
Qed.

Lemma bubble_pass_app : forall rest cur s,
  (forall x y, In x (cur :: rest) -> In y s -> srv_le x y) -> StronglySorted srv_le s ->
  bubble_pass cur (rest ++ s) =
    let '(r, f) := bubble_pass cur rest in (r ++ s, f).
Proof.
  induction rest as [|nx rest IH]; intros cur s Hle Hs.
  - cbn [app bubble_pass]. apply bubble_pass_settled; [|exact Hs].
    intros y Hy. apply Hle; [left; reflexivity|exact Hy].
  - cbn [app bubble_pass]. destruct (srv_gt cur nx) eqn:G.
    + rewrite IH; [|intros x y Hx Hy; apply Hle; [destruct Hx as [<-|Hx]; [left; reflexivity|right; right; exact Hx]|exact Hy]|exact Hs].
      destruct (bubble_pass cur rest) as [r f]. reflexivity.
    + rewrite IH; [|intros x y Hx Hy; apply Hle; [right; exact Hx|exact Hy]|exact Hs].
      destruct (bubble_pass nx rest) as [r f]. reflexivity.
Qed.

(* `settled k l`: the last k elements are in their final place *)
Definition settled (k : nat) (l : list srv_rr) : Prop :=
  exists p s, l = p ++ s /\ length s = k /\ StronglySorted srv_le s /\
              (forall x y, In x p -> In y s -> srv_le x y).

Lemma sort_passes_enough : forall f l k,
  settled k l -> (1 <= f)%nat -> (length l <= f + k)%nat ->
  exists l', sort_passes f l = Some l'.
Proof.
  induction f as [|f IH]; intros l k (p & s & -> & Hk & Hs & Hps) Hf Hlen; [lia|].
  cbn [sort_passes]. destruct p as [|x p].
  - cbn [app]. destruct s as [|y s]; [eexists; reflexivity|].
    inversion Hs; subst. rewrite bubble_pass_settled; [eexists; reflexivity| |assumption].
    intros z Hz. eapply Forall_forall in H2; eauto.
  - cbn [app]. rewrite bubble_pass_app; [|exact Hps|exact Hs].
    destruct (bubble_pass x p) as [r sw] eqn:E. destruct sw; [|eexists; reflexivity].
    destruct (bubble_pass_max _ _ _ _ E) as (r' & m & -> & Hxm & Hpm & Hrm).
    assert (Hperm := bubble_pass_perm _ _ _ _ E).
    (* a swap happened, so p is not empty *)
    destruct p as [|x2 p]; [cbn in E; inversion E|].
    rewrite <- app_assoc. cbn [app].
    apply (IH _ (S k)).
    + exists r', (m :: s). repeat split.
      * cbn. lia.
      * constructor; [exact Hs|]. apply Forall_forall. intros y Hy. apply Hps; [|exact Hy].
        eapply Permutation_in; [apply Permutation_sym; exact Hperm|]. apply in_or_app. right. left. reflexivity.
      * intros a b Ha [<-|Hb]; [apply Hrm; exact Ha|].
        apply Hps; [|exact Hb]. eapply Permutation_in; [apply Permutation_sym; exact Hperm|].
        apply in_or_app. left. exact Ha.
    + apply Permutation_length in Hperm. rewrite app_length in *. cbn [length] in *. lia.
    + apply Permutation_length in Hperm. rewrite !app_length in *. cbn [length] in *. lia.
Qed.

Lemma sort_passes_sorted : forall f l l',
  sort_passes f l = Some l' -> Permutation l l' /\ Sorted srv_le l'.
Proof.
  induction f as [|f IH]; intros l l' H; cbn [sort_passes] in H; [discriminate|].
  destruct l as [|x r]; [inversion H; subst; split; constructor|].
  destruct (bubble_pass x r) as [l1 sw] eqn:E. destruct sw.
  - apply IH in H. destruct H as [P S]. split; [|exact S].
    eapply perm_trans; [eapply bubble_pass_perm; exact E|exact P].
  - inversion H; subst. apply bubble_pass_noswap in E. destruct E as [-> S].
    split; [apply Permutation_refl|exact S].
Qed.

Lemma srv_sort_fuel_enough : forall l, exists l', srv_sort l = Some l'.
Proof.
  intros l. unfold srv_sort. destruct l as [|x [|y r]]; try (eexists; reflexivity).
  apply (sort_passes_enough _ _ O).
  - exists (x :: y :: r), []. rewrite app_nil_r. repeat split; [constructor|]. intros a b _ [].
  - cbn [length]. lia.
  - lia.
Qed.

Lemma srv_sort_sorted : forall l l',
  srv_sort l = Some l' -> Permutation l l' /\ StronglySorted srv_le l'.
Proof.
  intros l l' H. unfold srv_sort in H.
  assert (Hs : forall q, Sorted srv_le q -> StronglySorted srv_le q).
  { intros q. apply Sorted_StronglySorted. intros a b c. apply srv_le_trans. }
  destruct l as [|x [|y r]].
  - inversion H; subst. split; constructor.
  - inversion H; subst. split; [apply Permutation_refl|]. apply Hs. constructor; constructor.
  - apply sort_passes_sorted in H. destruct H as [P S]. split; [exact P|apply Hs; exact S].
Qed.

(* ------------------------------------------------------------------------------------------ *)
(* checked accessors                                                                            *)
(* ------------------------------------------------------------------------------------------ *)
Lemma rd_in buf i : 0 <= i < zlen buf -> exists b, rd buf i = Some b.
Proof.
  intros H. unfold rd. destruct (i <? 0) eqn:E; [lia|].
  destruct (nth_error buf (Z.to_nat i)) eqn:N; [eexists; reflexivity|].
  apply nth_error_None in N. unfold zlen in H. lia.
Qed.
Lemma rd_bound buf i b : rd buf i = Some b -> 0 <= i < zlen buf.
Proof.
  unfold rd. destruct (i <? 0) eqn:E; [discriminate|]. intros N.
  assert (nth_error buf (Z.to_nat i) <> None) by congruence.
  apply nth_error_Some in H. unfold zlen. lia.
Qed.
Lemma rd_byte buf i b : bytes buf -> rd buf i = Some b -> 0 <= b < 256.
Proof.
  unfold rd. destruct (i <? 0); [discriminate|]. intros HB N.
  apply nth_error_In in N. eapply Forall_forall in HB; eauto.
Qed.

Lemma upd_length : forall l n v, length (upd l n v) = length l.
Proof. induction l; intros [|n] v; cbn; auto. Qed.
Lemma nth_error_upd_eq : forall l n v, (n < length l)%nat -> nth_error (upd l n v) n = Some v.
Proof. induction l; intros [|n] v H; cbn in *; try lia; auto. apply IHl. lia. Qed.
Lemma nth_error_upd_neq : forall l n k v, n <> k -> nth_error (upd l n v) k = nth_error l k.
Proof. induction l; intros [|n] [|k] v H; cbn; auto; try congruence. Qed.

Lemma wr_inv t i v t' : wr t i v = Some t' ->
  0 <= i < zlen t /\ zlen t' = zlen t /\ rd t' i = Some v /\ (forall k, k <> i -> rd t' k = rd t k).
Proof.
  unfold wr. destruct ((0 <=? i) && (i <? zlen t)) eqn:E; [|discriminate].
  intros H; inversion H; subst; clear H. unfold zlen in *. rewrite upd_length.
  repeat split; try lia.
  - unfold rd. destruct (i <? 0) eqn:E2; [lia|]. apply nth_error_upd_eq. lia.
  - intros k Hk. unfold rd. destruct (k <? 0) eqn:E2; [reflexivity|].
    apply nth_error_upd_neq. lia.
Qed.
Lemma wr_ok t i v : 0 <= i < zlen t -> exists t', wr t i v = Some t'.
Proof. intros H. unfold wr. destruct ((0 <=? i) && (i <? zlen t)) eqn:E; [eexists; reflexivity|lia]. Qed.

Lemma u32_small x : 0 <= x < 4294967296 -> u32 x = x.
Proof. intros. unfold u32. apply Z.mod_small. lia. Qed.

Lemma rd16_in buf i : 0 <= i -> i + 1 < zlen buf -> zlen buf <= 65536 ->
  exists v, rd16 buf i = Some v /\ 0 <= v < 65536.
Proof.
  intros H0 H1 HL. unfold rd16. rewrite u32_small by lia.
  destruct (rd_in buf i) as [a ->]; [lia|]. destruct (rd_in buf (i + 1)) as [b ->]; [lia|].
  eexists; split; [reflexivity|]. apply Z.mod_pos_bound. lia.
Qed.

(* ------------------------------------------------------------------------------------------ *)
(* masks and shifts on octets (finite check)                                                    *)
(* ------------------------------------------------------------------------------------------ *)
Definition all_octets : list Z := map Z.of_nat (seq 0 256).
Lemma in_all_octets b : 0 <= b < 256 -> In b all_octets.
Proof.
  intros H. unfold all_octets. apply in_map_iff. exists (Z.to_nat b). split; [lia|]. apply in_seq. lia.
Qed.
Lemma octet_forall (f : Z -> bool) :
  forallb f all_octets = true -> forall b, 0 <= b < 256 -> f b = true.
Proof. intros H b Hb. eapply forallb_forall in H; [exact H|apply in_all_octets; exact Hb]. Qed.

Lemma label_type_octet b : 0 <= b < 256 -> Z.land b label_mask = b / 64 * 64.
Proof.
  intros H. apply Z.eqb_eq.
  apply (octet_forall (fun b => Z.land b label_mask =? b / 64 * 64)); [vm_compute; reflexivity|exact H].
Qed.
Lemma pointer_octets hi lo : 0 <= hi < 256 -> 0 <= lo < 256 ->
  Z.lor (Z.shiftl (Z.land hi pointer_mask) pointer_shift) lo = hi mod 64 * 256 + lo.
Proof.
  intros H1 H2. apply Z.eqb_eq.
  apply (octet_forall (fun lo => Z.lor (Z.shiftl (Z.land hi pointer_mask) pointer_shift) lo =? hi mod 64 * 256 + lo)); [|exact H2].
  apply (octet_forall (fun hi => forallb (fun lo => Z.lor (Z.shiftl (Z.land hi pointer_mask) pointer_shift) lo =? hi mod 64 * 256 + lo) all_octets));
    [vm_compute; reflexivity|exact H1].
Qed.
Lemma qr_octet b : 0 <= b < 256 -> Z.land (Z.shiftr b qr_shift) qr_mask = b / 128.
Proof.
  intros H. apply Z.eqb_eq.
  apply (octet_forall (fun b => Z.land (Z.shiftr b qr_shift) qr_mask =? b / 128)); [vm_compute; reflexivity|exact H].
Qed.
Lemma rcode_octet b : 0 <= b < 256 -> Z.land b rcode_mask = b mod 16.
Proof.
  intros H. apply Z.eqb_eq.
  apply (octet_forall (fun b => Z.land b rcode_mask =? b mod 16)); [vm_compute; reflexivity|exact H].
Qed.

(* ------------------------------------------------------------------------------------------ *)
(* message_name_append_safe                                                                     *)
(* ------------------------------------------------------------------------------------------ *)
Definition tgt_ok (tgt : list Z) (name : option Z) (nmax : Z) : Prop :=
  match name with
  | Some base => 0 <= base /\ 0 < nmax /\ base + nmax <= zlen tgt
  | None => True
  end.

Lemma copy_bytes_ok : forall n buf src tgt dst,
  0 <= src -> src + Z.of_nat n <= zlen buf -> 0 <= dst -> dst + Z.of_nat n <= zlen tgt ->
  exists tgt', copy_bytes n buf src tgt dst = Some tgt' /\ zlen tgt' = zlen tgt.
Proof.
  induction n as [|n IH]; intros buf src tgt dst H1 H2 H3 H4; cbn [copy_bytes].
  - eexists; split; reflexivity.
  - destruct (rd_in buf src) as [b ->]; [lia|].
    destruct (wr_ok tgt dst b) as [t1 W]; [lia|]. rewrite W.
    apply wr_inv in W. destruct W as (_ & L & _).
    destruct (IH buf (src + 1) t1 (dst + 1)) as (t2 & -> & L2); try lia.
    eexists; split; [reflexivity|lia].
Qed.

Lemma append_label_ok buf src tgt base nlen nmax tl :
  tgt_ok tgt (Some base) nmax -> 0 <= nlen -> 0 <= src -> 0 <= tl -> src + tl <= zlen buf ->
  exists tgt', append_label buf src tgt base nlen nmax tl = Some (tgt', nlen + tl) /\ zlen tgt' = zlen tgt.
Proof.
  intros (Hb & Hm & Hlen) Hn Hs Ht Hsrc. unfold append_label, append_copy_len, room_left, copy_guard.
  set (cl := Z.min tl (if nmax >? nlen then nmax - nlen else 0)).
  assert (Hcl : 0 <= cl <= tl /\ (cl > 0 -> nlen + cl <= nmax)) by (subst cl; destruct (nmax >? nlen) eqn:E; lia).
  destruct (cl >? 0) eqn:E; [|eexists; split; reflexivity].
  destruct (copy_bytes_ok (Z.to_nat cl) buf src tgt (base + nlen)) as (t' & -> & L); try lia.
  eexists; split; [reflexivity|exact L].
Qed.

Lemma append_dot_ok tgt base nlen nmax :
  tgt_ok tgt (Some base) nmax -> 0 <= nlen ->
  exists tgt', append_dot tgt base nlen nmax = Some (tgt', nlen + 1) /\ zlen tgt' = zlen tgt.
Proof.
  intros (Hb & Hm & Hlen) Hn. unfold append_dot, append_copy_len, room_left, copy_guard.
  destruct (Z.min 1 (if nmax >? nlen then nmax - nlen else 0) >? 0) eqn:E; [|eexists; split; reflexivity].
  destruct (wr_ok tgt (base + nlen) 46) as [t' W]; [destruct (nmax >? nlen) eqn:E2; lia|].
  rewrite W. apply wr_inv in W. eexists; split; [reflexivity|tauto].
Qed.

(* ------------------------------------------------------------------------------------------ *)
(* message_name_get: safety (no OOB, no Fuel), range of the return value, NUL termination      *)
(* ------------------------------------------------------------------------------------------ *)
Definition npost (blen off : Z) (tgt : list Z) (name : option Z) (nmax : Z) (r : nres) : Prop :=
  match r with
  | NRet rc tgt' =>
      zlen tgt' = zlen tgt /\
      (rc = 0 \/ (1 <= rc /\ off + rc <= blen)) /\
      (name = None -> tgt' = tgt) /\
      (rc <> 0 -> forall base, name = Some base -> 0 < nmax ->
                  exists k, base <= k < base + nmax /\ rd tgt' k = Some 0)
  | _ => False
  end.

Lemma name_finish_ok blen off i tgt name nlen nmax :
  blen <= 65536 -> 0 <= off -> off + 1 <= i <= blen -> 0 <= nlen -> tgt_ok tgt name nmax ->
  npost blen off tgt name nmax (name_finish off i tgt name nlen nmax).
Proof.
  intros HL Ho Hi Hn Hok. unfold name_finish, term_guard.
  assert (Hrc : u32 (i - off) = i - off) by (apply u32_small; lia).
  set (nl := if nlen =? 0 then 1 else nlen). assert (Hnl : 1 <= nl) by (subst nl; destruct (nlen =? 0) eqn:E; lia).
  destruct name as [base|]; cbn [tgt_ok] in Hok.
  - destruct (nmax >? 0) eqn:E.
    + destruct (wr_ok tgt (base + Z.min nl nmax - 1) 0) as [t' W]; [lia|]. rewrite W.
      apply wr_inv in W. destruct W as (Hr & L & R & _). cbn [npost]. rewrite Hrc.
      repeat split; try lia; try discriminate.
      intros _ b Hb Hm. inversion Hb; subst b. exists (base + Z.min nl nmax - 1). split; [lia|exact R].
    + lia.
  - cbn [npost]. rewrite Hrc. repeat split; try lia. intros _ b Hb. discriminate.
Qed.

Lemma name_loop_ok rec buf blen off :
  bytes buf -> blen = zlen buf -> blen <= 65536 -> 0 <= off ->
  (off < blen -> forall p tgt name nmax, 0 <= p < off -> tgt_ok tgt name nmax ->
                 npost blen p tgt name nmax (rec p tgt name nmax)) ->
  forall f i tgt name nlen nmax,
    off <= i -> (Z.of_nat f > blen - i) -> (1 <= f)%nat -> 0 <= nlen -> tgt_ok tgt name nmax ->
    npost blen off tgt name nmax (name_loop rec buf blen off f i tgt name nlen nmax).
Proof.
  intros HB HL Hsz Ho Hrec.
  induction f as [|f IH]; intros i tgt name nlen nmax Hi Hf Hf1 Hn Hok; [lia|].
  cbn [name_loop]. unfold idx_guard, label_end_guard, label_end_adjust, name_full, room_left, fixup_guard.
  assert (Ret0 : forall t, zlen t = zlen tgt -> (name = None -> t = tgt) -> npost blen off tgt name nmax (NRet 0 t)).
  { intros t Ht Hnone. cbn [npost]. repeat split; auto. try (intros X; congruence). }
  destruct (i >=? blen) eqn:E1; [apply Ret0; auto|].
  destruct (rd_in buf i) as [ll Hll]; [lia|]. rewrite Hll.
  assert (Hllb := rd_byte _ _ _ HB Hll).
  rewrite (u32_small (i + 1)) by lia.
  destruct (ll =? 0) eqn:E2; [apply name_finish_ok; auto; lia|].
  rewrite label_type_octet by exact Hllb.
  assert (Hlt : label_tag = 0) by reflexivity. assert (Hpt : pointer_tag = 192) by reflexivity.
  destruct (ll / 64 * 64 =? label_tag) eqn:E3.
  - (* label *)
    rewrite (u32_small (i + 1 + ll - 1)) by lia.
    destruct (i + 1 + ll - 1 >=? blen) eqn:E4; [apply Ret0; auto|].
    rewrite (u32_small (i + 1 + ll)) by lia.
    destruct name as [base|].
    + destruct (append_label_ok buf (i + 1) tgt base nlen nmax ll) as (t1 & -> & L1); auto; try lia.
      destruct (append_dot_ok t1 base (nlen + ll) nmax) as (t2 & -> & L2); try lia.
      { cbn [tgt_ok] in *. lia. }
      assert (P := IH (i + 1 + ll) t2 (Some base) (nlen + ll + 1) nmax).
      assert (Q : npost blen off t2 (Some base) nmax
                    (name_loop rec buf blen off f (i + 1 + ll) t2 (Some base) (nlen + ll + 1) nmax)).
      { apply P; try lia. cbn [tgt_ok] in *. lia. }
      destruct (name_loop rec buf blen off f (i + 1 + ll) t2 (Some base) (nlen + ll + 1) nmax); cbn [npost] in *; try tauto.
      destruct Q as (Q1 & Q2 & Q3 & Q4). repeat split; auto; try lia. intros X; discriminate.
    + apply IH; auto; lia.
  - destruct (ll / 64 * 64 =? pointer_tag) eqn:E5; [|apply Ret0; auto].
    (* pointer *)
    destruct (i + 1 >=? blen) eqn:E6; [apply Ret0; auto|].
    destruct (rd_in buf (i + 1)) as [lo Hlo]; [lia|]. rewrite Hlo.
    assert (Hlob := rd_byte _ _ _ HB Hlo).
    rewrite pointer_octets by assumption.
    rewrite (u32_small (ll mod 64 * 256 + lo)) by lia.
    rewrite (u32_small (i + 1 + 1)) by lia.
    rewrite pointer_guard_spec.
    set (p := ll mod 64 * 256 + lo). assert (Hp : 0 <= p) by (subst p; lia).
    destruct (off <=? p) eqn:E7; [apply Ret0; auto|].
    assert (Hrc : u32 (i + 1 + 1 - off) = i + 2 - off) by (rewrite u32_small; lia).
    assert (Hoff : off < blen) by lia.
    destruct name as [base|].
    + cbn [tgt_ok] in Hok.
      destruct ((nlen >=? nmax) && (nmax >? 0)) eqn:E8.
      * (* the name buffer is full: terminate it and continue without a buffer *)
        destruct (wr_ok tgt (base + nmax - 1) 0) as [tA W]; [lia|]. rewrite W.
        apply wr_inv in W. destruct W as (_ & LA & RA & _).
        assert (R := Hrec Hoff p tA None (if 0 >? nlen then 0 - nlen else 0) ltac:(lia) I).
        destruct (rec p tA None (if 0 >? nlen then 0 - nlen else 0)) as [rc tB| |]; cbn [npost] in R; try tauto.
        destruct R as (R1 & R2 & R3 & R4). specialize (R3 eq_refl). subst tB.
        destruct (rc =? 0) eqn:E9.
        { cbn [npost]. repeat split; auto; try lia; try discriminate; try (intros X; congruence). }
        cbn [npost]. rewrite Hrc. repeat split; auto; try lia; try discriminate.
        intros _ b Hb Hm. inversion Hb; subst b. exists (base + nmax - 1). split; [lia|exact RA].
      * set (smax := if nmax >? nlen then nmax - nlen else 0).
        assert (Hsm : (nmax > 0 -> 0 < smax /\ smax = nmax - nlen) /\ 0 <= smax /\ nlen + smax <= Z.max nlen nmax)
          by (subst smax; destruct (nmax >? nlen) eqn:E10; lia).
        assert (R := Hrec Hoff p tgt (Some (base + nlen)) smax ltac:(lia)).
        assert (R' : npost blen p tgt (Some (base + nlen)) smax (rec p tgt (Some (base + nlen)) smax)).
        { apply R. cbn [tgt_ok]. lia. }
        clear R. destruct (rec p tgt (Some (base + nlen)) smax) as [rc tB| |]; cbn [npost] in R'; try tauto.
        destruct R' as (R1 & R2 & R3 & R4).
        destruct (rc =? 0) eqn:E9.
        { cbn [npost]. repeat split; auto; try lia; try discriminate; try (intros X; congruence). }
        assert (Hnul : 0 < nmax -> exists k, base + nlen <= k < base + nmax /\ rd tB k = Some 0).
        { intros Hm. destruct (R4 ltac:(lia) (base + nlen) eq_refl ltac:(lia)) as (k & Hk & Rk).
          exists k. split; [lia|exact Rk]. }
        destruct (nlen >? 0) eqn:E10.
        -- (* the trailing-dot repair reads name[name_len] and may write name[name_len - 1] *)
           destruct (rd_in tB (base + nlen)) as [c Hc]; [lia|]. rewrite Hc.
           destruct (c =? 0) eqn:E12.
           ++ destruct (wr_ok tB (base + nlen - 1) 0) as [tC W]; [lia|]. rewrite W.
              apply wr_inv in W. destruct W as (_ & LC & RC & RO).
              cbn [npost]. rewrite Hrc. repeat split; auto; try lia; try discriminate.
              intros _ b Hb Hm. inversion Hb; subst b.
              destruct (Hnul Hm) as (k & Hk & Rk). exists k. split; [lia|]. rewrite RO by lia. exact Rk.
           ++ cbn [npost]. rewrite Hrc. repeat split; auto; try lia; try discriminate.
              intros _ b Hb Hm. inversion Hb; subst b.
              destruct (Hnul Hm) as (k & Hk & Rk). exists k. split; [lia|exact Rk].
        -- cbn [npost]. rewrite Hrc. repeat split; auto; try lia; try discriminate.
           intros _ b Hb Hm. inversion Hb; subst b.
           destruct (Hnul Hm) as (k & Hk & Rk). exists k. split; [lia|exact Rk].
    + (* no buffer: message_name_len *)
      assert (R := Hrec Hoff p tgt None (if nmax >? nlen then nmax - nlen else 0) ltac:(lia) I).
      destruct (rec p tgt None (if nmax >? nlen then nmax - nlen else 0)) as [rc tB| |]; cbn [npost] in R; try tauto.
      destruct R as (R1 & R2 & R3 & R4). specialize (R3 eq_refl). subst tB.
      destruct (rc =? 0) eqn:E9.
      { cbn [npost]. repeat split; auto; try lia; try discriminate. }
      cbn [npost]. rewrite Hrc. repeat split; auto; try lia; try discriminate.
Qed.

Lemma name_get_ok buf blen :
  bytes buf -> blen = zlen buf -> blen <= 65536 ->
  forall d f off tgt name nmax,
    0 <= off -> (1 <= d)%nat -> (off < blen -> Z.of_nat d > off) -> Z.of_nat f > blen ->
    tgt_ok tgt name nmax ->
    npost blen off tgt name nmax (name_get d f buf blen off tgt name nmax).
Proof.
  intros HB HL Hsz. assert (H0 : 0 <= blen) by (subst blen; unfold zlen; lia).
  induction d as [|d IH]; intros f off tgt name nmax Ho Hd Hdo Hf Hok; [lia|].
  cbn [name_get]. apply name_loop_ok; auto; try lia.
  intros Hlt p t nm mx Hp Hok'. apply IH; auto; lia.
Qed.

(* ------------------------------------------------------------------------------------------ *)
(* the C string in a target field                                                               *)
(* ------------------------------------------------------------------------------------------ *)
Lemma rd_cons c r k : 0 < k -> rd (c :: r) k = rd r (k - 1).
Proof.
  intros H. unfold rd. destruct (k <? 0) eqn:E1; [lia|]. destruct (k - 1 <? 0) eqn:E2; [lia|].
  replace (Z.to_nat k) with (S (Z.to_nat (k - 1))) by lia. reflexivity.
Qed.

Lemma cstr_of_nul : forall t k, rd t k = Some 0 ->
  exists s, cstr t = Some s /\ zlen s <= k /\ ~ In 0 s.
Proof.
  induction t as [|c r IH]; intros k H.
  - apply rd_bound in H. cbn in H. lia.
  - cbn [cstr]. destruct (c =? 0) eqn:E.
    + exists []. apply rd_bound in H. cbn. repeat split; auto; lia.
    + assert (Hk : 0 < k).
      { pose proof (rd_bound _ _ _ H) as B. destruct (Z.eq_dec k 0) as [->|]; [|lia].
        cbn in H. inversion H. lia. }
      rewrite rd_cons in H by exact Hk. destruct (IH _ H) as (s & -> & L & N).
      exists (c :: s). unfold zlen in *. cbn [length]. repeat split; auto; try lia.
      intros [X|X]; [lia|auto].
Qed.

(* what a consumer of the list relies on for every record *)
Definition target_ok (t : list Z) : Prop :=
  zlen t = MAX_DOMAIN_LEN /\
  exists s, cstr t = Some s /\ zlen s < MAX_DOMAIN_LEN /\ ~ In 0 s.

(* ------------------------------------------------------------------------------------------ *)
(* resolver_raw_srv_lookup_buf                                                                  *)
(* ------------------------------------------------------------------------------------------ *)
Section Lookup.
Variable buf : list Z.
Hypothesis HB : bytes buf.
Hypothesis Hsz : zlen buf <= 65536.
Let blen := zlen buf.
Let fuel := S (length buf).

Lemma fuel_gt : Z.of_nat fuel > blen.
Proof. unfold fuel, blen, zlen. lia. Qed.

Lemma name_len_at_ok j : 0 <= j ->
  exists rc t, name_len_at fuel buf blen j = NRet rc t /\ (rc = 0 \/ (1 <= rc /\ j + rc <= blen)).
Proof.
  intros Hj. unfold name_len_at.
  assert (P := name_get_ok buf blen HB eq_refl Hsz fuel fuel j [] None SIZE_MAX Hj).
  assert (Q : npost blen j [] None SIZE_MAX (name_get fuel fuel buf blen j [] None SIZE_MAX)).
  { apply P; try (pose proof fuel_gt; unfold fuel in *; lia). exact I. }
  destruct (name_get fuel fuel buf blen j [] None SIZE_MAX) as [rc t| |]; cbn [npost] in Q; try tauto.
  exists rc, t. split; [reflexivity|tauto].
Qed.

Lemma skip_questions_ok : forall n j, 0 <= j < 4294967296 ->
  match skip_questions n fuel buf blen j with
  | QOk j' => 0 <= j' < 4294967296
  | QStop st => st = XMPP_DOMAIN_NOT_FOUND
  | _ => False
  end.
Proof.
  induction n as [|n IH]; intros j Hj; cbn [skip_questions]; [exact Hj|].
  change (ovf_k 0) with 0. rewrite ovf_check_spec, Z.add_0_r, u32_small by lia.
  destruct (blen <=? j) eqn:E; [reflexivity|].
  destruct (name_len_at_ok j) as (rc & t & -> & Hrc); [lia|].
  destruct (rc =? 0) eqn:E2; [reflexivity|].
  apply IH. unfold u32. apply Z.mod_pos_bound. lia.
Qed.

Definition list_ok (l : list srv_rr) : Prop := Forall (fun r => target_ok (rr_target r)) l.

Lemma srv_target_ok j : 0 <= j ->
  exists rc t, name_get fuel fuel buf blen j (repeat 0 (Z.to_nat MAX_DOMAIN_LEN)) (Some 0) MAX_DOMAIN_LEN = NRet rc t /\
               0 <= rc /\ (rc > 0 -> target_ok t).
Proof.
  intros Hj.
  set (t0 := repeat 0 (Z.to_nat MAX_DOMAIN_LEN)).
  assert (L0 : zlen t0 = MAX_DOMAIN_LEN) by (unfold zlen, t0; rewrite repeat_length; reflexivity).
  assert (P := name_get_ok buf blen HB eq_refl Hsz fuel fuel j t0 (Some 0) MAX_DOMAIN_LEN Hj).
  assert (Q : npost blen j t0 (Some 0) MAX_DOMAIN_LEN (name_get fuel fuel buf blen j t0 (Some 0) MAX_DOMAIN_LEN)).
  { apply P; try (pose proof fuel_gt; unfold fuel in *; lia). cbn [tgt_ok]. rewrite L0. unfold MAX_DOMAIN_LEN. lia. }
  destruct (name_get fuel fuel buf blen j t0 (Some 0) MAX_DOMAIN_LEN) as [rc t| |]; cbn [npost] in Q; try tauto.
  destruct Q as (Q1 & Q2 & _ & Q4). exists rc, t. split; [reflexivity|]. split; [lia|].
  intros Hrc. destruct (Q4 ltac:(lia) 0 eq_refl ltac:(unfold MAX_DOMAIN_LEN; lia)) as (k & Hk & Rk).
  split; [lia|]. destruct (cstr_of_nul _ _ Rk) as (s & Hs & Ls & Ns).
  exists s. repeat split; auto. lia.
Qed.

Lemma found_neq : XMPP_DOMAIN_FOUND <> XMPP_DOMAIN_NOT_FOUND.
Proof. discriminate. Qed.

Definition raw_post (r : lres) : Prop :=
  match r with
  | LDone st l => (st = XMPP_DOMAIN_FOUND \/ st = XMPP_DOMAIN_NOT_FOUND) /\
                  (st = XMPP_DOMAIN_FOUND -> l <> []) /\ list_ok l
  | _ => False
  end.

Lemma answers_ok : forall n j l, 0 <= j < 4294967296 -> list_ok l ->
  raw_post (answers n fuel buf blen j l).
Proof.
  assert (NF := found_neq).
  induction n as [|n IH]; intros j l Hj Hl; cbn [answers].
  - cbn [raw_post]. destruct l; repeat split; auto; try congruence.
  - change (ovf_k 1) with 0. change (ovf_k 2) with 9. change (ovf_k 3) with 6.
    rewrite !ovf_check_spec, Z.add_0_r, (u32_small j) by lia.
    assert (Stop : raw_post (LDone XMPP_DOMAIN_NOT_FOUND [])).
    { cbn [raw_post]. repeat split; auto; try congruence. constructor. }
    destruct (blen <=? j) eqn:E; [exact Stop|].
    destruct (name_len_at_ok j) as (rc & t & -> & Hrc); [lia|].
    destruct (rc =? 0) eqn:E2.
    { cbn [raw_post]. repeat split; auto; congruence. }
    rewrite (u32_small (j + rc)) by (fold blen in Hsz; lia).
    set (j1 := j + rc). assert (Hj1 : 0 <= j1 <= blen) by lia. fold blen in Hsz.
    rewrite (u32_small (j1 + 9)), ovf_check_spec by lia.
    destruct (blen <=? j1 + 9) eqn:E3; [exact Stop|].
    change rr_type_off with 0. change rr_class_off with 2. change rr_rdlength_off with 8.
    change rr_fixed_len with 10.
    rewrite Z.add_0_r, (u32_small j1), (u32_small (j1 + 2)), (u32_small (j1 + 8)), (u32_small (j1 + 10)) by lia.
    destruct (rd16_in buf j1) as (ty & -> & Hty); try (fold blen; lia).
    destruct (rd16_in buf (j1 + 2)) as (cl & -> & Hcl); try (fold blen; lia).
    destruct (rd16_in buf (j1 + 8)) as (rdl & -> & Hrdl); try (fold blen; lia).
    assert (Hnext : forall x, 0 <= u32 x < 4294967296) by (intros x; unfold u32; apply Z.mod_pos_bound; lia).
    destruct ((ty =? MESSAGE_T_SRV) && (cl =? MESSAGE_C_IN)) eqn:E4; [|apply IH; auto].
    set (j2 := j1 + 10).
    fold j2. rewrite (u32_small (j2 + 6)), ovf_check_spec by lia.
    destruct (blen <=? j2 + 6) eqn:E5; [exact Stop|].
    change srv_prio_off with 0. change srv_weight_off with 2. change srv_port_off with 4.
    change srv_target_off with 6.
    rewrite Z.add_0_r, (u32_small j2), (u32_small (j2 + 2)), (u32_small (j2 + 4)), (u32_small (j2 + 6)) by lia.
    destruct (rd16_in buf j2) as (pr & -> & Hpr); try (fold blen; lia).
    destruct (rd16_in buf (j2 + 2)) as (we & -> & Hwe); try (fold blen; lia).
    destruct (rd16_in buf (j2 + 4)) as (po & -> & Hpo); try (fold blen; lia).
    destruct (srv_target_ok (j2 + 6)) as (rc2 & t2 & -> & Hrc2 & Ht2); [lia|].
    apply IH; auto.
    destruct (rc2 >? 0) eqn:E6; [|exact Hl].
    constructor; [|exact Hl]. cbn [rr_target]. apply Ht2. lia.
Qed.

Lemma lookup_raw_ok : raw_post (lookup_raw buf).
Proof.
  assert (NF := found_neq).
  unfold lookup_raw. fold blen. fold fuel.
  assert (Stop : raw_post (LDone XMPP_DOMAIN_NOT_FOUND [])).
  { cbn [raw_post]. repeat split; auto; try congruence. constructor. }
  change MESSAGE_HEADER_LEN with 12.
  destruct (blen <? 12) eqn:E; [exact Stop|].
  change hdr_octet2_off with 2. change hdr_octet3_off with 3.
  change hdr_qdcount_off with 4. change hdr_ancount_off with 6.
  destruct (rd_in buf 2) as [o2 ->]; [fold blen; lia|].
  destruct (rd_in buf 3) as [o3 ->]; [fold blen; lia|].
  destruct (rd16_in buf 4) as (qd & -> & Hqd); try (fold blen; lia).
  destruct (rd16_in buf 6) as (an & -> & Han); try (fold blen; lia).
  match goal with |- context [if ?c then _ else _] => destruct c end; [exact Stop|].
  assert (Q := skip_questions_ok (Z.to_nat qd) 12 ltac:(lia)).
  destruct (skip_questions (Z.to_nat qd) fuel buf blen 12) as [j|st| |]; try tauto.
  - apply answers_ok; [exact Q|constructor].
  - subst st. exact Stop.
Qed.

End Lookup.

(* ------------------------------------------------------------------------------------------ *)
(* resolver_srv_lookup_buf: the statements of C15 (1)-(3)                                       *)
(* ------------------------------------------------------------------------------------------ *)
Definition unsorted_post (r : lres) : Prop :=
  match r with
  | LDone st l => (st = XMPP_DOMAIN_FOUND \/ st = XMPP_DOMAIN_NOT_FOUND) /\
                  (st = XMPP_DOMAIN_FOUND <-> l <> []) /\ list_ok l
  | _ => False
  end.

Lemma lookup_unsorted_ok buf : bytes buf -> zlen buf <= 65536 -> unsorted_post (lookup_unsorted buf).
Proof.
  intros HB Hsz. assert (R := lookup_raw_ok buf HB Hsz). unfold lookup_unsorted.
  destruct (lookup_raw buf) as [st l| |]; cbn [raw_post] in R; try tauto.
  destruct R as (R1 & R2 & R3).
  destruct (negb (st =? XMPP_DOMAIN_FOUND) && match l with [] => false | _ => true end) eqn:E; cbn [unsorted_post].
  - repeat split; auto; try (constructor; fail); try congruence. lia.
  - repeat split; auto. intros Hl. destruct l; [congruence|]. lia.
Qed.

Lemma lookup_no_oob buf : bytes buf -> zlen buf <= 65536 ->
  lookup buf <> LOOB /\ lookup buf <> LFuel.
Proof.
  intros HB Hsz. assert (R := lookup_unsorted_ok buf HB Hsz). unfold lookup.
  destruct (lookup_unsorted buf) as [st l| |]; cbn [unsorted_post] in R; try tauto.
  destruct (srv_sort_fuel_enough l) as (l' & ->). split; discriminate.
Qed.

Lemma lookup_consistent buf st l : bytes buf -> zlen buf <= 65536 ->
  lookup buf = LDone st l ->
  (st = XMPP_DOMAIN_FOUND \/ st = XMPP_DOMAIN_NOT_FOUND) /\
  (st = XMPP_DOMAIN_FOUND <-> l <> []) /\
  forall r, In r l ->
    zlen (rr_target r) = MAX_DOMAIN_LEN /\
    exists s, cstr (rr_target r) = Some s /\ zlen s < MAX_DOMAIN_LEN /\ ~ In 0 s.
Proof.
  intros HB Hsz H. assert (R := lookup_unsorted_ok buf HB Hsz). unfold lookup in H.
  destruct (lookup_unsorted buf) as [st0 l0| |]; cbn [unsorted_post] in R; try discriminate.
  destruct (srv_sort l0) as [l1|] eqn:S; [|discriminate]. inversion H; subst; clear H.
  destruct R as (R1 & R2 & R3). apply srv_sort_sorted in S. destruct S as [P _].
  split; [exact R1|]. split.
  - rewrite R2. split; intros X Y; subst.
    + apply Permutation_sym, Permutation_nil in P. auto.
    + apply Permutation_nil in P. auto.
  - intros r Hr. apply Permutation_sym in P. eapply Permutation_in in Hr; [|exact P].
    unfold list_ok in R3. eapply Forall_forall in R3; [|exact Hr]. exact R3.
Qed.

Lemma lookup_sorted buf st l : lookup buf = LDone st l ->
  exists u, lookup_unsorted buf = LDone st u /\ Permutation u l /\ StronglySorted srv_le l.
Proof.
  unfold lookup. destruct (lookup_unsorted buf) as [st0 l0| |]; try discriminate.
  destruct (srv_sort l0) as [l1|] eqn:S; [|discriminate]. intros H; inversion H; subst; clear H.
  apply srv_sort_sorted in S. exists l0. tauto.
Qed.

Lemma sort_fuel_enough l : srv_sort l <> None.
Proof. destruct (srv_sort_fuel_enough l) as (l' & ->). discriminate. Qed.

(* ------------------------------------------------------------------------------------------ *)
(* (4) correctness on well-formed responses: list lemmas                                         *)
(* ------------------------------------------------------------------------------------------ *)
Lemma octet_rd buf i : octet buf i = rd buf i.
Proof. reflexivity. Qed.

Lemma rd_nil k : rd [] k = None.
Proof. unfold rd. destruct (k <? 0); [reflexivity|]. destruct (Z.to_nat k); reflexivity. Qed.
Lemma rd_0 c r : rd (c :: r) 0 = Some c.
Proof. reflexivity. Qed.

Lemma rd_app_l : forall a b k, k < zlen a -> rd (a ++ b) k = rd a k.
Proof.
  induction a as [|x a IH]; intros b k H.
  - unfold zlen in H. cbn in H. unfold rd. destruct (k <? 0) eqn:E; [reflexivity|lia].
  - destruct (Z_lt_le_dec k 0) as [N|N]; [unfold rd; destruct (k <? 0) eqn:E; [reflexivity|lia]|].
    destruct (Z.eq_dec k 0) as [->|Hk]; [reflexivity|].
    cbn [app]. rewrite !rd_cons by lia. apply IH. unfold zlen in *. cbn [length] in H. lia.
Qed.
Lemma rd_app_r : forall a b k, zlen a <= k -> rd (a ++ b) k = rd b (k - zlen a).
Proof.
  induction a as [|x a IH]; intros b k H.
  - cbn [app]. unfold zlen. cbn [length]. f_equal. lia.
  - unfold zlen in H. cbn [length] in H. cbn [app]. rewrite rd_cons by lia.
    rewrite IH by (unfold zlen; lia). f_equal. unfold zlen. cbn [length]. lia.
Qed.

Lemma rd_skipn : forall n l k, 0 <= k -> rd (skipn n l) k = rd l (Z.of_nat n + k).
Proof.
  induction n as [|n IH]; intros l k Hk; [cbn [skipn]; f_equal; lia|].
  destruct l as [|x l]; [cbn [skipn]; rewrite !rd_nil; reflexivity|].
  cbn [skipn]. rewrite IH by lia. rewrite (rd_cons x l) by lia. f_equal. lia.
Qed.
Lemma rd_firstn : forall n l k, k < Z.of_nat n -> rd (firstn n l) k = rd l k.
Proof.
  induction n as [|n IH]; intros l k Hk.
  - unfold rd. destruct (k <? 0) eqn:E; [reflexivity|lia].
  - destruct l as [|x l]; [reflexivity|]. cbn [firstn].
    destruct (Z_lt_le_dec k 0) as [N|N]; [unfold rd; destruct (k <? 0) eqn:E; [reflexivity|lia]|].
    destruct (Z.eq_dec k 0) as [->|Hk0]; [reflexivity|].
    rewrite !rd_cons by lia. apply IH. lia.
Qed.

Lemma slice_spec buf i n lab : slice buf i n = Some lab ->
  0 <= i /\ 0 <= n /\ i + n <= zlen buf /\ zlen lab = n /\
  forall k, 0 <= k < n -> rd lab k = rd buf (i + k).
Proof.
  unfold slice. destruct ((0 <=? i) && (0 <=? n) && (i + n <=? zlen buf)) eqn:E; [|discriminate].
  intros H; inversion H; subst; clear H. repeat split; try lia.
  - unfold zlen in *. rewrite firstn_length, skipn_length. lia.
  - intros k Hk. rewrite rd_firstn by lia. rewrite rd_skipn by lia. f_equal. lia.
Qed.

Lemma copy_bytes_spec : forall n buf src tgt dst tgt',
  copy_bytes n buf src tgt dst = Some tgt' ->
  zlen tgt' = zlen tgt /\
  (forall k, 0 <= k < Z.of_nat n -> rd tgt' (dst + k) = rd buf (src + k)) /\
  (forall j, j < dst \/ dst + Z.of_nat n <= j -> rd tgt' j = rd tgt j).
Proof.
  induction n as [|n IH]; intros buf src tgt dst tgt' H; cbn [copy_bytes] in H.
  - inversion H; subst. repeat split; auto. intros k Hk. lia.
  - destruct (rd buf src) as [b|] eqn:Hb; [|discriminate].
    destruct (wr tgt dst b) as [t1|] eqn:W; [|discriminate].
    apply wr_inv in W. destruct W as (Hd & L1 & R1 & O1).
    apply IH in H. destruct H as (L2 & C2 & O2). repeat split; [lia| |].
    + intros k Hk. destruct (Z.eq_dec k 0) as [->|Hk0].
      * rewrite !Z.add_0_r. rewrite O2 by lia. rewrite R1. auto.
      * replace (dst + k) with (dst + 1 + (k - 1)) by lia. rewrite C2 by lia. f_equal. lia.
    + intros j Hj. rewrite O2 by lia. apply O1. lia.
Qed.

Lemma cstr_pointwise : forall s t,
  (forall k, 0 <= k < zlen s -> rd t k = rd s k) -> rd t (zlen s) = Some 0 -> ~ In 0 s ->
  cstr t = Some s.
Proof.
  induction s as [|c s IH]; intros t Hs H0 Hn.
  - destruct t as [|x t]; [rewrite rd_nil in H0; discriminate|].
    cbn in H0. inversion H0; subst. reflexivity.
  - assert (Hc := Hs 0 ltac:(unfold zlen; cbn [length]; lia)). rewrite rd_0 in Hc.
    destruct t as [|x t]; [rewrite rd_nil in Hc; discriminate|]. rewrite rd_0 in Hc. inversion Hc; subst x.
    cbn [cstr]. destruct (c =? 0) eqn:E; [exfalso; apply Hn; left; lia|].
    rewrite (IH t); [reflexivity| | |].
    + intros k Hk. assert (Q := Hs (k + 1) ltac:(unfold zlen in *; cbn [length]; lia)).
      rewrite !rd_cons in Q by lia. replace (k + 1 - 1) with k in Q by lia. exact Q.
    + unfold zlen in *. cbn [length] in H0. rewrite rd_cons in H0 by lia.
      replace (Z.of_nat (S (length s)) - 1) with (Z.of_nat (length s)) in H0 by lia. exact H0.
    + intros X. apply Hn. right. exact X.
Qed.

(* every label followed by a dot: what the decoder appends before the terminator replaces the last dot *)
Fixpoint tail_text (labels : list (list Z)) : list Z :=
  match labels with
  | [] => []
  | l :: r => l ++ 46 :: tail_text r
  end.

Lemma tail_text_dotted : forall labels, labels <> [] -> tail_text labels = dotted labels ++ [46].
Proof.
  induction labels as [|l r IH]; intros H; [congruence|].
  destruct r as [|l2 r]; [reflexivity|].
  cbn [tail_text dotted] in *. rewrite IH by discriminate. rewrite <- app_assoc. reflexivity.
Qed.
Lemma wire_len_tail : forall labels, wire_len labels = 1 + zlen (tail_text labels).
Proof.
  induction labels as [|l r IH]; [reflexivity|]. cbn [wire_len tail_text]. rewrite IH.
  unfold zlen. rewrite app_length. cbn [length]. lia.
Qed.
Lemma dotted_nul_free : forall labels, text_labels labels -> ~ In 0 (dotted labels).
Proof.
  induction labels as [|l r IH]; intros H; [intros []|].
  inversion H; subst. destruct r as [|l2 r].
  - cbn [dotted]. intros X. eapply Forall_forall in H2; eauto.
  - cbn [dotted]. intros X. apply in_app_or in X. destruct X as [X|[X|X]].
    + eapply Forall_forall in H2; eauto.
    + discriminate.
    + apply IH in H3. auto.
Qed.

(* facts about names that the relation guarantees *)
Lemma name_run_facts buf : forall lim off labels e, name_run buf lim off labels e ->
  off + 1 <= e <= zlen buf /\ 0 <= off /\ Forall (fun l => 1 <= zlen l) labels.
Proof.
  induction 1.
  - rewrite octet_rd in H. apply rd_bound in H. repeat split; try lia. constructor.
  - apply slice_spec in H1. rewrite octet_rd in H. apply rd_bound in H.
    destruct IHname_run as (A & B & C). repeat split; try lia. constructor; [lia|exact C].
  - rewrite octet_rd in H, H1. apply rd_bound in H. apply rd_bound in H1.
    destruct IHname_run as (A & B & C). repeat split; try lia. exact C.
Qed.

(* ------------------------------------------------------------------------------------------ *)
(* (4) message_name_get on well-formed names                                                    *)
(* ------------------------------------------------------------------------------------------ *)
(* what a successful expansion into &target[base] leaves behind, given that name_len characters
   were already there and T (every remaining label followed by '.') is appended *)
Definition res_ok (tgt tgt' : list Z) (base nlen : Z) (T : list Z) : Prop :=
  zlen tgt' = zlen tgt /\
  (forall k, 0 <= k < base + nlen -> (k < base + nlen - 1 \/ 0 < zlen T \/ nlen = 0) -> rd tgt' k = rd tgt k) /\
  (forall k, 0 <= k < zlen T - 1 -> rd tgt' (base + nlen + k) = rd T k) /\
  (0 < zlen T -> rd tgt' (base + nlen + zlen T - 1) = Some 0) /\
  (zlen T = 0 -> rd tgt' (base + Z.max nlen 1 - 1) = Some 0).

Section Names.
Variable buf : list Z.
Hypothesis HB : bytes buf.
Hypothesis Hsz : zlen buf <= 65536.
Let blen := zlen buf.

Definition rec_skips (rec : Z -> list Z -> option Z -> Z -> nres) (lim : Z) : Prop :=
  forall p labels e t mx, p < lim -> name_run buf p p labels e -> rec p t None mx = NRet (e - p) t.

Lemma skip_loop rec : forall lim off labels e, name_run buf lim off labels e ->
  rec_skips rec lim -> 0 <= lim <= off ->
  forall f t nlen nmax, Z.of_nat f > blen - off ->
    name_loop rec buf blen lim f off t None nlen nmax = NRet (e - lim) t.
Proof.
  induction 1 as [lim off H0|lim off n lab rest e H0 Hn Hs Hr IH|lim off hi lo p rest e' Hhi Hr1 Hlo Hp Hlt Hsub _];
    intros Hrec Hle f t nlen nmax Hf; assert (Hbl : blen <= 65536) by exact Hsz.
  - rewrite octet_rd in H0. pose proof (rd_bound _ _ _ H0) as B. fold blen in B.
    destruct f as [|f]; [lia|]. cbn [name_loop]. unfold idx_guard, label_end_guard, label_end_adjust, name_full, room_left, fixup_guard.
    destruct (off >=? blen) eqn:E; [lia|]. rewrite H0. rewrite u32_small by lia.
    cbn [Z.eqb]. unfold name_finish, term_guard. rewrite u32_small by lia. f_equal; lia.
  - rewrite octet_rd in H0. pose proof (rd_bound _ _ _ H0) as B. fold blen in B.
    apply slice_spec in Hs. destruct Hs as (S1 & S2 & S3 & S4 & S5). fold blen in S3. unfold MAX_LABEL in Hn.
    destruct f as [|f]; [lia|]. cbn [name_loop]. unfold idx_guard, label_end_guard, label_end_adjust, name_full, room_left, fixup_guard.
    destruct (off >=? blen) eqn:E; [lia|]. rewrite H0. rewrite (u32_small (off + 1)) by lia.
    destruct (n =? 0) eqn:E0; [lia|].
    rewrite label_type_octet by lia. replace (n / 64 * 64) with 0 by lia.
    change (0 =? label_tag) with true. cbn iota.
    rewrite (u32_small (off + 1 + n - 1)), (u32_small (off + 1 + n)) by lia.
    destruct (off + 1 + n - 1 >=? blen) eqn:E2; [lia|].
    apply IH; auto; lia.
  - rewrite octet_rd in Hhi, Hlo. pose proof (rd_bound _ _ _ Hhi) as B. pose proof (rd_bound _ _ _ Hlo) as B2.
    fold blen in B, B2. pose proof (rd_byte _ _ _ HB Hlo) as Blo. unfold POINTER_TAG in *.
    destruct f as [|f]; [lia|]. cbn [name_loop]. unfold idx_guard, label_end_guard, label_end_adjust, name_full, room_left, fixup_guard.
    destruct (off >=? blen) eqn:E; [lia|]. rewrite Hhi. rewrite (u32_small (off + 1)) by lia.
    destruct (hi =? 0) eqn:E0; [lia|].
    rewrite label_type_octet by lia. replace (hi / 64 * 64) with 192 by lia.
    change (192 =? label_tag) with false. change (192 =? pointer_tag) with true. cbn iota.
    destruct (off + 1 >=? blen) eqn:E2; [lia|]. rewrite Hlo.
    rewrite pointer_octets by lia. replace (hi mod 64 * 256 + lo) with p by lia.
    pose proof (name_run_facts _ _ _ _ _ Hsub) as (F1 & F2 & _).
    rewrite (u32_small p), (u32_small (off + 1 + 1)) by lia.
    rewrite pointer_guard_spec. destruct (lim <=? p) eqn:E3; [lia|].
    rewrite (Hrec p rest e' t _ Hlt Hsub).
    destruct (e' - p =? 0) eqn:E4; [lia|]. rewrite u32_small by lia. f_equal; lia.
Qed.

Lemma skip_get : forall d off labels e t mx f,
  name_run buf off off labels e -> Z.of_nat d > off -> Z.of_nat f > blen ->
  name_get d f buf blen off t None mx = NRet (e - off) t.
Proof.
  induction d as [|d IH]; intros off labels e t mx f H Hd Hf.
  - pose proof (name_run_facts _ _ _ _ _ H). lia.
  - cbn [name_get]. pose proof (name_run_facts _ _ _ _ _ H) as (F1 & F2 & _).
    eapply skip_loop; eauto; try lia.
    intros p labels' e'' t' mx' Hp Hrun. pose proof (name_run_facts _ _ _ _ _ Hrun).
    eapply IH; eauto; lia.
Qed.

Definition rec_expands (rec : Z -> list Z -> option Z -> Z -> nres) (lim : Z) : Prop :=
  forall p labels e tgt base nmax, p < lim -> name_run buf p p labels e -> text_labels labels ->
    0 <= base -> zlen (tail_text labels) < nmax -> base + nmax <= zlen tgt ->
    exists tgt', rec p tgt (Some base) nmax = NRet (e - p) tgt' /\ res_ok tgt tgt' base 0 (tail_text labels).

Lemma rd_head_nonzero (lab : list Z) : 1 <= zlen lab -> Forall (fun c => c <> 0) lab ->
  exists c, rd lab 0 = Some c /\ c <> 0.
Proof.
  destruct lab as [|c lab]; [unfold zlen; cbn; lia|]. intros _ H. inversion H; subst.
  exists c. split; [reflexivity|assumption].
Qed.

Lemma target_loop rec : forall lim off labels e, name_run buf lim off labels e ->
  rec_expands rec lim -> 0 <= lim <= off -> text_labels labels ->
  forall f tgt base nlen nmax, Z.of_nat f > blen - off -> 0 <= base -> 0 <= nlen ->
    nlen + zlen (tail_text labels) < nmax -> base + nmax <= zlen tgt ->
    exists tgt', name_loop rec buf blen lim f off tgt (Some base) nlen nmax = NRet (e - lim) tgt' /\
                 res_ok tgt tgt' base nlen (tail_text labels).
Proof.
  induction 1 as [lim off H0|lim off n lab rest e H0 Hn Hs Hr IH|lim off hi lo p rest e' Hhi Hr1 Hlo Hp Hlt Hsub _];
    intros Hrec Hle Htxt f tgt base nlen nmax Hf Hbase Hnlen Hroom Hfit; assert (Hbl : blen <= 65536) by exact Hsz.
  - (* root *)
    rewrite octet_rd in H0. pose proof (rd_bound _ _ _ H0) as B. fold blen in B.
    destruct f as [|f]; [lia|]. cbn [name_loop]. unfold idx_guard, label_end_guard, label_end_adjust, name_full, room_left, fixup_guard.
    destruct (off >=? blen) eqn:E; [lia|]. rewrite H0. rewrite u32_small by lia.
    cbn [Z.eqb]. unfold name_finish, term_guard. cbn [tail_text] in *. change (zlen (@nil Z)) with 0 in *.
    destruct (nmax >? 0) eqn:E1; [|lia].
    set (nl := if nlen =? 0 then 1 else nlen).
    assert (Hnl : nl = Z.max nlen 1) by (subst nl; destruct (nlen =? 0) eqn:E2; lia).
    replace (base + Z.min nl nmax - 1) with (base + Z.max nlen 1 - 1) by lia.
    destruct (wr_ok tgt (base + Z.max nlen 1 - 1) 0) as [t' W]; [lia|]. rewrite W.
    apply wr_inv in W. destruct W as (_ & L & R & O).
    exists t'. split; [rewrite u32_small by lia; f_equal; lia|].
    unfold res_ok. change (zlen (@nil Z)) with 0. repeat split; auto; try lia.
    intros k Hk Hc. apply O. lia.
  - (* label *)
    rewrite octet_rd in H0. pose proof (rd_bound _ _ _ H0) as B. fold blen in B.
    apply slice_spec in Hs. destruct Hs as (S1 & S2 & S3 & S4 & S5). fold blen in S3. unfold MAX_LABEL in Hn.
    inversion Htxt as [|? ? Hlabtxt Hresttxt]; subst.
    cbn [tail_text] in *. set (Tr := tail_text rest) in *.
    assert (HT : zlen (lab ++ 46 :: Tr) = zlen lab + 1 + zlen Tr) by (unfold zlen; rewrite app_length; cbn [length]; lia).
    rewrite HT in *. assert (HTr : 0 <= zlen Tr) by (unfold zlen; lia).
    destruct f as [|f]; [lia|]. cbn [name_loop]. unfold idx_guard, label_end_guard, label_end_adjust, name_full, room_left, fixup_guard.
    destruct (off >=? blen) eqn:E; [lia|]. rewrite H0. rewrite (u32_small (off + 1)) by lia.
    destruct (zlen lab =? 0) eqn:E0; [lia|].
    rewrite label_type_octet by lia. replace (zlen lab / 64 * 64) with 0 by lia.
    change (0 =? label_tag) with true. cbn iota.
    rewrite (u32_small (off + 1 + zlen lab - 1)), (u32_small (off + 1 + zlen lab)) by lia.
    destruct (off + 1 + zlen lab - 1 >=? blen) eqn:E2; [lia|].
    unfold append_label, append_copy_len, room_left, copy_guard.
    destruct (nmax >? nlen) eqn:E3; [|lia].
    replace (Z.min (zlen lab) (nmax - nlen)) with (zlen lab) by lia.
    destruct (zlen lab >? 0) eqn:E4; [|lia].
    destruct (copy_bytes_ok (Z.to_nat (zlen lab)) buf (off + 1) tgt (base + nlen)) as (t1 & C1 & L1); try (fold blen; lia).
    rewrite C1. apply copy_bytes_spec in C1. destruct C1 as (_ & C1 & O1).
    unfold append_dot, append_copy_len, room_left, copy_guard.
    destruct (nmax >? nlen + zlen lab) eqn:E5; [|lia].
    replace (Z.min 1 (nmax - (nlen + zlen lab))) with 1 by lia. cbn [Z.gtb Z.compare].
    destruct (wr_ok t1 (base + (nlen + zlen lab)) 46) as [t2 W]; [lia|]. rewrite W.
    apply wr_inv in W. destruct W as (_ & L2 & R2 & O2).
    destruct (IH Hrec ltac:(lia) Hresttxt f t2 base (nlen + zlen lab + 1) nmax) as (t' & Hloop & Hres); try lia.
    exists t'. split; [exact Hloop|].
    destruct Hres as (Q1 & Q2 & Q3 & Q4 & Q5). fold Tr in Q2, Q3, Q4, Q5.
    unfold res_ok. rewrite HT. split; [lia|]. split; [|split; [|split]].
    + intros k Hk _. rewrite Q2 by lia. rewrite O2 by lia. apply O1. lia.
    + intros k Hk. destruct (Z_lt_le_dec k (zlen lab)) as [K|K].
      * rewrite Q2 by lia. rewrite O2 by lia. rewrite (C1 k) by lia.
        rewrite rd_app_l by lia. rewrite S5 by lia. reflexivity.
      * destruct (Z.eq_dec k (zlen lab)) as [->|K2].
        -- rewrite Q2 by lia. replace (base + nlen + zlen lab) with (base + (nlen + zlen lab)) by lia.
           rewrite R2. rewrite rd_app_r by lia. rewrite Z.sub_diag. reflexivity.
        -- replace (base + nlen + k) with (base + (nlen + zlen lab + 1) + (k - zlen lab - 1)) by lia.
           rewrite Q3 by lia. rewrite rd_app_r by lia. rewrite rd_cons by lia. f_equal; lia.
    + intros _. destruct (Z.eq_dec (zlen Tr) 0) as [Z0|Z0].
      * rewrite Z0. specialize (Q5 Z0). replace (base + nlen + (zlen lab + 1 + 0) - 1) with (base + Z.max (nlen + zlen lab + 1) 1 - 1) by lia. exact Q5.
      * replace (base + nlen + (zlen lab + 1 + zlen Tr) - 1) with (base + (nlen + zlen lab + 1) + zlen Tr - 1) by lia.
        apply Q4. lia.
    + intros X. lia.
  - (* pointer *)
    rewrite octet_rd in Hhi, Hlo. pose proof (rd_bound _ _ _ Hhi) as B. pose proof (rd_bound _ _ _ Hlo) as B2.
    fold blen in B, B2. pose proof (rd_byte _ _ _ HB Hlo) as Blo. unfold POINTER_TAG in *.
    set (T := tail_text rest) in *. assert (HT0 : 0 <= zlen T) by (unfold zlen; lia).
    destruct f as [|f]; [lia|]. cbn [name_loop]. unfold idx_guard, label_end_guard, label_end_adjust, name_full, room_left, fixup_guard.
    destruct (off >=? blen) eqn:E; [lia|]. rewrite Hhi. rewrite (u32_small (off + 1)) by lia.
    destruct (hi =? 0) eqn:E0; [lia|].
    rewrite label_type_octet by lia. replace (hi / 64 * 64) with 192 by lia.
    change (192 =? label_tag) with false. change (192 =? pointer_tag) with true. cbn iota.
    destruct (off + 1 >=? blen) eqn:E2; [lia|]. rewrite Hlo.
    rewrite pointer_octets by lia. replace (hi mod 64 * 256 + lo) with p by lia.
    pose proof (name_run_facts _ _ _ _ _ Hsub) as (F1 & F2 & F3).
    rewrite (u32_small p), (u32_small (off + 1 + 1)) by lia.
    rewrite pointer_guard_spec. destruct (lim <=? p) eqn:E3; [lia|].
    destruct ((nlen >=? nmax) && (nmax >? 0)) eqn:E4; [lia|].
    destruct (nmax >? nlen) eqn:E5; [|lia].
    destruct (Hrec p rest e' tgt (base + nlen) (nmax - nlen) Hlt Hsub Htxt) as (tB & -> & RB); try (fold T; lia).
    fold T in RB. destruct RB as (Q1 & Q2 & Q3 & Q4 & Q5).
    destruct (e' - p =? 0) eqn:E6; [lia|].
    rewrite (u32_small (off + 1 + 1 - lim)) by lia. replace (off + 1 + 1 - lim) with (off + 2 - lim) by lia.
    destruct (nlen >? 0) eqn:E7.
    + destruct (Z.eq_dec (zlen T) 0) as [Z0|Z0].
      * (* the pointer leads to the root: the dot after the last label is replaced *)
        specialize (Q5 Z0). replace (base + nlen + Z.max 0 1 - 1) with (base + nlen) in Q5 by lia. rewrite Q5.
        cbn [Z.eqb].
        destruct (wr_ok tB (base + nlen - 1) 0) as [tC W]; [lia|]. rewrite W.
        apply wr_inv in W. destruct W as (_ & LC & RC & OC).
        exists tC. split; [reflexivity|]. unfold res_ok. rewrite Z0.
        split; [lia|]. split; [|split; [|split]].
        -- intros k Hk Hc. rewrite OC by lia. apply Q2; lia.
        -- intros k Hk. lia.
        -- intros X. lia.
        -- intros _. replace (base + Z.max nlen 1 - 1) with (base + nlen - 1) by lia. exact RC.
      * (* a further label follows: its first octet is not NUL, nothing is repaired *)
        destruct rest as [|lab rest]; [subst T; unfold zlen in Z0; cbn in Z0; lia|].
        inversion Htxt as [|? ? Hlabtxt _]; subst. inversion F3 as [|? ? Hlablen _]; subst.
        destruct (rd_head_nonzero lab Hlablen Hlabtxt) as (c & Hc & Hc0).
        assert (HT2 : 2 <= zlen T).
        { subst T. cbn [tail_text]. unfold zlen in *. rewrite app_length. cbn [length]. lia. }
        assert (Hfirst : rd tB (base + nlen) = Some c).
        { replace (base + nlen) with (base + nlen + 0 + 0) by lia. rewrite Q3 by lia.
          subst T. cbn [tail_text]. rewrite rd_app_l by lia. exact Hc. }
        rewrite Hfirst. destruct (c =? 0) eqn:E8; [lia|].
        exists tB. split; [reflexivity|]. unfold res_ok.
        split; [lia|]. split; [|split; [|split]].
        -- intros k Hk Hcnd. apply Q2; lia.
        -- intros k Hk. replace (base + nlen + k) with (base + nlen + 0 + k) by lia. apply Q3. lia.
        -- intros X. replace (base + nlen + zlen T - 1) with (base + nlen + 0 + zlen T - 1) by lia. apply Q4. lia.
        -- intros X. lia.
    + assert (nlen = 0) by lia. subst nlen.
      exists tB. split; [reflexivity|]. unfold res_ok.
      split; [lia|]. split; [|split; [|split]].
      * intros k Hk Hc. apply Q2; lia.
      * intros k Hk. replace (base + 0 + k) with (base + 0 + 0 + k) by lia. apply Q3. lia.
      * intros X. replace (base + 0 + zlen T - 1) with (base + 0 + 0 + zlen T - 1) by lia. apply Q4; lia.
      * intros X. replace (base + Z.max 0 1 - 1) with (base + 0 + Z.max 0 1 - 1) by lia. apply Q5; lia.
Qed.

Lemma target_get : forall d off labels e tgt base nmax f,
  name_run buf off off labels e -> text_labels labels -> Z.of_nat d > off -> Z.of_nat f > blen ->
  0 <= base -> zlen (tail_text labels) < nmax -> base + nmax <= zlen tgt ->
  exists tgt', name_get d f buf blen off tgt (Some base) nmax = NRet (e - off) tgt' /\
               res_ok tgt tgt' base 0 (tail_text labels).
Proof.
  induction d as [|d IH]; intros off labels e tgt base nmax f H Htxt Hd Hf Hb Hroom Hfit.
  - pose proof (name_run_facts _ _ _ _ _ H). lia.
  - cbn [name_get]. pose proof (name_run_facts _ _ _ _ _ H) as (F1 & F2 & _). fold blen in F1.
    eapply target_loop; eauto; try lia.
    intros p labels' e'' t' b' m' Hp Hrun Htxt' Hb' Hroom' Hfit'. pose proof (name_run_facts _ _ _ _ _ Hrun).
    eapply IH; eauto; lia.
Qed.

(* the C string left in a fresh target field is the dotted name *)
Lemma target_text d f off labels e :
  wf_name buf off labels e -> text_labels labels -> Z.of_nat d > off -> Z.of_nat f > blen ->
  exists tgt', name_get d f buf blen off (repeat 0 (Z.to_nat MAX_DOMAIN_LEN)) (Some 0) MAX_DOMAIN_LEN = NRet (e - off) tgt' /\
               zlen tgt' = MAX_DOMAIN_LEN /\ cstr tgt' = Some (dotted labels).
Proof.
  intros [Hrun Hwire] Htxt Hd Hf. unfold name_at in Hrun. unfold MAX_NAME_WIRE in Hwire.
  rewrite wire_len_tail in Hwire.
  set (t0 := repeat 0 (Z.to_nat MAX_DOMAIN_LEN)).
  assert (L0 : zlen t0 = MAX_DOMAIN_LEN) by (unfold zlen, t0; rewrite repeat_length; reflexivity).
  destruct (target_get d off labels e t0 0 MAX_DOMAIN_LEN f Hrun Htxt Hd Hf) as (t' & G & R); try (unfold MAX_DOMAIN_LEN in *; lia).
  exists t'. split; [exact G|]. destruct R as (Q1 & Q2 & Q3 & Q4 & Q5). split; [lia|].
  destruct labels as [|l r].
  - cbn [tail_text dotted] in *. apply cstr_pointwise; [intros k Hk; unfold zlen in Hk; cbn in Hk; lia| |intros []].
    change (zlen (@nil Z)) with 0 in *. apply Q5. reflexivity.
  - assert (TT := tail_text_dotted (l :: r) ltac:(discriminate)).
    assert (LT : zlen (tail_text (l :: r)) = zlen (dotted (l :: r)) + 1).
    { rewrite TT. unfold zlen. rewrite app_length. cbn [length]. lia. }
    apply cstr_pointwise.
    + intros k Hk. replace k with (0 + 0 + k) at 1 by lia. rewrite Q3 by lia.
      rewrite TT. apply rd_app_l. lia.
    + replace (zlen (dotted (l :: r))) with (0 + 0 + zlen (tail_text (l :: r)) - 1) by lia.
      apply Q4. unfold zlen in *. lia.
    + apply dotted_nul_free. exact Htxt.
Qed.

End Names.

(* ------------------------------------------------------------------------------------------ *)
(* (4) the sections of a well-formed response                                                   *)
(* ------------------------------------------------------------------------------------------ *)
Section Sections.
Variable buf : list Z.
Hypothesis HB : bytes buf.
Hypothesis Hsz : zlen buf <= 65536.
Let blen := zlen buf.
Let fuel := S (length buf).

Lemma be16_rd16 i v : be16 buf i = Some v -> 0 <= i -> rd16 buf i = Some v.
Proof.
  intros H Hi. revert H. unfold be16, rd16, octet. fold (rd buf i). fold (rd buf (i + 1)).
  destruct (rd buf i) as [a|] eqn:A; [|intros X; discriminate X].
  destruct (rd buf (i + 1)) as [b|] eqn:Bq; [|intros X; discriminate X].
  pose proof (rd_bound _ _ _ Bq). rewrite u32_small by lia. rewrite Bq.
  pose proof (rd_byte _ _ _ HB A). pose proof (rd_byte _ _ _ HB Bq).
  intros X; inversion X; subst. f_equal. apply Z.mod_small. lia.
Qed.

Lemma fuel_big : Z.of_nat fuel > blen.
Proof. unfold fuel, blen, zlen. lia. Qed.

Lemma wf_name_skip off labels e : wf_name buf off labels e ->
  name_len_at fuel buf blen off = NRet (e - off) [] /\ off + 1 <= e <= blen /\ 0 <= off.
Proof.
  intros [Hrun _]. unfold name_at in Hrun. pose proof (name_run_facts _ _ _ _ _ Hrun) as (F1 & F2 & _).
  pose proof fuel_big. split; [|fold blen in F1; lia]. unfold name_len_at.
  apply (skip_get buf HB Hsz fuel off labels e [] SIZE_MAX fuel Hrun); fold blen in F1; lia.
Qed.

Lemma questions_ok : forall off n e, questions_at buf off n e -> 0 <= off < 4294967296 ->
  skip_questions n fuel buf blen off = QOk e /\ off <= e <= Z.max off blen.
Proof.
  induction 1 as [off|off labels e n e' Hn Hfit Hq IH]; intros Hoff.
  - cbn [skip_questions]. split; [reflexivity|lia].
  - destruct (wf_name_skip _ _ _ Hn) as (Hskip & Hb & H0). fold blen in Hfit.
    assert (Hbl : blen <= 65536) by exact Hsz. unfold QUESTION_FIXED in *.
    cbn [skip_questions]. change (ovf_k 0) with 0. rewrite ovf_check_spec, Z.add_0_r, u32_small by lia.
    destruct (blen <=? off) eqn:E; [lia|]. rewrite Hskip.
    destruct (e - off =? 0) eqn:E2; [lia|]. change q_tail with 4.
    rewrite (u32_small (e - off + 4)) by lia. replace (off + (e - off + 4)) with (e + 4) by lia.
    rewrite u32_small by lia. destruct (IH ltac:(lia)) as (I1 & I2). split; [exact I1|lia].
Qed.

Definition status_of (l : list srv_rr) : Z :=
  match l with [] => XMPP_DOMAIN_NOT_FOUND | _ => XMPP_DOMAIN_FOUND end.

Lemma answers_wf : forall off ans e', answers_at buf off ans e' -> srv_targets_text ans ->
  0 <= off < 4294967296 ->
  forall l, exists l', answers (length ans) fuel buf blen off l = LDone (status_of l') l' /\
                       map rr_view l' = rev (map expected_view (srv_answers ans)) ++ map rr_view l.
Proof.
  assert (Hbl : blen <= 65536) by exact Hsz. pose proof fuel_big as Hfuel.
  induction 1 as [off|off owner e rdl prio weight port target rest e' Hown Hty Hcl Hrdl Hfit Hp Hw Hpo Htgt Hrest IH
                 |off owner e ty cl rdl rest e' Hown Hty Hcl Hno Hrdl Hfit Hrest IH]; intros Htxt Hoff l.
  - cbn [length answers srv_answers map rev app]. exists l. split; reflexivity.
  - destruct (wf_name_skip _ _ _ Hown) as (Hskip & Hb & H0). fold blen in Hfit.
    inversion Htxt as [|? ? Htt Hresttxt]; subst.
    unfold RR_TYPE_OFF, RR_CLASS_OFF, RR_RDLENGTH_OFF, RR_FIXED, SRV_PRIORITY_OFF, SRV_WEIGHT_OFF, SRV_PORT_OFF,
      SRV_TARGET_OFF, TYPE_SRV, CLASS_IN in *.
    rewrite ?Z.add_0_r in *.
    pose proof (be16_rd16 _ _ Hrdl ltac:(lia)) as Rrdl. pose proof Rrdl as Rb. unfold rd16 in Rb.
    assert (Hrdlb : 0 <= rdl < 65536).
    { destruct (rd buf (e + 8)); [|discriminate]. destruct (rd buf (u32 (e + 8 + 1))); [|discriminate].
      inversion Rb. apply Z.mod_pos_bound. lia. }
    destruct Htgt as [Htrun Htwire]. pose proof Htrun as Htrun'. unfold name_at in Htrun'.
    pose proof (name_run_facts _ _ _ _ _ Htrun') as (T1 & T2 & _). fold blen in T1.
    cbn [length answers]. change (ovf_k 1) with 0. change (ovf_k 2) with 9. change (ovf_k 3) with 6.
    rewrite ovf_check_spec, Z.add_0_r, (u32_small off) by lia.
    destruct (blen <=? off) eqn:E; [lia|]. rewrite Hskip.
    destruct (e - off =? 0) eqn:E2; [lia|]. replace (off + (e - off)) with e by lia.
    rewrite (u32_small e) by lia. rewrite (u32_small (e + 9)), ovf_check_spec by lia.
    destruct (blen <=? e + 9) eqn:E3; [lia|].
    change rr_type_off with 0. change rr_class_off with 2. change rr_rdlength_off with 8. change rr_fixed_len with 10.
    rewrite Z.add_0_r, (u32_small e), (u32_small (e + 2)), (u32_small (e + 8)), (u32_small (e + 10)) by lia.
    rewrite (be16_rd16 _ _ Hty ltac:(lia)), (be16_rd16 _ _ Hcl ltac:(lia)), Rrdl.
    change ((33 =? MESSAGE_T_SRV) && (1 =? MESSAGE_C_IN)) with true. cbn iota.
    rewrite (u32_small (e + 10 + 6)), ovf_check_spec by lia.
    destruct (blen <=? e + 10 + 6) eqn:E4; [lia|].
    change srv_prio_off with 0. change srv_weight_off with 2. change srv_port_off with 4. change srv_target_off with 6.
    rewrite Z.add_0_r, (u32_small (e + 10)), (u32_small (e + 10 + 2)), (u32_small (e + 10 + 4)), (u32_small (e + 10 + 6)) by lia.
    rewrite (be16_rd16 _ _ Hp ltac:(lia)), (be16_rd16 _ _ Hw ltac:(lia)), (be16_rd16 _ _ Hpo ltac:(lia)).
    destruct (target_text buf HB Hsz fuel fuel (e + 10 + 6) target (e + 10 + rdl) (conj Htrun Htwire) Htt) as (tg & G & Ltg & Ctg);
      try (fold blen; lia).
    fold blen in G. rewrite G.
    destruct (e + 10 + rdl - (e + 10 + 6) >? 0) eqn:E5; [|lia].
    rewrite (u32_small (e + 10 + rdl)) by lia.
    destruct (IH Hresttxt ltac:(lia) (mk_rr prio weight port tg :: l)) as (l' & A1 & A2).
    exists l'. split; [exact A1|]. rewrite A2. cbn [srv_answers map rev expected_view].
    rewrite <- app_assoc. cbn [app map]. unfold rr_view. cbn [rr_priority rr_weight rr_port rr_target].
    rewrite Ctg. reflexivity.
  - destruct (wf_name_skip _ _ _ Hown) as (Hskip & Hb & H0). fold blen in Hfit.
    inversion Htxt as [|? ? Htt Hresttxt]; subst.
    unfold RR_TYPE_OFF, RR_CLASS_OFF, RR_RDLENGTH_OFF, RR_FIXED, TYPE_SRV, CLASS_IN in *.
    rewrite ?Z.add_0_r in *.
    pose proof (be16_rd16 _ _ Hrdl ltac:(lia)) as Rrdl. pose proof Rrdl as Rb. unfold rd16 in Rb.
    assert (Hrdlb : 0 <= rdl < 65536).
    { destruct (rd buf (e + 8)); [|discriminate]. destruct (rd buf (u32 (e + 8 + 1))); [|discriminate].
      inversion Rb. apply Z.mod_pos_bound. lia. }
    cbn [length answers]. change (ovf_k 1) with 0. change (ovf_k 2) with 9.
    rewrite ovf_check_spec, Z.add_0_r, (u32_small off) by lia.
    destruct (blen <=? off) eqn:E; [lia|]. rewrite Hskip.
    destruct (e - off =? 0) eqn:E2; [lia|]. replace (off + (e - off)) with e by lia.
    rewrite (u32_small e) by lia. rewrite (u32_small (e + 9)), ovf_check_spec by lia.
    destruct (blen <=? e + 9) eqn:E3; [lia|].
    change rr_type_off with 0. change rr_class_off with 2. change rr_rdlength_off with 8. change rr_fixed_len with 10.
    rewrite Z.add_0_r, (u32_small e), (u32_small (e + 2)), (u32_small (e + 8)), (u32_small (e + 10)) by lia.
    rewrite (be16_rd16 _ _ Hty ltac:(lia)), (be16_rd16 _ _ Hcl ltac:(lia)), Rrdl.
    change MESSAGE_T_SRV with 33. change MESSAGE_C_IN with 1.
    destruct ((ty =? 33) && (cl =? 1)) eqn:E4; [exfalso; apply Hno; lia|].
    rewrite (u32_small (e + 10 + rdl)) by lia.
    destruct (IH Hresttxt ltac:(lia) l) as (l' & A1 & A2).
    exists l'. split; [exact A1|]. rewrite A2. reflexivity.
Qed.

End Sections.

Lemma lookup_wellformed buf ans :
  wf_response buf ans -> srv_targets_text ans ->
  exists st l, lookup buf = LDone st l /\
    (st = XMPP_DOMAIN_FOUND \/ st = XMPP_DOMAIN_NOT_FOUND) /\
    (st = XMPP_DOMAIN_FOUND <-> srv_answers ans <> []) /\
    Permutation (map rr_view l) (map expected_view (srv_answers ans)) /\
    StronglySorted srv_le l.
Proof.
  intros [HB Hsz Hhdr (o2 & Ho2 & Hqr) (o3 & Ho3 & Hrc) (qd & e1 & e2 & Hqd & Han & Hq & Ha)] Htxt.
  unfold HEADER_LEN, HDR_FLAGS_HI_OFF, HDR_FLAGS_LO_OFF, HDR_QDCOUNT_OFF, HDR_ANCOUNT_OFF, QR_RESPONSE in *.
  rewrite octet_rd in Ho2, Ho3.
  destruct (questions_ok buf HB Hsz 12 qd e1 Hq ltac:(lia)) as (Q1 & Q2).
  destruct (answers_wf buf HB Hsz e1 ans e2 Ha Htxt ltac:(lia) []) as (l' & A1 & A2).
  cbn [map] in A2. rewrite app_nil_r in A2.
  assert (Hraw : lookup_raw buf = LDone (status_of l') l').
  { unfold lookup_raw. change MESSAGE_HEADER_LEN with 12.
    destruct (zlen buf <? 12) eqn:E; [lia|].
    change hdr_octet2_off with 2. change hdr_octet3_off with 3.
    change hdr_qdcount_off with 4. change hdr_ancount_off with 6.
    rewrite Ho2, Ho3, (be16_rd16 buf HB Hsz _ _ Hqd ltac:(lia)), (be16_rd16 buf HB Hsz _ _ Han ltac:(lia)).
    rewrite qr_octet by (eapply rd_byte; eauto). rewrite rcode_octet by (eapply rd_byte; eauto).
    rewrite Hqr, Hrc. change (negb (1 =? MESSAGE_RESPONSE) || negb (0 =? 0)) with false. cbn iota.
    rewrite Nat2Z.id, Q1. unfold zlen. rewrite Nat2Z.id. exact A1. }
  assert (Hun : lookup_unsorted buf = LDone (status_of l') l').
  { unfold lookup_unsorted. rewrite Hraw. destruct l'; reflexivity. }
  destruct (srv_sort_fuel_enough l') as (l2 & Hs).
  exists (status_of l'), l2. unfold lookup. rewrite Hun, Hs. split; [reflexivity|].
  apply srv_sort_sorted in Hs. destruct Hs as [P S].
  assert (Hperm : Permutation (map rr_view l2) (map expected_view (srv_answers ans))).
  { eapply perm_trans; [apply Permutation_map, Permutation_sym; exact P|].
    rewrite A2. apply Permutation_sym, Permutation_rev. }
  split; [destruct l'; [right|left]; reflexivity|]. split; [|split; [exact Hperm|exact S]].
  assert (Hl' : l' = [] <-> srv_answers ans = []).
  { assert (Hlen : length l' = length (srv_answers ans)).
    { apply (f_equal (@length _)) in A2. rewrite rev_length, !map_length in A2. exact A2. }
    split; intros X; rewrite X in Hlen; cbn [length] in Hlen.
    - destruct (srv_answers ans); [reflexivity|discriminate].
    - destruct l'; [reflexivity|discriminate]. }
  destruct l' as [|r l']; cbn [status_of].
  - split; [discriminate|]. intros X. exfalso. apply X. apply Hl'. reflexivity.
  - split; [|reflexivity]. intros _ X. apply Hl' in X. discriminate.
Qed.

(* ------------------------------------------------------------------------------------------ *)
(* the hypotheses of the theorems are satisfiable: a 33-octet response with one SRV answer whose  *)
(* target is the label "a" followed by a compression pointer to the root octet at offset 12       *)
(* ------------------------------------------------------------------------------------------ *)
Definition example_response : list Z :=
  [0; 0; 129; 128; 0; 0; 0; 1; 0; 0; 0; 0;
   0; 0; 33; 0; 1; 0; 0; 0; 0; 0; 10;
   0; 1; 0; 2; 20; 102; 1; 97; 192; 12].

Example example_bytes : bytes example_response /\ zlen example_response <= 65536.
Proof. split; [unfold bytes, is_byte; repeat constructor; lia|vm_compute; discriminate]. Qed.

Example example_wf : wf_response example_response [AnsSrv 1 2 5222 [[97]]] /\
                     srv_targets_text [AnsSrv 1 2 5222 [[97]]].
Proof.
  split.
  - constructor.
    + apply example_bytes.
    + apply example_bytes.
    + vm_compute; discriminate.
    + exists 129. split; reflexivity.
    + exists 128. split; reflexivity.
    + exists O, 12, 33. repeat split; try reflexivity; [constructor|].
      apply (AA_srv example_response 12 [] 13 10 1 2 5222 [[97]] [] 33); try reflexivity.
      * split; [apply NR_root; reflexivity|vm_compute; discriminate].
      * split; [|vm_compute; discriminate].
        apply (NR_label example_response 29 29 1 [97] [] 33); try reflexivity; [unfold MAX_LABEL; lia|].
        apply (NR_pointer example_response 29 31 192 12 12 [] 13); try reflexivity; [unfold POINTER_TAG; lia|].
        apply NR_root. reflexivity.
      * apply AA_nil.
  - repeat constructor; discriminate.
Qed.

Example example_lookup :
  exists l, lookup example_response = LDone XMPP_DOMAIN_FOUND l /\
            map rr_view l = [(1, 2, 5222, Some [97])].
Proof. eexists. split; vm_compute; reflexivity. Qed.

Example example_sort :
  srv_sort [mk_rr 10 0 1 []; mk_rr 5 1 2 []; mk_rr 5 7 3 []] =
  Some [mk_rr 5 7 3 []; mk_rr 5 1 2 []; mk_rr 10 0 1 []].
Proof. reflexivity. Qed.
