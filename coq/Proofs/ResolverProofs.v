(* Proofs for C15 (ResolverModel.v against DnsSpec.v). *)
Require Import LV.Common.Bytes LV.Gen.Gen_resolver LV.Model.ResolverModel LV.Spec.DnsSpec.
Require Import Lia ZifyBool.
From Coq Require Import Sorting.Permutation Sorting.Sorted.
Ltac Zify.zify_post_hook ::= Z.div_mod_to_equations.
Local Open Scope Z_scope.

(* ------------------------------------------------------------------------------------------ *)
(* the regenerated constants are the ones of RFC 1035 / RFC 2782 / the property statement      *)
(* ------------------------------------------------------------------------------------------ *)
Lemma Gen_resolver_ok :
  MESSAGE_HEADER_LEN = HEADER_LEN /\ MESSAGE_RESPONSE = QR_RESPONSE /\
  MESSAGE_T_SRV = TYPE_SRV /\ MESSAGE_C_IN = CLASS_IN /\ MAX_DOMAIN_LEN = 256 /\
  XMPP_DOMAIN_NOT_FOUND = 0 /\ XMPP_DOMAIN_FOUND = 1 /\
  hdr_octet2_off = HDR_FLAGS_HI_OFF /\ hdr_octet3_off = HDR_FLAGS_LO_OFF /\
  hdr_qdcount_off = HDR_QDCOUNT_OFF /\ hdr_ancount_off = HDR_ANCOUNT_OFF /\
  qr_shift = 7 /\ qr_mask = 1 /\ rcode_mask = 15 /\ q_tail = QUESTION_FIXED /\
  rr_type_off = RR_TYPE_OFF /\ rr_class_off = RR_CLASS_OFF /\ rr_rdlength_off = RR_RDLENGTH_OFF /\
  rr_fixed_len = RR_FIXED /\
  srv_prio_off = SRV_PRIORITY_OFF /\ srv_weight_off = SRV_WEIGHT_OFF /\ srv_port_off = SRV_PORT_OFF /\
  srv_target_off = SRV_TARGET_OFF /\
  label_mask = 192 /\ label_tag = 0 /\ pointer_tag = POINTER_TAG /\ pointer_mask = 63 /\ pointer_shift = 8 /\
  (* every fixed field is inside the message before it is read: the RR header needs its last
     octet (index 9), the SRV RDATA its first 7 octets (index 6) *)
  ovf_check_offsets = [0; 0; RR_FIXED - 1; SRV_TARGET_OFF].
Proof. vm_compute. repeat split; reflexivity. Qed.

Lemma ovf_check_spec p l : ovf_check p l = (l <=? p).
Proof. unfold ovf_check. lia. Qed.
Lemma pointer_guard_spec p o : pointer_guard p o = (o <=? p).
Proof. unfold pointer_guard. lia. Qed.
Lemma srv_swap_spec cp cw np nw :
  srv_swap cp cw np nw = ((np <? cp) || ((cp =? np) && (cw <? nw))).
Proof. unfold srv_swap. lia. Qed.

(* ------------------------------------------------------------------------------------------ *)
(* resolver_srv_list_sort                                                                      *)
(* ------------------------------------------------------------------------------------------ *)
(* the order the list is to be in: priority ascending, then weight descending *)
Definition srv_le (a b : srv_rr) : Prop :=
  rr_priority a < rr_priority b \/ (rr_priority a = rr_priority b /\ rr_weight b <= rr_weight a).

Lemma srv_gt_false a b : srv_gt a b = false <-> srv_le a b.
Proof. unfold srv_gt, srv_le. rewrite srv_swap_spec. lia. Qed.
Lemma srv_gt_true a b : srv_gt a b = true -> srv_le b a.
Proof. unfold srv_gt, srv_le. rewrite srv_swap_spec. lia. Qed.
Lemma srv_le_refl a : srv_le a a.
Proof. unfold srv_le. lia. Qed.
Lemma srv_le_trans a b c : srv_le a b -> srv_le b c -> srv_le a c.
Proof. unfold srv_le. lia. Qed.

Lemma bubble_pass_perm : forall rest cur r s,
  bubble_pass cur rest = (r, s) -> Permutation (cur :: rest) r.
Proof.
  induction rest as [|nx rest IH]; intros cur r s H; cbn [bubble_pass] in H.
  - inversion H; subst. apply Permutation_refl.
  - destruct (srv_gt cur nx) eqn:G.
    + destruct (bubble_pass cur rest) as [r0 s0] eqn:E. inversion H; subst.
      apply IH in E. eapply perm_trans; [apply perm_swap|]. apply perm_skip. exact E.
    + destruct (bubble_pass nx rest) as [r0 s0] eqn:E. inversion H; subst.
      apply IH in E. apply perm_skip. exact E.
Qed.

(* a pass without a swap leaves the list as it is, and the list is sorted *)
Lemma bubble_pass_noswap : forall rest cur r,
  bubble_pass cur rest = (r, false) -> r = cur :: rest /\ Sorted srv_le (cur :: rest).
Proof.
  induction rest as [|nx rest IH]; intros cur r H; cbn [bubble_pass] in H.
  - inversion H; subst. split; [reflexivity|]. constructor; constructor.
  - destruct (srv_gt cur nx) eqn:G.
    + destruct (bubble_pass cur rest) as [r0 s0]. inversion H.
    + destruct (bubble_pass nx rest) as [r0 s0] eqn:E. inversion H; subst.
      apply IH in E. destruct E as [-> S]. split; [reflexivity|].
      constructor; [exact S|]. constructor. apply srv_gt_false. exact G.
Qed.

(* a pass carries a maximal element to the end *)
Lemma bubble_pass_max : forall rest cur r s,
  bubble_pass cur rest = (r, s) ->
  exists r' m, r = r' ++ [m] /\ srv_le cur m /\ (forall x, In x rest -> srv_le x m) /\
               (forall x, In x r' -> srv_le x m).
Proof.
  induction rest as [|nx rest IH]; intros cur r s H; cbn [bubble_pass] in H.
  - inversion H; subst. exists [], cur. cbn. repeat split; try apply srv_le_refl; intros x [].
  - destruct (srv_gt cur nx) eqn:G.
    + destruct (bubble_pass cur rest) as [r0 s0] eqn:E. inversion H; subst.
      destruct (IH _ _ _ E) as (r' & m & -> & Hc & Hr & Hr').
      exists (nx :: r'), m. repeat split; [exact Hc| |].
      * intros x [<-|Hx]; [eapply srv_le_trans; [apply srv_gt_true; exact G|exact Hc]|auto].
      * intros x [<-|Hx]; [eapply srv_le_trans; [apply srv_gt_true; exact G|exact Hc]|auto].
    + destruct (bubble_pass nx rest) as [r0 s0] eqn:E. inversion H; subst.
      destruct (IH _ _ _ E) as (r' & m & -> & Hc & Hr & Hr').
      assert (Hcm : srv_le cur m) by (eapply srv_le_trans; [apply srv_gt_false; exact G|exact Hc]).
      exists (cur :: r'), m. repeat split; [exact Hcm| |].
      * intros x [<-|Hx]; auto.
      * intros x [<-|Hx]; auto.
Qed.

(* no swap happens inside an already settled suffix *)
Lemma bubble_pass_settled : forall s x,
  (forall y, In y s -> srv_le x y) -> StronglySorted srv_le s ->
  bubble_pass x s = (x :: s, false).
Proof.
  induction s as [|y s IH]; intros x Hx Hs; cbn [bubble_pass]; [reflexivity|].
  assert (G : srv_gt x y = false) by (apply srv_gt_false; apply Hx; left; reflexivity).
  rewrite G. inversion Hs; subst. rewrite IH; [reflexivity| |assumption].
  intros z Hz. eapply Forall_forall in H2; eauto.
Qed.

Lemma bubble_pass_app : forall rest cur s,
  (forall x y, In x (cur :: rest) -> In y s -> srv_le x y) -> StronglySorted srv_le s ->
  bubble_pass cur (rest ++ s) =
    let '(r, f) := bubble_pass cur rest in (r ++ s, f).
Proof.
  induction rest as [|nx rest IH]; intros cur s Hle Hs.
  - cbn [app bubble_pass]. apply bubble_pass_settled; [|exact Hs].
    intros y Hy. apply Hle; [left; reflexivity|exact Hy].
  - cbn [app bubble_pass]. destruct (srv_gt cur nx) eqn:G.
    + rewrite IH; [|intros x y Hx Hy; apply Hle; [destruct Hx as [<-|Hx]; [left; reflexivity|right; right; exact Hx]|exact Hy]|exact Hs].
      destruct (bubble_pass cur rest) as [r f]. reflexivity.
    + rewrite IH; [|intros x y Hx Hy; apply Hle; [right; exact Hx|exact Hy]|exact Hs].
      destruct (bubble_pass nx rest) as [r f]. reflexivity.
Qed.

(* `settled k l`: the last k elements are in their final place *)
Definition settled (k : nat) (l : list srv_rr) : Prop :=
  exists p s, l = p ++ s /\ length s = k /\ StronglySorted srv_le s /\
              (forall x y, In x p -> In y s -> srv_le x y).

Lemma sort_passes_enough : forall f l k,
  settled k l -> (1 <= f)%nat -> (length l <= f + k)%nat ->
  exists l', sort_passes f l = Some l'.
Proof.
  induction f as [|f IH]; intros l k (p & s & -> & Hk & Hs & Hps) Hf Hlen; [lia|].
  cbn [sort_passes]. destruct p as [|x p].
  - cbn [app]. destruct s as [|y s]; [eexists; reflexivity|].
    inversion Hs; subst. rewrite bubble_pass_settled; [eexists; reflexivity| |assumption].
    intros z Hz. eapply Forall_forall in H2; eauto.
  - cbn [app]. rewrite bubble_pass_app; [|exact Hps|exact Hs].
    destruct (bubble_pass x p) as [r sw] eqn:E. destruct sw; [|eexists; reflexivity].
    destruct (bubble_pass_max _ _ _ _ E) as (r' & m & -> & Hxm & Hpm & Hrm).
    assert (Hperm := bubble_pass_perm _ _ _ _ E).
    (* a swap happened, so p is not empty *)
    destruct p as [|x2 p]; [cbn in E; inversion E|].
    rewrite <- app_assoc. cbn [app].
    apply (IH _ (S k)).
    + exists r', (m :: s). repeat split.
      * cbn. lia.
      * constructor; [exact Hs|]. apply Forall_forall. intros y Hy. apply Hps; [|exact Hy].
        eapply Permutation_in; [apply Permutation_sym; exact Hperm|]. apply in_or_app. right. left. reflexivity.
      * intros a b Ha [<-|Hb]; [apply Hrm; exact Ha|].
        apply Hps; [|exact Hb]. eapply Permutation_in; [apply Permutation_sym; exact Hperm|].
        apply in_or_app. left. exact Ha.
    + apply Permutation_length in Hperm. rewrite app_length in *. cbn [length] in *. lia.
    + apply Permutation_length in Hperm. rewrite !app_length in *. cbn [length] in *. lia.
Qed.

Lemma sort_passes_sorted : forall f l l',
  sort_passes f l = Some l' -> Permutation l l' /\ Sorted srv_le l'.
Proof.
  induction f as [|f IH]; intros l l' H; cbn [sort_passes] in H; [discriminate|].
  destruct l as [|x r]; [inversion H; subst; split; constructor|].
  destruct (bubble_pass x r) as [l1 sw] eqn:E. destruct sw.
  - apply IH in H. destruct H as [P S]. split; [|exact S].
    eapply perm_trans; [eapply bubble_pass_perm; exact E|exact P].
  - inversion H; subst. apply bubble_pass_noswap in E. destruct E as [-> S].
    split; [apply Permutation_refl|exact S].
Qed.

Lemma srv_sort_fuel_enough : forall l, exists l', srv_sort l = Some l'.
Proof.
  intros l. unfold srv_sort. destruct l as [|x [|y r]]; try (eexists; reflexivity).
  apply (sort_passes_enough _ _ O).
  - exists (x :: y :: r), []. rewrite app_nil_r. repeat split; [constructor|]. intros a b _ [].
  - cbn [length]. lia.
  - lia.
Qed.

Lemma srv_sort_sorted : forall l l',
  srv_sort l = Some l' -> Permutation l l' /\ StronglySorted srv_le l'.
Proof.
  intros l l' H. unfold srv_sort in H.
  assert (Hs : forall q, Sorted srv_le q -> StronglySorted srv_le q).
  { intros q. apply Sorted_StronglySorted. intros a b c. apply srv_le_trans. }
  destruct l as [|x [|y r]].
  - inversion H; subst. split; constructor.
  - inversion H; subst. split; [apply Permutation_refl|]. apply Hs. constructor; constructor.
  - apply sort_passes_sorted in H. destruct H as [P S]. split; [exact P|apply Hs; exact S].
Qed.

(* ------------------------------------------------------------------------------------------ *)
(* checked accessors                                                                            *)
(* ------------------------------------------------------------------------------------------ *)
Lemma rd_in buf i : 0 <= i < zlen buf -> exists b, rd buf i = Some b.
Proof.
  intros H. unfold rd. destruct (i <? 0) eqn:E; [lia|].
  destruct (nth_error buf (Z.to_nat i)) eqn:N; [eexists; reflexivity|].
  apply nth_error_None in N. unfold zlen in H. lia.
Qed.
Lemma rd_bound buf i b : rd buf i = Some b -> 0 <= i < zlen buf.
Proof.
  unfold rd. destruct (i <? 0) eqn:E; [discriminate|]. intros N.
  assert (nth_error buf (Z.to_nat i) <> None) by congruence.
  apply nth_error_Some in H. unfold zlen. lia.
Qed.
Lemma rd_byte buf i b : bytes buf -> rd buf i = Some b -> 0 <= b < 256.
Proof.
  unfold rd. destruct (i <? 0); [discriminate|]. intros HB N.
  apply nth_error_In in N. eapply Forall_forall in HB; eauto.
Qed.

Lemma upd_length : forall l n v, length (upd l n v) = length l.
Proof. induction l; intros [|n] v; cbn; auto. Qed.
Lemma nth_error_upd_eq : forall l n v, (n < length l)%nat -> nth_error (upd l n v) n = Some v.
Proof. induction l; intros [|n] v H; cbn in *; try lia; auto. apply IHl. lia. Qed.
Lemma nth_error_upd_neq : forall l n k v, n <> k -> nth_error (upd l n v) k = nth_error l k.
Proof. induction l; intros [|n] [|k] v H; cbn; auto; try congruence. Qed.

Lemma wr_inv t i v t' : wr t i v = Some t' ->
  0 <= i < zlen t /\ zlen t' = zlen t /\ rd t' i = Some v /\ (forall k, k <> i -> rd t' k = rd t k).
Proof.
  unfold wr. destruct ((0 <=? i) && (i <? zlen t)) eqn:E; [|discriminate].
  intros H; inversion H; subst; clear H. unfold zlen in *. rewrite upd_length.
  repeat split; try lia.
  - unfold rd. destruct (i <? 0) eqn:E2; [lia|]. apply nth_error_upd_eq. lia.
  - intros k Hk. unfold rd. destruct (k <? 0) eqn:E2; [reflexivity|].
    apply nth_error_upd_neq. lia.
Qed.
Lemma wr_ok t i v : 0 <= i < zlen t -> exists t', wr t i v = Some t'.
Proof. intros H. unfold wr. destruct ((0 <=? i) && (i <? zlen t)) eqn:E; [eexists; reflexivity|lia]. Qed.

Lemma u32_small x : 0 <= x < 4294967296 -> u32 x = x.
Proof. intros. unfold u32. apply Z.mod_small. lia. Qed.

Lemma rd16_in buf i : 0 <= i -> i + 1 < zlen buf -> zlen buf <= 65536 ->
  exists v, rd16 buf i = Some v /\ 0 <= v < 65536.
Proof.
  intros H0 H1 HL. unfold rd16. rewrite u32_small by lia.
  destruct (rd_in buf i) as [a ->]; [lia|]. destruct (rd_in buf (i + 1)) as [b ->]; [lia|].
  eexists; split; [reflexivity|]. apply Z.mod_pos_bound. lia.
Qed.

(* ------------------------------------------------------------------------------------------ *)
(* masks and shifts on octets (finite check)                                                    *)
(* ------------------------------------------------------------------------------------------ *)
Definition all_octets : list Z := map Z.of_nat (seq 0 256).
Lemma in_all_octets b : 0 <= b < 256 -> In b all_octets.
Proof.
  intros H. unfold all_octets. apply in_map_iff. exists (Z.to_nat b). split; [lia|]. apply in_seq. lia.
Qed.
Lemma octet_forall (f : Z -> bool) :
  forallb f all_octets = true -> forall b, 0 <= b < 256 -> f b = true.
Proof. intros H b Hb. eapply forallb_forall in H; [exact H|apply in_all_octets; exact Hb]. Qed.

Lemma label_type_octet b : 0 <= b < 256 -> Z.land b label_mask = b / 64 * 64.
Proof.
  intros H. apply Z.eqb_eq.
  apply (octet_forall (fun b => Z.land b label_mask =? b / 64 * 64)); [vm_compute; reflexivity|exact H].
Qed.
Lemma pointer_octets hi lo : 0 <= hi < 256 -> 0 <= lo < 256 ->
  Z.lor (Z.shiftl (Z.land hi pointer_mask) pointer_shift) lo = hi mod 64 * 256 + lo.
Proof.
  intros H1 H2. apply Z.eqb_eq.
  apply (octet_forall (fun lo => Z.lor (Z.shiftl (Z.land hi pointer_mask) pointer_shift) lo =? hi mod 64 * 256 + lo)); [|exact H2].
  apply (octet_forall (fun hi => forallb (fun lo => Z.lor (Z.shiftl (Z.land hi pointer_mask) pointer_shift) lo =? hi mod 64 * 256 + lo) all_octets));
    [vm_compute; reflexivity|exact H1].
Qed.
Lemma qr_octet b : 0 <= b < 256 -> Z.land (Z.shiftr b qr_shift) qr_mask = b / 128.
Proof.
  intros H. apply Z.eqb_eq.
  apply (octet_forall (fun b => Z.land (Z.shiftr b qr_shift) qr_mask =? b / 128)); [vm_compute; reflexivity|exact H].
Qed.
Lemma rcode_octet b : 0 <= b < 256 -> Z.land b rcode_mask = b mod 16.
Proof.
  intros H. apply Z.eqb_eq.
  apply (octet_forall (fun b => Z.land b rcode_mask =? b mod 16)); [vm_compute; reflexivity|exact H].
Qed.

(* ------------------------------------------------------------------------------------------ *)
(* message_name_append_safe                                                                     *)
(* ------------------------------------------------------------------------------------------ *)
Definition tgt_ok (tgt : list Z) (name : option Z) (nmax : Z) : Prop :=
  match name with
  | Some base => 0 <= base /\ 0 < nmax /\ base + nmax <= zlen tgt
  | None => True
  end.

Lemma copy_bytes_ok : forall n buf src tgt dst,
  0 <= src -> src + Z.of_nat n <= zlen buf -> 0 <= dst -> dst + Z.of_nat n <= zlen tgt ->
  exists tgt', copy_bytes n buf src tgt dst = Some tgt' /\ zlen tgt' = zlen tgt.
Proof.
  induction n as [|n IH]; intros buf src tgt dst H1 H2 H3 H4; cbn [copy_bytes].
  - eexists; split; reflexivity.
  - destruct (rd_in buf src) as [b ->]; [lia|].
    destruct (wr_ok tgt dst b) as [t1 W]; [lia|]. rewrite W.
    apply wr_inv in W. destruct W as (_ & L & _).
    destruct (IH buf (src + 1) t1 (dst + 1)) as (t2 & -> & L2); try lia.
    eexists; split; [reflexivity|lia].
Qed.

Lemma append_label_ok buf src tgt base nlen nmax tl :
  tgt_ok tgt (Some base) nmax -> 0 <= nlen -> 0 <= src -> 0 <= tl -> src + tl <= zlen buf ->
  exists tgt', append_label buf src tgt base nlen nmax tl = Some (tgt', nlen + tl) /\ zlen tgt' = zlen tgt.
Proof.
  intros (Hb & Hm & Hlen) Hn Hs Ht Hsrc. unfold append_label, append_copy_len.
  set (cl := Z.min tl (if nmax >? nlen then nmax - nlen else 0)).
  assert (Hcl : 0 <= cl <= tl /\ (cl > 0 -> nlen + cl <= nmax)) by (subst cl; destruct (nmax >? nlen) eqn:E; lia).
  destruct (cl >? 0) eqn:E; [|eexists; split; reflexivity].
  destruct (copy_bytes_ok (Z.to_nat cl) buf src tgt (base + nlen)) as (t' & -> & L); try lia.
  eexists; split; [reflexivity|exact L].
Qed.

Lemma append_dot_ok tgt base nlen nmax :
  tgt_ok tgt (Some base) nmax -> 0 <= nlen ->
  exists tgt', append_dot tgt base nlen nmax = Some (tgt', nlen + 1) /\ zlen tgt' = zlen tgt.
Proof.
  intros (Hb & Hm & Hlen) Hn. unfold append_dot, append_copy_len.
  destruct (Z.min 1 (if nmax >? nlen then nmax - nlen else 0) >? 0) eqn:E; [|eexists; split; reflexivity].
  destruct (wr_ok tgt (base + nlen) 46) as [t' W]; [destruct (nmax >? nlen) eqn:E2; lia|].
  rewrite W. apply wr_inv in W. eexists; split; [reflexivity|tauto].
Qed.

(* ------------------------------------------------------------------------------------------ *)
(* message_name_get: safety (no OOB, no Fuel), range of the return value, NUL termination      *)
(* ------------------------------------------------------------------------------------------ *)
Definition npost (blen off : Z) (tgt : list Z) (name : option Z) (nmax : Z) (r : nres) : Prop :=
  match r with
  | NRet rc tgt' =>
      zlen tgt' = zlen tgt /\
      (rc = 0 \/ (1 <= rc /\ off + rc <= blen)) /\
      (name = None -> tgt' = tgt) /\
      (rc <> 0 -> forall base, name = Some base -> 0 < nmax ->
                  exists k, base <= k < base + nmax /\ rd tgt' k = Some 0)
  | _ => False
  end.

Lemma name_finish_ok blen off i tgt name nlen nmax :
  blen <= 65536 -> 0 <= off -> off + 1 <= i <= blen -> 0 <= nlen -> tgt_ok tgt name nmax ->
  npost blen off tgt name nmax (name_finish off i tgt name nlen nmax).
Proof.
  intros HL Ho Hi Hn Hok. unfold name_finish.
  assert (Hrc : u32 (i - off) = i - off) by (apply u32_small; lia).
  set (nl := if nlen =? 0 then 1 else nlen). assert (Hnl : 1 <= nl) by (subst nl; destruct (nlen =? 0) eqn:E; lia).
  destruct name as [base|]; cbn [tgt_ok] in Hok.
  - destruct (nmax >? 0) eqn:E.
    + destruct (wr_ok tgt (base + Z.min nl nmax - 1) 0) as [t' W]; [lia|]. rewrite W.
      apply wr_inv in W. destruct W as (Hr & L & R & _). cbn [npost]. rewrite Hrc.
      repeat split; try lia; try discriminate.
      intros _ b Hb Hm. inversion Hb; subst b. exists (base + Z.min nl nmax - 1). split; [lia|exact R].
    + lia.
  - cbn [npost]. rewrite Hrc. repeat split; try lia. intros _ b Hb. discriminate.
Qed.

Lemma name_loop_ok rec buf blen off :
  bytes buf -> blen = zlen buf -> blen <= 65536 -> 0 <= off ->
  (off < blen -> forall p tgt name nmax, 0 <= p < off -> tgt_ok tgt name nmax ->
                 npost blen p tgt name nmax (rec p tgt name nmax)) ->
  forall f i tgt name nlen nmax,
    off <= i -> (Z.of_nat f > blen - i) -> (1 <= f)%nat -> 0 <= nlen -> tgt_ok tgt name nmax ->
    npost blen off tgt name nmax (name_loop rec buf blen off f i tgt name nlen nmax).
Proof.
  intros HB HL Hsz Ho Hrec.
  induction f as [|f IH]; intros i tgt name nlen nmax Hi Hf Hf1 Hn Hok; [lia|].
  cbn [name_loop].
  assert (Ret0 : forall t, zlen t = zlen tgt -> (name = None -> t = tgt) -> npost blen off tgt name nmax (NRet 0 t)).
  { intros t Ht Hnone. cbn [npost]. repeat split; auto. try (intros X; congruence). }
  destruct (i >=? blen) eqn:E1; [apply Ret0; auto|].
  destruct (rd_in buf i) as [ll Hll]; [lia|]. rewrite Hll.
  assert (Hllb := rd_byte _ _ _ HB Hll).
  rewrite (u32_small (i + 1)) by lia.
  destruct (ll =? 0) eqn:E2; [apply name_finish_ok; auto; lia|].
  rewrite label_type_octet by exact Hllb.
  assert (Hlt : label_tag = 0) by reflexivity. assert (Hpt : pointer_tag = 192) by reflexivity.
  destruct (ll / 64 * 64 =? label_tag) eqn:E3.
  - (* label *)
    rewrite (u32_small (i + 1 + ll - 1)) by lia.
    destruct (i + 1 + ll - 1 >=? blen) eqn:E4; [apply Ret0; auto|].
    rewrite (u32_small (i + 1 + ll)) by lia.
    destruct name as [base|].
    + destruct (append_label_ok buf (i + 1) tgt base nlen nmax ll) as (t1 & -> & L1); auto; try lia.
      destruct (append_dot_ok t1 base (nlen + ll) nmax) as (t2 & -> & L2); try lia.
      { cbn [tgt_ok] in *. lia. }
      assert (P := IH (i + 1 + ll) t2 (Some base) (nlen + ll + 1) nmax).
      assert (Q : npost blen off t2 (Some base) nmax
                    (name_loop rec buf blen off f (i + 1 + ll) t2 (Some base) (nlen + ll + 1) nmax)).
      { apply P; try lia. cbn [tgt_ok] in *. lia. }
      destruct (name_loop rec buf blen off f (i + 1 + ll) t2 (Some base) (nlen + ll + 1) nmax); cbn [npost] in *; try tauto.
      destruct Q as (Q1 & Q2 & Q3 & Q4). repeat split; auto; try lia. intros X; discriminate.
    + apply IH; auto; lia.
  - destruct (ll / 64 * 64 =? pointer_tag) eqn:E5; [|apply Ret0; auto].
    (* pointer *)
    destruct (i + 1 >=? blen) eqn:E6; [apply Ret0; auto|].
    destruct (rd_in buf (i + 1)) as [lo Hlo]; [lia|]. rewrite Hlo.
    assert (Hlob := rd_byte _ _ _ HB Hlo).
    rewrite pointer_octets by assumption.
    rewrite (u32_small (ll mod 64 * 256 + lo)) by lia.
    rewrite (u32_small (i + 1 + 1)) by lia.
    rewrite pointer_guard_spec.
    set (p := ll mod 64 * 256 + lo). assert (Hp : 0 <= p) by (subst p; lia).
    destruct (off <=? p) eqn:E7; [apply Ret0; auto|].
    assert (Hrc : u32 (i + 1 + 1 - off) = i + 2 - off) by (rewrite u32_small; lia).
    assert (Hoff : off < blen) by lia.
    destruct name as [base|].
    + cbn [tgt_ok] in Hok.
      destruct ((nlen >=? nmax) && (nmax >? 0)) eqn:E8.
      * (* the name buffer is full: terminate it and continue without a buffer *)
        destruct (wr_ok tgt (base + nmax - 1) 0) as [tA W]; [lia|]. rewrite W.
        apply wr_inv in W. destruct W as (_ & LA & RA & _).
        assert (R := Hrec Hoff p tA None (if 0 >? nlen then 0 - nlen else 0) ltac:(lia) I).
        destruct (rec p tA None (if 0 >? nlen then 0 - nlen else 0)) as [rc tB| |]; cbn [npost] in R; try tauto.
        destruct R as (R1 & R2 & R3 & R4). specialize (R3 eq_refl). subst tB.
        destruct (rc =? 0) eqn:E9.
        { cbn [npost]. repeat split; auto; try lia; try discriminate; try (intros X; congruence). }
        cbn [npost]. rewrite Hrc. repeat split; auto; try lia; try discriminate.
        intros _ b Hb Hm. inversion Hb; subst b. exists (base + nmax - 1). split; [lia|exact RA].
      * set (smax := if nmax >? nlen then nmax - nlen else 0).
        assert (Hsm : (nmax > 0 -> 0 < smax /\ smax = nmax - nlen) /\ 0 <= smax /\ nlen + smax <= Z.max nlen nmax)
          by (subst smax; destruct (nmax >? nlen) eqn:E10; lia).
        assert (R := Hrec Hoff p tgt (Some (base + nlen)) smax ltac:(lia)).
        assert (R' : npost blen p tgt (Some (base + nlen)) smax (rec p tgt (Some (base + nlen)) smax)).
        { apply R. cbn [tgt_ok]. lia. }
        clear R. destruct (rec p tgt (Some (base + nlen)) smax) as [rc tB| |]; cbn [npost] in R'; try tauto.
        destruct R' as (R1 & R2 & R3 & R4).
        destruct (rc =? 0) eqn:E9.
        { cbn [npost]. repeat split; auto; try lia; try discriminate; try (intros X; congruence). }
        assert (Hnul : 0 < nmax -> exists k, base + nlen <= k < base + nmax /\ rd tB k = Some 0).
        { intros Hm. destruct (R4 ltac:(lia) (base + nlen) eq_refl ltac:(lia)) as (k & Hk & Rk).
          exists k. split; [lia|exact Rk]. }
        destruct (nlen >? 0) eqn:E10.
        -- (* the trailing-dot repair reads name[name_len] and may write name[name_len - 1] *)
           destruct (rd_in tB (base + nlen)) as [c Hc]; [lia|]. rewrite Hc.
           destruct (c =? 0) eqn:E12.
           ++ destruct (wr_ok tB (base + nlen - 1) 0) as [tC W]; [lia|]. rewrite W.
              apply wr_inv in W. destruct W as (_ & LC & RC & RO).
              cbn [npost]. rewrite Hrc. repeat split; auto; try lia; try discriminate.
              intros _ b Hb Hm. inversion Hb; subst b.
              destruct (Hnul Hm) as (k & Hk & Rk). exists k. split; [lia|]. rewrite RO by lia. exact Rk.
           ++ cbn [npost]. rewrite Hrc. repeat split; auto; try lia; try discriminate.
              intros _ b Hb Hm. inversion Hb; subst b.
              destruct (Hnul Hm) as (k & Hk & Rk). exists k. split; [lia|exact Rk].
        -- cbn [npost]. rewrite Hrc. repeat split; auto; try lia; try discriminate.
           intros _ b Hb Hm. inversion Hb; subst b.
           destruct (Hnul Hm) as (k & Hk & Rk). exists k. split; [lia|exact Rk].
    + (* no buffer: message_name_len *)
      assert (R := Hrec Hoff p tgt None (if nmax >? nlen then nmax - nlen else 0) ltac:(lia) I).
      destruct (rec p tgt None (if nmax >? nlen then nmax - nlen else 0)) as [rc tB| |]; cbn [npost] in R; try tauto.
      destruct R as (R1 & R2 & R3 & R4). specialize (R3 eq_refl). subst tB.
      destruct (rc =? 0) eqn:E9.
      { cbn [npost]. repeat split; auto; try lia; try discriminate. }
      cbn [npost]. rewrite Hrc. repeat split; auto; try lia; try discriminate.
Qed.

Lemma name_get_ok buf blen :
  bytes buf -> blen = zlen buf -> blen <= 65536 ->
  forall d f off tgt name nmax,
    0 <= off -> (1 <= d)%nat -> (off < blen -> Z.of_nat d > off) -> Z.of_nat f > blen ->
    tgt_ok tgt name nmax ->
    npost blen off tgt name nmax (name_get d f buf blen off tgt name nmax).
Proof.
  intros HB HL Hsz. assert (H0 : 0 <= blen) by (subst blen; unfold zlen; lia).
  induction d as [|d IH]; intros f off tgt name nmax Ho Hd Hdo Hf Hok; [lia|].
  cbn [name_get]. apply name_loop_ok; auto; try lia.
  intros Hlt p t nm mx Hp Hok'. apply IH; auto; lia.
Qed.

(* ------------------------------------------------------------------------------------------ *)
(* the C string in a target field                                                               *)
(* ------------------------------------------------------------------------------------------ *)
Lemma rd_cons c r k : 0 < k -> rd (c :: r) k = rd r (k - 1).
Proof.
  intros H. unfold rd. destruct (k <? 0) eqn:E1; [lia|]. destruct (k - 1 <? 0) eqn:E2; [lia|].
  replace (Z.to_nat k) with (S (Z.to_nat (k - 1))) by lia. reflexivity.
Qed.

Lemma cstr_of_nul : forall t k, rd t k = Some 0 ->
  exists s, cstr t = Some s /\ zlen s <= k /\ ~ In 0 s.
Proof.
  induction t as [|c r IH]; intros k H.
  - apply rd_bound in H. cbn in H. lia.
  - cbn [cstr]. destruct (c =? 0) eqn:E.
    + exists []. apply rd_bound in H. cbn. repeat split; auto; lia.
    + assert (Hk : 0 < k).
      { pose proof (rd_bound _ _ _ H) as B. destruct (Z.eq_dec k 0) as [->|]; [|lia].
        cbn in H. inversion H. lia. }
      rewrite rd_cons in H by exact Hk. destruct (IH _ H) as (s & -> & L & N).
      exists (c :: s). unfold zlen in *. cbn [length]. repeat split; auto; try lia.
      intros [X|X]; [lia|auto].
Qed.

(* what a consumer of the list relies on for every record *)
Definition target_ok (t : list Z) : Prop :=
  zlen t = MAX_DOMAIN_LEN /\
  exists s, cstr t = Some s /\ zlen s < MAX_DOMAIN_LEN /\ ~ In 0 s.

(* ------------------------------------------------------------------------------------------ *)
(* resolver_raw_srv_lookup_buf                                                                  *)
(* ------------------------------------------------------------------------------------------ *)
Section Lookup.
Variable buf : list Z.
Hypothesis HB : bytes buf.
Hypothesis Hsz : zlen buf <= 65536.
Let blen := zlen buf.
Let fuel := S (length buf).

Lemma fuel_gt : Z.of_nat fuel > blen.
Proof. unfold fuel, blen, zlen. lia. Qed.

Lemma name_len_at_ok j : 0 <= j ->
  exists rc t, name_len_at fuel buf blen j = NRet rc t /\ (rc = 0 \/ (1 <= rc /\ j + rc <= blen)).
Proof.
  intros Hj. unfold name_len_at.
  assert (P := name_get_ok buf blen HB eq_refl Hsz fuel fuel j [] None SIZE_MAX Hj).
  assert (Q : npost blen j [] None SIZE_MAX (name_get fuel fuel buf blen j [] None SIZE_MAX)).
  { apply P; try (pose proof fuel_gt; unfold fuel in *; lia). exact I. }
  destruct (name_get fuel fuel buf blen j [] None SIZE_MAX) as [rc t| |]; cbn [npost] in Q; try tauto.
  exists rc, t. split; [reflexivity|tauto].
Qed.

Lemma skip_questions_ok : forall n j, 0 <= j < 4294967296 ->
  match skip_questions n fuel buf blen j with
  | QOk j' => 0 <= j' < 4294967296
  | QStop st => st = XMPP_DOMAIN_NOT_FOUND
  | _ => False
  end.
Proof.
  induction n as [|n IH]; intros j Hj; cbn [skip_questions]; [exact Hj|].
  change (ovf_k 0) with 0. rewrite ovf_check_spec, Z.add_0_r, u32_small by lia.
  destruct (blen <=? j) eqn:E; [reflexivity|].
  destruct (name_len_at_ok j) as (rc & t & -> & Hrc); [lia|].
  destruct (rc =? 0) eqn:E2; [reflexivity|].
  apply IH. unfold u32. apply Z.mod_pos_bound. lia.
Qed.

Definition list_ok (l : list srv_rr) : Prop := Forall (fun r => target_ok (rr_target r)) l.

Lemma srv_target_ok j : 0 <= j ->
  exists rc t, name_get fuel fuel buf blen j (repeat 0 (Z.to_nat MAX_DOMAIN_LEN)) (Some 0) MAX_DOMAIN_LEN = NRet rc t /\
               0 <= rc /\ (rc > 0 -> target_ok t).
Proof.
  intros Hj.
  set (t0 := repeat 0 (Z.to_nat MAX_DOMAIN_LEN)).
  assert (L0 : zlen t0 = MAX_DOMAIN_LEN) by (unfold zlen, t0; rewrite repeat_length; reflexivity).
  assert (P := name_get_ok buf blen HB eq_refl Hsz fuel fuel j t0 (Some 0) MAX_DOMAIN_LEN Hj).
  assert (Q : npost blen j t0 (Some 0) MAX_DOMAIN_LEN (name_get fuel fuel buf blen j t0 (Some 0) MAX_DOMAIN_LEN)).
  { apply P; try (pose proof fuel_gt; unfold fuel in *; lia). cbn [tgt_ok]. rewrite L0. unfold MAX_DOMAIN_LEN. lia. }
  destruct (name_get fuel fuel buf blen j t0 (Some 0) MAX_DOMAIN_LEN) as [rc t| |]; cbn [npost] in Q; try tauto.
  destruct Q as (Q1 & Q2 & _ & Q4). exists rc, t. split; [reflexivity|]. split; [lia|].
  intros Hrc. destruct (Q4 ltac:(lia) 0 eq_refl ltac:(unfold MAX_DOMAIN_LEN; lia)) as (k & Hk & Rk).
  split; [lia|]. destruct (cstr_of_nul _ _ Rk) as (s & Hs & Ls & Ns).
  exists s. repeat split; auto. lia.
Qed.

Lemma found_neq : XMPP_DOMAIN_FOUND <> XMPP_DOMAIN_NOT_FOUND.
Proof. discriminate. Qed.

Definition raw_post (r : lres) : Prop :=
  match r with
  | LDone st l => (st = XMPP_DOMAIN_FOUND \/ st = XMPP_DOMAIN_NOT_FOUND) /\
                  (st = XMPP_DOMAIN_FOUND -> l <> []) /\ list_ok l
  | _ => False
  end.

Lemma answers_ok : forall n j l, 0 <= j < 4294967296 -> list_ok l ->
  raw_post (answers n fuel buf blen j l).
Proof.
  assert (NF := found_neq).
  induction n as [|n IH]; intros j l Hj Hl; cbn [answers].
  - cbn [raw_post]. destruct l; repeat split; auto; try congruence.
  - change (ovf_k 1) with 0. change (ovf_k 2) with 9. change (ovf_k 3) with 6.
    rewrite !ovf_check_spec, Z.add_0_r, (u32_small j) by lia.
    assert (Stop : raw_post (LDone XMPP_DOMAIN_NOT_FOUND [])).
    { cbn [raw_post]. repeat split; auto; try congruence. constructor. }
    destruct (blen <=? j) eqn:E; [exact Stop|].
    destruct (name_len_at_ok j) as (rc & t & -> & Hrc); [lia|].
    destruct (rc =? 0) eqn:E2.
    { cbn [raw_post]. repeat split; auto; congruence. }
    rewrite (u32_small (j + rc)) by (fold blen in Hsz; lia).
    set (j1 := j + rc). assert (Hj1 : 0 <= j1 <= blen) by lia. fold blen in Hsz.
    rewrite (u32_small (j1 + 9)), ovf_check_spec by lia.
    destruct (blen <=? j1 + 9) eqn:E3; [exact Stop|].
    change rr_type_off with 0. change rr_class_off with 2. change rr_rdlength_off with 8.
    change rr_fixed_len with 10.
    rewrite Z.add_0_r, (u32_small j1), (u32_small (j1 + 2)), (u32_small (j1 + 8)), (u32_small (j1 + 10)) by lia.
    destruct (rd16_in buf j1) as (ty & -> & Hty); try (fold blen; lia).
    destruct (rd16_in buf (j1 + 2)) as (cl & -> & Hcl); try (fold blen; lia).
    destruct (rd16_in buf (j1 + 8)) as (rdl & -> & Hrdl); try (fold blen; lia).
    assert (Hnext : forall x, 0 <= u32 x < 4294967296) by (intros x; unfold u32; apply Z.mod_pos_bound; lia).
    destruct ((ty =? MESSAGE_T_SRV) && (cl =? MESSAGE_C_IN)) eqn:E4; [|apply IH; auto].
    set (j2 := j1 + 10).
    fold j2. rewrite (u32_small (j2 + 6)), ovf_check_spec by lia.
    destruct (blen <=? j2 + 6) eqn:E5; [exact Stop|].
    change srv_prio_off with 0. change srv_weight_off with 2. change srv_port_off with 4.
    change srv_target_off with 6.
    rewrite Z.add_0_r, (u32_small j2), (u32_small (j2 + 2)), (u32_small (j2 + 4)), (u32_small (j2 + 6)) by lia.
    destruct (rd16_in buf j2) as (pr & -> & Hpr); try (fold blen; lia).
    destruct (rd16_in buf (j2 + 2)) as (we & -> & Hwe); try (fold blen; lia).
    destruct (rd16_in buf (j2 + 4)) as (po & -> & Hpo); try (fold blen; lia).
    destruct (srv_target_ok (j2 + 6)) as (rc2 & t2 & -> & Hrc2 & Ht2); [lia|].
    apply IH; auto.
    destruct (rc2 >? 0) eqn:E6; [|exact Hl].
    constructor; [|exact Hl]. cbn [rr_target]. apply Ht2. lia.
Qed.

Lemma lookup_raw_ok : raw_post (lookup_raw buf).
Proof.
  assert (NF := found_neq).
  unfold lookup_raw. fold blen. fold fuel.
  assert (Stop : raw_post (LDone XMPP_DOMAIN_NOT_FOUND [])).
  { cbn [raw_post]. repeat split; auto; try congruence. constructor. }
  change MESSAGE_HEADER_LEN with 12.
  destruct (blen <? 12) eqn:E; [exact Stop|].
  change hdr_octet2_off with 2. change hdr_octet3_off with 3.
  change hdr_qdcount_off with 4. change hdr_ancount_off with 6.
  destruct (rd_in buf 2) as [o2 ->]; [fold blen; lia|].
  destruct (rd_in buf 3) as [o3 ->]; [fold blen; lia|].
  destruct (rd16_in buf 4) as (qd & -> & Hqd); try (fold blen; lia).
  destruct (rd16_in buf 6) as (an & -> & Han); try (fold blen; lia).
  match goal with |- context [if ?c then _ else _] => destruct c end; [exact Stop|].
  assert (Q := skip_questions_ok (Z.to_nat qd) 12 ltac:(lia)).
  destruct (skip_questions (Z.to_nat qd) fuel buf blen 12) as [j|st| |]; try tauto.
  - apply answers_ok; [exact Q|constructor].
  - subst st. exact Stop.
Qed.

End Lookup.

(* ------------------------------------------------------------------------------------------ *)
(* resolver_srv_lookup_buf: the statements of C15 (1)-(3)                                       *)
(* ------------------------------------------------------------------------------------------ *)
Definition unsorted_post (r : lres) : Prop :=
  match r with
  | LDone st l => (st = XMPP_DOMAIN_FOUND \/ st = XMPP_DOMAIN_NOT_FOUND) /\
                  (st = XMPP_DOMAIN_FOUND <-> l <> []) /\ list_ok l
  | _ => False
  end.

Lemma lookup_unsorted_ok buf : bytes buf -> zlen buf <= 65536 -> unsorted_post (lookup_unsorted buf).
Proof.
  intros HB Hsz. assert (R := lookup_raw_ok buf HB Hsz). unfold lookup_unsorted.
  destruct (lookup_raw buf) as [st l| |]; cbn [raw_post] in R; try tauto.
  destruct R as (R1 & R2 & R3).
  destruct (negb (st =? XMPP_DOMAIN_FOUND) && match l with [] => false | _ => true end) eqn:E; cbn [unsorted_post].
  - repeat split; auto; try (constructor; fail); try congruence. lia.
  - repeat split; auto. intros Hl. destruct l; [congruence|]. lia.
Qed.

Lemma lookup_no_oob buf : bytes buf -> zlen buf <= 65536 ->
  lookup buf <> LOOB /\ lookup buf <> LFuel.
Proof.
  intros HB Hsz. assert (R := lookup_unsorted_ok buf HB Hsz). unfold lookup.
  destruct (lookup_unsorted buf) as [st l| |]; cbn [unsorted_post] in R; try tauto.
  destruct (srv_sort_fuel_enough l) as (l' & ->). split; discriminate.
Qed.

Lemma lookup_consistent buf st l : bytes buf -> zlen buf <= 65536 ->
  lookup buf = LDone st l ->
  (st = XMPP_DOMAIN_FOUND \/ st = XMPP_DOMAIN_NOT_FOUND) /\
  (st = XMPP_DOMAIN_FOUND <-> l <> []) /\
  forall r, In r l ->
    zlen (rr_target r) = MAX_DOMAIN_LEN /\
    exists s, cstr (rr_target r) = Some s /\ zlen s < MAX_DOMAIN_LEN /\ ~ In 0 s.
Proof.
  intros HB Hsz H. assert (R := lookup_unsorted_ok buf HB Hsz). unfold lookup in H.
  destruct (lookup_unsorted buf) as [st0 l0| |]; cbn [unsorted_post] in R; try discriminate.
  destruct (srv_sort l0) as [l1|] eqn:S; [|discriminate]. inversion H; subst; clear H.
  destruct R as (R1 & R2 & R3). apply srv_sort_sorted in S. destruct S as [P _].
  split; [exact R1|]. split.
  - rewrite R2. split; intros X Y; subst.
    + apply Permutation_sym, Permutation_nil in P. auto.
    + apply Permutation_nil in P. auto.
  - intros r Hr. apply Permutation_sym in P. eapply Permutation_in in Hr; [|exact P].
    unfold list_ok in R3. eapply Forall_forall in R3; [|exact Hr]. exact R3.
Qed.

Lemma lookup_sorted buf st l : lookup buf = LDone st l ->
  exists u, lookup_unsorted buf = LDone st u /\ Permutation u l /\ StronglySorted srv_le l.
Proof.
  unfold lookup. destruct (lookup_unsorted buf) as [st0 l0| |]; try discriminate.
  destruct (srv_sort l0) as [l1|] eqn:S; [|discriminate]. intros H; inversion H; subst; clear H.
  apply srv_sort_sorted in S. exists l0. tauto.
Qed.

Lemma sort_fuel_enough l : srv_sort l <> None.
Proof. destruct (srv_sort_fuel_enough l) as (l' & ->). discriminate. Qed.
