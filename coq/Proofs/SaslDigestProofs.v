(* C07 proofs, DIGEST-MD5 part: the reply of sasl_digest_md5 is the RFC 2831 digest-response with
   the response-value of section 2.1.2.1. *)
Require Import LV.Common.Bytes LV.Common.HashWords LV.Gen.Gen_hash LV.Gen.Gen_sasl LV.Spec.JidSpec
               LV.Spec.Base64Spec LV.Spec.HashSpec LV.Spec.Rfc2831Spec
               LV.Model.Base64Model LV.Model.HashModel LV.Model.HmacModel LV.Model.SaslModel
               LV.Proofs.Base64Proofs LV.Proofs.HashProofs LV.Proofs.SaslProofs.
Local Open Scope Z_scope.

(* ---- the table ---- *)
Lemma list_eqb_sym : forall a b, list_eqb a b = list_eqb b a.
Proof. induction a as [|x a IH]; intros [|y b]; cbn [list_eqb]; try reflexivity. now rewrite Z.eqb_sym, IH. Qed.

Lemma tbl_get_add : forall t a b v, tbl_get a (tbl_add b v t) = if list_eqb a b then Some v else tbl_get a t.
Proof.
  induction t as [|[k w] t IH]; intros a b v; cbn [tbl_add tbl_get].
  - reflexivity.
  - destruct (list_eqb b k) eqn:Ebk.
    + apply list_eqb_eq in Ebk. subst k. cbn [tbl_get]. destruct (list_eqb a b); reflexivity.
    + cbn [tbl_get]. destruct (list_eqb a k) eqn:Eak.
      * apply list_eqb_eq in Eak. subst k. rewrite (list_eqb_sym a b), Ebk. reflexivity.
      * apply IH.
Qed.

(* ---- hex ---- *)
Lemma digest_hex_spec : forall d, bytes d -> digest_hex d = HEX d.
Proof.
  assert (S : forallb (fun v => nthz digest_hexdigits v =? hexdigit false v) (map Z.of_nat (seq 0 16)) = true) by (vm_compute; reflexivity).
  assert (R : forall v, 0 <= v < 16 -> nthz digest_hexdigits v = hexdigit false v).
  { intros v Hv. rewrite forallb_forall in S. apply Z.eqb_eq. apply S. apply in_map_iff. exists (Z.to_nat v). split; [lia|]. apply in_seq. lia. }
  intros d Hd. unfold digest_hex, HEX, hex_of_bytes. induction Hd as [|b d Hb Hd IH]; cbn [flat_map]; [reflexivity|].
  rewrite IH. unfold is_byte in Hb.
  assert (Hq : 0 <= b / 16 < 16) by (split; [apply Z.div_pos; lia|apply Z.div_lt_upper_bound; lia]).
  rewrite (Z.mod_small (b / 16) 16) by exact Hq.
  rewrite (R (b / 16) Hq), (R (b mod 16)) by (apply Z.mod_pos_bound; lia). reflexivity.
Qed.

Lemma be_bytes_bytes' : forall n x, bytes (be_bytes n x).
Proof. induction n as [|n IH]; intros x; cbn [be_bytes]; constructor; [|apply IH]. unfold is_byte. apply Z.mod_pos_bound. lia. Qed.
Lemma md5_spec_bytes m : bytes (md5_spec m).
Proof.
  unfold md5_spec. induction (md_fold 64 md5_compress_spec md5_H0 (md_pad 64 8 false m)) as [|w ws IH]; cbn [flat_map]; [constructor|].
  apply Forall_app. split; [|exact IH]. unfold le_bytes. apply Forall_rev. apply be_bytes_bytes'.
Qed.

(* ---- the reply ---- *)
Definition s_charset : list Z := [99; 104; 97; 114; 115; 101; 116].

(* the client's choice out of the server's qop-options *)
Definition chosen_qop (t0 : table) : list Z :=
  match tbl_get s_qop t0 with
  | None => s_auth
  | Some q => if qop_offers q then s_auth else q
  end.
Definition chosen_realm (t0 : table) (domain : list Z) : list Z :=
  match tbl_get s_realm t0 with
  | Some (c :: r) => c :: r
  | _ => domain
  end.

Lemma lbeq_list_eqb a b : lbeq a b = list_eqb a b.
Proof. reflexivity. Qed.

Lemma digest_lemma : forall challenge jid password rnd t0 node nonce,
  parse_digest_challenge challenge = AOk t0 ->
  tbl_get s_nonce t0 = Some nonce ->
  spec_node jid = Some node ->
  let domain := spec_domain jid in
  let qop := chosen_qop t0 in
  qop = s_auth \/ qop = s_auth_int \/ qop = s_auth_conf ->
  sasl_digest_md5 challenge jid password rnd =
    AOk (encode (digest_response md5_spec node (chosen_realm t0 domain) password nonce
                                 (rand_nonce rnd 13) qop domain
                                 (match tbl_get s_charset t0 with Some v => v | None => [] end))).
Proof.
  intros challenge jid pw rnd t0 node nonce Hparse Hnonce Hnode domain qop Hqop.
  unfold sasl_digest_md5. rewrite Hparse. cbn [abind]. rewrite Hnonce, Hnode. fold domain.
  set (t1 := match tbl_get s_realm t0 with Some (_ :: _) => t0 | _ => tbl_add s_realm domain t0 end).
  assert (G1realm : tbl_get s_realm t1 = Some (chosen_realm t0 domain)).
  { unfold t1, chosen_realm. destruct (tbl_get s_realm t0) as [[|c r]|] eqn:E; [| exact E |]; rewrite tbl_get_add; reflexivity. }
  assert (G1 : forall k, list_eqb k s_realm = false -> tbl_get k t1 = tbl_get k t0).
  { intros k Hk. unfold t1. destruct (tbl_get s_realm t0) as [[|c r]|]; try reflexivity; rewrite tbl_get_add, Hk; reflexivity. }
  rewrite G1realm.
  change digest_cnonce_size with 13. set (cn := rand_nonce rnd 13).
  set (t2 := tbl_add s_nc digest_nc (tbl_add s_cnonce cn (tbl_add s_username node t1))).
  assert (G2qop : tbl_get s_qop t2 = tbl_get s_qop t0).
  { unfold t2. rewrite !tbl_get_add. cbn [list_eqb Z.eqb Pos.eqb andb]. apply G1. reflexivity. }
  rewrite G2qop.
  set (t3 := match tbl_get s_qop t0 with
             | Some q => if qop_offers q then tbl_add s_qop digest_default_qop t2 else t2
             | None => tbl_add s_qop digest_default_qop t2 end).
  assert (G3qop : tbl_get s_qop t3 = Some qop).
  { unfold t3, qop, chosen_qop. destruct (tbl_get s_qop t0) as [q|] eqn:E.
    - destruct (qop_offers q); [rewrite tbl_get_add; reflexivity|]. rewrite G2qop. reflexivity.
    - rewrite tbl_get_add. reflexivity. }
  assert (G3 : forall k, list_eqb k s_qop = false -> tbl_get k t3 = tbl_get k t2).
  { intros k Hk. unfold t3. destruct (tbl_get s_qop t0) as [q|]; [destruct (qop_offers q)|]; try reflexivity; rewrite tbl_get_add, Hk; reflexivity. }
  change digest_uri_prefix with [120; 109; 112; 112; 47].
  set (uri := [120; 109; 112; 112; 47] ++ domain).
  set (t4 := tbl_add s_digest_uri uri t3).
  assert (G4qop : tbl_get s_qop t4 = Some qop) by (unfold t4; rewrite tbl_get_add; exact G3qop).
  rewrite G4qop. change digest_qop_plain with s_auth.
  assert (G4nonce : tbl_get s_nonce t4 = Some nonce).
  { unfold t4. rewrite tbl_get_add. cbn [list_eqb Z.eqb Pos.eqb andb]. rewrite G3 by reflexivity. unfold t2. rewrite !tbl_get_add.
    cbn [list_eqb Z.eqb Pos.eqb andb]. rewrite G1 by reflexivity. exact Hnonce. }
  assert (G4cnonce : tbl_get s_cnonce t4 = Some cn).
  { unfold t4. rewrite tbl_get_add. cbn [list_eqb Z.eqb Pos.eqb andb]. rewrite G3 by reflexivity. unfold t2. rewrite !tbl_get_add. reflexivity. }
  assert (G4nc : tbl_get s_nc t4 = Some digest_nc).
  { unfold t4. rewrite tbl_get_add. cbn [list_eqb Z.eqb Pos.eqb andb]. rewrite G3 by reflexivity. unfold t2. rewrite !tbl_get_add. reflexivity. }
  assert (G4uri : tbl_get s_digest_uri t4 = Some uri) by (unfold t4; rewrite tbl_get_add; reflexivity).
  assert (G4user : tbl_get s_username t4 = Some node).
  { unfold t4. rewrite tbl_get_add. cbn [list_eqb Z.eqb Pos.eqb andb]. rewrite G3 by reflexivity. unfold t2. rewrite !tbl_get_add. reflexivity. }
  assert (G4realm : tbl_get s_realm t4 = Some (chosen_realm t0 domain)).
  { unfold t4. rewrite tbl_get_add. cbn [list_eqb Z.eqb Pos.eqb andb]. rewrite G3 by reflexivity. unfold t2. rewrite !tbl_get_add.
    cbn [list_eqb Z.eqb Pos.eqb andb]. exact G1realm. }
  assert (G4charset : tbl_get s_charset t4 = tbl_get s_charset t0).
  { unfold t4. rewrite tbl_get_add. cbn [list_eqb Z.eqb Pos.eqb andb]. rewrite G3 by reflexivity. unfold t2. rewrite !tbl_get_add.
    cbn [list_eqb Z.eqb Pos.eqb andb]. apply G1. reflexivity. }
  set (realm := chosen_realm t0 domain) in *.
  set (plain := list_eqb qop s_auth).
  (* the four MD5 computations *)
  unfold md5_comp.
  change (nth 0 digest_md5_pieces []) with [(1, [0]); (0, [58]); (1, [1]); (0, [58]); (1, [2])].
  change (nth 1 digest_md5_pieces []) with [(1, [3]); (0, [58]); (2, s_nonce); (0, [58]); (2, s_cnonce)].
  change (nth 2 digest_md5_pieces []) with [(0, s_AUTHENTICATE ++ [58]); (2, s_digest_uri); (10, 58 :: repeat 48 32)].
  change (nth 3 digest_md5_pieces []) with [(1, [4]); (0, [58]); (2, s_nonce); (0, [58]); (2, s_nc); (0, [58]); (2, s_cnonce); (0, [58]); (2, s_qop); (0, [58]); (1, [5])].
  cbn [piece_chunks piece_chunk Z.leb Z.compare Pos.compare Pos.compare_cont andb Z.modulo Z.div_eucl Z.pos_div_eucl Z.eqb Pos.eqb nthz nth Z.to_nat Pos.to_nat Pos.iter_op Nat.add abind
       Z.ltb Z.sub Z.add Z.opp Z.pos_sub Z.succ_double Z.pred_double Z.double Pos.pred_double fst snd Z.mul Pos.mul Pos.add Pos.succ Z.leb Z.gtb Z.geb].
  rewrite md5_any_split_lemma. cbn [of_h abind].
  rewrite G4nonce, G4cnonce. cbn [abind]. rewrite md5_any_split_lemma. cbn [of_h abind].
  rewrite G4uri. cbn [abind].
  set (ha1 := md5_spec (concat [md5_spec (concat [node; [58]; realm; [58]; pw]); [58]; nonce; [58]; cn])).
  assert (Hha1 : ha1 = md5_spec (A1 md5_spec node realm pw nonce cn)).
  { unfold ha1, A1, COLON. cbn [concat]. rewrite ?app_nil_r. rewrite <- ?app_assoc. reflexivity. }
  destruct plain eqn:Eplain; cbn [abind andb]; rewrite md5_any_split_lemma; cbn [of_h abind];
    rewrite G4nonce, G4nc, G4cnonce, G4qop; cbn [abind]; rewrite md5_any_split_lemma; cbn [of_h abind].
  all: rewrite !digest_hex_spec by apply md5_spec_bytes.
  all: unfold digest_response; fold uri.
  all: change digest_reply_fields with
         [(s_username, 1); (s_realm, 1); (s_nonce, 1); (s_cnonce, 1); (s_nc, 0); (s_qop, 0); (s_digest_uri, 1); (s_response, 0); (s_charset, 0)].
  all: cbn [fold_left add_key].
  all: rewrite !tbl_get_add; cbn [list_eqb Z.eqb Pos.eqb andb].
  all: rewrite G4user, G4realm, G4nonce, G4cnonce, G4nc, G4qop, G4uri, G4charset.
  all: do 2 f_equal.
  all: unfold join_commas, directive, quoted, response_value, KD, COLON; change digest_nc with s_nc1.
  all: cbn [zlen length app Z.of_nat Z.eqb Pos.of_succ_nat].
  all: rewrite <- !app_assoc; cbn [app].
  all: repeat f_equal.
  all: rewrite Hha1.
  all: cbn [concat]; rewrite ?app_nil_r, <- ?app_assoc; cbn [app].
  all: unfold A2, COLON.
  all: idtac "GOALS".
  Show.
Abort.
