(* C07 proofs, DIGEST-MD5 part: the reply of sasl_digest_md5 is the RFC 2831 digest-response with
   the response-value of section 2.1.2.1. *)
Require Import LV.Common.Bytes LV.Common.HashWords LV.Gen.Gen_hash LV.Gen.Gen_sasl LV.Spec.JidSpec
               LV.Spec.Base64Spec LV.Spec.HashSpec LV.Spec.Rfc2831Spec
               LV.Model.Base64Model LV.Model.HashModel LV.Model.HmacModel LV.Model.SaslModel
               LV.Proofs.Base64Proofs LV.Proofs.HashProofs LV.Proofs.SaslProofs LV.Proofs.SaslScramProofs.
Local Open Scope Z_scope.

(* ---- the table ---- *)
Lemma list_eqb_sym : forall a b, list_eqb a b = list_eqb b a.
Proof. induction a as [|x a IH]; intros [|y b]; cbn [list_eqb]; try reflexivity. now rewrite Z.eqb_sym, IH. Qed.

Lemma tbl_get_add : forall t a b v, tbl_get a (tbl_add b v t) = if list_eqb a b then Some v else tbl_get a t.
Proof.
  induction t as [|[k w] t IH]; intros a b v; cbn [tbl_add tbl_get].
  - reflexivity.
  - destruct (list_eqb b k) eqn:Ebk.
    + apply list_eqb_eq in Ebk. subst k. cbn [tbl_get]. destruct (list_eqb a b); reflexivity.
    + cbn [tbl_get]. destruct (list_eqb a k) eqn:Eak.
      * apply list_eqb_eq in Eak. subst k. rewrite (list_eqb_sym a b), Ebk. reflexivity.
      * apply IH.
Qed.

(* ---- hex ---- *)
Lemma digest_hex_spec : forall d, bytes d -> digest_hex d = HEX d.
Proof.
  assert (S : forallb (fun v => nthz digest_hexdigits v =? hexdigit false v) (map Z.of_nat (seq 0 16)) = true) by (vm_compute; reflexivity).
  assert (R : forall v, 0 <= v < 16 -> nthz digest_hexdigits v = hexdigit false v).
  { intros v Hv. rewrite forallb_forall in S. apply Z.eqb_eq. apply S. apply in_map_iff. exists (Z.to_nat v). split; [lia|]. apply in_seq. lia. }
  intros d Hd. unfold digest_hex, HEX, hex_of_bytes. induction Hd as [|b d Hb Hd IH]; cbn [flat_map]; [reflexivity|].
  rewrite IH. unfold is_byte in Hb.
  assert (Hq : 0 <= b / 16 < 16) by (split; [apply Z.div_pos; lia|apply Z.div_lt_upper_bound; lia]).
  rewrite (Z.mod_small (b / 16) 16) by exact Hq.
  rewrite (R (b / 16) Hq), (R (b mod 16)) by (apply Z.mod_pos_bound; lia). reflexivity.
Qed.

Lemma be_bytes_bytes' : forall n x, bytes (be_bytes n x).
Proof. induction n as [|n IH]; intros x; cbn [be_bytes]; constructor; [|apply IH]. unfold is_byte. apply Z.mod_pos_bound. lia. Qed.
Lemma md5_spec_bytes m : bytes (md5_spec m).
Proof.
  unfold md5_spec. induction (md_fold 64 md5_compress_spec md5_H0 (md_pad 64 8 false m)) as [|w ws IH]; cbn [flat_map]; [constructor|].
  apply Forall_app. split; [|exact IH]. unfold le_bytes. apply Forall_rev. apply be_bytes_bytes'.
Qed.

(* ---- the reply ---- *)
Definition s_charset : list Z := [99; 104; 97; 114; 115; 101; 116].

(* the client's choice out of the server's qop-options *)
Definition chosen_qop (t0 : table) : list Z :=
  match tbl_get s_qop t0 with
  | None => s_auth
  | Some q => if qop_offers q then s_auth else q
  end.
Definition chosen_realm (t0 : table) (domain : list Z) : list Z :=
  match tbl_get s_realm t0 with
  | Some (c :: r) => c :: r
  | _ => domain
  end.

Lemma lbeq_list_eqb a b : lbeq a b = list_eqb a b.
Proof. reflexivity. Qed.

(* ---- the MD5 inputs ---- *)
Lemma pc_lit vars t qp bs : piece_chunk vars t qp (0, bs) = AOk (Some bs).
Proof. reflexivity. Qed.
Lemma pc_key vars t qp key : piece_chunk vars t qp (2, key) = match tbl_get key t with Some v => AOk (Some v) | None => ACrash end.
Proof. reflexivity. Qed.
Lemma pc_cond vars t qp bs : piece_chunk vars t qp (10, bs) = if qp then AOk None else AOk (Some bs).
Proof. destruct qp; reflexivity. Qed.
Lemma pc_var0 v0 v1 v2 v3 v4 v5 t qp : piece_chunk [v0; v1; v2; v3; v4; v5] t qp (1, [0]) = AOk (Some v0).
Proof. reflexivity. Qed.
Lemma pc_var1 v0 v1 v2 v3 v4 v5 t qp : piece_chunk [v0; v1; v2; v3; v4; v5] t qp (1, [1]) = AOk (Some v1).
Proof. reflexivity. Qed.
Lemma pc_var2 v0 v1 v2 v3 v4 v5 t qp : piece_chunk [v0; v1; v2; v3; v4; v5] t qp (1, [2]) = AOk (Some v2).
Proof. reflexivity. Qed.
Lemma pc_var3 v0 v1 v2 v3 v4 v5 t qp : piece_chunk [v0; v1; v2; v3; v4; v5] t qp (1, [3]) = AOk (Some v3).
Proof. reflexivity. Qed.
Lemma pc_var4 v0 v1 v2 v3 v4 v5 t qp : piece_chunk [v0; v1; v2; v3; v4; v5] t qp (1, [4]) = AOk (Some v4).
Proof. reflexivity. Qed.
Lemma pc_var5 v0 v1 v2 v3 v4 v5 t qp : piece_chunk [v0; v1; v2; v3; v4; v5] t qp (1, [5]) = AOk (Some v5).
Proof. reflexivity. Qed.

Ltac pcs := cbn [piece_chunks]; rewrite ?pc_lit, ?pc_key, ?pc_cond, ?pc_var0, ?pc_var1, ?pc_var2, ?pc_var3, ?pc_var4, ?pc_var5.

Lemma comp0 : forall node realm pw d h1 h2 t qp,
  md5_comp 0 [node; realm; pw; d; h1; h2] t qp = AOk (md5_spec (node ++ COLON ++ realm ++ COLON ++ pw)).
Proof.
  intros. unfold md5_comp.
  change (nth 0 digest_md5_pieces []) with [(1, [0]); (0, [58]); (1, [1]); (0, [58]); (1, [2])].
  pcs. cbn [abind]. rewrite md5_any_split_lemma. cbn [of_h concat]. rewrite app_nil_r. reflexivity.
Qed.

Lemma comp1 : forall node realm pw d h1 h2 t qp nonce cn,
  tbl_get s_nonce t = Some nonce -> tbl_get s_cnonce t = Some cn ->
  md5_comp 1 [node; realm; pw; d; h1; h2] t qp = AOk (md5_spec (d ++ COLON ++ nonce ++ COLON ++ cn)).
Proof.
  intros * Hn Hc. unfold md5_comp.
  change (nth 1 digest_md5_pieces []) with [(1, [3]); (0, [58]); (2, s_nonce); (0, [58]); (2, s_cnonce)].
  pcs. rewrite Hn, Hc. cbn [abind]. rewrite md5_any_split_lemma. cbn [of_h concat]. rewrite app_nil_r. reflexivity.
Qed.

Lemma comp2 : forall node realm pw d h1 h2 t qp uri,
  tbl_get s_digest_uri t = Some uri ->
  md5_comp 2 [node; realm; pw; d; h1; h2] t qp =
    AOk (md5_spec (s_AUTHENTICATE ++ COLON ++ uri ++ (if qp then [] else COLON ++ repeat 48 32))).
Proof.
  intros * Hu. unfold md5_comp.
  change (nth 2 digest_md5_pieces []) with [(0, s_AUTHENTICATE ++ [58]); (2, s_digest_uri); (10, 58 :: repeat 48 32)].
  pcs. rewrite Hu. destruct qp; cbn [abind]; rewrite md5_any_split_lemma; cbn [of_h concat]; rewrite ?app_nil_r, <- ?app_assoc; reflexivity.
Qed.

Lemma comp3 : forall node realm pw d h1 h2 t qp nonce cn nc qop,
  tbl_get s_nonce t = Some nonce -> tbl_get s_cnonce t = Some cn -> tbl_get s_nc t = Some nc -> tbl_get s_qop t = Some qop ->
  md5_comp 3 [node; realm; pw; d; h1; h2] t qp =
    AOk (md5_spec (h1 ++ COLON ++ nonce ++ COLON ++ nc ++ COLON ++ cn ++ COLON ++ qop ++ COLON ++ h2)).
Proof.
  intros * Hn Hc Hnc Hq. unfold md5_comp.
  change (nth 3 digest_md5_pieces []) with [(1, [4]); (0, [58]); (2, s_nonce); (0, [58]); (2, s_nc); (0, [58]); (2, s_cnonce); (0, [58]); (2, s_qop); (0, [58]); (1, [5])].
  pcs. rewrite Hn, Hc, Hnc, Hq. cbn [abind]. rewrite md5_any_split_lemma. cbn [of_h concat]. rewrite app_nil_r. reflexivity.
Qed.

Definition fval (t : table) (kq : list Z * Z) : list Z :=
  fst kq ++ [61] ++ (let v := match tbl_get (fst kq) t with Some v => v | None => [] end in
                     if snd kq =? 0 then v else [34] ++ v ++ [34]).
Lemma add_key_first t kq : add_key t [] kq = fval t kq.
Proof. destruct kq as [k q]. reflexivity. Qed.
Lemma add_key_next t buf kq : buf <> [] -> add_key t buf kq = buf ++ [44] ++ fval t kq.
Proof.
  intros Hne. destruct kq as [k q]. unfold add_key, fval. cbn [fst snd].
  replace (zlen buf =? 0) with false; [reflexivity|].
  symmetry. apply Z.eqb_neq. destruct buf; [contradiction|]. rewrite zlen_cons. pose proof (zlen_nonneg buf). lia.
Qed.
Lemma fval_ne t kq : fval t kq <> [].
Proof. unfold fval. intro K. apply (f_equal (@length Z)) in K. rewrite !app_length in K. cbn [length] in K. lia. Qed.
Lemma fold_add_key t : forall fields buf, buf <> [] ->
  fold_left (add_key t) fields buf = buf ++ concat (map (fun kq => [44] ++ fval t kq) fields).
Proof.
  induction fields as [|kq r IH]; intros buf Hne; cbn [fold_left map concat]; [now rewrite app_nil_r|].
  rewrite add_key_next by exact Hne. rewrite IH by (destruct buf; [contradiction|discriminate]).
  rewrite <- !app_assoc. reflexivity.
Qed.
Lemma fold_add_key_first t kq r :
  fold_left (add_key t) (kq :: r) [] = fval t kq ++ concat (map (fun kq => [44] ++ fval t kq) r).
Proof. cbn [fold_left]. rewrite add_key_first. apply fold_add_key. apply fval_ne. Qed.
Ltac ne := let K := fresh in intro K; apply (f_equal (@length Z)) in K; rewrite ?app_length in K; cbn [length] in K; lia.

Lemma digest_lemma : forall challenge jid password rnd t0 node nonce,
  parse_digest_challenge challenge = AOk t0 ->
  tbl_get s_nonce t0 = Some nonce ->
  spec_node jid = Some node ->
  let domain := spec_domain jid in
  let qop := chosen_qop t0 in
  qop = s_auth \/ qop = s_auth_int \/ qop = s_auth_conf ->
  sasl_digest_md5 challenge jid password rnd =
    AOk (encode (digest_response md5_spec node (chosen_realm t0 domain) password nonce
                                 (rand_nonce rnd 13) qop domain
                                 (match tbl_get s_charset t0 with Some v => v | None => [] end))).
Proof.
  intros challenge jid pw rnd t0 node nonce Hparse Hnonce Hnode domain qop Hqop.
  unfold sasl_digest_md5. rewrite Hparse. cbn [abind]. rewrite Hnonce, Hnode. fold domain.
  set (t1 := match tbl_get s_realm t0 with Some (_ :: _) => t0 | _ => tbl_add s_realm domain t0 end).
  assert (G1realm : tbl_get s_realm t1 = Some (chosen_realm t0 domain)).
  { unfold t1, chosen_realm. destruct (tbl_get s_realm t0) as [[|c r]|] eqn:E; [| exact E |]; rewrite tbl_get_add; reflexivity. }
  assert (G1 : forall k, list_eqb k s_realm = false -> tbl_get k t1 = tbl_get k t0).
  { intros k Hk. unfold t1. destruct (tbl_get s_realm t0) as [[|c r]|]; try reflexivity; rewrite tbl_get_add, Hk; reflexivity. }
  rewrite G1realm.
  change digest_cnonce_size with 13. set (cn := rand_nonce rnd 13).
  set (t2 := tbl_add s_nc digest_nc (tbl_add s_cnonce cn (tbl_add s_username node t1))).
  assert (G2qop : tbl_get s_qop t2 = tbl_get s_qop t0).
  { unfold t2. rewrite !tbl_get_add. cbn [list_eqb Z.eqb Pos.eqb andb]. apply G1. reflexivity. }
  rewrite G2qop.
  set (t3 := match tbl_get s_qop t0 with
             | Some q => if qop_offers q then tbl_add s_qop digest_default_qop t2 else t2
             | None => tbl_add s_qop digest_default_qop t2 end).
  assert (G3qop : tbl_get s_qop t3 = Some qop).
  { unfold t3, qop, chosen_qop. destruct (tbl_get s_qop t0) as [q|] eqn:E.
    - destruct (qop_offers q); [rewrite tbl_get_add; reflexivity|]. rewrite G2qop. reflexivity.
    - rewrite tbl_get_add. reflexivity. }
  assert (G3 : forall k, list_eqb k s_qop = false -> tbl_get k t3 = tbl_get k t2).
  { intros k Hk. unfold t3. destruct (tbl_get s_qop t0) as [q|]; [destruct (qop_offers q)|]; try reflexivity; rewrite tbl_get_add, Hk; reflexivity. }
  change digest_uri_prefix with [120; 109; 112; 112; 47].
  set (uri := [120; 109; 112; 112; 47] ++ domain).
  set (t4 := tbl_add s_digest_uri uri t3).
  assert (G4qop : tbl_get s_qop t4 = Some qop) by (unfold t4; rewrite tbl_get_add; exact G3qop).
  rewrite G4qop. change digest_qop_plain with s_auth.
  assert (G4nonce : tbl_get s_nonce t4 = Some nonce).
  { unfold t4. rewrite tbl_get_add. cbn [list_eqb Z.eqb Pos.eqb andb]. rewrite G3 by reflexivity. unfold t2. rewrite !tbl_get_add.
    cbn [list_eqb Z.eqb Pos.eqb andb]. rewrite G1 by reflexivity. exact Hnonce. }
  assert (G4cnonce : tbl_get s_cnonce t4 = Some cn).
  { unfold t4. rewrite tbl_get_add. cbn [list_eqb Z.eqb Pos.eqb andb]. rewrite G3 by reflexivity. unfold t2. rewrite !tbl_get_add. reflexivity. }
  assert (G4nc : tbl_get s_nc t4 = Some digest_nc).
  { unfold t4. rewrite tbl_get_add. cbn [list_eqb Z.eqb Pos.eqb andb]. rewrite G3 by reflexivity. unfold t2. rewrite !tbl_get_add. reflexivity. }
  assert (G4uri : tbl_get s_digest_uri t4 = Some uri) by (unfold t4; rewrite tbl_get_add; reflexivity).
  assert (G4user : tbl_get s_username t4 = Some node).
  { unfold t4. rewrite tbl_get_add. cbn [list_eqb Z.eqb Pos.eqb andb]. rewrite G3 by reflexivity. unfold t2. rewrite !tbl_get_add. reflexivity. }
  assert (G4realm : tbl_get s_realm t4 = Some (chosen_realm t0 domain)).
  { unfold t4. rewrite tbl_get_add. cbn [list_eqb Z.eqb Pos.eqb andb]. rewrite G3 by reflexivity. unfold t2. rewrite !tbl_get_add.
    cbn [list_eqb Z.eqb Pos.eqb andb]. exact G1realm. }
  assert (G4charset : tbl_get s_charset t4 = tbl_get s_charset t0).
  { unfold t4. rewrite tbl_get_add. cbn [list_eqb Z.eqb Pos.eqb andb]. rewrite G3 by reflexivity. unfold t2. rewrite !tbl_get_add.
    cbn [list_eqb Z.eqb Pos.eqb andb]. apply G1. reflexivity. }
  set (realm := chosen_realm t0 domain) in *.
  set (plain := list_eqb qop s_auth).
  (* the four MD5 computations *)
  rewrite comp0. cbn [abind].
  rewrite (comp1 _ _ _ _ _ _ _ _ nonce cn G4nonce G4cnonce). cbn [abind].
  rewrite (comp2 _ _ _ _ _ _ _ _ uri G4uri). cbn [abind].
  rewrite (comp3 _ _ _ _ _ _ _ _ nonce cn digest_nc qop G4nonce G4cnonce G4nc G4qop). cbn [abind].
  rewrite !digest_hex_spec by apply md5_spec_bytes.
  assert (EA2 : (if plain then [] else COLON ++ repeat 48 32) =
                (if lbeq qop s_auth_int || lbeq qop s_auth_conf then COLON ++ repeat 48 32 else [])).
  { unfold plain. destruct Hqop as [->|[->| ->]]; reflexivity. }
  rewrite EA2.
  change digest_nc with s_nc1.
  set (rv := HEX (md5_spec (HEX (md5_spec (md5_spec (node ++ COLON ++ realm ++ COLON ++ pw) ++ COLON ++ nonce ++ COLON ++ cn)) ++
                 COLON ++ nonce ++ COLON ++ s_nc1 ++ COLON ++ cn ++ COLON ++ qop ++ COLON ++
                 HEX (md5_spec (s_AUTHENTICATE ++ COLON ++ uri ++
                    (if lbeq qop s_auth_int || lbeq qop s_auth_conf then COLON ++ repeat 48 32 else [])))))).
  assert (Erv : rv = response_value md5_spec node realm pw nonce cn s_nc1 qop uri) by reflexivity.
  set (t5 := tbl_add s_response rv t4).
  assert (G5 : forall k, list_eqb k s_response = false -> tbl_get k t5 = tbl_get k t4).
  { intros k Hk. unfold t5. rewrite tbl_get_add, Hk. reflexivity. }
  assert (G5r : tbl_get s_response t5 = Some rv) by (unfold t5; rewrite tbl_get_add; reflexivity).
  change digest_reply_fields with
    [(s_username, 1); (s_realm, 1); (s_nonce, 1); (s_cnonce, 1); (s_nc, 0); (s_qop, 0); (s_digest_uri, 1); (s_response, 0); (s_charset, 0)].
  rewrite fold_add_key_first.
  cbn [map concat]. unfold fval. cbn [fst snd].
  rewrite G5r, !G5 by reflexivity.
  rewrite G4user, G4realm, G4nonce, G4cnonce, G4nc, G4qop, G4uri, G4charset, Erv.
  change (1 =? 0) with false. change (0 =? 0) with true. cbv iota.
  do 2 f_equal.
  unfold digest_response. fold uri. cbn [join_commas]. unfold directive, quoted.
  change digest_nc with s_nc1.
  rewrite <- !app_assoc. rewrite ?app_nil_r. reflexivity.
Qed.

Lemma digest_no_nonce : forall challenge jid password rnd t0,
  parse_digest_challenge challenge = AOk t0 -> tbl_get s_nonce t0 = None ->
  sasl_digest_md5 challenge jid password rnd = ANull.
Proof. intros * Hp Hn. unfold sasl_digest_md5. rewrite Hp. cbn [abind]. rewrite Hn. reflexivity. Qed.

(* ------------------------------------------------------------------------------------------ *)
(* _parse_digest_challenge on a directive list in the RFC's form: key=value or key=<quoted value>,
   comma separated                                                                             *)
Record dirv := { d_key : list Z; d_val : list Z; d_quoted : bool }.
Definition render1 (d : dirv) : list Z :=
  d_key d ++ [61] ++ (if d_quoted d then [34] ++ d_val d ++ [34] else d_val d).
Fixpoint render (ds : list dirv) : list Z :=
  match ds with
  | [] => []
  | d :: r => render1 d ++ match r with [] => [] | _ => [44] ++ render r end
  end.
Definition head_not (l : list Z) (bad : list Z) : Prop :=
  match l with c :: _ => ~ In c bad | [] => True end.
(* a key has no equals sign and does not begin with a comma or a space; a quoted value has no double
   quote; an unquoted one has no comma and does not begin with a quote character *)
Definition dir_ok (d : dirv) : Prop :=
  ~ In 61 (d_key d) /\ head_not (d_key d) [44; 32] /\
  (if d_quoted d then ~ In 34 (d_val d) else ~ In 44 (d_val d) /\ head_not (d_val d) [34; 39]).
Definition table_of (ds : list dirv) (t : table) : table :=
  fold_left (fun t d => tbl_add (d_key d) (d_val d) t) ds t.

Lemma span_to_app : forall c a r, ~ In c a -> span_to c (a ++ c :: r) = (a, c :: r).
Proof.
  induction a as [|x a IH]; intros r H; cbn [app span_to]; [now rewrite Z.eqb_refl|].
  assert (Hx : x <> c) by (intros ->; apply H; now left). apply Z.eqb_neq in Hx. rewrite Hx.
  rewrite IH; [reflexivity|]. intros K. apply H. now right.
Qed.
Lemma span_to_none : forall c a, ~ In c a -> span_to c a = (a, []).
Proof.
  induction a as [|x a IH]; intros H; cbn [span_to]; [reflexivity|].
  assert (Hx : x <> c) by (intros ->; apply H; now left). apply Z.eqb_neq in Hx. rewrite Hx.
  rewrite IH; [reflexivity|]. intros K. apply H. now right.
Qed.
Lemma skip_cs_head : forall l, head_not l [44; 32] -> skip_cs l = l.
Proof.
  intros [|c l] H; [reflexivity|]. cbn [skip_cs]. cbn [head_not In] in H.
  replace (c =? 44) with false by (symmetry; apply Z.eqb_neq; intros ->; apply H; now left).
  replace (c =? 32) with false by (symmetry; apply Z.eqb_neq; intros ->; apply H; right; now left).
  reflexivity.
Qed.

Lemma parse_loop_step : forall f s t, s <> [] ->
  parse_loop (S f) s t =
    let s1 := skip_cs s in
    let '(key, at_eq) := span_to 61 s1 in
    match at_eq with
    | [] => AOk t
    | _ :: s2 =>
      match s2 with
      | q :: r =>
        if (q =? 39) || (q =? 34) then
          let '(v, at_q) := span_to q r in
          parse_loop f (match at_q with _ :: r3 => r3 | [] => [] end) (tbl_add key v t)
        else
          let '(v, at_c) := span_to 44 s2 in
          parse_loop f at_c (tbl_add key v t)
      | [] => parse_loop f [] (tbl_add key [] t)
      end
    end.
Proof. intros f [|c s] t H; [contradiction|reflexivity]. Qed.

Lemma parse_render : forall ds fuel t pre,
  Forall dir_ok ds -> (length ds < fuel)%nat -> pre = [] \/ (pre = [44] /\ ds <> []) ->
  parse_loop fuel (pre ++ render ds) t = AOk (table_of ds t).
Proof.
  induction ds as [|d r IH]; intros fuel t pre Hok Hf Hpre.
  - destruct Hpre as [->|[_ K]]; [|contradiction]. destruct fuel; [cbn in Hf; lia|]. reflexivity.
  - destruct fuel as [|f]; [cbn in Hf; lia|]. cbn [length] in Hf.
    inversion Hok as [|? ? Hd Hr]; subst. destruct Hd as (Hk61 & Hkh & Hv).
    set (tail := match r with [] => [] | _ => [44] ++ render r end).
    assert (Etail : tail = (match r with [] => [] | _ => [44] end) ++ render r) by (unfold tail; destruct r; reflexivity).
    assert (Hs1 : skip_cs (pre ++ render (d :: r)) = render1 d ++ tail).
    { cbn [render]. fold tail. assert (E : skip_cs (render1 d ++ tail) = render1 d ++ tail).
      { apply skip_cs_head. unfold render1. destruct (d_key d) as [|c k]; [cbn; intros [K|[K|[]]]; discriminate|exact Hkh]. }
      destruct Hpre as [->|[-> _]]; [exact E|]. cbn [app skip_cs Z.eqb Pos.eqb orb]. exact E. }
    assert (Hne : pre ++ render (d :: r) <> []).
    { cbn [render]. unfold render1. intro K. apply (f_equal (@length Z)) in K. rewrite !app_length in K. cbn [length] in K. lia. }
    rewrite parse_loop_step by exact Hne. cbv zeta.
    rewrite Hs1. unfold render1. rewrite <- !app_assoc. cbn [app]. rewrite span_to_app by exact Hk61.
    assert (Next : forall t', parse_loop f tail t' = AOk (table_of r t')).
    { intros t'. rewrite Etail. apply IH; [exact Hr|lia|]. destruct r; [now left|right; split; [reflexivity|discriminate]]. }
    change (table_of (d :: r) t) with (table_of r (tbl_add (d_key d) (d_val d) t)).
    destruct (d_quoted d).
    + cbn [app Z.eqb Pos.eqb orb]. rewrite <- app_assoc. cbn [app]. rewrite span_to_app by exact Hv. apply Next.
    + destruct Hv as [Hv44 Hvh].
      destruct (d_val d ++ tail) as [|q rest] eqn:E2.
      * apply app_eq_nil in E2. destruct E2 as [E2a E2b]. rewrite E2a.
        rewrite <- E2b. apply Next.
      * assert (Hq : (q =? 39) || (q =? 34) = false).
        { destruct (d_val d) as [|v0 vs] eqn:Ev.
          - cbn [app] in E2. unfold tail in E2. destruct r; [discriminate|]. cbn [app] in E2. injection E2 as <- _. reflexivity.
          - cbn [app] in E2. injection E2 as <- _. cbn [head_not In] in Hvh. apply orb_false_iff. split; apply Z.eqb_neq; intros ->; apply Hvh; [right; now left|now left]. }
        rewrite Hq. rewrite <- E2.
        destruct r as [|d2 r2].
        -- unfold tail. rewrite app_nil_r. rewrite span_to_none by exact Hv44.
           destruct f; [cbn in Hf; lia|]. reflexivity.
        -- unfold tail at 1. cbn [app]. rewrite span_to_app by exact Hv44.
           change (44 :: render (d2 :: r2)) with tail. apply Next.
Qed.

Lemma render_length : forall ds, (length ds <= length (render ds))%nat.
Proof.
  induction ds as [|d r IH]; cbn [render length]; [lia|]. unfold render1. rewrite !app_length. cbn [length].
  destruct r; [cbn [length]; lia|]. rewrite app_length. cbn [length] in *. lia.
Qed.

(* the whole of _parse_digest_challenge: base64 of such a list (NUL-free bytes) gives its table *)
Lemma parse_challenge_lemma : forall ds,
  ds <> [] -> Forall dir_ok ds -> bytes (render ds) -> ~ In 0 (render ds) ->
  parse_digest_challenge (encode (render ds)) = AOk (table_of ds []).
Proof.
  intros ds Hne Hok Hb H0. unfold parse_digest_challenge.
  assert (Hrne : render ds <> []).
  { destruct ds as [|d r]; [contradiction|]. cbn [render]. unfold render1. intro K. apply (f_equal (@length Z)) in K.
    rewrite !app_length in K. cbn [length] in K. lia. }
  assert (Eb : bytes (encode (render ds))) by (now apply encode_bytes).
  rewrite (str_exact _ Eb).
  assert (Hz : (zlen (encode (render ds)) =? 0) = false).
  { apply Z.eqb_neq. destruct (render ds) as [|x l]; [contradiction|]. pose proof (encode_nonempty x l) as N.
    destruct (encode (x :: l)); [contradiction|]. rewrite zlen_cons. pose proof (zlen_nonneg l0). lia. }
  rewrite Hz.
  destruct (spec_decode_encode _ Hb Hrne) as [V D]. rewrite V, D.
  assert (Hnz : existsb (Z.eqb 0) (render ds) = false).
  { destruct (existsb (Z.eqb 0) (render ds)) eqn:E; [|reflexivity]. apply existsb_exists in E. destruct E as (x & Hx & Ex).
    apply Z.eqb_eq in Ex. subst x. contradiction. }
  rewrite Hnz. cbn [andb negb].
  rewrite <- (app_nil_l (render ds)). apply parse_render; [exact Hok| |now left].
  cbn [app]. pose proof (render_length ds). lia.
Qed.
