(* C07 proofs.  *)
Require Import LV.Common.Bytes LV.Common.HashWords LV.Gen.Gen_hash LV.Gen.Gen_sasl LV.Spec.JidSpec
               LV.Model.Base64Model LV.Model.HashModel LV.Model.HmacModel LV.Model.SaslModel.
Local Open Scope Z_scope.

(* ------------------------------------------------------------------------------------------ *)
(* the constants found in the C sources are the ones the RFCs / the buffer arithmetic need     *)
Definition asc (l : list Z) := l.
Definition gen_sasl_expected : Prop :=
  scram_buf_size = 56 /\ scram_nonce_len = 33 /\ scram_msg_len_consts = [8; 1] /\ scram_btl_incr = [1; 3] /\
  (* "p=%s,,n=%s,r=%s" and "%c,,n=%s,r=%s" with 'y' / 'n' *)
  scram_fmt_plus = [112; 61; -1; 44; 44; 110; 61; -2; 44; 114; 61; -3] /\
  scram_fmt_noplus = [-1; 44; 44; 110; 61; -2; 44; 114; 61; -3] /\
  scram_flag_secured = 121 /\ scram_flag_unsecured = 110 /\
  (* RFC 5802 5.1: ',' -> "=2C", '=' -> "=3D" *)
  scram_user_escape = [(44, [61; 50; 67]); (61, [61; 51; 68])] /\
  scram_delims = [44] /\ scram_pfx_r = [114; 61] /\ scram_pfx_s = [115; 61] /\ scram_pfx_i = [105; 61] /\
  scram_skip_si = [2; 2] /\ scram_salt_max = 124 /\ scram_strtol_base = 10 /\
  scram_iter_min = 1 /\ scram_iter_max = 2 ^ 32 - 1 /\
  scram_resp_len_consts = [3; 3; 2; 3; 4; 1] /\ scram_auth_len_const = 3 /\
  (* "c=%s,%s"  "%s,%s,%s"  ",p=" *)
  scram_fmt_response = [99; 61; -1; 44; -2] /\ scram_fmt_auth = [-1; 44; -2; 44; -3] /\
  scram_ovf_consts = [3; 1] /\ scram_proof_pfx = [44; 112; 61] /\
  (* "Client Key", INT(1) *)
  scram_client_key_label = [67; 108; 105; 101; 110; 116; 32; 75; 101; 121] /\
  scram_hi_tmp_extra = 4 /\ scram_int1 = [0; 0; 0; 1] /\
  digest_cnonce_size = 13 /\ digest_nc = [48; 48; 48; 48; 48; 48; 48; 49] /\
  digest_default_qop = [97; 117; 116; 104] /\ digest_qop_seps = [44; 32] /\ digest_qop_token = [97; 117; 116; 104] /\
  digest_uri_prefix = [120; 109; 112; 112; 47] /\ digest_qop_plain = [97; 117; 116; 104] /\
  digest_md5_pieces =
    [ (* MD5(node ":" realm ":" password) *)
      [(1, [0]); (0, [58]); (1, [1]); (0, [58]); (1, [2])];
      (* that ":" nonce ":" cnonce *)
      [(1, [3]); (0, [58]); (2, s_nonce); (0, [58]); (2, s_cnonce)];
      (* "AUTHENTICATE:" digest-uri [":" 32 zeros] *)
      [(0, [65; 85; 84; 72; 69; 78; 84; 73; 67; 65; 84; 69; 58]); (2, s_digest_uri); (10, 58 :: repeat 48 32)];
      (* HEX(H(A1)) ":" nonce ":" nc ":" cnonce ":" qop ":" HEX(H(A2)) *)
      [(1, [4]); (0, [58]); (2, s_nonce); (0, [58]); (2, s_nc); (0, [58]); (2, s_cnonce); (0, [58]); (2, s_qop);
       (0, [58]); (1, [5])] ] /\
  map fst digest_reply_fields =
    [s_username; s_realm; s_nonce; s_cnonce; s_nc; s_qop; s_digest_uri; s_response; [99; 104; 97; 114; 115; 101; 116]] /\
  map snd digest_reply_fields = [1; 1; 1; 1; 0; 0; 1; 0; 0] /\
  digest_hexdigits = [48; 49; 50; 51; 52; 53; 54; 55; 56; 57; 97; 98; 99; 100; 101; 102] /\
  component_hash_order = [0; 1] /\ component_hex_upper = false /\
  legacy_children = [s_username; [112; 97; 115; 115; 119; 111; 114; 100]; [114; 101; 115; 111; 117; 114; 99; 101]] /\
  legacy_text_src = [0; 1; 2] /\
  nonce_hex_tbl = [48; 49; 50; 51; 52; 53; 54; 55; 56; 57; 65; 66; 67; 68; 69; 70].

Lemma Gen_sasl_ok : gen_sasl_expected.
Proof. unfold gen_sasl_expected. repeat split; vm_compute; reflexivity. Qed.

(* ------------------------------------------------------------------------------------------ *)
(* generic list facts                                                                          *)
Lemma zlen_app {A} (a b : list A) : zlen (a ++ b) = zlen a + zlen b.
Proof. unfold zlen. rewrite app_length. lia. Qed.
Lemma zlen_cons {A} (x : A) l : zlen (x :: l) = zlen l + 1.
Proof. unfold zlen. cbn [length]. lia. Qed.
Lemma zlen_nil {A} : zlen (@nil A) = 0.
Proof. reflexivity. Qed.
Lemma zlen_nonneg {A} (l : list A) : 0 <= zlen l.
Proof. unfold zlen. lia. Qed.
Lemma zlen_map {A B} (f : A -> B) l : zlen (map f l) = zlen l.
Proof. unfold zlen. now rewrite map_length. Qed.
Lemma zlen_repeat {A} (x : A) n : zlen (repeat x n) = Z.of_nat n.
Proof. unfold zlen. now rewrite repeat_length. Qed.
Lemma to_nat_zlen {A} (l : list A) : Z.to_nat (zlen l) = length l.
Proof. unfold zlen. apply Nat2Z.id. Qed.

Lemma list_eqb_refl : forall a, list_eqb a a = true.
Proof. induction a as [|x a IH]; cbn [list_eqb]; [reflexivity|]. now rewrite Z.eqb_refl, IH. Qed.
Lemma list_eqb_eq : forall a b, list_eqb a b = true <-> a = b.
Proof.
  induction a as [|x a IH]; intros [|y b]; cbn [list_eqb]; split; intros H; try discriminate; try reflexivity.
  - apply andb_prop in H. destruct H as [H1 H2]. apply Z.eqb_eq in H1. apply IH in H2. congruence.
  - injection H as -> ->. now rewrite Z.eqb_refl, (proj2 (IH b) eq_refl).
Qed.
Lemma list_eqb_neq : forall a b, a <> b -> list_eqb a b = false.
Proof. intros a b H. destruct (list_eqb a b) eqn:E; [apply list_eqb_eq in E; contradiction|reflexivity]. Qed.

(* ------------------------------------------------------------------------------------------ *)
(* heap cells                                                                                  *)
Lemma cwrite_append : forall (a src : list Z) (k : nat),
  (length src <= k)%nat ->
  cwrite (map Some a ++ repeat None k) (zlen a) src =
  AOk (map Some (a ++ src) ++ repeat None (k - length src)).
Proof.
  intros a src k Hk. unfold cwrite.
  assert (Hl : zlen (map Some a ++ repeat (@None Z) k) = zlen a + Z.of_nat k).
  { rewrite zlen_app, zlen_map, zlen_repeat. reflexivity. }
  rewrite Hl.
  assert (E1 : (0 <=? zlen a) = true) by (apply Z.leb_le; apply zlen_nonneg).
  assert (E2 : (zlen a + zlen src <=? zlen a + Z.of_nat k) = true) by (apply Z.leb_le; unfold zlen; lia).
  rewrite E1, E2. cbn [andb]. f_equal.
  rewrite to_nat_zlen.
  rewrite firstn_app, map_length, Nat.sub_diag, firstn_O, app_nil_r.
  rewrite <- (map_length Some a) at 1. rewrite firstn_all.
  rewrite skipn_app, map_length.
  replace (skipn (length a + length src) (map Some a)) with (@nil (option Z))
    by (symmetry; apply skipn_all2; rewrite map_length; lia).
  replace (length a + length src - length a)%nat with (length src) by lia.
  cbn [app]. rewrite map_app, <- app_assoc. do 2 f_equal.
  clear -Hk. revert k Hk. induction src as [|x s IH]; intros k Hk; cbn [length skipn].
  - now rewrite Nat.sub_0_r.
  - destruct k as [|k]; [cbn in Hk; lia|]. cbn [repeat skipn]. cbn [length] in Hk. rewrite IH by lia. reflexivity.
Qed.

Lemma cread_all_map : forall l, cread_all (map Some l) = AOk l.
Proof. induction l as [|x l IH]; cbn [map cread_all]; [reflexivity|]. rewrite IH. reflexivity. Qed.

(* ------------------------------------------------------------------------------------------ *)
(* PLAIN (RFC 4616: message = [authzid] NUL authcid NUL passwd, here without authzid)          *)
Definition rfc4616_message (authcid passwd : list Z) : list Z := [0] ++ authcid ++ [0] ++ passwd.

Lemma plain_lemma : forall authid password,
  sasl_plain authid password = AOk (encode (rfc4616_message authid password)).
Proof.
  intros a p. unfold sasl_plain, rfc4616_message.
  set (n := (length a + (1 + length p))%nat).
  replace (Z.to_nat (2 + zlen a + zlen p)) with (S n) by (unfold zlen, n; lia).
  assert (W1 : cwrite (repeat None (S n)) 0 [0] = AOk (map Some [0] ++ repeat None n)).
  { pose proof (cwrite_append [] [0] (S n)) as W. cbn [length] in W.
    replace (S n - 1)%nat with n in W by lia. apply W. lia. }
  rewrite W1. cbn [abind].
  assert (W2 : cwrite (map Some [0] ++ repeat None n) 1 a = AOk (map Some ([0] ++ a) ++ repeat None (1 + length p))).
  { pose proof (cwrite_append [0] a n) as W. replace (n - length a)%nat with (1 + length p)%nat in W by (unfold n; lia).
    apply W. unfold n; lia. }
  rewrite W2. cbn [abind].
  assert (W3 : cwrite (map Some ([0] ++ a) ++ repeat None (1 + length p)) (1 + zlen a) [0] =
               AOk (map Some (([0] ++ a) ++ [0]) ++ repeat None (length p))).
  { pose proof (cwrite_append ([0] ++ a) [0] (1 + length p)) as W.
    replace (zlen ([0] ++ a)) with (1 + zlen a) in W by (rewrite zlen_app; reflexivity).
    cbn [length] in W. replace (1 + length p - 1)%nat with (length p) in W by lia. apply W. lia. }
  rewrite W3. cbn [abind].
  assert (W4 : cwrite (map Some (([0] ++ a) ++ [0]) ++ repeat None (length p)) (1 + zlen a + 1) p =
               AOk (map Some ((([0] ++ a) ++ [0]) ++ p) ++ repeat None 0)).
  { pose proof (cwrite_append (([0] ++ a) ++ [0]) p (length p)) as W.
    replace (zlen (([0] ++ a) ++ [0])) with (1 + zlen a + 1) in W by (rewrite !zlen_app; reflexivity).
    rewrite Nat.sub_diag in W. apply W. lia. }
  rewrite W4. cbn [abind repeat]. rewrite app_nil_r, cread_all_map. cbn [abind].
  do 2 f_equal. rewrite <- !app_assoc. reflexivity.
Qed.

(* ------------------------------------------------------------------------------------------ *)
(* component handshake (XEP-0114: lower-case hex of SHA1(stream id ++ secret))                 *)
Require Import LV.Spec.HashSpec LV.Proofs.HashProofs.

Lemma component_lemma : forall sid secret,
  component_handshake (Some sid) secret = AOk (hex_of_bytes false (sha1_spec (sid ++ secret))) /\
  component_handshake None secret = ANull.
Proof.
  intros sid secret. split; [|reflexivity].
  unfold component_handshake.
  change (map (fun k => if k =? 0 then sid else secret) component_hash_order) with [sid; secret].
  rewrite sha1_any_split_lemma. cbn [of_h abind concat]. rewrite app_nil_r. reflexivity.
Qed.

(* ------------------------------------------------------------------------------------------ *)
(* legacy jabber:iq:auth (XEP-0078): username = localpart, password, resource = resourcepart  *)
Definition xep0078_fields (node password resource : list Z) : list (list Z * list Z) :=
  [([117; 115; 101; 114; 110; 97; 109; 101], node);        (* "username" *)
   ([112; 97; 115; 115; 119; 111; 114; 100], password);    (* "password" *)
   ([114; 101; 115; 111; 117; 114; 99; 101], resource)].   (* "resource" *)

Lemma legacy_lemma : forall jid password,
  legacy_payload jid password =
    match spec_node jid, spec_resource jid with
    | Some node, Some resource => AOk (xep0078_fields node password resource)
    | _, _ => ANull
    end.
Proof.
  intros jid pw. unfold legacy_payload.
  change legacy_children with [s_username; [112; 97; 115; 115; 119; 111; 114; 100]; [114; 101; 115; 111; 117; 114; 99; 101]].
  change legacy_text_src with [0; 1; 2].
  cbn [legacy_children_of legacy_src Z.eqb]. 
  destruct (spec_node jid) as [n|]; [|reflexivity].
  destruct (spec_resource jid) as [r|]; reflexivity.
Qed.

(* ------------------------------------------------------------------------------------------ *)
(* EXTERNAL (XEP-0178)                                                                         *)
Lemma external_lemma : forall xmppaddrs jid,
  (xmppaddrs = [] -> external_payload xmppaddrs jid = [61]) /\
  (xmppaddrs = [jid] -> external_payload xmppaddrs jid = [61]) /\
  (xmppaddrs <> [] -> xmppaddrs <> [jid] -> external_payload xmppaddrs jid = encode jid).
Proof.
  intros xs jid. repeat split.
  - intros ->. reflexivity.
  - intros ->. unfold external_payload. change (zlen [jid] =? 1) with true. now rewrite list_eqb_refl.
  - intros H1 H2. unfold external_payload. destruct xs as [|a [|b r]]; [contradiction| |].
    + change (zlen [a] =? 1) with true. cbn [andb]. rewrite list_eqb_neq; [reflexivity|]. intros ->. now apply H2.
    + replace (zlen (a :: b :: r) =? 1) with false; [reflexivity|].
      symmetry. apply Z.eqb_neq. rewrite !zlen_cons. pose proof (zlen_nonneg r). lia.
Qed.

(* ------------------------------------------------------------------------------------------ *)
(* linear use of the RNG stream by successive SCRAM attempts                                   *)
Definition is_some {A} (o : option A) : bool := match o with Some _ => true | None => false end.
(* the attempt gets as far as xmpp_rand_nonce *)
Definition consumes (a : attempt) : bool :=
  (if at_plus a then at_secured a && is_some (at_cbtype a) else true) && is_some (spec_node (at_jid a)).
Definition attempt_on (a : attempt) (rng : list Z) : ares scram_init * list Z :=
  make_scram_init_msg (at_plus a) (at_secured a) (at_cbtype a) (at_cbdata a) (at_jid a) rng.
Definition NONCE_BYTES : nat := 16.

Lemma attempt_rng : forall a rng,
  (consumes a = true ->
     snd (attempt_on a rng) = skipn NONCE_BYTES rng /\
     fst (attempt_on a rng) = fst (attempt_on a (firstn NONCE_BYTES rng))) /\
  (consumes a = false -> attempt_on a rng = (ANull, rng)).
Proof.
  intros [plus sec cbt cbd jid] rng. unfold consumes, attempt_on, make_scram_init_msg.
  cbn [at_plus at_secured at_cbtype at_cbdata at_jid].
  change (Z.to_nat (scram_nonce_len / 2)) with NONCE_BYTES.
  unfold rng_take. change (Z.to_nat (scram_nonce_len / 2)) with NONCE_BYTES.
  rewrite firstn_firstn, Nat.min_id.
  destruct plus; [destruct sec; cbn [negb andb]; [destruct cbt as [t|]; cbn [is_some andb]|]|]; cbn [is_some andb];
    try (split; [discriminate|reflexivity]);
    (destruct (spec_node jid) as [n|]; cbn [is_some andb]; [|split; [discriminate|reflexivity]]);
    (split; [intros _|discriminate]);
    destruct (scram_buf_size <? scram_nonce_len); cbn [fst snd]; split; reflexivity.
Qed.

Fixpoint offsets (atts : list attempt) (off : nat) : list nat :=
  match atts with
  | [] => []
  | a :: r => off :: offsets r (if consumes a then off + NONCE_BYTES else off)%nat
  end.

Lemma skipn_skipn' {A} : forall (b a : nat) (l : list A), skipn a (skipn b l) = skipn (b + a) l.
Proof.
  induction b as [|b IH]; intros a l; [reflexivity|]. destruct l as [|x l]; [now rewrite !skipn_nil|]. cbn [skipn Nat.add]. apply IH.
Qed.

Lemma run_attempts_windows : forall atts rng off,
  run_attempts atts (skipn off rng) =
  map (fun ao => fst (attempt_on (fst ao) (firstn NONCE_BYTES (skipn (snd ao) rng)))) (combine atts (offsets atts off)).
Proof.
  induction atts as [|a r IH]; intros rng off; cbn [run_attempts offsets combine map]; [reflexivity|].
  fold (attempt_on a (skipn off rng)).
  destruct (attempt_rng a (skipn off rng)) as [Hc Hn].
  destruct (consumes a) eqn:Ec.
  - destruct (Hc eq_refl) as [Hs Hf]. destruct (attempt_on a (skipn off rng)) as [res rng'] eqn:E.
    cbn [fst snd] in *. subst rng'. rewrite skipn_skipn', IH. f_equal. cbn [fst snd]. exact Hf.
  - rewrite (Hn eq_refl). rewrite IH. f_equal. cbn [fst snd].
    destruct (attempt_rng a (firstn NONCE_BYTES (skipn off rng))) as [_ Hn2]. rewrite (Hn2 Ec). reflexivity.
Qed.

Lemma offsets_mono : forall atts off k o, nth_error (offsets atts off) k = Some o -> (off <= o)%nat.
Proof.
  induction atts as [|a r IH]; intros off [|k] o H; cbn [offsets nth_error] in H; try discriminate.
  - injection H as <-. lia.
  - apply IH in H. destruct (consumes a); lia.
Qed.

Lemma offsets_disjoint : forall atts off i j oi oj ai,
  (i < j)%nat -> nth_error atts i = Some ai -> consumes ai = true ->
  nth_error (offsets atts off) i = Some oi -> nth_error (offsets atts off) j = Some oj ->
  (oi + NONCE_BYTES <= oj)%nat.
Proof.
  induction atts as [|a r IH]; intros off i j oi oj ai Hij Hi Hc Hoi Hoj; [destruct i; discriminate|].
  destruct j as [|j]; [lia|]. cbn [offsets nth_error] in Hoj.
  destruct i as [|i].
  - cbn [nth_error offsets] in Hi, Hoi. injection Hi as ->. injection Hoi as <-. rewrite Hc in Hoj.
    apply offsets_mono in Hoj. exact Hoj.
  - cbn [nth_error offsets] in Hi, Hoi.
    apply (IH (if consumes a then (off + NONCE_BYTES)%nat else off) i j oi oj ai); [lia|exact Hi|exact Hc|exact Hoi|exact Hoj].
Qed.

Lemma nonce_linear_lemma : forall atts rng,
  run_attempts atts rng =
    map (fun ao => fst (attempt_on (fst ao) (firstn NONCE_BYTES (skipn (snd ao) rng)))) (combine atts (offsets atts 0)) /\
  (forall i j oi oj ai, (i < j)%nat -> nth_error atts i = Some ai -> consumes ai = true ->
     nth_error (offsets atts 0) i = Some oi -> nth_error (offsets atts 0) j = Some oj ->
     (oi + NONCE_BYTES <= oj)%nat).
Proof.
  intros atts rng. split.
  - exact (run_attempts_windows atts rng 0).
  - intros. eapply offsets_disjoint; eauto.
Qed.
