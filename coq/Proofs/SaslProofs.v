(* C07 proofs.  *)
Require Import LV.Common.Bytes LV.Common.HashWords LV.Gen.Gen_hash LV.Gen.Gen_sasl LV.Spec.JidSpec
               LV.Model.Base64Model LV.Model.HashModel LV.Model.HmacModel LV.Model.SaslModel.
Local Open Scope Z_scope.

(* ------------------------------------------------------------------------------------------ *)
(* the constants found in the C sources are the ones the RFCs / the buffer arithmetic need     *)
Definition asc (l : list Z) := l.
Definition gen_sasl_expected : Prop :=
  scram_buf_size = 56 /\ scram_nonce_len = 33 /\ scram_msg_len_consts = [8; 1] /\ scram_btl_incr = [1; 3] /\
  (* "p=%s,,n=%s,r=%s" and "%c,,n=%s,r=%s" with 'y' / 'n' *)
  scram_fmt_plus = [112; 61; -1; 44; 44; 110; 61; -2; 44; 114; 61; -3] /\
  scram_fmt_noplus = [-1; 44; 44; 110; 61; -2; 44; 114; 61; -3] /\
  scram_flag_secured = 121 /\ scram_flag_unsecured = 110 /\
  (* RFC 5802 5.1: ',' -> "=2C", '=' -> "=3D" *)
  scram_user_escape = [(44, [61; 50; 67]); (61, [61; 51; 68])] /\
  scram_delims = [44] /\ scram_pfx_r = [114; 61] /\ scram_pfx_s = [115; 61] /\ scram_pfx_i = [105; 61] /\
  scram_skip_si = [2; 2] /\ scram_salt_max = 124 /\ scram_strtol_base = 10 /\
  scram_iter_min = 1 /\ scram_iter_max = 2 ^ 32 - 1 /\
  scram_resp_len_consts = [3; 3; 2; 3; 4; 1] /\ scram_auth_len_const = 3 /\
  (* "c=%s,%s"  "%s,%s,%s"  ",p=" *)
  scram_fmt_response = [99; 61; -1; 44; -2] /\ scram_fmt_auth = [-1; 44; -2; 44; -3] /\
  scram_ovf_consts = [3; 1] /\ scram_proof_pfx = [44; 112; 61] /\
  (* "Client Key", INT(1) *)
  scram_client_key_label = [67; 108; 105; 101; 110; 116; 32; 75; 101; 121] /\
  scram_hi_tmp_extra = 4 /\ scram_int1 = [0; 0; 0; 1] /\
  digest_cnonce_size = 13 /\ digest_nc = [48; 48; 48; 48; 48; 48; 48; 49] /\
  digest_default_qop = [97; 117; 116; 104] /\ digest_qop_seps = [44; 32] /\ digest_qop_token = [97; 117; 116; 104] /\
  digest_uri_prefix = [120; 109; 112; 112; 47] /\ digest_qop_plain = [97; 117; 116; 104] /\
  digest_md5_pieces =
    [ (* MD5(node ":" realm ":" password) *)
      [(1, [0]); (0, [58]); (1, [1]); (0, [58]); (1, [2])];
      (* that ":" nonce ":" cnonce *)
      [(1, [3]); (0, [58]); (2, s_nonce); (0, [58]); (2, s_cnonce)];
      (* "AUTHENTICATE:" digest-uri [":" 32 zeros] *)
      [(0, [65; 85; 84; 72; 69; 78; 84; 73; 67; 65; 84; 69; 58]); (2, s_digest_uri); (10, 58 :: repeat 48 32)];
      (* HEX(H(A1)) ":" nonce ":" nc ":" cnonce ":" qop ":" HEX(H(A2)) *)
      [(1, [4]); (0, [58]); (2, s_nonce); (0, [58]); (2, s_nc); (0, [58]); (2, s_cnonce); (0, [58]); (2, s_qop);
       (0, [58]); (1, [5])] ] /\
  map fst digest_reply_fields =
    [s_username; s_realm; s_nonce; s_cnonce; s_nc; s_qop; s_digest_uri; s_response; [99; 104; 97; 114; 115; 101; 116]] /\
  map snd digest_reply_fields = [1; 1; 1; 1; 0; 0; 1; 0; 0] /\
  digest_hexdigits = [48; 49; 50; 51; 52; 53; 54; 55; 56; 57; 97; 98; 99; 100; 101; 102] /\
  component_hash_order = [0; 1] /\ component_hex_upper = false /\
  legacy_children = [s_username; [112; 97; 115; 115; 119; 111; 114; 100]; [114; 101; 115; 111; 117; 114; 99; 101]] /\
  legacy_text_src = [0; 1; 2] /\
  nonce_hex_tbl = [48; 49; 50; 51; 52; 53; 54; 55; 56; 57; 65; 66; 67; 68; 69; 70].

Lemma Gen_sasl_ok : gen_sasl_expected.
Proof. unfold gen_sasl_expected. repeat split; vm_compute; reflexivity. Qed.
