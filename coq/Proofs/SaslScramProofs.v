(* C07 proofs, SCRAM part: the model's messages pass the RFC 5802 server of Spec/Rfc5802Spec.v. *)
Require Import LV.Common.Bytes LV.Common.HashWords LV.Gen.Gen_hash LV.Gen.Gen_sasl LV.Spec.JidSpec
               LV.Spec.Base64Spec LV.Spec.Rfc5802Spec
               LV.Model.Base64Model LV.Model.HashModel LV.Model.HmacModel LV.Model.SaslModel
               LV.Proofs.Base64Proofs LV.Proofs.SaslProofs.
Local Open Scope Z_scope.

(* ------------------------------------------------------------------------------------------ *)
(* comma-separated attributes                                                                  *)
Definition cfree (s : list Z) : Prop := ~ In 44 s.

Lemma cfree_app a b : cfree a -> cfree b -> cfree (a ++ b).
Proof. unfold cfree. intros Ha Hb H. apply in_app_or in H. tauto. Qed.
Lemma cfree_cons c a : c <> 44 -> cfree a -> cfree (c :: a).
Proof. unfold cfree. intros Hc Ha [H|H]; [congruence|tauto]. Qed.
Lemma cfree_nil : cfree [].
Proof. intros []. Qed.

Lemma split_commas_cfree : forall a, cfree a -> split_commas a = [a].
Proof.
  induction a as [|c a IH]; intros H; cbn [split_commas]; [reflexivity|].
  assert (Hc : c <> 44) by (intros ->; apply H; now left).
  apply Z.eqb_neq in Hc. rewrite Hc, IH; [reflexivity|]. intros K. apply H. now right.
Qed.
Lemma split_commas_app : forall a r, cfree a -> split_commas (a ++ 44 :: r) = a :: split_commas r.
Proof.
  induction a as [|c a IH]; intros r H; cbn [app split_commas]; [reflexivity|].
  assert (Hc : c <> 44) by (intros ->; apply H; now left).
  apply Z.eqb_neq in Hc. rewrite Hc, IH; [reflexivity|]. intros K. apply H. now right.
Qed.
Lemma fields_split : forall s, fields [44] s = split_commas s.
Proof.
  induction s as [|c s IH]; cbn [fields split_commas]; [reflexivity|].
  unfold memb. cbn [existsb]. rewrite orb_false_r, IH. reflexivity.
Qed.

Lemma beq_list_eqb : forall a b, beq a b = list_eqb a b.
Proof. reflexivity. Qed.
Lemma beq_refl a : beq a a = true.
Proof. rewrite beq_list_eqb. apply list_eqb_refl. Qed.
Lemma has_prefix_app : forall p s, has_prefix p (p ++ s) = true.
Proof. induction p as [|x p IH]; intros s; cbn [has_prefix app]; [reflexivity|]. now rewrite Z.eqb_refl, IH. Qed.

(* ------------------------------------------------------------------------------------------ *)
(* XOR                                                                                         *)
Lemma map2_length {A B D} (f : A -> B -> D) : forall l m, length l = length m -> length (map2 f l m) = length l.
Proof. induction l as [|a l IH]; intros [|b m] H; cbn [map2 length] in *; try lia. now rewrite IH by lia. Qed.
Lemma XOR_cancel : forall k s, length k = length s -> XOR (XOR k s) s = k.
Proof.
  unfold XOR. induction k as [|a k IH]; intros [|b s] H; cbn [map2 length] in *; try lia; [reflexivity|].
  rewrite IH by lia. f_equal. rewrite Z.lxor_assoc, Z.lxor_nilpotent, Z.lxor_0_r. reflexivity.
Qed.
Lemma XOR_length k s : length k = length s -> length (XOR k s) = length k.
Proof. apply map2_length. Qed.
Lemma lxor_byte : forall a b, is_byte a -> is_byte b -> is_byte (Z.lxor a b).
Proof.
  assert (S : forallb (fun a => forallb (fun b => is_byteb (Z.lxor a b)) (map Z.of_nat (seq 0 256))) (map Z.of_nat (seq 0 256)) = true)
    by (vm_compute; reflexivity).
  assert (R : forall v, is_byte v -> In v (map Z.of_nat (seq 0 256))).
  { intros v Hv. unfold is_byte in Hv. apply in_map_iff. exists (Z.to_nat v). split; [lia|]. apply in_seq. lia. }
  intros a b Ha Hb. rewrite forallb_forall in S. specialize (S a (R a Ha)). rewrite forallb_forall in S.
  specialize (S b (R b Hb)). unfold is_byteb in S. apply andb_prop in S. destruct S as [S1 S2].
  apply Z.leb_le in S1. apply Z.ltb_lt in S2. split; assumption.
Qed.
Lemma XOR_bytes : forall k s, bytes k -> bytes s -> bytes (XOR k s).
Proof.
  unfold XOR, bytes. induction k as [|a k IH]; intros [|b s] Hk Hs; cbn [map2]; try constructor.
  - inversion Hk; inversion Hs; subst. now apply lxor_byte.
  - inversion Hk; inversion Hs; subst. now apply IH.
Qed.

(* ------------------------------------------------------------------------------------------ *)
(* decimal digit strings and strtol                                                            *)
Lemma digits_val_fold : forall s a, all_digits s = true ->
  digits_val 10 s a = fold_left (fun a c => 10 * a + (c - 48)) s a.
Proof.
  induction s as [|c s IH]; intros a H; cbn [digits_val fold_left]; [reflexivity|].
  cbn [all_digits forallb] in H. apply andb_prop in H. destruct H as [Hc Hs].
  apply andb_prop in Hc. destruct Hc as [H1 H2].
  rewrite H1. replace (c <? 48 + 10) with true by (symmetry; apply Z.ltb_lt; apply Z.leb_le in H2; lia).
  cbn [andb]. rewrite IH by exact Hs. f_equal. lia.
Qed.
Lemma fold_dec_nonneg : forall s a, all_digits s = true -> 0 <= a ->
  a <= fold_left (fun a c => 10 * a + (c - 48)) s a.
Proof.
  induction s as [|c s IH]; intros a H Ha; cbn [fold_left]; [lia|].
  cbn [all_digits forallb] in H. apply andb_prop in H. destruct H as [Hc Hs].
  apply andb_prop in Hc. destruct Hc as [H1 H2]. apply Z.leb_le in H1.
  specialize (IH (10 * a + (c - 48)) Hs). lia.
Qed.
Lemma strtol_digits : forall s, all_digits s = true -> s <> [] ->
  strtol 10 s = Z.min (dec_value s) LONG_MAX.
Proof.
  intros [|c s] H Hne; [contradiction|]. unfold strtol.
  pose proof H as H'. cbn [all_digits forallb] in H'. apply andb_prop in H'. destruct H' as [Hc _].
  apply andb_prop in Hc. destruct Hc as [H1 H2]. apply Z.leb_le in H1. apply Z.leb_le in H2.
  assert (Hs : is_space c = false).
  { unfold is_space. apply orb_false_iff. split; [apply Z.eqb_neq; lia|].
    apply andb_false_iff. right. apply Z.leb_gt. lia. }
  cbn [skip_spaces]. rewrite Hs.
  assert (E : (match c :: s with 45 :: r => (true, r) | 43 :: r => (false, r) | _ => (false, c :: s) end) = (false, c :: s)).
  { destruct c as [|p|p]; try reflexivity.
    do 6 (destruct p as [p|p|]; try reflexivity); lia. }
  rewrite E. rewrite digits_val_fold by exact H. reflexivity.
Qed.

(* ------------------------------------------------------------------------------------------ *)
(* base64 facts needed here (on top of C18's roundtrip / decode_exact / encode_canonical)      *)
Lemma chr_not_comma : forall v, 0 <= v < 64 -> chr v <> 44.
Proof.
  assert (S : forallb (fun v => negb (chr v =? 44)) (map Z.of_nat (seq 0 64)) = true) by (vm_compute; reflexivity).
  intros v Hv. rewrite forallb_forall in S.
  assert (I : In v (map Z.of_nat (seq 0 64))).
  { apply in_map_iff. exists (Z.to_nat v). split; [lia|]. apply in_seq. lia. }
  specialize (S v I). apply negb_true_iff, Z.eqb_neq in S. exact S.
Qed.
Definition b64char (c : Z) : Prop := is_byte c /\ c <> 44 /\ c <> 0.
Lemma chr_b64char : forall v, 0 <= v < 64 -> b64char (chr v).
Proof.
  intros v Hv. destruct (chr_facts v Hv) as (_ & Hi & Hb & _). repeat split; try apply Hb.
  - now apply chr_not_comma.
  - intros E. rewrite E in Hi.
    assert (S : inv 0 = 65) by (vm_compute; reflexivity). rewrite S in Hi. lia.
Qed.
Lemma PAD_b64char : b64char PAD.
Proof. rewrite PAD_61. unfold b64char, is_byte. lia. Qed.

Lemma encode_chars : forall bs, bytes bs -> Forall b64char (encode bs).
Proof.
  intro bs. pattern bs. apply list_ind3; clear bs.
  - intros _. constructor.
  - intros a Ha. apply bytes_cons in Ha. destruct Ha as [Ha _]. unfold is_byte in Ha. cbn [encode].
    repeat constructor; try apply PAD_b64char; apply chr_b64char; lia.
  - intros a b Hab. apply bytes_cons in Hab. destruct Hab as [Ha Hb]. apply bytes_cons in Hb. destruct Hb as [Hb _].
    unfold is_byte in *. cbn [encode]. repeat constructor; try apply PAD_b64char; apply chr_b64char; lia.
  - intros a b c l IH H. apply bytes_cons in H. destruct H as [Ha H]. apply bytes_cons in H. destruct H as [Hb H].
    apply bytes_cons in H. destruct H as [Hc H]. unfold is_byte in *. cbn [encode].
    repeat (constructor; [apply chr_b64char; lia|]). now apply IH.
Qed.
Lemma encode_cfree bs : bytes bs -> cfree (encode bs).
Proof. intros H K. pose proof (encode_chars bs H) as F. rewrite Forall_forall in F. destruct (F 44 K) as (_ & N & _). congruence. Qed.
Lemma encode_bytes bs : bytes bs -> bytes (encode bs).
Proof. intros H. eapply Forall_impl; [|apply (encode_chars bs H)]. intros c Hc. apply Hc. Qed.

Lemma encode_length : forall bs, zlen (encode bs) = (zlen bs + 2) / 3 * 4.
Proof.
  intro bs. pattern bs. apply list_ind3; clear bs; try reflexivity.
  intros a b c l IH. cbn [encode]. rewrite !zlen_cons, IH.
  replace (zlen l + 1 + 1 + 1 + 2) with (zlen l + 2 + 1 * 3) by lia. rewrite Z.div_add by lia. lia.
Qed.

(* the RFC 4648 reference decodes what the library encodes *)
Lemma spec_decode_encode : forall bs, bytes bs -> bs <> [] ->
  valid_b64 (encode bs) = true /\ spec_decode (encode bs) = bs.
Proof.
  intros bs Hb Hne. pose proof (roundtrip bs Hb Hne) as R.
  destruct (decode_exact (encode bs) (encode_bytes bs Hb)) as [Hv Hr].
  destruct (valid_b64 (encode bs)) eqn:V.
  - split; [reflexivity|]. destruct (Hv eq_refl) as (buf & _ & Hval).
    unfold decode_bin_value in Hval. unfold decode_bin in R. rewrite R in Hval.
    rewrite to_nat_zlen in Hval. rewrite cells_prefix_map in Hval. congruence.
  - rewrite (Hr eq_refl) in R. discriminate.
Qed.

(* ------------------------------------------------------------------------------------------ *)
(* key derivation: SCRAM_Hi / ClientKey / ClientSignature / ClientProof over an algorithm whose
   hash and HMAC routines compute the functions H and HM (instantiated below from C17)          *)
Section Keys.
  Context {C : Type} (alg : hash_alg C).
  Variable H : list Z -> list Z.
  Variable HM : list Z -> list Z -> list Z.
  Variable lim : Z.
  Hypothesis hash_ok : forall d, zlen d <= lim -> ha_hash alg d = HOk (H d).
  Hypothesis hmac_ok : forall k t, zlen k + zlen t <= lim -> crypto_HMAC alg k t = HOk (HM k t).
  Hypothesis H_len : forall d, zlen (H d) = ha_digest_size alg.
  Hypothesis HM_len : forall k t, zlen (HM k t) = ha_digest_size alg.
  Hypothesis ds_range : 0 < ha_digest_size alg <= 64.
  Hypothesis lim_big : 256 <= lim.

  Notation dsz := (ha_digest_size alg).

  Lemma HMAC_ok k t : zlen k + zlen t <= lim -> HMAC alg k t = AOk (HM k t).
  Proof. intros Hs. unfold HMAC. now rewrite hmac_ok. Qed.

  Lemma firstn_ds (l : list Z) : zlen l = dsz -> firstn (Z.to_nat (ds alg)) l = l.
  Proof. intros E. unfold ds. rewrite <- E, to_nat_zlen. apply firstn_all. Qed.

  Lemma U_len text salt k : zlen (U HM text salt k) = dsz.
  Proof. destruct k; cbn [U]; apply HM_len. Qed.
  Lemma Hi_upto_len text salt : forall k, zlen (Hi_upto HM text salt k) = dsz.
  Proof.
    induction k as [|k IH]; cbn [Hi_upto]; [apply U_len|].
    unfold zlen in *. rewrite XOR_length; [exact IH|].
    pose proof (U_len text salt (S k)) as E. unfold zlen in E. lia.
  Qed.

  Lemma hi_loop_spec : forall n k text salt,
    zlen text + dsz <= lim ->
    hi_loop alg n text (U HM text salt k) (Hi_upto HM text salt k) = AOk (Hi_upto HM text salt (k + n)).
  Proof.
    induction n as [|n IH]; intros k text salt Hs; cbn [hi_loop].
    - now rewrite Nat.add_0_r.
    - rewrite firstn_ds by apply U_len. rewrite HMAC_ok by (rewrite U_len; lia). cbn [abind].
      change (HM text (U HM text salt k)) with (U HM text salt (S k)).
      change (xor_bytes (Hi_upto HM text salt k) (U HM text salt (S k))) with (Hi_upto HM text salt (S k)).
      rewrite IH by exact Hs. f_equal. f_equal. lia.
  Qed.

  Lemma SCRAM_Hi_spec : forall text salt i,
    zlen salt <= 124 -> 1 <= i -> zlen text + 256 <= lim ->
    SCRAM_Hi alg text salt i = AOk (Hi HM text salt i).
  Proof.
    intros text salt i Hsalt Hi Hs. unfold SCRAM_Hi.
    change (scram_salt_max + scram_hi_tmp_extra - zlen scram_int1) with 124.
    change (scram_salt_max + scram_hi_tmp_extra) with 128.
    replace (124 <? zlen salt) with false by (symmetry; apply Z.ltb_ge; lia).
    replace (i =? 0) with false by (symmetry; apply Z.eqb_neq; lia).
    rewrite HMAC_ok by (rewrite zlen_app; change (zlen scram_int1) with 4; lia). cbn [abind].
    replace (128 <? ds alg) with false by (symmetry; apply Z.ltb_ge; unfold ds; lia).
    change scram_int1 with [0; 0; 0; 1].
    change (HM text (salt ++ [0; 0; 0; 1])) with (U HM text salt 0).
    change (U HM text salt 0) with (Hi_upto HM text salt 0) at 2.
    rewrite hi_loop_spec by lia. reflexivity.
  Qed.

  Lemma ClientKey_spec : forall password salt i,
    zlen salt <= 124 -> 1 <= i -> zlen password + 256 <= lim ->
    SCRAM_ClientKey alg password salt i = AOk (HM (Hi HM password salt i) client_key_label).
  Proof.
    intros pw salt i Hsalt Hi Hs. unfold SCRAM_ClientKey. rewrite SCRAM_Hi_spec by assumption. cbn [abind].
    assert (L : zlen (Rfc5802Spec.Hi HM pw salt i) = dsz) by (unfold Rfc5802Spec.Hi; apply Hi_upto_len).
    rewrite firstn_ds by exact L. rewrite HMAC_ok; [reflexivity|].
    rewrite L. change (zlen scram_client_key_label) with 10. lia.
  Qed.

  Lemma ClientSignature_spec : forall key auth,
    zlen key = dsz -> zlen auth + 64 <= lim ->
    SCRAM_ClientSignature alg key auth = AOk (HM (H key) auth).
  Proof.
    intros key auth Hk Hs. unfold SCRAM_ClientSignature. rewrite firstn_ds by exact Hk.
    rewrite hash_ok by lia. cbn [of_h abind]. rewrite firstn_ds by apply H_len.
    rewrite HMAC_ok; [reflexivity|]. rewrite H_len. lia.
  Qed.

  Lemma ClientProof_spec : forall key sign, zlen key = dsz -> zlen sign = dsz ->
    SCRAM_ClientProof alg key sign = XOR key sign.
  Proof. intros key sign Hk Hs. unfold SCRAM_ClientProof. now rewrite !firstn_ds. Qed.
End Keys.

Ltac zl := repeat (progress (rewrite ?zlen_app, ?zlen_cons, ?zlen_nil in * )).

(* ------------------------------------------------------------------------------------------ *)
(* sasl_scram on a server-first-message of the RFC's form                                      *)
Lemma digits_cfree : forall s, all_digits s = true -> cfree s.
Proof.
  intros s Hd K. unfold all_digits in Hd. rewrite forallb_forall in Hd. specialize (Hd 44 K).
  apply andb_prop in Hd. destruct Hd as [Hd _]. apply Z.leb_le in Hd. lia.
Qed.


Section Exchange.
  Context {C : Type} (alg : hash_alg C).
  Variable H : list Z -> list Z.
  Variable HM : list Z -> list Z -> list Z.
  Variable lim : Z.
  Hypothesis hash_ok : forall d, zlen d <= lim -> ha_hash alg d = HOk (H d).
  Hypothesis hmac_ok : forall k t, zlen k + zlen t <= lim -> crypto_HMAC alg k t = HOk (HM k t).
  Hypothesis H_len : forall d, zlen (H d) = ha_digest_size alg.
  Hypothesis HM_len : forall k t, zlen (HM k t) = ha_digest_size alg.
  Hypothesis HM_bytes : forall k t, bytes (HM k t).
  Hypothesis ds_range : 0 < ha_digest_size alg <= 64.
  Hypothesis lim_big : 256 <= lim.
  Notation dsz := (ha_digest_size alg).

  Definition r_attr (nonce : list Z) : list Z := 114 :: 61 :: nonce.
  Definition s_attr (salt : list Z) : list Z := 115 :: 61 :: encode salt.
  Definition i_attr (idigits : list Z) : list Z := 105 :: 61 :: idigits.
  Definition server_first (nonce salt idigits : list Z) : list Z :=
    r_attr nonce ++ 44 :: s_attr salt ++ 44 :: i_attr idigits.
  (* client-final-message-without-proof *)
  Definition cfwp (cb nonce : list Z) : list Z := [99; 61] ++ cb ++ [44] ++ r_attr nonce.
  Definition the_proof (password salt : list Z) (v : Z) (auth : list Z) : list Z :=
    let ck := HM (Hi HM password salt v) client_key_label in
    XOR ck (HM (H ck) auth).

  Lemma scram_tokens : forall nonce salt idigits,
    cfree nonce -> bytes salt -> all_digits idigits = true ->
    fold_left (pick) (tokens scram_delims (server_first nonce salt idigits)) (None, None, None) =
    (Some (r_attr nonce), Some (encode salt), Some idigits).
  Proof.
    intros nonce salt idigits Hn Hs Hd. change scram_delims with [44]. unfold tokens, server_first.
    rewrite fields_split.
    rewrite split_commas_app by (unfold r_attr; apply cfree_cons; [lia|apply cfree_cons; [lia|exact Hn]]).
    rewrite split_commas_app by (unfold s_attr; apply cfree_cons; [lia|apply cfree_cons; [lia|now apply encode_cfree]]).
    rewrite split_commas_cfree by (unfold i_attr; apply cfree_cons; [lia|apply cfree_cons; [lia|now apply digits_cfree]]).
    reflexivity.
  Qed.

  Lemma sasl_scram_wf : forall cb nonce salt idigits fb password,
    cfree nonce -> bytes salt -> salt <> [] -> zlen salt <= 124 ->
    all_digits idigits = true -> idigits <> [] -> 1 <= dec_value idigits ->
    zlen password + zlen cb + 2 * zlen nonce + zlen fb + zlen idigits + 1024 <= lim ->
    let challenge := server_first nonce salt idigits in
    let v := dec_value idigits in
    sasl_scram alg cb challenge fb password =
      if 2 ^ 32 <=? v then ANull else
      let auth := fb ++ [44] ++ challenge ++ [44] ++ cfwp cb nonce in
      AOk (encode (cfwp cb nonce ++ [44; 112; 61] ++ encode (the_proof password salt v auth))).
  Proof.
    intros cb nonce salt idigits fb pw Hn Hsb Hsne Hsl Hd Hdne Hv Hsize challenge v.
    pose proof (zlen_nonneg pw) as N1. pose proof (zlen_nonneg cb) as N2. pose proof (zlen_nonneg nonce) as N3.
    pose proof (zlen_nonneg fb) as N4. pose proof (zlen_nonneg idigits) as N5. pose proof (zlen_nonneg salt) as N6.
    unfold sasl_scram. subst challenge. rewrite scram_tokens by assumption.
    rewrite roundtrip by assumption. rewrite to_nat_zlen, cells_prefix_map.
    change scram_salt_max with 124. replace (124 <? zlen salt) with false by (symmetry; apply Z.ltb_ge; lia).
    change scram_strtol_base with 10. rewrite strtol_digits by assumption. fold v.
    change scram_iter_min with 1. change scram_iter_max with (2 ^ 32 - 1).
    change LONG_MAX with (2 ^ 63 - 1).
    destruct (2 ^ 32 <=? v) eqn:Ebig.
    - apply Z.leb_le in Ebig.
      replace (Z.min v (2 ^ 63 - 1) <? 1) with false by (symmetry; apply Z.ltb_ge; lia).
      replace (2 ^ 32 - 1 <? Z.min v (2 ^ 63 - 1)) with true by (symmetry; apply Z.ltb_lt; lia).
      reflexivity.
    - apply Z.leb_gt in Ebig. replace (Z.min v (2 ^ 63 - 1)) with v by lia.
      replace (v <? 1) with false by (symmetry; apply Z.ltb_ge; lia).
      replace (2 ^ 32 - 1 <? v) with false by (symmetry; apply Z.ltb_ge; lia).
      cbn [negb andb Z.eqb]. change (negb (2 ^ 32 - 1 =? 0)) with true. cbn [andb].
      replace (v mod 2 ^ 32) with v by (symmetry; apply Z.mod_small; lia).
      change (nthz scram_resp_len_consts 0) with 3. change (nthz scram_resp_len_consts 1) with 3.
      change (nthz scram_resp_len_consts 2) with 2. change (nthz scram_resp_len_consts 3) with 3.
      change (nthz scram_resp_len_consts 4) with 4. change (nthz scram_resp_len_consts 5) with 1.
      change scram_auth_len_const with 3.
      change (nthz scram_ovf_consts 0) with 3. change (nthz scram_ovf_consts 1) with 1.
      unfold snprintf_checked.
      assert (E1 : fmt_expand scram_fmt_response [cb; r_attr nonce] = cfwp cb nonce).
      { unfold cfwp. transitivity ([99] ++ [61] ++ cb ++ [44] ++ r_attr nonce ++ []); [reflexivity|].
        now rewrite app_nil_r. }
      rewrite E1.
      assert (L1 : zlen (cfwp cb nonce) = 3 + zlen cb + zlen (r_attr nonce)).
      { unfold cfwp. zl. lia. }
      set (rl := 3 + zlen cb + zlen (r_attr nonce) + 3 + (ds alg + 2) / 3 * 4 + 1).
      assert (Hds : 0 <= (ds alg + 2) / 3 * 4) by (unfold ds; apply Z.mul_nonneg_nonneg; [apply Z.div_pos; lia|lia]).
      replace (zlen (cfwp cb nonce) <? rl) with true by (symmetry; apply Z.ltb_lt; unfold rl; lia).
      cbn [abind].
      assert (E2 : fmt_expand scram_fmt_auth [fb; server_first nonce salt idigits; cfwp cb nonce] =
                   fb ++ [44] ++ server_first nonce salt idigits ++ [44] ++ cfwp cb nonce).
      { transitivity (fb ++ [44] ++ server_first nonce salt idigits ++ [44] ++ cfwp cb nonce ++ []); [reflexivity|].
        now rewrite app_nil_r. }
      rewrite E2.
      set (auth := fb ++ [44] ++ server_first nonce salt idigits ++ [44] ++ cfwp cb nonce).
      assert (Lsf : zlen (server_first nonce salt idigits) = zlen nonce + zlen (encode salt) + zlen idigits + 8).
      { unfold server_first, r_attr, s_attr, i_attr. zl. lia. }
      assert (Lr : zlen (r_attr nonce) = zlen nonce + 2) by (unfold r_attr; zl; lia).
      assert (La : zlen auth = zlen fb + zlen (server_first nonce salt idigits) + zlen (cfwp cb nonce) + 2).
      { unfold auth. zl. lia. }
      replace (zlen auth <? 3 + rl + zlen fb + zlen (server_first nonce salt idigits)) with true
        by (symmetry; apply Z.ltb_lt; unfold rl; lia).
      cbn [abind].
      assert (Les : zlen (encode salt) <= 172).
      { rewrite encode_length. assert ((zlen salt + 2) / 3 <= 42) by (apply Z.div_le_upper_bound; lia). lia. }
      rewrite (ClientKey_spec alg H HM lim hash_ok hmac_ok H_len HM_len ds_range lim_big) by lia.
      cbn [abind].
      set (ck := HM (Hi HM pw salt v) client_key_label).
      rewrite (ClientSignature_spec alg H HM lim hash_ok hmac_ok H_len HM_len ds_range lim_big) by (try apply HM_len; pose proof (zlen_nonneg pw); lia).
      cbn [abind].
      rewrite (ClientProof_spec alg) by apply HM_len.
      assert (Lp : zlen (XOR ck (HM (H ck) auth)) = dsz).
      { unfold zlen. rewrite XOR_length.
        - pose proof (HM_len (Hi HM pw salt v) client_key_label) as E. exact E.
        - pose proof (HM_len (Hi HM pw salt v) client_key_label) as Ea. pose proof (HM_len (H ck) auth) as Eb.
          unfold zlen in Ea, Eb. fold ck in Ea. lia. }
      replace (zlen (XOR ck (HM (H ck) auth)) <? ds alg) with false by (symmetry; apply Z.ltb_ge; unfold ds; lia).
      rewrite (firstn_ds alg) by exact Lp.
      assert (Le : zlen (encode (XOR ck (HM (H ck) auth))) = (ds alg + 2) / 3 * 4) by (rewrite encode_length, Lp; reflexivity).
      replace (rl <? zlen (cfwp cb nonce) + zlen (encode (XOR ck (HM (H ck) auth))) + 3 + 1) with false
        by (symmetry; apply Z.ltb_ge; unfold rl; lia).
      change scram_proof_pfx with [44; 112; 61].
      replace (rl <? zlen (cfwp cb nonce ++ [44; 112; 61] ++ encode (XOR ck (HM (H ck) auth))) + 1) with false
        by (symmetry; apply Z.ltb_ge; zl; unfold rl; lia).
      reflexivity.
  Qed.
End Exchange.

(* ------------------------------------------------------------------------------------------ *)
(* the client-first-message built by _make_scram_init_msg                                      *)
Definition gs2_header (plus secured : bool) (cbname : list Z) : list Z :=
  if plus then [112; 61] ++ cbname ++ [44; 44] else [if secured then 121 else 110; 44; 44].
Definition n_attr (node : list Z) : list Z := 110 :: 61 :: scram_escape node.
Definition first_bare_of (node cnonce : list Z) : list Z := n_attr node ++ 44 :: r_attr cnonce.
Definition client_first_of (plus secured : bool) (cbname node cnonce : list Z) : list Z :=
  gs2_header plus secured cbname ++ first_bare_of node cnonce.
Definition client_nonce (rng : list Z) : list Z := rand_nonce (firstn NONCE_BYTES rng) scram_nonce_len.

Lemma firstn_exact {A} (a b : list A) : firstn (length a) (a ++ b) = a.
Proof. rewrite firstn_app, Nat.sub_diag, firstn_O, app_nil_r. apply firstn_all. Qed.
Lemma skipn_exact {A} (a b : list A) : skipn (length a) (a ++ b) = b.
Proof. rewrite skipn_app, Nat.sub_diag, skipn_all. reflexivity. Qed.

Lemma init_noplus : forall secured cbtype cbdata jid rng node,
  spec_node jid = Some node ->
  fst (make_scram_init_msg false secured cbtype cbdata jid rng) =
    AOk {| si_message := client_first_of false secured [] node (client_nonce rng);
           si_first_bare := 3;
           si_channel_binding := encode (gs2_header false secured []) |}.
Proof.
  intros secured cbt cbd jid rng node Hn. unfold make_scram_init_msg. rewrite Hn.
  unfold rng_take. change (Z.to_nat (scram_nonce_len / 2)) with NONCE_BYTES.
  change (scram_buf_size <? scram_nonce_len) with false. cbv iota. cbn [fst].
  fold (client_nonce rng). set (cn := client_nonce rng). set (nd := scram_escape node).
  change (nthz scram_msg_len_consts 0) with 8. change (nthz scram_msg_len_consts 1) with 1.
  change (nthz scram_btl_incr 1) with 3.
  set (flag := if secured then scram_flag_secured else scram_flag_unsecured).
  unfold snprintf_checked.
  assert (E : fmt_expand scram_fmt_noplus [[flag]; nd; cn] = [flag; 44; 44] ++ first_bare_of node cn).
  { transitivity ([flag] ++ [44] ++ [44] ++ [110] ++ [61] ++ nd ++ [44] ++ [114] ++ [61] ++ cn ++ []); [reflexivity|].
    rewrite app_nil_r. unfold first_bare_of, n_attr, r_attr. fold nd. cbn [app]. reflexivity. }
  rewrite E.
  assert (L : zlen ([flag; 44; 44] ++ first_bare_of node cn) = zlen nd + zlen cn + 8).
  { unfold first_bare_of, n_attr, r_attr. fold nd. zl. lia. }
  rewrite L.
  replace (zlen nd + zlen cn + 8 <? zlen nd + zlen cn + 8 + 0 + 1) with true by (symmetry; apply Z.ltb_lt; lia).
  cbn [abind]. change (scram_buf_size <? 0 + 3) with false. cbv iota.
  pose proof (zlen_nonneg nd). pose proof (zlen_nonneg cn).
  rewrite ?L.
  replace (zlen nd + zlen cn + 8 + 1 <? 0 + 3) with false by (symmetry; apply Z.ltb_ge; lia).
  change (Z.to_nat (0 + 3)) with (length [flag; 44; 44]).
  rewrite <- app_assoc, firstn_exact. cbn [abind].
  change (scram_buf_size <? zlen [flag; 44; 44]) with false. cbv iota.
  unfold client_first_of, gs2_header, flag. destruct secured; reflexivity.
Qed.

Lemma init_plus : forall cbname cbdata jid rng node,
  spec_node jid = Some node ->
  zlen cbname + 4 <= 56 -> zlen cbdata <= 56 - (zlen cbname + 4) ->
  fst (make_scram_init_msg true true (Some cbname) (Some cbdata) jid rng) =
    AOk {| si_message := client_first_of true true cbname node (client_nonce rng);
           si_first_bare := zlen cbname + 4;
           si_channel_binding := encode (gs2_header true true cbname ++ cbdata) |}.
Proof.
  intros t d jid rng node Hn Ht Hd. unfold make_scram_init_msg. cbn [negb]. rewrite Hn.
  unfold rng_take. change (Z.to_nat (scram_nonce_len / 2)) with NONCE_BYTES.
  change (scram_buf_size <? scram_nonce_len) with false. cbv iota. cbn [fst].
  fold (client_nonce rng). set (cn := client_nonce rng). set (nd := scram_escape node).
  change (nthz scram_msg_len_consts 0) with 8. change (nthz scram_msg_len_consts 1) with 1.
  change (nthz scram_btl_incr 0) with 1. change (nthz scram_btl_incr 1) with 3.
  unfold snprintf_checked.
  assert (E : fmt_expand scram_fmt_plus [t; nd; cn] = ([112; 61] ++ t ++ [44; 44]) ++ first_bare_of node cn).
  { transitivity ([112] ++ [61] ++ t ++ [44] ++ [44] ++ [110] ++ [61] ++ nd ++ [44] ++ [114] ++ [61] ++ cn ++ []); [reflexivity|].
    rewrite app_nil_r. unfold first_bare_of, n_attr, r_attr. fold nd. cbn [app]. rewrite <- !app_assoc. cbn [app]. reflexivity. }
  rewrite E.
  pose proof (zlen_nonneg nd). pose proof (zlen_nonneg cn). pose proof (zlen_nonneg t). pose proof (zlen_nonneg d).
  assert (L : zlen (([112; 61] ++ t ++ [44; 44]) ++ first_bare_of node cn) = zlen t + zlen nd + zlen cn + 9).
  { unfold first_bare_of, n_attr, r_attr. fold nd. zl. lia. }
  rewrite L.
  replace (zlen t + zlen nd + zlen cn + 9 <? zlen nd + zlen cn + 8 + (zlen t + 1) + 1) with true by (symmetry; apply Z.ltb_lt; lia).
  cbn [abind]. change scram_buf_size with 56.
  replace (56 <? zlen t + 1 + 3) with false by (symmetry; apply Z.ltb_ge; lia).
  rewrite ?L.
  replace (zlen t + zlen nd + zlen cn + 9 + 1 <? zlen t + 1 + 3) with false by (symmetry; apply Z.ltb_ge; lia).
  replace (Z.to_nat (zlen t + 1 + 3)) with (length ([112; 61] ++ t ++ [44; 44]))
    by (rewrite <- to_nat_zlen; f_equal; zl; lia).
  rewrite <- app_assoc, firstn_exact.
  replace (56 - (zlen t + 1 + 3) <? zlen d) with false by (symmetry; apply Z.ltb_ge; lia).
  cbn [abind].
  replace (56 <? zlen (([112; 61] ++ t ++ [44; 44]) ++ d)) with false by (symmetry; apply Z.ltb_ge; zl; lia).
  unfold client_first_of, gs2_header. rewrite <- !app_assoc. do 2 f_equal. lia.
Qed.

(* refusals: a -PLUS mechanism without TLS, without binding type or data, or data that does not fit *)
Lemma init_plus_refused : forall secured cbtype cbdata jid rng,
  secured = false \/ cbtype = None \/ spec_node jid = None ->
  fst (make_scram_init_msg true secured cbtype cbdata jid rng) = ANull.
Proof.
  intros secured cbt cbd jid rng Hc. unfold make_scram_init_msg.
  destruct secured; cbn [negb]; [|reflexivity].
  destruct cbt as [t|]; [|reflexivity].
  destruct Hc as [Hc|[Hc|Hc]]; try discriminate. rewrite Hc. reflexivity.
Qed.

(* escaping: comma-free, and the RFC's decoder gives the name back *)
Lemma esc_char_cases c : esc_char c = if c =? 44 then [61; 50; 67] else if c =? 61 then [61; 51; 68] else [c].
Proof.
  unfold esc_char. change scram_user_escape with [(44, [61; 50; 67]); (61, [61; 51; 68])].
  cbn [find fst snd]. rewrite (Z.eqb_sym 44 c), (Z.eqb_sym 61 c).
  destruct (c =? 44); [reflexivity|]. destruct (c =? 61); reflexivity.
Qed.
Lemma escape_cfree : forall node, cfree (scram_escape node).
Proof.
  induction node as [|c node IH]; [apply cfree_nil|].
  unfold scram_escape. cbn [flat_map]. apply cfree_app; [|exact IH]. rewrite esc_char_cases.
  destruct (c =? 44) eqn:E1; [intros [K|[K|[K|[]]]]; discriminate|].
  destruct (c =? 61) eqn:E2; [intros [K|[K|[K|[]]]]; discriminate|].
  apply Z.eqb_neq in E1. intros [K|[]]. congruence.
Qed.
Lemma escape_decode : forall node, saslname_decode (scram_escape node) = Some node.
Proof.
  induction node as [|c node IH]; [reflexivity|].
  unfold scram_escape. cbn [flat_map]. fold (scram_escape node). rewrite esc_char_cases.
  destruct (c =? 44) eqn:E1.
  - apply Z.eqb_eq in E1. subst c. cbn [app saslname_decode Z.eqb Pos.eqb andb]. rewrite IH. reflexivity.
  - destruct (c =? 61) eqn:E2.
    + apply Z.eqb_eq in E2. subst c. cbn [app saslname_decode Z.eqb Pos.eqb andb]. rewrite IH. reflexivity.
    + cbn [app saslname_decode]. rewrite E1, E2, IH. reflexivity.
Qed.

(* the nonce consists of the hex digits of the table: no comma, no NUL, bytes *)
Lemma In_firstn {A} : forall n (l : list A) c, In c (firstn n l) -> In c l.
Proof. induction n as [|n IH]; intros [|x l] c H; cbn [firstn In] in *; try contradiction. destruct H as [H|H]; [now left|right; now apply IH]. Qed.
Lemma nonce_chars : forall rnd len c, In c (rand_nonce rnd len) -> In c nonce_hex_tbl.
Proof.
  intros rnd len c Hc. unfold rand_nonce in Hc. apply In_firstn in Hc. apply in_flat_map in Hc.
  destruct Hc as (b & _ & Hc). unfold nonce_hex in Hc.
  assert (R : forall x, 0 <= x < 16 -> In (nthz nonce_hex_tbl x) nonce_hex_tbl).
  { intros x Hx. unfold nthz. apply nth_In. change (length nonce_hex_tbl) with 16%nat. lia. }
  destruct Hc as [<-|[<-|[]]]; apply R; apply Z.mod_pos_bound; lia.
Qed.
Lemma nonce_cfree rnd len : cfree (rand_nonce rnd len).
Proof.
  intros K. apply nonce_chars in K. change nonce_hex_tbl with [48; 49; 50; 51; 52; 53; 54; 55; 56; 57; 65; 66; 67; 68; 69; 70] in K.
  cbn [In] in K. repeat (destruct K as [K|K]; [discriminate|]). exact K.
Qed.

(* ------------------------------------------------------------------------------------------ *)
(* the RFC 5802 server accepts                                                                 *)
Section Verify.
  Context {C : Type} (alg : hash_alg C).
  Variable H : list Z -> list Z.
  Variable HM : list Z -> list Z -> list Z.
  Variable lim : Z.
  Hypothesis hash_ok : forall d, zlen d <= lim -> ha_hash alg d = HOk (H d).
  Hypothesis hmac_ok : forall k t, zlen k + zlen t <= lim -> crypto_HMAC alg k t = HOk (HM k t).
  Hypothesis H_len : forall d, zlen (H d) = ha_digest_size alg.
  Hypothesis HM_len : forall k t, zlen (HM k t) = ha_digest_size alg.
  Hypothesis HM_bytes : forall k t, bytes (HM k t).
  Hypothesis ds_range : 0 < ha_digest_size alg <= 64.
  Hypothesis lim_big : 256 <= lim.
  Notation dsz := (ha_digest_size alg).

  Definition flag_of (plus secured : bool) (cbname : list Z) : list Z :=
    if plus then [112; 61] ++ cbname else [if secured then 121 else 110].
  Lemma gs2_flag plus secured cbname : gs2_header plus secured cbname = flag_of plus secured cbname ++ [44; 44].
  Proof. unfold gs2_header, flag_of. destruct plus; [now rewrite <- app_assoc|reflexivity]. Qed.
  Lemma flag_cfree plus secured cbname : cfree cbname -> cfree (flag_of plus secured cbname).
  Proof.
    intros Hc. unfold flag_of. destruct plus.
    - apply cfree_cons; [lia|apply cfree_cons; [lia|exact Hc]].
    - apply cfree_cons; [destruct secured; lia|apply cfree_nil].
  Qed.

  Lemma verify_ok : forall plus secured cbname cbd node cnonce snonce salt idigits password,
    cfree cbname -> bytes cbname -> bytes cbd ->
    cfree cnonce -> cfree snonce -> snonce <> [] ->
    bytes salt -> salt <> [] ->
    all_digits idigits = true -> idigits <> [] ->
    let v := dec_value idigits in
    let acc := {| acc_user := node; acc_password := password; acc_salt := salt; acc_iter := v |} in
    let ch := {| ch_plus := plus; ch_tls := secured; ch_cbname := cbname; ch_cbdata := cbd |} in
    let gs2 := gs2_header plus secured cbname in
    let cf := client_first_of plus secured cbname node cnonce in
    let nonce := cnonce ++ snonce in
    let sf := server_first nonce salt idigits in
    let cb := encode (gs2 ++ (if plus then cbd else [])) in
    let auth := first_bare_of node cnonce ++ [44] ++ sf ++ [44] ++ cfwp cb nonce in
    let final := cfwp cb nonce ++ [44; 112; 61] ++ encode (the_proof H HM password salt v auth) in
    server_verify H HM dsz acc ch cf sf final = true.
  Proof.
    intros plus secured cbname cbd node cnonce snonce salt idigits pw Hcb Hcbb Hcbd Hcn Hsn Hsne Hsb Hsalt Hd Hdne
           v acc ch gs2 cf nonce sf cb auth final.
    assert (Hnonce : cfree nonce) by (apply cfree_app; assumption).
    assert (Hna : cfree (n_attr node)) by (unfold n_attr; apply cfree_cons; [lia|apply cfree_cons; [lia|apply escape_cfree]]).
    assert (Hra : cfree (r_attr cnonce)) by (unfold r_attr; apply cfree_cons; [lia|apply cfree_cons; [lia|exact Hcn]]).
    assert (Hra2 : cfree (r_attr nonce)) by (unfold r_attr; apply cfree_cons; [lia|apply cfree_cons; [lia|exact Hnonce]]).
    assert (Hsa : cfree (s_attr salt)) by (unfold s_attr; apply cfree_cons; [lia|apply cfree_cons; [lia|now apply encode_cfree]]).
    assert (Hia : cfree (i_attr idigits)) by (unfold i_attr; apply cfree_cons; [lia|apply cfree_cons; [lia|now apply (digits_cfree)]]).
    (* client-first *)
    assert (Scf : split_commas cf = [flag_of plus secured cbname; []; n_attr node; r_attr cnonce]).
    { unfold cf, client_first_of. rewrite gs2_flag, <- app_assoc. cbn [app].
      rewrite split_commas_app by (now apply flag_cfree).
      change (split_commas (44 :: first_bare_of node cnonce)) with ([] :: split_commas (first_bare_of node cnonce)).
      unfold first_bare_of. rewrite split_commas_app by exact Hna. rewrite split_commas_cfree by exact Hra. reflexivity. }
    (* server-first *)
    assert (Ssf : split_commas sf = [r_attr nonce; s_attr salt; i_attr idigits]).
    { unfold sf, server_first. rewrite split_commas_app by exact Hra2. rewrite split_commas_app by exact Hsa.
      rewrite split_commas_cfree by exact Hia. reflexivity. }
    (* client-final *)
    set (prf := the_proof H HM pw salt v auth) in *.
    assert (Hcbc : cfree cb).
    { unfold cb. apply encode_cfree. unfold gs2, gs2_header. destruct plus, secured; repeat (apply Forall_app; split);
        try assumption; repeat constructor; unfold is_byte; lia. }
    assert (Hpb : bytes prf) by (unfold prf, the_proof; apply XOR_bytes; apply HM_bytes).
    assert (Lprf : zlen prf = dsz).
    { unfold prf, the_proof, zlen. rewrite XOR_length.
      - apply HM_len.
      - pose proof (HM_len (Hi HM pw salt v) client_key_label) as Ea.
        pose proof (HM_len (H (HM (Hi HM pw salt v) client_key_label)) auth) as Eb. unfold zlen in Ea, Eb. lia. }
    assert (Hprf_ne : prf <> []) by (intros K; rewrite K in Lprf; change (zlen (@nil Z)) with 0 in Lprf; lia).
    assert (Sfin : split_commas final = [99 :: 61 :: cb; r_attr nonce; 112 :: 61 :: encode prf]).
    { unfold final, cfwp. cbn [app]. rewrite <- app_assoc. cbn [app].
      change (99 :: 61 :: cb ++ 44 :: r_attr nonce ++ 44 :: 112 :: 61 :: encode prf)
        with ((99 :: 61 :: cb) ++ 44 :: r_attr nonce ++ 44 :: 112 :: 61 :: encode prf).
      rewrite split_commas_app by (apply cfree_cons; [lia|apply cfree_cons; [lia|exact Hcbc]]).
      rewrite split_commas_app by exact Hra2.
      rewrite split_commas_cfree by (apply cfree_cons; [lia|apply cfree_cons; [lia|now apply encode_cfree]]).
      reflexivity. }
    unfold server_verify. rewrite Scf.
    assert (F1 : gs2_flag_ok ch (flag_of plus secured cbname) = true).
    { unfold gs2_flag_ok, ch, flag_of. cbn [ch_plus ch_tls ch_cbname]. destruct plus; [apply beq_refl|]. destruct secured; reflexivity. }
    rewrite F1. change (beq [] []) with true.
    change (has_prefix [110; 61] (n_attr node)) with true. change (has_prefix [114; 61] (r_attr cnonce)) with true.
    cbn [andb negb]. change (skipn 2 (n_attr node)) with (scram_escape node). rewrite escape_decode.
    change (acc_user acc) with node. rewrite beq_refl.
    assert (F2 : server_first_ok acc cnonce sf = true).
    { unfold server_first_ok. rewrite Ssf.
      change ([114; 61] ++ cnonce) with (r_attr cnonce).
      assert (P1 : has_prefix (r_attr cnonce) (r_attr nonce) = true).
      { unfold r_attr, nonce. change (114 :: 61 :: cnonce ++ snonce) with ((114 :: 61 :: cnonce) ++ snonce). apply has_prefix_app. }
      rewrite P1.
      assert (P2 : beq (r_attr nonce) (r_attr cnonce) = false).
      { rewrite beq_list_eqb. apply list_eqb_neq. unfold r_attr, nonce. intros K. injection K as K.
        rewrite <- (app_nil_r cnonce) in K at 2. apply app_inv_head in K. contradiction. }
      rewrite P2. change (has_prefix [115; 61] (s_attr salt)) with true. change (skipn 2 (s_attr salt)) with (encode salt).
      destruct (spec_decode_encode salt Hsb Hsalt) as [V D]. rewrite V, D. change (acc_salt acc) with salt. rewrite beq_refl.
      change (has_prefix [105; 61] (i_attr idigits)) with true. change (skipn 2 (i_attr idigits)) with idigits.
      rewrite Hd. rewrite beq_list_eqb, (list_eqb_neq idigits []) by exact Hdne.
      change (acc_iter acc) with v. unfold v. rewrite Z.eqb_refl. reflexivity. }
    change (skipn 2 (r_attr cnonce)) with cnonce. rewrite F2. cbn [andb negb].
    rewrite Ssf, Sfin.
    change (has_prefix [99; 61] (99 :: 61 :: cb)) with true. change (has_prefix [112; 61] (112 :: 61 :: encode prf)) with true.
    rewrite beq_refl. change (skipn 2 (99 :: 61 :: cb)) with cb. change (skipn 2 (112 :: 61 :: encode prf)) with (encode prf).
    assert (Hg : bytes (gs2 ++ (if plus then cbd else []))).
    { unfold gs2, gs2_header. destruct plus, secured; repeat (apply Forall_app; split); try assumption; repeat constructor; unfold is_byte; lia. }
    assert (Hgne : gs2 ++ (if plus then cbd else []) <> []).
    { unfold gs2, gs2_header. destruct plus; discriminate. }
    destruct (spec_decode_encode _ Hg Hgne) as [V1 D1]. fold cb in V1, D1. rewrite V1, D1.
    change (ch_plus ch) with plus. change (ch_cbdata ch) with cbd.
    change (flag_of plus secured cbname ++ [44] ++ [] ++ [44]) with (flag_of plus secured cbname ++ [44; 44]).
    rewrite <- gs2_flag. fold gs2. rewrite beq_refl.
    destruct (spec_decode_encode prf Hpb Hprf_ne) as [V2 D2]. rewrite V2, D2, Lprf, Z.eqb_refl.
    cbn [andb negb].
    (* the AuthMessage the server computes is the one the proof was made with *)
    assert (EA : n_attr node ++ [44] ++ r_attr cnonce = first_bare_of node cnonce) by reflexivity.
    assert (EB : (99 :: 61 :: cb) ++ [44] ++ r_attr nonce = cfwp cb nonce) by reflexivity.
    replace ((n_attr node ++ [44] ++ r_attr cnonce) ++ [44] ++ sf ++ [44] ++ (99 :: 61 :: cb) ++ [44] ++ r_attr nonce) with auth
      by (unfold auth; rewrite EA, EB; reflexivity).
    unfold StoredKey, ClientKey, SaltedPassword. change (acc_password acc) with pw. change (acc_salt acc) with salt. change (acc_iter acc) with v.
    change client_key_label with Rfc5802Spec.client_key_label.
    set (ck := HM (Hi HM pw salt v) Rfc5802Spec.client_key_label).
    unfold prf, the_proof. fold ck. rewrite XOR_cancel; [apply beq_refl|].
    pose proof (HM_len (Hi HM pw salt v) Rfc5802Spec.client_key_label) as Ea. pose proof (HM_len (H ck) auth) as Eb.
    unfold zlen in Ea, Eb. fold ck in Ea. lia.
  Qed.
End Verify.

(* ------------------------------------------------------------------------------------------ *)
(* end to end: _make_scram_init_msg, the server's answer, sasl_scram, the server's verdict     *)
Definition opt_list (o : option (list Z)) : list Z := match o with Some l => l | None => [] end.

(* what the exchange needs to be able to start (otherwise the client refuses cleanly) *)
Definition plus_ready (plus secured : bool) (cbtype cbdata : option (list Z)) : Prop :=
  plus = true ->
  secured = true /\ cbtype <> None /\ cbdata <> None /\
  zlen (opt_list cbtype) + 4 <= 56 /\ zlen (opt_list cbdata) <= 56 - (zlen (opt_list cbtype) + 4).

Definition scram_outcome {C} (alg : hash_alg C) (H : list Z -> list Z) (HM : list Z -> list Z -> list Z)
           (plus secured : bool) (cbtype cbdata : option (list Z)) (jid rng node password salt idigits snonce : list Z) : Prop :=
  exists si, fst (make_scram_init_msg plus secured cbtype cbdata jid rng) = AOk si /\
    let cnonce := client_nonce rng in
    let sf := server_first (cnonce ++ snonce) salt idigits in
    let acc := {| acc_user := node; acc_password := password; acc_salt := salt; acc_iter := dec_value idigits |} in
    let ch := {| ch_plus := plus; ch_tls := secured; ch_cbname := opt_list cbtype; ch_cbdata := opt_list cbdata |} in
    match sasl_scram alg (si_channel_binding si) sf (scram_first_bare si) password with
    | AOk resp => exists final, resp = encode final /\
                    server_verify H HM (ha_digest_size alg) acc ch (si_message si) sf final = true
    | ANull => 2 ^ 32 <= dec_value idigits
    | _ => False
    end.

Section Main.
  Context {C : Type} (alg : hash_alg C).
  Variable H : list Z -> list Z.
  Variable HM : list Z -> list Z -> list Z.
  Variable lim : Z.
  Hypothesis hash_ok : forall d, zlen d <= lim -> ha_hash alg d = HOk (H d).
  Hypothesis hmac_ok : forall k t, zlen k + zlen t <= lim -> crypto_HMAC alg k t = HOk (HM k t).
  Hypothesis H_len : forall d, zlen (H d) = ha_digest_size alg.
  Hypothesis HM_len : forall k t, zlen (HM k t) = ha_digest_size alg.
  Hypothesis HM_bytes : forall k t, bytes (HM k t).
  Hypothesis ds_range : 0 < ha_digest_size alg <= 64.
  Hypothesis lim_big : 4096 <= lim.

  Lemma scram_generic : forall plus secured cbtype cbdata jid rng node password salt idigits snonce,
    spec_node jid = Some node ->
    plus_ready plus secured cbtype cbdata ->
    cfree (opt_list cbtype) -> bytes (opt_list cbtype) -> bytes (opt_list cbdata) ->
    bytes salt -> salt <> [] -> zlen salt <= 124 ->
    all_digits idigits = true -> idigits <> [] -> 1 <= dec_value idigits ->
    cfree snonce -> snonce <> [] ->
    zlen password + 3 * zlen jid + 2 * zlen snonce + zlen idigits + 2048 <= lim ->
    scram_outcome alg H HM plus secured cbtype cbdata jid rng node password salt idigits snonce.
  Proof.
    intros plus secured cbtype cbdata jid rng node pw salt idigits snonce Hnode Hready Hcbf Hcbb Hcdb Hsb Hsne Hsl Hd Hdne Hv Hsn Hsnne Hsize.
    assert (lim_big' : 256 <= lim) by lia.
    set (cn := client_nonce rng).
    assert (Hcn : cfree cn) by apply nonce_cfree.
    assert (Lcn : zlen cn <= 32).
    { unfold cn, client_nonce, rand_nonce, zlen. rewrite firstn_length. change (Z.to_nat (scram_nonce_len - 1)) with 32%nat. lia. }
    (* the escaped node is at most three times as long as the JID *)
    assert (Lnode : zlen (scram_escape node) <= 3 * zlen jid).
    { assert (L1 : zlen (scram_escape node) <= 3 * zlen node).
      { clear. induction node as [|c n IH]; [cbn; lia|]. unfold scram_escape. cbn [flat_map]. fold (scram_escape n).
        rewrite zlen_app, zlen_cons, esc_char_cases. destruct (c =? 44); [change (zlen [61; 50; 67]) with 3; lia|]. destruct (c =? 61); [change (zlen [61; 51; 68]) with 3; lia|change (zlen [c]) with 1; lia]. }
      assert (L2 : zlen node <= zlen jid).
      { clear -Hnode. unfold spec_node in Hnode. destruct (after AT (spec_bare jid)); [|discriminate]. injection Hnode as <-.
        assert (B : forall c s, zlen (before c s) <= zlen s).
        { intros c s. induction s as [|x s IH]; cbn [before]; [lia|]. destruct (x =? c); rewrite ?zlen_cons; [pose proof (zlen_nonneg s); cbn; lia|lia]. }
        eapply Z.le_trans; [apply B|]. unfold spec_bare. apply B. }
      lia. }
    pose proof (zlen_nonneg pw). pose proof (zlen_nonneg jid). pose proof (zlen_nonneg snonce). pose proof (zlen_nonneg idigits).
    pose proof (zlen_nonneg (scram_escape node)). pose proof (zlen_nonneg cn).
    assert (Lfb : zlen (first_bare_of node cn) = zlen (scram_escape node) + zlen cn + 5).
    { unfold first_bare_of, n_attr, r_attr. zl. lia. }
    destruct plus.
    - (* -PLUS *)
      destruct (Hready eq_refl) as (Hsec & Ht & Hdt & Htl & Hdl). subst secured.
      destruct cbtype as [t|]; [|contradiction]. destruct cbdata as [d|]; [|contradiction]. cbn [opt_list] in *.
      eexists. split; [exact (init_plus t d jid rng node Hnode Htl Hdl)|].
      cbv zeta. unfold scram_first_bare. cbn [si_message si_first_bare si_channel_binding].
      fold cn.
      assert (Efb : skipn (Z.to_nat (zlen t + 4)) (client_first_of true true t node cn) = first_bare_of node cn).
      { unfold client_first_of, gs2_header. replace (Z.to_nat (zlen t + 4)) with (length ([112; 61] ++ t ++ [44; 44]))
          by (rewrite <- to_nat_zlen; f_equal; zl; lia). apply skipn_exact. }
      rewrite Efb.
      pose proof (zlen_nonneg t). pose proof (zlen_nonneg d).
      assert (Lcb : zlen (encode (gs2_header true true t ++ d)) <= 80).
      { rewrite encode_length. unfold gs2_header. zl.
        assert ((2 + zlen t + 2 + zlen d + 2) / 3 <= 20) by (apply Z.div_le_upper_bound; lia). lia. }
      rewrite (sasl_scram_wf alg H HM lim hash_ok hmac_ok H_len HM_len HM_bytes ds_range lim_big')
        by (try assumption; try (apply cfree_app; assumption); zl; lia).
      destruct (2 ^ 32 <=? dec_value idigits) eqn:Eb; [apply Z.leb_le in Eb; exact Eb|].
      eexists. split; [reflexivity|].
      apply (verify_ok alg H HM lim hash_ok hmac_ok H_len HM_len HM_bytes ds_range true true t d node cn snonce salt idigits pw); assumption.
    - (* without channel binding *)
      eexists. split; [apply init_noplus; exact Hnode|].
      cbv zeta. unfold scram_first_bare. cbn [si_message si_first_bare si_channel_binding]. fold cn.
      assert (Efb : skipn (Z.to_nat 3) (client_first_of false secured [] node cn) = first_bare_of node cn) by reflexivity.
      rewrite Efb.
      assert (Lcb : zlen (encode (gs2_header false secured [])) = 4) by reflexivity.
      rewrite (sasl_scram_wf alg H HM lim hash_ok hmac_ok H_len HM_len HM_bytes ds_range lim_big')
        by (try assumption; try (apply cfree_app; assumption); zl; lia).
      destruct (2 ^ 32 <=? dec_value idigits) eqn:Eb; [apply Z.leb_le in Eb; exact Eb|].
      eexists. split; [reflexivity|].
      pose proof (verify_ok alg H HM lim hash_ok hmac_ok H_len HM_len HM_bytes ds_range false secured (opt_list cbtype) (opt_list cbdata) node cn snonce salt idigits pw
                    Hcbf Hcbb Hcdb Hcn Hsn Hsnne Hsb Hsne Hd Hdne) as V.
      cbv zeta in V. rewrite app_nil_r in V. exact V.
  Qed.
End Main.

(* ------------------------------------------------------------------------------------------ *)
(* instances: the three digests of src/scram.c (C17: the models compute the standard digests
   and RFC 2104 HMAC)                                                                           *)
Require Import LV.Spec.HashSpec LV.Proofs.HashProofs.

Lemma be_bytes_bytes : forall n x, bytes (be_bytes n x).
Proof.
  induction n as [|n IH]; intros x; cbn [be_bytes]; constructor; [|apply IH].
  unfold is_byte. apply Z.mod_pos_bound. lia.
Qed.
Lemma flat_be_bytes : forall n ws, bytes (flat_map (be_bytes n) ws).
Proof. intros n ws. induction ws as [|w ws IH]; cbn [flat_map]; [constructor|]. apply Forall_app. split; [apply be_bytes_bytes|exact IH]. Qed.
Lemma sha1_spec_bytes m : bytes (sha1_spec m).
Proof. apply flat_be_bytes. Qed.
Lemma sha256_spec_bytes m : bytes (sha256_spec m).
Proof. apply flat_be_bytes. Qed.
Lemma sha512_spec_bytes m : bytes (sha512_spec m).
Proof. apply flat_be_bytes. Qed.

Definition LIM : Z := 2 ^ 60.

Definition HMAC_SHA1 := hmac_spec sha1_spec 64.
Definition HMAC_SHA256 := hmac_spec sha256_spec 64.
Definition HMAC_SHA512 := hmac_spec sha512_spec 128.

Lemma scram_sha1_lemma : forall plus secured cbtype cbdata jid rng node password salt idigits snonce,
  spec_node jid = Some node ->
  plus_ready plus secured cbtype cbdata ->
  cfree (opt_list cbtype) -> bytes (opt_list cbtype) -> bytes (opt_list cbdata) ->
  bytes salt -> salt <> [] -> zlen salt <= 124 ->
  all_digits idigits = true -> idigits <> [] -> 1 <= dec_value idigits ->
  cfree snonce -> snonce <> [] ->
  zlen password + 3 * zlen jid + 2 * zlen snonce + zlen idigits + 2048 <= LIM ->
  scram_outcome alg_sha1 sha1_spec HMAC_SHA1 plus secured cbtype cbdata jid rng node password salt idigits snonce.
Proof.
  apply (scram_generic alg_sha1 sha1_spec HMAC_SHA1 LIM).
  - intros d _. apply sha1_oneshot_lemma.
  - intros k t _. apply hmac_sha1_lemma.
  - apply sha1_spec_len.
  - intros k t. apply sha1_spec_len.
  - intros k t. apply sha1_spec_bytes.
  - split; vm_compute; [reflexivity|discriminate].
  - unfold LIM. lia.
Qed.

Lemma scram_sha256_lemma : forall plus secured cbtype cbdata jid rng node password salt idigits snonce,
  spec_node jid = Some node ->
  plus_ready plus secured cbtype cbdata ->
  cfree (opt_list cbtype) -> bytes (opt_list cbtype) -> bytes (opt_list cbdata) ->
  bytes salt -> salt <> [] -> zlen salt <= 124 ->
  all_digits idigits = true -> idigits <> [] -> 1 <= dec_value idigits ->
  cfree snonce -> snonce <> [] ->
  zlen password + 3 * zlen jid + 2 * zlen snonce + zlen idigits + 2048 <= LIM ->
  scram_outcome alg_sha256 sha256_spec HMAC_SHA256 plus secured cbtype cbdata jid rng node password salt idigits snonce.
Proof.
  apply (scram_generic alg_sha256 sha256_spec HMAC_SHA256 LIM).
  - intros d Hd. apply sha256_oneshot_lemma. unfold LIM in Hd. lia.
  - intros k t Hs. apply hmac_sha256_lemma. unfold LIM in Hs. lia.
  - apply sha256_spec_len.
  - intros k t. apply sha256_spec_len.
  - intros k t. apply sha256_spec_bytes.
  - split; vm_compute; [reflexivity|discriminate].
  - unfold LIM. lia.
Qed.

Lemma scram_sha512_lemma : forall plus secured cbtype cbdata jid rng node password salt idigits snonce,
  spec_node jid = Some node ->
  plus_ready plus secured cbtype cbdata ->
  cfree (opt_list cbtype) -> bytes (opt_list cbtype) -> bytes (opt_list cbdata) ->
  bytes salt -> salt <> [] -> zlen salt <= 124 ->
  all_digits idigits = true -> idigits <> [] -> 1 <= dec_value idigits ->
  cfree snonce -> snonce <> [] ->
  zlen password + 3 * zlen jid + 2 * zlen snonce + zlen idigits + 2048 <= LIM ->
  scram_outcome alg_sha512 sha512_spec HMAC_SHA512 plus secured cbtype cbdata jid rng node password salt idigits snonce.
Proof.
  apply (scram_generic alg_sha512 sha512_spec HMAC_SHA512 LIM).
  - intros d Hd. apply sha512_oneshot_lemma. unfold LIM in Hd. lia.
  - intros k t Hs. apply hmac_sha512_lemma. unfold LIM in Hs. lia.
  - apply sha512_spec_len.
  - intros k t. apply sha512_spec_len.
  - intros k t. apply sha512_spec_bytes.
  - split; vm_compute; [reflexivity|discriminate].
  - unfold LIM. lia.
Qed.

(* ------------------------------------------------------------------------------------------ *)
(* statements in the form used by Properties_C07                                               *)
Lemma plain_rfc4616 : forall authid password,
  sasl_plain authid password = AOk (encode ([0] ++ authid ++ [0] ++ password)) /\
  (bytes authid -> bytes password ->
     sasl_plain authid password = AOk (spec_encode ([0] ++ authid ++ [0] ++ password))).
Proof.
  intros a p. split; [apply plain_lemma|]. intros Ha Hp. rewrite plain_lemma. unfold rfc4616_message.
  rewrite encode_canonical; [reflexivity|].
  repeat (apply Forall_app; split); try assumption; repeat constructor; unfold is_byte; lia.
Qed.

Lemma nonce_hex_length : forall l, length (flat_map nonce_hex l) = (2 * length l)%nat.
Proof. induction l as [|b l IH]; cbn [flat_map length app nonce_hex]; [reflexivity|]. rewrite IH. lia. Qed.

Lemma scram_first_wellformed :
  forall plus secured cbtype cbdata jid rng node,
    spec_node jid = Some node ->
    plus_ready plus secured cbtype cbdata ->
    let cbname := opt_list cbtype in
    let gs2 := if plus then [112; 61] ++ cbname ++ [44; 44] else [if secured then 121 else 110; 44; 44] in
    let cnonce := rand_nonce (firstn 16 rng) 33 in
    exists si,
      fst (make_scram_init_msg plus secured cbtype cbdata jid rng) = AOk si /\
      si_message si = gs2 ++ [110; 61] ++ scram_escape node ++ [44; 114; 61] ++ cnonce /\
      scram_first_bare si = [110; 61] ++ scram_escape node ++ [44; 114; 61] ++ cnonce /\
      si_channel_binding si = encode (gs2 ++ (if plus then opt_list cbdata else [])) /\
      saslname_decode (scram_escape node) = Some node /\ cfree (scram_escape node) /\
      (forall c, In c cnonce -> In c [48; 49; 50; 51; 52; 53; 54; 55; 56; 57; 65; 66; 67; 68; 69; 70]) /\
      ((16 <= length rng)%nat -> length cnonce = 32%nat).
Proof.
  intros plus secured cbtype cbdata jid rng node Hnode Hready cbname gs2 cnonce.
  assert (Tail : saslname_decode (scram_escape node) = Some node /\ cfree (scram_escape node) /\
      (forall c, In c cnonce -> In c [48; 49; 50; 51; 52; 53; 54; 55; 56; 57; 65; 66; 67; 68; 69; 70]) /\
      ((16 <= length rng)%nat -> length cnonce = 32%nat)).
  { split; [apply escape_decode|]. split; [apply escape_cfree|]. split.
    - intros c Hc. apply (nonce_chars _ _ _ Hc).
    - intros Hl. unfold cnonce, rand_nonce. rewrite firstn_length, nonce_hex_length, !firstn_length.
      change (Z.to_nat (33 / 2)) with 16%nat. change (Z.to_nat (33 - 1)) with 32%nat. lia. }
  destruct plus.
  - destruct (Hready eq_refl) as (Hsec & Ht & Hdt & Htl & Hdl). subst secured.
    destruct cbtype as [t|]; [|contradiction]. destruct cbdata as [d|]; [|contradiction]. cbn [opt_list] in *.
    eexists. split; [exact (init_plus t d jid rng node Hnode Htl Hdl)|].
    cbn [si_message si_first_bare si_channel_binding]. unfold scram_first_bare. cbn [si_message si_first_bare].
    split; [unfold client_first_of, gs2_header, gs2, cbname; rewrite <- !app_assoc; reflexivity|].
    split.
    { unfold client_first_of, gs2_header. replace (Z.to_nat (zlen t + 4)) with (length ([112; 61] ++ t ++ [44; 44]))
        by (rewrite <- to_nat_zlen; f_equal; rewrite !zlen_app; change (zlen [112; 61]) with 2; change (zlen [44; 44]) with 2; lia).
      rewrite skipn_exact. reflexivity. }
    split; [unfold gs2_header, gs2, cbname; rewrite <- !app_assoc; reflexivity|exact Tail].
  - eexists. split; [exact (init_noplus secured cbtype cbdata jid rng node Hnode)|].
    cbn [si_message si_first_bare si_channel_binding]. unfold scram_first_bare. cbn [si_message si_first_bare].
    split; [reflexivity|]. split; [reflexivity|]. split; [unfold gs2; rewrite app_nil_r; reflexivity|exact Tail].
Qed.

(* ------------------------------------------------------------------------------------------ *)
(* _make_scram_init_msg never leaves its buffers: for all inputs the outcome is a message or the
   clean refusal                                                                               *)
Lemma init_plus_general : forall t cbdata jid rng node,
  spec_node jid = Some node ->
  fst (make_scram_init_msg true true (Some t) cbdata jid rng) =
    if 56 <? zlen t + 4 then ANull else
    match cbdata with
    | None => ANull
    | Some d => if 56 - (zlen t + 4) <? zlen d then ANull
                else AOk {| si_message := client_first_of true true t node (client_nonce rng);
                            si_first_bare := zlen t + 4;
                            si_channel_binding := encode (gs2_header true true t ++ d) |}
    end.
Proof.
  intros t cbdata jid rng node Hn. unfold make_scram_init_msg. cbn [negb]. rewrite Hn.
  unfold rng_take. change (Z.to_nat (scram_nonce_len / 2)) with NONCE_BYTES.
  change (scram_buf_size <? scram_nonce_len) with false. cbv iota. cbn [fst].
  fold (client_nonce rng). set (cn := client_nonce rng). set (nd := scram_escape node).
  change (nthz scram_msg_len_consts 0) with 8. change (nthz scram_msg_len_consts 1) with 1.
  change (nthz scram_btl_incr 0) with 1. change (nthz scram_btl_incr 1) with 3.
  unfold snprintf_checked.
  assert (E : fmt_expand scram_fmt_plus [t; nd; cn] = ([112; 61] ++ t ++ [44; 44]) ++ first_bare_of node cn).
  { transitivity ([112] ++ [61] ++ t ++ [44] ++ [44] ++ [110] ++ [61] ++ nd ++ [44] ++ [114] ++ [61] ++ cn ++ []); [reflexivity|].
    rewrite app_nil_r. unfold first_bare_of, n_attr, r_attr. fold nd. cbn [app]. rewrite <- !app_assoc. cbn [app]. reflexivity. }
  rewrite E.
  pose proof (zlen_nonneg nd). pose proof (zlen_nonneg cn). pose proof (zlen_nonneg t).
  assert (L : zlen (([112; 61] ++ t ++ [44; 44]) ++ first_bare_of node cn) = zlen t + zlen nd + zlen cn + 9).
  { unfold first_bare_of, n_attr, r_attr. fold nd. zl. lia. }
  rewrite L.
  replace (zlen t + zlen nd + zlen cn + 9 <? zlen nd + zlen cn + 8 + (zlen t + 1) + 1) with true by (symmetry; apply Z.ltb_lt; lia).
  cbn [abind]. change scram_buf_size with 56.
  replace (zlen t + 1 + 3) with (zlen t + 4) by lia.
  destruct (56 <? zlen t + 4) eqn:Eb; [reflexivity|]. apply Z.ltb_ge in Eb.
  rewrite ?L.
  replace (zlen t + zlen nd + zlen cn + 9 + 1 <? zlen t + 4) with false by (symmetry; apply Z.ltb_ge; lia).
  replace (Z.to_nat (zlen t + 4)) with (length ([112; 61] ++ t ++ [44; 44]))
    by (rewrite <- to_nat_zlen; f_equal; zl; lia).
  rewrite <- app_assoc, firstn_exact.
  destruct cbdata as [d|]; [|reflexivity].
  destruct (56 - (zlen t + 4) <? zlen d) eqn:Ed; [reflexivity|]. apply Z.ltb_ge in Ed. cbn [abind].
  pose proof (zlen_nonneg d).
  replace (56 <? zlen (([112; 61] ++ t ++ [44; 44]) ++ d)) with false by (symmetry; apply Z.ltb_ge; zl; lia).
  unfold client_first_of, gs2_header. rewrite <- !app_assoc. reflexivity.
Qed.

Definition clean {A} (r : ares A) : Prop := match r with AOk _ | ANull => True | _ => False end.

Lemma init_safe : forall plus secured cbtype cbdata jid rng,
  clean (fst (make_scram_init_msg plus secured cbtype cbdata jid rng)).
Proof.
  intros plus secured cbtype cbdata jid rng.
  destruct (spec_node jid) as [node|] eqn:Hn.
  - destruct plus.
    + destruct secured; [|rewrite init_plus_refused by (now left); exact I].
      destruct cbtype as [t|]; [|rewrite init_plus_refused by (right; now left); exact I].
      rewrite (init_plus_general t cbdata jid rng node Hn).
      destruct (56 <? zlen t + 4); [exact I|]. destruct cbdata as [d|]; [|exact I].
      destruct (56 - (zlen t + 4) <? zlen d); exact I.
    + rewrite (init_noplus secured cbtype cbdata jid rng node Hn). exact I.
  - unfold make_scram_init_msg. rewrite Hn.
    destruct plus; [destruct secured; cbn [negb]; [destruct cbtype|]|]; exact I.
Qed.
