(* C06 - proofs: (1) heap lemmas about the doubly linked segment predicate, (2) every operation of
   SendQueueModel, started in a state that refines an abstract state, ends without UAF/Crash/Fuel in a state
   that refines the abstract successor and produces the same output, (3) invariants of the abstract FIFO
   machine and the property statements. *)
Require Import LV.Common.Bytes LV.Model.SendQueueModel LV.Spec.SendQueueSpec.
Require Import Lia.
Local Open Scope Z_scope.

(* ================================================================== basics *)
Lemma upd_same : forall h p c, upd h p c p = c.
Proof. intros. unfold upd. now rewrite Nat.eqb_refl. Qed.
Lemma upd_other : forall h p c x, x <> p -> upd h p c x = h x.
Proof. intros. unfold upd. destruct (Nat.eqb x p) eqn:E; auto. apply Nat.eqb_eq in E. congruence. Qed.

Lemma load_live : forall h p n, h p = Live n -> load h p = Ok n.
Proof. intros. unfold load. now rewrite H. Qed.
Lemma store_live : forall h p n f, h p = Live n -> store h p f = Ok (upd h p (Live (f n))).
Proof. intros. unfold store. rewrite (load_live _ _ _ H). reflexivity. Qed.

Lemma hd_id_app : forall l1 l2 d, hd_id (l1 ++ l2) d = hd_id l1 (hd_id l2 d).
Proof. destruct l1; reflexivity. Qed.
Lemma last_id_app : forall l1 l2 d, last_id (l1 ++ l2) d = last_id l2 (last_id l1 d).
Proof. induction l1; intros; cbn; auto. Qed.
Lemma last_id_snoc : forall l e d, last_id (l ++ [e]) d = Some (e_id e).
Proof. intros. now rewrite last_id_app. Qed.
Lemma last_id_some : forall l d, l <> [] -> forall d', last_id l d = last_id l d'.
Proof. destruct l; intros; [congruence|reflexivity]. Qed.

Lemma lseg_frame : forall l h h' p nx,
  (forall e, In e l -> h' (e_id e) = h (e_id e)) -> lseg h p l nx -> lseg h' p l nx.
Proof.
  induction l as [|e r IH]; intros h h' p nx Hf H; cbn in *; auto.
  destruct H as (n & Hn & He & Hp & Hx & Hr).
  exists n. rewrite Hf by auto. repeat split; auto.
  eapply IH; eauto.
Qed.

Lemma lseg_app : forall l1 l2 h p nx,
  lseg h p (l1 ++ l2) nx <-> lseg h p l1 (hd_id l2 nx) /\ lseg h (last_id l1 p) l2 nx.
Proof.
  induction l1 as [|e r IH]; intros; cbn.
  - tauto.
  - split.
    + intros (n & Hn & He & Hp & Hx & Hr). apply IH in Hr. destruct Hr as [Ha Hb].
      split; auto. exists n. repeat split; auto. now rewrite Hx, hd_id_app.
    + intros [(n & Hn & He & Hp & Hx & Hr) Hb]. exists n. repeat split; auto.
      * now rewrite hd_id_app.
      * apply IH. auto.
Qed.

Lemma lseg_in_live : forall l h p nx e, lseg h p l nx -> In e l ->
  exists n, h (e_id e) = Live n /\ entry_of (e_id e) n = e.
Proof.
  induction l as [|a r IH]; intros h p nx e H Hin; cbn in *; [tauto|].
  destruct H as (n & Hn & He & _ & _ & Hr). destruct Hin as [->|Hin]; eauto.
Qed.

(* the cell in the middle of a segment *)
Lemma lseg_mid : forall l1 e l2 h p nx, lseg h p (l1 ++ e :: l2) nx ->
  exists n, h (e_id e) = Live n /\ entry_of (e_id e) n = e /\ n_prev n = last_id l1 p /\ n_next n = hd_id l2 nx.
Proof.
  intros. apply lseg_app in H. destruct H as [_ H]. cbn in H.
  destruct H as (n & Hn & He & Hp & Hx & _). eauto.
Qed.

Lemma NoDup_app_l : forall A (l1 l2 : list A), NoDup (l1 ++ l2) -> NoDup l1.
Proof. induction l1; intros; [constructor|]. inversion H; subst. constructor; [|eauto]. intro; apply H2, in_or_app; auto. Qed.
Lemma NoDup_app_r : forall A (l1 l2 : list A), NoDup (l1 ++ l2) -> NoDup l2.
Proof. induction l1; intros; auto. inversion H; subst. eauto. Qed.
Lemma NoDup_app_disj : forall A (l1 l2 : list A) x, NoDup (l1 ++ l2) -> In x l1 -> In x l2 -> False.
Proof.
  induction l1; intros; cbn in *; [tauto|]. inversion H; subst. destruct H0 as [->|H0]; [|eauto].
  apply H4, in_or_app; auto.
Qed.

Lemma in_ids : forall (l : list entry) e, In e l -> In (e_id e) (map e_id l).
Proof. intros. now apply in_map. Qed.

(* replace the [next] of the last cell *)
Lemma lseg_set_last_next : forall l e h p nx nx' n,
  NoDup (map e_id (l ++ [e])) -> lseg h p (l ++ [e]) nx -> h (e_id e) = Live n ->
  lseg (upd h (e_id e) (Live (with_next nx' n))) p (l ++ [e]) nx'.
Proof.
  intros l e h p nx nx' n Hnd H Hn. apply lseg_app in H. destruct H as [Ha Hb].
  apply lseg_app. split.
  - cbn in *. eapply lseg_frame; [|exact Ha]. intros x Hx. apply upd_other.
    intro Heq. rewrite map_app in Hnd. eapply NoDup_app_disj; eauto using in_ids. cbn. auto.
  - cbn in *. destruct Hb as (n0 & Hn0 & He & Hp & Hx & _). rewrite Hn in Hn0. inversion Hn0; subst n0.
    exists (with_next nx' n). rewrite upd_same. repeat split; auto.
Qed.

(* replace the [prev] of the first cell *)
Lemma lseg_set_first_prev : forall e r h p p' nx n,
  NoDup (map e_id (e :: r)) -> lseg h p (e :: r) nx -> h (e_id e) = Live n ->
  lseg (upd h (e_id e) (Live (with_prev p' n))) p' (e :: r) nx.
Proof.
  intros e r h p p' nx n Hnd H Hn. cbn in *. destruct H as (n0 & Hn0 & He & Hp & Hx & Hr).
  rewrite Hn in Hn0. inversion Hn0; subst n0.
  exists (with_prev p' n). rewrite upd_same. repeat split; auto.
  eapply lseg_frame; [|exact Hr]. intros x Hx'. apply upd_other. intro Heq.
  inversion Hnd; subst. apply H1. rewrite <- Heq. now apply in_ids.
Qed.

(* change the contents (not the links) of the first cell *)
Lemma lseg_update_first : forall e e' r h p nx n f,
  NoDup (map e_id (e :: r)) -> lseg h p (e :: r) nx -> h (e_id e) = Live n ->
  e_id e' = e_id e -> entry_of (e_id e) (f n) = e' -> n_prev (f n) = n_prev n -> n_next (f n) = n_next n ->
  lseg (upd h (e_id e) (Live (f n))) p (e' :: r) nx.
Proof.
  intros e e' r h p nx n f Hnd H Hn Hid He' Hfp Hfn. cbn in *. destruct H as (n0 & Hn0 & He & Hp & Hx & Hr).
  rewrite Hn in Hn0. inversion Hn0; subst n0.
  exists (f n). rewrite Hid, upd_same. repeat split; auto; try congruence.
  eapply lseg_frame; [|exact Hr]. intros x Hx'. apply upd_other. intro Heq.
  inversion Hnd; subst. apply H1. rewrite <- Heq. now apply in_ids.
Qed.

Lemma lseg_nil_next : forall l h p nx nx', l = [] -> lseg h p l nx -> lseg h p l nx'.
Proof. intros; subst; exact I. Qed.

(* ids of live cells are below the allocation mark *)
Lemma live_below : forall st x n, (forall y, (s_next st <= y)%nat -> s_heap st y = Unalloc) ->
  s_heap st x = Live n -> (x < s_next st)%nat.
Proof. intros. destruct (Nat.lt_ge_cases x (s_next st)); auto. rewrite H in H0 by auto. discriminate. Qed.

Lemma NoDup_bounded_length : forall (l : list nat) n, NoDup l -> (forall x, In x l -> (x < n)%nat) -> (length l <= n)%nat.
Proof.
  intros. rewrite <- (seq_length n 0). apply NoDup_incl_length; auto.
  intros x Hx. apply in_seq. specialize (H0 x Hx). lia.
Qed.

(* ================================================================== refinement: queueing *)
Require Import Permutation.

Ltac dR H := destruct H as (Hq & Hhd & Htl & Hsq & Hshd & Hstl & Hnd & Hfresh & Hlen & Hulen & Hnext & Hsm & Hrs & Hnr & Hconn & Hsched & Hwire).

Lemma lseg_ids_below : forall l h p nx nxt, lseg h p l nx -> (forall y, (nxt <= y)%nat -> h y = Unalloc) ->
  forall e, In e l -> (e_id e < nxt)%nat.
Proof.
  intros. destruct (lseg_in_live _ _ _ _ _ H H1) as (n & Hn & _).
  destruct (Nat.lt_ge_cases (e_id e) nxt); auto. rewrite H0 in Hn by auto. discriminate.
Qed.

Lemma count_user_app : forall l1 l2, count_user (l1 ++ l2) = (count_user l1 + count_user l2)%nat.
Proof. intros. unfold count_user. now rewrite filter_app, app_length. Qed.

Lemma list_snoc_cases : forall A (l : list A), l = [] \/ exists l' x, l = l' ++ [x].
Proof. intros. destruct l using rev_ind; eauto. Qed.

Lemma nodup_ids_l : forall (q s : list entry), NoDup (map e_id (q ++ s)) -> NoDup (map e_id q).
Proof. intros. rewrite map_app in H. eapply NoDup_app_l; eauto. Qed.
Lemma nodup_ids_r : forall (q s : list entry), NoDup (map e_id (q ++ s)) -> NoDup (map e_id s).
Proof. intros. rewrite map_app in H. eapply NoDup_app_r; eauto. Qed.
Lemma nodup_ids_disj : forall (q s : list entry) x y, NoDup (map e_id (q ++ s)) -> In x q -> In y s -> e_id x <> e_id y.
Proof.
  intros. rewrite map_app in H. intro Heq. eapply NoDup_app_disj; [exact H| |].
  - apply in_ids; eauto. - rewrite Heq. now apply in_ids.
Qed.

Ltac projs := cbn [fst snd a_q a_smq a_next a_sm_enabled a_r_sent a_sent_nr a_connected a_sched a_wire a_log
                       s_heap s_next s_head s_tail s_len s_ulen s_sm_enabled s_r_sent s_sent_nr
                       s_smq_head s_smq_tail s_connected s_sched s_wire] in *.

Lemma enqueue_refines : forall st a data ow ud, Refines st a ->
  exists st', enqueue st data ow ud = Ok (st', a_next a) /\ Refines st' (fst (a_enqueue a data ow ud)).
Proof.
  intros st a data ow ud HR. dR HR.
  set (item := s_next st).
  set (nd := mkNode data 0 false ow ud 0 (s_tail st) None).
  set (e := mkE (a_next a) ow data 0 false ud 0).
  assert (Hitem : e_id e = item) by (cbn; unfold item; congruence).
  assert (Hitem0 : item = s_next st) by reflexivity.
  assert (Hent : entry_of item nd = e) by (unfold entry_of, e, nd, item; cbn; now rewrite Hnext).
  assert (Hndp : n_prev nd = s_tail st) by reflexivity.
  assert (Hndn : n_next nd = None) by reflexivity.
  assert (Hue : count_user [e] = if is_user ow then 1%nat else 0%nat).
  { unfold count_user, e_user, e. cbn. destruct (is_user ow); reflexivity. }
  assert (Hfq : forall x, In x (a_q a) -> e_id x <> item).
  { intros x Hx. pose proof (lseg_ids_below _ _ _ _ _ Hq Hfresh x Hx). unfold item. lia. }
  assert (Hfs : forall x, In x (a_smq a) -> e_id x <> item).
  { intros x Hx. pose proof (lseg_ids_below _ _ _ _ _ Hsq Hfresh x Hx). unfold item. lia. }
  assert (Hnd' : NoDup (map e_id ((a_q a ++ [e]) ++ a_smq a))).
  { eapply Permutation_NoDup with (l := map e_id (e :: a_q a ++ a_smq a)).
    - apply Permutation_map. rewrite <- app_assoc. cbn. apply Permutation_middle.
    - cbn [map]. constructor; auto. intro Hin. apply in_map_iff in Hin. destruct Hin as (x & Hxe & Hx).
      rewrite Hitem in Hxe. apply in_app_or in Hx. destruct Hx as [Hx|Hx]; [eapply Hfq|eapply Hfs]; eauto. }
  assert (Haq : fst (a_enqueue a data ow ud) =
                mkA (a_q a ++ [e]) (a_smq a) (S (a_next a)) (a_sm_enabled a) (a_r_sent a) (a_sent_nr a) (a_connected a)
                    (a_sched a) (a_wire a) (a_log a ++ [mkL e Queued])) by reflexivity.
  rewrite Haq. clear Haq.
  destruct (list_snoc_cases _ (a_q a)) as [Hnil|(l & lst & Hl)].
  - (* empty queue *)
    rewrite Hnil in *. cbn in Htl, Hhd.
    assert (Henq : enqueue st data ow ud =
      Ok (mkSt (upd (s_heap st) item (Live nd)) (S item) (Some item) (Some item) (s_len st + 1)
           (if is_user ow then s_ulen st + 1 else s_ulen st)
           (s_sm_enabled st) (s_r_sent st) (s_sent_nr st) (s_smq_head st) (s_smq_tail st)
           (s_connected st) (s_sched st) (s_wire st), item)).
    { unfold enqueue. cbv zeta. fold item. fold nd. rewrite Htl. reflexivity. }
    rewrite Henq. clear Henq. clearbody e nd item.
    eexists. split. { rewrite <- Hnext, <- Hitem0. reflexivity. }
    unfold Refines. projs. cbn [app].
    repeat split; auto.
    + cbn [lseg hd_id]. exists nd. rewrite Hitem, upd_same. rewrite Hndp, Htl. repeat split; auto.
    + cbn. now rewrite Hitem.
    + cbn. now rewrite Hitem.
    + eapply lseg_frame; [|exact Hsq]. intros x Hx. apply upd_other. now apply Hfs.
    + intros x Hx. rewrite upd_other by lia. apply Hfresh. lia.
    + cbn in *. lia.
    + rewrite Hue. cbn in Hulen. destruct (is_user ow); lia.
    + lia.
  - (* append behind lst *)
    rewrite Hl in *. rewrite last_id_snoc in Htl.
    destruct (lseg_mid l lst [] _ _ _ Hq) as (n & Hn & Hen & Hpn & Hxn).
    assert (Hlst : e_id lst <> item) by (apply Hfq, in_or_app; cbn; auto).
    assert (Henq : enqueue st data ow ud =
      Ok (mkSt (upd (upd (s_heap st) item (Live nd)) (e_id lst) (Live (with_next (Some item) n)))
           (S item) (s_head st) (Some item) (s_len st + 1)
           (if is_user ow then s_ulen st + 1 else s_ulen st)
           (s_sm_enabled st) (s_r_sent st) (s_sent_nr st) (s_smq_head st) (s_smq_tail st)
           (s_connected st) (s_sched st) (s_wire st), item)).
    { unfold enqueue. cbv zeta. fold item. fold nd. rewrite Htl.
      erewrite store_live by (rewrite upd_other by exact Hlst; exact Hn). reflexivity. }
    rewrite Henq. clear Henq. clearbody e nd item.
    eexists. split. { rewrite <- Hnext, <- Hitem0. reflexivity. }
    unfold Refines. projs.
    assert (Hq1 : lseg (upd (s_heap st) item (Live nd)) None (l ++ [lst]) None).
    { eapply lseg_frame; [|exact Hq]. intros x Hx. apply upd_other. now apply Hfq. }
    repeat split; auto.
    + apply lseg_app. split.
      * cbn [hd_id]. rewrite Hitem. eapply lseg_set_last_next; eauto.
        -- eapply nodup_ids_l; eauto.
        -- rewrite upd_other by exact Hlst. exact Hn.
      * cbn [lseg hd_id]. exists nd. rewrite Hitem. rewrite upd_other by congruence. rewrite upd_same.
        repeat split; auto. rewrite Hndp, Htl. now rewrite last_id_snoc.
    + rewrite hd_id_app. rewrite hd_id_app in Hhd. destruct l; cbn in *; auto.
    + rewrite last_id_snoc. now rewrite Hitem.
    + eapply lseg_frame; [|exact Hsq]. intros x Hx.
      rewrite upd_other. { apply upd_other. now apply Hfs. }
      intro Heq. eapply (nodup_ids_disj _ _ lst x Hnd); auto. apply in_or_app; cbn; auto.
    + intros x Hx. rewrite upd_other. { rewrite upd_other by lia. apply Hfresh. lia. }
      pose proof (lseg_ids_below _ _ _ _ _ Hq Hfresh lst).
      assert (In lst (l ++ [lst])) by (apply in_or_app; cbn; auto). specialize (H H0). lia.
    + rewrite !app_length in *. cbn in *. lia.
    + rewrite count_user_app. rewrite Hue. destruct (is_user ow); lia.
    + lia.
Qed.

Lemma set_r_sent_refines : forall st a b, Refines st a -> Refines (set_r_sent st b) (a_set_r_sent a b).
Proof. intros st a b HR. dR HR. unfold Refines, set_r_sent, a_set_r_sent. projs. repeat split; auto. Qed.

Lemma a_enqueue_snd : forall a d ow l, snd (a_enqueue a d ow l) = a_next a.
Proof. reflexivity. Qed.

Lemma send_refines : forall st a ow d, Refines st a ->
  exists st', op_send st ow d = Ok st' /\ Refines st' (a_send a ow d).
Proof.
  intros st a ow d HR. unfold op_send, a_send.
  assert (Hc : s_connected st = a_connected a) by (dR HR; auto). rewrite Hc.
  destruct (a_connected a) eqn:Hcon; [|eauto].
  unfold send_raw_inner.
  assert (Hse : s_sm_enabled st = a_sm_enabled a) by (dR HR; auto). rewrite Hse. cbv zeta.
  generalize (effective_owner (a_sm_enabled a) ow). clear ow. intros ow.
  destruct (enqueue_refines st a d ow None HR) as (st1 & He1 & HR1). rewrite He1. cbn [bind].
  destruct (a_enqueue a d ow None) as [a1 item] eqn:Ea.
  assert (item = a_next a) by (rewrite <- (a_enqueue_snd a d ow None), Ea; reflexivity). subst item.
  cbn [fst] in HR1.
  assert (Hf : s_sm_enabled st1 = a_sm_enabled a1 /\ s_r_sent st1 = a_r_sent a1) by (dR HR1; auto).
  destruct Hf as [-> ->].
  destruct (negb (is_sm ow) && a_sm_enabled a1 && negb (a_r_sent a1)) eqn:Ec; [|eauto].
  pose proof (set_r_sent_refines st1 a1 true HR1) as HR2.
  assert (Hc2 : s_connected (set_r_sent st1 true) = a_connected (a_set_r_sent a1 true)) by (dR HR2; auto).
  rewrite Hc2. destruct (a_connected (a_set_r_sent a1 true)); [|eauto].
  destruct (enqueue_refines _ _ req_ack OwSmLib (Some (a_next a)) HR2) as (st3 & He3 & HR3).
  rewrite He3. cbn [bind fst]. eauto.
Qed.

(* ================================================================== refinement: queue length *)
Lemma entry_of_fields : forall i n e, entry_of i n = e ->
  e_id e = i /\ n_owner n = e_owner e /\ n_data n = e_data e /\ n_written n = e_sent e /\ n_wip n = e_wip e /\
  n_userdata n = e_link e /\ n_smh n = e_smh e.
Proof. intros. subst. cbn. repeat split; auto. Qed.

Lemma qlen_refines : forall st a, Refines st a -> op_qlen st = Ok (a_qlen a).
Proof.
  intros st a HR. dR HR. unfold op_qlen, a_qlen.
  destruct (a_q a) as [|e r] eqn:Eq; cbn in Hhd; rewrite Hhd.
  - now rewrite Hulen.
  - cbn [lseg] in Hq. destruct Hq as (n & Hn & He & _).
    rewrite (load_live _ _ _ Hn). cbn [bind].
    apply entry_of_fields in He. destruct He as (_ & Ho & _ & _ & Hw & _).
    unfold e_user. rewrite Hw, Ho, Hulen. destruct (e_wip e && is_user (e_owner e)); reflexivity.
Qed.

(* ================================================================== refinement: appending to the SM queue *)
Lemma smq_add_back_ok : forall st h item nitem smq e2,
  lseg h None smq None -> s_smq_head st = hd_id smq None -> s_smq_tail st = last_id smq None ->
  h item = Live nitem -> (forall x, In x smq -> e_id x <> item) -> NoDup (map e_id smq) ->
  entry_of item nitem = e2 ->
  exists h', smq_add_back st h item = Ok (h', hd_id (smq ++ [e2]) None, Some item) /\
             lseg h' None (smq ++ [e2]) None /\
             (forall y, y <> item -> (forall x, In x smq -> e_id x <> y) -> h' y = h y) /\
             (forall y, h y = Unalloc -> h' y = Unalloc).
Proof.
  intros st h item nitem smq e2 Hs Hhd Htl Hit Hne Hnd He2.
  assert (Hid : e_id e2 = item) by (subst e2; reflexivity).
  unfold smq_add_back.
  rewrite (store_live _ _ _ _ Hit). cbn [bind].
  destruct (list_snoc_cases _ smq) as [Hnil|(l & lst & Hl)].
  - subst smq. cbn in Htl, Hhd. rewrite Htl.
    erewrite store_live by apply upd_same. cbn [bind].
    eexists. split; [|split; [|split]].
    + cbn. rewrite Hid. reflexivity.
    + cbn [app lseg hd_id]. eexists. rewrite Hid, upd_same. repeat split; auto.
    + intros y Hy _. rewrite !upd_other by auto. reflexivity.
    + intros y Hy. assert (y <> item) by (intro; subst; congruence). rewrite !upd_other by auto. auto.
  - subst smq. rewrite last_id_snoc in Htl. rewrite Htl.
    destruct (lseg_mid l lst [] _ _ _ Hs) as (nl & Hnl & Henl & Hpl & Hxl).
    assert (Hlst : e_id lst <> item) by (apply Hne, in_or_app; cbn; auto).
    erewrite store_live by apply upd_same. cbn [bind].
    erewrite store_live by (rewrite !upd_other by exact Hlst; exact Hnl). cbn [bind].
    eexists. split; [|split; [|split]].
    + rewrite hd_id_app. rewrite hd_id_app in Hhd. cbn [hd_id] in *. rewrite Hhd.
      destruct l; reflexivity.
    + apply lseg_app. split.
      * cbn [hd_id]. rewrite Hid. eapply lseg_set_last_next; eauto.
        -- eapply lseg_frame; [|exact Hs]. intros x Hx. rewrite !upd_other by (apply Hne; auto). reflexivity.
        -- rewrite !upd_other by exact Hlst. exact Hnl.
      * cbn [lseg hd_id]. eexists. rewrite Hid. rewrite upd_other by congruence. rewrite upd_same.
        repeat split; auto. cbn. now rewrite last_id_snoc.
    + intros y Hy Hys. rewrite upd_other. { rewrite !upd_other by auto. reflexivity. }
      intro; subst y. apply (Hys lst); auto. apply in_or_app; cbn; auto.
    + intros y Hy. assert (y <> item) by (intro; subst; congruence).
      assert (y <> e_id lst) by (intro; subst; congruence). rewrite !upd_other by auto. auto.
Qed.

(* ================================================================== refinement: the write loop *)
(* the old head [e] has left the queue (freed or moved); the new head's prev is cleared *)
Lemma pop_head_fix : forall st a e r h4 smq' qh' qt' nr' sched' wire' log' ulen',
  Refines st a -> a_q a = e :: r ->
  lseg h4 None smq' None -> qh' = hd_id smq' None -> qt' = last_id smq' None ->
  (forall x, In x r -> h4 (e_id x) = s_heap st (e_id x)) ->
  (forall y, (s_next st <= y)%nat -> h4 y = Unalloc) ->
  NoDup (map e_id (r ++ smq')) ->
  ulen' = Z.of_nat (count_user r) ->
  exists h5,
    match hd_id r None with
    | None => Ok h4
    | Some x => store h4 x (with_prev None)
    end = Ok h5 /\
    Refines (mkSt h5 (s_next st) (hd_id r None) (match hd_id r None with None => None | Some _ => s_tail st end)
                  (s_len st - 1) ulen' (s_sm_enabled st) (s_r_sent st) nr' qh' qt' (s_connected st) sched' wire')
            (mkA r smq' (a_next a) (a_sm_enabled a) (a_r_sent a) nr' (a_connected a) sched' wire' log').
Proof.
  intros st a e r h4 smq' qh' qt' nr' sched' wire' log' ulen' HR Eq Hs4 Hqh Hqt Hfr Hun Hnd4 Hul.
  dR HR. rewrite Eq in *. cbn [lseg] in Hq. destruct Hq as (n & Hn & He & Hp & Hx & Hr).
  destruct r as [|x r'].
  - cbn [hd_id]. eexists. split; [reflexivity|].
    unfold Refines. projs. cbn in Hlen. repeat split; auto. cbn. lia.
  - cbn [hd_id]. cbn [lseg] in Hr. destruct Hr as (nx & Hnx & Hex & Hpx & Hxx & Hr').
    assert (H4x : h4 (e_id x) = Live nx) by (rewrite Hfr by (cbn; auto); exact Hnx).
    rewrite (store_live _ _ _ _ H4x).
    eexists. split; [reflexivity|].
    unfold Refines. projs.
    assert (Hndr : NoDup (map e_id (x :: r'))) by (eapply nodup_ids_l; eauto).
    repeat split; auto.
    + eapply lseg_set_first_prev with (p := Some (e_id e)); eauto.
      cbn [lseg]. exists nx. repeat split; auto.
      eapply lseg_frame; [|exact Hr']. intros y Hy. apply Hfr. cbn; auto.
    + eapply lseg_frame; [|exact Hs4]. intros y Hy. apply upd_other.
      intro Heq. eapply (nodup_ids_disj _ _ x y Hnd4); cbn; auto.
    + intros y Hy. rewrite upd_other; auto.
      pose proof (live_below st (e_id x) nx Hfresh Hnx). lia.
    + cbn [length] in *. lia.
Qed.

Lemma entry_progress : forall i n w, entry_of i (with_progress w n) = progress (entry_of i n) w.
Proof. reflexivity. Qed.
Lemma entry_smh : forall i n h, entry_of i (with_smh h n) = set_smh (entry_of i n) h.
Proof. reflexivity. Qed.

Lemma count_user_cons : forall e r, Z.of_nat (count_user (e :: r)) = (if e_user e then 1 else 0) + Z.of_nat (count_user r).
Proof. intros. unfold count_user. cbn. destruct (e_user e); cbn [length]; lia. Qed.

Lemma write_loop_refines : forall q st a err fuel,
  Refines st a -> a_q a = q -> (length q < fuel)%nat ->
  exists st', write_loop true fuel st (s_head st) err = Ok (st', snd (a_loop q a err)) /\
              Refines st' (fst (a_loop q a err)).
Proof.
  induction q as [|e r IH]; intros st a err fuel HR Eq Hfuel.
  - pose proof HR as HR'. dR HR'. rewrite Eq in *. cbn in Hhd. rewrite Hhd.
    destruct fuel; cbn [write_loop a_loop fst snd]; (eexists; split; [reflexivity|]);
      unfold Refines; projs; repeat split; auto.
  - destruct fuel as [|f]; [cbn in Hfuel; lia|].
    pose proof HR as HR'. dR HR'. rewrite Eq in *. cbn [hd_id] in Hhd. rewrite Hhd.
    cbn [lseg] in Hq. destruct Hq as (n & Hn & He & Hp & Hx & Hr).
    pose proof (entry_of_fields _ _ _ He) as (_ & Ho & Hd & Hw & Hwip & Hud & Hsmh).
    cbn [write_loop a_loop]. rewrite (load_live _ _ _ Hn). cbn [bind].
    rewrite Hd, Hw, Hsched.
    destruct (pop_sched (a_sched a)) as [res sched'].
    destruct (write_result res (length (e_data e) - e_sent e)) as [ret er].
    set (w' := match ret with
               | Some k => if (Nat.ltb 0 k && Nat.ltb k (length (e_data e) - e_sent e))%bool then (e_sent e + k)%nat else e_sent e
               | None => e_sent e end).
    set (acc := match ret with Some k => k | None => O end).
    rewrite (store_live _ _ _ _ Hn). cbn [bind].
    assert (Hndq : NoDup (map e_id (e :: r))) by (eapply nodup_ids_l; eauto).
    assert (Hne_r : forall x, In x r -> e_id x <> e_id e).
    { intros x Hxr Heq. inversion Hndq; subst. apply H1. rewrite <- Heq. now apply in_ids. }
    assert (Hne_s : forall x, In x (a_smq a) -> e_id x <> e_id e).
    { intros x Hxs Heq. eapply (nodup_ids_disj _ _ e x Hnd); cbn; auto. }
    destruct (match ret with Some k => Nat.eqb k (length (e_data e) - e_sent e) | None => false end) eqn:Ecomp;
      cbn [negb].
    + (* element complete: it leaves the queue *)
      rewrite Ho, Hsm, Hx, Hwire, Hnr.
      assert (Hul' : (if is_user (e_owner e) then s_ulen st - 1 else s_ulen st) = Z.of_nat (count_user r)).
      { rewrite Hulen, count_user_cons. unfold e_user. destruct (is_user (e_owner e)); lia. }
      rewrite Hul'.
      destruct (negb (is_sm (e_owner e)) && a_sm_enabled a) eqn:Ecnt.
      * (* moved to the SM queue *)
        erewrite store_live by apply upd_same. cbn [bind].
        set (n2 := with_smh (a_sent_nr a) (with_progress w' n)).
        set (e2 := set_smh (progress e w') (a_sent_nr a)).
        assert (He2 : entry_of (e_id e) n2 = e2).
        { unfold n2, e2. rewrite entry_smh, entry_progress, He. reflexivity. }
        set (h2 := upd (upd (s_heap st) (e_id e) (Live (with_progress w' n))) (e_id e) (Live n2)).
        assert (Hs2 : lseg h2 None (a_smq a) None).
        { eapply lseg_frame; [|exact Hsq]. intros x Hxs. unfold h2. rewrite !upd_other by (apply Hne_s; auto). reflexivity. }
        destruct (smq_add_back_ok st h2 (e_id e) n2 (a_smq a) e2 Hs2 Hshd Hstl) as (h3 & Hadd & Hs3 & Hfr3 & Hun3);
          auto.
        { unfold h2. apply upd_same. }
        { eapply nodup_ids_r; eauto. }
        rewrite Hadd. cbn [bind].
        assert (Hnd4 : NoDup (map e_id (r ++ a_smq a ++ [e2]))).
        { eapply Permutation_NoDup; [|exact Hnd].
          assert (Hide : e_id e2 = e_id e) by reflexivity.
          cbn [app map]. rewrite !map_app. cbn [map]. rewrite Hide.
          rewrite app_assoc. apply Permutation_cons_append. }
        edestruct (pop_head_fix st a e r h3 (a_smq a ++ [e2]) (hd_id (a_smq a ++ [e2]) None) (Some (e_id e))
                     (w32 (a_sent_nr a + 1)) sched'
                     (a_wire a ++ map (pair (e_id e)) (firstn acc (skipn (e_sent e) (e_data e))))
                     (log_set (a_log a) e2 Done) (Z.of_nat (count_user r)) HR Eq Hs3) as (h5 & Hfix & HR5); auto.
        { now rewrite last_id_snoc. }
        { intros x Hxr. rewrite Hfr3.
          - unfold h2. rewrite !upd_other by (apply Hne_r; auto). reflexivity.
          - apply Hne_r; auto.
          - intros y Hy Heq. eapply (nodup_ids_disj _ _ x y Hnd); cbn; auto. }
        { intros y Hy. apply Hun3. unfold h2.
          pose proof (live_below st (e_id e) n Hfresh Hn). rewrite !upd_other by lia. auto. }
        rewrite Hfix. cbn [bind].
        destruct (IH _ _ (err || er)%bool f HR5 eq_refl) as (st' & Hloop & HR').
        { cbn in Hfuel. lia. }
        cbn [s_head] in Hloop. rewrite Hsm in Hloop.
        exists st'. split; [exact Hloop|exact HR'].
      * (* freed *)
        cbn [bind].
        edestruct (pop_head_fix st a e r (upd (upd (s_heap st) (e_id e) (Live (with_progress w' n))) (e_id e) Freed)
                     (a_smq a) (s_smq_head st) (s_smq_tail st)
                     (a_sent_nr a) sched'
                     (a_wire a ++ map (pair (e_id e)) (firstn acc (skipn (e_sent e) (e_data e))))
                     (log_set (a_log a) (progress e w') Done) (Z.of_nat (count_user r)) HR Eq) as (h5 & Hfix & HR5); auto.
        { eapply lseg_frame; [|exact Hsq]. intros x Hxs. rewrite !upd_other by (apply Hne_s; auto). reflexivity. }
        { intros x Hxr. rewrite !upd_other by (apply Hne_r; auto). reflexivity. }
        { intros y Hy. pose proof (live_below st (e_id e) n Hfresh Hn). rewrite !upd_other by lia. auto. }
        { cbn [app map] in Hnd. inversion Hnd; auto. }
        rewrite Hfix. cbn [bind].
        destruct (IH _ _ (err || er)%bool f HR5 eq_refl) as (st' & Hloop & HR').
        { cbn in Hfuel. lia. }
        cbn [s_head] in Hloop. rewrite Hsm in Hloop.
        exists st'. split; [exact Hloop|exact HR'].
    + (* incomplete: stop here *)
      eexists. split; [rewrite Hwire; reflexivity|].
      cbn [fst]. unfold Refines. projs.
      repeat split; auto.
      * eapply lseg_update_first with (e := e) (f := with_progress w'); eauto.
        -- cbn [lseg]. exists n. repeat split; auto.
        -- rewrite entry_progress, He. reflexivity.
      * eapply lseg_frame; [|exact Hsq]. intros x Hxs. apply upd_other. apply Hne_s; auto.
      * intros y Hy. pose proof (live_below st (e_id e) n Hfresh Hn). rewrite upd_other by lia. auto.
      * rewrite Hulen. rewrite !count_user_cons. reflexivity.
Qed.

Lemma queue_length_bound : forall st a, Refines st a -> (length (a_q a) <= s_next st)%nat.
Proof.
  intros st a HR. dR HR. rewrite <- (map_length e_id). apply NoDup_bounded_length.
  - eapply nodup_ids_l; eauto.
  - intros x Hx. apply in_map_iff in Hx. destruct Hx as (e & <- & He). eapply (lseg_ids_below _ _ _ _ _ Hq Hfresh); auto.
Qed.
Lemma smq_length_bound : forall st a, Refines st a -> (length (a_smq a) <= s_next st)%nat.
Proof.
  intros st a HR. dR HR. rewrite <- (map_length e_id). apply NoDup_bounded_length.
  - eapply nodup_ids_r; eauto.
  - intros x Hx. apply in_map_iff in Hx. destruct Hx as (e & <- & He). eapply (lseg_ids_below _ _ _ _ _ Hsq Hfresh); auto.
Qed.

Lemma disconnect_refines : forall st a, Refines st a -> Refines (disconnect st) (a_disconnect a).
Proof. intros st a HR. dR HR. unfold Refines, disconnect, a_disconnect. projs. repeat split; auto. Qed.

Lemma iter_refines : forall st a, Refines st a ->
  exists st', op_iter true st = Ok (st', snd (a_iter a)) /\ Refines st' (fst (a_iter a)).
Proof.
  intros st a HR. unfold op_iter, a_iter.
  assert (Hc : s_connected st = a_connected a) by (dR HR; auto). rewrite Hc.
  destruct (a_connected a); [|eauto].
  destruct (write_loop_refines (a_q a) st a false (S (s_next st)) HR eq_refl) as (st1 & Hl & HR1).
  { pose proof (queue_length_bound _ _ HR). lia. }
  rewrite Hl. cbn [bind].
  destruct (a_loop (a_q a) a false) as [a1 err]. cbn [fst snd] in *.
  destruct err; eexists; (split; [reflexivity|]); cbn [fst]; auto using disconnect_refines.
Qed.

(* ================================================================== refinement: server ack *)
Lemma ack_loop_refines : forall ack smq h qh qt fuel,
  lseg h None smq None -> qh = hd_id smq None -> qt = last_id smq None -> NoDup (map e_id smq) ->
  (length smq < fuel)%nat ->
  exists h', smq_ack_loop fuel h qh qt ack = Ok (h', hd_id (ack_drop smq ack) None, last_id (ack_drop smq ack) None) /\
             lseg h' None (ack_drop smq ack) None /\
             (forall y, (forall x, In x smq -> e_id x <> y) -> h' y = h y) /\
             (forall y, h y = Unalloc -> h' y = Unalloc).
Proof.
  induction smq as [|e r IH]; intros h qh qt fuel Hs Hqh Hqt Hnd Hfuel.
  - subst. cbn. destruct fuel; cbn; eexists; repeat split; auto.
  - destruct fuel as [|f]; [cbn in Hfuel; lia|]. subst qh qt.
    cbn [lseg] in Hs. destruct Hs as (n & Hn & He & Hp & Hx & Hr).
    pose proof (entry_of_fields _ _ _ He) as (_ & _ & _ & _ & _ & _ & Hsmh).
    cbn [smq_ack_loop hd_id ack_drop]. rewrite (load_live _ _ _ Hn). cbn [bind]. rewrite Hsmh.
    destruct (e_smh e <? ack) eqn:Elt.
    + rewrite Hx.
      assert (Hne_r : forall x, In x r -> e_id x <> e_id e).
      { intros x Hxr Heq. inversion Hnd; subst. apply H1. rewrite <- Heq. now apply in_ids. }
      assert (Hndr : NoDup (map e_id r)) by (inversion Hnd; auto).
      destruct r as [|x r'].
      * cbn [hd_id bind]. rewrite (store_live _ _ _ _ Hn). cbn [bind].
        destruct (IH (upd (upd h (e_id e) (Live (with_next None (with_prev None n)))) (e_id e) Freed) None None f)
          as (h' & Hl & Hs' & Hfr & Hun); auto; try exact I.
        { cbn in *. lia. }
        exists h'. split; [exact Hl|]. split; [exact Hs'|]. split.
        -- intros y Hy. rewrite Hfr by (intros ? []).
           assert (y <> e_id e) by (intro; subst; apply (Hy e); cbn; auto). rewrite !upd_other; auto.
        -- intros y Hy. apply Hun. assert (y <> e_id e) by (intro; subst; congruence). rewrite !upd_other; auto.
      * cbn [hd_id]. cbn [lseg] in Hr. destruct Hr as (nx & Hnx & Hex & Hpx & Hxx & Hr').
        rewrite (store_live _ _ _ _ Hnx). cbn [bind].
        assert (Hxe : e_id x <> e_id e) by (apply Hne_r; cbn; auto).
        erewrite store_live by (rewrite upd_other by congruence; exact Hn). cbn [bind].
        set (h3 := upd (upd (upd h (e_id x) (Live (with_prev None nx))) (e_id e)
                             (Live (with_next None (with_prev None n)))) (e_id e) Freed).
        destruct (IH h3 (Some (e_id x)) (last_id (e :: x :: r') None) f) as (h' & Hl & Hs' & Hfr & Hun); auto.
        { unfold h3. eapply lseg_frame with (h := upd h (e_id x) (Live (with_prev None nx))).
          - intros y Hy. rewrite !upd_other by (apply Hne_r; auto). reflexivity.
          - eapply lseg_set_first_prev with (p := Some (e_id e)); eauto.
            cbn [lseg]. exists nx. repeat split; auto. }
        { cbn in *. lia. }
        exists h'. split; [exact Hl|]. split; [exact Hs'|]. split.
        -- intros y Hy. rewrite Hfr by (intros z Hz; apply Hy; cbn; auto).
           assert (y <> e_id e) by (intro; subst; apply (Hy e); cbn; auto).
           assert (y <> e_id x) by (intro; subst; apply (Hy x); cbn; auto).
           unfold h3. rewrite !upd_other; auto.
        -- intros y Hy. apply Hun. unfold h3.
           assert (y <> e_id e) by (intro; subst; congruence).
           assert (y <> e_id x) by (intro; subst; congruence). rewrite !upd_other; auto.
    + exists h. split; [reflexivity|]. split; [|split; auto].
      cbn [lseg]. exists n. repeat split; auto.
Qed.

Lemma NoDup_app_drop_mid : forall A (l1 p l3 : list A), NoDup (l1 ++ p ++ l3) -> NoDup (l1 ++ l3).
Proof.
  induction l1; cbn; intros.
  - eapply NoDup_app_r; eauto.
  - inversion H; subst. constructor; [|eauto].
    intro Hin. apply H2. apply in_app_or in Hin. apply in_or_app. destruct Hin; auto. right. apply in_or_app; auto.
Qed.

Lemma ack_drop_incl : forall ack l x, In x (ack_drop l ack) -> In x l.
Proof. induction l; cbn; intros; auto. destruct (e_smh a <? ack); auto. Qed.
Lemma ack_drop_suffix : forall ack l, exists p, l = p ++ ack_drop l ack.
Proof.
  induction l as [|e r IH]; cbn. - exists []; auto.
  - destruct (e_smh e <? ack). + destruct IH as (p & Hp). exists (e :: p). cbn. congruence. + exists []. auto.
Qed.

Lemma ack_refines : forall st a h, Refines st a -> exists st', op_ack st h = Ok st' /\ Refines st' (a_ack a h).
Proof.
  intros st a ack HR. unfold op_ack, a_ack. pose proof HR as HR'. dR HR'. rewrite Hconn, Hsm.
  destruct (a_connected a && a_sm_enabled a); [|eauto].
  destruct (ack_loop_refines ack (a_smq a) (s_heap st) (s_smq_head st) (s_smq_tail st) (S (s_next st)))
    as (h' & Hl & Hs' & Hfr & Hun); auto.
  { eapply nodup_ids_r; eauto. }
  { pose proof (smq_length_bound _ _ HR). lia. }
  rewrite Hl. cbn [bind]. eexists. split; [reflexivity|].
  unfold Refines. projs. repeat split; auto.
  - eapply lseg_frame; [|exact Hq]. intros x Hx. apply Hfr. intros y Hy Heq.
    eapply (nodup_ids_disj _ _ x y Hnd); eauto.
  - destruct (ack_drop_suffix ack (a_smq a)) as (p & Hp).
    rewrite Hp in Hnd. rewrite !map_app in Hnd. rewrite map_app.
    eapply NoDup_app_drop_mid; eauto.
Qed.

(* ================================================================== refinement: dropping *)
Lemma split_first_spec : forall l a t b, split_first l = Some (a, t, b) ->
  l = a ++ t :: b /\ e_user t = true /\ Forall (fun x => e_user x = false) a.
Proof.
  induction l as [|e r IH]; intros a t b H; cbn in H; [discriminate|].
  destruct (e_user e) eqn:Eu.
  - inversion H; subst. repeat split; auto.
  - destruct (split_first r) as [[[a' t'] b']|] eqn:Es; [|discriminate]. inversion H; subst.
    destruct (IH _ _ _ eq_refl) as (-> & Ht & Ha). repeat split; auto.
Qed.
Lemma split_first_none : forall l, split_first l = None -> Forall (fun x => e_user x = false) l.
Proof.
  induction l as [|e r IH]; intros H; cbn in H; [constructor|].
  destruct (e_user e) eqn:Eu; [discriminate|]. destruct (split_first r) as [[[a' t'] b']|]; [discriminate|].
  constructor; auto.
Qed.
Lemma split_last_snoc : forall l e, split_last (l ++ [e]) =
  if e_user e then Some (l, e, [])
  else match split_last l with Some (a, t, b) => Some (a, t, b ++ [e]) | None => None end.
Proof.
  intros. unfold split_last. rewrite rev_app_distr. cbn. destruct (e_user e).
  - cbn. now rewrite rev_involutive.
  - destruct (split_first (rev l)) as [[[a t] b]|]; cbn; auto.
Qed.
Lemma split_last_spec : forall l a t b, split_last l = Some (a, t, b) ->
  l = a ++ t :: b /\ e_user t = true /\ Forall (fun x => e_user x = false) b.
Proof.
  intros l a t b H. unfold split_last in H.
  destruct (split_first (rev l)) as [[[a' t'] b']|] eqn:Es; [|discriminate]. inversion H; subst.
  destruct (split_first_spec _ _ _ _ Es) as (Hl & Ht & Ha). repeat split; auto.
  - rewrite <- (rev_involutive l), Hl, rev_app_distr. cbn. now rewrite <- app_assoc.
  - apply Forall_forall. intros x Hx. rewrite Forall_forall in Ha. apply Ha. now apply in_rev.
Qed.

Lemma search_back_ok : forall l h nx fuel, lseg h None l nx -> (length l < fuel)%nat ->
  search_back fuel h (last_id l None) =
  Ok (match split_last l with Some (_, t, _) => Some (e_id t) | None => None end).
Proof.
  induction l as [|e l IH] using rev_ind; intros h nx fuel Hs Hf.
  - cbn. destruct fuel; reflexivity.
  - rewrite last_id_snoc. destruct fuel as [|f]; [rewrite app_length in Hf; cbn in Hf; lia|].
    destruct (lseg_mid l e [] _ _ _ Hs) as (n & Hn & He & Hp & Hx).
    pose proof (entry_of_fields _ _ _ He) as (_ & Ho & _).
    cbn [search_back]. rewrite (load_live _ _ _ Hn). cbn [bind].
    rewrite split_last_snoc. unfold e_user. rewrite Ho.
    destruct (is_user (e_owner e)); [reflexivity|].
    rewrite Hp. apply lseg_app in Hs. destruct Hs as [Hs _].
    rewrite (IH h _ f Hs) by (rewrite app_length in Hf; cbn in Hf; lia).
    destruct (split_last l) as [[[a t] b]|]; reflexivity.
Qed.

Lemma search_fwd_ok : forall l h p fuel, lseg h p l None -> (length l < fuel)%nat ->
  search_fwd fuel h (hd_id l None) =
  Ok (match split_first l with Some (_, t, _) => Some (e_id t) | None => None end).
Proof.
  induction l as [|e r IH]; intros h p fuel Hs Hf.
  - cbn. destruct fuel; reflexivity.
  - destruct fuel as [|f]; [cbn in Hf; lia|].
    cbn [lseg] in Hs. destruct Hs as (n & Hn & He & Hp & Hx & Hr).
    pose proof (entry_of_fields _ _ _ He) as (_ & Ho & _).
    cbn [search_fwd hd_id split_first]. rewrite (load_live _ _ _ Hn). cbn [bind].
    unfold e_user. rewrite Ho. destruct (is_user (e_owner e)); [reflexivity|].
    rewrite Hx. rewrite (IH h _ f Hr) by (cbn in Hf; lia).
    destruct (split_first r) as [[[a t] b]|]; reflexivity.
Qed.

(* the two halves of the pointer surgery of _drop_send_queue_element *)
Lemma unlink_prev : forall l1 h t nx', lseg h None l1 (Some t) -> NoDup (map e_id l1) ->
  exists h1, match last_id l1 None with None => Ok h | Some p => store h p (with_next nx') end = Ok h1 /\
             lseg h1 None l1 nx' /\
             (forall y, (forall x, In x l1 -> e_id x <> y) -> h1 y = h y) /\
             (forall y, h y = Unalloc -> h1 y = Unalloc).
Proof.
  intros l1 h t nx' Hs Hnd. destruct (list_snoc_cases _ l1) as [->|(l & e & ->)].
  - cbn. exists h. repeat split; auto.
  - rewrite last_id_snoc. destruct (lseg_mid l e [] _ _ _ Hs) as (n & Hn & He & Hp & Hx).
    rewrite (store_live _ _ _ _ Hn). eexists. split; [reflexivity|]. split; [|split].
    + eapply lseg_set_last_next; eauto.
    + intros y Hy. apply upd_other. intro; subst. apply (Hy e); auto. apply in_or_app; cbn; auto.
    + intros y Hy. rewrite upd_other; auto. intro; subst. congruence.
Qed.

Lemma unlink_next : forall l2 h p p', lseg h p l2 None -> NoDup (map e_id l2) ->
  exists h2, match hd_id l2 None with None => Ok h | Some x => store h x (with_prev p') end = Ok h2 /\
             lseg h2 p' l2 None /\
             (forall y, (forall x, In x l2 -> e_id x <> y) -> h2 y = h y) /\
             (forall y, h y = Unalloc -> h2 y = Unalloc).
Proof.
  intros l2 h p p' Hs Hnd. destruct l2 as [|e r].
  - cbn. exists h. repeat split; auto.
  - cbn [hd_id]. pose proof Hs as Hs0. cbn [lseg] in Hs. destruct Hs as (n & Hn & He & Hp & Hx & Hr).
    rewrite (store_live _ _ _ _ Hn). eexists. split; [reflexivity|]. split; [|split].
    + eapply lseg_set_first_prev; eauto.
    + intros y Hy. apply upd_other. intro; subst. apply (Hy e); cbn; auto.
    + intros y Hy. rewrite upd_other; auto. intro; subst. congruence.
Qed.

Definition a_without (a : astate) (q' : list entry) (rs : bool) (log' : list lentry) : astate :=
  mkA q' (a_smq a) (a_next a) (a_sm_enabled a) rs (a_sent_nr a) (a_connected a) (a_sched a) (a_wire a) log'.

Lemma last_id_in : forall l d, l <> [] -> exists x, In x l /\ last_id l d = Some (e_id x).
Proof.
  intros l d H. destruct (list_snoc_cases _ l) as [->|(l' & x & ->)]; [congruence|].
  exists x. split; [apply in_or_app; cbn; auto|apply last_id_snoc].
Qed.

Lemma opt_eqb_refl : forall x, opt_eqb (Some x) (Some x) = true.
Proof. intros. cbn. apply Nat.eqb_refl. Qed.
Lemma opt_eqb_neq : forall x y, x <> y -> opt_eqb (Some x) (Some y) = false.
Proof. intros. cbn. now apply Nat.eqb_neq. Qed.

Lemma nodup_mid_l : forall (l1 : list entry) t l2 x, NoDup (map e_id (l1 ++ t :: l2)) -> In x l1 -> e_id x <> e_id t.
Proof. intros. eapply (nodup_ids_disj l1 (t :: l2)); eauto. cbn; auto. Qed.
Lemma nodup_mid_r : forall (l1 : list entry) t l2 x, NoDup (map e_id (l1 ++ t :: l2)) -> In x l2 -> e_id x <> e_id t.
Proof.
  intros. apply nodup_ids_r in H. cbn in H. inversion H; subst. intro Heq. apply H3. rewrite <- Heq. now apply in_ids.
Qed.
Lemma nodup_mid_lr : forall (l1 : list entry) t l2 x y, NoDup (map e_id (l1 ++ t :: l2)) -> In x l1 -> In y l2 -> e_id x <> e_id y.
Proof. intros. eapply (nodup_ids_disj l1 (t :: l2)); eauto. cbn; auto. Qed.
Lemma nodup_mid_drop : forall (l1 : list entry) t l2, NoDup (map e_id (l1 ++ t :: l2)) -> NoDup (map e_id (l1 ++ l2)).
Proof. intros. rewrite map_app in *. cbn in H. eapply (NoDup_app_drop_mid _ _ [e_id t]). exact H. Qed.

Lemma drop_element_ok : forall st a l1 t l2 log', Refines st a -> a_q a = l1 ++ t :: l2 ->
  exists st', drop_element st (e_id t) = Ok (st', e_data t) /\
              Refines st' (a_without a (l1 ++ l2) (a_r_sent a) log').
Proof.
  intros st a l1 t l2 log' HR Eq. dR HR. rewrite Eq in *.
  assert (Hndq : NoDup (map e_id (l1 ++ t :: l2))) by (eapply nodup_ids_l; eauto).
  destruct (lseg_mid l1 t l2 _ _ _ Hq) as (n & Hn & He & Hp & Hx).
  pose proof (entry_of_fields _ _ _ He) as (_ & Ho & Hd & _).
  apply lseg_app in Hq. destruct Hq as [Hq1 Hq2]. cbn [hd_id] in Hq1.
  cbn [lseg] in Hq2. destruct Hq2 as (n0 & Hn0 & _ & _ & _ & Hq2).
  destruct (unlink_prev l1 (s_heap st) (e_id t) (hd_id l2 None) Hq1) as (h1 & E1 & Hs1 & Hfr1 & Hun1).
  { apply nodup_ids_l in Hndq. exact Hndq. }
  assert (Hq2' : lseg h1 (Some (e_id t)) l2 None).
  { eapply lseg_frame; [|exact Hq2]. intros x Hxl. apply Hfr1. intros y Hy. eapply nodup_mid_lr; eauto. }
  destruct (unlink_next l2 h1 (Some (e_id t)) (last_id l1 None) Hq2') as (h2 & E2 & Hs2 & Hfr2 & Hun2).
  { apply nodup_ids_r in Hndq. cbn in Hndq. inversion Hndq; auto. }
  unfold drop_element. rewrite (load_live _ _ _ Hn). cbn [bind]. rewrite Hp, Hx, E1. cbn [bind]. rewrite E2. cbn [bind].
  rewrite Hd, Ho.
  eexists. split; [reflexivity|].
  unfold Refines, a_without. projs.
  assert (Hhead : (if opt_eqb (Some (e_id t)) (s_head st) then hd_id l2 None else s_head st) = hd_id (l1 ++ l2) None).
  { rewrite Hhd. destruct l1 as [|x l1']; cbn [app hd_id].
    - now rewrite opt_eqb_refl.
    - rewrite opt_eqb_neq; auto. intro Heq. eapply (nodup_mid_l (x :: l1') t l2 x); cbn; eauto. }
  assert (Htail : match hd_id (l1 ++ l2) None with
                  | None => None
                  | Some _ => if opt_eqb (Some (e_id t)) (s_tail st) then last_id l1 None else s_tail st
                  end = last_id (l1 ++ l2) None).
  { rewrite Htl. rewrite !last_id_app. cbn [last_id].
    destruct l2 as [|y l2'].
    - cbn [last_id]. rewrite opt_eqb_refl. rewrite app_nil_r. destruct l1; reflexivity.
    - destruct (last_id_in (y :: l2') (Some (e_id t))) as (z & Hz & Hlz); [congruence|].
      rewrite Hlz. rewrite opt_eqb_neq.
      + rewrite hd_id_app. destruct l1; cbn [hd_id]; rewrite <- Hlz; apply last_id_some; congruence.
      + intro Heq. eapply (nodup_mid_r l1 t (y :: l2') z); eauto. }
  rewrite Hhead, Htail.
  repeat split; auto.
  - apply lseg_app. split.
    + eapply lseg_frame; [|exact Hs1]. intros x Hxl.
      rewrite upd_other by (eapply nodup_mid_l; eauto).
      apply Hfr2. intros y Hy. intro Heq. eapply (nodup_mid_lr l1 t l2 x y); eauto.
    + eapply lseg_frame; [|exact Hs2]. intros x Hxl. apply upd_other. eapply nodup_mid_r; eauto.
  - eapply lseg_frame; [|exact Hsq]. intros x Hxs.
    assert (Hxt : e_id x <> e_id t).
    { intro Heq. eapply (nodup_ids_disj _ _ t x Hnd); auto. apply in_or_app; cbn; auto. }
    rewrite upd_other by exact Hxt.
    rewrite Hfr2. { apply Hfr1. intros y Hy Heq. eapply (nodup_ids_disj _ _ y x Hnd); auto. apply in_or_app; auto. }
    intros y Hy Heq. eapply (nodup_ids_disj _ _ y x Hnd); auto. apply in_or_app; cbn; auto.
  - rewrite <- app_assoc in Hnd. cbn [app] in Hnd. rewrite map_app in Hnd. cbn [map] in Hnd.
    rewrite <- app_assoc. rewrite map_app.
    eapply (NoDup_app_drop_mid _ _ [e_id t]). cbn [app]. rewrite map_app in Hnd. rewrite map_app. exact Hnd.
  - intros y Hy. pose proof (live_below st (e_id t) n Hfresh Hn). rewrite upd_other by lia.
    apply Hun2, Hun1, Hfresh. exact Hy.
  - rewrite !app_length in *. cbn [length] in *. lia.
  - rewrite Hulen. rewrite !count_user_app. rewrite Nat2Z.inj_add. rewrite count_user_cons. unfold e_user.
    destruct (is_user (e_owner t)); lia.
Qed.

Lemma drop_found_refines : forall st a before t after, Refines st a -> a_q a = before ++ t :: after ->
  exists st', drop_found st (e_id t) = Ok (st', snd (a_drop_at a before t after)) /\
              Refines st' (fst (a_drop_at a before t after)).
Proof.
  intros st a before t after HR Eq. pose proof HR as HR'. dR HR'. rewrite Eq in *.
  destruct (lseg_mid before t after _ _ _ Hq) as (tn & Htn & Het & Hpt & Hxt).
  unfold drop_found, a_drop_at. rewrite (load_live _ _ _ Htn). cbn [bind]. rewrite Hxt.
  destruct after as [|x af'].
  - cbn [hd_id bind].
    destruct (drop_element_ok st a before t [] (log_set (a_log a) t (Dropped (a_connected a))) HR Eq) as (st' & Hd & HR2).
    rewrite Hd. cbn [bind fst snd]. eexists. split; [reflexivity|]. exact HR2.
  - cbn [hd_id].
    assert (Eq2 : a_q a = (before ++ [t]) ++ x :: af') by (rewrite Eq, <- app_assoc; reflexivity).
    assert (Hq' : lseg (s_heap st) None ((before ++ [t]) ++ x :: af') None) by (rewrite <- app_assoc; exact Hq).
    destruct (lseg_mid (before ++ [t]) x af' _ _ _ Hq') as (xn & Hxn & Hex & _ & _).
    pose proof (entry_of_fields _ _ _ Hex) as (_ & _ & _ & _ & _ & Hud & _).
    rewrite (load_live _ _ _ Hxn). cbn [bind]. rewrite Hud.
    destruct (opt_eqb (e_link x) (Some (e_id t))) eqn:Elink.
    + destruct (drop_element_ok st a (before ++ [t]) x af' (log_set (a_log a) x (Dropped (a_connected a))) HR Eq2)
        as (st1 & Hd1 & HR1).
      rewrite Hd1. cbn [bind fst].
      pose proof (set_r_sent_refines _ _ false HR1) as HR1'.
      edestruct (drop_element_ok (set_r_sent st1 false) _ before t af'
                  (log_set (log_set (a_log a) x (Dropped (a_connected a))) t (Dropped (a_connected a))) HR1')
        as (st2 & Hd2 & HR2).
      { cbn. rewrite <- app_assoc. reflexivity. }
      rewrite Hd2. cbn [bind fst snd]. eexists. split; [reflexivity|]. exact HR2.
    + cbn [bind].
      destruct (drop_element_ok st a before t (x :: af') (log_set (a_log a) t (Dropped (a_connected a))) HR Eq)
        as (st' & Hd & HR2).
      rewrite Hd. cbn [bind fst snd]. eexists. split; [reflexivity|]. exact HR2.
Qed.

Lemma search_fwd_user : forall fuel h t n, h t = Live n -> is_user (n_owner n) = true ->
  search_fwd (S fuel) h (Some t) = Ok (Some t).
Proof. intros. cbn. rewrite (load_live _ _ _ H). cbn. now rewrite H0. Qed.

Lemma drop_regular_refines : forall st a w, Refines st a -> a_q a <> [] ->
  exists st', drop_regular st w = Ok (st', snd (a_drop_regular a w)) /\ Refines st' (fst (a_drop_regular a w)).
Proof.
  intros st a w HR Hne. pose proof HR as HR'. dR HR'.
  pose proof (queue_length_bound _ _ HR) as Hbound.
  assert (Hndq : NoDup (map e_id (a_q a))) by (eapply nodup_ids_l; eauto).
  unfold drop_regular, a_drop_regular. rewrite Hconn, Bool.negb_involutive.
  destruct w.
  - (* oldest *)
    cbn [bind]. destruct (a_q a) as [|hd r] eqn:Eq; [congruence|].
    cbn [hd_id] in Hhd. rewrite Hhd. rewrite opt_eqb_refl.
    pose proof Hq as Hq0. cbn [lseg] in Hq. destruct Hq as (hn & Hhn & Hehd & Hphd & Hxhd & Hr).
    pose proof (entry_of_fields _ _ _ Hehd) as (_ & _ & _ & _ & Hwip & _).
    rewrite (load_live _ _ _ Hhn). cbn [bind a_target andb]. rewrite Hwip.
    destruct (e_wip hd && a_connected a) eqn:Eskip.
    + rewrite Hxhd. rewrite (search_fwd_ok r _ _ _ Hr) by (cbn in Hbound; lia). cbn [bind].
      destruct (split_first r) as [[[a' t] b]|] eqn:Es.
      * destruct (split_first_spec _ _ _ _ Es) as (Hl & _).
        apply drop_found_refines; auto. rewrite Eq, Hl. reflexivity.
      * eexists. split; [reflexivity|]. exact HR.
    + change (Some (e_id hd)) with (hd_id (hd :: r) None).
      rewrite (search_fwd_ok (hd :: r) _ _ _ Hq0) by (cbn in *; lia). cbn [bind].
      destruct (split_first (hd :: r)) as [[[a' t] b]|] eqn:Es.
      * destruct (split_first_spec _ _ _ _ Es) as (Hl & _).
        apply drop_found_refines; auto. rewrite Eq, Hl. reflexivity.
      * eexists. split; [reflexivity|]. exact HR.
  - (* youngest *)
    rewrite Htl. rewrite (search_back_ok (a_q a) _ _ _ Hq) by lia. cbn [bind a_target].
    destruct (split_last (a_q a)) as [[[a' t] b]|] eqn:Es; [|eexists; split; [reflexivity|exact HR]].
    destruct (split_last_spec _ _ _ _ Es) as (Hl & Hut & _).
    rewrite Hl in Hq. destruct (lseg_mid a' t b _ _ _ Hq) as (tn & Htn & Het & Hpt & Hxt).
    pose proof (entry_of_fields _ _ _ Het) as (_ & Ho & _ & _ & Hwip & _).
    rewrite (load_live _ _ _ Htn). cbn [bind]. rewrite Hhd, Hl.
    destruct a' as [|x a''].
    + cbn [app hd_id]. rewrite opt_eqb_refl. cbn [andb]. rewrite Hwip.
      destruct (e_wip t && a_connected a) eqn:Eskip.
      * rewrite Hxt. apply lseg_app in Hq. destruct Hq as [_ Hq]. cbn [lseg last_id] in Hq.
        destruct Hq as (_ & _ & _ & _ & _ & Hb).
        rewrite (search_fwd_ok b _ _ _ Hb) by (rewrite Hl in Hbound; cbn in Hbound; lia). cbn [bind].
        destruct (split_first b) as [[[a2 t2] b2]|] eqn:Es2.
        -- destruct (split_first_spec _ _ _ _ Es2) as (Hl2 & _).
           apply drop_found_refines; auto. rewrite Hl, Hl2. reflexivity.
        -- eexists. split; [reflexivity|]. exact HR.
      * rewrite (search_fwd_user _ _ _ _ Htn) by (rewrite Ho; exact Hut). cbn [bind].
        apply drop_found_refines; auto.
    + cbn [app hd_id]. rewrite opt_eqb_neq.
      2:{ intro Heq. rewrite Hl in Hndq. eapply (nodup_mid_l (x :: a'') t b x); cbn; eauto. }
      cbn [andb]. rewrite (search_fwd_user _ _ _ _ Htn) by (rewrite Ho; exact Hut). cbn [bind].
      apply drop_found_refines; auto.
Qed.

Lemma drop_refines : forall st a w, Refines st a ->
  exists st', op_drop st w = Ok (st', snd (a_drop a w)) /\ Refines st' (fst (a_drop a w)).
Proof.
  intros st a w HR. pose proof HR as HR'. dR HR'. unfold op_drop, a_drop.
  destruct (a_q a) as [|e r] eqn:Eq.
  - cbn in Hhd. rewrite Hhd. eexists. split; [reflexivity|exact HR].
  - cbn [hd_id] in Hhd. rewrite Hhd.
    assert (Hne : a_q a <> []) by congruence.
    destruct r as [|e2 r'].
    + cbn in Htl. rewrite Htl, opt_eqb_refl.
      cbn [lseg] in Hq. destruct Hq as (n & Hn & He & _).
      pose proof (entry_of_fields _ _ _ He) as (_ & Ho & _ & _ & Hwip & _).
      rewrite (load_live _ _ _ Hn). cbn [bind]. rewrite Hwip, Hconn, Bool.negb_involutive. unfold e_user. rewrite Ho.
      destruct (e_wip e && a_connected a); [eexists; split; [reflexivity|exact HR]|].
      destruct (negb (is_user (e_owner e))); [eexists; split; [reflexivity|exact HR]|].
      apply drop_regular_refines; auto.
    + rewrite Htl.
      assert (Hneq : opt_eqb (Some (e_id e)) (last_id (e :: e2 :: r') None) = false).
      { destruct (last_id_in (e2 :: r') (Some (e_id e))) as (z & Hz & Hlz); [congruence|].
        cbn [last_id] in *. rewrite Hlz. apply opt_eqb_neq. intro Heq.
        apply nodup_ids_l in Hnd. eapply (nodup_mid_r [] e (e2 :: r') z); eauto. }
      rewrite Hneq. apply drop_regular_refines; auto.
Qed.

(* ================================================================== refinement: whole histories *)
Lemma refines_wire : forall st a, Refines st a -> s_wire st = a_wire a.
Proof. intros st a HR. dR HR. auto. Qed.

Lemma step_refines : forall o st a, Refines st a ->
  exists st', step true st o = Ok (st', snd (a_step a o)) /\ Refines st' (fst (a_step a o)).
Proof.
  intros o st a HR. destruct o as [ow d|l| |w| |h]; cbn [step a_step fst snd].
  - destruct (send_refines st a ow d HR) as (st' & Hs & HR'). rewrite Hs. cbn [bind]. eauto.
  - eexists. split; [reflexivity|]. dR HR. unfold Refines, add_sched, a_add_sched. projs.
    repeat split; auto. congruence.
  - destruct (iter_refines st a HR) as (st' & Hs & HR'). rewrite Hs. cbn [bind fst snd].
    rewrite (refines_wire _ _ HR), (refines_wire _ _ HR'). eauto.
  - destruct (drop_refines st a w HR) as (st' & Hs & HR'). rewrite Hs. cbn [bind fst snd]. eauto.
  - rewrite (qlen_refines st a HR). cbn [bind]. eauto.
  - destruct (ack_refines st a h HR) as (st' & Hs & HR'). rewrite Hs. cbn [bind]. eauto.
Qed.

Lemma init_refines : forall sm, Refines (init sm) (a_init sm).
Proof.
  intros. unfold Refines, init, a_init. projs. cbn. repeat split; auto. constructor.
Qed.

Lemma run_refines : forall ops st a, Refines st a ->
  exists st', run true ops st = Ok (st', snd (a_run ops a)) /\ Refines st' (fst (a_run ops a)).
Proof.
  induction ops as [|o r IH]; intros st a HR; cbn [run a_run fst snd].
  - eauto.
  - destruct (step_refines o st a HR) as (st1 & Hs & HR1). rewrite Hs. cbn [bind fst snd].
    destruct (IH _ _ HR1) as (st2 & Hr & HR2). rewrite Hr. cbn [bind fst snd]. eauto.
Qed.

(* walking the heap from head finds exactly the abstract list *)
Lemma walk_ok : forall l h p fuel, lseg h p l None -> (length l < fuel)%nat ->
  exists w, walk fuel h (hd_id l None) = Ok w /\ entries_of w = l.
Proof.
  induction l as [|e r IH]; intros h p fuel Hs Hf.
  - exists []. destruct fuel; auto.
  - destruct fuel as [|f]; [cbn in Hf; lia|].
    cbn [lseg] in Hs. destruct Hs as (n & Hn & He & Hp & Hx & Hr).
    destruct (IH h _ f Hr) as (w & Hw & Hew); [cbn in Hf; lia|].
    cbn [walk hd_id]. rewrite (load_live _ _ _ Hn). cbn [bind]. rewrite Hx, Hw. cbn [bind].
    eexists. split; [reflexivity|]. unfold entries_of in *. cbn [map fst snd]. now rewrite He, Hew.
Qed.

Lemma queue_of_ok : forall st a, Refines st a -> exists w, queue_of st = Ok w /\ entries_of w = a_q a.
Proof.
  intros st a HR. pose proof (queue_length_bound _ _ HR). dR HR. unfold queue_of. rewrite Hhd.
  eapply walk_ok; eauto. lia.
Qed.
Lemma smq_of_ok : forall st a, Refines st a -> exists w, smq_of st = Ok w /\ entries_of w = a_smq a.
Proof.
  intros st a HR. pose proof (smq_length_bound _ _ HR). dR HR. unfold smq_of. rewrite Hshd.
  eapply walk_ok; eauto. lia.
Qed.

(* ================================================================== the abstract machine: ghost-log invariant *)
Definition lid (l : lentry) : nat := e_id (l_e l).
Definition lqueued (l : lentry) : bool := match l_status l with Queued => true | _ => false end.
(* what an entry of the log has put on the wire so far *)
Definition wirepart (l : lentry) : list (nat * Z) :=
  match l_status l with
  | Done => tag (lid l) (e_data (l_e l))
  | _ => tag (lid l) (firstn (e_sent (l_e l)) (e_data (l_e l)))
  end.
(* untouched: nothing written, never attempted, not finished *)
Definition clean (l : lentry) : Prop := e_sent (l_e l) = 0%nat /\ e_wip (l_e l) = false /\ l_status l <> Done.
Definition good (l : lentry) : Prop :=
  (e_wip (l_e l) = false -> e_sent (l_e l) = 0%nat /\ l_status l <> Done) /\
  (l_status l = Dropped true -> e_sent (l_e l) = 0%nat) /\
  (e_link (l_e l) <> None -> e_owner (l_e l) = OwSmLib /\ e_data (l_e l) = req_ack).
(* everything younger than the oldest queued element is untouched *)
Fixpoint shape (log : list lentry) : Prop :=
  match log with
  | [] => True
  | l :: r => match l_status l with Queued => Forall clean r | _ => shape r end
  end.

Record Kc (q : list entry) (log : list lentry) (wire : list (nat * Z)) (nx : nat) : Prop := mkK {
  k_queue : map l_e (filter lqueued log) = q;
  k_nodup : NoDup (map lid log);
  k_shape : shape log;
  k_good : Forall good log;
  k_wire : wire = concat (map wirepart log);
  k_fresh : Forall (fun l => (lid l < nx)%nat) log }.
Definition K (a : astate) : Prop := Kc (a_q a) (a_log a) (a_wire a) (a_next a).

Lemma clean_shape : forall r, Forall clean r -> shape r.
Proof.
  induction r as [|l r IH]; intros H; cbn; auto. inversion H; subst.
  destruct (l_status l); auto.
Qed.

Lemma shape_snoc : forall log l, shape log -> clean l -> shape (log ++ [l]).
Proof.
  induction log as [|x r IH]; intros l Hs Hc; cbn in *.
  - destruct (l_status l); auto.
  - destruct (l_status x); auto. apply Forall_app. split; auto.
Qed.

Lemma tag_app : forall i a b, tag i (a ++ b) = tag i a ++ tag i b.
Proof. intros. unfold tag. apply map_app. Qed.

Lemma firstn_add : forall A s k (d : list A), firstn (s + k) d = firstn s d ++ firstn k (skipn s d).
Proof.
  induction s; intros; cbn; auto. destruct d; cbn.
  - now rewrite firstn_nil.
  - now rewrite IHs.
Qed.

Lemma clean_wirepart_nil : forall r, Forall clean r -> concat (map wirepart r) = [].
Proof.
  induction r as [|l r IH]; intros H; cbn; auto. inversion H as [|? ? (Hs & _ & Hd) Hr]; subst.
  rewrite IH by auto. unfold wirepart. rewrite Hs. destruct (l_status l); try congruence; reflexivity.
Qed.

Lemma filter_split : forall log l1 t l2, map l_e (filter lqueued log) = l1 ++ t :: l2 ->
  exists L1 L2, log = L1 ++ mkL t Queued :: L2 /\ map l_e (filter lqueued L1) = l1 /\
                map l_e (filter lqueued L2) = l2.
Proof.
  induction log as [|x r IH]; intros l1 t l2 H; cbn in H.
  - destruct l1; discriminate.
  - destruct (lqueued x) eqn:Eq.
    + destruct l1 as [|y l1']; cbn in H; inversion H; subst.
      * exists [], r. split; [|split; auto]. cbn. destruct x as [e s]. unfold lqueued in Eq. cbn in *.
        destruct s; try discriminate. reflexivity.
      * destruct (IH _ _ _ H2) as (L1 & L2 & -> & H1' & H2'). exists (x :: L1), L2.
        split; [reflexivity|]. split; auto. cbn. rewrite Eq. cbn. now rewrite H1'.
    + destruct (IH _ _ _ H) as (L1 & L2 & -> & H1' & H2'). exists (x :: L1), L2.
      split; [reflexivity|]. split; auto. cbn. now rewrite Eq.
Qed.

Lemma log_set_notin : forall L e s, (forall l, In l L -> lid l <> e_id e) -> log_set L e s = L.
Proof.
  intros L e s H. unfold log_set. induction L as [|x r IH]; cbn [map]; auto.
  rewrite IH by (intros; apply H; cbn; auto).
  assert (H0 : lid x <> e_id e) by (apply H; cbn; auto). unfold lid in H0.
  apply Nat.eqb_neq in H0. now rewrite H0.
Qed.

Lemma log_set_at : forall L1 t s L2 t' s', NoDup (map lid (L1 ++ mkL t s :: L2)) -> e_id t' = e_id t ->
  log_set (L1 ++ mkL t s :: L2) t' s' = L1 ++ mkL t' s' :: L2.
Proof.
  intros L1 t s L2 t' s' Hnd Hid. unfold log_set. rewrite map_app. cbn [map l_e]. fold (log_set L1 t' s'). fold (log_set L2 t' s').
  rewrite Hid, Nat.eqb_refl.
  rewrite map_app in Hnd. cbn [map] in Hnd.
  rewrite !log_set_notin; auto.
  - intros l Hl. rewrite Hid. apply NoDup_app_r in Hnd. inversion Hnd; subst. intro Heq. apply H1.
    change (lid (mkL t s)) with (e_id t). rewrite <- Heq. now apply in_map.
  - intros l Hl. rewrite Hid. intro Heq. eapply NoDup_app_disj; [exact Hnd| |].
    + apply in_map. exact Hl. + rewrite Heq. left. reflexivity.
Qed.

(* the head of the queue sits behind finished entries only, everything after it is untouched *)
Lemma K_head_split : forall e r log wire nx, Kc (e :: r) log wire nx ->
  exists P R, log = P ++ mkL e Queued :: R /\ Forall (fun l => lqueued l = false) P /\
              Forall clean R /\ map l_e (filter lqueued R) = r.
Proof.
  intros e r log wire nx HK. destruct HK as [Hq _ Hs _ _ _].
  destruct (filter_split log [] e r Hq) as (P & R & -> & HP & HR).
  exists P, R. split; auto.
  assert (HPn : Forall (fun l => lqueued l = false) P).
  { clear - HP. induction P as [|x P IH]; cbn in *; auto. destruct (lqueued x) eqn:E; [discriminate|]. auto. }
  split; auto. split; auto.
  clear - Hs HPn. induction P as [|x P IH]; cbn in *; auto.
  inversion HPn; subst. unfold lqueued in H1. destruct (l_status x); try discriminate; auto.
Qed.

Lemma K_tail_clean : forall e r log wire nx, Kc (e :: r) log wire nx ->
  Forall (fun x => e_sent x = 0%nat /\ e_wip x = false) r.
Proof.
  intros. destruct (K_head_split _ _ _ _ _ H) as (P & R & _ & _ & Hc & <-).
  clear - Hc. induction R as [|x R IH]; cbn; auto. inversion Hc as [|? ? (Hs & Hw & _) ?]; subst.
  destruct (lqueued x); cbn; auto.
Qed.

Lemma filter_app_mid : forall P (x : lentry) R, filter lqueued (P ++ x :: R) =
  filter lqueued P ++ (if lqueued x then [x] else []) ++ filter lqueued R.
Proof. intros. rewrite filter_app. cbn. destruct (lqueued x); reflexivity. Qed.

Lemma notq_filter_nil : forall P, Forall (fun l => lqueued l = false) P -> filter lqueued P = [].
Proof. induction P; intros H; cbn; auto. inversion H; subst. rewrite H2. auto. Qed.

Lemma shape_skip : forall P R, Forall (fun l => lqueued l = false) P -> (shape (P ++ R) <-> shape R).
Proof.
  induction P as [|x P IH]; intros R H; cbn; [tauto|]. inversion H; subst.
  unfold lqueued in H2. destruct (l_status x); try discriminate; auto.
Qed.

Lemma NoDup_app_snoc_fresh : forall A (l : list A) x, NoDup l -> ~ In x l -> NoDup (l ++ [x]).
Proof.
  intros. eapply Permutation_NoDup with (l := x :: l).
  - apply Permutation_cons_append.
  - constructor; auto.
Qed.

Lemma Kc_init : Kc [] [] [] 0.
Proof. constructor; cbn; auto; constructor. Qed.

Lemma Kc_enqueue : forall q log wire nx ow data link,
  Kc q log wire nx -> (link <> None -> ow = OwSmLib /\ data = req_ack) ->
  Kc (q ++ [mkE nx ow data 0 false link 0]) (log ++ [mkL (mkE nx ow data 0 false link 0) Queued]) wire (S nx).
Proof.
  intros q log wire nx ow data link [Hq Hnd Hs Hg Hw Hf] Hlink. constructor.
  - rewrite filter_app, map_app, Hq. reflexivity.
  - rewrite map_app. cbn [map]. apply NoDup_app_snoc_fresh; auto.
    intro Hin. apply in_map_iff in Hin. destruct Hin as (l & Hl & Hin). rewrite Forall_forall in Hf.
    specialize (Hf l Hin). unfold lid in *. cbn in Hl. lia.
  - apply shape_snoc; auto. repeat split; cbn; congruence.
  - apply Forall_app. split; auto. constructor; [|constructor]. split; [|split]; cbn; intros; try discriminate; auto.
    split; congruence.
  - rewrite map_app, concat_app. cbn. rewrite app_nil_r. exact Hw.
  - apply Forall_app. split.
    + eapply Forall_impl; [|exact Hf]. cbn. intros. lia.
    + constructor; [|constructor]. unfold lid. cbn. lia.
Qed.

(* replacing the log entry of the queue head *)
Lemma K_set_head : forall e r log wire nx e' s',
  Kc (e :: r) log wire nx -> e_id e' = e_id e ->
  exists P R, log = P ++ mkL e Queued :: R /\ log_set log e' s' = P ++ mkL e' s' :: R /\
              Forall (fun l => lqueued l = false) P /\ Forall clean R /\ map l_e (filter lqueued R) = r.
Proof.
  intros e r log wire nx e' s' HK Hid.
  destruct (K_head_split _ _ _ _ _ HK) as (P & R & Hlog & HP & HR & Hf).
  exists P, R. repeat split; auto. rewrite Hlog. apply log_set_at; auto.
  rewrite <- Hlog. apply HK.
Qed.

Lemma map_lid_set : forall P e s R e' s', e_id e' = e_id e ->
  map lid (P ++ mkL e' s' :: R) = map lid (P ++ mkL e s :: R).
Proof. intros. rewrite !map_app. cbn [map]. unfold lid at 2 4. cbn. now rewrite H. Qed.

Lemma Forall_mid : forall A (Pr : A -> Prop) P x R, Forall Pr (P ++ x :: R) <-> Forall Pr P /\ Pr x /\ Forall Pr R.
Proof.
  intros. rewrite Forall_app. split.
  - intros [H1 H2]. inversion H2; subst. auto.
  - intros (H1 & H2 & H3). auto.
Qed.

Lemma Kc_progress : forall e r log wire nx w' acc,
  Kc (e :: r) log wire nx ->
  firstn w' (e_data e) = firstn (e_sent e) (e_data e) ++ firstn acc (skipn (e_sent e) (e_data e)) ->
  Kc (progress e w' :: r) (log_set log (progress e w') Queued)
     (wire ++ tag (e_id e) (firstn acc (skipn (e_sent e) (e_data e)))) nx.
Proof.
  intros e r log wire nx w' acc HK Hw.
  destruct (K_set_head e r log wire nx (progress e w') Queued HK eq_refl) as (P & R & Hlog & Hset & HP & HR & Hf).
  destruct HK as [Hq Hnd Hs Hg Hwire Hfr]. rewrite Hset. rewrite Hlog in *.
  constructor.
  - rewrite filter_app_mid, !map_app. rewrite notq_filter_nil by auto. cbn. now rewrite Hf.
  - erewrite map_lid_set; eauto.
  - apply shape_skip; auto; cbn; exact HR.
  - apply Forall_mid in Hg. destruct Hg as (Hg1 & (_ & _ & Hg2) & Hg3). apply Forall_mid.
    split; auto. split; auto. split; [|split]; intros; cbn in *; try discriminate. apply Hg2; auto.
  - rewrite Hwire. rewrite !map_app, !concat_app. cbn [map concat]. rewrite (clean_wirepart_nil R HR).
    rewrite !app_nil_r. rewrite <- app_assoc. f_equal.
    unfold wirepart, lid. cbn. rewrite Hw. fold (tag (e_id e)). now rewrite <- tag_app.
  - apply Forall_mid in Hfr. destruct Hfr as (H1 & H2 & H3). apply Forall_mid. repeat split; auto.
Qed.

Lemma Kc_complete : forall e r log wire nx e2,
  Kc (e :: r) log wire nx -> e_id e2 = e_id e -> e_data e2 = e_data e -> e_wip e2 = true ->
  e_owner e2 = e_owner e -> e_link e2 = e_link e ->
  Kc r (log_set log e2 Done) (wire ++ tag (e_id e) (skipn (e_sent e) (e_data e))) nx.
Proof.
  intros e r log wire nx e2 HK Hid Hdata Hwip Hown Hlnk.
  destruct (K_set_head e r log wire nx e2 Done HK Hid) as (P & R & Hlog & Hset & HP & HR & Hf).
  destruct HK as [Hq Hnd Hs Hg Hwire Hfr]. rewrite Hset. rewrite Hlog in *.
  constructor.
  - rewrite filter_app_mid, !map_app. rewrite notq_filter_nil by auto. cbn. exact Hf.
  - erewrite map_lid_set; eauto.
  - apply shape_skip; auto; cbn; apply clean_shape; auto.
  - apply Forall_mid in Hg. destruct Hg as (Hg1 & (_ & _ & Hg2) & Hg3). apply Forall_mid.
    split; auto. split; auto. split; [|split]; intros; cbn in *; try (exfalso; congruence).
    rewrite Hown, Hdata. apply Hg2. congruence.
  - rewrite Hwire. rewrite !map_app, !concat_app. cbn [map concat]. rewrite (clean_wirepart_nil R HR).
    rewrite !app_nil_r. rewrite <- app_assoc. f_equal.
    unfold wirepart, lid. cbn. rewrite Hid, Hdata. fold (tag (e_id e)). rewrite <- tag_app. now rewrite firstn_skipn.
  - apply Forall_mid in Hfr. destruct Hfr as (H1 & H2 & H3). apply Forall_mid. repeat split; auto.
    unfold lid in *. cbn in *. congruence.
Qed.

Lemma shape_drop : forall L1 t c L2, shape (L1 ++ mkL t Queued :: L2) -> shape (L1 ++ mkL t (Dropped c) :: L2).
Proof.
  induction L1 as [|x L1 IH]; intros t c L2 H; cbn in *.
  - apply clean_shape; auto.
  - destruct (l_status x); auto.
    apply Forall_mid in H. destruct H as (H1 & (Hs & Hw & _) & H3). apply Forall_mid. repeat split; auto. cbn. congruence.
Qed.

Lemma Kc_drop : forall l1 t l2 log wire nx c,
  Kc (l1 ++ t :: l2) log wire nx -> (c = true -> e_wip t = false) ->
  Kc (l1 ++ l2) (log_set log t (Dropped c)) wire nx.
Proof.
  intros l1 t l2 log wire nx c HK Hc. destruct HK as [Hq Hnd Hs Hg Hwire Hfr].
  destruct (filter_split log l1 t l2 Hq) as (L1 & L2 & Hlog & H1 & H2).
  rewrite Hlog in *. rewrite (log_set_at L1 t Queued L2 t (Dropped c)) by auto.
  constructor.
  - rewrite filter_app_mid, !map_app. cbn. now rewrite H1, H2.
  - erewrite map_lid_set; eauto.
  - apply shape_drop; auto.
  - apply Forall_mid in Hg. destruct Hg as (Hg1 & (Hg2 & _ & Hg4) & Hg3). apply Forall_mid.
    split; auto. split; auto. split; [|split]; intros; cbn in *.
    + split; [apply Hg2; auto|congruence]. + inversion H; subst. apply Hg2; auto. + apply Hg4; auto.
  - rewrite Hwire. rewrite !map_app. cbn [map]. reflexivity.
  - apply Forall_mid in Hfr. destruct Hfr as (Hf1 & Hf2 & Hf3). apply Forall_mid. repeat split; auto.
Qed.

(* ---- the operations keep the invariant *)
Lemma write_result_le : forall r tw k e, write_result r tw = (Some k, e) -> (k <= tw)%nat.
Proof.
  intros r tw k e H. destruct r; cbn in H.
  - inversion H; lia.
  - destruct (Nat.eqb tw 0) eqn:E0; [inversion H; lia|]. destruct (Nat.eqb k0 0); inversion H. lia.
  - discriminate.
  - discriminate.
Qed.

Lemma loop_K : forall q a err, Kc q (a_log a) (a_wire a) (a_next a) -> K (fst (a_loop q a err)).
Proof.
  induction q as [|e r IH]; intros a err HK.
  - cbn. exact HK.
  - cbn [a_loop].
    destruct (pop_sched (a_sched a)) as [res sched'].
    destruct (write_result res (length (e_data e) - e_sent e)) as [ret er] eqn:Ewr.
    destruct (match ret with Some k => Nat.eqb k (length (e_data e) - e_sent e) | None => false end) eqn:Ecomp;
      cbn [negb].
    + (* complete *)
      destruct ret as [k|]; [|discriminate]. apply Nat.eqb_eq in Ecomp. subst k.
      apply IH. cbn [a_log a_wire a_next].
      assert (Hall : firstn (length (e_data e) - e_sent e) (skipn (e_sent e) (e_data e)) = skipn (e_sent e) (e_data e)).
      { apply firstn_all2. rewrite skipn_length. lia. }
      unfold tag in *. rewrite Hall.
      apply Kc_complete; auto; destruct (negb (is_sm (e_owner e)) && a_sm_enabled a); reflexivity.
    + (* incomplete *)
      unfold K. cbn [fst a_q a_log a_wire a_next]. apply Kc_progress; auto.
      destruct ret as [k|]; [|cbn; now rewrite app_nil_r].
      pose proof (write_result_le _ _ _ _ Ewr) as Hle. apply Nat.eqb_neq in Ecomp.
      destruct (Nat.ltb 0 k) eqn:E0; cbn [andb].
      * assert (Hlt : Nat.ltb k (length (e_data e) - e_sent e) = true) by (apply Nat.ltb_lt; lia).
        rewrite Hlt. apply firstn_add.
      * apply Nat.ltb_ge in E0. assert (k = 0%nat) by lia. subst k. cbn. now rewrite app_nil_r.
Qed.

Lemma K_a_enqueue : forall a d ow l, K a -> (l <> None -> ow = OwSmLib /\ d = req_ack) -> K (fst (a_enqueue a d ow l)).
Proof. intros. unfold K, a_enqueue. cbn. apply Kc_enqueue; auto. Qed.

Lemma K_send : forall a ow d, K a -> K (a_send a ow d).
Proof.
  intros a ow d HK. unfold a_send. destruct (a_connected a); auto. cbv zeta.
  generalize (effective_owner (a_sm_enabled a) ow). clear ow. intros ow.
  pose proof (K_a_enqueue a d ow None HK) as H1. specialize (H1 ltac:(congruence)).
  destruct (a_enqueue a d ow None) as [a1 item] eqn:E. cbn [fst] in H1.
  destruct (negb (is_sm ow) && a_sm_enabled a1 && negb (a_r_sent a1)); auto.
  assert (H2 : K (a_set_r_sent a1 true)) by exact H1.
  destruct (a_connected (a_set_r_sent a1 true)); auto.
  apply K_a_enqueue; auto.
Qed.

Lemma K_iter : forall a, K a -> K (fst (a_iter a)).
Proof.
  intros a HK. unfold a_iter. destruct (a_connected a); auto.
  pose proof (loop_K (a_q a) a false HK) as H1.
  destruct (a_loop (a_q a) a false) as [a1 err]. cbn [fst] in *. destruct err; auto.
Qed.

Lemma a_target_spec : forall q live w b t af, a_target q live w = Some (b, t, af) ->
  q = b ++ t :: af /\ e_user t = true /\ (live = true -> b = [] -> e_wip t = false).
Proof.
  intros q live w b t af H. destruct w; cbn [a_target] in H.
  - destruct q as [|hd r]; [discriminate|].
    destruct (e_wip hd && live) eqn:Eskip.
    + destruct (split_first r) as [[[a' t'] b']|] eqn:Es; [|discriminate]. inversion H; subst.
      destruct (split_first_spec _ _ _ _ Es) as (-> & Hu & _). repeat split; auto. intros; discriminate.
    + destruct (split_first_spec _ _ _ _ H) as (Hl & Hu & _). repeat split; auto.
      intros -> ->. cbn in Hl. inversion Hl; subst. rewrite Bool.andb_true_r in Eskip. exact Eskip.
  - destruct (split_last q) as [[[a' t'] b']|] eqn:Es; [|discriminate].
    destruct (split_last_spec _ _ _ _ Es) as (Hl & Hu & _).
    destruct a' as [|x a''].
    + destruct (e_wip t' && live) eqn:Eskip.
      * destruct (split_first b') as [[[a2 t2] b2]|] eqn:Es2; [|discriminate]. inversion H; subst.
        destruct (split_first_spec _ _ _ _ Es2) as (-> & Hu2 & _). repeat split; auto. intros; discriminate.
      * inversion H; subst. repeat split; auto. intros ->. rewrite Bool.andb_true_r in Eskip. auto.
    + inversion H; subst. repeat split; auto. intros; discriminate.
Qed.

Lemma tail_untouched : forall l1 t l2 log wire nx, Kc (l1 ++ t :: l2) log wire nx -> l1 <> [] ->
  e_sent t = 0%nat /\ e_wip t = false.
Proof.
  intros l1 t l2 log wire nx HK Hne. destruct l1 as [|hd l1']; [congruence|].
  cbn [app] in HK. apply K_tail_clean in HK. apply Forall_mid in HK. tauto.
Qed.

Lemma K_drop_at : forall a b t af, K a -> a_q a = b ++ t :: af ->
  (a_connected a = true -> b = [] -> e_wip t = false) -> K (fst (a_drop_at a b t af)).
Proof.
  intros a b t af HK Eq Hhead. unfold K in HK. rewrite Eq in HK.
  assert (Hwt : a_connected a = true -> e_wip t = false).
  { intros Hc. destruct b as [|hd b']; auto. eapply tail_untouched; eauto. congruence. }
  unfold a_drop_at.
  destruct af as [|x af'].
  - unfold K. cbn [fst a_q a_log a_wire a_next]. apply Kc_drop; auto.
  - destruct (opt_eqb (e_link x) (Some (e_id t))).
    + unfold K. cbn [fst a_q a_log a_wire a_next].
      apply Kc_drop; auto.
      replace (b ++ t :: af') with ((b ++ [t]) ++ af') by (rewrite <- app_assoc; reflexivity).
      apply Kc_drop.
      * rewrite <- app_assoc. exact HK.
      * intros _. eapply (tail_untouched (b ++ [t]) x af'); [rewrite <- app_assoc; exact HK|].
        destruct b; discriminate.
    + unfold K. cbn [fst a_q a_log a_wire a_next]. apply Kc_drop; auto.
Qed.

Lemma K_drop : forall a w, K a -> K (fst (a_drop a w)).
Proof.
  intros a w HK.
  assert (Hreg : K (fst (a_drop_regular a w))).
  { unfold a_drop_regular. destruct (a_target (a_q a) (a_connected a) w) as [[[b t] af]|] eqn:Et; auto.
    destruct (a_target_spec _ _ _ _ _ _ Et) as (Hl & _ & Hw). apply K_drop_at; auto. }
  unfold a_drop. destruct (a_q a) as [|e [|e2 r]]; auto.
  destruct (e_wip e && a_connected a); auto. destruct (negb (e_user e)); auto.
Qed.

Lemma K_step : forall a o, K a -> K (fst (a_step a o)).
Proof.
  intros a o HK. destruct o; cbn [a_step fst].
  - apply K_send; auto.
  - exact HK.
  - apply K_iter; auto.
  - apply K_drop; auto.
  - exact HK.
  - unfold a_ack. destruct (a_connected a && a_sm_enabled a); exact HK.
Qed.

Lemma K_init : forall sm, K (a_init sm).
Proof. intros. exact Kc_init. Qed.

Lemma K_run : forall ops a, K a -> K (fst (a_run ops a)).
Proof. induction ops; intros; cbn; auto. apply IHops. apply K_step. auto. Qed.

(* ================================================================== the property statements, abstract level *)
Lemma clean_contrib : forall r, Forall clean r -> pending (map l_e (filter lqueued r)) = concat (map contribution r).
Proof.
  induction r as [|l r IH]; intros H; [reflexivity|]. inversion H as [|? ? (Hs & Hw & Hd) Hr]; subst.
  specialize (IH Hr). cbn [filter map concat]. unfold lqueued at 1. unfold contribution at 1.
  destruct (l_status l) eqn:Est; try congruence.
  - cbn [map]. unfold pending in *. cbn [map concat]. rewrite IH, Hs. reflexivity.
  - rewrite IH, Hs. reflexivity.
Qed.

Lemma pending_cons : forall e q, pending (e :: q) = tag (e_id e) (skipn (e_sent e) (e_data e)) ++ pending q.
Proof. reflexivity. Qed.

Lemma fifo_log : forall log q, map l_e (filter lqueued log) = q -> shape log ->
  concat (map wirepart log) ++ pending q = concat (map contribution log).
Proof.
  induction log as [|l r IH]; intros q Hq Hs.
  - cbn in *. subst. reflexivity.
  - assert (Hlq : lqueued l = match l_status l with Queued => true | _ => false end) by reflexivity.
    cbn [filter] in Hq. rewrite Hlq in Hq. cbn [shape] in Hs. cbn [map concat].
    unfold wirepart at 1, contribution at 1.
    destruct (l_status l) eqn:Est.
    + cbn [map] in Hq. subst q. rewrite (clean_wirepart_nil r Hs), app_nil_r.
      rewrite pending_cons, (clean_contrib r Hs). unfold lid. rewrite app_assoc, <- tag_app, firstn_skipn. reflexivity.
    + rewrite <- app_assoc. f_equal. apply IH; auto.
    + rewrite <- app_assoc. f_equal. apply IH; auto.
Qed.

Lemma K_fifo : forall a, K a -> a_wire a ++ pending (a_q a) = concat (map contribution (a_log a)).
Proof. intros a [Hq _ Hs _ Hw _]. rewrite Hw. apply fifo_log; auto. Qed.

Lemma wire_origin : forall log i b, In (i, b) (concat (map wirepart log)) ->
  exists l, In l log /\ lid l = i /\ In (i, b) (wirepart l).
Proof.
  intros log i b H. apply in_concat in H. destruct H as (x & Hx & Hin).
  apply in_map_iff in Hx. destruct Hx as (l & <- & Hl). exists l. split; auto. split; auto.
  unfold wirepart, tag in Hin. destruct (l_status l); apply in_map_iff in Hin; destruct Hin as (? & Heq & _); congruence.
Qed.

Lemma nodup_lid_eq : forall log l1 l2, NoDup (map lid log) -> In l1 log -> In l2 log -> lid l1 = lid l2 -> l1 = l2.
Proof.
  induction log as [|x r IH]; intros l1 l2 Hnd H1 H2 Heq; cbn in *; [tauto|].
  inversion Hnd; subst. destruct H1 as [->|H1], H2 as [->|H2]; auto.
  - exfalso. apply H3. rewrite Heq. now apply in_map.
  - exfalso. apply H3. rewrite <- Heq. now apply in_map.
Qed.

Lemma queued_in_log : forall log q e, map l_e (filter lqueued log) = q -> In e q -> In (mkL e Queued) log.
Proof.
  intros log q e Hq Hin. subst q. apply in_map_iff in Hin. destruct Hin as (l & <- & Hl).
  apply filter_In in Hl. destruct Hl as [Hl Hq]. destruct l as [e s]. unfold lqueued in Hq. cbn in *.
  destruct s; try discriminate. exact Hl.
Qed.

Lemma untouched_not_on_wire : forall q log wire nx l, Kc q log wire nx -> In l log ->
  e_sent (l_e l) = 0%nat -> l_status l <> Done -> ~ on_wire (lid l) wire.
Proof.
  intros q log wire nx l HK Hl Hs Hd [b Hb]. destruct HK as [_ Hnd _ _ Hw _]. rewrite Hw in Hb.
  destruct (wire_origin _ _ _ Hb) as (l' & Hl' & Hid & Hin).
  assert (l' = l) by (eapply nodup_lid_eq; eauto). subst l'.
  unfold wirepart in Hin. rewrite Hs in Hin. destruct (l_status l); try congruence; cbn in Hin; auto.
Qed.

Lemma unstarted_untouched : forall q log wire nx e, Kc q log wire nx -> In e q -> e_wip e = false ->
  e_sent e = 0%nat /\ ~ on_wire (e_id e) wire.
Proof.
  intros q log wire nx e HK Hin Hw.
  pose proof (queued_in_log _ _ _ (k_queue _ _ _ _ HK) Hin) as Hl.
  pose proof (k_good _ _ _ _ HK) as Hg. rewrite Forall_forall in Hg. destruct (Hg _ Hl) as (Hg1 & _).
  destruct (Hg1 Hw) as (Hs & Hd). split; auto.
  apply (untouched_not_on_wire q log wire nx (mkL e Queued)); auto.
Qed.

Lemma K_qlen : forall a, K a -> a_qlen a = Z.of_nat (length (filter unstarted_user (a_q a))).
Proof.
  intros a HK. unfold a_qlen. destruct (a_q a) as [|e r] eqn:Eq; [reflexivity|].
  unfold K in HK. rewrite Eq in HK. pose proof (K_tail_clean _ _ _ _ _ HK) as Ht.
  assert (Hr : filter unstarted_user r = filter e_user r).
  { clear - Ht. induction r as [|x r IH]; cbn; auto. inversion Ht as [|? ? (_ & Hw) ?]; subst.
    unfold unstarted_user at 1. rewrite Hw, Bool.andb_true_r. rewrite IH; auto. }
  rewrite count_user_cons. cbn [filter]. rewrite Hr. unfold unstarted_user, count_user.
  destruct (e_wip e), (e_user e); cbn [andb negb length]; lia.
Qed.

Lemma set_in_log : forall l1 t l2 log wire nx s, Kc (l1 ++ t :: l2) log wire nx -> In (mkL t s) (log_set log t s).
Proof.
  intros l1 t l2 log wire nx s HK.
  destruct (filter_split _ _ _ _ (k_queue _ _ _ _ HK)) as (L1 & L2 & Hlog & _ & _).
  pose proof (k_nodup _ _ _ _ HK) as Hnd. rewrite Hlog in *.
  rewrite (log_set_at L1 t Queued L2 t s Hnd eq_refl). apply in_or_app. right. left. reflexivity.
Qed.

(* what a drop request does, on the abstract queue *)
Lemma a_drop_spec : forall a w, K a ->
  match snd (a_drop a w) with
  | None => fst (a_drop a w) = a
  | Some txt =>
    exists b t af, a_q a = b ++ t :: af /\ txt = e_data t /\ e_user t = true /\
      In (mkL t (Dropped (a_connected a))) (a_log (fst (a_drop a w))) /\
      (a_connected a = true -> e_wip t = false) /\
      (a_q (fst (a_drop a w)) = b ++ af \/
       exists x af', af = x :: af' /\ e_link x = Some (e_id t) /\ e_owner x = OwSmLib /\ e_data x = req_ack /\
                     e_wip x = false /\ e_sent x = 0%nat /\ a_q (fst (a_drop a w)) = b ++ af')
  end.
Proof.
  intros a w HK.
  assert (Hreg : match snd (a_drop_regular a w) with
                 | None => fst (a_drop_regular a w) = a
                 | Some txt => exists b t af, a_q a = b ++ t :: af /\ txt = e_data t /\ e_user t = true /\
                     In (mkL t (Dropped (a_connected a))) (a_log (fst (a_drop_regular a w))) /\
                     (a_connected a = true -> e_wip t = false) /\
                     (a_q (fst (a_drop_regular a w)) = b ++ af \/
                      exists x af', af = x :: af' /\ e_link x = Some (e_id t) /\ e_owner x = OwSmLib /\
                        e_data x = req_ack /\ e_wip x = false /\ e_sent x = 0%nat /\
                        a_q (fst (a_drop_regular a w)) = b ++ af')
                 end).
  { unfold a_drop_regular. destruct (a_target (a_q a) (a_connected a) w) as [[[b t] af]|] eqn:Et; [|reflexivity].
    destruct (a_target_spec _ _ _ _ _ _ Et) as (Hl & Hu & Hw).
    pose proof HK as HK0. unfold K in HK. rewrite Hl in HK.
    assert (Hwt : a_connected a = true -> e_wip t = false).
    { intros Hc. destruct b as [|hd b']; auto. eapply tail_untouched; eauto. congruence. }
    unfold a_drop_at. destruct af as [|x af'].
    - cbn [snd fst a_q a_log]. exists b, t, []. repeat split; auto.
      eapply set_in_log; eauto.
    - destruct (opt_eqb (e_link x) (Some (e_id t))) eqn:El.
      + cbn [snd fst a_q a_log]. exists b, t, (x :: af'). repeat split; auto.
        * assert (HK1 : Kc ((b ++ [t]) ++ af') (log_set (a_log a) x (Dropped (a_connected a))) (a_wire a) (a_next a)).
          { apply Kc_drop. - rewrite <- app_assoc. exact HK.
            - intros _. eapply (tail_untouched (b ++ [t]) x af'); [rewrite <- app_assoc; exact HK|]. destruct b; discriminate. }
          rewrite <- app_assoc in HK1. cbn [app] in HK1.
          eapply set_in_log; eauto.
        * right. exists x, af'.
          assert (Hx : e_sent x = 0%nat /\ e_wip x = false).
          { eapply (tail_untouched (b ++ [t]) x af'); [rewrite <- app_assoc; exact HK|]. destruct b; discriminate. }
          assert (Hlx : e_link x = Some (e_id t)).
          { destruct (e_link x) as [y|]; cbn in El; [|discriminate]. apply Nat.eqb_eq in El. congruence. }
          assert (Hinx : In (mkL x Queued) (a_log a)).
          { eapply queued_in_log; [apply HK|]. apply in_or_app. right. right. left. reflexivity. }
          pose proof (k_good _ _ _ _ HK) as Hg. rewrite Forall_forall in Hg. destruct (Hg _ Hinx) as (_ & _ & Hg3).
          cbn in Hg3. destruct Hg3 as [Ho Hd]; [congruence|].
          repeat split; auto; tauto.
      + cbn [snd fst a_q a_log]. exists b, t, (x :: af'). repeat split; auto.
        eapply set_in_log; eauto. }
  unfold a_drop. destruct (a_q a) as [|e [|e2 r]] eqn:Eq; auto; [reflexivity|].
  destruct (e_wip e && a_connected a); [reflexivity|]. destruct (negb (e_user e)); [reflexivity|]. auto.
Qed.

Lemma K_dropped_not_on_wire : forall a l, K a -> In l (a_log a) -> l_status l = Dropped true ->
  ~ on_wire (lid l) (a_wire a).
Proof.
  intros a l HK Hl Hs. pose proof (k_good _ _ _ _ HK) as Hg. rewrite Forall_forall in Hg.
  destruct (Hg _ Hl) as (_ & Hg2 & _). eapply untouched_not_on_wire; eauto. congruence.
Qed.

(* ---- the log is a faithful record: steps only append what they queue, identity/owner/text never change *)
Lemma keys_set_head : forall e r log wire nx e' s',
  Kc (e :: r) log wire nx -> e_id e' = e_id e -> e_owner e' = e_owner e -> e_data e' = e_data e ->
  map lkey (log_set log e' s') = map lkey log.
Proof.
  intros e r log wire nx e' s' HK Hid Ho Hd.
  destruct (K_set_head e r log wire nx e' s' HK Hid) as (P & R & Hlog & Hset & _).
  rewrite Hset, Hlog, !map_app. cbn [map]. unfold lkey at 2 4. cbn. now rewrite Hid, Ho, Hd.
Qed.

Lemma loop_keys : forall q a err, Kc q (a_log a) (a_wire a) (a_next a) ->
  map lkey (a_log (fst (a_loop q a err))) = map lkey (a_log a).
Proof.
  induction q as [|e r IH]; intros a err HK.
  - reflexivity.
  - cbn [a_loop].
    destruct (pop_sched (a_sched a)) as [res sched'].
    destruct (write_result res (length (e_data e) - e_sent e)) as [ret er] eqn:Ewr.
    destruct (match ret with Some k => Nat.eqb k (length (e_data e) - e_sent e) | None => false end) eqn:Ecomp;
      cbn [negb].
    + destruct ret as [k|]; [|discriminate]. apply Nat.eqb_eq in Ecomp. subst k.
      rewrite IH; cbn [a_log a_wire a_next].
      * eapply keys_set_head; eauto; destruct (negb (is_sm (e_owner e)) && a_sm_enabled a); reflexivity.
      * assert (Hall : firstn (length (e_data e) - e_sent e) (skipn (e_sent e) (e_data e)) = skipn (e_sent e) (e_data e)).
        { apply firstn_all2. rewrite skipn_length. lia. }
        unfold tag in *. rewrite Hall.
        apply Kc_complete; auto; destruct (negb (is_sm (e_owner e)) && a_sm_enabled a); reflexivity.
    + cbn [fst a_log]. eapply keys_set_head; eauto.
Qed.

Lemma keys_drop : forall l1 t l2 log wire nx s, Kc (l1 ++ t :: l2) log wire nx ->
  map lkey (log_set log t s) = map lkey log.
Proof.
  intros l1 t l2 log wire nx s HK.
  destruct (filter_split _ _ _ _ (k_queue _ _ _ _ HK)) as (L1 & L2 & Hlog & _ & _).
  pose proof (k_nodup _ _ _ _ HK) as Hnd. rewrite Hlog in *.
  rewrite (log_set_at L1 t Queued L2 t s Hnd eq_refl). rewrite !map_app. reflexivity.
Qed.

Lemma step_keys : forall a o, K a -> map lkey (a_log (fst (a_step a o))) = map lkey (a_log a) ++ submitted a o.
Proof.
  intros a o HK. destruct o as [ow d|l| |w| |h]; cbn [a_step fst submitted]; try (now rewrite app_nil_r).
  - unfold a_send. destruct (a_connected a) eqn:Ec; [|now rewrite app_nil_r]. cbv zeta.
    generalize (effective_owner (a_sm_enabled a) ow). clear ow. intros ow.
    cbn [a_enqueue a_sm_enabled a_r_sent a_connected a_set_r_sent]. 
    destruct (negb (is_sm ow) && a_sm_enabled a && negb (a_r_sent a)).
    + rewrite Ec. cbn [fst a_enqueue a_log a_next a_set_r_sent]. rewrite !map_app. cbn. rewrite <- app_assoc. reflexivity.
    + cbn [a_log]. rewrite map_app. reflexivity.
  - rewrite app_nil_r. unfold a_iter. destruct (a_connected a); auto.
    pose proof (loop_keys (a_q a) a false HK) as H1.
    destruct (a_loop (a_q a) a false) as [a1 err]. cbn [fst] in *. destruct err; auto.
  - rewrite app_nil_r.
    assert (Hreg : map lkey (a_log (fst (a_drop_regular a w))) = map lkey (a_log a)).
    { unfold a_drop_regular. destruct (a_target (a_q a) (a_connected a) w) as [[[b t] af]|] eqn:Et; auto.
      destruct (a_target_spec _ _ _ _ _ _ Et) as (Hl & _ & _). unfold K in HK. rewrite Hl in HK.
      unfold a_drop_at. destruct af as [|x af'].
      - cbn [fst a_log]. eapply keys_drop; eauto.
      - destruct (opt_eqb (e_link x) (Some (e_id t))); cbn [fst a_log].
        + assert (HK1 : Kc ((b ++ [t]) ++ af') (log_set (a_log a) x (Dropped (a_connected a))) (a_wire a) (a_next a)).
          { apply Kc_drop. - rewrite <- app_assoc. exact HK.
            - intros _. eapply (tail_untouched (b ++ [t]) x af'); [rewrite <- app_assoc; exact HK|]. destruct b; discriminate. }
          rewrite <- app_assoc in HK1. cbn [app] in HK1.
          rewrite (keys_drop _ _ _ _ _ _ _ HK1).
          eapply (keys_drop (b ++ [t]) x af'). rewrite <- app_assoc. exact HK.
        + eapply keys_drop; eauto. }
    unfold a_drop. destruct (a_q a) as [|e [|e2 r]]; auto.
    destruct (e_wip e && a_connected a); auto. destruct (negb (e_user e)); auto.
  - rewrite app_nil_r. unfold a_ack. destruct (a_connected a && a_sm_enabled a); reflexivity.
Qed.

(* ================================================================== the property statements on the model *)
Lemma reach : forall sm ops st outs, run true ops (init sm) = Ok (st, outs) ->
  Refines st (abs sm ops) /\ outs = snd (a_run ops (a_init sm)) /\ K (abs sm ops).
Proof.
  intros sm ops st outs H. destruct (run_refines ops _ _ (init_refines sm)) as (st' & Hr & HR).
  rewrite Hr in H. inversion H; subst. split; auto. split; auto. apply K_run, K_init.
Qed.

Lemma thm_dll_wf : forall sm ops,
  exists st, run true ops (init sm) = Ok (st, snd (a_run ops (a_init sm))) /\ Refines st (abs sm ops) /\
             exists w, queue_of st = Ok w /\ entries_of w = a_q (abs sm ops).
Proof.
  intros sm ops. destruct (run_refines ops _ _ (init_refines sm)) as (st & Hr & HR).
  exists st. split; auto. split; auto. apply queue_of_ok; auto.
Qed.

Lemma thm_fifo : forall sm ops st outs, run true ops (init sm) = Ok (st, outs) ->
  exists w, queue_of st = Ok w /\
            s_wire st ++ pending (entries_of w) = concat (map contribution (a_log (abs sm ops))).
Proof.
  intros sm ops st outs H. destruct (reach _ _ _ _ H) as (HR & _ & HK).
  destruct (queue_of_ok _ _ HR) as (w & Hw & He). exists w. split; auto.
  rewrite He, (refines_wire _ _ HR). apply K_fifo; auto.
Qed.

Lemma thm_qlen : forall sm ops st outs, run true ops (init sm) = Ok (st, outs) ->
  exists w, queue_of st = Ok w /\
            op_qlen st = Ok (Z.of_nat (length (filter unstarted_user (entries_of w)))) /\
            forall e, In e (entries_of w) -> e_wip e = false -> e_sent e = 0%nat /\ ~ on_wire (e_id e) (s_wire st).
Proof.
  intros sm ops st outs H. destruct (reach _ _ _ _ H) as (HR & _ & HK).
  destruct (queue_of_ok _ _ HR) as (w & Hw & He). exists w. split; auto.
  rewrite He, (refines_wire _ _ HR), (qlen_refines _ _ HR), (K_qlen _ HK). split; auto.
  intros e Hin Hwip. eapply unstarted_untouched; eauto.
Qed.

Lemma thm_drop : forall sm ops st outs w, run true ops (init sm) = Ok (st, outs) ->
  exists st' r wq wq', op_drop st w = Ok (st', r) /\ queue_of st = Ok wq /\ queue_of st' = Ok wq' /\
    match r with
    | None => entries_of wq' = entries_of wq
    | Some txt =>
      exists b t af, entries_of wq = b ++ t :: af /\ txt = e_data t /\ e_user t = true /\
        In (mkL t (Dropped (s_connected st))) (a_log (abs sm (ops ++ [ODrop w]))) /\
        (s_connected st = true -> e_wip t = false /\ e_sent t = 0%nat /\ ~ on_wire (e_id t) (s_wire st)) /\
        (entries_of wq' = b ++ af \/
         exists x af', af = x :: af' /\ e_link x = Some (e_id t) /\ e_owner x = OwSmLib /\ e_data x = req_ack /\
                       e_wip x = false /\ e_sent x = 0%nat /\ ~ on_wire (e_id x) (s_wire st) /\
                       entries_of wq' = b ++ af')
    end.
Proof.
  intros sm ops st outs w H. destruct (reach _ _ _ _ H) as (HR & _ & HK).
  destruct (drop_refines st _ w HR) as (st' & Hd & HR').
  destruct (queue_of_ok _ _ HR) as (wq & Hwq & Heq). destruct (queue_of_ok _ _ HR') as (wq' & Hwq' & Heq').
  exists st', (snd (a_drop (abs sm ops) w)), wq, wq'. repeat (split; auto).
  pose proof (a_drop_spec _ w HK) as Hs.
  assert (Habs : abs sm (ops ++ [ODrop w]) = fst (a_drop (abs sm ops) w)).
  { unfold abs. clear. generalize (a_init sm). induction ops; intros; cbn; auto. }
  assert (Hc : s_connected st = a_connected (abs sm ops)) by (dR HR; auto).
  rewrite Heq, Heq', Habs, Hc, (refines_wire _ _ HR).
  destruct (snd (a_drop (abs sm ops) w)) as [txt|].
  - destruct Hs as (b & t & af & Hq & Htxt & Hu & Hlog & Hlive & Hq').
    exists b, t, af. split; [exact Hq|]. split; [exact Htxt|]. split; [exact Hu|]. split; [exact Hlog|]. split.
    + intros Hcon. specialize (Hlive Hcon). split; auto.
      eapply unstarted_untouched; eauto. rewrite Hq. apply in_or_app. right. left. reflexivity.
    + destruct Hq' as [Hq'|(x & af' & -> & Hl & Ho & Hd' & Hw & Hs' & Hq')]; [left; auto|].
      right. exists x, af'. split; [reflexivity|]. split; [exact Hl|]. split; [exact Ho|]. split; [exact Hd'|].
      split; [exact Hw|]. split; [exact Hs'|]. split; [|exact Hq'].
      eapply (unstarted_untouched (a_q (abs sm ops))); eauto. rewrite Hq. apply in_or_app. right. right. left. reflexivity.
  - now rewrite Hs.
Qed.

Lemma thm_dropped_never_on_wire : forall sm ops st outs, run true ops (init sm) = Ok (st, outs) ->
  forall l, In l (a_log (abs sm ops)) -> l_status l = Dropped true -> ~ on_wire (e_id (l_e l)) (s_wire st).
Proof.
  intros sm ops st outs H l Hl Hs. destruct (reach _ _ _ _ H) as (HR & _ & HK).
  rewrite (refines_wire _ _ HR). apply (K_dropped_not_on_wire _ l HK Hl Hs).
Qed.

Lemma thm_log_record : forall sm ops o,
  map lkey (a_log (abs sm (ops ++ [o]))) = map lkey (a_log (abs sm ops)) ++ submitted (abs sm ops) o.
Proof.
  intros sm ops o.
  assert (Habs : abs sm (ops ++ [o]) = fst (a_step (abs sm ops) o)).
  { unfold abs. generalize (a_init sm). induction ops; intros; cbn; auto. }
  rewrite Habs. apply step_keys. apply K_run, K_init.
Qed.

Lemma thm_drop_text : forall sm ops st outs w, run true ops (init sm) = Ok (st, outs) ->
  exists st' r wq, op_drop st w = Ok (st', r) /\ queue_of st = Ok wq /\
    forall txt, r = Some txt ->
      exists t, In t (entries_of wq) /\ e_user t = true /\ txt = e_data t /\
                In (e_id t, OwUser, txt) (map lkey (a_log (abs sm ops))) /\
                In (mkL t (Dropped (s_connected st))) (a_log (abs sm (ops ++ [ODrop w]))).
Proof.
  intros sm ops st outs w H. destruct (thm_drop sm ops st outs w H) as (st' & r & wq & wq' & Hd & Hq & _ & Hr).
  exists st', r, wq. split; auto. split; auto. intros txt ->.
  destruct Hr as (b & t & af & Hw & Htxt & Hu & Hlog & _).
  exists t. split; [rewrite Hw; apply in_or_app; right; left; reflexivity|]. split; auto. split; auto. split; auto.
  destruct (reach _ _ _ _ H) as (HR & _ & HK). destruct (queue_of_ok _ _ HR) as (wq2 & Hq2 & He2).
  rewrite Hq in Hq2. inversion Hq2; subst wq2.
  assert (Hin : In (mkL t Queued) (a_log (abs sm ops))).
  { eapply queued_in_log; [apply HK|]. rewrite <- He2, Hw. apply in_or_app; right; left; reflexivity. }
  apply in_map_iff. exists (mkL t Queued). split; auto. unfold lkey. cbn.
  unfold e_user in Hu. destruct (e_owner t); try discriminate. now rewrite Htxt.
Qed.

(* ================================================================== the source is the code the model mirrors *)
Require Import LV.Gen.Gen_sendqueue.

Lemma Gen_sendqueue_consts_ok :
  req_ack_text = spec_req_ack /\
  forall o, is_user o = Z.eqb (owner_code o) q_user /\
            is_user o = negb (Z.eqb (Z.land (owner_code o) q_user) 0) /\
            is_sm o = negb (Z.eqb (Z.land (owner_code o) q_sm) 0).
Proof. split; [reflexivity|]. intros []; vm_compute; auto. Qed.

Lemma Gen_sendqueue_send_ok :
  src_send_lib_before_sm = true /\ src_send_counts = true /\ src_send_links_tail = true /\ src_send_piggyback = true.
Proof. repeat split; reflexivity. Qed.

Lemma Gen_sendqueue_loop_ok :
  src_loop_write = true /\ src_loop_written_accumulates = true /\ src_loop_wip_then_stop = true /\
  src_loop_counts = true /\ src_loop_moves_to_smq = true /\ src_loop_head_prev_cleared = true.
Proof. repeat split; reflexivity. Qed.

Lemma Gen_sendqueue_drop_ok :
  src_len_body = true /\ src_unlink_body = true /\ src_drop_single_wip = true /\ src_drop_choice = true /\
  src_drop_skips_wip_head = true /\ src_drop_linked_request = true.
Proof. repeat split; reflexivity. Qed.

Lemma Gen_sendqueue_ok :
  (req_ack_text = spec_req_ack /\
   forall o, is_user o = Z.eqb (owner_code o) q_user /\
             is_user o = negb (Z.eqb (Z.land (owner_code o) q_user) 0) /\
             is_sm o = negb (Z.eqb (Z.land (owner_code o) q_sm) 0)) /\
  (src_send_lib_before_sm = true /\ src_send_counts = true /\ src_send_links_tail = true /\ src_send_piggyback = true) /\
  (src_loop_write = true /\ src_loop_written_accumulates = true /\ src_loop_wip_then_stop = true /\
   src_loop_counts = true /\ src_loop_moves_to_smq = true /\ src_loop_head_prev_cleared = true) /\
  (src_len_body = true /\ src_unlink_body = true /\ src_drop_single_wip = true /\ src_drop_choice = true /\
   src_drop_skips_wip_head = true /\ src_drop_linked_request = true).
Proof.
  exact (conj Gen_sendqueue_consts_ok (conj Gen_sendqueue_send_ok (conj Gen_sendqueue_loop_ok Gen_sendqueue_drop_ok))).
Qed.

(* ================================================================== evaluated witnesses *)
Lemma history_runs_ex : exists st outs,
  run true [OSend OwUser [65;66;67]; OSend OwUser [68]; OSched [WK 1; WAgain]; OIter; OQlen; ODrop Youngest; OIter]
      (init true) = Ok (st, outs) /\
  outs = [OutNone; OutNone; OutNone; OutIter [65] false; OutLen 1; OutDrop (Some [68]); OutIter [] false].
Proof. eexists. eexists. split; vm_compute; reflexivity. Qed.

Lemma unfixed_uaf :
  run false [OSend OwUser [65]; OSend OwSmLib [66]; OSend OwSmLib [67]; OSched [WAll; WAgain]; OIter; ODrop Youngest]
      (init false) = UAF.
Proof. vm_compute. reflexivity. Qed.

Lemma unfixed_drops_sent : exists st,
  run false [OSend OwUser [65]; OSend OwSmLib [67]; OSched [WAll; WAgain]; OIter; ODrop Youngest; OQlen] (init true)
  = Ok (st, [OutNone; OutNone; OutNone; OutIter [65] false; OutDrop (Some [65]); OutLen (-1)]).
Proof. eexists. vm_compute. reflexivity. Qed.
