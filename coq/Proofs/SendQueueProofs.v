(* C06 - proofs: (1) heap lemmas about the doubly linked segment predicate, (2) every operation of
   SendQueueModel, started in a state that refines an abstract state, ends without UAF/Crash/Fuel in a state
   that refines the abstract successor and produces the same output, (3) invariants of the abstract FIFO
   machine and the property statements. *)
Require Import LV.Common.Bytes LV.Model.SendQueueModel LV.Spec.SendQueueSpec.
Require Import Lia.
Local Open Scope Z_scope.

(* ================================================================== basics *)
Lemma upd_same : forall h p c, upd h p c p = c.
Proof. intros. unfold upd. now rewrite Nat.eqb_refl. Qed.
Lemma upd_other : forall h p c x, x <> p -> upd h p c x = h x.
Proof. intros. unfold upd. destruct (Nat.eqb x p) eqn:E; auto. apply Nat.eqb_eq in E. congruence. Qed.

Lemma load_live : forall h p n, h p = Live n -> load h p = Ok n.
Proof. intros. unfold load. now rewrite H. Qed.
Lemma store_live : forall h p n f, h p = Live n -> store h p f = Ok (upd h p (Live (f n))).
Proof. intros. unfold store. rewrite (load_live _ _ _ H). reflexivity. Qed.

Lemma hd_id_app : forall l1 l2 d, hd_id (l1 ++ l2) d = hd_id l1 (hd_id l2 d).
Proof. destruct l1; reflexivity. Qed.
Lemma last_id_app : forall l1 l2 d, last_id (l1 ++ l2) d = last_id l2 (last_id l1 d).
Proof. induction l1; intros; cbn; auto. Qed.
Lemma last_id_snoc : forall l e d, last_id (l ++ [e]) d = Some (e_id e).
Proof. intros. now rewrite last_id_app. Qed.
Lemma last_id_some : forall l d, l <> [] -> forall d', last_id l d = last_id l d'.
Proof. destruct l; intros; [congruence|reflexivity]. Qed.

Lemma lseg_frame : forall l h h' p nx,
  (forall e, In e l -> h' (e_id e) = h (e_id e)) -> lseg h p l nx -> lseg h' p l nx.
Proof.
  induction l as [|e r IH]; intros h h' p nx Hf H; cbn in *; auto.
  destruct H as (n & Hn & He & Hp & Hx & Hr).
  exists n. rewrite Hf by auto. repeat split; auto.
  eapply IH; eauto.
Qed.

Lemma lseg_app : forall l1 l2 h p nx,
  lseg h p (l1 ++ l2) nx <-> lseg h p l1 (hd_id l2 nx) /\ lseg h (last_id l1 p) l2 nx.
Proof.
  induction l1 as [|e r IH]; intros; cbn.
  - tauto.
  - split.
    + intros (n & Hn & He & Hp & Hx & Hr). apply IH in Hr. destruct Hr as [Ha Hb].
      split; auto. exists n. repeat split; auto. now rewrite Hx, hd_id_app.
    + intros [(n & Hn & He & Hp & Hx & Hr) Hb]. exists n. repeat split; auto.
      * now rewrite hd_id_app.
      * apply IH. auto.
Qed.

Lemma lseg_in_live : forall l h p nx e, lseg h p l nx -> In e l ->
  exists n, h (e_id e) = Live n /\ entry_of (e_id e) n = e.
Proof.
  induction l as [|a r IH]; intros h p nx e H Hin; cbn in *; [tauto|].
  destruct H as (n & Hn & He & _ & _ & Hr). destruct Hin as [->|Hin]; eauto.
Qed.

(* the cell in the middle of a segment *)
Lemma lseg_mid : forall l1 e l2 h p nx, lseg h p (l1 ++ e :: l2) nx ->
  exists n, h (e_id e) = Live n /\ entry_of (e_id e) n = e /\ n_prev n = last_id l1 p /\ n_next n = hd_id l2 nx.
Proof.
  intros. apply lseg_app in H. destruct H as [_ H]. cbn in H.
  destruct H as (n & Hn & He & Hp & Hx & _). eauto.
Qed.

Lemma NoDup_app_l : forall A (l1 l2 : list A), NoDup (l1 ++ l2) -> NoDup l1.
Proof. induction l1; intros; [constructor|]. inversion H; subst. constructor; [|eauto]. intro; apply H2, in_or_app; auto. Qed.
Lemma NoDup_app_r : forall A (l1 l2 : list A), NoDup (l1 ++ l2) -> NoDup l2.
Proof. induction l1; intros; auto. inversion H; subst. eauto. Qed.
Lemma NoDup_app_disj : forall A (l1 l2 : list A) x, NoDup (l1 ++ l2) -> In x l1 -> In x l2 -> False.
Proof.
  induction l1; intros; cbn in *; [tauto|]. inversion H; subst. destruct H0 as [->|H0]; [|eauto].
  apply H4, in_or_app; auto.
Qed.

Lemma in_ids : forall (l : list entry) e, In e l -> In (e_id e) (map e_id l).
Proof. intros. now apply in_map. Qed.

(* replace the [next] of the last cell *)
Lemma lseg_set_last_next : forall l e h p nx nx' n,
  NoDup (map e_id (l ++ [e])) -> lseg h p (l ++ [e]) nx -> h (e_id e) = Live n ->
  lseg (upd h (e_id e) (Live (with_next nx' n))) p (l ++ [e]) nx'.
Proof.
  intros l e h p nx nx' n Hnd H Hn. apply lseg_app in H. destruct H as [Ha Hb].
  apply lseg_app. split.
  - cbn in *. eapply lseg_frame; [|exact Ha]. intros x Hx. apply upd_other.
    intro Heq. rewrite map_app in Hnd. eapply NoDup_app_disj; eauto using in_ids. cbn. auto.
  - cbn in *. destruct Hb as (n0 & Hn0 & He & Hp & Hx & _). rewrite Hn in Hn0. inversion Hn0; subst n0.
    exists (with_next nx' n). rewrite upd_same. repeat split; auto.
Qed.

(* replace the [prev] of the first cell *)
Lemma lseg_set_first_prev : forall e r h p p' nx n,
  NoDup (map e_id (e :: r)) -> lseg h p (e :: r) nx -> h (e_id e) = Live n ->
  lseg (upd h (e_id e) (Live (with_prev p' n))) p' (e :: r) nx.
Proof.
  intros e r h p p' nx n Hnd H Hn. cbn in *. destruct H as (n0 & Hn0 & He & Hp & Hx & Hr).
  rewrite Hn in Hn0. inversion Hn0; subst n0.
  exists (with_prev p' n). rewrite upd_same. repeat split; auto.
  eapply lseg_frame; [|exact Hr]. intros x Hx'. apply upd_other. intro Heq.
  inversion Hnd; subst. apply H1. rewrite <- Heq. now apply in_ids.
Qed.

(* change the contents (not the links) of the first cell *)
Lemma lseg_update_first : forall e e' r h p nx n f,
  NoDup (map e_id (e :: r)) -> lseg h p (e :: r) nx -> h (e_id e) = Live n ->
  e_id e' = e_id e -> entry_of (e_id e) (f n) = e' -> n_prev (f n) = n_prev n -> n_next (f n) = n_next n ->
  lseg (upd h (e_id e) (Live (f n))) p (e' :: r) nx.
Proof.
  intros e e' r h p nx n f Hnd H Hn Hid He' Hfp Hfn. cbn in *. destruct H as (n0 & Hn0 & He & Hp & Hx & Hr).
  rewrite Hn in Hn0. inversion Hn0; subst n0.
  exists (f n). rewrite Hid, upd_same. repeat split; auto; try congruence.
  eapply lseg_frame; [|exact Hr]. intros x Hx'. apply upd_other. intro Heq.
  inversion Hnd; subst. apply H1. rewrite <- Heq. now apply in_ids.
Qed.

Lemma lseg_nil_next : forall l h p nx nx', l = [] -> lseg h p l nx -> lseg h p l nx'.
Proof. intros; subst; exact I. Qed.

(* ids of live cells are below the allocation mark *)
Lemma live_below : forall st x n, (forall y, (s_next st <= y)%nat -> s_heap st y = Unalloc) ->
  s_heap st x = Live n -> (x < s_next st)%nat.
Proof. intros. destruct (Nat.lt_ge_cases x (s_next st)); auto. rewrite H in H0 by auto. discriminate. Qed.

Lemma NoDup_bounded_length : forall (l : list nat) n, NoDup l -> (forall x, In x l -> (x < n)%nat) -> (length l <= n)%nat.
Proof.
  intros. rewrite <- (seq_length n 0). apply NoDup_incl_length; auto.
  intros x Hx. apply in_seq. specialize (H0 x Hx). lia.
Qed.

(* ================================================================== refinement: queueing *)
Require Import Permutation.

Ltac dR H := destruct H as (Hq & Hhd & Htl & Hsq & Hshd & Hstl & Hnd & Hfresh & Hlen & Hulen & Hnext & Hsm & Hrs & Hnr & Hconn & Hsched & Hwire).

Lemma lseg_ids_below : forall l h p nx nxt, lseg h p l nx -> (forall y, (nxt <= y)%nat -> h y = Unalloc) ->
  forall e, In e l -> (e_id e < nxt)%nat.
Proof.
  intros. destruct (lseg_in_live _ _ _ _ _ H H1) as (n & Hn & _).
  destruct (Nat.lt_ge_cases (e_id e) nxt); auto. rewrite H0 in Hn by auto. discriminate.
Qed.

Lemma count_user_app : forall l1 l2, count_user (l1 ++ l2) = (count_user l1 + count_user l2)%nat.
Proof. intros. unfold count_user. now rewrite filter_app, app_length. Qed.

Lemma list_snoc_cases : forall A (l : list A), l = [] \/ exists l' x, l = l' ++ [x].
Proof. intros. destruct l using rev_ind; eauto. Qed.

Lemma nodup_ids_l : forall (q s : list entry), NoDup (map e_id (q ++ s)) -> NoDup (map e_id q).
Proof. intros. rewrite map_app in H. eapply NoDup_app_l; eauto. Qed.
Lemma nodup_ids_r : forall (q s : list entry), NoDup (map e_id (q ++ s)) -> NoDup (map e_id s).
Proof. intros. rewrite map_app in H. eapply NoDup_app_r; eauto. Qed.
Lemma nodup_ids_disj : forall (q s : list entry) x y, NoDup (map e_id (q ++ s)) -> In x q -> In y s -> e_id x <> e_id y.
Proof.
  intros. rewrite map_app in H. intro Heq. eapply NoDup_app_disj; [exact H| |].
  - apply in_ids; eauto. - rewrite Heq. now apply in_ids.
Qed.

Ltac projs := cbn [fst snd a_q a_smq a_next a_sm_enabled a_r_sent a_sent_nr a_connected a_sched a_wire a_log
                       s_heap s_next s_head s_tail s_len s_ulen s_sm_enabled s_r_sent s_sent_nr
                       s_smq_head s_smq_tail s_connected s_sched s_wire] in *.

Lemma enqueue_refines : forall st a data ow ud, Refines st a ->
  exists st', enqueue st data ow ud = Ok (st', a_next a) /\ Refines st' (fst (a_enqueue a data ow ud)).
Proof.
  intros st a data ow ud HR. dR HR.
  set (item := s_next st).
  set (nd := mkNode data 0 false ow ud 0 (s_tail st) None).
  set (e := mkE (a_next a) ow data 0 false ud 0).
  assert (Hitem : e_id e = item) by (cbn; unfold item; congruence).
  assert (Hitem0 : item = s_next st) by reflexivity.
  assert (Hent : entry_of item nd = e) by (unfold entry_of, e, nd, item; cbn; now rewrite Hnext).
  assert (Hndp : n_prev nd = s_tail st) by reflexivity.
  assert (Hndn : n_next nd = None) by reflexivity.
  assert (Hue : count_user [e] = if is_user ow then 1%nat else 0%nat).
  { unfold count_user, e_user, e. cbn. destruct (is_user ow); reflexivity. }
  assert (Hfq : forall x, In x (a_q a) -> e_id x <> item).
  { intros x Hx. pose proof (lseg_ids_below _ _ _ _ _ Hq Hfresh x Hx). unfold item. lia. }
  assert (Hfs : forall x, In x (a_smq a) -> e_id x <> item).
  { intros x Hx. pose proof (lseg_ids_below _ _ _ _ _ Hsq Hfresh x Hx). unfold item. lia. }
  assert (Hnd' : NoDup (map e_id ((a_q a ++ [e]) ++ a_smq a))).
  { eapply Permutation_NoDup with (l := map e_id (e :: a_q a ++ a_smq a)).
    - apply Permutation_map. rewrite <- app_assoc. cbn. apply Permutation_middle.
    - cbn [map]. constructor; auto. intro Hin. apply in_map_iff in Hin. destruct Hin as (x & Hxe & Hx).
      rewrite Hitem in Hxe. apply in_app_or in Hx. destruct Hx as [Hx|Hx]; [eapply Hfq|eapply Hfs]; eauto. }
  assert (Haq : fst (a_enqueue a data ow ud) =
                mkA (a_q a ++ [e]) (a_smq a) (S (a_next a)) (a_sm_enabled a) (a_r_sent a) (a_sent_nr a) (a_connected a)
                    (a_sched a) (a_wire a) (a_log a ++ [mkL e Queued])) by reflexivity.
  rewrite Haq. clear Haq.
  destruct (list_snoc_cases _ (a_q a)) as [Hnil|(l & lst & Hl)].
  - (* empty queue *)
    rewrite Hnil in *. cbn in Htl, Hhd.
    assert (Henq : enqueue st data ow ud =
      Ok (mkSt (upd (s_heap st) item (Live nd)) (S item) (Some item) (Some item) (s_len st + 1)
           (if is_user ow then s_ulen st + 1 else s_ulen st)
           (s_sm_enabled st) (s_r_sent st) (s_sent_nr st) (s_smq_head st) (s_smq_tail st)
           (s_connected st) (s_sched st) (s_wire st), item)).
    { unfold enqueue. cbv zeta. fold item. fold nd. rewrite Htl. reflexivity. }
    rewrite Henq. clear Henq. clearbody e nd item.
    eexists. split. { rewrite <- Hnext, <- Hitem0. reflexivity. }
    unfold Refines. projs. cbn [app].
    repeat split; auto.
    + cbn [lseg hd_id]. exists nd. rewrite Hitem, upd_same. rewrite Hndp, Htl. repeat split; auto.
    + cbn. now rewrite Hitem.
    + cbn. now rewrite Hitem.
    + eapply lseg_frame; [|exact Hsq]. intros x Hx. apply upd_other. now apply Hfs.
    + intros x Hx. rewrite upd_other by lia. apply Hfresh. lia.
    + cbn in *. lia.
    + rewrite Hue. cbn in Hulen. destruct (is_user ow); lia.
    + lia.
  - (* append behind lst *)
    rewrite Hl in *. rewrite last_id_snoc in Htl.
    destruct (lseg_mid l lst [] _ _ _ Hq) as (n & Hn & Hen & Hpn & Hxn).
    assert (Hlst : e_id lst <> item) by (apply Hfq, in_or_app; cbn; auto).
    assert (Henq : enqueue st data ow ud =
      Ok (mkSt (upd (upd (s_heap st) item (Live nd)) (e_id lst) (Live (with_next (Some item) n)))
           (S item) (s_head st) (Some item) (s_len st + 1)
           (if is_user ow then s_ulen st + 1 else s_ulen st)
           (s_sm_enabled st) (s_r_sent st) (s_sent_nr st) (s_smq_head st) (s_smq_tail st)
           (s_connected st) (s_sched st) (s_wire st), item)).
    { unfold enqueue. cbv zeta. fold item. fold nd. rewrite Htl.
      erewrite store_live by (rewrite upd_other by exact Hlst; exact Hn). reflexivity. }
    rewrite Henq. clear Henq. clearbody e nd item.
    eexists. split. { rewrite <- Hnext, <- Hitem0. reflexivity. }
    unfold Refines. projs.
    assert (Hq1 : lseg (upd (s_heap st) item (Live nd)) None (l ++ [lst]) None).
    { eapply lseg_frame; [|exact Hq]. intros x Hx. apply upd_other. now apply Hfq. }
    repeat split; auto.
    + apply lseg_app. split.
      * cbn [hd_id]. rewrite Hitem. eapply lseg_set_last_next; eauto.
        -- eapply nodup_ids_l; eauto.
        -- rewrite upd_other by exact Hlst. exact Hn.
      * cbn [lseg hd_id]. exists nd. rewrite Hitem. rewrite upd_other by congruence. rewrite upd_same.
        repeat split; auto. rewrite Hndp, Htl. now rewrite last_id_snoc.
    + rewrite hd_id_app. rewrite hd_id_app in Hhd. destruct l; cbn in *; auto.
    + rewrite last_id_snoc. now rewrite Hitem.
    + eapply lseg_frame; [|exact Hsq]. intros x Hx.
      rewrite upd_other. { apply upd_other. now apply Hfs. }
      intro Heq. eapply (nodup_ids_disj _ _ lst x Hnd); auto. apply in_or_app; cbn; auto.
    + intros x Hx. rewrite upd_other. { rewrite upd_other by lia. apply Hfresh. lia. }
      pose proof (lseg_ids_below _ _ _ _ _ Hq Hfresh lst).
      assert (In lst (l ++ [lst])) by (apply in_or_app; cbn; auto). specialize (H H0). lia.
    + rewrite !app_length in *. cbn in *. lia.
    + rewrite count_user_app. rewrite Hue. destruct (is_user ow); lia.
    + lia.
Qed.

Lemma set_r_sent_refines : forall st a b, Refines st a -> Refines (set_r_sent st b) (a_set_r_sent a b).
Proof. intros st a b HR. dR HR. unfold Refines, set_r_sent, a_set_r_sent. projs. repeat split; auto. Qed.

Lemma a_enqueue_snd : forall a d ow l, snd (a_enqueue a d ow l) = a_next a.
Proof. reflexivity. Qed.

Lemma send_refines : forall st a ow d, Refines st a ->
  exists st', op_send st ow d = Ok st' /\ Refines st' (a_send a ow d).
Proof.
  intros st a ow d HR. unfold op_send, a_send.
  assert (Hc : s_connected st = a_connected a) by (dR HR; auto). rewrite Hc.
  destruct (a_connected a) eqn:Hcon; [|eauto].
  unfold send_raw_inner.
  destruct (enqueue_refines st a d ow None HR) as (st1 & He1 & HR1). rewrite He1. cbn [bind].
  destruct (a_enqueue a d ow None) as [a1 item] eqn:Ea.
  assert (item = a_next a) by (rewrite <- (a_enqueue_snd a d ow None), Ea; reflexivity). subst item.
  cbn [fst] in HR1.
  assert (Hf : s_sm_enabled st1 = a_sm_enabled a1 /\ s_r_sent st1 = a_r_sent a1) by (dR HR1; auto).
  destruct Hf as [-> ->].
  destruct (negb (is_sm ow) && a_sm_enabled a1 && negb (a_r_sent a1)) eqn:Ec; [|eauto].
  pose proof (set_r_sent_refines st1 a1 true HR1) as HR2.
  assert (Hc2 : s_connected (set_r_sent st1 true) = a_connected (a_set_r_sent a1 true)) by (dR HR2; auto).
  rewrite Hc2. destruct (a_connected (a_set_r_sent a1 true)); [|eauto].
  destruct (enqueue_refines _ _ req_ack OwSmLib (Some (a_next a)) HR2) as (st3 & He3 & HR3).
  rewrite He3. cbn [bind fst]. eauto.
Qed.
