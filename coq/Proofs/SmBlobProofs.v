(* C16 - proofs about SmBlobModel (see Properties/Properties_C16.v for the statements). *)
Require Import LV.Common.Bytes LV.Gen.Gen_smblob LV.Model.SmBlobModel LV.Spec.SmBlobSpec.
Require Import Lia ZifyBool.
Ltac Zify.zify_post_hook ::= Z.div_mod_to_equations.
Local Open Scope Z_scope.

(* ------------------------------------------------------------------------------------------------ *)
(* the generated constants and code shape are those the proofs are about *)

Lemma Gen_smblob_ok :
  gen_variant = fixed_variant /\
  [ser_tag_sent; ser_tag_handled; ser_tag_id; ser_tag_sqcount; ser_tag_sqitem; ser_tag_mqcount; ser_tag_mqh; ser_tag_mqitem]
    = [T_WORD; T_WORD; T_STRING; T_UNSENT; T_STRING; T_UNACKED; T_WORD; T_STRING] /\
  [ld_tag_sent; ld_tag_handled; ld_tag_str; ld_tag_sqcount; ld_tag_mqcount; ld_tag_mqh]
    = [T_WORD; T_WORD; T_STRING; T_UNSENT; T_UNACKED; T_WORD] /\
  ser_version = enc_word FORMAT_VERSION /\ ld_version = enc_word FORMAT_VERSION /\ ld_skip = zlen ld_version /\
  blob_min_len = MIN_LEN /\ ser_fixed = 30 /\ ser_sq_item = 5 /\ ser_mq_item = 10 /\ store_need = 5 /\
  ld_incr_before_check = false /\
  (OWNER_STROPHE, OWNER_USER, OWNER_SM) = (1, 2, 2048) /\
  (ST_DISCONNECTED, ST_CONNECTING, ST_CONNECTED) = (0, 1, 2) /\ EINVOP = -2.
Proof. vm_compute. repeat split; reflexivity. Qed.

Lemma gen_fixed : gen_variant = fixed_variant.
Proof. exact (proj1 Gen_smblob_ok). Qed.

(* ------------------------------------------------------------------------------------------------ *)
(* lists *)

Lemma zlen_app {A} (a b : list A) : zlen (a ++ b) = zlen a + zlen b.
Proof. unfold zlen. rewrite app_length. lia. Qed.
Lemma zlen_cons {A} (x : A) l : zlen (x :: l) = 1 + zlen l.
Proof. unfold zlen. cbn [length]. lia. Qed.
Lemma zlen_nil {A} : zlen (@nil A) = 0.
Proof. reflexivity. Qed.
Lemma zlen_nonneg {A} (l : list A) : 0 <= zlen l.
Proof. unfold zlen. lia. Qed.
Lemma zlen_map {A B} (f : A -> B) l : zlen (map f l) = zlen l.
Proof. unfold zlen. now rewrite map_length. Qed.

Lemma firstn_zlen_app {A} (a b : list A) : firstn (Z.to_nat (zlen a)) (a ++ b) = a.
Proof.
  unfold zlen. rewrite Nat2Z.id. rewrite firstn_app, Nat.sub_diag, firstn_all. cbn. now rewrite app_nil_r.
Qed.
Lemma skipn_zlen_app {A} (a b : list A) : skipn (Z.to_nat (zlen a)) (a ++ b) = b.
Proof.
  unfold zlen. rewrite Nat2Z.id. rewrite skipn_app, Nat.sub_diag, skipn_all. reflexivity.
Qed.

Lemma nth_error_app_len {A} (a : list A) x b : nth_error (a ++ x :: b) (length a) = Some x.
Proof. rewrite nth_error_app2 by lia. now rewrite Nat.sub_diag. Qed.

Lemma lset_app_len {A} (a : list A) x b y : lset (a ++ x :: b) (length a) y = a ++ y :: b.
Proof. induction a; cbn; [reflexivity | now rewrite IHa]. Qed.

Lemma lset_length {A} (l : list A) i x : length (lset l i x) = length l.
Proof. revert i; induction l; intros [|i]; cbn; auto. Qed.

(* ------------------------------------------------------------------------------------------------ *)
(* words *)

Lemma u32_id v : is_u32 v -> u32 v = v.
Proof. unfold is_u32, u32, two32. intros. apply Z.mod_small. lia. Qed.

Lemma be32_word v : is_u32 v -> be32 (u32 v) = word v.
Proof.
  intros H. rewrite u32_id by assumption. unfold be32, word, is_u32 in *.
  f_equal. lia.
Qed.

Lemma be32_val_word v : is_u32 v ->
  be32_val (v / 16777216) ((v / 65536) mod 256) ((v / 256) mod 256) (v mod 256) = v.
Proof. unfold is_u32, be32_val. intros. lia. Qed.

Lemma word_length v : zlen (word v) = 4.
Proof. reflexivity. Qed.

Lemma be32_val_range b3 b2 b1 b0 : is_byte b3 -> is_byte b2 -> is_byte b1 -> is_byte b0 ->
  is_u32 (be32_val b3 b2 b1 b0).
Proof. unfold is_byte, is_u32, be32_val. lia. Qed.

Lemma word_be32_val b3 b2 b1 b0 : is_byte b3 -> is_byte b2 -> is_byte b1 -> is_byte b0 ->
  word (be32_val b3 b2 b1 b0) = [b3; b2; b1; b0].
Proof.
  unfold is_byte, be32_val, word. intros.
  repeat f_equal; lia.
Qed.

(* ------------------------------------------------------------------------------------------------ *)
(* loaders on well-formed input *)

Lemma load_u32_ok ty v rest : is_u32 v ->
  load_u32 fixed_variant (ty :: word v ++ rest) ty = LOk v rest.
Proof.
  intros H. unfold load_u32. cbn [v_check_first v_ld_need fixed_variant].
  replace (zlen (ty :: word v ++ rest) <? 5) with false.
  2:{ rewrite zlen_cons, zlen_app, word_length. pose proof (zlen_nonneg rest). lia. }
  rewrite Z.eqb_refl. cbn [negb load_word word app]. now rewrite be32_val_word.
Qed.

Lemma load_string_ok t rest : zlen t < 4294967295 ->
  load_string fixed_variant (enc_string t ++ rest) = LOk (t ++ [0], zlen t) rest.
Proof.
  intros H. unfold load_string, enc_string.
  assert (Hu : is_u32 (zlen t)) by (unfold is_u32; pose proof (zlen_nonneg t); lia).
  change ld_tag_str with T_STRING.
  cbn [app]. rewrite <- app_assoc. rewrite load_u32_ok by assumption.
  cbn [v_str_check fixed_variant andb].
  replace (zlen t >? zlen (t ++ rest)) with false.
  2:{ rewrite zlen_app. pose proof (zlen_nonneg rest). lia. }
  replace (u32 (zlen t + 1) <? zlen t + 1) with false.
  2:{ rewrite u32_id; unfold is_u32 in *; lia. }
  now rewrite firstn_zlen_app, skipn_zlen_app.
Qed.

(* ------------------------------------------------------------------------------------------------ *)
(* heap: a run of consecutively allocated, linked elements *)

Definition mk (p : node) (pv nx : option nat) : node := set_next nx (set_prev pv p).

(* cells base, base+1, ... holding the contents l, each linked to its neighbours; the first one's prev is pv,
   the last one's next is fin *)
Fixpoint chain (base : nat) (pv : option nat) (l : list node) (fin : option nat) : heap :=
  match l with
  | [] => []
  | p :: r => Live (mk p pv (match r with [] => fin | _ => Some (S base) end))
              :: chain (S base) (Some base) r fin
  end.

Definition lastp (b : nat) (pv : option nat) (l : list node) : option nat :=
  match l with [] => pv | _ => Some (b + length l - 1)%nat end.
Definition firstp (b : nat) (l : list node) : option nat :=
  match l with [] => None | _ => Some b end.

Lemma chain_length b pv l fin : length (chain b pv l fin) = length l.
Proof. revert b pv; induction l; intros; cbn; auto. Qed.

Lemma chain_snoc l : forall b pv p fin,
  chain b pv (l ++ [p]) fin = chain b pv l (Some (b + length l)%nat) ++ [Live (mk p (lastp b pv l) fin)].
Proof.
  induction l as [|a r IH]; intros; cbn [app chain lastp length].
  - reflexivity.
  - rewrite IH. cbn [app]. f_equal.
    + destruct r; cbn [app length]; [replace (b + 1)%nat with (S b) by lia|]; reflexivity.
    + replace (S b + length r)%nat with (b + S (length r))%nat by lia.
      replace (lastp (S b) (Some b) r) with (Some (b + S (length r) - 1)%nat); [reflexivity|].
      destruct r; cbn [lastp length]; f_equal; lia.
Qed.

Lemma hget_mid (a : heap) n b : hget (a ++ Live n :: b) (length a) = Ok n.
Proof. unfold hget. now rewrite nth_error_app_len. Qed.

Lemma hupd_mid (a : heap) n b f : hupd (a ++ Live n :: b) (length a) f = Ok (a ++ Live (f n) :: b).
Proof. unfold hupd. rewrite hget_mid. cbn [bind]. now rewrite lset_app_len. Qed.

Lemma hupd_last (a : heap) n f : hupd (a ++ [Live n]) (length a) f = Ok (a ++ [Live (f n)]).
Proof. apply hupd_mid. Qed.

Lemma hupd_mid_at (a : heap) n b f i : i = length a -> hupd (a ++ Live n :: b) i f = Ok (a ++ Live (f n) :: b).
Proof. intros ->. apply hupd_mid. Qed.

Lemma hupd_last_at (a : heap) n f i : i = length a -> hupd (a ++ [Live n]) i f = Ok (a ++ [Live (f n)]).
Proof. intros ->. apply hupd_last. Qed.

Lemma hfree_mid (a : heap) n b : hfree (a ++ Live n :: b) (length a) = Ok (a ++ Freed :: b).
Proof. unfold hfree. rewrite nth_error_app_len. now rewrite lset_app_len. Qed.

Lemma mk_set_next p pv nx x : set_next x (mk p pv nx) = mk p pv x.
Proof. reflexivity. Qed.

Lemma app_cons_assoc {A} (a : list A) x b : a ++ x :: b = (a ++ [x]) ++ b.
Proof. now rewrite <- app_assoc. Qed.

Lemma chain_cons_ne b pv p r fin : r <> [] ->
  chain b pv (p :: r) fin = Live (mk p pv (Some (S b))) :: chain (S b) (Some b) r fin.
Proof. destruct r; [congruence | reflexivity]. Qed.

(* redirecting the last element's next *)
Lemma chain_set_fin l : forall pre b pv fin x suf, l <> [] -> b = length pre ->
  hupd (pre ++ chain b pv l fin ++ suf) (b + length l - 1)%nat (set_next x)
  = Ok (pre ++ chain b pv l x ++ suf).
Proof.
  induction l as [|p r IH]; intros pre b pv fin x suf Hne Hb; [congruence|].
  destruct r as [|q r'] eqn:Er; [|assert (E : r <> []) by (subst r; discriminate); rewrite <- Er in *; clear Er].
  - cbn [chain length app]. replace (b + 1 - 1)%nat with (length pre) by lia.
    rewrite hupd_mid. now rewrite mk_set_next.
  - rewrite !chain_cons_ne by assumption. cbn [length].
    rewrite <- !app_comm_cons.
    rewrite (app_cons_assoc pre).
    replace (b + S (length r) - 1)%nat with (S b + length r - 1)%nat by (destruct r; [congruence | cbn [length]; lia]).
    rewrite (IH (pre ++ [Live (mk p pv (Some (S b)))]) (S b) (Some b) fin x suf);
      [| assumption | rewrite app_length; cbn; lia].
    now rewrite <- app_cons_assoc.
Qed.

(* ------------------------------------------------------------------------------------------------ *)
(* send queue = chain;  one iteration of the restore loop and one native send append the same cell *)

Definition content (d : list Z) (len h : Z) : node := mkNode (Some d) len 0 false OWNER_USER None h None None.

(* c with a heap `pre ++ chain` whose chain is the send queue *)
Definition sqconn (c : conn) (pre : heap) (l : list node) (ql qu : Z) : conn :=
  mkConn (pre ++ chain (length pre) None l None) (c_state c) (c_neg c) (c_cb c) (c_sm c)
         (firstp (length pre) l) (lastp (length pre) None l) ql qu.

Lemma firstp_snoc' b l p : firstp b (l ++ [p]) = match firstp b l with None => Some b | x => x end.
Proof. destruct l; reflexivity. Qed.
Lemma lastp_snoc b pv l p : lastp b pv (l ++ [p]) = Some (b + length l)%nat.
Proof. unfold lastp. destruct l; cbn [app length]; f_equal; [lia|]. rewrite app_length. cbn. lia. Qed.

Lemma heap_len pre l fin : length (pre ++ chain (length pre) None l fin) = (length pre + length l)%nat.
Proof. now rewrite app_length, chain_length. Qed.

Lemma restore_link_ok c pre l ql qu :
  restore_link fixed_variant
    (with_heap (sqconn c pre l ql qu) (c_heap (sqconn c pre l ql qu) ++ [Live zero_node]))
    (length pre + length l)%nat
  = Ok (sqconn c pre (l ++ [zero_node]) ql qu).
Proof.
  unfold restore_link, sqconn. cbn [with_heap sq_tail c_heap sq_head sq_len sq_ulen c_state c_neg c_cb c_sm with_queue].
  destruct l as [|a r] eqn:El.
  - cbn [lastp firstp chain app length]. rewrite !app_nil_r.
    replace (length pre + 0)%nat with (length pre) by lia.
    replace (length pre + 1 - 1)%nat with (length pre) by lia. reflexivity.
  - rewrite <- El in *. assert (Hne : l <> []) by (subst; discriminate).
    replace (lastp (length pre) None l) with (Some (length pre + length l - 1)%nat) by (subst; reflexivity).
    cbn [v_links_prev fixed_variant].
    rewrite <- app_assoc.
    replace (length pre + length l)%nat with (length (pre ++ chain (length pre) None l None)) at 1 by apply heap_len.
    rewrite app_assoc, hupd_last. cbn [bind]. rewrite <- app_assoc.
    rewrite chain_set_fin by auto. cbn [bind with_queue with_heap c_heap c_state c_neg c_cb c_sm sq_head sq_len sq_ulen].
    rewrite chain_snoc, lastp_snoc, firstp_snoc'.
    replace (lastp (length pre) None l) with (Some (length pre + length l - 1)%nat) by (subst; reflexivity).
    replace (firstp (length pre) l) with (Some (length pre)) by (subst; reflexivity).
    rewrite <- app_assoc. reflexivity.
Qed.

Lemma restore_sq_done v fuel i n c s : n <= i -> restore_sq v fuel i n c s = inr (c, s).
Proof. intros. destruct fuel; cbn [restore_sq]; replace (n <=? i) with true by lia; reflexivity. Qed.

Lemma set_content_zero d len pv :
  set_owner OWNER_USER (set_data (Some d) len (mk zero_node pv None)) = mk (content d len 0) pv None.
Proof. reflexivity. Qed.

Lemma sqconn_snoc_content c pre l ql qu d len :
  with_heap (sqconn c pre (l ++ [zero_node]) ql qu)
    (pre ++ chain (length pre) None l (Some (length pre + length l)%nat)
         ++ [Live (mk (content d len 0) (lastp (length pre) None l) None)])
  = sqconn c pre (l ++ [content d len 0]) ql qu.
Proof.
  unfold sqconn, with_heap. cbn [c_state c_neg c_cb c_sm sq_head sq_tail sq_len sq_ulen].
  rewrite chain_snoc, !lastp_snoc, !firstp_snoc'. reflexivity.
Qed.

Lemma restore_sq_step c pre l ql qu f i n s : i < n ->
  restore_sq fixed_variant (S f) i n (sqconn c pre l ql qu) s =
  match load_string fixed_variant s with
  | LOk (d, len) s1 => restore_sq fixed_variant f (i + 1) n (sqconn c pre (l ++ [content d len 0]) ql qu) s1
  | LReject => inl (err_reload fixed_variant (sqconn c pre (l ++ [zero_node]) ql qu))
  | LOOB => inl OOB
  end.
Proof.
  intros Hi. cbn [restore_sq]. replace (n <=? i) with false by lia.
  unfold halloc.
  replace (length (c_heap (sqconn c pre l ql qu))) with (length pre + length l)%nat
    by (unfold sqconn; cbn [c_heap]; now rewrite heap_len).
  rewrite restore_link_ok.
  destruct (load_string fixed_variant s) as [[d len] s1| |]; try reflexivity.
  unfold sqconn at 1. cbn [c_heap]. rewrite chain_snoc.
  replace (length pre + length l)%nat with (length (pre ++ chain (length pre) None l (Some (length pre + length l)%nat))) at 2
    by apply heap_len.
  rewrite app_assoc, hupd_last, set_content_zero, <- app_assoc.
  rewrite sqconn_snoc_content. reflexivity.
Qed.

Definition sq_content (t : list Z) : node := content (t ++ [0]) (zlen t) 0.
Definition mq_content (p : Z * list Z) : node := content (snd p ++ [0]) (zlen (snd p)) (fst p).

Lemma restore_sq_enc ts : forall c pre l ql qu f i n rest,
  Forall (fun t => zlen t < 4294967295) ts -> i + zlen ts = n -> (length ts <= f)%nat ->
  restore_sq fixed_variant f i n (sqconn c pre l ql qu) (concat (map enc_string ts) ++ rest)
  = inr (sqconn c pre (l ++ map sq_content ts) ql qu, rest).
Proof.
  induction ts as [|t ts IH]; intros c pre l ql qu f i n rest Hall Hn Hf.
  - cbn [map concat app]. rewrite app_nil_r. apply restore_sq_done. rewrite zlen_nil in Hn. lia.
  - apply Forall_cons_iff in Hall as [Ht Hts].
    destruct f as [|f]; [cbn in Hf; lia|].
    rewrite zlen_cons in Hn. pose proof (zlen_nonneg ts).
    rewrite restore_sq_step by lia.
    cbn [map concat]. rewrite <- app_assoc. rewrite load_string_ok by assumption.
    rewrite IH; [| assumption | lia | cbn in Hf; lia].
    cbn [map]. now rewrite <- app_assoc.
Qed.

(* ------------------------------------------------------------------------------------------------ *)
(* SM queue = chain *)

Definition mqsm (sm0 : smstate) (pre : heap) (l : list node) : smstate :=
  sm_with_queue sm0 (firstp (length pre) l) (lastp (length pre) None l).

Definition mqconn (c : conn) (sm0 : smstate) (pre : heap) (l : list node) : conn :=
  mkConn (pre ++ chain (length pre) None l None) (c_state c) (c_neg c) (c_cb c) (SmLive (mqsm sm0 pre l))
         (sq_head c) (sq_tail c) (sq_len c) (sq_ulen c).

Lemma add_queue_back_ok pre l p :
  add_queue_back ((pre ++ chain (length pre) None l None) ++ [Live p])
                 (firstp (length pre) l) (lastp (length pre) None l) (length pre + length l)%nat
  = Ok (pre ++ chain (length pre) None (l ++ [p]) None, firstp (length pre) (l ++ [p]), lastp (length pre) None (l ++ [p])).
Proof.
  unfold add_queue_back.
  rewrite hupd_last_at by (now rewrite heap_len). cbn [bind].
  destruct l as [|a r] eqn:El.
  - cbn [lastp firstp]. rewrite hupd_last_at by (now rewrite heap_len). cbn [bind chain app length lastp firstp]. rewrite !app_nil_r.
    replace (length pre + 1 - 1)%nat with (length pre) by lia.
    replace (length pre + 0)%nat with (length pre) by lia. reflexivity.
  - rewrite <- El in *. assert (Hne : l <> []) by (subst; discriminate).
    replace (lastp (length pre) None l) with (Some (length pre + length l - 1)%nat) by (subst; reflexivity).
    rewrite hupd_last_at by (now rewrite heap_len). cbn [bind]. rewrite <- app_assoc.
    rewrite chain_set_fin by auto. cbn [bind].
    rewrite chain_snoc, lastp_snoc, firstp_snoc'.
    replace (lastp (length pre) None l) with (Some (length pre + length l - 1)%nat) by (subst; reflexivity).
    replace (firstp (length pre) l) with (Some (length pre)) by (subst; reflexivity).
    reflexivity.
Qed.

Lemma restore_mq_done v fuel i n c sm s : n <= i -> restore_mq v fuel i n c sm s = inr (c, sm, s).
Proof. intros. destruct fuel; cbn [restore_mq]; replace (n <=? i) with true by lia; reflexivity. Qed.

Lemma mq_last_cell pre l p f :
  hupd (pre ++ chain (length pre) None (l ++ [p]) None) (length pre + length l)%nat f
  = Ok (pre ++ chain (length pre) None l (Some (length pre + length l)%nat)
            ++ [Live (f (mk p (lastp (length pre) None l) None))]).
Proof.
  rewrite chain_snoc, app_assoc.
  rewrite hupd_last_at by (now rewrite heap_len). now rewrite <- app_assoc.
Qed.

Lemma chain_snoc_fold pre l q :
  pre ++ chain (length pre) None l (Some (length pre + length l)%nat) ++ [Live (mk q (lastp (length pre) None l) None)]
  = pre ++ chain (length pre) None (l ++ [q]) None.
Proof. now rewrite chain_snoc. Qed.

Lemma mqconn_fold1 c sm0 pre l p q H1 :
  with_heap (with_sm (with_heap (mqconn c sm0 pre l) H1)
                     (SmLive (sm_with_queue (mqsm sm0 pre l) (firstp (length pre) (l ++ [p]))
                                            (lastp (length pre) None (l ++ [p])))))
            (pre ++ chain (length pre) None (l ++ [q]) None)
  = mqconn c sm0 pre (l ++ [q]).
Proof.
  unfold mqconn, mqsm, with_heap, with_sm. cbn [c_state c_neg c_cb c_sm sq_head sq_tail sq_len sq_ulen sm_with_queue
    sm_support sm_enabled sm_can_resume sm_resume sm_r_sent sm_handled sm_sent sm_id].
  rewrite !lastp_snoc, !firstp_snoc'. reflexivity.
Qed.

Lemma restore_mq_step c sm0 pre l f i n s : i < n ->
  restore_mq fixed_variant (S f) i n (mqconn c sm0 pre l) (mqsm sm0 pre l) s =
  match load_u32 fixed_variant s ld_tag_mqh with
  | LOk hv s1 =>
    match load_string fixed_variant s1 with
    | LOk (d, len) s2 =>
      restore_mq fixed_variant f (i + 1) n (mqconn c sm0 pre (l ++ [content d len hv]))
                 (mqsm sm0 pre (l ++ [content d len hv])) s2
    | LReject => inl (err_reload fixed_variant (mqconn c sm0 pre (l ++ [set_smh hv zero_node])))
    | LOOB => inl OOB
    end
  | LReject => inl (err_reload fixed_variant (mqconn c sm0 pre (l ++ [zero_node])))
  | LOOB => inl OOB
  end.
Proof.
  intros Hi. cbn [restore_mq]. replace (n <=? i) with false by lia.
  unfold halloc.
  replace (length (c_heap (mqconn c sm0 pre l))) with (length pre + length l)%nat
    by (unfold mqconn; cbn [c_heap]; now rewrite heap_len).
  unfold mqconn at 1, mqsm at 1 2. cbn [c_heap mq_head mq_tail sm_with_queue].
  rewrite add_queue_back_ok.
  destruct (load_u32 fixed_variant s ld_tag_mqh) as [hv s1| |]; try reflexivity.
  rewrite mq_last_cell.
  change (set_smh hv (mk zero_node (lastp (length pre) None l) None))
    with (mk (set_smh hv zero_node) (lastp (length pre) None l) None).
  rewrite chain_snoc_fold.
  destruct (load_string fixed_variant s1) as [[d len] s2| |]; try reflexivity.
  rewrite mq_last_cell.
  change (set_owner OWNER_USER (set_data (Some d) len (mk (set_smh hv zero_node) (lastp (length pre) None l) None)))
    with (mk (content d len hv) (lastp (length pre) None l) None).
  rewrite chain_snoc_fold.
  f_equal.
  - unfold mqconn, mqsm, with_heap, with_sm.
    cbn [c_state c_neg c_cb c_sm sq_head sq_tail sq_len sq_ulen sm_with_queue
         sm_support sm_enabled sm_can_resume sm_resume sm_r_sent sm_handled sm_sent sm_id].
    now rewrite !lastp_snoc, !firstp_snoc'.
  - unfold mqsm. cbn [sm_with_queue sm_support sm_enabled sm_can_resume sm_resume sm_r_sent sm_handled sm_sent sm_id].
    now rewrite !lastp_snoc, !firstp_snoc'.
  - now rewrite mqconn_fold1.
Qed.

Lemma restore_mq_enc ua : forall c sm0 pre l f i n rest,
  Forall (fun p => is_u32 (fst p) /\ zlen (snd p) < 4294967295) ua -> i + zlen ua = n -> (length ua <= f)%nat ->
  restore_mq fixed_variant f i n (mqconn c sm0 pre l) (mqsm sm0 pre l) (concat (map enc_acked ua) ++ rest)
  = inr (mqconn c sm0 pre (l ++ map mq_content ua), mqsm sm0 pre (l ++ map mq_content ua), rest).
Proof.
  induction ua as [|[h t] ua IH]; intros c sm0 pre l f i n rest Hall Hn Hf.
  - cbn [map concat app]. rewrite app_nil_r. apply restore_mq_done. rewrite zlen_nil in Hn. lia.
  - apply Forall_cons_iff in Hall as [[Hh Ht] Hts]. cbn [fst snd] in Hh, Ht.
    destruct f as [|f]; [cbn in Hf; lia|].
    rewrite zlen_cons in Hn. pose proof (zlen_nonneg ua).
    rewrite restore_mq_step by lia.
    cbn [map concat]. unfold enc_acked at 1. cbn [fst snd]. unfold enc_word.
    rewrite <- !app_assoc. cbn [app].
    change ld_tag_mqh with T_WORD. rewrite load_u32_ok by assumption.
    rewrite load_string_ok by assumption.
    rewrite IH; [| assumption | lia | cbn in Hf; lia].
    cbn [map]. unfold mq_content at 3 6. cbn [fst snd]. now rewrite <- !app_assoc.
Qed.

(* ------------------------------------------------------------------------------------------------ *)
(* size of the encoding *)

Lemma zlen_concat_strings us :
  zlen (concat (map enc_string us)) = fold_right (fun t a => 5 + zlen t + a) 0 us.
Proof.
  induction us as [|t us IH]; [reflexivity|].
  cbn [map concat fold_right]. rewrite zlen_app, IH. unfold enc_string.
  rewrite zlen_cons, zlen_app, word_length. lia.
Qed.

Lemma zlen_concat_acked ua :
  zlen (concat (map enc_acked ua)) = fold_right (fun p a => 10 + zlen (snd p) + a) 0 ua.
Proof.
  induction ua as [|p ua IH]; [reflexivity|].
  cbn [map concat fold_right]. rewrite zlen_app, IH. unfold enc_acked, enc_word, enc_string.
  rewrite zlen_app, !zlen_cons, zlen_app, !word_length. lia.
Qed.

Lemma encode_size st : zlen (encode st) = encoded_size st.
Proof.
  unfold encode, encoded_size, enc_word, enc_string.
  repeat (rewrite ?zlen_app, ?zlen_cons, ?word_length).
  rewrite zlen_concat_strings, zlen_concat_acked. lia.
Qed.

Lemma fold_strings_ge (us : list (list Z)) : zlen us <= fold_right (fun t a => 5 + zlen t + a) 0 us.
Proof.
  induction us as [|t us IH]; cbn [fold_right]; [rewrite zlen_nil; lia|].
  rewrite zlen_cons. pose proof (zlen_nonneg t). lia.
Qed.
Lemma fold_acked_ge (ua : list (Z * list Z)) : zlen ua <= fold_right (fun p a => 10 + zlen (snd p) + a) 0 ua.
Proof.
  induction ua as [|t ua IH]; cbn [fold_right]; [rewrite zlen_nil; lia|].
  rewrite zlen_cons. pose proof (zlen_nonneg (snd t)). lia.
Qed.
Lemma fold_strings_each (us : list (list Z)) : Forall (fun t => zlen t <= fold_right (fun t a => 5 + zlen t + a) 0 us) us.
Proof.
  induction us as [|t us IH]; constructor.
  - cbn [fold_right]. pose proof (fold_strings_ge us). pose proof (zlen_nonneg us). lia.
  - eapply Forall_impl; [|exact IH]. cbn [fold_right]. intros. pose proof (zlen_nonneg t). lia.
Qed.
Lemma fold_acked_each (ua : list (Z * list Z)) :
  Forall (fun p => zlen (snd p) <= fold_right (fun p a => 10 + zlen (snd p) + a) 0 ua) ua.
Proof.
  induction ua as [|t ua IH]; constructor.
  - cbn [fold_right]. pose proof (fold_acked_ge ua). pose proof (zlen_nonneg ua). lia.
  - eapply Forall_impl; [|exact IH]. cbn [fold_right]. intros. pose proof (zlen_nonneg (snd t)). lia.
Qed.

(* consequences of wf_st used below *)
Lemma wf_bounds st : wf_st st ->
  zlen (a_id st) < 4294967295 /\
  Forall (fun t => zlen t < 4294967295) (a_unsent st) /\
  Forall (fun p => is_u32 (fst p) /\ zlen (snd p) < 4294967295) (a_unacked st) /\
  is_u32 (zlen (a_unsent st)) /\ is_u32 (zlen (a_unacked st)) /\ 30 <= encoded_size st.
Proof.
  intros (Hs & Hh & Hid & Hus & Hua & Hn & Hsz). unfold encoded_size in *.
  pose proof (fold_strings_ge (a_unsent st)). pose proof (fold_acked_ge (a_unacked st)).
  pose proof (zlen_nonneg (a_id st)). pose proof (zlen_nonneg (a_unsent st)). pose proof (zlen_nonneg (a_unacked st)).
  repeat split; try lia.
  - pose proof (fold_strings_each (a_unsent st)) as He.
    rewrite Forall_forall in *. intros t Ht. specialize (He t Ht). cbv beta in He. lia.
  - pose proof (fold_acked_each (a_unacked st)) as He.
    rewrite Forall_forall in *. intros p Hp. specialize (He p Hp). specialize (Hua p Hp). cbv beta in He. split; [tauto|lia].
Qed.

(* ------------------------------------------------------------------------------------------------ *)
(* the connection a state denotes: send queue in cells 0..n-1, SM queue in cells n..n+m-1 *)

Definition sm_of (st : astate) : smstate :=
  mkSm true true true true false (a_handled st) (a_sent st) (Some (a_id st ++ [0])) None None.

Definition canon (st : astate) : conn :=
  let sq := map sq_content (a_unsent st) in
  let n := zlen (a_unsent st) in
  mqconn (sqconn (with_sm fresh_conn (SmLive (sm_of st))) [] sq n n) (sm_of st)
         (chain 0 None sq None) (map mq_content (a_unacked st)).

Lemma cstr_app_nul t r : nul_free t -> cstr (t ++ 0 :: r) = t.
Proof.
  induction 1 as [|b t Hb Ht IH]; cbn [app cstr]; [reflexivity|].
  replace (b =? 0) with false by lia. now rewrite IH.
Qed.

Lemma cstr_nul_free t : nul_free t -> cstr t = t.
Proof.
  induction 1 as [|b t Hb Ht IH]; cbn [cstr]; [reflexivity|].
  replace (b =? 0) with false by lia. now rewrite IH.
Qed.

Lemma sq_to_mq st sq ql qu :
  sqconn (with_sm fresh_conn (SmLive (sm_of st))) [] sq ql qu
  = mqconn (sqconn (with_sm fresh_conn (SmLive (sm_of st))) [] sq ql qu) (sm_of st) (chain 0 None sq None) [].
Proof.
  unfold mqconn, sqconn, mqsm. cbn [c_state c_neg c_cb c_sm sq_head sq_tail sq_len sq_ulen with_sm fresh_conn
    chain app length firstp lastp]. now rewrite app_nil_r.
Qed.

Lemma to_int_small n : 0 <= n < 2147483648 -> to_int n = n.
Proof. intros. unfold to_int. replace (n <? 2147483648) with true by lia. reflexivity. Qed.

Lemma restore_canon st : wf_st st -> restore_v fixed_variant fresh_conn (encode st) = Ok (0, canon st).
Proof.
  intros Hwf. pose proof (wf_bounds st Hwf) as (Hid & Hus & Hua & Hn & Hm & Hsz).
  destruct Hwf as (Hs & Hh & Hidwf & _ & _ & Hn31 & Hsize).
  unfold restore_v.
  assert (Hfuel : (length (a_unsent st) <= S (length (encode st)) /\ length (a_unacked st) <= S (length (encode st)))%nat).
  { pose proof (encode_size st) as Hes. unfold encoded_size in Hes.
    pose proof (fold_strings_ge (a_unsent st)). pose proof (fold_acked_ge (a_unacked st)).
    pose proof (zlen_nonneg (a_id st)). unfold zlen in *. lia. }
  set (fuel := S (length (encode st))) in *.
  change (negb (c_state fresh_conn =? ST_DISCONNECTED)) with false. cbv iota.
  change (c_sm fresh_conn) with SmNull. cbv iota.
  rewrite encode_size.
  replace (encoded_size st <? blob_min_len) with false by (change blob_min_len with 30; lia).
  set (tail5 := enc_word (a_sent st) ++ enc_word (a_handled st) ++ enc_string (a_id st)
      ++ (T_UNSENT :: word (zlen (a_unsent st))) ++ concat (map enc_string (a_unsent st))
      ++ (T_UNACKED :: word (zlen (a_unacked st))) ++ concat (map enc_acked (a_unacked st))).
  assert (Henc : encode st = 26 :: 0 :: 0 :: 0 :: 0 :: tail5) by reflexivity.
  rewrite Henc.
  change (rdn (26 :: 0 :: 0 :: 0 :: 0 :: tail5) (zlen ld_version)) with
    (if (zlen (26 :: 0 :: 0 :: 0 :: 0 :: tail5) <? 5) then None else Some [26; 0; 0; 0; 0]).
  rewrite <- Henc, encode_size.
  replace (encoded_size st <? 5) with false by lia.
  change (negb (list_eqb [26; 0; 0; 0; 0] ld_version)) with false. cbv iota.
  replace (encoded_size st <? ld_skip) with false by (change ld_skip with 5; lia).
  rewrite Henc.
  change (skipn (Z.to_nat ld_skip) (26 :: 0 :: 0 :: 0 :: 0 :: tail5)) with tail5.
  subst tail5. unfold enc_word at 1 2.
  cbn [app]. change ld_tag_sent with T_WORD. rewrite load_u32_ok by assumption.
  cbn [app]. change ld_tag_handled with T_WORD. rewrite load_u32_ok by assumption.
  rewrite load_string_ok by assumption.
  cbn [v_idnul fixed_variant andb].
  rewrite cstr_app_nul by (destruct Hidwf; assumption).
  rewrite Z.eqb_refl. cbn [negb]. cbv iota.
  cbn [app]. change ld_tag_sqcount with T_UNSENT. rewrite load_u32_ok by assumption.
  rewrite to_int_small by (unfold is_u32 in Hn; lia).
  change (with_queue _ _ _ (zlen (a_unsent st)) (zlen (a_unsent st)))
    with (sqconn (with_sm fresh_conn (SmLive (sm_of st))) [] [] (zlen (a_unsent st)) (zlen (a_unsent st))).
  rewrite restore_sq_enc; [| assumption | lia | apply Hfuel].
  cbn [app]. change ld_tag_mqcount with T_UNACKED. rewrite load_u32_ok by assumption.
  rewrite sq_to_mq.
  change (sm_with_id (sm_with_counters (sm_with_counters sm_restored0 0 (a_sent st)) (a_handled st) (a_sent st))
                     (Some (a_id st ++ [0])))
    with (mqsm (sm_of st) (chain 0 None (map sq_content (a_unsent st)) None) []).
  rewrite <- (app_nil_r (concat (map enc_acked (a_unacked st)))).
  rewrite restore_mq_enc; [| assumption | lia | apply Hfuel].
  cbn [v_trailing fixed_variant andb]. rewrite zlen_nil. cbn [Z.eqb negb]. cbv iota.
  reflexivity.
Qed.

(* ------------------------------------------------------------------------------------------------ *)
(* the natively built connection is the same object *)

Lemma enqueue_ok c pre l ql qu d len :
  enqueue (sqconn c pre l ql qu) d len OWNER_USER None
  = Ok (sqconn c pre (l ++ [content d len 0]) (ql + 1) (qu + 1), (length pre + length l)%nat).
Proof.
  unfold enqueue, halloc.
  replace (length (c_heap (sqconn c pre l ql qu))) with (length pre + length l)%nat
    by (unfold sqconn; cbn [c_heap]; now rewrite heap_len).
  unfold sqconn at 1 2 3 4 5 6 7. cbn [c_heap sq_tail sq_head sq_len sq_ulen].
  change (mkNode (Some d) len 0 false OWNER_USER None 0 (lastp (length pre) None l) None)
    with (mk (content d len 0) (lastp (length pre) None l) None).
  change (OWNER_USER =? OWNER_USER) with true. cbv iota.
  destruct l as [|a r] eqn:El.
  - cbn [lastp firstp chain app length bind]. rewrite !app_nil_r.
    unfold sqconn, with_queue, with_heap. cbn [c_state c_neg c_cb c_sm chain lastp firstp app length].
    replace (length pre + 1 - 1)%nat with (length pre) by lia.
    replace (length pre + 0)%nat with (length pre) by lia. reflexivity.
  - rewrite <- El in *. assert (Hne : l <> []) by (subst; discriminate).
    replace (lastp (length pre) None l) with (Some (length pre + length l - 1)%nat) by (subst; reflexivity).
    rewrite <- app_assoc. rewrite chain_set_fin by auto. cbn [bind].
    unfold sqconn, with_queue, with_heap. cbn [c_state c_neg c_cb c_sm].
    rewrite chain_snoc, lastp_snoc, firstp_snoc'.
    replace (lastp (length pre) None l) with (Some (length pre + length l - 1)%nat) by (subst; reflexivity).
    replace (firstp (length pre) l) with (Some (length pre)) by (subst; reflexivity).
    reflexivity.
Qed.

Lemma strndup_nul_free t : nul_free t -> strndup t (zlen t) = t ++ [0].
Proof.
  intros H. unfold strndup. rewrite cstr_nul_free by assumption. rewrite Z.min_id.
  unfold zlen. rewrite Nat2Z.id, firstn_all. reflexivity.
Qed.

Lemma native_sends_ok us : forall c s pre l ql qu,
  c_state c = ST_CONNECTED -> c_sm c = SmLive s -> sm_r_sent s = true -> Forall wf_text us ->
  native_sends (sqconn c pre l ql qu) us
  = Ok (sqconn c pre (l ++ map sq_content us) (ql + zlen us) (qu + zlen us)).
Proof.
  induction us as [|t us IH]; intros c s pre l ql qu Hst Hsm Hr Hall.
  - cbn [native_sends map]. rewrite app_nil_r, zlen_nil, !Z.add_0_r. reflexivity.
  - apply Forall_cons_iff in Hall as [[_ Ht] Hts].
    cbn [native_sends]. unfold send_user.
    replace (c_state (sqconn c pre l ql qu)) with ST_CONNECTED by (symmetry; exact Hst).
    change (negb (ST_CONNECTED =? ST_CONNECTED)) with false. cbv iota.
    rewrite strndup_nul_free by assumption. rewrite enqueue_ok. cbn [bind].
    unfold deref_sm. replace (c_sm (sqconn c pre (l ++ [content (t ++ [0]) (zlen t) 0]) (ql + 1) (qu + 1))) with (SmLive s)
      by (symmetry; exact Hsm).
    cbn [bind]. rewrite Hr. rewrite !andb_false_r. cbn [bind fst].
    rewrite (IH c s) by assumption.
    cbn [map]. rewrite <- app_assoc. cbn [app]. rewrite zlen_cons.
    replace (ql + 1 + zlen us) with (ql + (1 + zlen us)) by lia.
    replace (qu + 1 + zlen us) with (qu + (1 + zlen us)) by lia. reflexivity.
Qed.

Lemma native_acked_ok ua : forall c sm0 pre l,
  native_acked (mqconn c sm0 pre l) (mqsm sm0 pre l) ua
  = Ok (mqconn c sm0 pre (l ++ map mq_content ua), mqsm sm0 pre (l ++ map mq_content ua)).
Proof.
  induction ua as [|[h t] ua IH]; intros c sm0 pre l.
  - cbn [native_acked map]. now rewrite app_nil_r.
  - cbn [native_acked]. unfold halloc.
    replace (length (c_heap (mqconn c sm0 pre l))) with (length pre + length l)%nat
      by (unfold mqconn; cbn [c_heap]; now rewrite heap_len).
    unfold mqconn at 1, mqsm at 1 2. cbn [c_heap mq_head mq_tail sm_with_queue].
    rewrite add_queue_back_ok. cbn [bind].
    change (mkNode (Some (t ++ [0])) (zlen t) 0 false OWNER_USER None h None None) with (mq_content (h, t)).
    replace (with_sm (with_heap (mqconn c sm0 pre l) (pre ++ chain (length pre) None (l ++ [mq_content (h, t)]) None))
                     (SmLive (sm_with_queue (mqsm sm0 pre l) (firstp (length pre) (l ++ [mq_content (h, t)]))
                                            (lastp (length pre) None (l ++ [mq_content (h, t)])))))
      with (mqconn c sm0 pre (l ++ [mq_content (h, t)])) by reflexivity.
    replace (sm_with_queue (mqsm sm0 pre l) (firstp (length pre) (l ++ [mq_content (h, t)]))
                           (lastp (length pre) None (l ++ [mq_content (h, t)])))
      with (mqsm sm0 pre (l ++ [mq_content (h, t)])) by reflexivity.
    rewrite IH. cbn [map]. now rewrite <- app_assoc.
Qed.

Definition native_of (st : astate) : res conn :=
  native (a_sent st) (a_handled st) (a_id st) (a_unsent st) (a_unacked st).

Lemma native_canon st : wf_st st -> native_of st = Ok (canon st).
Proof.
  intros (Hs & Hh & [_ Hid] & Hus & Hua & Hn31 & Hsize).
  unfold native_of, native, strdup. rewrite cstr_nul_free by assumption.
  set (s0 := mkSm true true true true true (a_handled st) (a_sent st) (Some (a_id st ++ [0])) None None).
  set (c0 := mkConn [] ST_CONNECTED true true (SmLive s0) None None 0 0).
  change c0 with (sqconn c0 [] [] 0 0).
  rewrite (native_sends_ok (a_unsent st) c0 s0) by (try reflexivity; assumption).
  cbn [bind app]. rewrite !Z.add_0_l.
  unfold deref_sm. change (c_sm (sqconn c0 [] (map sq_content (a_unsent st)) (zlen (a_unsent st)) (zlen (a_unsent st))))
    with (SmLive s0). cbn [bind].
  assert (E : sqconn c0 [] (map sq_content (a_unsent st)) (zlen (a_unsent st)) (zlen (a_unsent st))
          = mqconn (sqconn c0 [] (map sq_content (a_unsent st)) (zlen (a_unsent st)) (zlen (a_unsent st))) s0
                   (chain 0 None (map sq_content (a_unsent st)) None) []).
  { unfold mqconn, sqconn, mqsm. cbn [c_state c_neg c_cb c_sm sq_head sq_tail sq_len sq_ulen c0
      chain app length firstp lastp]. now rewrite app_nil_r. }
  rewrite E.
  match goal with |- context [native_acked ?A s0 ?B] =>
    change (native_acked A s0 B) with (native_acked A (mqsm s0 (chain 0 None (map sq_content (a_unsent st)) None) []) B) end.
  rewrite native_acked_ok. cbn [bind app].
  reflexivity.
Qed.

(* ------------------------------------------------------------------------------------------------ *)
(* serialiser *)

(* n holds the text t the way the library stores it *)
Definition node_text (n : node) (t : list Z) : Prop :=
  n_data n = Some (t ++ [0]) /\ n_len n = zlen t /\ zlen t < 4294967296.

Lemma rdn_app t r : rdn (t ++ r) (zlen t) = Some t.
Proof.
  unfold rdn. pose proof (zlen_nonneg t). pose proof (zlen_nonneg r).
  replace (zlen t <? 0) with false by lia. rewrite zlen_app.
  replace (zlen t + zlen r <? zlen t) with false by lia. cbn [orb]. now rewrite firstn_zlen_app.
Qed.

Lemma store_u32_ok out cap ty v : is_u32 v -> zlen out + 5 <= cap ->
  store_u32 out cap ty v = Some (out ++ ty :: word v).
Proof.
  intros Hv Hc. unfold store_u32. change store_need with 5.
  replace (zlen out + 5 >? cap) with false by lia. now rewrite be32_word.
Qed.

Lemma sum_len_nonneg k l : 0 <= k -> Forall (fun n => 0 <= n_len n) l -> 0 <= sum_len k l.
Proof. induction 2; cbn [sum_len fold_right]; [lia|]. unfold sum_len in *. lia. Qed.

Lemma ser_sq_ok l : forall ts out cap, Forall2 node_text l ts ->
  zlen out + sum_len ser_sq_item l <= cap ->
  ser_sq out cap l = inr (out ++ concat (map enc_string ts)).
Proof.
  induction l as [|n l IH]; intros ts out cap H2 Hc; inversion H2 as [|? t ? ts' (Hd & Hl & Ht) H2']; subst.
  - cbn. now rewrite app_nil_r.
  - cbn [ser_sq]. cbn [sum_len fold_right] in Hc. fold (sum_len ser_sq_item l) in Hc.
    change ser_sq_item with 5 in *.
    assert (0 <= sum_len 5 l).
    { apply sum_len_nonneg; [lia|]. clear -H2'. induction H2' as [|? ? ? ? (_ & Hl & _)]; constructor; auto.
      rewrite Hl. apply zlen_nonneg. }
    pose proof (zlen_nonneg t). pose proof (zlen_nonneg out).
    change ser_tag_sqitem with T_STRING.
    rewrite store_u32_ok; [| rewrite Hl; unfold is_u32; lia | lia].
    rewrite zlen_app, zlen_cons, word_length.
    replace (zlen out + (1 + 4) + n_len n >? cap) with false by lia.
    rewrite Hd, Hl, rdn_app.
    rewrite IH with (ts := ts'); [| assumption |].
    + cbn [map concat]. unfold enc_string. rewrite <- !app_assoc. reflexivity.
    + rewrite !zlen_app, zlen_cons, word_length. lia.
Qed.

Definition node_htext (n : node) (p : Z * list Z) : Prop := node_text n (snd p) /\ n_smh n = fst p /\ is_u32 (fst p).

Lemma ser_mq_ok l : forall ps out cap, Forall2 node_htext l ps ->
  zlen out + sum_len ser_mq_item l <= cap ->
  ser_mq out cap l = inr (out ++ concat (map enc_acked ps)).
Proof.
  induction l as [|n l IH]; intros ps out cap H2 Hc;
    inversion H2 as [|? [h t] ? ps' ((Hd & Hl & Ht) & Hh & Hhu) H2']; subst.
  - cbn. now rewrite app_nil_r.
  - cbn [fst snd] in *. cbn [ser_mq]. cbn [sum_len fold_right] in Hc. fold (sum_len ser_mq_item l) in Hc.
    change ser_mq_item with 10 in *.
    assert (0 <= sum_len 10 l).
    { apply sum_len_nonneg; [lia|]. clear -H2'. induction H2' as [|? ? ? ? ((_ & Hl & _) & _)]; constructor; auto.
      rewrite Hl. apply zlen_nonneg. }
    pose proof (zlen_nonneg t). pose proof (zlen_nonneg out).
    change ser_tag_mqh with T_WORD. change ser_tag_mqitem with T_STRING.
    rewrite store_u32_ok; [| rewrite Hh; assumption | lia].
    rewrite store_u32_ok; [| rewrite Hl; unfold is_u32; lia | rewrite zlen_app, zlen_cons, word_length; lia].
    rewrite !zlen_app, !zlen_cons, !word_length.
    replace (zlen out + (1 + 4) + (1 + 4) + n_len n >? cap) with false by lia.
    rewrite Hd, Hl, rdn_app.
    rewrite IH with (ps := ps'); [| assumption |].
    + cbn [map concat]. unfold enc_acked, enc_word, enc_string. cbn [fst snd]. rewrite Hh. rewrite <- !app_assoc.
      cbn [app]. rewrite <- !app_assoc. reflexivity.
    + rewrite !zlen_app, !zlen_cons, !word_length. lia.
Qed.

Lemma sum_len_texts k l ts : Forall2 node_text l ts -> sum_len k l = fold_right (fun t a => k + zlen t + a) 0 ts.
Proof. induction 1 as [|n t l ts (_ & Hl & _) _ IH]; cbn [sum_len fold_right]; [reflexivity|]. fold (sum_len k l). now rewrite IH, Hl. Qed.
Lemma sum_len_htexts k l ps : Forall2 node_htext l ps -> sum_len k l = fold_right (fun p a => k + zlen (snd p) + a) 0 ps.
Proof. induction 1 as [|n t l ts ((_ & Hl & _) & _) _ IH]; cbn [sum_len fold_right]; [reflexivity|]. fold (sum_len k l). now rewrite IH, Hl. Qed.

Lemma Forall2_zlen {A B} (R : A -> B -> Prop) l m : Forall2 R l m -> zlen l = zlen m.
Proof. induction 1; [reflexivity|]. rewrite !zlen_cons. lia. Qed.

Lemma has_nul_app t : has_nul (t ++ [0]) = true.
Proof. unfold has_nul. rewrite existsb_app. cbn. now rewrite orb_true_r. Qed.

(* whatever the heap looks like: if the two queues can be walked and hold texts, the serialiser writes exactly
   the encoding of the state they denote into a buffer of exactly its size; the buffer-full exit is not taken *)
Lemma serialize_exact c s id sq mq us ua :
  c_sm c = SmLive s -> sm_support s = true -> sm_enabled s = true -> sm_can_resume s = true ->
  sm_id s = Some (id ++ [0]) -> nul_free id ->
  walk (c_heap c) (sq_head c) (walk_fuel (c_heap c)) = Ok sq ->
  walk (c_heap c) (mq_head s) (walk_fuel (c_heap c)) = Ok mq ->
  Forall2 node_text sq us -> Forall2 node_htext mq ua ->
  is_u32 (sm_sent s) -> is_u32 (sm_handled s) ->
  let st := mkA (sm_sent s) (sm_handled s) id us ua in
  encoded_size st < 4294967296 ->
  serialize c = SOk (map Some (encode st)) /\ zlen (encode st) = encoded_size st.
Proof.
  intros Hsm Hsup Hen Hcr Hid Hnul Hwsq Hwmq Hsq Hmq Hsent Hhandled st Hsize.
  split; [|apply encode_size].
  unfold serialize, deref_sm. rewrite Hsm, Hsup, Hen, Hcr. cbn [negb orb]. rewrite Hid.
  unfold c_strlen. rewrite has_nul_app, cstr_app_nul by assumption.
  rewrite Hwmq, Hwsq.
  unfold encoded_size in Hsize. cbn [a_id a_unsent a_unacked st] in Hsize.
  pose proof (zlen_nonneg id). pose proof (fold_strings_ge us). pose proof (fold_acked_ge ua).
  pose proof (zlen_nonneg us). pose proof (zlen_nonneg ua).
  assert (Hidu : is_u32 (zlen id)) by (unfold is_u32; lia).
  rewrite (u32_id (zlen id)) by assumption.
  rewrite (sum_len_texts _ _ _ Hsq), (sum_len_htexts _ _ _ Hmq).
  change ser_fixed with 30. change ser_sq_item with 5. change ser_mq_item with 10.
  set (F1 := fold_right (fun t a => 5 + zlen t + a) 0 us) in *.
  set (F2 := fold_right (fun p a => 10 + zlen (snd p) + a) 0 ua) in *.
  set (cap := 30 + zlen id + F1 + F2).
  change (zlen ser_version) with 5. replace (5 >? cap) with false by (subst cap; lia).
  change ser_tag_sent with T_WORD. change ser_tag_handled with T_WORD. change ser_tag_id with T_STRING.
  change ser_tag_sqcount with T_UNSENT. change ser_tag_mqcount with T_UNACKED.
  rewrite store_u32_ok; [| assumption | change (zlen ser_version) with 5; subst cap; lia].
  rewrite store_u32_ok; [| assumption | rewrite zlen_app, zlen_cons, word_length; change (zlen ser_version) with 5; subst cap; lia].
  rewrite store_u32_ok; [| assumption | rewrite !zlen_app, !zlen_cons, !word_length; change (zlen ser_version) with 5; subst cap; lia].
  rewrite rdn_app.
  rewrite !zlen_app, !zlen_cons, !word_length. change (zlen ser_version) with 5.
  replace (5 + (1 + 4) + (1 + 4) + (1 + 4) + zlen id >? cap) with false by (subst cap; lia).
  rewrite (Forall2_zlen _ _ _ Hsq), (Forall2_zlen _ _ _ Hmq).
  rewrite store_u32_ok; [| unfold is_u32; lia | rewrite !zlen_app, !zlen_cons, !word_length; change (zlen ser_version) with 5; subst cap; lia].
  rewrite ser_sq_ok with (ts := us); [| assumption |].
  2:{ rewrite (sum_len_texts _ _ _ Hsq). change ser_sq_item with 5. fold F1.
      rewrite !zlen_app, !zlen_cons, !word_length; change (zlen ser_version) with 5; subst cap; lia. }
  rewrite store_u32_ok; [| unfold is_u32; lia |].
  2:{ rewrite !zlen_app, !zlen_cons, !word_length, zlen_concat_strings. fold F1.
      change (zlen ser_version) with 5; subst cap; lia. }
  rewrite ser_mq_ok with (ps := ua); [| assumption |].
  2:{ rewrite (sum_len_htexts _ _ _ Hmq). change ser_mq_item with 10. fold F2.
      rewrite !zlen_app, !zlen_cons, !word_length, zlen_concat_strings. fold F1.
      change (zlen ser_version) with 5; subst cap; lia. }
  match goal with |- SOk (map Some ?o ++ repeat None (Z.to_nat (cap - zlen ?o))) = _ =>
    assert (Ho : o = encode st) end.
  { unfold encode, enc_word, enc_string. cbn [a_sent a_handled a_id a_unsent a_unacked st].
    change ser_version with [26; 0; 0; 0; 0]. rewrite <- !app_assoc. cbn [app]. rewrite <- !app_assoc.
    reflexivity. }
  rewrite Ho. rewrite encode_size. unfold encoded_size. cbn [a_id a_unsent a_unacked st]. fold F1 F2.
  subst cap. rewrite Z.sub_diag. cbn [Z.to_nat repeat]. now rewrite app_nil_r.
Qed.

(* ------------------------------------------------------------------------------------------------ *)
(* walking a chain, forwards and as a doubly linked list *)

Fixpoint nodes (base : nat) (pv : option nat) (l : list node) (fin : option nat) : list node :=
  match l with
  | [] => []
  | p :: r => mk p pv (match r with [] => fin | _ => Some (S base) end) :: nodes (S base) (Some base) r fin
  end.

Lemma walk_chain l : forall pre b pv suf fuel, b = length pre -> (length l < fuel)%nat ->
  walk (pre ++ chain b pv l None ++ suf) (firstp b l) fuel = Ok (nodes b pv l None).
Proof.
  induction l as [|p r IH]; intros pre b pv suf fuel Hb Hf.
  - destruct fuel; reflexivity.
  - destruct fuel as [|f]; [cbn in Hf; lia|].
    cbn [firstp walk chain nodes]. rewrite <- app_comm_cons. subst b. rewrite hget_mid. cbn [bind].
    replace (n_next (mk p pv (match r with [] => None | _ :: _ => Some (S (length pre)) end)))
      with (firstp (S (length pre)) r) by (destruct r; reflexivity).
    rewrite app_cons_assoc.
    rewrite (IH (pre ++ [Live (mk p pv (match r with [] => None | _ :: _ => Some (S (length pre)) end))])
                (S (length pre)) (Some (length pre)) suf f);
      [reflexivity | rewrite app_length; cbn; lia | cbn in Hf; lia].
Qed.

Lemma oeq_refl a : oeq a a = true.
Proof. destruct a; cbn; [apply Nat.eqb_refl | reflexivity]. Qed.

Lemma dllb_chain l : forall pre b pv suf, b = length pre ->
  dllb (pre ++ chain b pv l None ++ suf) pv (firstp b l) (seq b (length l)) = Some (lastp b pv l).
Proof.
  induction l as [|p r IH]; intros pre b pv suf Hb.
  - reflexivity.
  - cbn [firstp length seq dllb chain]. rewrite Nat.eqb_refl. rewrite <- app_comm_cons. subst b.
    rewrite nth_error_app_len.
    replace (n_prev (mk p pv (match r with [] => None | _ :: _ => Some (S (length pre)) end))) with pv by reflexivity.
    rewrite oeq_refl.
    replace (n_next (mk p pv (match r with [] => None | _ :: _ => Some (S (length pre)) end)))
      with (firstp (S (length pre)) r) by (destruct r; reflexivity).
    rewrite app_cons_assoc.
    rewrite (IH (pre ++ [Live (mk p pv (match r with [] => None | _ :: _ => Some (S (length pre)) end))])
                (S (length pre)) (Some (length pre)) suf) by (rewrite app_length; cbn; lia).
    f_equal. unfold lastp. destruct r; cbn [length]; f_equal; lia.
Qed.

Lemma nodes_text_sq us : forall b pv fin, Forall (fun t => zlen t < 4294967296) us ->
  Forall2 node_text (nodes b pv (map sq_content us) fin) us.
Proof.
  induction us as [|t us IH]; intros b pv fin H; cbn [map nodes]; constructor.
  - apply Forall_cons_iff in H as [Ht _]. repeat split; try reflexivity; assumption.
  - apply IH. now apply Forall_cons_iff in H.
Qed.

Lemma nodes_text_mq ua : forall b pv fin, Forall (fun p => is_u32 (fst p) /\ zlen (snd p) < 4294967296) ua ->
  Forall2 node_htext (nodes b pv (map mq_content ua) fin) ua.
Proof.
  induction ua as [|t ua IH]; intros b pv fin H; cbn [map nodes]; constructor.
  - apply Forall_cons_iff in H as [[Hh Ht] _].
    split; [split; [reflexivity | split; [reflexivity | assumption]] | split; [reflexivity | assumption]].
  - apply IH. now apply Forall_cons_iff in H.
Qed.

Lemma texts_of_ok l ts : Forall2 node_text l ts -> texts_of l = Ok ts.
Proof.
  induction 1 as [|n t l ts (Hd & Hl & _) _ IH]; [reflexivity|].
  cbn [texts_of]. unfold text_of. rewrite Hd, Hl, rdn_app. cbn [bind]. now rewrite IH.
Qed.
Lemma htexts_of_ok l ps : Forall2 node_htext l ps -> htexts_of l = Ok ps.
Proof.
  induction 1 as [|n [h t] l ts ((Hd & Hl & _) & Hh & _) _ IH]; [reflexivity|].
  cbn [htexts_of]. unfold text_of. cbn [fst snd] in *. rewrite Hd, Hl, rdn_app. cbn [bind]. now rewrite IH, Hh.
Qed.

(* the heap of canon st, flattened *)
Lemma canon_heap st :
  c_heap (canon st) = [] ++ chain 0 None (map sq_content (a_unsent st)) None
                         ++ chain (length (a_unsent st)) None (map mq_content (a_unacked st)) None ++ [].
Proof.
  unfold canon, mqconn, sqconn. cbn [c_heap app length]. rewrite chain_length, map_length, app_nil_r. reflexivity.
Qed.

Lemma canon_walks st :
  walk (c_heap (canon st)) (sq_head (canon st)) (walk_fuel (c_heap (canon st)))
    = Ok (nodes 0 None (map sq_content (a_unsent st)) None) /\
  walk (c_heap (canon st)) (firstp (length (a_unsent st)) (map mq_content (a_unacked st))) (walk_fuel (c_heap (canon st)))
    = Ok (nodes (length (a_unsent st)) None (map mq_content (a_unacked st)) None).
Proof.
  unfold walk_fuel. rewrite canon_heap. split.
  - change (sq_head (canon st)) with (firstp 0 (map sq_content (a_unsent st))).
    apply walk_chain; [reflexivity|]. rewrite !app_length, !chain_length, !map_length. cbn. lia.
  - rewrite (app_assoc []). rewrite (app_assoc ([] ++ _)).
    rewrite <- (app_assoc _ (chain (length (a_unsent st)) None _ None) []).
    apply walk_chain.
    + cbn [app]. now rewrite chain_length, map_length.
    + rewrite !app_length, !chain_length, !map_length. cbn. lia.
Qed.

Lemma canon_sm st :
  c_sm (canon st) = SmLive (sm_with_queue (sm_of st)
                             (firstp (length (a_unsent st)) (map mq_content (a_unacked st)))
                             (lastp (length (a_unsent st)) None (map mq_content (a_unacked st)))).
Proof. unfold canon, mqconn, mqsm. cbn [c_sm]. now rewrite chain_length, map_length. Qed.

Lemma restore_gen c bs : restore c bs = restore_v fixed_variant c bs.
Proof. unfold restore. now rewrite gen_fixed. Qed.

Lemma wf_lt32 st : wf_st st ->
  Forall (fun t => zlen t < 4294967296) (a_unsent st) /\
  Forall (fun p => is_u32 (fst p) /\ zlen (snd p) < 4294967296) (a_unacked st).
Proof.
  intros H. destruct (wf_bounds st H) as (_ & Hus & Hua & _). split.
  - eapply Forall_impl; [|exact Hus]. cbn; intros; lia.
  - eapply Forall_impl; [|exact Hua]. cbn; intros ? [? ?]; split; [assumption|lia].
Qed.

(* ------------------------------------------------------------------------------------------------ *)
(* the property theorems *)

Lemma serialize_canon st : wf_st st -> serialize (canon st) = SOk (map Some (encode st)).
Proof.
  intros Hwf. destruct (wf_lt32 st Hwf) as [Hus Hua].
  destruct (canon_walks st) as [Hw1 Hw2].
  pose proof Hwf as (Hs & Hh & [_ Hid] & _ & _ & _ & Hsz).
  destruct st as [sent handled id us ua]. cbn [a_sent a_handled a_id a_unsent a_unacked] in *.
  pose proof (serialize_exact (canon (mkA sent handled id us ua)) _ id _ _ us ua (canon_sm _)
                eq_refl eq_refl eq_refl eq_refl Hid Hw1 Hw2
                (nodes_text_sq _ _ _ _ Hus) (nodes_text_mq _ _ _ _ Hua) Hs Hh Hsz) as [H _].
  exact H.
Qed.

Lemma abs_canon st : wf_st st ->
  abs_conn (canon st) = Ok (a_sent st, a_handled st, a_id st, a_unsent st, a_unacked st).
Proof.
  intros Hwf. destruct (wf_lt32 st Hwf) as [Hus Hua].
  destruct (canon_walks st) as [Hw1 Hw2].
  pose proof Hwf as (Hs & Hh & [_ Hid] & _).
  unfold abs_conn, deref_sm. rewrite canon_sm. cbn [bind sm_id sm_with_queue sm_of mq_head].
  rewrite Hw1, Hw2. cbn [bind].
  rewrite (texts_of_ok _ _ (nodes_text_sq _ _ _ _ Hus)). cbn [bind].
  rewrite (htexts_of_ok _ _ (nodes_text_mq _ _ _ _ Hua)). cbn [bind sm_sent sm_handled].
  now rewrite cstr_app_nul.
Qed.

Theorem roundtrip st : wf_st st ->
  exists c blob,
    native_of st = Ok c /\
    serialize c = SOk (map Some blob) /\ blob = encode st /\
    restore fresh_conn blob = Ok (0, c) /\
    abs_conn c = Ok (a_sent st, a_handled st, a_id st, a_unsent st, a_unacked st).
Proof.
  intros Hwf. exists (canon st), (encode st). repeat split.
  - now apply native_canon.
  - now apply serialize_canon.
  - rewrite restore_gen. now apply restore_canon.
  - now apply abs_canon.
Qed.

Theorem restored_wf st c : wf_st st -> restore fresh_conn (encode st) = Ok (0, c) ->
  exists s, c_sm c = SmLive s /\
    wf_queue (c_heap c) (sq_head c) (sq_tail c) (seq 0 (length (a_unsent st))) /\
    wf_queue (c_heap c) (mq_head s) (mq_tail s) (seq (length (a_unsent st)) (length (a_unacked st))).
Proof.
  intros Hwf Hr. rewrite restore_gen, restore_canon in Hr by assumption. injection Hr as <-.
  eexists. split; [apply canon_sm|]. cbn [mq_head mq_tail sm_with_queue].
  rewrite canon_heap. split; split; try apply seq_NoDup.
  - change (sq_head (canon st)) with (firstp 0 (map sq_content (a_unsent st))).
    change (sq_tail (canon st)) with (lastp 0 None (map sq_content (a_unsent st))).
    rewrite <- (map_length sq_content (a_unsent st)). now apply dllb_chain.
  - rewrite (app_assoc []).
    rewrite <- (map_length mq_content (a_unacked st)). apply dllb_chain.
    cbn [app]. now rewrite chain_length, map_length.
Qed.

Theorem restored_is_native st c : wf_st st -> restore fresh_conn (encode st) = Ok (0, c) -> native_of st = Ok c.
Proof.
  intros Hwf Hr. rewrite restore_gen, restore_canon in Hr by assumption. injection Hr as <-.
  now apply native_canon.
Qed.

Theorem restored_behaves_native st c ops : wf_st st -> restore fresh_conn (encode st) = Ok (0, c) ->
  exists cn, native_of st = Ok cn /\ run ops c = run ops cn.
Proof. intros Hwf Hr. exists c. split; [eapply restored_is_native; eassumption | reflexivity]. Qed.

(* ------------------------------------------------------------------------------------------------ *)
(* arbitrary input: the loaders never leave the buffer *)

Lemma zlen_ge5 (s : list Z) : 5 <= zlen s -> exists t b3 b2 b1 b0 r, s = t :: b3 :: b2 :: b1 :: b0 :: r.
Proof.
  destruct s as [|t [|b3 [|b2 [|b1 [|b0 r]]]]]; repeat rewrite ?zlen_cons, ?zlen_nil; intros; try lia.
  repeat eexists.
Qed.

Lemma bytes_cons b l : bytes (b :: l) <-> is_byte b /\ bytes l.
Proof. unfold bytes. apply Forall_cons_iff. Qed.

Lemma load_u32_total s ty :
  match load_u32 fixed_variant s ty with
  | LOk v s1 => exists b3 b2 b1 b0, s = ty :: b3 :: b2 :: b1 :: b0 :: s1 /\ v = be32_val b3 b2 b1 b0
  | LReject => True
  | LOOB => False
  end.
Proof.
  unfold load_u32. cbn [v_check_first v_ld_need fixed_variant].
  destruct (zlen s <? 5) eqn:E; [exact I|].
  destruct (zlen_ge5 s) as (t & b3 & b2 & b1 & b0 & r & ->); [lia|].
  destruct (t =? ty) eqn:Et; cbn [negb]; [|exact I].
  cbn [load_word]. apply Z.eqb_eq in Et. subst. repeat eexists.
Qed.

Lemma bytes_skipn n l : bytes l -> bytes (skipn n l).
Proof.
  unfold bytes. intros H. rewrite <- (firstn_skipn n l) in H. now apply Forall_app in H.
Qed.

Lemma skipn_len_le {A} n (l : list A) : (length (skipn n l) <= length l)%nat.
Proof. rewrite skipn_length. lia. Qed.

(* what a successful load_string consumed *)
Lemma load_string_total s : bytes s -> zlen s < 4294967296 ->
  match load_string fixed_variant s with
  | LOk (d, l) s1 => exists t, s = enc_string t ++ s1 /\ d = t ++ [0] /\ l = zlen t /\ bytes s1
  | LReject => True
  | LOOB => False
  end.
Proof.
  intros Hb Hlen. unfold load_string.
  pose proof (load_u32_total s ld_tag_str) as H.
  destruct (load_u32 fixed_variant s ld_tag_str) as [l s1| |]; [|exact I|exact H].
  destruct H as (b3 & b2 & b1 & b0 & -> & ->).
  apply bytes_cons in Hb as [_ Hb]. apply bytes_cons in Hb as [H3 Hb]. apply bytes_cons in Hb as [H2 Hb].
  apply bytes_cons in Hb as [H1 Hb]. apply bytes_cons in Hb as [H0 Hb].
  pose proof (be32_val_range _ _ _ _ H3 H2 H1 H0) as Hr.
  set (l := be32_val b3 b2 b1 b0) in *.
  rewrite !zlen_cons in Hlen. pose proof (zlen_nonneg s1).
  cbn [v_str_check fixed_variant andb].
  destruct (l >? zlen s1) eqn:El; [exact I|].
  replace (u32 (l + 1) <? l + 1) with false by (rewrite u32_id; unfold is_u32 in *; lia).
  exists (firstn (Z.to_nat l) s1). repeat split.
  - unfold enc_string.
    assert (Hz : zlen (firstn (Z.to_nat l) s1) = l).
    { unfold zlen in *. rewrite firstn_length. unfold is_u32 in Hr. lia. }
    rewrite Hz. subst l. rewrite word_be32_val by assumption. change ld_tag_str with T_STRING.
    cbn [app]. now rewrite firstn_skipn.
  - unfold zlen in *. rewrite firstn_length. unfold is_u32 in Hr. lia.
  - now apply bytes_skipn.
Qed.

(* ------------------------------------------------------------------------------------------------ *)
(* freeing a chain *)

Lemma queue_element_free_mid (a : heap) n b :
  queue_element_free (a ++ Live n :: b) (length a) = Ok (a ++ Freed :: b, n_data n).
Proof. unfold queue_element_free. rewrite hget_mid. cbn [bind]. rewrite hfree_mid. reflexivity. Qed.

Lemma repeat_snoc {A} (x : A) k : repeat x k ++ [x] = x :: repeat x k.
Proof. induction k; cbn; [reflexivity | now rewrite IHk]. Qed.

Lemma free_sq_chain l : forall pre b pv suf fuel, b = length pre -> (length l < fuel)%nat ->
  free_sq fuel (pre ++ chain b pv l None ++ suf) (firstp b l) = Ok (pre ++ repeat Freed (length l) ++ suf).
Proof.
  induction l as [|p r IH]; intros pre b pv suf fuel Hb Hf.
  - destruct fuel; reflexivity.
  - destruct fuel as [|f]; [cbn in Hf; lia|].
    cbn [firstp free_sq chain length repeat]. rewrite <- !app_comm_cons. subst b. rewrite hget_mid. cbn [bind].
    rewrite queue_element_free_mid. cbn [bind fst].
    replace (n_next (mk p pv (match r with [] => None | _ :: _ => Some (S (length pre)) end)))
      with (firstp (S (length pre)) r) by (destruct r; reflexivity).
    rewrite (app_cons_assoc pre Freed).
    rewrite (IH (pre ++ [Freed]) (S (length pre)) (Some (length pre)) suf f);
      [| rewrite app_length; cbn; lia | cbn in Hf; lia].
    now rewrite <- app_cons_assoc.
Qed.

Lemma chain_pv_cons b pv q r fin :
  chain b pv (q :: r) fin = Live (mk q pv (match r with [] => fin | _ => Some (S b) end)) :: chain (S b) (Some b) r fin.
Proof. reflexivity. Qed.

Lemma free_mq_chain l : forall pre b suf fuel, b = length pre -> (length l < fuel)%nat ->
  free_mq fuel (pre ++ chain b None l None ++ suf) (firstp b l) (lastp b None l)
  = Ok (pre ++ repeat Freed (length l) ++ suf).
Proof.
  induction l as [|p r IH]; intros pre b suf fuel Hb Hf.
  - destruct fuel as [|f]; [cbn in Hf; lia|]. reflexivity.
  - destruct fuel as [|f]; [cbn in Hf; lia|].
    cbn [firstp free_mq pop_queue_front chain length repeat]. rewrite <- !app_comm_cons. subst b.
    rewrite hget_mid. cbn [bind].
    destruct r as [|q r'].
    + cbn [n_next mk set_next bind chain app].
      rewrite hupd_mid. cbn [bind]. rewrite queue_element_free_mid. cbn [bind fst].
      destruct f as [|f]; [cbn in Hf; lia|]. reflexivity.
    + replace (n_next (mk p None (Some (S (length pre))))) with (Some (S (length pre))) by reflexivity.
      rewrite chain_pv_cons.
      rewrite (app_cons_assoc pre (Live (mk p None (Some (S (length pre)))))).
      rewrite <- app_comm_cons.
      rewrite hupd_mid_at by (rewrite app_length; cbn; lia). cbn [bind].
      rewrite <- app_cons_assoc.
      rewrite hupd_mid. cbn [bind]. rewrite queue_element_free_mid. cbn [bind fst].
      rewrite (app_cons_assoc pre Freed).
      replace (lastp (length pre) None (p :: q :: r')) with (lastp (S (length pre)) None (q :: r'))
        by (unfold lastp; cbn [length]; f_equal; lia).
      transitivity (free_mq f ((pre ++ [Freed]) ++ chain (S (length pre)) None (q :: r') None ++ suf)
                            (firstp (S (length pre)) (q :: r')) (lastp (S (length pre)) None (q :: r')));
        [reflexivity|].
      rewrite (IH (pre ++ [Freed]) (S (length pre)) suf f);
        [| rewrite app_length; cbn; lia | cbn in Hf |- *; lia].
      now rewrite <- app_cons_assoc.
Qed.

(* ------------------------------------------------------------------------------------------------ *)
(* the error path leaves a connection on which nothing of the attempt remains *)

Definition clean_conn (k : nat) : conn := with_heap fresh_conn (repeat Freed k).

(* the shape of the connection at any point of the restore where the error path can be entered *)
Definition midconn (sm : smstate) (lsq lmq : list node) (ql qu : Z) : conn :=
  mqconn (sqconn (with_sm fresh_conn (SmLive sm)) [] lsq ql qu) sm (chain 0 None lsq None) lmq.

Lemma err_reload_mid sm lsq lmq ql qu :
  err_reload fixed_variant (midconn sm lsq lmq ql qu) = Ok (EINVOP, clean_conn (length lsq + length lmq)).
Proof.
  unfold err_reload. cbn [v_err_queue v_err_null fixed_variant].
  unfold midconn, mqconn. cbn [c_heap sq_head sqconn app length].
  set (pre := chain 0 None lsq None).
  assert (Hpre : length pre = length lsq) by apply chain_length.
  assert (E1 : free_sq (walk_fuel (pre ++ chain (length pre) None lmq None)) (pre ++ chain (length pre) None lmq None)
                       (firstp 0 lsq) = Ok (repeat Freed (length lsq) ++ chain (length pre) None lmq None)).
  { subst pre.
    change (chain 0 None lsq None ++ chain (length (chain 0 None lsq None)) None lmq None)
      with ([] ++ chain 0 None lsq None ++ chain (length (chain 0 None lsq None)) None lmq None).
    rewrite free_sq_chain; [reflexivity | reflexivity |].
    unfold walk_fuel. cbn [app]. rewrite app_length, !chain_length. lia. }
  rewrite E1. cbn [bind].
  unfold free_sm_state, with_queue, with_heap. cbn [c_sm c_heap c_state c_neg c_cb sq_head sq_tail sq_len sq_ulen].
  unfold mqsm. cbn [mq_head mq_tail sm_with_queue].
  assert (E2 : free_mq (walk_fuel (repeat Freed (length lsq) ++ chain (length pre) None lmq None))
                       (repeat Freed (length lsq) ++ chain (length pre) None lmq None)
                       (firstp (length pre) lmq) (lastp (length pre) None lmq)
               = Ok (repeat Freed (length lsq) ++ repeat Freed (length lmq) ++ [])).
  { rewrite <- (app_nil_r (chain (length pre) None lmq None)).
    rewrite free_mq_chain; [reflexivity | now rewrite repeat_length |].
    unfold walk_fuel. rewrite !app_length, repeat_length, chain_length. cbn. lia. }
  rewrite E2. cbn [bind with_sm c_heap c_state c_neg c_cb sq_head sq_tail sq_len sq_ulen].
  unfold clean_conn, with_heap. cbn [fresh_conn c_state c_neg c_cb c_sm sq_head sq_tail sq_len sq_ulen].
  rewrite app_nil_r, <- repeat_app. reflexivity.
Qed.

Lemma sq_as_mid sm l ql qu : sm_with_queue sm None None = sm ->
  sqconn (with_sm fresh_conn (SmLive sm)) [] l ql qu = midconn sm l [] ql qu.
Proof.
  intros Hq. unfold midconn, mqconn, sqconn, mqsm.
  cbn [c_state c_neg c_cb c_sm sq_head sq_tail sq_len sq_ulen with_sm fresh_conn chain app length firstp lastp c_heap].
  now rewrite app_nil_r, Hq.
Qed.


Lemma enc_string_len t : zlen (enc_string t) = 5 + zlen t.
Proof. unfold enc_string. rewrite zlen_cons, zlen_app, word_length. lia. Qed.

Lemma restore_sq_total fuel : forall s i n sm l ql qu,
  sm_with_queue sm None None = sm -> (length s < fuel)%nat -> bytes s -> zlen s < 4294967296 ->
  match restore_sq fixed_variant fuel i n (sqconn (with_sm fresh_conn (SmLive sm)) [] l ql qu) s with
  | inr (c', s') => exists ts, c' = sqconn (with_sm fresh_conn (SmLive sm)) [] (l ++ map sq_content ts) ql qu /\
                               s = concat (map enc_string ts) ++ s' /\ bytes s' /\ zlen ts = Z.max 0 (n - i)
  | inl r => exists k, r = Ok (EINVOP, clean_conn k)
  end.
Proof.
  induction fuel as [|f IH]; intros s i n sm l ql qu Hq Hf Hb Hlen; [lia|].
  destruct (Z.le_gt_cases n i) as [Hni|Hni].
  - rewrite restore_sq_done by assumption. exists []. cbn [map concat app]. rewrite app_nil_r, zlen_nil.
    repeat split; try assumption. lia.
  - rewrite restore_sq_step by lia.
    pose proof (load_string_total s Hb Hlen) as Ht.
    destruct (load_string fixed_variant s) as [[d len] s1| |]; [| |contradiction].
    + destruct Ht as (t & -> & -> & -> & Hb1).
      assert (Hl1 : (length s1 < f)%nat).
      { rewrite app_length in Hf. pose proof (enc_string_len t). pose proof (zlen_nonneg t). unfold zlen in *. lia. }
      assert (Hlen1 : zlen s1 < 4294967296).
      { rewrite zlen_app in Hlen. pose proof (zlen_nonneg (enc_string t)). lia. }
      specialize (IH s1 (i + 1) n sm (l ++ [content (t ++ [0]) (zlen t) 0]) ql qu Hq Hl1 Hb1 Hlen1).
      destruct (restore_sq fixed_variant f (i + 1) n _ s1) as [r|[c' s']].
      * exact IH.
      * destruct IH as (ts & -> & -> & Hb' & Hz). exists (t :: ts). repeat split.
        -- cbn [map]. rewrite <- app_assoc. reflexivity.
        -- cbn [map concat]. now rewrite <- app_assoc.
        -- assumption.
        -- rewrite zlen_cons. lia.
    + rewrite sq_as_mid by assumption. rewrite err_reload_mid. eexists. reflexivity.
Qed.

Lemma restore_mq_total fuel : forall s i n sm lsq l ql qu,
  (length s < fuel)%nat -> bytes s -> zlen s < 4294967296 ->
  match restore_mq fixed_variant fuel i n (midconn sm lsq l ql qu) (mqsm sm (chain 0 None lsq None) l) s with
  | inr (c', _, s') => exists ps, c' = midconn sm lsq (l ++ map mq_content ps) ql qu /\
                                 s = concat (map enc_acked ps) ++ s' /\ bytes s' /\ zlen ps = Z.max 0 (n - i) /\
                                 Forall (fun p => is_u32 (fst p)) ps
  | inl r => exists k, r = Ok (EINVOP, clean_conn k)
  end.
Proof.
  induction fuel as [|f IH]; intros s i n sm lsq l ql qu Hf Hb Hlen; [lia|].
  destruct (Z.le_gt_cases n i) as [Hni|Hni].
  - rewrite restore_mq_done by assumption. exists []. cbn [map concat app]. rewrite app_nil_r, zlen_nil.
    repeat split; try assumption; [lia | constructor].
  - unfold midconn at 1. rewrite restore_mq_step by lia.
    pose proof (load_u32_total s ld_tag_mqh) as Hu.
    destruct (load_u32 fixed_variant s ld_tag_mqh) as [hv s0| |]; [| |contradiction].
    2:{ fold (midconn sm lsq (l ++ [zero_node]) ql qu). rewrite err_reload_mid. eexists. reflexivity. }
    destruct Hu as (b3 & b2 & b1 & b0 & -> & ->).
    apply bytes_cons in Hb as [_ Hb]. apply bytes_cons in Hb as [H3 Hb]. apply bytes_cons in Hb as [H2 Hb].
    apply bytes_cons in Hb as [H1 Hb]. apply bytes_cons in Hb as [H0 Hb].
    rewrite !zlen_cons in Hlen. cbn [length] in Hf.
    assert (Hlen0 : zlen s0 < 4294967296) by lia.
    pose proof (load_string_total s0 Hb Hlen0) as Ht.
    destruct (load_string fixed_variant s0) as [[d len] s1| |]; [| |contradiction].
    2:{ fold (midconn sm lsq (l ++ [set_smh (be32_val b3 b2 b1 b0) zero_node]) ql qu).
        rewrite err_reload_mid. eexists. reflexivity. }
    destruct Ht as (t & -> & -> & -> & Hb1).
    assert (Hl1 : (length s1 < f)%nat).
    { rewrite app_length in Hf. pose proof (enc_string_len t). pose proof (zlen_nonneg t). unfold zlen in *. lia. }
    assert (Hlen1 : zlen s1 < 4294967296).
    { rewrite zlen_app in Hlen0. pose proof (zlen_nonneg (enc_string t)). lia. }
    fold (midconn sm lsq (l ++ [content (t ++ [0]) (zlen t) (be32_val b3 b2 b1 b0)]) ql qu).
    specialize (IH s1 (i + 1) n sm lsq (l ++ [content (t ++ [0]) (zlen t) (be32_val b3 b2 b1 b0)]) ql qu Hl1 Hb1 Hlen1).
    destruct (restore_mq fixed_variant f (i + 1) n _ _ s1) as [r|[[c' sm'] s']].
    + exact IH.
    + destruct IH as (ps & -> & -> & Hb' & Hz & Hu). exists ((be32_val b3 b2 b1 b0, t) :: ps). repeat split.
      * cbn [map]. rewrite <- app_assoc. reflexivity.
      * cbn [map concat].
        change (enc_acked (be32_val b3 b2 b1 b0, t)) with ((T_WORD :: word (be32_val b3 b2 b1 b0)) ++ enc_string t).
        rewrite word_be32_val by assumption. change ld_tag_mqh with T_WORD. rewrite <- !app_assoc. reflexivity.
      * assumption.
      * rewrite zlen_cons. lia.
      * constructor; [|assumption]. cbn [fst]. now apply be32_val_range.
Qed.

Lemma fold_strings_ge5 (us : list (list Z)) : 5 * zlen us <= fold_right (fun t a => 5 + zlen t + a) 0 us.
Proof.
  induction us as [|t us IH]; cbn [fold_right]; [reflexivity|].
  rewrite zlen_cons. pose proof (zlen_nonneg t). lia.
Qed.

Lemma cstr_len_le x : zlen (cstr x) <= zlen x.
Proof.
  induction x as [|b x IH]; cbn [cstr]; [lia|]. destruct (b =? 0); rewrite ?zlen_cons, ?zlen_nil; pose proof (zlen_nonneg x); lia.
Qed.

Lemma cstr_full_nul_free t : zlen (cstr (t ++ [0])) = zlen t -> nul_free t.
Proof.
  induction t as [|b t IH]; intros H; [constructor|].
  cbn [app cstr] in H. destruct (b =? 0) eqn:E.
  - rewrite zlen_nil, zlen_cons in H. pose proof (zlen_nonneg t). lia.
  - rewrite !zlen_cons in H. constructor; [lia|]. apply IH. lia.
Qed.

Lemma err_reload_start sm ql qu : sm_with_queue sm None None = sm ->
  err_reload fixed_variant (with_queue (with_sm fresh_conn (SmLive sm)) None None ql qu) = Ok (EINVOP, clean_conn 0).
Proof.
  intros Hq.
  change (with_queue (with_sm fresh_conn (SmLive sm)) None None ql qu)
    with (sqconn (with_sm fresh_conn (SmLive sm)) [] [] ql qu).
  rewrite sq_as_mid by assumption. now rewrite err_reload_mid.
Qed.

(* every byte string: either refused, leaving a clean connection, or it is the encoding of a state and the
   result is that state's connection *)
Theorem restore_any bs : bytes bs -> zlen bs < 4294967296 ->
  (exists k, restore fresh_conn bs = Ok (EINVOP, clean_conn k)) \/
  (exists st, bs = encode st /\
              is_u32 (a_sent st) /\ is_u32 (a_handled st) /\ nul_free (a_id st) /\
              Forall (fun p => is_u32 (fst p)) (a_unacked st) /\ zlen (a_unsent st) < 2147483648 /\
              restore fresh_conn bs = Ok (0, canon st)).
Proof.
  intros Hb Hlen. rewrite restore_gen. unfold restore_v.
  change (negb (c_state fresh_conn =? ST_DISCONNECTED)) with false. cbv iota.
  change (c_sm fresh_conn) with SmNull. cbv iota.
  change blob_min_len with 30.
  destruct (zlen bs <? 30) eqn:E30; [left; exists 0%nat; reflexivity|].
  destruct (zlen_ge5 bs) as (t & v3 & v2 & v1 & v0 & s0 & ->); [lia|].
  set (bs := t :: v3 :: v2 :: v1 :: v0 :: s0) in *.
  replace (rdn bs (zlen ld_version)) with (Some [t; v3; v2; v1; v0]).
  2:{ unfold rdn. change (zlen ld_version) with 5. replace (zlen bs <? 5) with false by lia. reflexivity. }
  change ld_version with [26; 0; 0; 0; 0]. cbn [list_eqb].
  destruct (t =? 26) eqn:Et; cbn [andb negb]; [|left; exists 0%nat; reflexivity].
  destruct (v3 =? 0) eqn:E3; cbn [andb negb]; [|left; exists 0%nat; reflexivity].
  destruct (v2 =? 0) eqn:E2; cbn [andb negb]; [|left; exists 0%nat; reflexivity].
  destruct (v1 =? 0) eqn:E1; cbn [andb negb]; [|left; exists 0%nat; reflexivity].
  destruct (v0 =? 0) eqn:E0; cbn [andb negb]; [|left; exists 0%nat; reflexivity].
  cbv iota.
  apply Z.eqb_eq in Et, E3, E2, E1, E0. subst t v3 v2 v1 v0.
  change ld_skip with 5. replace (zlen bs <? 5) with false by lia.
  change (skipn (Z.to_nat 5) bs) with s0.
  assert (Hb0 : bytes s0) by (repeat (apply bytes_cons in Hb as [_ Hb]); exact Hb).
  assert (Hlen0 : zlen s0 < 4294967296) by (subst bs; rewrite !zlen_cons in Hlen; lia).
  set (fuel := S (length bs)).
  assert (Hfuel0 : (length s0 < fuel)%nat) by (subst fuel bs; cbn [length]; lia).
  clearbody fuel. clear E30 Hb. subst bs.
  (* sent *)
  pose proof (load_u32_total s0 ld_tag_sent) as Hu.
  destruct (load_u32 fixed_variant s0 ld_tag_sent) as [sent s1| |]; [| |contradiction].
  2:{ left. exists 0%nat. apply (err_reload_start sm_restored0 0 0). reflexivity. }
  destruct Hu as (a3 & a2 & a1 & a0 & -> & ->).
  apply bytes_cons in Hb0 as [_ Hb0]. apply bytes_cons in Hb0 as [A3 Hb0]. apply bytes_cons in Hb0 as [A2 Hb0].
  apply bytes_cons in Hb0 as [A1 Hb0]. apply bytes_cons in Hb0 as [A0 Hb0].
  rewrite !zlen_cons in Hlen0. cbn [length] in Hfuel0.
  (* handled *)
  pose proof (load_u32_total s1 ld_tag_handled) as Hu.
  destruct (load_u32 fixed_variant s1 ld_tag_handled) as [handled s2| |]; [| |contradiction].
  2:{ left. exists 0%nat. apply (err_reload_start (sm_with_counters sm_restored0 0 (be32_val a3 a2 a1 a0)) 0 0). reflexivity. }
  destruct Hu as (c3 & c2 & c1 & c0 & -> & ->).
  apply bytes_cons in Hb0 as [_ Hb0]. apply bytes_cons in Hb0 as [C3 Hb0]. apply bytes_cons in Hb0 as [C2 Hb0].
  apply bytes_cons in Hb0 as [C1 Hb0]. apply bytes_cons in Hb0 as [C0 Hb0].
  rewrite !zlen_cons in Hlen0. cbn [length] in Hfuel0.
  (* id *)
  assert (Hlen2 : zlen s2 < 4294967296) by lia.
  pose proof (load_string_total s2 Hb0 Hlen2) as Hs.
  destruct (load_string fixed_variant s2) as [[idbuf idl] s3| |]; [| |contradiction].
  2:{ left. exists 0%nat.
      apply (err_reload_start (sm_with_counters (sm_with_counters sm_restored0 0 (be32_val a3 a2 a1 a0))
                                                (be32_val c3 c2 c1 c0) (be32_val a3 a2 a1 a0)) 0 0). reflexivity. }
  destruct Hs as (id & -> & -> & -> & Hb3).
  cbn [v_idnul fixed_variant andb].
  set (sent := be32_val a3 a2 a1 a0) in *. set (handled := be32_val c3 c2 c1 c0) in *.
  set (sm3 := sm_with_id (sm_with_counters (sm_with_counters sm_restored0 0 sent) handled sent) (Some (id ++ [0]))).
  assert (Hq3 : sm_with_queue sm3 None None = sm3) by reflexivity.
  destruct (zlen (cstr (id ++ [0])) =? zlen id) eqn:Eid; cbn [negb]; cbv iota.
  2:{ left. exists 0%nat. apply (err_reload_start sm3 0 0 Hq3). }
  apply Z.eqb_eq, cstr_full_nul_free in Eid.
  rewrite zlen_app, enc_string_len in Hlen2. rewrite app_length in Hfuel0.
  pose proof (zlen_nonneg id) as Hidnn.
  assert (Hl3 : (length s3 < fuel)%nat) by lia.
  assert (Hlen3 : zlen s3 < 4294967296) by lia.
  (* unsent count *)
  pose proof (load_u32_total s3 ld_tag_sqcount) as Hu.
  destruct (load_u32 fixed_variant s3 ld_tag_sqcount) as [n s4| |]; [| |contradiction].
  2:{ left. exists 0%nat. apply (err_reload_start sm3 0 0 Hq3). }
  destruct Hu as (n3 & n2 & n1 & n0 & -> & ->).
  apply bytes_cons in Hb3 as [_ Hb3]. apply bytes_cons in Hb3 as [N3 Hb3]. apply bytes_cons in Hb3 as [N2 Hb3].
  apply bytes_cons in Hb3 as [N1 Hb3]. apply bytes_cons in Hb3 as [N0 Hb3].
  rewrite !zlen_cons in Hlen3. cbn [length] in Hl3.
  set (n := be32_val n3 n2 n1 n0) in *.
  pose proof (be32_val_range _ _ _ _ N3 N2 N1 N0) as Hn. fold n in Hn.
  change (with_queue (with_sm fresh_conn (SmLive sm3)) (sq_head (with_sm fresh_conn (SmLive sm3)))
                     (sq_tail (with_sm fresh_conn (SmLive sm3))) (to_int n) (to_int n))
    with (sqconn (with_sm fresh_conn (SmLive sm3)) [] [] (to_int n) (to_int n)).
  assert (Hl4 : (length s4 < fuel)%nat) by lia.
  assert (Hlen4 : zlen s4 < 4294967296) by lia.
  pose proof (restore_sq_total fuel s4 0 n sm3 [] (to_int n) (to_int n) Hq3 Hl4 Hb3 Hlen4) as Hsq.
  destruct (restore_sq fixed_variant fuel 0 n _ s4) as [r|[c5 s5]].
  { destruct Hsq as (k & ->). left. now exists k. }
  destruct Hsq as (us & -> & -> & Hb5 & Hzus). cbn [app] in *.
  rewrite zlen_app, zlen_concat_strings in Hlen4. rewrite app_length in Hl4.
  pose proof (fold_strings_ge5 us) as Hge. pose proof (zlen_nonneg us) as Husnn. pose proof (zlen_nonneg s5) as Hs5nn.
  assert (Hzn : zlen us = n) by (unfold is_u32 in Hn; lia).
  assert (Hl5 : (length s5 < fuel)%nat) by lia.
  assert (Hlen5 : zlen s5 < 4294967296) by (pose proof (zlen_nonneg s5); lia).
  rewrite to_int_small by lia.
  (* unacked count *)
  pose proof (load_u32_total s5 ld_tag_mqcount) as Hu.
  destruct (load_u32 fixed_variant s5 ld_tag_mqcount) as [m s6| |]; [| |contradiction].
  2:{ left. rewrite sq_as_mid by assumption. rewrite err_reload_mid. eexists. reflexivity. }
  destruct Hu as (m3 & m2 & m1 & m0 & -> & ->).
  apply bytes_cons in Hb5 as [_ Hb5]. apply bytes_cons in Hb5 as [M3 Hb5]. apply bytes_cons in Hb5 as [M2 Hb5].
  apply bytes_cons in Hb5 as [M1 Hb5]. apply bytes_cons in Hb5 as [M0 Hb5].
  rewrite !zlen_cons in Hlen5. cbn [length] in Hl5.
  set (m := be32_val m3 m2 m1 m0) in *.
  pose proof (be32_val_range _ _ _ _ M3 M2 M1 M0) as Hm. fold m in Hm.
  rewrite sq_as_mid by assumption.
  change sm3 with (mqsm sm3 (chain 0 None (map sq_content us) None) []) at 2.
  assert (Hl6 : (length s6 < fuel)%nat) by lia.
  assert (Hlen6 : zlen s6 < 4294967296) by lia.
  pose proof (restore_mq_total fuel s6 0 m sm3 (map sq_content us) [] n n Hl6 Hb5 Hlen6) as Hmq.
  destruct (restore_mq fixed_variant fuel 0 m _ _ s6) as [r|[[c6 sm6] s7]].
  { destruct Hmq as (k & ->). left. now exists k. }
  destruct Hmq as (ua & -> & -> & Hb7 & Hzua & Hhs). cbn [app] in *.
  cbn [v_trailing fixed_variant andb].
  destruct (zlen s7 =? 0) eqn:E7; cbn [negb]; cbv iota.
  2:{ left. rewrite err_reload_mid. eexists. reflexivity. }
  right. exists (mkA sent handled id us ua). cbn [a_sent a_handled a_id a_unsent a_unacked].
  assert (s7 = []) by (destruct s7; [reflexivity | rewrite zlen_cons in E7; pose proof (zlen_nonneg s7); lia]). subst s7.
  pose proof (zlen_nonneg ua) as Huann.
  assert (Hzm : zlen ua = m) by (unfold is_u32 in Hm; lia).
  repeat split; try (apply be32_val_range; assumption); try assumption; try lia.
  - unfold encode, enc_word. cbn [a_sent a_handled a_id a_unsent a_unacked].
    rewrite Hzn, Hzm. subst n m sent handled.
    rewrite !word_be32_val by assumption.
    change ld_tag_sent with T_WORD. change ld_tag_handled with T_WORD. change ld_tag_sqcount with T_UNSENT.
    change ld_tag_mqcount with T_UNACKED. rewrite app_nil_r. cbn [app]. rewrite <- ?app_assoc. reflexivity.
  - rewrite <- Hzn. reflexivity.
Qed.

(* ------------------------------------------------------------------------------------------------ *)
(* consequences *)

Theorem reject_safe bs : bytes bs -> zlen bs < 4294967296 ->
  exists rc c, restore fresh_conn bs = Ok (rc, c) /\ (rc <> 0 -> rc = EINVOP /\ exists k, c = clean_conn k).
Proof.
  intros Hb Hl. destruct (restore_any bs Hb Hl) as [(k & ->) | (st & _ & _ & _ & _ & _ & _ & ->)].
  - exists EINVOP, (clean_conn k). split; [reflexivity|]. intros _. split; [reflexivity | now exists k].
  - exists 0, (canon st). split; [reflexivity|]. intros H; congruence.
Qed.

Theorem accept_exact bs c : bytes bs -> zlen bs < 4294967296 -> restore fresh_conn bs = Ok (0, c) ->
  exists st, bs = encode st /\ c = canon st /\ nul_free (a_id st) /\ is_u32 (a_sent st) /\ is_u32 (a_handled st).
Proof.
  intros Hb Hl Hr. destruct (restore_any bs Hb Hl) as [(k & E) | (st & -> & Hs & Hh & Hid & _ & _ & E)];
    rewrite E in Hr.
  - discriminate.
  - injection Hr as <-. exists st. auto.
Qed.

Lemma live_count_freed k : live_count (repeat Freed k) = 0.
Proof. unfold live_count. induction k; cbn; auto. Qed.

Lemma free_sq_none fuel h : free_sq fuel h None = Ok h.
Proof. destruct fuel; reflexivity. Qed.

Lemma send_after_connect k t : nul_free t ->
  send_user (mkConn (repeat Freed k) ST_CONNECTED true true (SmLive sm_zero) None None 0 0) t (zlen t)
  = Ok (mkConn (repeat Freed k ++ [Live (mkNode (Some (t ++ [0])) (zlen t) 0 false OWNER_USER None 0 None None)])
               ST_CONNECTED true true (SmLive sm_zero) (Some (length (repeat Freed k))) (Some (length (repeat Freed k))) 1 1,
        Some SNull).
Proof.
  intros Ht. unfold send_user. cbn [c_state]. change (negb (ST_CONNECTED =? ST_CONNECTED)) with false. cbv iota.
  rewrite strndup_nul_free by assumption. reflexivity.
Qed.

Lemma release_one k nd :
  release (mkConn (repeat Freed k ++ [Live nd]) ST_DISCONNECTED false true (SmLive sm_zero)
                  (Some (length (repeat Freed k))) (Some (length (repeat Freed k))) 1 1)
  = Ok (repeat Freed k ++ [Freed]) \/ n_next nd <> None.
Proof.
  destruct (n_next nd) eqn:E; [right; congruence|left].
  unfold release. cbn [c_heap sq_head]. unfold walk_fuel. rewrite app_length. cbn [length]. rewrite Nat.add_1_r.
  cbn [free_sq]. rewrite hget_mid. cbn [bind]. rewrite queue_element_free_mid. cbn [bind fst]. rewrite E.
  rewrite ?free_sq_none. cbn [bind with_queue with_heap c_sm c_heap c_state c_neg c_cb].
  unfold free_sm_state. cbn [c_sm c_heap mq_head mq_tail sm_zero].
  reflexivity.
Qed.

(* what "clean" buys: the connection answers every queue call like a new one, can be "connected" and used,
   and its release frees nothing twice and leaves nothing behind *)
Theorem clean_usable k :
  let c := clean_conn k in
  qlen c = Ok 0 /\
  (forall w, drop c w = Ok (c, None, None)) /\
  (forall t len, send_user c t len = Ok (c, None)) /\
  (forall t, send_user_str c t = Ok (c, None)) /\
  (forall sched, run_once c sched = Ok (c, [], None)) /\
  release c = Ok (repeat Freed k) /\ live_count (repeat Freed k) = 0 /\
  (forall t, nul_free t -> exists c', send_user (op_connect c) t (zlen t) = Ok (c', Some SNull) /\
                                     qlen c' = Ok 1 /\
                                     exists h, release (op_disconnect c') = Ok h /\ live_count h = 0).
Proof.
  cbv zeta. repeat split; try reflexivity.
  - apply live_count_freed.
  - intros t Ht.
    change (op_connect (clean_conn k)) with (mkConn (repeat Freed k) ST_CONNECTED true true (SmLive sm_zero) None None 0 0).
    rewrite send_after_connect by assumption. eexists. split; [reflexivity|]. split.
    + unfold qlen. cbn [sq_head c_heap]. rewrite hget_mid. reflexivity.
    + unfold op_disconnect, with_state. cbn [c_heap c_cb c_sm sq_head sq_tail sq_len sq_ulen].
      destruct (release_one k (mkNode (Some (t ++ [0])) (zlen t) 0 false OWNER_USER None 0 None None)) as [E|E];
        [|cbn in E; congruence].
      rewrite E. eexists. split; [reflexivity|].
      unfold live_count. rewrite filter_app. cbn [filter]. rewrite app_nil_r. apply live_count_freed.
Qed.

(* ------------------------------------------------------------------------------------------------ *)
(* the same model with the code shape of libstrophe 0.14.0 as released (orig_variant) violates each statement;
   the witnesses are the inputs of corpus/C16.txt *)

Definition ex_st : astate := mkA 1 2 [105; 100] [[97]; [98]] [(0, [99])].
Definition ex_blob30 : list Z := firstn 30 (encode (mkA 0 0 [83; 77; 73; 68; 53] [] [])).

Lemma orig_tag_overread_refuted : restore_v orig_variant fresh_conn ex_blob30 = OOB.
Proof. vm_compute. reflexivity. Qed.

Lemma orig_missing_prev_refuted :
  exists c, restore_v orig_variant fresh_conn (encode ex_st) = Ok (0, c) /\
            dllb (c_heap c) None (sq_head c) [0; 1]%nat = None /\
            fst (run [OpDrop Q_YOUNGEST] c) <> fst (run [OpDrop Q_YOUNGEST] (canon ex_st)).
Proof. eexists. split; [vm_compute; reflexivity|]. split; [vm_compute; reflexivity|]. vm_compute. discriminate. Qed.

Lemma orig_err_path_refuted :
  exists c, restore_v orig_variant fresh_conn (firstn 38 (encode ex_st)) = Ok (EINVOP, c) /\
            c_sm c = SmDangling /\ sq_head c <> None /\ sq_len c = 2 /\ release c = UAF /\
            fst (run [OpConnect; OpSend [97]] c) = [ObNone].
Proof.
  eexists. split; [vm_compute; reflexivity|].
  repeat split; try (vm_compute; reflexivity). vm_compute. discriminate.
Qed.

Lemma orig_trailing_refuted :
  exists c, restore_v orig_variant fresh_conn (encode ex_st ++ [0]) = Ok (0, c).
Proof. eexists. vm_compute. reflexivity. Qed.

Lemma orig_idnul_refuted :
  exists c, restore_v orig_variant fresh_conn (encode (mkA 1 2 [97; 0; 98] [] [])) = Ok (0, c) /\
            abs_conn c = Ok (1, 2, [97], [], []).
Proof. eexists. split; vm_compute; reflexivity. Qed.

Lemma orig_refuted :
  restore_v orig_variant fresh_conn ex_blob30 = OOB /\
  (exists c, restore_v orig_variant fresh_conn (encode ex_st) = Ok (0, c) /\
             dllb (c_heap c) None (sq_head c) [0; 1]%nat = None /\
             fst (run [OpDrop Q_YOUNGEST] c) <> fst (run [OpDrop Q_YOUNGEST] (canon ex_st))) /\
  (exists c, restore_v orig_variant fresh_conn (firstn 38 (encode ex_st)) = Ok (EINVOP, c) /\
             c_sm c = SmDangling /\ sq_head c <> None /\ sq_len c = 2 /\ release c = UAF /\
             fst (run [OpConnect; OpSend [97]] c) = [ObNone]) /\
  (exists c, restore_v orig_variant fresh_conn (encode ex_st ++ [0]) = Ok (0, c)) /\
  (exists c, restore_v orig_variant fresh_conn (encode (mkA 1 2 [97; 0; 98] [] [])) = Ok (0, c) /\
             abs_conn c = Ok (1, 2, [97], [], [])).
Proof.
  exact (conj orig_tag_overread_refuted (conj orig_missing_prev_refuted (conj orig_err_path_refuted
          (conj orig_trailing_refuted orig_idnul_refuted)))).
Qed.

(* the hypotheses of the theorems are satisfiable, and the fixed model on the same witnesses *)
Example wf_st_ex : wf_st ex_st.
Proof.
  unfold wf_st, ex_st, is_u32, wf_text, bytes, nul_free, is_byte. cbn [a_sent a_handled a_id a_unsent a_unacked fst snd].
  repeat split; try lia; repeat constructor; try lia; cbn; try lia.
Qed.

Example fixed_on_witnesses :
  restore_v fixed_variant fresh_conn ex_blob30 = Ok (EINVOP, clean_conn 0) /\
  restore_v fixed_variant fresh_conn (firstn 38 (encode ex_st)) = Ok (EINVOP, clean_conn 2) /\
  restore_v fixed_variant fresh_conn (encode ex_st ++ [0]) = Ok (EINVOP, clean_conn 3) /\
  restore_v fixed_variant fresh_conn (encode (mkA 1 2 [97; 0; 98] [] [])) = Ok (EINVOP, clean_conn 0).
Proof. repeat split; vm_compute; reflexivity. Qed.
