(* Proofs for C04: the negotiation automaton (an invariant over the flags only; holds on every history). *)
Require Import LV.Common.Bytes LV.Model.SmModel LV.Spec.SmSpec LV.Proofs.SmProofs.
Require Import Lia ZifyBool.
Local Open Scope Z_scope.

(* ------------------------------------------------------------------ the negotiation automaton (flags only) *)
Definition flags2 (s : sys) : Prop :=
  let st := fst s in let g := snd s in
  sm_enabled st = g_active g /\
  (connected st = true -> h_feat st = true -> sm_enabled st = false /\ h_bind st = false /\ h_sm st = false /\ neg_done st = false) /\
  (connected st = true -> h_bind st = true -> sm_enabled st = false /\ h_sm st = false /\ neg_done st = false) /\
  (connected st = true -> h_sm st = true -> neg_done st = false) /\
  (connected st = false -> sm_enabled st = false /\ neg_done st = false /\ sm_id st = None) /\
  (g_active g = true -> g_sync g = false -> connected st = true /\ neg_done st = false /\ h_sm st = true) /\
  (sm_id st <> None -> g_sync g = true /\ neg_done st = true /\ connected st = true /\ bound st = true) /\
  (previd st <> None -> g_sync g = true /\ can_resume st = true /\ sm_bound st = true /\ sm_id st = None) /\
  (connected st = true -> h_bind st = true -> sm_support st = true -> previd st = None) /\
  (connected st = true -> h_sm st = true -> sm_enabled st = true -> bound st = true /\ previd st = None /\ g_sync g = false) /\
  (connected st = true -> h_sm st = true -> sm_enabled st = false -> previd st <> None).

Lemma flags2_disconnect st g : flags2 (st, g) -> flags2 (fst (disconnect st), gfold g (snd (disconnect st))).
Proof.
  unfold flags2, disconnect. cbn [fst snd].
  destruct (connected st) eqn:C; cbn [negb fst snd]; intros H; [|gn; rewrite C; exact H].
  gn. cbn. destruct (can_resume st) eqn:R; cbn.
  all: intuition congruence.
Qed.

Definition view2 (st : state) :=
  (connected st, neg_done st, h_feat st, h_bind st, h_sm st, sm_enabled st, sm_support st, can_resume st,
   sm_id st, previd st, bound st, sm_bound st).
Definition gview2 (g : ghost) := (g_active g, g_sync g).

Lemma flags2_view st st' g g' : view2 st = view2 st' -> gview2 g = gview2 g' -> flags2 (st, g) -> flags2 (st', g').
Proof.
  unfold view2, gview2. intros V W.
  assert (V' : connected st = connected st' /\ neg_done st = neg_done st' /\ h_feat st = h_feat st' /\ h_bind st = h_bind st' /\
               h_sm st = h_sm st' /\ sm_enabled st = sm_enabled st' /\ sm_support st = sm_support st' /\
               can_resume st = can_resume st' /\ sm_id st = sm_id st' /\ previd st = previd st' /\ bound st = bound st' /\
               sm_bound st = sm_bound st') by (repeat split; congruence).
  assert (W' : g_active g = g_active g' /\ g_sync g = g_sync g') by (split; congruence).
  destruct V' as (V1 & V2 & V3 & V4 & V5 & V6 & V7 & V8 & V9 & V10 & V11 & V12). destruct W' as (W1 & W2).
  unfold flags2. cbn [fst snd]. rewrite V1, V2, V3, V4, V5, V6, V7, V8, V9, V10, V11, V12, W1, W2. auto.
Qed.

Lemma gview2_quiet g m :
  match m with GNewSession | GEnabled | GResumed _ | GFailed | GSmOff | GDown => False | _ => True end ->
  gview2 (gapply g m) = gview2 g.
Proof. destruct m; intros X; try contradiction; cbn; try reflexivity; try (destruct numbered; reflexivity); destruct (g_active g); reflexivity. Qed.

Ltac andbs := repeat match goal with
  | H : _ && _ = true |- _ => apply andb_true_iff in H; destruct H
  | H : _ && _ = false |- _ => apply andb_false_iff in H; destruct H
  | H : negb _ = true |- _ => apply negb_true_iff in H
  | H : negb _ = false |- _ => apply negb_false_iff in H
  end.

Lemma flags2_fire bt st g it :
  flags2 (st, g) -> connected st = true -> flags2 (fst (fire bt st it), gfold g (snd (fire bt st it))).
Proof.
  intros H C. unfold fire.
  destruct it as [| | |smo|e]; try exact H.
  - destruct (h_bind st) eqn:Hb; [|exact H]. unfold flags2 in *. cbn [fst snd] in *. unf.
    repeat (brk; cbn [fst snd] in * ); gn; gsil; cbn in *; rewrite ?C, ?Hb in *.
    all: intuition congruence.
  - destruct (h_feat st) eqn:Hf; [|exact H]. unfold flags2 in *. cbn [fst snd] in *. unf.
    repeat (brk; cbn [fst snd] in * ); gn; gsil; cbn in *; rewrite ?C, ?Hf in *; andbs.
    all: intuition congruence.
  - destruct (h_sm st) eqn:Hs; [|exact H]. unfold flags2 in *. cbn [fst snd] in *. split_smel e; unf.
    all: repeat (brk; cbn [fst snd] in * ).
    all: gn; gsil; cbn in *; rewrite ?C, ?Hs in *; andbs.
    all: intuition congruence.
Qed.

Definition wq (o : out) : bool := match o with OG (GDone _ _) => true | OG _ => false | _ => true end.
Lemma wloop_wq q sched st : forallb wq (snd (fst (fst (wloop q sched st)))) = true.
Proof.
  revert sched st; induction q as [|e rest IH]; intros sched st; [reflexivity|].
  cbn [wloop]. destruct (next_send sched (zlen (q_text e) - q_written e)) as [[ret err] sched'].
  destruct (ret =? zlen (q_text e) - q_written e).
  - destruct (countable (q_owner e) && sm_enabled (set_sq st rest)).
    + match goal with |- context[wloop rest sched' ?s] => specialize (IH sched' s); destruct (wloop rest sched' s) as [[[st2 o] er] sl] end.
      cbn [fst snd] in *. cbn. exact IH.
    + match goal with |- context[wloop rest sched' ?s] => specialize (IH sched' s); destruct (wloop rest sched' s) as [[[st2 o] er] sl] end.
      cbn [fst snd] in *. destruct (countable (q_owner e)); cbn; exact IH.
  - destruct (0 <? ret); reflexivity.
Qed.
Lemma gfold_wq g l : forallb wq l = true -> gview2 (gfold g l) = gview2 g.
Proof.
  revert g; induction l as [|o l IH]; intros g H; [reflexivity|].
  cbn in H. apply andb_true_iff in H as [H1 H2]. rewrite gfold_cons, IH by exact H2.
  destruct o as [| | | |m]; try reflexivity. destruct m; try discriminate. cbn. destruct numbered; reflexivity.
Qed.

Lemma flags2_post st g it :
  flags2 (st, g) ->
  let r := if sm_enabled st then sm_handle st it else (st, []) in
  flags2 (fst r, gfold (gfold g (mark_in it)) (snd r)).
Proof.
  intros H. cbn zeta.
  destruct (sm_enabled st);
    (destruct it as [| | |smo|e]; [| | | |split_smel e]); unf;
    repeat (brk; cbn [fst snd] in * ); gn; gsil;
    (eapply flags2_view; [| |exact H]; [reflexivity|]; cbn; try reflexivity; destruct (g_active g); reflexivity).
Qed.

Lemma flags2_connect st g : flags2 (st, g) -> flags2 (fst (do_connect st), gfold g (snd (do_connect st))).
Proof.
  unfold flags2, do_connect. cbn [fst snd].
  destruct (connected st) eqn:C; cbn [fst snd]; intros H; [gn; rewrite C; exact H|].
  gn. cbn. intuition congruence.
Qed.

Lemma flags2_step bt s a : flags2 s -> flags2 (sys_step bt s a).
Proof.
  destruct s as [st g]. intros H. unfold sys_step, step. cbn [fst snd].
  destruct a as [t|sched|it| | | |l0].
  - unfold user_send. destruct (connected st && neg_done st); [|exact H]. abs_send. cbn [fst snd]. gn. gsil.
    eapply flags2_view; [| |exact H]; reflexivity.
  - unfold write_phase. destruct (connected st) eqn:Ec; [|exact H].
    pose proof (wloop_wq (sq st) sched st) as Wq.
    destruct (wloop_frame (sq st) sched st) as (q' & m & n & E & _).
    destruct (wloop (sq st) sched st) as [[[st1 o] err] sl]. cbn [fst snd] in *.
    assert (H1 : flags2 (st1, gfold g o)).
    { eapply flags2_view; [| |exact H]; [rewrite E; reflexivity|symmetry; apply gfold_wq, Wq]. }
    destruct err; [|exact H1].
    pose proof (flags2_disconnect st1 (gfold g o) H1) as H2.
    destruct (disconnect st1) as [st2 o2]. cbn [fst snd] in *. rewrite gfold_app. exact H2.
  - unfold dispatch. destruct (connected st) eqn:C; [|exact H]. cbn [negb].
    pose proof (flags2_fire bt st g it H C) as H1.
    destruct (fire bt st it) as [st1 o1]. cbn [fst snd] in H1.
    pose proof (flags2_post st1 (gfold g o1) it H1) as H2. cbn zeta in H2.
    destruct (if sm_enabled st1 then sm_handle st1 it else (st1, [])) as [st2 o2]. cbn [fst snd] in *.
    rewrite !gfold_app. exact H2.
  - destruct (connected st) eqn:Ec; [|exact H]. unfold stream_end, disconnect. cbn [connected set_can_resume]. rewrite Ec.
    cbn [negb fst snd]. gn. unfold flags2 in *. cbn in *. rewrite Ec in *. intuition congruence.
  - pose proof (flags2_disconnect _ _ H) as H2. destruct (disconnect st) as [st2 o2]. exact H2.
  - pose proof (flags2_connect _ _ H) as H2. destruct (do_connect st) as [st2 o2]. exact H2.
  - eapply flags2_view; [| |exact H]; reflexivity.
Qed.

Lemma flags2_init : flags2 sys0.
Proof. unfold flags2, sys0. cbn. intuition congruence. Qed.
Lemma flags2_run bt l s : flags2 s -> flags2 (sys_run bt s l).
Proof. revert s; induction l as [|a l IH]; intros s H; [exact H|]. cbn. apply IH, flags2_step, H. Qed.

