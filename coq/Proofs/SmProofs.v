(* Proofs for C04 / C05 (statements are restated in Properties/Properties_C04.v, Properties_C05.v). *)
Require Import LV.Common.Bytes LV.Model.SmModel LV.Spec.SmSpec.
From Coq Require Import Permutation.
Require Import Lia ZifyBool.
Ltac Zify.zify_post_hook ::= Z.div_mod_to_equations.
Local Open Scope Z_scope.

(* ------------------------------------------------------------------ generalities *)
Lemma gfold_app g a b : gfold g (a ++ b) = gfold (gfold g a) b.
Proof. unfold gfold. apply fold_left_app. Qed.
Lemma gfold_cons g o l : gfold g (o :: l) = gfold (gout g o) l.
Proof. reflexivity. Qed.
Lemma gfold_nil g : gfold g [] = g.
Proof. reflexivity. Qed.

Definition silent (o : out) : bool := match o with OG _ => false | _ => true end.
Lemma gfold_silent g l : forallb silent l = true -> gfold g l = g.
Proof.
  revert g; induction l as [|o l IH]; intros g H; [reflexivity|].
  cbn in H. apply andb_true_iff in H as [H1 H2]. rewrite gfold_cons, IH by exact H2.
  destruct o; try discriminate; reflexivity.
Qed.

Lemma w32_idem x : w32 (w32 x) = w32 x.
Proof. unfold w32, W32. apply Z.mod_mod. lia. Qed.
Lemma w32_succ x : w32 (w32 x + 1) = w32 (x + 1).
Proof. unfold w32, W32. rewrite Zplus_mod_idemp_l. reflexivity. Qed.
Lemma w32_small x : 0 <= x < W32 -> w32 x = x.
Proof. unfold w32. intros. apply Z.mod_small. lia. Qed.
Lemma w32_range x : 0 <= w32 x < W32.
Proof. unfold w32, W32. apply Z.mod_pos_bound. lia. Qed.

(* ------------------------------------------------------------------ _send_raw *)
(* what _send_raw changes: the send queue, r_sent, the id counter; it only fires the SM callback *)
Definition upd_send (st st' : state) : Prop :=
  st' = set_next_gid (set_r_sent (set_sq st (sq st')) (r_sent st')) (next_gid st').

Lemma upd_send_refl st : upd_send st st.
Proof. unfold upd_send. destruct st; reflexivity. Qed.

Lemma send_raw_upd st g o t rs : upd_send st (fst (send_raw_ st g o t rs)).
Proof.
  unfold send_raw_, upd_send. destruct (countable _ && sm_enabled _ && negb (r_sent _)); destruct st; reflexivity.
Qed.

Lemma send_raw_silent st g o t rs : forallb silent (snd (send_raw_ st g o t rs)) = true.
Proof. unfold send_raw_. destruct (countable _ && sm_enabled _ && negb (r_sent _)); reflexivity. Qed.

Lemma send_raw_spec st g o t rs :
  exists q r n tail,
    fst (send_raw_ st g o t rs) = set_next_gid (set_r_sent (set_sq st q) r) n /\
    q = sq st ++ mk_sqe g (eff_owner st o) t 0 rs :: tail /\
    forallb (fun e => negb (countable (q_owner e))) tail = true /\
    next_gid st <= n /\
    Forall (fun e => next_gid st <= q_gid e < n) tail /\
    forallb silent (snd (send_raw_ st g o t rs)) = true.
Proof.
  unfold send_raw_. destruct (countable _ && sm_enabled _ && negb (r_sent _)) eqn:E; cbn.
  - exists (sq st ++ [mk_sqe g (eff_owner st o) t 0 rs] ++ [mk_sqe (next_gid st) OSm R_TEXT 0 false]), true, (next_gid st + 1),
           [mk_sqe (next_gid st) OSm R_TEXT 0 false].
    split; [destruct st; cbn; rewrite <- app_assoc; reflexivity|].
    split; [reflexivity|]. split; [reflexivity|]. split; [lia|].
    split; [|reflexivity]. constructor; [cbn; lia|constructor].
  - exists (sq st ++ [mk_sqe g (eff_owner st o) t 0 rs]), (r_sent st), (next_gid st), [].
    split; [destruct st; reflexivity|].
    split; [reflexivity|]. split; [reflexivity|]. split; [lia|].
    split; [constructor|reflexivity].
Qed.

(* ------------------------------------------------------------------ C05 and the activity flag: holds on every history *)
Definition inv1 (s : sys) : Prop :=
  sm_enabled (fst s) = g_active (snd s) /\
  handled_nr (fst s) = w32 (g_in (snd s)) /\
  g_a (snd s) = g_r (snd s).

(* marks that do not touch g_active / g_in / g_a / g_r *)
Definition quiet1 (o : out) : bool :=
  match o with
  | OG (GSubmit _) | OG (GDone _ _) | OG (GRelease _) | OG (GAck _) | OG GEnabled | OG (GDiscard _ _) | OG (GResumeOut _) => true
  | OG _ => false
  | _ => true
  end.

Definition gv1 (g : ghost) := (g_active g, g_in g, g_a g, g_r g).

Lemma gfold_quiet1 g l : forallb quiet1 l = true -> gv1 (gfold g l) = gv1 g.
Proof.
  revert g; induction l as [|o l IH]; intros g H; [reflexivity|].
  cbn in H. apply andb_true_iff in H as [H1 H2]. rewrite gfold_cons, IH by exact H2.
  destruct o as [| | | |m]; try reflexivity. destruct m; try discriminate; cbn; try reflexivity.
  destruct numbered; reflexivity.
Qed.

Lemma silent_quiet1 l : forallb silent l = true -> forallb quiet1 l = true.
Proof.
  induction l as [|o l IH]; [reflexivity|]. cbn. intros H. apply andb_true_iff in H as [H1 H2].
  rewrite IH by exact H2. destruct o; try discriminate; reflexivity.
Qed.

Lemma forallb_app' {A} (f : A -> bool) a b : forallb f (a ++ b) = forallb f a && forallb f b.
Proof. apply forallb_app. Qed.

(* ------------------------------------------------------------------ frames of the recursive pieces *)
Lemma resend_frame l st :
  exists q r n,
    fst (resend l st) = set_next_gid (set_r_sent (set_sq (set_smq st (match l with [] => smq st | _ => [] end)) q) r) n /\
    forallb silent (snd (resend l st)) = true.
Proof.
  revert st; induction l as [|e l IH]; intros st.
  - exists (sq st), (r_sent st), (next_gid st). split; [destruct st; reflexivity|reflexivity].
  - cbn [resend]. cbn [connected set_smq].
    destruct (connected st) eqn:Ec.
    + destruct (send_raw_spec (set_smq st l) (s_gid e) (s_owner e) (s_text e) true)
        as (q1 & r1 & n1 & tl & E1 & _ & _ & _ & _ & S1).
      destruct (send_raw_ (set_smq st l) (s_gid e) (s_owner e) (s_text e) true) as [st1 o1] eqn:Es.
      cbn [fst snd] in E1, S1.
      destruct (IH st1) as (q2 & r2 & n2 & E2 & S2).
      destruct (resend l st1) as [st2 o2] eqn:Er. cbn [fst snd] in *.
      exists q2, r2, n2. split.
      * rewrite E2, E1. destruct l; destruct st; reflexivity.
      * rewrite forallb_app, S1, S2. reflexivity.
    + destruct (IH (set_smq st l)) as (q2 & r2 & n2 & E2 & S2).
      destruct (resend l (set_smq st l)) as [st2 o2] eqn:Er. cbn [fst snd] in *.
      exists q2, r2, n2. split.
      * rewrite E2. destruct l; destruct st; reflexivity.
      * exact S2.
Qed.

Lemma wloop_frame q sched st :
  exists q' m n,
    fst (fst (fst (wloop q sched st))) = set_sent_nr (set_smq (set_sq st q') m) n /\
    forallb quiet1 (snd (fst (fst (wloop q sched st)))) = true.
Proof.
  revert sched st; induction q as [|e rest IH]; intros sched st.
  - exists [], (smq st), (sent_nr st). split; [destruct st; reflexivity|reflexivity].
  - cbn [wloop].
    destruct (next_send sched (zlen (q_text e) - q_written e)) as [[ret err] sched'].
    destruct (ret =? zlen (q_text e) - q_written e).
    + destruct (countable (q_owner e) && sm_enabled (set_sq st rest)) eqn:Ec.
      * match goal with |- context[wloop rest sched' ?s] => destruct (IH sched' s) as (q' & m & n & E & Q);
          destruct (wloop rest sched' s) as [[[st2 o] er] sl] end.
        cbn [fst snd] in *. exists q', m, n. split; [rewrite E; destruct st; reflexivity|].
        cbn. exact Q.
      * match goal with |- context[wloop rest sched' ?s] => destruct (IH sched' s) as (q' & m & n & E & Q);
          destruct (wloop rest sched' s) as [[[st2 o] er] sl] end.
        cbn [fst snd] in *. exists q', m, n. split; [rewrite E; destruct st; reflexivity|].
        destruct (countable (q_owner e)); cbn; exact Q.
    + destruct (0 <? ret); cbn [fst snd].
      * exists (mk_sqe (q_gid e) (q_owner e) (q_text e) (q_written e + ret) (q_resend e) :: rest), (smq st), (sent_nr st).
        split; [destruct st; reflexivity|reflexivity].
      * exists (e :: rest), (smq st), (sent_nr st). split; [destruct st; reflexivity|reflexivity].
Qed.

(* ------------------------------------------------------------------ counting *)
Definition cnt (l : list Z) (x : Z) : nat := count_occ Z.eq_dec l x.
Lemma cnt_app l1 l2 x : cnt (l1 ++ l2) x = (cnt l1 x + cnt l2 x)%nat.
Proof. apply count_occ_app. Qed.
Lemma cnt_nil x : cnt [] x = 0%nat.
Proof. reflexivity. Qed.
Lemma cnt_cons y l x : cnt (y :: l) x = ((if Z.eq_dec y x then 1 else 0) + cnt l x)%nat.
Proof. unfold cnt. cbn. destruct (Z.eq_dec y x); reflexivity. Qed.
Lemma cnt_fresh l x b : Forall (fun y => y < b) l -> b <= x -> cnt l x = 0%nat.
Proof.
  intros F H. apply count_occ_not_In. intros I. rewrite Forall_forall in F. apply F in I. lia.
Qed.

Definition cq (e : sqe) : bool := countable (q_owner e).
Lemma sqc_app a b : map q_gid (filter cq (a ++ b)) = map q_gid (filter cq a) ++ map q_gid (filter cq b).
Proof. rewrite filter_app, map_app. reflexivity. Qed.
Lemma filter_none {A} (f : A -> bool) l : forallb (fun e => negb (f e)) l = true -> filter f l = [].
Proof.
  induction l as [|a l IH]; [reflexivity|]. cbn. intros H. apply andb_true_iff in H as [H1 H2].
  destruct (f a); [discriminate|]. apply IH, H2.
Qed.

(* ------------------------------------------------------------------ invariants that hold on every history *)
Definition flags1 (st : state) : Prop :=
  (connected st = true -> h_feat st = true -> sm_enabled st = false /\ h_bind st = false /\ h_sm st = false) /\
  (connected st = false -> sm_enabled st = false).
Definition nolib (st : state) : Prop :=
  Forall (fun e => q_owner e <> OLib) (sq st) /\ Forall (fun e => s_owner e = OUser) (smq st).
Definition fresh (s : sys) : Prop :=
  Forall (fun x => x < next_gid (fst s)) (g_subm (snd s)).
Definition conserved_c (s : sys) : Prop :=
  forall x,
    cnt (g_subm (snd s)) x =
      (cnt (sqc (fst s)) x + cnt (smqg (fst s)) x + cnt (g_done (snd s)) x + cnt (g_plain (snd s)) x +
       cnt (g_disc_fresh (snd s)) x + cnt (g_disc_resent (snd s)) x)%nat /\
    (cnt (g_subm (snd s)) x <= 1)%nat.
Definition G1 (s : sys) : Prop :=
  inv1 s /\ flags1 (fst s) /\ nolib (fst s) /\ fresh s /\ conserved_c s.


Arguments cnt : simpl never.
Ltac cs I1 := let x := fresh "x" in intros x; specialize (I1 x); revert I1; unfold sqc, sq_countable, smqg, cq; cbn; rewrite ?map_app, ?cnt_app; cbn; rewrite ?cnt_cons, ?cnt_nil; try lia.
Ltac gn := repeat (cbn [app gout cb] in *; rewrite ?gfold_app, ?gfold_cons, ?gfold_nil in * ).
(* the ghost fields that the marks of the write loop can touch *)
Lemma wloop_g1 q sched st g :
  let r := wloop q sched st in
  let st' := fst (fst (fst r)) in
  let g' := gfold g (snd (fst (fst r))) in
  (forall x, (cnt (map q_gid (filter cq q)) x + cnt (smqg st) x + cnt (g_plain g) x)%nat =
             (cnt (sqc st') x + cnt (smqg st') x + cnt (g_plain g') x)%nat) /\
  g_subm g' = g_subm g /\ g_done g' = g_done g /\ g_disc_fresh g' = g_disc_fresh g /\ g_disc_resent g' = g_disc_resent g /\
  gv1 g' = gv1 g /\
  (Forall (fun e => q_owner e <> OLib) q -> Forall (fun e => q_owner e <> OLib) (sq st')) /\
  (Forall (fun e => q_owner e <> OLib) q -> Forall (fun e => s_owner e = OUser) (smq st) ->
   Forall (fun e => s_owner e = OUser) (smq st')).
Proof.
  revert sched st g; induction q as [|e rest IH]; intros sched st g; cbn zeta.
  - cbn [wloop fst snd]. rewrite gfold_nil. unfold sqc, sq_countable, smqg. cbn.
    repeat split; auto.
  - cbn [wloop].
    destruct (next_send sched (zlen (q_text e) - q_written e)) as [[ret err] sched'].
    destruct (ret =? zlen (q_text e) - q_written e).
    + destruct (countable (q_owner e) && sm_enabled (set_sq st rest)) eqn:Ec.
      * apply andb_true_iff in Ec as [Ec1 Ec2].
        match goal with |- context[wloop rest sched' ?s] =>
          specialize (IH sched' s (gfold g [OG (GDone (q_gid e) true)]));
          destruct (wloop rest sched' s) as [[[st2 o] er] sl] end.
        cbn [fst snd] in *. cbn zeta in IH.
        destruct IH as (I1 & I2 & I3 & I4 & I5 & I6 & I7 & I8).
        gn. cbn [gapply] in *.
        repeat split; try assumption.
        -- unfold cq in *. cbn [filter]. rewrite Ec1. cs I1.
        -- intros F. inversion F; subst. auto.
        -- intros F F2. inversion F; subst. apply I8; [assumption|]. cbn. apply Forall_app. split; [assumption|].
           constructor; [|constructor]. cbn. destruct (q_owner e); try reflexivity; [contradiction|discriminate].
      * match goal with |- context[wloop rest sched' ?s] =>
          specialize (IH sched' s (gfold g (if countable (q_owner e) then [OG (GDone (q_gid e) false)] else [])));
          destruct (wloop rest sched' s) as [[[st2 o] er] sl] end.
        cbn [fst snd] in *. cbn zeta in IH.
        destruct IH as (I1 & I2 & I3 & I4 & I5 & I6 & I7 & I8).
        destruct (countable (q_owner e)) eqn:Eq.
        -- cbn in Ec. gn. cbn [gapply] in *.
           repeat split; try assumption.
           ++ unfold cq in *. cbn [filter]. rewrite Eq. cs I1.
           ++ intros F. inversion F; subst. auto.
           ++ intros F F2. inversion F; subst. apply I8; assumption.
        -- gn.
           repeat split; try assumption.
           ++ unfold cq in *. cbn [filter]. rewrite Eq. cs I1.
           ++ intros F. inversion F; subst. auto.
           ++ intros F F2. inversion F; subst. apply I8; assumption.
    + destruct (0 <? ret); cbn [fst snd]; gn;
        (split; [intros x; unfold sqc, sq_countable, smqg, cq; cbn; destruct (countable (q_owner e)); reflexivity|];
         repeat (split; [reflexivity|]);
         split; [intros F; inversion F; subst; cbn; constructor; auto | intros F F2; exact F2]).
Qed.

Lemma resend_g1 l st :
  connected st = true -> Forall (fun e => s_owner e = OUser) l ->
  let st' := fst (resend l st) in
  sqc st' = sqc st ++ map s_gid l /\
  (Forall (fun e => q_owner e <> OLib) (sq st) -> Forall (fun e => q_owner e <> OLib) (sq st')) /\
  next_gid st <= next_gid st'.
Proof.
  revert st; induction l as [|e l IH]; intros st C F; cbn zeta.
  - cbn. rewrite app_nil_r. repeat split; auto. lia.
  - cbn [resend]. cbn [connected set_smq]. rewrite C.
    inversion F as [|? ? Fe Fl]; subst.
    destruct (send_raw_spec (set_smq st l) (s_gid e) (s_owner e) (s_text e) true)
      as (q1 & r1 & n1 & tl & E1 & Eq & Tl & Hn & _ & S1).
    destruct (send_raw_ (set_smq st l) (s_gid e) (s_owner e) (s_text e) true) as [st1 o1] eqn:Es.
    cbn [fst snd] in E1, S1.
    assert (C1 : connected st1 = true) by (rewrite E1; cbn; exact C).
    specialize (IH st1 C1 Fl). cbn zeta in IH.
    destruct (resend l st1) as [st2 o2] eqn:Er. cbn [fst snd] in *.
    destruct IH as (I1 & I2 & I3).
    assert (Eo : eff_owner (set_smq st l) (s_owner e) = OUser) by (rewrite Fe; reflexivity).
    rewrite Eo in Eq.
    split; [|split].
    + rewrite I1. rewrite E1. unfold sqc, sq_countable. cbn [sq set_next_gid set_r_sent set_sq]. rewrite Eq.
      cbn [sq set_smq]. fold cq. rewrite filter_app. cbn [filter]. unfold cq at 2. cbn [q_owner countable].
      fold cq. rewrite (filter_none cq tl Tl). rewrite map_app. cbn [map q_gid]. rewrite <- app_assoc. cbn [app]. reflexivity.
    + intros Fq. apply I2. rewrite E1. cbn [sq set_next_gid set_r_sent set_sq]. rewrite Eq. cbn [sq set_smq].
      apply Forall_app. split; [exact Fq|]. constructor; [cbn; discriminate|].
      clear - Tl. induction tl as [|a tl IHt]; [constructor|]. cbn in Tl. apply andb_true_iff in Tl as [T1 T2].
      constructor; [|apply IHt, T2]. destruct (q_owner a); cbn in T1; try discriminate.
    + rewrite E1 in I3. cbn in I3. cbn in Hn. lia.
Qed.
